/-
  The transaction tree of an accepted emergency withdrawal (C09Sys `emergency_withdraw_tx_effect`):
  the handler's outcome in the emergency branch, the distinctness of the farm owners that share the
  penalty, and the bank fold over the per-owner transfers.
-/
import MantraDex.Proofs.FarmTxCreate
import MantraDex.Properties.C09

set_option linter.unusedSimpArgs false
set_option linter.unusedVariables false

namespace MantraDex.FarmTx
open MantraDex
open MantraDex.C01 (coinsOf amt coinsOf_cons coinsOf_nil)

/-- the farms that count as "currently active" for the penalty split, as `withdraw_position` selects them -/
def activeFarms (s : FmState) (env : FmEnv) (lp : Denom) : R (List Farm) := do
  let cur ← fmCurrentEpoch s env
  (s.farmsByLp lp C.MAX_FARMS_LIMIT).filterM fun f => do
    if f.startEpoch ≤ cur then do
      let ex ← isFarmExpiredOrFalse s env f
      pure (!ex)
    else pure false

/-- the messages of an emergency withdrawal -/
def emMsgs (fc : Addr) (p : Position) (owners : List Addr) (sp : PenaltySplit) : List Msg :=
  ((if sp.nFarmOwners = 0 then [] else owners.map fun o => Msg.bankSend o [⟨p.lpDenom, sp.perFarmOwner⟩]) ++
    (if sp.feeCollector > 0 then [Msg.bankSend fc [⟨p.lpDenom, sp.feeCollector⟩]] else [])) ++
  (if p.amount - sp.total ≠ 0 then [Msg.bankSend p.receiver [⟨p.lpDenom, p.amount - sp.total⟩]] else [])

theorem withdraw_emergency_inv {s s' : FmState} {env : FmEnv} {sender : Addr} {p : Position} {r : Response}
    (hp : s.getPosition p.id = some p)
    (hnot : (⟨p.amount, p.unlocking, p.expiringAt⟩ : PosView).isExpired env.nowS = false)
    (h : withdrawPosition s env sender [] p.id (some true) = .ok (s', r)) :
    sender = p.receiver ∧
    ∃ rate active sp,
      calculateEmergencyPenalty ⟨p.amount, p.unlocking, p.expiringAt⟩ s.config.emergencyUnlockPenalty
        env.nowS = .ok rate ∧
      activeFarms s env p.lpDenom = .ok active ∧
      penaltySplit p.amount rate (uniqueOwners active).length = .ok sp ∧
      s'.getPosition p.id = none ∧ s'.farms = s.farms ∧
      r.msgs = (emMsgs s.config.feeCollector p (uniqueOwners active) sp).map mkSub := by
  unfold withdrawPosition at h
  rw [hp] at h
  simp only [bind_ok, error_bind, pure_bind', ite_error_ok] at h
  obtain ⟨_, _, hauth, h⟩ := h
  have hs : sender = p.receiver := by
    have : ¬ p.receiver ≠ sender := by simpa using hauth
    exact (Classical.not_not.mp this).symm
  have hcond : (some true == some true &&
      !(⟨p.amount, p.unlocking, p.expiringAt⟩ : PosView).isExpired env.nowS) = true := by
    rw [hnot]; rfl
  rw [if_pos hcond] at h
  simp only [bind_ok] at h
  obtain ⟨rate, hrate, cur, hcur, active, hact, sp, hsp, h⟩ := h
  have hactive : activeFarms s env p.lpDenom = .ok active := by
    unfold activeFarms
    rw [hcur]
    exact hact
  refine ⟨hs, rate, active, sp, hrate, hactive, hsp, ?_⟩
  have tail : ∀ (s1 s3 : FmState), SameStore s s1 → SameStore (s1.removePosition p.id) s3 →
      s3.getPosition p.id = none ∧ s3.farms = s.farms := by
    intro s1 s3 hs1 hs3
    refine ⟨?_, ?_⟩
    · rw [hs3.getPosition]; exact getPosition_remove_same _ _
    · rw [hs3.2.1]; exact hs1.2.1
  split at h
  · simp only [bind_ok, pure_ok, Prod.mk.injEq] at h
    obtain ⟨s1, h1, x, h3, rfl, rfl⟩ := h
    obtain ⟨t1, t2⟩ := tail s1 _ (updateWeights_sameStore h1) (reconcileUserState_sameStore h3)
    exact ⟨t1, t2, rfl⟩
  · simp only [bind_ok, pure_ok, Prod.mk.injEq] at h
    obtain ⟨rfl, rfl⟩ := h
    obtain ⟨t1, t2⟩ := tail s _ (SameStore.refl s) (SameStore.refl _)
    exact ⟨t1, t2, rfl⟩

/-! ### the owners that share the penalty are distinct -/

theorem uniqueOwners_nodup (fs : List Farm) : (uniqueOwners fs).Nodup := by
  unfold uniqueOwners
  rw [(List.mergeSort_perm _ _).nodup_iff]
  suffices ∀ (acc : List Addr), acc.Nodup →
      (fs.foldl (fun acc f => if acc.contains f.owner then acc else acc ++ [f.owner]) acc).Nodup from
    this [] List.nodup_nil
  induction fs with
  | nil => intro acc h; exact h
  | cons f fs ih =>
    intro acc h
    rw [List.foldl_cons]
    apply ih
    split
    · exact h
    · rename_i hc
      have hni : f.owner ∉ acc := by
        intro hm; exact hc (List.contains_iff_mem.2 hm)
      rw [List.nodup_append]
      refine ⟨h, by simp, ?_⟩
      intro a ha b hb
      simp only [List.mem_singleton] at hb
      subst hb
      intro e; subst e; exact hni ha

/-! ### the bank fold over the per-owner transfers -/

theorem owners_run {tf : List Coin} {lp : Denom} {per : Nat} : ∀ (owners : List Addr) {b b' : Bank},
    owners.Nodup →
    bankRun tf b FM (owners.map fun o => Msg.bankSend o [⟨lp, per⟩]) = .ok b' →
    ∀ a d, (b'.bal a d : Int) = (b.bal a d : Int) + (if d = lp ∧ a ∈ owners then (per : Int) else 0)
      - (if d = lp ∧ a = FM then ((owners.length * per : Nat) : Int) else 0) := by
  intro owners
  induction owners with
  | nil =>
    intro b b' _ h a d
    simp only [List.map_nil, bankRun] at h
    cases h
    simp
  | cons o os ih =>
    intro b b' hnd h a d
    simp only [List.map_cons, bankRun, bankStep] at h
    obtain ⟨b1, h1, h⟩ := bind_ok.mp h
    obtain ⟨hno, hnd'⟩ := List.nodup_cons.1 hnd
    have e := (send_spec h1).2.bal a d
    have i := ih hnd' h a d
    rw [coinsOf_single] at e
    simp only at e
    rw [i]
    simp only [List.length_cons, Nat.succ_mul, List.mem_cons]
    generalize os.length * per = Q at *
    by_cases hd : d = lp
    · subst hd
      simp only [true_and, if_true] at e ⊢
      have key : (if a = o ∨ a ∈ os then (per : Int) else 0) =
          (if a = o then (per : Int) else 0) + (if a ∈ os then (per : Int) else 0) := by
        by_cases c2 : a = o
        · subst c2; simp [hno]
        · simp [c2]
      rw [key]
      by_cases c1 : a = FM <;> by_cases c2 : a = o <;> by_cases c3 : a ∈ os <;>
        (try simp only [if_pos c1] at e ⊢) <;> (try simp only [if_neg c1] at e ⊢) <;>
        (try simp only [if_pos c2] at e ⊢) <;> (try simp only [if_neg c2] at e ⊢) <;>
        (try simp only [if_pos c3] at e ⊢) <;> (try simp only [if_neg c3] at e ⊢) <;>
        omega
    · have hd' : ¬ lp = d := fun e => hd e.symm
      simp only [hd, hd', false_and, if_false] at e ⊢
      split at e <;> split at e <;> omega

theorem emMsgs_leaf (fc : Addr) (p : Position) (owners : List Addr) (sp : PenaltySplit) :
    ∀ m ∈ emMsgs fc p owners sp, IsLeaf m := by
  intro m hm
  unfold emMsgs at hm
  simp only [List.mem_append] at hm
  rcases hm with (hm | hm) | hm
  · split at hm
    · cases hm
    · obtain ⟨o, _, rfl⟩ := List.mem_map.1 hm
      trivial
  · split at hm
    · simp only [List.mem_singleton] at hm; subst hm; trivial
    · cases hm
  · split at hm
    · simp only [List.mem_singleton] at hm; subst hm; trivial
    · cases hm

/-- the number of transfers to farm owners is the number of owners (when there are transfers at all) -/
theorem nFarmOwners_eq {amount penalty n : Nat} {sp : PenaltySplit}
    (h : penaltySplit amount penalty n = .ok sp) (hn : sp.nFarmOwners ≠ 0) : sp.nFarmOwners = n := by
  obtain ⟨_, _, _, hcases⟩ := C09.penaltySplit_ok h
  rcases hcases with ⟨_, _, h0, _⟩ | ⟨_, _, h0, _⟩ | ⟨_, _, _, h0, _⟩
  · exact absurd h0 hn
  · exact h0
  · exact absurd h0 hn

/-- the transaction tree of an accepted emergency withdrawal -/
theorem emergency_withdraw_run {w w' : World} {u : Addr} {p : Position}
    (hp : w.fm.getPosition p.id = some p)
    (hnot : (⟨p.amount, p.unlocking, p.expiringAt⟩ : PosView).isExpired w.fmEnv.nowS = false)
    (h : runTx w (.exec u FM (.fm (.withdrawPosition p.id (some true))) []) = .ok w') :
    u = p.receiver ∧
    ∃ rate active sp,
      calculateEmergencyPenalty ⟨p.amount, p.unlocking, p.expiringAt⟩ w.fm.config.emergencyUnlockPenalty
        w.fmEnv.nowS = .ok rate ∧
      activeFarms w.fm w.fmEnv p.lpDenom = .ok active ∧
      penaltySplit p.amount rate (uniqueOwners active).length = .ok sp ∧
      w'.fm.getPosition p.id = none ∧ w'.pm = w.pm ∧ w'.fm.farms = w.fm.farms ∧
      ∃ b1 b2 : Bank,
        (∀ a d, (b1.bal a d : Int) = (w.bank.bal a d : Int)
          + (if d = p.lpDenom ∧ a ∈ uniqueOwners active ∧ sp.nFarmOwners ≠ 0 then (sp.perFarmOwner : Int) else 0)
          - (if d = p.lpDenom ∧ a = FM then ((sp.nFarmOwners * sp.perFarmOwner : Nat) : Int) else 0)) ∧
        Moves b1 b2 FM w.fm.config.feeCollector [⟨p.lpDenom, sp.feeCollector⟩] ∧
        Moves b2 w'.bank FM p.receiver [⟨p.lpDenom, p.amount - sp.total⟩] := by
  unfold runTx at h
  simp only at h
  have h64 : FUEL = 63 + 1 := rfl
  rw [h64, execMsg_fm_eq] at h
  obtain ⟨⟨s1, r⟩, hx, hsubs⟩ := bind_ok.mp h
  simp only [fmExecute] at hx
  have hx' : withdrawPosition w.fm w.fmEnv u [] p.id (some true) = .ok (s1, r) := hx
  obtain ⟨hu, rate, active, sp, hrate, hact, hsp, hgone, hfarms, hr⟩ := withdraw_emergency_inv hp hnot hx'
  refine ⟨hu, rate, active, sp, hrate, hact, hsp, ?_⟩
  simp only at hsubs
  rw [hr] at hsubs
  have hfuel := execSubs_leaf_fuel _ _ _ _ _ hsubs
  rw [execSubs_leaf _ 63 _ FM (emMsgs_leaf _ _ _ _) hfuel] at hsubs
  obtain ⟨b3, hrun, hw'⟩ := bind_ok.mp hsubs
  simp only [pure_ok] at hw'
  subst hw'
  refine ⟨hgone, rfl, hfarms, ?_⟩
  unfold emMsgs at hrun
  rw [bankRun_append, bankRun_append] at hrun
  obtain ⟨b2, h12, h3⟩ := bind_ok.mp hrun
  obtain ⟨b1, h1, h2⟩ := bind_ok.mp h12
  refine ⟨b1, b2, ?_, ?_, optSend_spec h3⟩
  · intro a d
    by_cases hn : sp.nFarmOwners = 0
    · rw [if_pos hn] at h1
      simp only [bankRun] at h1
      cases h1
      simp [hn]
    · rw [if_neg hn] at h1
      have := owners_run (uniqueOwners active) (uniqueOwners_nodup active) h1 a d
      rw [this]
      simp only [hn, ne_eq, not_false_iff, and_true]
      rw [nFarmOwners_eq hsp hn]
  · by_cases h0 : sp.feeCollector > 0
    · rw [if_pos h0, bankRun_single] at h2
      exact (send_spec h2).2
    · rw [if_neg h0] at h2
      simp only [bankRun] at h2
      cases h2
      exact moves_zero (by show sp.feeCollector = 0; omega)

end MantraDex.FarmTx
