/-
  C06Sys, part 3 (entry-free): how every handler other than `claim` moves the weight histories and the claim
  cursors (`Evo`): weights in effect at or before the current epoch are frozen for the total and can only
  drop for users, every new snapshot is written at `current epoch + 1`, a cursor is kept or reset.
-/
import MantraDex.Proofs.WSysFmY

set_option linter.unusedSimpArgs false
set_option linter.unusedVariables false

namespace MantraDex.LedSys
open MantraDex MantraDex.WSys

/-- `c` is the current epoch (if defined) -/
structure Evo (me : Addr) (c : Option Nat) (s s' : FmState) : Prop where
  frozen : ∀ cur, c = some cur → ∀ lp e, e ≤ cur →
    Spec.weightAt (s'.hist me lp) e = Spec.weightAt (s.hist me lp) e
  lower : ∀ cur, c = some cur → ∀ a lp e, a ≠ me → e ≤ cur →
    Spec.weightAt (s'.hist a lp) e ≤ Spec.weightAt (s.hist a lp) e
  snaps : ∀ a lp sn, sn ∈ s'.hist a lp → sn ∈ s.hist a lp ∨ ∃ cur, c = some cur ∧ sn.1 = cur + 1
  cursor : ∀ u, s'.lastClaimed u = s.lastClaimed u ∨ s'.lastClaimed u = none

theorem Evo.refl (me : Addr) (c : Option Nat) (s : FmState) : Evo me c s s :=
  ⟨fun _ _ _ _ _ => rfl, fun _ _ _ _ _ _ _ => Nat.le_refl _, fun _ _ _ h => Or.inl h, fun _ => Or.inl rfl⟩

theorem Evo.trans {me : Addr} {c : Option Nat} {a b d : FmState} (h1 : Evo me c a b) (h2 : Evo me c b d) :
    Evo me c a d := by
  refine ⟨?_, ?_, ?_, ?_⟩
  · intro cur hc lp e he
    rw [h2.frozen cur hc lp e he, h1.frozen cur hc lp e he]
  · intro cur hc x lp e hx he
    exact Nat.le_trans (h2.lower cur hc x lp e hx he) (h1.lower cur hc x lp e hx he)
  · intro x lp sn hsn
    rcases h2.snaps x lp sn hsn with h | h
    · exact h1.snaps x lp sn h
    · exact Or.inr h
  · intro u
    rcases h2.cursor u with h | h
    · rw [h]; exact h1.cursor u
    · exact Or.inr h

theorem evo_of_eq {me : Addr} {c : Option Nat} {s s' : FmState} (hh : s'.hist = s.hist)
    (hl : s'.lastClaimed = s.lastClaimed) : Evo me c s s' := by
  refine ⟨?_, ?_, ?_, ?_⟩
  · intro _ _ _ _ _; rw [hh]
  · intro _ _ _ _ _ _ _; rw [hh]; exact Nat.le_refl _
  · intro a lp sn h; rw [hh] at h; exact Or.inl h
  · intro u; rw [hl]; exact Or.inl rfl

theorem toOpt_of_cfg {s st : FmState} {env : FmEnv} (h : st.config.epochManager = s.config.epochManager) :
    ∀ cur, fmCurrentEpoch st env = .ok cur → (fmCurrentEpoch s env).toOption = some cur := by
  intro cur hc
  rw [fmCurrentEpoch_congr env h] at hc
  rw [hc]; rfl

/-! ### `update_weights` -/

theorem updateWeights_last {s s' : FmState} {env : FmEnv} {recv : Addr} {lp : Denom}
    {amount unlocking : Nat} {fill : Bool}
    (h : updateWeights s env recv lp amount unlocking fill = .ok s') : s'.lastClaimed = s.lastClaimed := by
  unfold updateWeights at h
  cases fill
  · simp only [bind_ok, fit_ok, pure_ok, Bool.false_eq_true, if_false] at h
    obtain ⟨cur, _, w, _, e, _, cw', _, uw', _, rfl⟩ := h
    rfl
  · simp only [bind_ok, fit_ok, pure_ok, if_true, ckAdd_ok] at h
    obtain ⟨cur, _, w, _, e, _, cw', _, uw', _, rfl⟩ := h
    rfl

theorem evo_updateWeights {s s' : FmState} {env : FmEnv} {recv : Addr} {lp : Denom} {c : Option Nat}
    {amount unlocking : Nat} {fill : Bool}
    (hc : ∀ cur, fmCurrentEpoch s env = .ok cur → c = some cur)
    (h : updateWeights s env recv lp amount unlocking fill = .ok s') : Evo env.self c s s' := by
  obtain ⟨cur, w, cw', uw', hcur, _, hT, hR, hO⟩ := updateWeights_hist h
  have hcc := hc cur hcur
  have hhist : ∀ a d, s'.hist a d = s.hist a d ∨ ∃ v, s'.hist a d = histSet (s.hist a d) (cur + 1) v := by
    intro a d
    by_cases h1 : (a, d) = (env.self, lp)
    · cases h1; exact Or.inr ⟨_, hT⟩
    · by_cases h2 : (a, d) = (recv, lp)
      · cases h2
        exact Or.inr ⟨_, hR (fun e => h1 (by rw [e]))⟩
      · exact Or.inl (hO a d h2 h1)
  have hw : ∀ a d e, e ≤ cur → Spec.weightAt (s'.hist a d) e = Spec.weightAt (s.hist a d) e := by
    intro a d e he
    rcases hhist a d with h1 | ⟨v, h1⟩
    · rw [h1]
    · rw [h1, weightAt_histSet_before _ _ _ _ (by omega)]
  refine ⟨?_, ?_, ?_, ?_⟩
  · intro cur' hc' lp' e he
    rw [hcc] at hc'; cases hc'
    exact hw _ _ _ he
  · intro cur' hc' a lp' e _ he
    rw [hcc] at hc'; cases hc'
    rw [hw _ _ _ he]; exact Nat.le_refl _
  · intro a d sn hsn
    rcases hhist a d with h1 | ⟨v, h1⟩
    · rw [h1] at hsn; exact Or.inl hsn
    · rw [h1] at hsn
      rcases Farm.mem_histSet hsn with rfl | hsn
      · exact Or.inr ⟨cur, hcc, rfl⟩
      · exact Or.inl hsn
  · intro u; rw [updateWeights_last h]; exact Or.inl rfl

/-! ### clearing a user's history, `reconcile_user_state` -/

theorem evo_clear {me : Addr} {c : Option Nat} {s : FmState} {a : Addr} {lp : Denom} (ha : a ≠ me) :
    Evo me c s (s.setHist a lp []) := by
  refine ⟨?_, ?_, ?_, ?_⟩
  · intro _ _ lp' e _
    rw [setHist_hist, if_neg (fun h => ha h.1.symm)]
  · intro _ _ x lp' e _ _
    rw [setHist_hist]
    split
    · exact Nat.zero_le _
    · exact Nat.le_refl _
  · intro x lp' sn hsn
    rw [setHist_hist] at hsn
    split at hsn
    · cases hsn
    · exact Or.inl hsn
  · intro u; exact Or.inl rfl

theorem reconcile_last {s s' : FmState} {env : FmEnv} {recv : Addr} {lp : Denom}
    (h : reconcileUserState s env recv lp = .ok s') :
    ∀ a, s'.lastClaimed a = s.lastClaimed a ∨
      (a = recv ∧ s'.lastClaimed a = none ∧ (s.positionsBy recv true).isEmpty = true) := by
  unfold reconcileUserState at h
  simp only at h
  generalize hs1 : (if (s.positionsBy recv true).isEmpty = true then
      ({ s with lastClaimed := fun a => if a = recv then none else s.lastClaimed a } : FmState) else s) = s1 at h
  have h1 : ∀ a, s1.lastClaimed a = s.lastClaimed a ∨
      (a = recv ∧ s1.lastClaimed a = none ∧ (s.positionsBy recv true).isEmpty = true) := by
    intro a
    subst hs1
    split
    next he =>
      by_cases ha : a = recv
      · right; exact ⟨ha, by simp only [ha, if_true], he⟩
      · left; simp only [ha, if_false]
    next => exact Or.inl rfl
  have h2 : s'.lastClaimed = s1.lastClaimed := by
    split at h
    · simp only [bind_ok] at h
      obtain ⟨cur, _, h⟩ := h
      exact (Farm.sync_frame h).2
    · simp only [pure_ok] at h
      rw [h]
  intro a
  rw [h2]; exact h1 a

theorem evo_reconcile {s s' : FmState} {env : FmEnv} {recv : Addr} {lp : Denom} {c : Option Nat}
    (hr : recv ≠ env.self) (h : reconcileUserState s env recv lp = .ok s') : Evo env.self c s s' := by
  have hl := reconcile_last h
  have hcur : ∀ u, s'.lastClaimed u = s.lastClaimed u ∨ s'.lastClaimed u = none := by
    intro u
    rcases hl u with h1 | ⟨_, h1, _⟩
    · exact Or.inl h1
    · exact Or.inr h1
  rcases reconcile_hist h with e | e
  · have := evo_of_eq (me := env.self) (c := c) (s := s) (s' := s) rfl rfl
    exact ⟨by rw [e]; exact this.frozen, by rw [e]; exact this.lower, by rw [e]; exact this.snaps, hcur⟩
  · have := evo_clear (me := env.self) (c := c) (s := s) (lp := lp) hr
    exact ⟨by rw [e]; exact this.frozen, by rw [e]; exact this.lower, by rw [e]; exact this.snaps, hcur⟩

/-- no open position at all: none in any LP token -/
theorem noOpen_of_positionsBy_empty {s : FmState} {u : Addr} (h : (s.positionsBy u true).isEmpty = true)
    (lp : Denom) : NoOpen s u lp := by
  intro p hp hr _
  unfold FmState.positionsBy at h
  have hnil : (s.positions.filter fun p => p.receiver == u && p.open_ == true) = [] := by
    cases hf : (s.positions.filter fun p => p.receiver == u && p.open_ == true) with
    | nil => rfl
    | cons x xs =>
      rw [hf] at h
      simp [C.MAX_POSITIONS_LIMIT] at h
  rw [List.filter_eq_nil_iff] at hnil
  have := hnil p hp
  simp only [Bool.and_eq_true, beq_iff_eq, not_and, Bool.not_eq_true] at this
  cases ho : p.open_ with
  | false => rfl
  | true => have := this hr; rw [ho] at this; cases this

end MantraDex.LedSys
