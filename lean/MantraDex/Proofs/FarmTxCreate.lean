/-
  The transaction tree of an accepted `create_farm` when no expired farm is closed on the way
  (C11Sys `create_farm_tx_effect`): funds move, the handler runs, the fee messages (optional refund of an
  overpaid fee to the creator, fee to the collector) run as a bank fold.
-/
import MantraDex.Proofs.FarmTxLemmas

set_option linter.unusedSimpArgs false
set_option linter.unusedVariables false

namespace MantraDex.FarmTx
open MantraDex
open MantraDex.C01 (coinsOf amt coinsOf_cons coinsOf_nil)

theorem moves_zero {b : Bank} {frm to : Addr} {coin : Coin} (h0 : coin.amount = 0) :
    Moves b b frm to [coin] := by
  refine ⟨fun d => ?_, fun x d => ?_, fun d => ?_, rfl⟩
  · rw [coinsOf_zero_amount h0]; omega
  · rw [coinsOf_zero_amount h0]; simp
  · rw [coinsOf_zero_amount h0]; omega

/-- no farm expired: `create_farm` closes nothing -/
theorem cfExpired_nil {s : FmState} {env : FmEnv} {p : FarmParams} {flags : List Bool}
    (hnoexp : ∀ g ∈ s.farmsByLp p.lpDenom s.config.maxConcurrentFarms, isFarmExpiredOrFalse s env g = .ok false)
    (hflags : (FH.cfFarms s p).mapM (fun f => isFarmExpiredOrFalse s env f) = .ok flags) :
    FH.cfExpired s p flags = [] := by
  obtain ⟨_, hz⟩ := FH.mapM_ok_zip _ _ _ hflags
  unfold FH.cfExpired
  have : ((FH.cfFarms s p).zip flags).filter (·.2) = [] := by
    apply List.filter_eq_nil_iff.2
    intro x hx
    have h1 := hz x hx
    have h2 := hnoexp x.1 (List.of_mem_zip hx).1
    rw [h2] at h1
    simp only [Except.ok.injEq] at h1
    simp [← h1]
  rw [this]
  rfl

theorem closeFarms_nil (s : FmState) : closeFarms s [] = (s, []) := rfl

/-- the fee messages, taken apart: an optional refund to the sender, then the fee to the collector; the
    funds are the reward, the refund and the fee -/
theorem fee_bank {tf : List Coin} {cfg : FmConfig} {sender : Addr} {funds : List Coin} {asset : Coin}
    {feeMsgs : List Msg} {b1 b2 : Bank}
    (hfm : (if cfg.createFarmFee.amount ≠ 0 then processFarmCreationFee cfg sender funds asset else pure [])
      = .ok feeMsgs)
    (hassert : assertFarmAsset funds cfg.createFarmFee asset = .ok ())
    (hrun : bankRun tf b1 FM feeMsgs = .ok b2) :
    ∃ (x : Bank) (r : Nat), Moves b1 x FM sender [⟨cfg.createFarmFee.denom, r⟩] ∧
      Moves x b2 FM cfg.feeCollector [cfg.createFarmFee] ∧
      ∀ d, coinsOf funds d = coinsOf [asset] d + coinsOf [⟨cfg.createFarmFee.denom, r⟩] d +
        coinsOf [cfg.createFarmFee] d := by
  obtain ⟨ex1, ex2, ex3⟩ := C11.farm_asset_exact hassert
  by_cases hfee : cfg.createFarmFee.amount ≠ 0
  · rw [if_pos hfee] at hfm
    obtain ⟨paid, hfind, hle, rfl⟩ := C11.farm_fee_messages hfee hfm
    rw [bankRun_append] at hrun
    obtain ⟨x, hx, hx2⟩ := bind_ok.mp hrun
    rw [bankRun_single] at hx2
    have m2 : Moves x b2 FM cfg.feeCollector [cfg.createFarmFee] := (send_spec hx2).2
    by_cases hden : cfg.createFarmFee.denom = asset.denom
    · -- one coin: reward + fee, nothing to refund
      have hb : (cfg.createFarmFee.denom == asset.denom) = true := by simp [hden]
      simp only [hb, or_true, if_true, bankRun] at hx
      cases hx
      refine ⟨b1, 0, moves_zero rfl, m2, ?_⟩
      intro d
      rw [ex3 hden, coinsOf_single, coinsOf_single, coinsOf_single, coinsOf_single]
      simp only [hden]
      split <;> omega
    · -- two coins: the reward and the (possibly overpaid) fee
      have hb : (cfg.createFarmFee.denom == asset.denom) = false := by simp [hden]
      obtain ⟨hlen, c, hc, hcd, hca⟩ := ex2 ⟨hden, hfee⟩
      cases hf : funds.find? (·.denom == cfg.createFarmFee.denom) with
      | none => rw [hf] at hfind; cases hfind
      | some c2 =>
        rw [hf] at hfind
        simp only [Option.map_some, Option.some.injEq] at hfind
        have hc2 : c2 ∈ funds := List.mem_of_find?_eq_some hf
        have hc2d : c2.denom = cfg.createFarmFee.denom := by simpa using List.find?_some hf
        have hne : c ≠ c2 := by
          intro e; subst e; exact hden (hc2d.symm.trans hcd)
        have hF : ∀ d, coinsOf funds d = coinsOf [c] d + coinsOf [c2] d := by
          intro d
          match funds, hlen with
          | [y, z], _ =>
            simp only [List.mem_cons, List.not_mem_nil, or_false] at hc hc2
            rcases hc with rfl | rfl <;> rcases hc2 with rfl | rfl
            · exact absurd rfl hne
            · simp only [coinsOf_cons, coinsOf_nil]; omega
            · simp only [coinsOf_cons, coinsOf_nil]; omega
            · exact absurd rfl hne
        have hmove : Moves b1 x FM sender [⟨cfg.createFarmFee.denom, paid - cfg.createFarmFee.amount⟩] := by
          by_cases hp : paid = cfg.createFarmFee.amount
          · simp only [hp, hb, or_false, if_true, bankRun, Bool.false_eq_true] at hx
            cases hx
            exact moves_zero (by simp [hp])
          · simp only [hp, hb, or_false, if_false, Bool.false_eq_true, bankRun_single, bankStep] at hx
            exact (send_spec hx).2
        refine ⟨x, paid - cfg.createFarmFee.amount, hmove, m2, ?_⟩
        intro d
        rw [hF d, coinsOf_single, coinsOf_single, coinsOf_single, coinsOf_single, coinsOf_single]
        simp only [hcd, hca, hc2d, hfind]
        split <;> split <;> omega
  · rw [if_neg hfee] at hfm
    simp only [pure_ok] at hfm
    subst hfm
    simp only [bankRun] at hrun
    cases hrun
    have h0 : cfg.createFarmFee.amount = 0 := by omega
    refine ⟨b1, 0, moves_zero rfl, moves_zero h0, ?_⟩
    intro d
    rw [coinsOf_zero_amount h0, coinsOf_zero_amount (coin := ⟨cfg.createFarmFee.denom, 0⟩) rfl]
    by_cases hden : cfg.createFarmFee.denom = asset.denom
    · rw [ex3 hden, coinsOf_single, coinsOf_single, h0]
      simp
    · rw [ex1 ⟨hden, h0⟩]
      omega

theorem feeMsgs_leaf {cfg : FmConfig} {sender : Addr} {funds : List Coin} {asset : Coin} {feeMsgs : List Msg}
    (hfm : (if cfg.createFarmFee.amount ≠ 0 then processFarmCreationFee cfg sender funds asset else pure [])
      = .ok feeMsgs) : ∀ m ∈ feeMsgs, IsLeaf m := by
  intro m hm
  by_cases hfee : cfg.createFarmFee.amount ≠ 0
  · rw [if_pos hfee] at hfm
    obtain ⟨paid, -, -, rfl⟩ := C11.farm_fee_messages hfee hfm
    simp only [List.mem_append, List.mem_singleton] at hm
    rcases hm with hm | rfl
    · split at hm
      · cases hm
      · simp only [List.mem_singleton] at hm
        subst hm; trivial
    · trivial
  · rw [if_neg hfee] at hfm
    simp only [pure_ok] at hfm
    subst hfm
    cases hm

/-- the transaction tree of an accepted `create_farm` that closes no expired farm -/
theorem create_farm_run {w w' : World} {u : Addr} {p : FarmParams} {funds : List Coin}
    (hnoexp : ∀ g ∈ w.fm.farmsByLp p.lpDenom w.fm.config.maxConcurrentFarms,
      isFarmExpiredOrFalse w.fm w.fmEnv g = .ok false)
    (h : runTx w (.exec u FM (.fm (.createFarm p)) funds) = .ok w') :
    (∃ f, f ∈ w'.fm.farms ∧ (∀ g ∈ w.fm.farms, g.id ≠ f.id) ∧ f.owner = u ∧ f.lpDenom = p.lpDenom ∧
      f.assetDenom = p.asset.denom ∧ f.assetAmount = p.asset.amount ∧ f.claimed = 0 ∧
      ∀ g ∈ w.fm.farms, g ∈ w'.fm.farms) ∧
    ∃ (b1 x : Bank) (r : Nat),
      Moves { w.bank with calls := 0, failAt := none } b1 u FM funds ∧
      Moves b1 x FM u [⟨w.fm.config.createFarmFee.denom, r⟩] ∧
      Moves x w'.bank FM w.fm.config.feeCollector [w.fm.config.createFarmFee] ∧
      ∀ d, coinsOf funds d = coinsOf [p.asset] d + coinsOf [⟨w.fm.config.createFarmFee.denom, r⟩] d +
        coinsOf [w.fm.config.createFarmFee] d := by
  unfold runTx at h
  simp only at h
  have h64 : FUEL = 63 + 1 := rfl
  rw [h64] at h
  obtain ⟨b1, s, r, hb, hx, hsubs⟩ := execMsg_fm_any h
  simp only [fmExecute] at hx
  have hx' : createFarm w.fm w.fmEnv u funds p = .ok (s, r) := hx
  obtain ⟨cur, flags, feeMsgs, start, end_, rate, hcur, hflags, _, _, hfm, hassert, _, _, hany,
    rfl, rfl⟩ := FH.createFarm_inv hx'
  have hexp := cfExpired_nil hnoexp hflags
  rw [hexp, closeFarms_nil] at hany hsubs
  simp only [List.append_nil] at hsubs
  simp only at hany
  have hsubs' : execSubs 63 _ FM (feeMsgs.map mkSub) = .ok w' := hsubs
  have hfuel := execSubs_leaf_fuel feeMsgs _ _ _ _ hsubs'
  rw [execSubs_leaf feeMsgs 63 _ FM (feeMsgs_leaf hfm) hfuel] at hsubs'
  obtain ⟨b2, hrun, hw'⟩ := bind_ok.mp hsubs'
  simp only [pure_ok] at hw'
  subst hw'
  rcases hb with ⟨rfl, _⟩ | ⟨hne, hb⟩
  · simp [assertFarmAsset, bind, Except.bind] at hassert
  obtain ⟨x, rr, mv1, mv2, hF⟩ := fee_bank hfm hassert hrun
  refine ⟨⟨{ id := (FH.cfIdState w.fm p).1, owner := u, lpDenom := p.lpDenom, assetDenom := p.asset.denom,
             assetAmount := p.asset.amount, claimed := 0, emissionRate := rate, startEpoch := start,
             endEpoch := end_ }, ?_, ?_, rfl, rfl, rfl, rfl, rfl, ?_⟩, b1, x, rr, (send_spec hb).2, mv1, mv2, hF⟩
  · exact (FH.saveFarm_perm_new hany).mem_iff.2 List.mem_cons_self
  · intro g hg
    have hg' : g ∈ (FH.cfIdState w.fm p).2.farms := by rw [FH.cfIdState_farms]; exact hg
    have := List.any_eq_false.1 hany g hg'
    simpa using this
  · intro g hg
    have hg' : g ∈ (FH.cfIdState w.fm p).2.farms := by rw [FH.cfIdState_farms]; exact hg
    exact (FH.saveFarm_perm_new hany).mem_iff.2 (List.mem_cons_of_mem _ hg')

end MantraDex.FarmTx
