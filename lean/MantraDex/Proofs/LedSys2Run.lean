/-
  C07Sys, part 2 (entry-free): the runtime lift of `LedSysRun`, for predicates on the farm-manager state whose
  preservation needs the handler execution itself (farms change), not only its effect on histories and cursors.
-/
import MantraDex.Proofs.LedSysRun

set_option linter.unusedSimpArgs false
set_option linter.unusedVariables false

namespace MantraDex.LedSys
open MantraDex MantraDex.WSys

/-- preserved by every accepted handler call other than `claim` / `update_config` -/
def Carried2 (env0 : FmEnv) (P : FmState → Prop) : Prop :=
  ∀ (s s' : FmState) (sender : Addr) (funds : List Coin) (m : FmMsg) (r : Response),
    P s → FInv s env0 → FmSys.PosWF s → FInv s' env0 → sender ≠ env0.self → (∀ u, m ≠ .claim u) → (∀ u, m ≠ .updateConfig u) →
    s'.config = s.config → fmExecute s env0 sender funds m = .ok (s', r) → P s'

theorem carried2_of_carried {env0 : FmEnv} {P : FmState → Prop} (h : Carried env0 P) : Carried2 env0 P :=
  fun s s' _ _ _ _ hp hi _ hi' hs hnc hnu hcfg hx =>
    h s s' hp hi hi' (fmExecute_hevo hs hnc hnu hx) (by rw [hcfg])

structure LS2 (env0 : FmEnv) (P : FmState → Prop) (w : World) : Prop where
  sinv : SInv env0 w
  p : P w.fm

theorem ls2_lift (env0 : FmEnv) {P : FmState → Prop} (hP : Carried2 env0 P) : Lift (LS2 env0 P) MsgOk2 := by
  refine ⟨?_, ?_, ?_⟩
  · intro w b h
    exact ⟨(sinv_lift env0).bank w b h.sinv, h.p⟩
  · intro w w2 c sender funds msg resp hI hok hce
    obtain ⟨hs2, hm2⟩ := (sinv_lift env0).exec hI.sinv hok.1 hce
    refine ⟨⟨hs2, ?_⟩, fun sm hsm => ⟨hm2 sm hsm, noClaim_of_emitted (AuthSys.callExecute_emitted hce sm hsm)⟩⟩
    rcases AuthSys.callExecute_cases hce with ⟨m, s, rfl, -, hx, rfl⟩ | ⟨m, s, rfl, -, hx, rfl⟩ |
        ⟨m, s, rfl, -, -, rfl, -⟩ | ⟨a, o, rfl, -, -, -, rfl, -⟩
    · exact hI.p
    · show P s
      have hself := hI.sinv.self_eq
      rw [hI.sinv.env] at hx
      have hnc : ∀ u, m ≠ .claim u := by
        intro u e; subst e; exact hok.2
      have hnu : ∀ u, m ≠ .updateConfig u := by
        intro u e; subst e; exact hok.1.2
      have hse : sender ≠ env0.self := by rw [hself]; exact hok.1.1
      have hcfg : s.config = w.fm.config := by
        have hcall : FmCallOk env0.self w.fm sender m := by
          cases m with
          | createPosition id u rc =>
            cases rc with
            | none => trivial
            | some rc =>
              intro hp
              rw [hself]
              exact hok.1.2 (by rw [hp, hI.sinv.pmAddr])
          | _ => trivial
        exact (fmExecute_inv hI.sinv.finv hI.sinv.wf hse hcall
          (fun ⟨u, hu⟩ => absurd hu (hnu u)) hx).2.2 hnu
      exact hP _ _ _ _ _ _ hI.p hI.sinv.finv hI.sinv.wf hs2.finv hse hnc hnu hcfg hx
    · exact hI.p
    · exact hI.p
  · intro w w2 c id resp hI hcr
    obtain ⟨hs2, hm2⟩ := (sinv_lift env0).reply hI.sinv hcr
    refine ⟨⟨hs2, ?_⟩, fun sm hsm => ⟨hm2 sm hsm, noClaim_of_emitted (AuthSys.callReply_emitted hcr sm hsm)⟩⟩
    rcases AuthSys.callReply_cases hcr with ⟨-, s, -, rfl⟩ | ⟨-, rfl, -⟩
    · exact hI.p
    · exact hI.p

theorem ls2_exec {env0 : FmEnv} {P : FmState → Prop} (hP : Carried2 env0 P) {w w' : World} {sender : Addr}
    {m : Msg} {fuel : Nat} (hI : LS2 env0 P w) (hok : MsgOk2 sender m) (h : execMsg fuel w sender m = .ok w') :
    LS2 env0 P w' :=
  (lift_run (ls2_lift env0 hP) fuel).1 _ _ _ _ h hI hok

theorem ls2_subs {env0 : FmEnv} {P : FmState → Prop} (hP : Carried2 env0 P) {w w' : World} {c : Addr}
    {subs : List SubMsg} {fuel : Nat} (hI : LS2 env0 P w) (hok : ∀ sm ∈ subs, MsgOk2 c sm.msg)
    (h : execSubs fuel w c subs = .ok w') : LS2 env0 P w' :=
  (lift_run (ls2_lift env0 hP) fuel).2 _ _ _ _ h hI hok

end MantraDex.LedSys
