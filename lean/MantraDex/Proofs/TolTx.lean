/-
  Lifting the deposit-tolerance facts of `Properties/C13.lean` to whole `ProvideLiquidity` transactions
  (`Properties/C13Tx.lean`): the tolerance only enters through `assertSlippageTolerance`; monotonicity of that
  check, the handler with two tolerances, and the execution tree (multi-asset deposit, and the single-asset
  deposit = first leg + self-swap + reply + second leg) with the tolerance replaced.
-/
import MantraDex.Model.System
import MantraDex.Proofs.NumLemmas
import MantraDex.Proofs.ProvideLemmas
import MantraDex.Proofs.TwoStepLemmas
import MantraDex.Properties.C13
import MantraDex.Properties.C14
import MantraDex.Properties.C17
import MantraDex.Proofs.LpSysValue

set_option linter.unusedSimpArgs false
set_option linter.unusedVariables false

namespace MantraDex.TolTx
open MantraDex

/-! ### the check itself -/

/-- a larger valid tolerance never rejects what a smaller one accepts — for every pool type, every deposit
    list and every reserve list (no bounds needed: the only place where the tolerance enters a computation is
    `x · (1 − tol)`, which shrinks) -/
theorem ast_mono {t1 t2 : Nat} {deps pa r : List Coin} {pt : PoolType} (hle : t1 ≤ t2) (ht : t2 ≤ ONE18)
    (h : assertSlippageTolerance (some t1) deps pa pt = .ok r) :
    assertSlippageTolerance (some t2) deps pa pt = .ok r := by
  unfold assertSlippageTolerance at h ⊢
  simp only [] at h ⊢
  split
  · rename_i hz
    rw [if_pos hz] at h
    exact h
  · rename_i hz
    rw [if_neg hz] at h
    have ht1 : ¬ t1 > ONE18 := by omega
    have ht2 : ¬ t2 > ONE18 := by omega
    rw [if_neg ht1] at h
    rw [if_neg ht2]
    cases pt with
    | stable amp =>
      simp only [bind_ok] at h ⊢
      obtain ⟨dI, h1, fin, h2, dF, h3, ratio, h4, r2, h5, h6⟩ := h
      refine ⟨dI, h1, fin, h2, dF, h3, ratio, h4, r2, h5, ?_⟩
      split at h6
      · cases h6
      · rename_i hgt
        rw [if_neg (by omega)]
        exact h6
    | cp =>
      simp only [] at h ⊢
      split
      · rename_i hl
        rw [if_pos hl] at h
        cases h
      · rename_i hl
        rw [if_neg hl] at h
        simp only [bind_ok, orPanic_ok, decFromRatio_ok, decMul_ok] at h ⊢
        obtain ⟨a, ⟨ha0, ha1, rfl⟩, a', ⟨ha2, rfl⟩, b, ⟨hb0, hb1, rfl⟩, h⟩ := h
        have hs : ONE18 - t2 ≤ ONE18 - t1 := Nat.sub_le_sub_left hle _
        have mono (x : Nat) : x * (ONE18 - t2) / ONE18 ≤ x * (ONE18 - t1) / ONE18 :=
          Nat.div_le_div_right (Nat.mul_le_mul_left _ hs)
        refine ⟨_, ⟨ha0, ha1, rfl⟩, _, ⟨Nat.le_trans (mono _) ha2, rfl⟩, _, ⟨hb0, hb1, rfl⟩, ?_⟩
        split at h
        · cases h
        · rename_i hgt
          rw [if_neg (by have := mono ((deps.map (·.amount))[0]! * ONE18 / (deps.map (·.amount))[1]!); omega)]
          simp only [bind_ok, orPanic_ok, decFromRatio_ok, decMul_ok] at h ⊢
          obtain ⟨c, ⟨hc0, hc1, rfl⟩, c', ⟨hc2, rfl⟩, e, ⟨he0, he1, rfl⟩, h⟩ := h
          refine ⟨_, ⟨hc0, hc1, rfl⟩, _, ⟨Nat.le_trans (mono _) hc2, rfl⟩, _, ⟨he0, he1, rfl⟩, ?_⟩
          split at h
          · cases h
          · rename_i hgt2
            rw [if_neg (by have := mono ((deps.map (·.amount))[1]! * ONE18 / (deps.map (·.amount))[0]!); omega)]
            exact h

/-- accepted ⇒ valid tolerance and both ratio inequalities (no bounds needed for this direction) -/
theorem ast_cp_within {tol d0 d1 p0 p1 : Nat} {n0 n1 : Denom} {r : List Coin} (hlt : n0 < n1)
    (hp0 : p0 ≠ 0) (hp1 : p1 ≠ 0)
    (h : assertSlippageTolerance (some tol) [⟨n0, d0⟩, ⟨n1, d1⟩] [⟨n0, p0⟩, ⟨n1, p1⟩] .cp = .ok r) :
    tol ≤ ONE18 ∧
      d0 * ONE18 / d1 * (ONE18 - tol) / ONE18 ≤ p0 * ONE18 / p1 ∧
      d1 * ONE18 / d0 * (ONE18 - tol) / ONE18 ≤ p1 * ONE18 / p0 := by
  unfold assertSlippageTolerance at h
  have hany : ([⟨n0, p0⟩, ⟨n1, p1⟩] : List Coin).any (·.amount == 0) = false := by
    simp [hp0, hp1]
  rw [hany, C13.sortCoins_pair hlt] at h
  simp only [Bool.false_eq_true, if_false] at h
  split at h
  · cases h
  · rename_i ht
    refine ⟨by omega, ?_⟩
    simp only [List.map_cons, List.map_nil, List.length_cons, List.length_nil] at h
    have e0 : ∀ a b : Nat, [a, b][0]! = a := fun _ _ => rfl
    have e1 : ∀ a b : Nat, [a, b][1]! = b := fun _ _ => rfl
    rw [if_neg (by decide)] at h
    simp only [e0, e1, bind_ok, orPanic_ok, decFromRatio_ok, decMul_ok] at h
    obtain ⟨a, ⟨ha0, ha1, rfl⟩, a', ⟨ha2, rfl⟩, b, ⟨hb0, hb1, rfl⟩, h⟩ := h
    split at h
    · cases h
    · rename_i hgt
      simp only [bind_ok, orPanic_ok, decFromRatio_ok, decMul_ok] at h
      obtain ⟨c, ⟨hc0, hc1, rfl⟩, c', ⟨hc2, rfl⟩, e, ⟨he0, he1, rfl⟩, h⟩ := h
      split at h
      · cases h
      · rename_i hgt2
        exact ⟨by omega, by omega⟩

/-! ### the handler with another tolerance -/

theorem plTail_transfer {s : PmState} {env : PmEnv} {sender : Addr} {pool : PoolInfo} {deps : List Coin}
    {ls1 ls2 : Option Nat} {recv : Addr} {u : Option Nat} {l : Option String} {shares : Nat} {msgs0 : List Msg}
    {x : PmState × Response}
    (hast : ∀ deps pa pt r, assertSlippageTolerance ls1 deps pa pt = .ok r →
      assertSlippageTolerance ls2 deps pa pt = .ok r)
    (h : plTail s env sender pool deps ls1 recv u l shares msgs0 = .ok x) :
    plTail s env sender pool deps ls2 recv u l shares msgs0 = .ok x := by
  unfold plTail at h ⊢
  simp only [] at h ⊢
  obtain ⟨pa', hpa, h⟩ := bind_ok.mp h
  exact bind_ok.mpr ⟨pa', hast _ _ _ _ hpa, h⟩

theorem pl_multi_transfer {s : PmState} {env : PmEnv} {sender : Addr} {funds deps : List Coin}
    {ls1 ls2 ss : Option Nat} {rc : Option Addr} {pid : String} {u : Option Nat} {l : Option String}
    {x : PmState × Response}
    (hast : ∀ deps pa pt r, assertSlippageTolerance ls1 deps pa pt = .ok r →
      assertSlippageTolerance ls2 deps pa pt = .ok r)
    (hagg : aggregateCoins funds = .ok deps) (hlen : deps.length ≠ 1)
    (h : provideLiquidity s env sender funds ls1 ss rc pid u l = .ok x) :
    provideLiquidity s env sender funds ls2 ss rc pid u l = .ok x := by
  unfold provideLiquidity at h ⊢
  simp only [hagg, ↓ok_bind, ↓ite_err_bind_ok, ↓bind_ok, ↓err_bind_ok, List.length_singleton, ↓reduceIte, pure_ok, getD?_ok',
    ↓pure_bind', Except.ok.injEq] at h ⊢
  obtain ⟨pool, hp, hst, d, hd, hne, hall, h⟩ := h
  cases hd
  refine ⟨pool, hp, hst, deps, rfl, hne, hall, ?_⟩
  simp only [hlen, ↓ite_err_bind_ok, ↓reduceIte] at h ⊢
  obtain ⟨hf, h⟩ := h
  refine ⟨hf, ?_⟩
  cases hpt : pool.ptype with
  | cp =>
    rw [hpt] at h
    simp only [] at h ⊢
    obtain ⟨⟨sh, m0⟩, hcp, h⟩ := bind_ok.mp h
    refine bind_ok.mpr ⟨(sh, m0), hcp, ?_⟩
    simp only [] at h ⊢
    rw [← hpt] at h ⊢
    have h' : plTail s env sender pool deps ls1 (addrOrDefault env rc sender) u l sh m0 = .ok x := h
    show plTail s env sender pool deps ls2 (addrOrDefault env rc sender) u l sh m0 = .ok x
    exact plTail_transfer hast h'
  | stable amp =>
    rw [hpt] at h
    simp only [] at h ⊢
    by_cases hts : env.supply pool.lpDenom = 0
    · rw [if_pos hts] at h ⊢
      simp only [↓ite_err_bind_ok] at h ⊢
      obtain ⟨hc, h⟩ := h
      refine ⟨hc, ?_⟩
      cases hmin : listMin pool.decimals with
      | none => rw [hmin] at h; simp only [↓err_bind_ok] at h
      | some mn =>
        rw [hmin] at h
        simp only [] at h ⊢
        cases hmax : listMax pool.decimals with
        | none => rw [hmax] at h; simp only [↓err_bind_ok] at h
        | some mx =>
          rw [hmax] at h
          try simp only [↓pure_bind'] at h ⊢
          obtain ⟨ml, hml, h⟩ := bind_ok.mp h
          refine bind_ok.mpr ⟨ml, hml, ?_⟩
          try simp only [↓pure_bind'] at h ⊢
          obtain ⟨na, hna, h⟩ := bind_ok.mp h
          refine bind_ok.mpr ⟨na, hna, ?_⟩
          obtain ⟨sh, hsh, h⟩ := bind_ok.mp h
          refine bind_ok.mpr ⟨sh, hsh, ?_⟩
          rw [← hpt] at h ⊢
          have h' : plTail s env sender pool deps ls1 (addrOrDefault env rc sender) u l sh _ = .ok x := h
          show plTail s env sender pool deps ls2 (addrOrDefault env rc sender) u l sh _ = .ok x
          exact plTail_transfer hast h'
    · rw [if_neg hts] at h ⊢
      try simp only [↓pure_bind'] at h ⊢
      obtain ⟨na, hna, h⟩ := bind_ok.mp h
      refine bind_ok.mpr ⟨na, hna, ?_⟩
      obtain ⟨sh, hsh, h⟩ := bind_ok.mp h
      refine bind_ok.mpr ⟨sh, hsh, ?_⟩
      rw [← hpt] at h ⊢
      have h' : plTail s env sender pool deps ls1 (addrOrDefault env rc sender) u l sh _ = .ok x := h
      show plTail s env sender pool deps ls2 (addrOrDefault env rc sender) u l sh _ = .ok x
      exact plTail_transfer hast h'

theorem pl_single_transfer {s : PmState} {env : PmEnv} {sender : Addr} {funds : List Coin} {c : Coin}
    {ls1 ss : Option Nat} {rc : Option Addr} {pid : String} {u : Option Nat} {l : Option String}
    {x : PmState × Response} (ls2 : Option Nat)
    (hagg : aggregateCoins funds = .ok [c])
    (h : provideLiquidity s env sender funds ls1 ss rc pid u l = .ok x) :
    ∃ (B : SingleSideBuffer) (r : Response) (ask : Denom) (half : Coin),
      x = ({ s with buffer := some B }, r) ∧ B.liqSlip = ls1 ∧
      r.msgs = [{ msg := .wasmExec env.self (.pm (.swap ask none ss none pid)) [half],
                  replyOn := .success, id := C.SINGLE_SIDE_REPLY_ID }] ∧
      provideLiquidity s env sender funds ls2 ss rc pid u l =
        .ok ({ s with buffer := some { B with liqSlip := ls2 } }, r) := by
  have h0 := h
  unfold provideLiquidity at h
  simp only [hagg, ↓ok_bind, ↓ite_err_bind_ok, ↓bind_ok, ↓err_bind_ok, List.length_singleton, ↓reduceIte, pure_ok, getD?_ok',
    ↓pure_bind'] at h
  obtain ⟨pool, hp, hst, d, hd, hne, hall, h⟩ := h
  cases hd
  simp only [↓ok_bind, ↓ite_err_bind_ok, ↓bind_ok, ↓err_bind_ok, List.length_singleton, ↓reduceIte, pure_ok, getD?_ok',
    ↓pure_bind', List.getElem?_cons_zero, Option.some.injEq] at h
  obtain ⟨h1, h2, h3, d, rfl, h⟩ := h
  split at h
  next a ha =>
    simp only [↓ok_bind, ↓ite_err_bind_ok, ↓bind_ok, ↓err_bind_ok, pure_ok, ckAdd_ok] at h
    obtain ⟨sim, hsim, _, ⟨hout, rfl⟩, hnz, rfl⟩ := h
    refine ⟨_, _, a.denom, ⟨c.denom, c.amount / 2⟩, rfl, rfl, rfl, ?_⟩
    simp only [Bool.not_eq_true] at hst hall h1 h2 h3
    unfold provideLiquidity
    have hck : ckAdd U128_MAX sim.protocolFee sim.burnFee = .ok (sim.protocolFee + sim.burnFee) := by
      rw [ckAdd_ok]; exact ⟨hout, rfl⟩
    simp only [hagg, hp, ↓ok_bind, hst, hall, h1, h2, h3, ha, hsim, hck, Bool.false_eq_true, ↓reduceIte,
      List.isEmpty_cons, List.length_singleton, ↓pure_bind', getD?, List.getElem?_cons_zero, if_neg hnz]
    rfl
  next => simp only [↓err_bind_ok] at h

/-! ### the runtime -/

/-- a call into the pool manager, unfolded one level -/
theorem execMsg_wasm_pm (n : Nat) (W : World) (sender : Addr) (m : PmMsg) (funds : List Coin) :
    execMsg (n + 1) W sender (.wasmExec PM (.pm m) funds) =
      ((if funds.isEmpty then (pure W : R World) else
          W.bank.send sender PM funds >>= fun b => pure { W with bank := b }) >>= fun w1 =>
        pmExecute w1.pm w1.pmEnv sender funds m >>= fun sr =>
          execSubs n { w1 with pm := sr.1 } PM sr.2.msgs) := by
  have hc : isContract PM = true := by decide
  simp only [execMsg, hc, Bool.not_true, Bool.false_eq_true, if_false, callExecute,
    bne_self_eq_false, bind_assoc, pure_bind]
  split <;> simp only [bind_assoc, pure_bind]

/-- the funds transfer in front of a contract call does not touch the pool manager's state -/
theorem funds_pm {W w1 : World} {sender c : Addr} {funds : List Coin}
    (h : (if funds.isEmpty then (pure W : R World) else
          W.bank.send sender c funds >>= fun b => pure { W with bank := b }) = .ok w1) :
    ∃ b, w1 = { W with bank := b } := by
  split at h
  · simp only [pure_ok] at h; subst h; exact ⟨_, rfl⟩
  · obtain ⟨b, _, h⟩ := bind_ok.mp h
    simp only [pure_ok] at h; subst h; exact ⟨b, rfl⟩

theorem execSubs_one_success_intro {n : Nat} {w w1 w2 w' : World} {c : Addr} {m : Msg} {i : Nat} {r : Response}
    (h1 : execMsg n w c m = .ok w1) (h2 : callReply w1 c i = .ok (w2, r))
    (h3 : execSubs n w2 c r.msgs = .ok w') :
    execSubs (n + 1) w c [{ msg := m, replyOn := .success, id := i }] = .ok w' := by
  cases n with
  | zero => simp [execMsg] at h1
  | succ n =>
    rw [execSubs]
    simp only [h1, ReplyOn.onSuccess, if_true, h2, ok_bind, h3]
    rfl

theorem execSubs_one_never_intro {n : Nat} {w w' : World} {c : Addr} {m : Msg}
    (h1 : execMsg n w c m = .ok w') :
    execSubs (n + 1) w c [{ msg := m }] = .ok w' := by
  cases n with
  | zero => simp [execMsg] at h1
  | succ n =>
    rw [execSubs]
    simp only [h1, ReplyOn.onSuccess, Bool.false_eq_true, if_false]
    rfl

/-- the pool-manager state with another single-side buffer -/
def setBuf (W : World) (B : Option SingleSideBuffer) : World := { W with pm := { W.pm with buffer := B } }

/-- a (self-)swap neither reads nor writes the single-side buffer -/
theorem swap_buf_transfer {n : Nat} {W w3 : World} {B : Option SingleSideBuffer} (B' : Option SingleSideBuffer)
    {ask : Denom} {bl ms : Option Nat} {rcv : Option Addr} {pid : String} {fs : List Coin} {sender : Addr}
    (h : execMsg n (setBuf W B) sender (.wasmExec PM (.pm (.swap ask bl ms rcv pid)) fs) = .ok w3) :
    w3.pm.buffer = B ∧
      execMsg n (setBuf W B') sender (.wasmExec PM (.pm (.swap ask bl ms rcv pid)) fs) = .ok (setBuf w3 B') := by
  cases n with
  | zero => simp [execMsg] at h
  | succ n =>
    rw [execMsg_wasm_pm] at h
    obtain ⟨w1, hw1, h⟩ := bind_ok.mp h
    obtain ⟨b1, rfl⟩ := funds_pm hw1
    have hw1' : (if fs.isEmpty then (pure (setBuf W B') : R World) else
          (setBuf W B').bank.send sender PM fs >>= fun b => pure { setBuf W B' with bank := b }) =
        .ok { setBuf W B' with bank := b1 } := by
      split at hw1
      · rename_i hf
        rw [if_pos hf]
        simp only [pure_ok] at hw1
        have : b1 = W.bank := by
          have := congrArg World.bank hw1
          exact this
        subst this
        rfl
      · rename_i hf
        rw [if_neg hf]
        obtain ⟨b, hb, hw1⟩ := bind_ok.mp hw1
        simp only [pure_ok] at hw1
        have : b1 = b := by
          have := congrArg World.bank hw1
          exact this
        subst this
        exact bind_ok.mpr ⟨_, hb, rfl⟩
    obtain ⟨⟨s3, r3⟩, hsw, hsubs⟩ := bind_ok.mp h
    simp only [pmExecute] at hsw
    have hsw' : swapHandler { W.pm with buffer := B } ({ W with bank := b1 } : World).pmEnv sender fs ask bl ms rcv pid
        = .ok (s3, r3) := hsw
    rw [swapHandler_eq, swapCore_buf] at hsw'
    obtain ⟨x, hx, hx2⟩ := map_ok.mp hsw'
    obtain ⟨y, hcore, rfl⟩ := map_ok.mp hx
    simp only [Prod.mk.injEq] at hx2
    obtain ⟨rfl, rfl⟩ := hx2
    have hsw2 : pmExecute ({ setBuf W B' with bank := b1 } : World).pm ({ setBuf W B' with bank := b1 } : World).pmEnv
        sender fs (.swap ask bl ms rcv pid) =
        .ok (({ y.1 with buffer := B' } : PmState),
          swapResp (addrOrDefault ({ W with bank := b1 } : World).pmEnv rcv sender) W.pm.config.feeCollector y.2) := by
      simp only [pmExecute]
      show swapHandler { W.pm with buffer := B' } ({ W with bank := b1 } : World).pmEnv sender fs ask bl ms rcv pid = _
      rw [swapHandler_eq, swapCore_buf, hcore]
      rfl
    simp only [swapResp, ofMsgs_msgs] at hsubs
    have hfuel := execSubs_leaf_fuel _ _ _ _ _ hsubs
    rw [execSubs_leaf _ n _ PM (swapMsgs_leaf _ _ _ _ _) hfuel] at hsubs
    obtain ⟨b3, h3, hw3⟩ := bind_ok.mp hsubs
    simp only [pure_ok] at hw3
    subst hw3
    refine ⟨rfl, ?_⟩
    rw [execMsg_wasm_pm]
    refine bind_ok.mpr ⟨_, hw1', bind_ok.mpr ⟨_, hsw2, ?_⟩⟩
    simp only [swapResp, ofMsgs_msgs]
    rw [execSubs_leaf _ n _ PM (swapMsgs_leaf _ _ _ _ _) hfuel]
    exact bind_ok.mpr ⟨b3, h3, rfl⟩

theorem pmReply_fwd {s : PmState} {env : PmEnv} {B : SingleSideBuffer} (hb : s.buffer = some B)
    (e1 : env.bal env.self B.expOffer.denom = B.expOffer.amount)
    (e2 : env.bal env.self B.expAsk.denom = B.expAsk.amount) :
    pmReply s env C.SINGLE_SIDE_REPLY_ID =
      .ok ({ s with buffer := none }, Response.ofMsgs [C14.secondLegMsg env.self B]) := by
  unfold pmReply
  rw [if_pos rfl, hb]
  simp only [e1, e2, ne_eq, not_true_eq_false, if_false]
  rfl

/-- the reply of the single-asset deposit with another recorded tolerance: same state afterwards, the second
    leg carries the other tolerance -/
theorem reply_transfer {w3 w4 : World} {rr : Response} {B : SingleSideBuffer} (ls2 : Option Nat)
    (hb : w3.pm.buffer = some B) (hrep : callReply w3 PM C.SINGLE_SIDE_REPLY_ID = .ok (w4, rr)) :
    rr.msgs = [{ msg := C14.secondLegMsg PM B }] ∧
    ∃ rr', callReply (setBuf w3 (some { B with liqSlip := ls2 })) PM C.SINGLE_SIDE_REPLY_ID = .ok (w4, rr') ∧
      rr'.msgs = [{ msg := C14.secondLegMsg PM { B with liqSlip := ls2 } }] := by
  simp only [callReply, beq_self_eq_true, if_true] at hrep ⊢
  obtain ⟨⟨s4, r4⟩, hr, hw⟩ := bind_ok.mp hrep
  simp only [pure_ok, Prod.mk.injEq] at hw
  obtain ⟨rfl, rfl⟩ := hw
  obtain ⟨e1, e2, rfl, hm⟩ := C14.reply_shape hb hr
  refine ⟨hm, ?_⟩
  have hr' : pmReply (setBuf w3 (some { B with liqSlip := ls2 })).pm (setBuf w3 (some { B with liqSlip := ls2 })).pmEnv
      C.SINGLE_SIDE_REPLY_ID = .ok ({ w3.pm with buffer := none },
        Response.ofMsgs [C14.secondLegMsg PM { B with liqSlip := ls2 }]) := by
    exact pmReply_fwd (B := { B with liqSlip := ls2 }) rfl e1 e2
  refine ⟨_, bind_ok.mpr ⟨_, hr', rfl⟩, rfl⟩


/-- **the tolerance of a `ProvideLiquidity` call can be raised (within the valid range) without changing the
    outcome of an accepted call** — at every fuel, for every world, sender, funds, lock options: in the
    multi-asset branch the handler's result is literally the same; in the single-asset branch the tolerance is
    parked in the buffer, survives the self-swap untouched, and reappears in the second leg, which is again a
    `ProvideLiquidity` call at lower fuel (induction). -/
theorem exec_provide_mono {t1 t2 : Nat} (hle : t1 ≤ t2) (ht : t2 ≤ ONE18) (n : Nat) :
    ∀ (W : World) (sender : Addr) (funds : List Coin) (ss : Option Nat) (rc : Option Addr) (pid : String)
      (u : Option Nat) (l : Option String) (w' : World),
      execMsg n W sender (.wasmExec PM (.pm (.provideLiquidity (some t1) ss rc pid u l)) funds) = .ok w' →
      execMsg n W sender (.wasmExec PM (.pm (.provideLiquidity (some t2) ss rc pid u l)) funds) = .ok w' := by
  induction n using Nat.strongRecOn with
  | _ n ih =>
  intro W sender funds ss rc pid u l w' h
  have hast : ∀ deps pa pt r, assertSlippageTolerance (some t1) deps pa pt = .ok r →
      assertSlippageTolerance (some t2) deps pa pt = .ok r := fun _ _ _ _ => ast_mono hle ht
  cases n with
  | zero => simp [execMsg] at h
  | succ n =>
    rw [execMsg_wasm_pm] at h ⊢
    obtain ⟨w1, hw1, h⟩ := bind_ok.mp h
    refine bind_ok.mpr ⟨w1, hw1, ?_⟩
    obtain ⟨⟨s1, r1⟩, hx, hsubs⟩ := bind_ok.mp h
    simp only [pmExecute] at hx ⊢
    obtain ⟨deps, hagg, hne⟩ := pl_agg hx
    by_cases hlen : deps.length = 1
    · -- single-asset deposit
      obtain ⟨c, rfl⟩ : ∃ c, deps = [c] := by
        match deps, hlen with
        | [c], _ => exact ⟨c, rfl⟩
      obtain ⟨B, r, ask, half, hxeq, hB, hr, h2⟩ := pl_single_transfer (some t2) hagg hx
      simp only [Prod.mk.injEq] at hxeq
      obtain ⟨rfl, rfl⟩ := hxeq
      refine bind_ok.mpr ⟨_, h2, ?_⟩
      simp only [] at hsubs ⊢
      rw [hr] at hsubs ⊢
      cases n with
      | zero => simp [execSubs] at hsubs
      | succ m =>
        obtain ⟨w3, w4, rr, hin, hrep, hsec⟩ := execSubs_one_success hsubs
        have hin' : execMsg m (setBuf w1 (some B)) PM
            (.wasmExec PM (.pm (.swap ask none ss none pid)) [half]) = .ok w3 := hin
        obtain ⟨hb3, hin2⟩ := swap_buf_transfer (some { B with liqSlip := some t2 }) hin'
        obtain ⟨hrr, rr', hrep', hrr'⟩ := reply_transfer (some t2) hb3 hrep
        rw [hrr] at hsec
        cases m with
        | zero => simp [execSubs] at hsec
        | succ k =>
          have hleg := execSubs_one_never hsec
          unfold C14.secondLegMsg at hleg
          rw [hB] at hleg
          have hleg2 := ih k (by omega) _ _ _ _ _ _ _ _ _ hleg
          refine execSubs_one_success_intro (w1 := setBuf w3 (some { B with liqSlip := some t2 })) hin2 hrep' ?_
          rw [hrr']
          exact execSubs_one_never_intro hleg2
    · -- multi-asset deposit: the handler returns the very same state and response
      exact bind_ok.mpr ⟨(s1, r1), pl_multi_transfer hast hagg hlen hx, hsubs⟩

/-! ### a tolerance above 100 % -/

/-- inversion of an accepted swap call made while the single-side buffer holds `B` -/
theorem swap_exec_inv {n : Nat} {W w3 : World} {B : Option SingleSideBuffer}
    {ask : Denom} {bl ms : Option Nat} {rcv : Option Addr} {pid : String} {fs : List Coin} {sender : Addr}
    (h : execMsg n (setBuf W B) sender (.wasmExec PM (.pm (.swap ask bl ms rcv pid)) fs) = .ok w3) :
    ∃ (y : PmState × SwapResult) (b3 : Bank), swapCore W.pm fs ask bl ms pid = .ok y ∧
      w3 = { W with bank := b3, pm := { y.1 with buffer := B } } := by
  cases n with
  | zero => simp [execMsg] at h
  | succ n =>
    rw [execMsg_wasm_pm] at h
    obtain ⟨w1, hw1, h⟩ := bind_ok.mp h
    obtain ⟨b1, rfl⟩ := funds_pm hw1
    obtain ⟨⟨s3, r3⟩, hsw, hsubs⟩ := bind_ok.mp h
    simp only [pmExecute] at hsw
    have hsw' : swapHandler { W.pm with buffer := B } ({ W with bank := b1 } : World).pmEnv sender fs ask bl ms rcv pid
        = .ok (s3, r3) := hsw
    rw [swapHandler_eq, swapCore_buf] at hsw'
    obtain ⟨x, hx, hx2⟩ := map_ok.mp hsw'
    obtain ⟨y, hcore, rfl⟩ := map_ok.mp hx
    simp only [Prod.mk.injEq] at hx2
    obtain ⟨rfl, rfl⟩ := hx2
    simp only [swapResp, ofMsgs_msgs] at hsubs
    have hfuel := execSubs_leaf_fuel _ _ _ _ _ hsubs
    rw [execSubs_leaf _ n _ PM (swapMsgs_leaf _ _ _ _ _) hfuel] at hsubs
    obtain ⟨b3, h3, hw3⟩ := bind_ok.mp hsubs
    simp only [pure_ok] at hw3
    subst hw3
    exact ⟨y, b3, hcore, rfl⟩

theorem getPool_setBuffer (s : PmState) (B : Option SingleSideBuffer) (pid : String) :
    ({ s with buffer := B } : PmState).getPool pid = s.getPool pid := rfl

/-- a swap on a two-asset constant-product pool with non-zero reserves leaves non-zero reserves -/
theorem performSwap_nonzero {s : PmState} {offer : Coin} {ask : Denom} {pid : String} {b ms : Option Nat}
    {y : PmState × SwapResult} {pool : PoolInfo} {n0 n1 : Denom} {x0 x1 : Nat}
    (hp : s.getPool pid = .ok pool) (hcp : pool.ptype = .cp) (hassets : pool.assets = [⟨n0, x0⟩, ⟨n1, x1⟩])
    (hx0 : x0 ≠ 0) (hx1 : x1 ≠ 0) (hne : offer.denom ≠ ask)
    (h : performSwap s offer ask pid b ms = .ok y) :
    ∃ pool' x0' x1', y.1.getPool pid = .ok pool' ∧ pool'.ptype = .cp ∧ pool'.assets = [⟨n0, x0'⟩, ⟨n1, x1'⟩] ∧
      x0' ≠ 0 ∧ x1' ≠ 0 := by
  obtain ⟨s', r⟩ := y
  obtain ⟨pool2, c, oi, ai, xx, yy, hq, -, hfo, hfa, hoa, hoi, hai, -, hrp, hs', -⟩ := C04.performSwap_ok h
  rw [hp] at hq; cases hq
  have hd : n0 ≠ n1 := by
    rw [hassets] at hoi hai
    intro e
    subst e
    match oi, ai, hoa, hoi, hai with
    | 0, 0, hoa, _, _ => exact hoa rfl
    | 0, 1, _, hoi, hai =>
      simp only [List.getElem?_cons_zero, List.getElem?_cons_succ, Option.some.injEq, Coin.mk.injEq] at hoi hai
      exact hne (hoi.1.symm.trans hai.1)
    | 1, 0, _, hoi, hai =>
      simp only [List.getElem?_cons_zero, List.getElem?_cons_succ, Option.some.injEq, Coin.mk.injEq] at hoi hai
      exact hne (hoi.1.symm.trans hai.1)
    | 1, 1, hoa, _, _ => exact hoa rfl
    | oi + 2, _, _, hoi, _ => simp at hoi
    | _, ai + 2, _, _, hai => simp at hai
  obtain ⟨x0', x1', ha', hk⟩ := C03.performSwap_k_mono hp hcp hassets hd h
  have hid : r.pool.id = pid := by rw [hrp]; exact (C17.getPool_id hp : pool.id = pid)
  refine ⟨r.pool, x0', x1', ?_, by rw [hrp]; exact hcp, ha', ?_, ?_⟩
  · show s'.getPool pid = _
    rw [hs', ← hid]
    exact C17.getPool_savePool_self _ _
  · rintro rfl
    have : x0 * x1 ≠ 0 := Nat.mul_ne_zero hx0 hx1
    omega
  · rintro rfl
    have : x0 * x1 ≠ 0 := Nat.mul_ne_zero hx0 hx1
    simp at hk
    omega

/-- **a tolerance above 100 % is refused on a two-asset constant-product pool with non-zero reserves**, at every
    fuel, whatever the funds and lock options: the multi-asset branch reaches the check (or fails earlier); the
    single-asset branch swaps first — the reserves stay non-zero (x·y does not decrease) — and its second leg is
    again a `ProvideLiquidity` call with the same tolerance (induction on the fuel). -/
theorem exec_provide_refused {tol : Nat} (htol : ONE18 < tol) (n : Nat) :
    ∀ (W : World) (sender : Addr) (funds : List Coin) (ss : Option Nat) (rc : Option Addr) (pid : String)
      (u : Option Nat) (l : Option String) (w' : World) (pool : PoolInfo) (n0 n1 : Denom) (x0 x1 : Nat),
      W.pm.getPool pid = .ok pool → pool.ptype = .cp → pool.assets = [⟨n0, x0⟩, ⟨n1, x1⟩] → x0 ≠ 0 → x1 ≠ 0 →
      execMsg n W sender (.wasmExec PM (.pm (.provideLiquidity (some tol) ss rc pid u l)) funds) = .ok w' →
      False := by
  induction n using Nat.strongRecOn with
  | _ n ih =>
  intro W sender funds ss rc pid u l w' pool n0 n1 x0 x1 hp hcp hassets hx0 hx1 h
  cases n with
  | zero => simp [execMsg] at h
  | succ n =>
    rw [execMsg_wasm_pm] at h
    obtain ⟨w1, hw1, h⟩ := bind_ok.mp h
    obtain ⟨b1, rfl⟩ := funds_pm hw1
    obtain ⟨⟨s1, r1⟩, hx, hsubs⟩ := bind_ok.mp h
    simp only [pmExecute] at hx
    have hx' : provideLiquidity W.pm ({ W with bank := b1 } : World).pmEnv sender funds (some tol) ss rc pid u l
        = .ok (s1, r1) := hx
    obtain ⟨deps, hagg, hne⟩ := pl_agg hx'
    by_cases hlen : deps.length = 1
    · -- single-asset deposit
      obtain ⟨c, rfl⟩ : ∃ c, deps = [c] := by
        match deps, hlen with
        | [c], _ => exact ⟨c, rfl⟩
      obtain ⟨pool', ask, sim, hp', -, -, -, hsim, hs1, hr1⟩ := pl_single hagg hx'
      rw [hp] at hp'; cases hp'
      subst hs1
      simp only [] at hsubs
      rw [hr1] at hsubs
      cases n with
      | zero => simp [execSubs] at hsubs
      | succ m =>
        obtain ⟨w3, w4, rr, hin, hrep, hsec⟩ := execSubs_one_success hsubs
        obtain ⟨y, b3, hcore, rfl⟩ := swap_exec_inv (W := { W with bank := b1 }) hin
        obtain ⟨hdn, -, hps⟩ := swapCore_inv hcore
        obtain ⟨pool2, x0', x1', hp2, hcp2, ha2, hx0', hx1'⟩ :=
          performSwap_nonzero hp hcp hassets hx0 hx1 hdn hps
        simp only [callReply, beq_self_eq_true, if_true] at hrep
        obtain ⟨⟨s4, r4⟩, hr, hw⟩ := bind_ok.mp hrep
        simp only [pure_ok, Prod.mk.injEq] at hw
        obtain ⟨rfl, rfl⟩ := hw
        obtain ⟨-, -, rfl, hm⟩ := C14.reply_shape (buf := _) rfl hr
        rw [hm] at hsec
        cases m with
        | zero => simp [execSubs] at hsec
        | succ k =>
          have hleg := execSubs_one_never hsec
          unfold C14.secondLegMsg at hleg
          exact ih k (by omega) _ _ _ _ _ _ _ _ _ pool2 n0 n1 x0' x1' hp2 hcp2 ha2 hx0' hx1' hleg
    · -- multi-asset deposit: the check is reached and fails
      obtain ⟨pool', shares, msgs0, hp', -, htail⟩ := pl_multi hagg hlen hx'
      rw [hp] at hp'; cases hp'
      unfold plTail at htail
      simp only [] at htail
      obtain ⟨pa', hpa, -⟩ := bind_ok.mp htail
      have hnz : ∀ c ∈ pool.assets, c.amount ≠ 0 := by
        rw [hassets]
        intro c hc
        simp only [List.mem_cons, List.not_mem_nil, or_false] at hc
        rcases hc with rfl | rfl <;> assumption
      rw [C13.deposit_tolerance_above_one_refused hnz htol] at hpa
      cases hpa

/-! ### `aggregateCoins` always returns coins sorted strictly by denom (hence pairwise distinct denoms) -/

def SortedD (xs : List Coin) : Prop := xs.Pairwise (fun a b => a.denom < b.denom)

theorem str_lt_of_not_lt_of_ne {a b : String} (h1 : ¬ a < b) (h2 : a ≠ b) : b < a := by
  apply Classical.byContradiction
  intro h3
  exact h2 (String.le_antisymm (String.not_lt.mp h3) (String.not_lt.mp h1))

theorem insertCoin_sorted {c : Coin} {xs r : List Coin} (hs : SortedD xs) (h : insertCoin c xs = .ok r) :
    SortedD r ∧ ∀ a ∈ r, a.denom = c.denom ∨ ∃ b ∈ xs, b.denom = a.denom := by
  induction xs generalizing r with
  | nil =>
    simp only [insertCoin, pure_ok] at h
    subst h
    refine ⟨List.pairwise_singleton _ _, ?_⟩
    intro a ha
    simp only [List.mem_singleton] at ha
    exact Or.inl (by rw [ha])
  | cons x xs ih =>
    unfold SortedD at hs
    rw [List.pairwise_cons] at hs
    obtain ⟨hx, hxs⟩ := hs
    unfold insertCoin at h
    split at h
    · rename_i heq
      obtain ⟨s, _, h⟩ := bind_ok.mp h
      simp only [pure_ok] at h
      subst h
      refine ⟨?_, ?_⟩
      · unfold SortedD
        rw [List.pairwise_cons]
        exact ⟨hx, hxs⟩
      · intro a ha
        simp only [List.mem_cons] at ha
        rcases ha with rfl | ha
        · exact Or.inr ⟨x, List.mem_cons_self .., rfl⟩
        · exact Or.inr ⟨a, List.mem_cons_of_mem _ ha, rfl⟩
    · rename_i hneq
      split at h
      · rename_i hlt
        simp only [pure_ok] at h
        subst h
        refine ⟨?_, ?_⟩
        · unfold SortedD
          rw [List.pairwise_cons, List.pairwise_cons]
          refine ⟨?_, hx, hxs⟩
          intro b hb
          simp only [List.mem_cons] at hb
          rcases hb with rfl | hb
          · exact hlt
          · exact String.lt_trans hlt (hx b hb)
        · intro a ha
          simp only [List.mem_cons] at ha
          rcases ha with rfl | rfl | ha
          · exact Or.inl rfl
          · exact Or.inr ⟨a, List.mem_cons_self .., rfl⟩
          · exact Or.inr ⟨a, List.mem_cons_of_mem _ ha, rfl⟩
      · rename_i hnlt
        obtain ⟨r', hr', h⟩ := bind_ok.mp h
        simp only [pure_ok] at h
        subst h
        obtain ⟨ih1, ih2⟩ := ih hxs hr'
        have hxc : x.denom < c.denom :=
          str_lt_of_not_lt_of_ne hnlt (by simpa using hneq)
        refine ⟨?_, ?_⟩
        · unfold SortedD
          rw [List.pairwise_cons]
          refine ⟨?_, ih1⟩
          intro a ha
          rcases ih2 a ha with e | ⟨b, hb, e⟩
          · rw [e]; exact hxc
          · rw [← e]; exact hx b hb
        · intro a ha
          simp only [List.mem_cons] at ha
          rcases ha with rfl | ha
          · exact Or.inr ⟨a, List.mem_cons_self .., rfl⟩
          · rcases ih2 a ha with e | ⟨b, hb, e⟩
            · exact Or.inl e
            · exact Or.inr ⟨b, List.mem_cons_of_mem _ hb, e⟩

theorem foldlM_insertCoin_sorted (cs : List Coin) {acc r : List Coin} (hs : SortedD acc)
    (h : cs.foldlM (fun acc c => insertCoin c acc) acc = .ok r) : SortedD r := by
  induction cs generalizing acc with
  | nil =>
    simp only [List.foldlM_nil, pure_ok] at h
    subst h; exact hs
  | cons c cs ih =>
    simp only [List.foldlM_cons] at h
    obtain ⟨a1, ha1, h⟩ := bind_ok.mp h
    exact ih (insertCoin_sorted hs ha1).1 h

/-- the aggregated funds carry pairwise distinct denoms — whatever was attached -/
theorem aggregateCoins_nodup_any {cs r : List Coin} (h : aggregateCoins cs = .ok r) :
    (r.map (·.denom)).Nodup := by
  have hs : SortedD r := foldlM_insertCoin_sorted cs List.Pairwise.nil h
  unfold SortedD at hs
  unfold List.Nodup
  rw [List.pairwise_map]
  refine hs.imp ?_
  intro a b hab e
  rw [e] at hab
  exact String.lt_irrefl _ hab

theorem agg_pair {n0 n1 : Denom} (hlt : n0 < n1) (d0 d1 : Nat) :
    aggregateCoins [⟨n0, d0⟩, ⟨n1, d1⟩] = .ok [⟨n0, d0⟩, ⟨n1, d1⟩] := by
  have h1 : (n1 == n0) = false := by
    simp only [beq_eq_false_iff_ne, ne_eq]
    rintro rfl
    exact String.lt_irrefl _ hlt
  have h2 : ¬ n1 < n0 := String.lt_asymm hlt
  simp [aggregateCoins, List.foldlM, insertCoin, h1, h2, bind, Except.bind, pure, Except.pure]

/-! ### whole transactions -/

theorem runTx_exec (w : World) (u c : Addr) (m : ContractMsg) (funds : List Coin) (k : Option Nat) :
    runTx w (.exec u c m funds) k =
      execMsg 64 { w with bank := { w.bank with calls := 0, failAt := k } } u (.wasmExec c m funds) := rfl

/-- the funds transfer in front of a contract call keeps an existing denom in existence -/
theorem funds_supply {W w1 : World} {sender c : Addr} {funds : List Coin}
    (h : (if funds.isEmpty then (pure W : R World) else
          W.bank.send sender c funds >>= fun b => pure { W with bank := b }) = .ok w1) (d : Denom)
    (hd : W.bank.supply d ≠ 0) : w1.bank.supply d ≠ 0 := by
  split at h
  · simp only [pure_ok] at h; subst h; exact hd
  · obtain ⟨b, hb, h⟩ := bind_ok.mp h
    simp only [pure_ok] at h; subst h
    have := (send_spec hb).2.sup d
    show b.supply d ≠ 0
    omega

/-- an accepted two-coin `ProvideLiquidity` transaction ran the tolerance check on the attached coins
    (in denom order) against the reserves stored BEFORE the transaction -/
theorem provide_tx_ast {w w' : World} {u : Addr} {ls ss : Option Nat} {rc : Option Addr} {pid : String}
    {pool : PoolInfo} {n0 n1 : Denom} {d0 d1 : Nat} {unl : Option Nat} {lock : Option String} {k : Option Nat}
    (hp : w.pm.getPool pid = .ok pool) (hlt : n0 < n1)
    (h : runTx w (.exec u PM (.pm (.provideLiquidity ls ss rc pid unl lock)) [⟨n0, d0⟩, ⟨n1, d1⟩]) k = .ok w') :
    ∃ r, assertSlippageTolerance ls [⟨n0, d0⟩, ⟨n1, d1⟩] pool.assets pool.ptype = .ok r := by
  rw [runTx_exec, execMsg_wasm_pm] at h
  obtain ⟨w1, hw1, h⟩ := bind_ok.mp h
  obtain ⟨b1, rfl⟩ := funds_pm hw1
  obtain ⟨⟨s1, r1⟩, hx, -⟩ := bind_ok.mp h
  simp only [pmExecute] at hx
  have hx' : provideLiquidity w.pm ({ w with bank := b1 } : World).pmEnv u [⟨n0, d0⟩, ⟨n1, d1⟩] ls ss rc pid unl lock
      = .ok (s1, r1) := hx
  obtain ⟨pool', shares, msgs0, hp', -, htail⟩ := pl_multi (agg_pair hlt d0 d1) (by simp) hx'
  rw [hp] at hp'; cases hp'
  unfold plTail at htail
  simp only [] at htail
  obtain ⟨pa', hpa, -⟩ := bind_ok.mp htail
  exact ⟨pa', hpa⟩

/-- a tolerance above 100 % on a funded two-asset constant-product pool: no transaction is accepted -/
theorem provide_tx_not_ok {w w' : World} {u : Addr} {tol : Nat} {ss : Option Nat} {rc : Option Addr} {pid : String}
    {funds : List Coin} {unl : Option Nat} {lock : Option String} {k : Option Nat} {pool : PoolInfo}
    (hp : w.pm.getPool pid = .ok pool) (hcp : pool.ptype = .cp)
    (hfunded : w.bank.supply pool.lpDenom ≠ 0) (hlen2 : pool.assets.length = 2) (htol : ONE18 < tol)
    (h : runTx w (.exec u PM (.pm (.provideLiquidity (some tol) ss rc pid unl lock)) funds) k = .ok w') : False := by
  obtain ⟨n0, x0, n1, x1, hassets⟩ : ∃ n0 x0 n1 x1, pool.assets = [⟨n0, x0⟩, ⟨n1, x1⟩] := by
    match hpa : pool.assets, hlen2 with
    | [⟨n0, x0⟩, ⟨n1, x1⟩], _ => exact ⟨n0, x0, n1, x1, rfl⟩
  rw [runTx_exec] at h
  by_cases hz : x0 ≠ 0 ∧ x1 ≠ 0
  · exact exec_provide_refused htol 64 { w with bank := { w.bank with calls := 0, failAt := k } } u funds ss rc pid
      unl lock w' pool n0 n1 x0 x1 hp hcp hassets hz.1 hz.2 h
  · -- a funded pool with an empty reserve: the share computation divides by it
    rw [execMsg_wasm_pm] at h
    obtain ⟨w1, hw1, h⟩ := bind_ok.mp h
    have hsup : w1.bank.supply pool.lpDenom ≠ 0 := funds_supply hw1 _ hfunded
    obtain ⟨b1, rfl⟩ := funds_pm hw1
    obtain ⟨⟨s1, r1⟩, hx, -⟩ := bind_ok.mp h
    simp only [pmExecute] at hx
    have hx' : provideLiquidity w.pm ({ w with bank := b1 } : World).pmEnv u funds (some tol) ss rc pid unl lock
        = .ok (s1, r1) := hx
    obtain ⟨deps, hagg, hne⟩ := pl_agg hx'
    by_cases hlen : deps.length = 1
    · obtain ⟨c, rfl⟩ : ∃ c, deps = [c] := by
        match deps, hlen with
        | [c], _ => exact ⟨c, rfl⟩
      obtain ⟨pool', ask, sim, hp', -, hany, -⟩ := pl_single hagg hx'
      rw [hp] at hp'; cases hp'
      rw [hassets] at hany
      apply hz
      simp only [List.any_cons, List.any_nil, Bool.or_false, Bool.or_eq_false_iff, beq_eq_false_iff_ne] at hany
      exact hany
    · obtain ⟨shares, msgs0, hall, hsh, -⟩ := LpSys.pl_multi_cp hagg hlen hp hcp hx'
      have hnd := aggregateCoins_nodup_any hagg
      have hall2 : ∀ a ∈ deps, a.denom = n0 ∨ a.denom = n1 := by
        intro a ha
        obtain ⟨pa, hpa, he⟩ := hall a ha
        rw [hassets] at hpa
        simp only [List.mem_cons, List.mem_singleton, List.not_mem_nil, or_false] at hpa
        rcases hpa with rfl | rfl
        · exact Or.inl he.symm
        · exact Or.inr he.symm
      obtain ⟨d0, d1, hdeps⟩ := LpSys.two_deposits hnd hall2 hlen
        (by intro e; rw [e] at hne; cases hne)
      have hne01 : n0 ≠ n1 := by
        rintro rfl
        rcases hdeps with rfl | rfl <;> simp at hnd
      rw [hassets] at hsh
      have hS : ({ w with bank := b1 } : World).pmEnv.supply pool.lpDenom ≠ 0 := hsup
      rcases hdeps with rfl | rfl
      · obtain ⟨-, -, a, b⟩ := C02.cp_mint_formula hS hne01 hsh
        exact hz ⟨a, b⟩
      · obtain ⟨-, -, a, b⟩ := LpSys.cp_mint_formula_sw hS hne01 hsh
        exact hz ⟨a, b⟩

end MantraDex.TolTx
