/-
  C06 — Rewards paid never exceed what a farm has emitted.

  Statements about `calculateRewards` / `farmRewardTerms` / `fmClaim` (farm/commands.rs) over the
  model, for every state: each per-epoch term is ⌊emission·user_weight/total_weight⌋ for an epoch
  inside the farm's life and strictly after the claim cursor; the cursor moves to `until`, so no
  epoch is ever paid twice to the same user; with user weight ≤ total weight a term never exceeds
  the epoch's emission; `claimed_amount` never exceeds the funded amount.
  (That the weights used are the *true* weights — the refinement to the per-epoch ledger — is C07.)
-/
import MantraDex.Model.System
import MantraDex.Spec.Ledger
import MantraDex.Proofs.NumLemmas
import MantraDex.Proofs.FarmLemmas

set_option linter.unusedSimpArgs false
set_option linter.unusedVariables false

namespace MantraDex.C06
open MantraDex

/-- every reward term of a farm: an epoch in [startFrom, until], inside the farm's life
    [start, end), equal to ⌊rate · user weight / total weight⌋ with the weights of that epoch -/
theorem farm_terms_shape {f : Farm} {uw cw : List (Nat × Nat)} {startFrom until_ : Nat}
    {terms : List (Nat × Nat)} (h : farmRewardTerms f uw cw startFrom until_ = .ok terms) :
    ∀ t ∈ terms, startFrom ≤ t.1 ∧ t.1 ≤ until_ ∧ f.startEpoch ≤ t.1 ∧ t.1 < f.endEpoch ∧
      ∃ u tot, lookupW uw t.1 = some u ∧ lookupW cw t.1 = some tot ∧ tot ≠ 0 ∧
        t.2 = f.emissionRate * u / tot ∧ t.2 + f.claimed ≤ f.assetAmount := by
  exact Farm.farm_terms_shape h

/-- at most one term per epoch -/
theorem farm_terms_epochs_nodup {f : Farm} {uw cw : List (Nat × Nat)} {startFrom until_ : Nat}
    {terms : List (Nat × Nat)} (h : farmRewardTerms f uw cw startFrom until_ = .ok terms) :
    (terms.map (·.1)).Nodup := by
  exact Farm.farm_terms_epochs_nodup h

/-- a term never exceeds the epoch's emission when the user's weight is covered by the total (C10) -/
theorem term_le_emission {rate u tot : Nat} (htot : tot ≠ 0) (hle : u ≤ tot) :
    rate * u / tot ≤ rate := by
  exact mul_div_le_of_le hle

/-- all ledger entries produced by `calculate_rewards` lie strictly after the claim cursor and at
    or before `until`: an epoch at or before the cursor is never paid (again) -/
theorem rewards_after_cursor {s : FmState} {env : FmEnv} {lp : Denom} {u : Addr} {until_ l : Nat}
    {rc : RewardsCalc} (hl : s.lastClaimed u = some l)
    (h : calculateRewards s env lp u until_ = .ok rc) :
    l ≤ until_ ∧ ∀ t ∈ rc.terms, l < t.2.1 ∧ t.2.1 ≤ until_ := by
  exact Farm.rewards_after_cursor hl h

/-- claiming again up to the cursor pays nothing; claiming up to an earlier epoch is refused -/
theorem reclaim_pays_nothing {s : FmState} {env : FmEnv} {lp : Denom} {u : Addr} {l : Nat}
    (hl : s.lastClaimed u = some l) :
    calculateRewards s env lp u l = .ok ⟨[], [], []⟩ ∧
    ∀ until_, until_ < l → ∀ rc, calculateRewards s env lp u until_ ≠ .ok rc := by
  exact Farm.reclaim hl

/-- an accepted claim moves the cursor to `until` (≤ the current epoch) and never lets a farm's
    `claimed_amount` exceed its funded amount -/
theorem claim_sets_cursor {s s' : FmState} {env : FmEnv} {sender : Addr} {funds : List Coin}
    {u : Option Nat} {r : Response} (h : fmClaim s env sender funds u = .ok (s', r)) :
    ∃ cur until_, fmCurrentEpoch s env = .ok cur ∧ until_ ≤ cur ∧ (∀ x, u = some x → until_ = x) ∧
      s'.lastClaimed sender = some until_ ∧ (∀ a, a ≠ sender → s'.lastClaimed a = s.lastClaimed a) := by
  exact Farm.claim_sets_cursor h

/-- claims never create or remove farms, and only ever increase `claimed_amount`, bounded by the
    funded amount -/
theorem claim_farms_bounded {s s' : FmState} {env : FmEnv} {sender : Addr} {funds : List Coin}
    {u : Option Nat} {r : Response} (hb : ∀ f ∈ s.farms, f.claimed ≤ f.assetAmount)
    (h : fmClaim s env sender funds u = .ok (s', r)) :
    s'.farms.map (·.id) = s.farms.map (·.id) ∧ ∀ f' ∈ s'.farms, f'.claimed ≤ f'.assetAmount := by
  exact Farm.claim_farms_bounded hb h

/-- `update_weights` records changes for epoch + 1 only: weights in effect at or before the current
    epoch are untouched (nobody is paid for an epoch before their weight took effect) -/
theorem update_weights_effect_next_epoch {s s' : FmState} {env : FmEnv} {recv : Addr} {lp : Denom}
    {amount unlocking : Nat} {fill : Bool} {cur : Nat}
    (hc : fmCurrentEpoch s env = .ok cur)
    (h : updateWeights s env recv lp amount unlocking fill = .ok s') :
    ∀ a d e, e ≤ cur → histGet (s'.hist a d) e = histGet (s.hist a d) e := by
  exact Farm.update_weights_next_epoch hc h

end MantraDex.C06
