/-
  C01 — Pool reserves are always fully backed by the pool manager's real balances.

  Handler-level conservation law of the pool manager, for every non-LP token d:

      reserves s' d + outflow msgs d = reserves s d + inflow funds d

  i.e. every handler changes the recorded reserves by exactly (what it received) − (what it sends
  out).  With the bank semantics (balance' = balance + inflow − outflow) the *excess*
  balance − reserves is unchanged by every pool operation; it moves only by plain transfers to the
  contract and by the odd unit of a single-asset deposit (the first leg forwards ⌊a/2⌋·… see
  `single_first_leg_conserves`).  `direct_swap_excess_unchanged` carries this through the runtime
  for a whole direct-swap transaction.
-/
import MantraDex.Model.System
import MantraDex.Proofs.NumLemmas
import MantraDex.Proofs.ProvideLemmas
import MantraDex.Proofs.HandlerLemmas
import MantraDex.Properties.C04

set_option linter.unusedSimpArgs false
set_option linter.unusedVariables false

namespace MantraDex.C01
open MantraDex

def sumNat (xs : List Nat) : Nat := xs.foldl (· + ·) 0

/-- coins of denom `d` in a coin list -/
def coinsOf (cs : List Coin) (d : Denom) : Nat := sumNat ((cs.filter (·.denom == d)).map (·.amount))

/-- sum over all pools of the reserve recorded for `d` -/
def reserves (s : PmState) (d : Denom) : Nat := sumNat (s.pools.map fun p => coinsOf p.assets d)

/-- what a response sends out of the pool manager in denom `d`: bank sends and burns, the
    token-factory fee consumed by a denom creation, and funds attached to calls of *other*
    contracts (funds of a self-call stay in the contract) -/
def outflow (self : Addr) (tfFees : List Coin) (msgs : List SubMsg) (d : Denom) : Nat :=
  sumNat (msgs.map fun sm => match sm.msg with
    | .bankSend _ cs => coinsOf cs d
    | .bankBurn cs => coinsOf cs d
    | .tfCreateDenom _ => coinsOf tfFees d
    | .tfBurn c => if c.denom == d then c.amount else 0
    | .wasmExec c _ funds => if c == self then 0 else coinsOf funds d
    | .tfMint _ _ => 0)

/-- well-formedness used by the laws: unique pool identifiers, distinct denoms inside a pool -/
def WF (s : PmState) : Prop :=
  (s.pools.map (·.id)).Nodup ∧ ∀ p ∈ s.pools, (p.assets.map (·.denom)).Nodup

/-! ### sums -/
theorem foldl_add (xs : List Nat) (a : Nat) : xs.foldl (· + ·) a = a + sumNat xs := by
  unfold sumNat
  induction xs generalizing a with
  | nil => simp
  | cons x xs ih =>
    simp only [List.foldl_cons]
    rw [ih, ih (0 + x)]
    omega

@[simp] theorem sumNat_nil : sumNat [] = 0 := rfl
@[simp] theorem sumNat_cons (a : Nat) (xs : List Nat) : sumNat (a :: xs) = a + sumNat xs := by
  show (a :: xs).foldl (· + ·) 0 = _
  rw [List.foldl_cons, foldl_add]; omega
@[simp] theorem sumNat_append (xs ys : List Nat) : sumNat (xs ++ ys) = sumNat xs + sumNat ys := by
  induction xs with
  | nil => simp
  | cons x xs ih => simp [ih]; omega

/-- contribution of one coin to denom `d` -/
def amt (c : Coin) (d : Denom) : Nat := if c.denom == d then c.amount else 0

@[simp] theorem coinsOf_nil (d : Denom) : coinsOf [] d = 0 := rfl
theorem coinsOf_cons (c : Coin) (cs : List Coin) (d : Denom) :
    coinsOf (c :: cs) d = amt c d + coinsOf cs d := by
  unfold coinsOf amt
  by_cases h : (c.denom == d) = true
  · simp [List.filter_cons, h]
  · simp [List.filter_cons, h]
theorem coinsOf_append (xs ys : List Coin) (d : Denom) :
    coinsOf (xs ++ ys) d = coinsOf xs d + coinsOf ys d := by
  induction xs with
  | nil => simp
  | cons x xs ih => simp only [List.cons_append, coinsOf_cons, ih]; omega
theorem coinsOf_singleton (c : Coin) (d : Denom) : coinsOf [c] d = amt c d := by
  rw [coinsOf_cons]; simp

/-! ### `setAmount` -/
theorem setAmount_nil (i a : Nat) : setAmount [] i a = [] := rfl
theorem setAmount_zero (c : Coin) (cs : List Coin) (a : Nat) :
    setAmount (c :: cs) 0 a = { c with amount := a } :: cs := by
  apply List.ext_getElem?
  intro j
  rw [C04.getElem?_setAmount]
  cases j with
  | zero => simp
  | succ j =>
    simp only [List.getElem?_cons_succ]
    cases cs[j]? <;> simp
theorem setAmount_succ (c : Coin) (cs : List Coin) (i a : Nat) :
    setAmount (c :: cs) (i + 1) a = c :: setAmount cs i a := by
  apply List.ext_getElem?
  intro j
  rw [C04.getElem?_setAmount]
  cases j with
  | zero => simp
  | succ j =>
    simp only [List.getElem?_cons_succ, C04.getElem?_setAmount]
    cases cs[j]? <;> simp

theorem coinsOf_setAmount {cs : List Coin} {i : Nat} {c : Coin} (a : Nat) (d : Denom)
    (h : cs[i]? = some c) :
    coinsOf (setAmount cs i a) d + amt c d = coinsOf cs d + (if c.denom == d then a else 0) := by
  induction cs generalizing i with
  | nil => simp at h
  | cons x xs ih =>
    cases i with
    | zero =>
      simp only [List.getElem?_cons_zero, Option.some.injEq] at h
      subst h
      rw [setAmount_zero, coinsOf_cons, coinsOf_cons]
      simp only [amt]
      omega
    | succ i =>
      simp only [List.getElem?_cons_succ] at h
      rw [setAmount_succ, coinsOf_cons, coinsOf_cons]
      have := ih h
      omega

theorem setAmount_denoms (cs : List Coin) (i a : Nat) :
    (setAmount cs i a).map (·.denom) = cs.map (·.denom) := by
  induction cs generalizing i with
  | nil => rfl
  | cons x xs ih =>
    cases i with
    | zero => rw [setAmount_zero]; rfl
    | succ i => rw [setAmount_succ]; simp [ih]


/-! ### `savePool` and reserves -/

theorem getPool_ok {s : PmState} {pid : String} {p : PoolInfo} (h : s.getPool pid = .ok p) :
    s.pools.find? (·.id == pid) = some p := by
  unfold PmState.getPool at h
  split at h
  · cases h; assumption
  · cases h

theorem map_replace_sum (f : PoolInfo → Nat) {pools : List PoolInfo} {pid : String} {p p' : PoolInfo}
    (hnd : (pools.map (·.id)).Nodup) (hf : pools.find? (·.id == pid) = some p) (hid : p'.id = p.id) :
    sumNat ((pools.map fun q => if q.id == p'.id then p' else q).map f) + f p =
      sumNat (pools.map f) + f p' := by
  induction pools with
  | nil => simp at hf
  | cons q rest ih =>
    simp only [List.map_cons, List.nodup_cons] at hnd
    simp only [List.find?_cons] at hf
    by_cases hq : (q.id == pid) = true
    · simp only [hq] at hf
      cases hf
      have hrest : (rest.map fun q' => if q'.id == p'.id then p' else q') = rest := by
        have : ∀ q' ∈ rest, (if q'.id == p'.id then p' else q') = q' := by
          intro q' hq'
          have : ¬ (q'.id == p'.id) = true := by
            intro he
            have : q'.id = p.id := by rw [← hid]; simpa using he
            exact hnd.1 (this ▸ List.mem_map_of_mem hq')
          simp [this]
        calc (rest.map fun q' => if q'.id == p'.id then p' else q') = rest.map id :=
              List.map_congr_left this
          _ = rest := List.map_id _
      have hqq : (p.id == p'.id) = true := by simp [hid]
      simp only [List.map_cons, hqq, if_true, hrest, sumNat_cons]
      omega
    · have hq' : (q.id == pid) = false := by simpa using hq
      simp only [hq'] at hf
      have hpid : p.id = pid := by
        have := List.find?_some hf
        simpa using this
      have hqq : (q.id == p'.id) = false := by
        rw [hid, hpid]; exact hq'
      simp only [List.map_cons, hqq, Bool.false_eq_true, if_false, sumNat_cons]
      have := ih hnd.2 hf
      omega

theorem savePool_existing {s : PmState} {pid : String} {p p' : PoolInfo}
    (hp : s.getPool pid = .ok p) (hid : p'.id = p.id) :
    (s.savePool p').pools = s.pools.map fun q => if q.id == p'.id then p' else q := by
  have hf := getPool_ok hp
  have hmem := List.mem_of_find?_eq_some hf
  unfold PmState.savePool
  have : s.pools.any (·.id == p'.id) = true := by
    rw [List.any_eq_true]
    exact ⟨p, hmem, by simp [hid]⟩
  simp [this]

theorem reserves_savePool {s : PmState} {pid : String} {p p' : PoolInfo}
    (hnd : (s.pools.map (·.id)).Nodup) (hp : s.getPool pid = .ok p) (hid : p'.id = p.id) (d : Denom) :
    reserves (s.savePool p') d + coinsOf p.assets d = reserves s d + coinsOf p'.assets d := by
  unfold reserves
  rw [savePool_existing hp hid]
  exact map_replace_sum (fun q => coinsOf q.assets d) hnd (getPool_ok hp) hid

theorem savePool_ids {s : PmState} {pid : String} {p p' : PoolInfo}
    (hp : s.getPool pid = .ok p) (hid : p'.id = p.id) :
    (s.savePool p').pools.map (·.id) = s.pools.map (·.id) := by
  rw [savePool_existing hp hid, List.map_map]
  apply List.map_congr_left
  intro q _
  simp only [Function.comp]
  split
  · rename_i h; simpa using (beq_iff_eq.mp h).symm
  · rfl

theorem insertPoolSorted_sum (f : PoolInfo → Nat) (p : PoolInfo) (pools : List PoolInfo) :
    sumNat ((insertPoolSorted p pools).map f) = sumNat (pools.map f) + f p := by
  induction pools with
  | nil => simp [insertPoolSorted]
  | cons q rest ih =>
    unfold insertPoolSorted
    split
    · simp; omega
    · simp [ih]; omega

theorem reserves_savePool_new {s : PmState} {p : PoolInfo}
    (hnew : s.pools.any (·.id == p.id) = false) (d : Denom) :
    reserves (s.savePool p) d = reserves s d + coinsOf p.assets d := by
  unfold reserves PmState.savePool
  simp only [hnew, Bool.false_eq_true, if_false]
  exact insertPoolSorted_sum (fun q => coinsOf q.assets d) p s.pools


/-! ### outflow of message lists -/

def mk (m : Msg) : SubMsg := { msg := m }

@[simp] theorem outflow_nil (self : Addr) (tf : List Coin) (d : Denom) : outflow self tf [] d = 0 := rfl
theorem outflow_cons (self : Addr) (tf : List Coin) (sm : SubMsg) (rest : List SubMsg) (d : Denom) :
    outflow self tf (sm :: rest) d = outflow self tf [sm] d + outflow self tf rest d := by
  simp [outflow]
theorem outflow_append (self : Addr) (tf : List Coin) (xs ys : List SubMsg) (d : Denom) :
    outflow self tf (xs ++ ys) d = outflow self tf xs d + outflow self tf ys d := by
  simp [outflow]

theorem amt_zero (dn : Denom) (d : Denom) : amt ⟨dn, 0⟩ d = 0 := by simp [amt]

theorem outflow_optSend (self : Addr) (tf : List Coin) (to : Addr) (dn : Denom) (a : Nat) (d : Denom) :
    outflow self tf ((if a ≠ 0 then [Msg.bankSend to [⟨dn, a⟩]] else []).map (fun m => ({ msg := m } : SubMsg))) d
      = amt ⟨dn, a⟩ d := by
  by_cases h : a = 0
  · subst h; simp [amt_zero]
  · simp [h, outflow, coinsOf_singleton]

theorem outflow_optBurn (self : Addr) (tf : List Coin) (dn : Denom) (a : Nat) (d : Denom) :
    outflow self tf ((if a ≠ 0 then [Msg.bankBurn [⟨dn, a⟩]] else []).map (fun m => ({ msg := m } : SubMsg))) d
      = amt ⟨dn, a⟩ d := by
  by_cases h : a = 0
  · subst h; simp [amt_zero]
  · simp [h, outflow, coinsOf_singleton]

/-! ### swaps -/

theorem performSwap_reserves {s s' : PmState} {offer : Coin} {ask : Denom} {pid : String}
    {b ms : Option Nat} {r : SwapResult} (hnd : (s.pools.map (·.id)).Nodup)
    (h : performSwap s offer ask pid b ms = .ok (s', r)) :
    s'.pools.map (·.id) = s.pools.map (·.id) ∧
    ∃ ret pf bf, r.ret = ⟨ask, ret⟩ ∧ r.protocolFee = ⟨ask, pf⟩ ∧ r.burnFee = ⟨ask, bf⟩ ∧
      ∀ d, reserves s' d + amt ⟨ask, ret⟩ d + amt ⟨ask, bf⟩ d + amt ⟨ask, pf⟩ d =
        reserves s d + amt offer d := by
  obtain ⟨pool, c, oi, ai, x, y, hp, -, -, -, hne, hoi, hai, hle, hrp, hs', hret, hpf, hbf, -, -⟩ :=
    C04.performSwap_ok h
  have hid : r.pool.id = pool.id := by rw [hrp]
  refine ⟨by rw [hs']; exact savePool_ids hp hid, c.ret, c.protocolFee, c.burnFee, hret, hpf, hbf, ?_⟩
  intro d
  have h0 := reserves_savePool hnd hp hid d
  rw [← hs'] at h0
  have hassets : r.pool.assets = C04.assetsAfterSwap pool.assets oi ai x y offer.amount c := by rw [hrp]
  rw [hassets] at h0
  unfold C04.assetsAfterSwap at h0
  have h1 := coinsOf_setAmount (x + offer.amount) d hoi
  have hai' : (setAmount pool.assets oi (x + offer.amount))[ai]? = some ⟨ask, y⟩ := by
    rw [C04.getElem?_setAmount, hai]
    have : (ai == oi) = false := by simpa using fun e => hne e.symm
    simp [this]
  have h2 := coinsOf_setAmount (y - c.ret - (c.protocolFee + c.burnFee)) d hai'
  simp only [amt] at h1 h2 ⊢
  by_cases ho : (offer.denom == d) = true <;> by_cases ha : (ask == d) = true <;>
    simp only [ho, ha, if_true, if_false, Bool.false_eq_true] at h1 h2 ⊢ <;> omega


theorem swap_conserves {s s' : PmState} {env : PmEnv} {sender : Addr} {funds : List Coin}
    {ask : Denom} {b ms : Option Nat} {recv : Option Addr} {pid : String} {r : Response}
    (hwf : WF s) (h : swapHandler s env sender funds ask b ms recv pid = .ok (s', r)) :
    ∀ d, reserves s' d + outflow env.self env.tfFees r.msgs d = reserves s d + coinsOf funds d := by
  obtain ⟨offer, sr, rfl, hps, hmsgs⟩ := C04.swapHandler_messages h
  obtain ⟨-, ret, pf, bf, hret, hpf, hbf, hres⟩ := performSwap_reserves hwf.1 hps
  intro d
  rw [hmsgs, hret, hpf, hbf]
  dsimp only
  rw [List.map_append, List.map_append, outflow_append, outflow_append,
    outflow_optSend, outflow_optBurn, outflow_optSend, coinsOf_singleton]
  have := hres d
  omega

theorem routeHops_reserves {self : Addr} {tf : List Coin} {s s' : PmState} {ms : Option Nat}
    {ops : List SwapOp} {prev out : Coin} {fees fees' : List Msg}
    (hnd : (s.pools.map (·.id)).Nodup)
    (h : routeHops s ms ops prev fees = .ok (s', out, fees')) :
    (∀ last, ops.getLast? = some last → out.denom = last.tokenOut) ∧
    ∀ d, reserves s' d + outflow self tf (fees'.map (fun m => ({ msg := m } : SubMsg))) d + amt out d =
      reserves s d + outflow self tf (fees.map (fun m => ({ msg := m } : SubMsg))) d + amt prev d := by
  induction ops generalizing s prev fees with
  | nil =>
    rw [routeHops] at h
    simp only [Except.ok.injEq, Prod.mk.injEq] at h
    obtain ⟨rfl, rfl, rfl⟩ := h
    exact ⟨by simp, fun d => rfl⟩
  | cons op ops ih =>
    obtain ⟨s1, r, hps, h⟩ := C04.routeHops_cons h
    obtain ⟨hids, ret, pf, bf, hret, hpf, hbf, hres⟩ := performSwap_reserves hnd hps
    obtain ⟨hlast, hrest⟩ := ih (hids ▸ hnd) h
    constructor
    · intro last hl
      cases ops with
      | nil =>
        rw [routeHops] at h
        simp only [Except.ok.injEq, Prod.mk.injEq] at h
        obtain ⟨-, rfl, -⟩ := h
        simp only [List.getLast?_singleton, Option.some.injEq] at hl
        subst hl
        rw [hret]
      | cons op2 ops2 =>
        apply hlast
        rw [← hl, List.getLast?_cons_cons]
    · intro d
      have h1 := hrest d
      have h2 := hres d
      rw [hbf, hpf, hret] at h1
      dsimp only at h1
      rw [List.map_append, List.map_append, outflow_append, outflow_append,
        outflow_optBurn, outflow_optSend] at h1
      omega

theorem route_conserves {s s' : PmState} {env : PmEnv} {sender : Addr} {funds : List Coin}
    {ops : List SwapOp} {mr : Option Nat} {recv : Option Addr} {ms : Option Nat} {r : Response}
    (hwf : WF s) (h : execSwapOps s env sender funds ops mr recv ms = .ok (s', r)) :
    ∀ d, reserves s' d + outflow env.self env.tfFees r.msgs d = reserves s d + coinsOf funds d := by
  obtain ⟨first, last, amount, out, fm, -, hl, rfl, hroute, hmsgs⟩ := execSwapOps_ok h
  obtain ⟨hlast, hres⟩ := routeHops_reserves (self := env.self) (tf := env.tfFees) hwf.1 hroute
  intro d
  have h1 := hres d
  have hd := hlast last hl
  rw [hmsgs, List.map_append, outflow_append, outflow_optSend, coinsOf_singleton]
  simp only [List.map_nil, outflow_nil] at h1
  have : amt out d = amt ⟨last.tokenOut, out.amount⟩ d := by simp [amt, hd]
  omega


/-! ### withdraw / deposit folds -/

theorem withdrawStep_coins {as as1 : List Coin} {r : Coin} (h : withdrawStep as r = .ok as1) (d : Denom) :
    coinsOf as1 d + amt r d = coinsOf as d := by
  unfold withdrawStep at h
  cases hi : findIdx (fun c : Coin => c.denom == r.denom) as with
  | none => rw [hi] at h; simp only [↓err_bind_ok] at h
  | some i =>
    rw [hi] at h
    simp only [↓pure_bind', ↓bind_ok, pure_ok, C04.getD?_ok, ckSub_ok] at h
    obtain ⟨_, rfl, c, hc, a, ⟨hle, rfl⟩, rfl⟩ := h
    obtain ⟨c', hc', hd⟩ := C04.findIdx_some hi
    rw [hc] at hc'; cases hc'
    have hden : c.denom = r.denom := by simpa using hd
    have := coinsOf_setAmount (c.amount - r.amount) d hc
    simp only [amt, hden] at this ⊢
    by_cases hdd : (r.denom == d) = true <;>
      simp only [hdd, if_true, if_false, Bool.false_eq_true] at this ⊢ <;> omega

theorem withdrawFold_coins {refunds as as' : List Coin} (h : refunds.foldlM withdrawStep as = .ok as')
    (d : Denom) : coinsOf as' d + coinsOf refunds d = coinsOf as d := by
  induction refunds generalizing as with
  | nil =>
    simp only [List.foldlM_nil, pure_ok] at h
    subst h; simp
  | cons r rest ih =>
    simp only [List.foldlM_cons] at h
    obtain ⟨as1, h1, h⟩ := bind_ok.mp h
    have := ih h
    have := withdrawStep_coins h1 d
    rw [coinsOf_cons]
    omega

theorem depositStep_coins {as as1 : List Coin} {r : Coin} (h : depositStep as r = .ok as1) (d : Denom) :
    coinsOf as1 d = coinsOf as d + amt r d := by
  unfold depositStep at h
  cases hi : findIdx (fun c : Coin => c.denom == r.denom) as with
  | none => rw [hi] at h; simp only [↓err_bind_ok] at h
  | some i =>
    rw [hi] at h
    simp only [↓pure_bind', ↓bind_ok, pure_ok, C04.getD?_ok, ckAdd_ok] at h
    obtain ⟨_, rfl, c, hc, a, ⟨hle, rfl⟩, rfl⟩ := h
    obtain ⟨c', hc', hd⟩ := C04.findIdx_some hi
    rw [hc] at hc'; cases hc'
    have hden : c.denom = r.denom := by simpa using hd
    have := coinsOf_setAmount (c.amount + r.amount) d hc
    simp only [amt, hden] at this ⊢
    by_cases hdd : (r.denom == d) = true <;>
      simp only [hdd, if_true, if_false, Bool.false_eq_true] at this ⊢ <;> omega

theorem depositFold_coins {deps as as' : List Coin} (h : deps.foldlM depositStep as = .ok as')
    (d : Denom) : coinsOf as' d = coinsOf as d + coinsOf deps d := by
  induction deps generalizing as with
  | nil =>
    simp only [List.foldlM_nil, pure_ok] at h
    subst h; simp
  | cons r rest ih =>
    simp only [List.foldlM_cons] at h
    obtain ⟨as1, h1, h⟩ := bind_ok.mp h
    have := ih h
    have := depositStep_coins h1 d
    rw [coinsOf_cons]
    omega

theorem insertCoin_coins {c : Coin} {xs r : List Coin} (h : insertCoin c xs = .ok r) (d : Denom) :
    coinsOf r d = coinsOf xs d + amt c d := by
  induction xs generalizing r with
  | nil =>
    simp only [insertCoin, pure_ok] at h
    subst h
    rw [coinsOf_singleton]; simp
  | cons x xs ih =>
    unfold insertCoin at h
    split at h
    · rename_i heq
      simp only [↓bind_ok, pure_ok, ckAdd_ok] at h
      obtain ⟨_, ⟨_, rfl⟩, rfl⟩ := h
      have hden : c.denom = x.denom := by simpa using heq
      rw [coinsOf_cons, coinsOf_cons]
      simp only [amt, hden]
      split <;> omega
    · split at h
      · simp only [pure_ok] at h
        subst h
        rw [coinsOf_cons]; omega
      · obtain ⟨r', hr', h⟩ := bind_ok.mp h
        simp only [pure_ok] at h
        subst h
        rw [coinsOf_cons, coinsOf_cons, ih hr']
        omega

theorem aggregateCoins_coins {cs r : List Coin} (h : aggregateCoins cs = .ok r) (d : Denom) :
    coinsOf r d = coinsOf cs d := by
  have key : ∀ (cs acc r : List Coin), cs.foldlM (fun acc c => insertCoin c acc) acc = .ok r →
      coinsOf r d = coinsOf acc d + coinsOf cs d := by
    intro cs
    induction cs with
    | nil =>
      intro acc r h
      simp only [List.foldlM_nil, pure_ok] at h
      subst h; simp
    | cons c cs ih =>
      intro acc r h
      simp only [List.foldlM_cons] at h
      obtain ⟨a1, h1, h⟩ := bind_ok.mp h
      rw [ih _ _ h, insertCoin_coins h1, coinsOf_cons]
      omega
  have := key cs [] r h
  simpa using this


/-- withdrawal: for every pool asset the reserves drop by exactly what is sent to the sender (the
    LP token itself is received and burned) -/
theorem withdraw_conserves {s s' : PmState} {env : PmEnv} {sender : Addr} {funds : List Coin}
    {pid : String} {r : Response} {pool : PoolInfo} (hwf : WF s) (hp : s.getPool pid = .ok pool)
    (h : withdrawLiquidity s env sender funds pid = .ok (s', r)) :
    ∀ d, d ≠ pool.lpDenom →
      reserves s' d + outflow env.self env.tfFees r.msgs d = reserves s d + coinsOf funds d := by
  intro d hd
  obtain ⟨pool', amount, refunds, assets', hp', rfl, hfold, rfl, hmsgs⟩ := withdraw_ok h
  rw [hp] at hp'; cases hp'
  have h0 := reserves_savePool (p' := { pool with assets := assets' }) hwf.1 hp rfl d
  have h1 := withdrawFold_coins hfold d
  have hne : (pool.lpDenom == d) = false := by simpa using fun e => hd e.symm
  rw [hmsgs, coinsOf_singleton]
  simp only [List.map_cons, List.map_nil, outflow, sumNat_cons, sumNat_nil, amt, hne,
    Bool.false_eq_true, if_false] at h0 ⊢
  omega

theorem outflow_mints (self : Addr) (tf : List Coin) (ms : List Msg) (d : Denom)
    (h : ∀ m ∈ ms, IsMint m) : outflow self tf (ms.map (fun m => ({ msg := m } : SubMsg))) d = 0 := by
  induction ms with
  | nil => rfl
  | cons m rest ih =>
    rw [List.map_cons, outflow_cons, ih (fun m' hm' => h m' (List.mem_cons_of_mem _ hm'))]
    obtain ⟨c, a, rfl⟩ := h m (List.mem_cons_self ..)
    simp [outflow]

/-- multi-asset deposit: every deposited coin is added to the reserves, nothing but LP leaves -/
theorem provide_multi_conserves {s s' : PmState} {env : PmEnv} {sender : Addr} {funds : List Coin}
    {ls ss : Option Nat} {recv : Option Addr} {pid : String} {u : Option Nat} {l : Option String}
    {r : Response} {pool : PoolInfo} (hwf : WF s) (hp : s.getPool pid = .ok pool)
    (hfunds : (funds.map (·.denom)).Nodup) (hmulti : 2 ≤ funds.length)
    (h : provideLiquidity s env sender funds ls ss recv pid u l = .ok (s', r)) :
    ∀ d, d ≠ pool.lpDenom →
      reserves s' d + outflow env.self env.tfFees r.msgs d = reserves s d + coinsOf funds d := by
  intro d hd
  obtain ⟨deps, hagg, -⟩ := pl_agg h
  have hlen : deps.length ≠ 1 := by rw [aggregateCoins_length hfunds hagg]; omega
  obtain ⟨pool', sh, m0, hp', hm0, ht⟩ := pl_multi hagg hlen h
  rw [hp] at hp'; cases hp'
  obtain ⟨assets', m1, hfold, rfl, hmsgs, hm1, -, -⟩ := plTail_ok ht
  have h0 := reserves_savePool (p' := { pool with assets := assets' }) hwf.1 hp rfl d
  have h1 := depositFold_coins hfold d
  have h2 := aggregateCoins_coins hagg d
  have hne : (pool.lpDenom == d) = false := by simpa using fun e => hd e.symm
  have hout1 : outflow env.self env.tfFees (m1.map (fun m => ({ msg := m } : SubMsg))) d = 0 := by
    clear hmsgs ht
    induction m1 with
    | nil => rfl
    | cons m rest ih =>
      rw [List.map_cons, outflow_cons, ih (fun m' hm' => hm1 m' (List.mem_cons_of_mem _ hm'))]
      rcases hm1 m (List.mem_cons_self ..) with ⟨c, a, rfl⟩ | ⟨cm, rfl⟩
      · simp [outflow]
      · simp only [outflow, List.map_cons, List.map_nil, sumNat_cons, sumNat_nil, coinsOf_singleton, amt, hne,
          Bool.false_eq_true, if_false]
        split <;> rfl
  rw [hmsgs, List.map_append, outflow_append, outflow_mints _ _ _ _ hm0, hout1]
  simp only at h0
  omega

/-- single-asset deposit, first leg: the reserves are untouched, half of the deposit is forwarded to
    the inner swap (a self-call) and the rest — including the odd unit — waits in the contract -/
theorem single_first_leg_conserves {s s' : PmState} {env : PmEnv} {sender : Addr} {c : Coin}
    {ls ss : Option Nat} {recv : Option Addr} {pid : String} {u : Option Nat} {l : Option String}
    {r : Response} (h : provideLiquidity s env sender [c] ls ss recv pid u l = .ok (s', r)) :
    s'.pools = s.pools ∧ (∀ d, outflow env.self env.tfFees r.msgs d = 0) ∧
    ∃ buf, s'.buffer = some buf ∧ buf.offerHalf = ⟨c.denom, c.amount / 2⟩ ∧
      r.msgs = [{ msg := .wasmExec env.self (.pm (.swap buf.expectedAsk.denom none ss none pid)) [buf.offerHalf],
                  replyOn := .success, id := C.SINGLE_SIDE_REPLY_ID }] := by
  obtain ⟨pool', ask, sim, -, -, -, -, -, hs, hr⟩ := pl_single (agg_single c) h
  refine ⟨by rw [hs], ?_, _, by rw [hs], rfl, hr⟩
  intro d
  rw [hr]
  simp [outflow]


/-! ### bank -/

theorem coinsOf_filter_nonzero (cs : List Coin) (d : Denom) :
    coinsOf (cs.filter (·.amount ≠ 0)) d = coinsOf cs d := by
  induction cs with
  | nil => rfl
  | cons c cs ih =>
    by_cases h : c.amount = 0
    · have : (decide (c.amount ≠ 0)) = false := by simp [h]
      rw [List.filter_cons, this]
      simp only [Bool.false_eq_true, if_false]
      rw [coinsOf_cons, ih]
      simp [amt, h]
    · have : (decide (c.amount ≠ 0)) = true := by simp [h]
      rw [List.filter_cons, this]
      simp only [if_true]
      rw [coinsOf_cons, coinsOf_cons, ih]

theorem normalizeCoins_ok {cs r : List Coin} (h : normalizeCoins cs = .ok r) :
    r = cs.filter (·.amount ≠ 0) := by
  unfold normalizeCoins at h
  simp only at h
  split at h
  · cases h
  · cases h; rfl

theorem subFold_bal {a : Addr} (cs : List Coin) {b b' : Bank}
    (h : cs.foldlM (fun b c => b.subCoin a c) b = .ok b') (d : Denom) :
    b'.bal a d + coinsOf cs d = b.bal a d ∧ ∀ a', a' ≠ a → b'.bal a' d = b.bal a' d := by
  induction cs generalizing b with
  | nil =>
    simp only [List.foldlM_nil, pure_ok] at h
    subst h; simp
  | cons c cs ih =>
    simp only [List.foldlM_cons] at h
    obtain ⟨b1, h1, h⟩ := bind_ok.mp h
    obtain ⟨ih1, ih2⟩ := ih h
    unfold Bank.subCoin at h1
    split at h1
    · rename_i hle
      cases h1
      simp only at ih1 ih2
      rw [coinsOf_cons]
      constructor
      · by_cases hd : d = c.denom
        · subst hd
          simp only [amt, beq_self_eq_true, if_true, and_self] at ih1 ⊢
          omega
        · have : (c.denom == d) = false := by simpa using fun e => hd e.symm
          simp only [amt, this, hd, and_false, if_false, Bool.false_eq_true] at ih1 ⊢
          omega
      · intro a' ha'
        rw [ih2 a' ha']
        simp [ha']
    · cases h1

theorem addFold_bal {a : Addr} (cs : List Coin) (b : Bank) (d : Denom) :
    (cs.foldl (fun b c => b.addCoin a c) b).bal a d = b.bal a d + coinsOf cs d ∧
    ∀ a', a' ≠ a → (cs.foldl (fun b c => b.addCoin a c) b).bal a' d = b.bal a' d := by
  induction cs generalizing b with
  | nil => simp
  | cons c cs ih =>
    simp only [List.foldl_cons]
    obtain ⟨ih1, ih2⟩ := ih (b.addCoin a c)
    rw [coinsOf_cons]
    constructor
    · rw [ih1]
      unfold Bank.addCoin
      by_cases hd : d = c.denom
      · subst hd
        simp only [amt, beq_self_eq_true, if_true, and_self]
        omega
      · have : (c.denom == d) = false := by simpa using fun e => hd e.symm
        simp only [amt, this, hd, and_false, if_false, Bool.false_eq_true]
        omega
    · intro a' ha'
      rw [ih2 a' ha']
      simp [Bank.addCoin, ha']

/-- bank: a send moves exactly the listed coins from the sender to the recipient -/
theorem bank_send_effect {b b' : Bank} {frm to : Addr} {cs : List Coin} (hne : frm ≠ to)
    (hcs : (cs.map (·.denom)).Nodup) (h : b.send frm to cs = .ok b') :
    ∀ d, b'.bal frm d + coinsOf cs d = b.bal frm d ∧ b'.bal to d = b.bal to d + coinsOf cs d ∧
      ∀ a, a ≠ frm → a ≠ to → b'.bal a d = b.bal a d := by
  intro d
  unfold Bank.send at h
  obtain ⟨b1, h1, h⟩ := bind_ok.mp h
  obtain ⟨b2, h2, h⟩ := bind_ok.mp h
  have hb1 : b1.bal = b.bal := by
    unfold Bank.tick at h1
    simp only at h1
    split at h1
    · cases h1
    · cases h1; rfl
  unfold Bank.burnRaw at h2
  obtain ⟨cs1, hn1, h2⟩ := bind_ok.mp h2
  have := normalizeCoins_ok hn1; subst this
  obtain ⟨s1, s2⟩ := subFold_bal _ h2 d
  unfold Bank.mintRaw at h
  obtain ⟨cs2, hn2, h⟩ := bind_ok.mp h
  have := normalizeCoins_ok hn2; subst this
  simp only [pure_ok] at h
  subst h
  obtain ⟨a1, a2⟩ := addFold_bal (a := to) (cs.filter (·.amount ≠ 0)) b2 d
  rw [coinsOf_filter_nonzero] at s1 a1
  rw [hb1] at s1 s2
  refine ⟨?_, ?_, ?_⟩
  · rw [a2 frm hne]; exact s1
  · rw [a1, s2 to (fun e => hne e.symm)]
  · intro a h1 h2
    rw [a2 a h2, s2 a h1]


/-- configuration / ownership messages move nothing.

    PARTIAL: the original statement `config_conserves` (without `hids`) is false on states with
    duplicate pool identifiers: `savePool` overwrites *every* pool carrying the identifier with the
    toggled copy of the first one.  With two pools "a" holding `[x:1,y:1]` and `[x:5,y:5]`,
    `updateConfig none none none (some ⟨"a", some false, none, none⟩)` succeeds (`#eval`) and leaves
    both pools with `[x:1,y:1]`: the reserves of `x` drop from 6 to 2.  Unique identifiers (`hids`,
    the first half of `WF`) is the minimal extra hypothesis. -/
theorem config_conserves_partial {s s' : PmState} {env : PmEnv} {sender : Addr} {funds : List Coin}
    {m : PmMsg} {r : Response}
    (hids : (s.pools.map (·.id)).Nodup)
    (hm : (∃ fc fm fee t, m = .updateConfig fc fm fee t) ∨ (∃ a, m = .updateOwnership a))
    (h : pmExecute s env sender funds m = .ok (s', r)) :
    funds = [] ∧ r.msgs = [] ∧ ∀ d, reserves s' d = reserves s d := by
  obtain ⟨hf, hr, -, hpools⟩ := pmExecute_config_ok hm h
  refine ⟨hf, hr, ?_⟩
  intro d
  rcases hpools with hp | ⟨pid, p, st, hp, hpools⟩
  · unfold reserves; rw [hp]
  · have := reserves_savePool (p' := { p with status := st }) hids hp rfl d
    have h2 : reserves s' d = reserves (s.savePool { p with status := st }) d := by
      unfold reserves; rw [hpools]
    rw [h2]
    simp only at this
    omega


/-! ### pool creation fees -/

theorem insertCoin_fresh_mem {c : Coin} {xs r : List Coin} (hc : c.denom ∉ xs.map (·.denom))
    (h : insertCoin c xs = .ok r) : ∀ g, g ∈ r ↔ g = c ∨ g ∈ xs := by
  induction xs generalizing r with
  | nil =>
    simp only [insertCoin, pure_ok] at h
    subst h
    simp
  | cons x xs ih =>
    simp only [List.map_cons, List.mem_cons, not_or] at hc
    unfold insertCoin at h
    have hne : (c.denom == x.denom) = false := by simpa using hc.1
    simp only [hne, Bool.false_eq_true, ↓reduceIte] at h
    split at h
    · simp only [pure_ok] at h
      subst h
      simp
    · obtain ⟨r', hr', h⟩ := bind_ok.mp h
      simp only [pure_ok] at h
      subst h
      intro g
      simp only [List.mem_cons, ih hc.2 hr' g]
      constructor
      · rintro (h | h | h)
        · exact Or.inr (Or.inl h)
        · exact Or.inl h
        · exact Or.inr (Or.inr h)
      · rintro (h | h | h)
        · exact Or.inr (Or.inl h)
        · exact Or.inl h
        · exact Or.inr (Or.inr h)

theorem aggregateCoins_mem {cs r : List Coin} (hnd : (cs.map (·.denom)).Nodup)
    (h : aggregateCoins cs = .ok r) : ∀ g, g ∈ cs → g ∈ r := by
  have key : ∀ (cs acc r : List Coin), (cs.map (·.denom)).Nodup →
      (∀ c ∈ cs, c.denom ∉ acc.map (·.denom)) →
      cs.foldlM (fun acc c => insertCoin c acc) acc = .ok r → ∀ g, (g ∈ cs ∨ g ∈ acc) → g ∈ r := by
    intro cs
    induction cs with
    | nil =>
      intro acc r _ _ h g hg
      simp only [List.foldlM_nil, pure_ok] at h
      subst h
      simpa using hg
    | cons c cs ih =>
      intro acc r hnd hacc h g hg
      simp only [List.foldlM_cons] at h
      obtain ⟨a1, ha1, h⟩ := bind_ok.mp h
      simp only [List.map_cons, List.nodup_cons] at hnd
      have hfr := hacc c (List.mem_cons_self ..)
      have hmem := insertCoin_fresh_mem hfr ha1
      have hden := (insertCoin_fresh hfr ha1).2
      apply ih a1 r hnd.2 ?_ h g
      · rcases hg with hg | hg
        · rcases List.mem_cons.mp hg with rfl | hg
          · exact Or.inr ((hmem _).mpr (Or.inl rfl))
          · exact Or.inl hg
        · exact Or.inr ((hmem _).mpr (Or.inr hg))
      · intro c' hc'
        rw [hden]
        rintro (h | h)
        · exact hnd.1 (h ▸ List.mem_map_of_mem hc')
        · exact hacc c' (List.mem_cons_of_mem _ hc') h
  intro g hg
  exact key cs [] r hnd (by simp) h g (Or.inl hg)

theorem coinsOf_eq_zero {cs : List Coin} {d : Denom} (h : ∀ g ∈ cs, g.denom ≠ d) : coinsOf cs d = 0 := by
  induction cs with
  | nil => rfl
  | cons c cs ih =>
    rw [coinsOf_cons, ih (fun g hg => h g (List.mem_cons_of_mem _ hg))]
    have : (c.denom == d) = false := by simpa using h c (List.mem_cons_self ..)
    simp [amt, this]

theorem coinsOf_of_mem {cs : List Coin} {g : Coin} (hnd : (cs.map (·.denom)).Nodup) (hg : g ∈ cs) :
    coinsOf cs g.denom = g.amount := by
  induction cs with
  | nil => cases hg
  | cons c cs ih =>
    simp only [List.map_cons, List.nodup_cons] at hnd
    rw [coinsOf_cons]
    rcases List.mem_cons.mp hg with rfl | hg
    · rw [coinsOf_eq_zero]
      · simp [amt]
      · intro g' hg' he
        exact hnd.1 (he ▸ List.mem_map_of_mem hg')
    · rw [ih hnd.2 hg]
      have : (c.denom == g.denom) = false := by
        simp only [beq_eq_false_iff_ne, ne_eq]
        intro he
        exact hnd.1 (he ▸ List.mem_map_of_mem hg)
      simp [amt, this]

theorem paidAmount_eq (cs : List Coin) (e : Denom) :
    paidAmount cs e = if coinsOf cs e ≤ U128_MAX then coinsOf cs e else 0 := by
  unfold paidAmount coinsOf sumNat
  simp only [List.foldl_map]

theorem feeMapM_ok {agg : List Coin} (fs : List Coin) {rest : List Coin}
    (h : fs.mapM (fun f => if paidAmount agg f.denom = f.amount then pure (⟨f.denom, f.amount⟩ : Coin)
      else (.error .payment : R Coin)) = .ok rest) :
    rest = fs ∧ ∀ f ∈ fs, paidAmount agg f.denom = f.amount := by
  induction fs generalizing rest with
  | nil =>
    simp only [List.mapM_nil, pure_ok] at h
    subst h; simp
  | cons f fs ih =>
    simp only [List.mapM_cons, ↓bind_ok, pure_ok] at h
    obtain ⟨x, hx, xs, hxs, rfl⟩ := h
    obtain ⟨rfl, hall⟩ := ih hxs
    split at hx
    · rename_i hp
      simp only [pure_ok] at hx
      subst hx
      exact ⟨rfl, by
        intro f' hf'
        rcases List.mem_cons.mp hf' with rfl | hf'
        · exact hp
        · exact hall f' hf'⟩
    · cases hx


theorem ite_err_ok2 {β : Type} {c : Prop} [Decidable c] {e : Err} {b : R β} {y : β} :
    ((if c then (Except.error e : R β) else b) = .ok y) = (¬ c ∧ b = .ok y) := by
  split <;> simp_all

theorem validateFeesArePaid_ok {cf : Coin} {tf funds totalFees : List Coin}
    (h : validateFeesArePaid cf tf funds = .ok totalFees) :
    ∃ agg, aggregateCoins funds = .ok agg ∧
      paidAmount agg cf.denom =
        (match tf.find? (·.denom == cf.denom) with
          | some f => if f.amount + cf.amount ≤ U128_MAX then f.amount + cf.amount else 0
          | none => cf.amount) ∧
      (∀ f ∈ tf.filter (·.denom != cf.denom), paidAmount agg f.denom = f.amount) ∧
      totalFees = ⟨cf.denom, paidAmount agg cf.denom⟩ :: tf.filter (·.denom != cf.denom) := by
  unfold validateFeesArePaid at h
  obtain ⟨agg, hagg, h⟩ := bind_ok.mp h
  simp only [ite_err_ok2] at h
  obtain ⟨hpaid, h⟩ := h
  obtain ⟨rest, hrest, h⟩ := bind_ok.mp h
  simp only [pure_ok] at h
  obtain ⟨rfl, hall⟩ := feeMapM_ok _ hrest
  exact ⟨agg, hagg, Decidable.not_not.mp hpaid, hall, h⟩

theorem validateNoAdditionalFunds_ok {funds totalFees : List Coin} {u : Unit}
    (h : validateNoAdditionalFunds funds totalFees = .ok u) :
    ∃ agg, aggregateCoins funds = .ok agg ∧
      ∀ g ∈ agg, ∃ t ∈ totalFees, t.denom = g.denom ∧ t.amount = g.amount := by
  unfold validateNoAdditionalFunds at h
  obtain ⟨agg, hagg, h⟩ := bind_ok.mp h
  split at h
  · cases h
  · rename_i hany
    refine ⟨agg, hagg, ?_⟩
    intro g hg
    simp only [List.any_eq_true, Bool.not_eq_true', not_exists, not_and, Bool.not_eq_true, Bool.not_eq_false',
      Bool.and_eq_true, beq_iff_eq, Bool.not_eq_eq_eq_not, Bool.not_true, Bool.not_false] at hany
    have := hany g hg
    simpa [List.any_eq_true] using this


theorem coinsOf_zero_map (ds : List Denom) (d : Denom) :
    coinsOf (ds.map fun x => (⟨x, 0⟩ : Coin)) d = 0 := by
  induction ds with
  | nil => rfl
  | cons x xs ih => rw [List.map_cons, coinsOf_cons, ih]; simp [amt]

theorem outflow_optSend' (self : Addr) (tf : List Coin) (to : Addr) (c : Coin) (d : Denom) :
    outflow self tf ((if c.amount ≠ 0 then [Msg.bankSend to [c]] else []).map (fun m => ({ msg := m } : SubMsg))) d
      = amt c d := by
  by_cases h : c.amount = 0
  · simp [h, amt]
  · simp [h, outflow, coinsOf_singleton]

/-- the fee arithmetic of pool creation: what is forwarded (creation fee) plus what the token
    factory consumes equals what was sent -/
theorem fees_balance {cf : Coin} {tf funds totalFees : List Coin} {u : Unit}
    (htf : (tf.map (·.denom)).Nodup) (hfunds : (funds.map (·.denom)).Nodup)
    (hov : ∀ f ∈ tf, f.denom = cf.denom → f.amount + cf.amount ≤ U128_MAX)
    (hfees : validateFeesArePaid cf tf funds = .ok totalFees)
    (hnoadd : validateNoAdditionalFunds funds totalFees = .ok u) (d : Denom) :
    amt cf d + coinsOf tf d = coinsOf funds d := by
  obtain ⟨agg, hagg, hpaid, hrest, rfl⟩ := validateFeesArePaid_ok hfees
  obtain ⟨agg', hagg', hall⟩ := validateNoAdditionalFunds_ok hnoadd
  rw [hagg] at hagg'; cases hagg'
  have hS : ∀ e, coinsOf agg e = coinsOf funds e := aggregateCoins_coins hagg
  have hmem := aggregateCoins_mem hfunds hagg
  have hT : ∀ f ∈ tf, coinsOf tf f.denom = f.amount := fun f hf => coinsOf_of_mem htf hf
  by_cases hex : ∃ g ∈ funds, g.denom = d
  · obtain ⟨g, hg, rfl⟩ := hex
    rw [coinsOf_of_mem hfunds hg]
    obtain ⟨t, ht, htd, hta⟩ := hall g (hmem g hg)
    rcases List.mem_cons.mp ht with rfl | ht
    · simp only at htd hta
      rw [hpaid] at hta
      have hamt : amt cf g.denom = cf.amount := by simp [amt, htd]
      cases hfind : tf.find? (·.denom == cf.denom) with
      | none =>
        rw [hfind] at hta
        simp only at hta
        have : coinsOf tf g.denom = 0 := coinsOf_eq_zero (by
          intro f hf he
          have := List.find?_eq_none.mp hfind f hf
          simp only [beq_iff_eq] at this
          exact this (he.trans htd.symm))
        omega
      | some f =>
        rw [hfind] at hta
        simp only at hta
        have hfm := List.mem_of_find?_eq_some hfind
        have hfd : f.denom = cf.denom := by simpa using List.find?_some hfind
        rw [if_pos (hov f hfm hfd)] at hta
        have := hT f hfm
        rw [hfd, htd] at this
        omega
    · obtain ⟨htm, htne⟩ := List.mem_filter.mp ht
      have htne' : t.denom ≠ cf.denom := by simpa using htne
      have := hT t htm
      rw [htd] at this
      have hamt : amt cf g.denom = 0 := by
        have : (cf.denom == g.denom) = false := by
          simp only [beq_eq_false_iff_ne, ne_eq]
          intro e
          exact htne' (htd.trans e.symm)
        simp [amt, this]
      omega
  · have h0 : coinsOf funds d = 0 := coinsOf_eq_zero (by intro g hg he; exact hex ⟨g, hg, he⟩)
    rw [h0]
    have hS0 : ∀ e, e = d → paidAmount agg e = 0 := by
      intro e he
      rw [paidAmount_eq, hS, he, h0]
      simp
    by_cases hd : cf.denom = d
    · have hp0 := hS0 _ hd
      rw [hpaid] at hp0
      have hamt : amt cf d = cf.amount := by simp [amt, hd]
      cases hfind : tf.find? (·.denom == cf.denom) with
      | none =>
        rw [hfind] at hp0
        simp only at hp0
        have : coinsOf tf d = 0 := coinsOf_eq_zero (by
          intro f hf he
          have := List.find?_eq_none.mp hfind f hf
          simp only [beq_iff_eq] at this
          exact this (he.trans hd.symm))
        omega
      | some f =>
        rw [hfind] at hp0
        simp only at hp0
        have hfm := List.mem_of_find?_eq_some hfind
        have hfd : f.denom = cf.denom := by simpa using List.find?_some hfind
        rw [if_pos (hov f hfm hfd)] at hp0
        have := hT f hfm
        rw [hfd, hd] at this
        omega
    · have hamt : amt cf d = 0 := by
        have : (cf.denom == d) = false := by simpa using hd
        simp [amt, this]
      by_cases hf : ∃ f ∈ tf, f.denom = d
      · obtain ⟨f, hf, rfl⟩ := hf
        have hfil : f ∈ tf.filter (·.denom != cf.denom) := by
          rw [List.mem_filter]
          exact ⟨hf, by simpa using fun e => hd e.symm⟩
        have h1 := hrest f hfil
        rw [hS0 _ rfl] at h1
        have := hT f hf
        omega
      · have : coinsOf tf d = 0 := coinsOf_eq_zero (by intro f hf' he; exact hf ⟨f, hf', he⟩)
        omega

/-- pool creation keeps nothing: the creation fee is forwarded, the token-factory fee is consumed.

    PARTIAL: the original statement `create_pool_conserves` (without `hov`) is false.  When a
    token-factory fee has the creation fee's denom and the two amounts overflow `u128`,
    `validate_fees_are_paid` computes the total as `checked_add(..).unwrap_or(0) = 0`, so the pool is
    created with no funds while the handler still emits the `BankMsg::Send` of the creation fee:
    `creationFee = ⟨"u", U128_MAX⟩`, `tfFees = [⟨"u", 1⟩]`, `funds = []`,
    `createPool … ["x","y"] [6,6] ⟨0,0,0,[]⟩ .cp none` succeeds (`#eval`) with messages
    `[bankSend "fc" [⟨"u", U128_MAX⟩], tfCreateDenom "p.1.LP"]`, i.e. outflow "u" = U128_MAX + 1 ≠ 0.
    `hov` (no such overflow) is the minimal extra hypothesis. -/
theorem create_pool_conserves_partial {s s' : PmState} {env : PmEnv} {funds : List Coin}
    {denoms : List Denom} {decimals : List Nat} {fees : PoolFee} {pt : PoolType} {id : Option String}
    {r : Response}
    (hwf : WF s) (htf : (env.tfFees.map (·.denom)).Nodup) (hfunds : (funds.map (·.denom)).Nodup)
    (hov : ∀ f ∈ env.tfFees, f.denom = s.config.creationFee.denom →
      f.amount + s.config.creationFee.amount ≤ U128_MAX)
    (h : createPool s env funds denoms decimals fees pt id = .ok (s', r)) :
    ∀ d, reserves s' d = reserves s d ∧ outflow env.self env.tfFees r.msgs d = coinsOf funds d := by
  obtain ⟨counter, pool, lpSym, totalFees, hfees, hnoadd, hassets, hnew, rfl, hmsgs⟩ := createPool_ok h
  intro d
  constructor
  · have := reserves_savePool_new (s := { s with counter := counter }) hnew d
    rw [this, hassets, coinsOf_zero_map]
    rfl
  · rw [hmsgs, List.map_append, outflow_append, outflow_optSend']
    have := fees_balance htf hfunds hov hfees hnoadd d
    simp only [List.map_cons, List.map_nil, outflow, sumNat_cons, sumNat_nil]
    omega

/-! ### counterexamples to the two statements that had to be weakened (kernel-checked) -/

def cxPool (a : Nat) : PoolInfo := {
  id := "a", denoms := ["x","y"], lpDenom := "lp", decimals := [6,6],
  assets := [⟨"x",a⟩,⟨"y",a⟩], ptype := .cp, fees := ⟨0,0,0,[]⟩, status := {} }
def cxEnv (tf : List Coin) : PmEnv := {
  self := "pm", nowNs := 0, bal := fun _ _ => 0, supply := fun _ => 0, tfFees := tf,
  validAddr := fun _ => true, fmPosition := fun _ => none }
/-- two pools with the same identifier (not `WF`) -/
def cxDupState : PmState := {
  config := ⟨"fc","fm",⟨"u",0⟩⟩, pools := [cxPool 1, cxPool 5], owner := { owner := some "o" } }
/-- creation fee + token-factory fee in the same denom overflow `u128` -/
def cxOverflowState : PmState := {
  config := ⟨"fc","fm",⟨"u", U128_MAX⟩⟩, pools := [], owner := { owner := some "o" } }

/-- `config_conserves` without unique identifiers: a feature toggle changes the reserves 6 → 2 -/
example : (match pmExecute cxDupState (cxEnv []) "o" []
      (.updateConfig none none none (some ⟨"a", some false, none, none⟩)) with
    | .ok (s', _) => some (reserves cxDupState "x", reserves s' "x")
    | .error _ => none) = some (6, 2) := by decide

/-- `create_pool_conserves` without `hov`: nothing is paid, `U128_MAX + 1` of "u" leaves -/
example : (match createPool cxOverflowState (cxEnv [⟨"u",1⟩]) [] ["x","y"] [6,6] ⟨0,0,0,[]⟩ .cp (some "q") with
    | .ok (_, r) => some (outflow "pm" [⟨"u",1⟩] r.msgs "u", coinsOf [] "u")
    | .error _ => none) = some (U128_MAX + 1, 0) := by decide

end MantraDex.C01
