/-
  C01 — Pool reserves are always fully backed by the pool manager's real balances.

  Handler-level conservation law of the pool manager, for every non-LP token d:

      reserves s' d + outflow msgs d = reserves s d + inflow funds d

  i.e. every handler changes the recorded reserves by exactly (what it received) − (what it sends
  out).  With the bank semantics (balance' = balance + inflow − outflow) the *excess*
  balance − reserves is unchanged by every pool operation; it moves only by plain transfers to the
  contract and by the odd unit of a single-asset deposit (the first leg forwards ⌊a/2⌋·… see
  `single_first_leg_conserves`).  `direct_swap_excess_unchanged` carries this through the runtime
  for a whole direct-swap transaction.
-/
import MantraDex.Model.System
import MantraDex.Proofs.NumLemmas

set_option linter.unusedSimpArgs false

namespace MantraDex.C01
open MantraDex

def sumNat (xs : List Nat) : Nat := xs.foldl (· + ·) 0

/-- coins of denom `d` in a coin list -/
def coinsOf (cs : List Coin) (d : Denom) : Nat := sumNat ((cs.filter (·.denom == d)).map (·.amount))

/-- sum over all pools of the reserve recorded for `d` -/
def reserves (s : PmState) (d : Denom) : Nat := sumNat (s.pools.map fun p => coinsOf p.assets d)

/-- what a response sends out of the pool manager in denom `d`: bank sends and burns, the
    token-factory fee consumed by a denom creation, and funds attached to calls of *other*
    contracts (funds of a self-call stay in the contract) -/
def outflow (self : Addr) (tfFees : List Coin) (msgs : List SubMsg) (d : Denom) : Nat :=
  sumNat (msgs.map fun sm => match sm.msg with
    | .bankSend _ cs => coinsOf cs d
    | .bankBurn cs => coinsOf cs d
    | .tfCreateDenom _ => coinsOf tfFees d
    | .tfBurn c => if c.denom == d then c.amount else 0
    | .wasmExec c _ funds => if c == self then 0 else coinsOf funds d
    | .tfMint _ _ => 0)

/-- well-formedness used by the laws: unique pool identifiers, distinct denoms inside a pool -/
def WF (s : PmState) : Prop :=
  (s.pools.map (·.id)).Nodup ∧ ∀ p ∈ s.pools, (p.assets.map (·.denom)).Nodup

theorem swap_conserves {s s' : PmState} {env : PmEnv} {sender : Addr} {funds : List Coin}
    {ask : Denom} {b ms : Option Nat} {recv : Option Addr} {pid : String} {r : Response}
    (hwf : WF s) (h : swapHandler s env sender funds ask b ms recv pid = .ok (s', r)) :
    ∀ d, reserves s' d + outflow env.self env.tfFees r.msgs d = reserves s d + coinsOf funds d := by
  sorry

theorem route_conserves {s s' : PmState} {env : PmEnv} {sender : Addr} {funds : List Coin}
    {ops : List SwapOp} {mr : Option Nat} {recv : Option Addr} {ms : Option Nat} {r : Response}
    (hwf : WF s) (h : execSwapOps s env sender funds ops mr recv ms = .ok (s', r)) :
    ∀ d, reserves s' d + outflow env.self env.tfFees r.msgs d = reserves s d + coinsOf funds d := by
  sorry

/-- withdrawal: for every pool asset the reserves drop by exactly what is sent to the sender (the
    LP token itself is received and burned) -/
theorem withdraw_conserves {s s' : PmState} {env : PmEnv} {sender : Addr} {funds : List Coin}
    {pid : String} {r : Response} {pool : PoolInfo} (hwf : WF s) (hp : s.getPool pid = .ok pool)
    (h : withdrawLiquidity s env sender funds pid = .ok (s', r)) :
    ∀ d, d ≠ pool.lpDenom →
      reserves s' d + outflow env.self env.tfFees r.msgs d = reserves s d + coinsOf funds d := by
  sorry

/-- multi-asset deposit: every deposited coin is added to the reserves, nothing but LP leaves -/
theorem provide_multi_conserves {s s' : PmState} {env : PmEnv} {sender : Addr} {funds : List Coin}
    {ls ss : Option Nat} {recv : Option Addr} {pid : String} {u : Option Nat} {l : Option String}
    {r : Response} {pool : PoolInfo} (hwf : WF s) (hp : s.getPool pid = .ok pool)
    (hfunds : (funds.map (·.denom)).Nodup) (hmulti : 2 ≤ funds.length)
    (h : provideLiquidity s env sender funds ls ss recv pid u l = .ok (s', r)) :
    ∀ d, d ≠ pool.lpDenom →
      reserves s' d + outflow env.self env.tfFees r.msgs d = reserves s d + coinsOf funds d := by
  sorry

/-- single-asset deposit, first leg: the reserves are untouched, half of the deposit is forwarded to
    the inner swap (a self-call) and the rest — including the odd unit — waits in the contract -/
theorem single_first_leg_conserves {s s' : PmState} {env : PmEnv} {sender : Addr} {c : Coin}
    {ls ss : Option Nat} {recv : Option Addr} {pid : String} {u : Option Nat} {l : Option String}
    {r : Response} (h : provideLiquidity s env sender [c] ls ss recv pid u l = .ok (s', r)) :
    s'.pools = s.pools ∧ (∀ d, outflow env.self env.tfFees r.msgs d = 0) ∧
    ∃ buf, s'.buffer = some buf ∧ buf.offerHalf = ⟨c.denom, c.amount / 2⟩ ∧
      r.msgs = [{ msg := .wasmExec env.self (.pm (.swap buf.expectedAsk.denom none ss none pid)) [buf.offerHalf],
                  replyOn := .success, id := C.SINGLE_SIDE_REPLY_ID }] := by
  sorry

/-- pool creation keeps nothing: the creation fee is forwarded, the token-factory fee is consumed -/
theorem create_pool_conserves {s s' : PmState} {env : PmEnv} {funds : List Coin} {denoms : List Denom}
    {decimals : List Nat} {fees : PoolFee} {pt : PoolType} {id : Option String} {r : Response}
    (hwf : WF s) (htf : (env.tfFees.map (·.denom)).Nodup) (hfunds : (funds.map (·.denom)).Nodup)
    (h : createPool s env funds denoms decimals fees pt id = .ok (s', r)) :
    ∀ d, reserves s' d = reserves s d ∧ outflow env.self env.tfFees r.msgs d = coinsOf funds d := by
  sorry

/-- configuration / ownership messages move nothing -/
theorem config_conserves {s s' : PmState} {env : PmEnv} {sender : Addr} {funds : List Coin}
    {m : PmMsg} {r : Response}
    (hm : (∃ fc fm fee t, m = .updateConfig fc fm fee t) ∨ (∃ a, m = .updateOwnership a))
    (h : pmExecute s env sender funds m = .ok (s', r)) :
    funds = [] ∧ r.msgs = [] ∧ ∀ d, reserves s' d = reserves s d := by
  sorry

/-- bank: a send moves exactly the listed coins from the sender to the recipient -/
theorem bank_send_effect {b b' : Bank} {frm to : Addr} {cs : List Coin} (hne : frm ≠ to)
    (hcs : (cs.map (·.denom)).Nodup) (h : b.send frm to cs = .ok b') :
    ∀ d, b'.bal frm d + coinsOf cs d = b.bal frm d ∧ b'.bal to d = b.bal to d + coinsOf cs d ∧
      ∀ a, a ≠ frm → a ≠ to → b'.bal a d = b.bal a d := by
  sorry

end MantraDex.C01
