/-
  C03, second sentence — "no sequence of swaps is profitable" — from the pool's side, for every history.

  `C03Sys.cp_value_per_lp_reachable` says x·y/supply² of a constant-product pool never decreases through
  any history of transactions by anybody.  Corollary stated here in the form a user reads it: whatever
  happens between two instants — any number of swaps in both directions, routes through this and other
  pools, single-asset deposits, deposits and withdrawals of other providers, donations, rejected or
  partially failing messages — if the LP supply of the pool is the same at both instants, the pool cannot
  have lost one asset without having gained the other: nobody, and no coalition, has taken value out of it.
  In particular a trader who only swaps (the supply never moves) can never end a sequence of swaps through
  the pool holding at least as much of both assets and more of one.
-/
import MantraDex.Properties.C03Sys

set_option linter.unusedSimpArgs false
set_option linter.unusedVariables false

namespace MantraDex.C03NoDrain
open MantraDex
open MantraDex.LpSys (Cp2)

/-- arithmetic core: with x·y ≤ x'·y', the pool did not lose in both coordinates -/
theorem not_both_down {x y x' y' : Nat} (hk : x * y ≤ x' * y') (hx : x' ≤ x) (hy : y' ≤ y)
    (hpos : 0 < x ∧ 0 < y) : x' = x ∧ y' = y := by
  rcases Nat.lt_or_ge x' x with hlt | hge
  · -- x' < x: x'·y' ≤ x'·y < x·y
    have h1 : x' * y' ≤ x' * y := Nat.mul_le_mul_left _ hy
    have h2 : x' * y < x * y := Nat.mul_lt_mul_of_pos_right hlt hpos.2
    omega
  · have hxe : x' = x := Nat.le_antisymm hx hge
    subst hxe
    rcases Nat.lt_or_ge y' y with hlt | hge'
    · have : x' * y' < x' * y := Nat.mul_lt_mul_of_pos_left hlt hpos.1
      omega
    · exact ⟨rfl, Nat.le_antisymm hy hge'⟩

/-- **no history takes value out of a constant-product pool**: same LP supply before and after ⇒ the
    reserves are not both lower-or-equal with one strictly lower -/
theorem no_history_drains_pool (w0 : World) (h0 : C02Sys.LpInv w0) (hu0 : C03Sys.Unfunded w0)
    (txs : List (Tx × Option Nat)) (hext : ∀ t ∈ txs, C01Sys.External t.1)
    (hplain : ∀ n, C02Sys.LpPlain ((txs.take n).foldl (fun w t => step w t.1 t.2) w0))
    (p : PoolInfo) (hp : p ∈ w0.pm.pools) {n0 n1 : Denom} {x y : Nat} (hc : Cp2 p n0 n1 x y)
    (hpos : 0 < x ∧ 0 < y)
    (hsupply : (txs.foldl (fun w t => step w t.1 t.2) w0).bank.supply p.lpDenom = w0.bank.supply p.lpDenom)
    (hfunded : w0.bank.supply p.lpDenom ≠ 0) :
    ∃ p' ∈ (txs.foldl (fun w t => step w t.1 t.2) w0).pm.pools, p'.id = p.id ∧
      ∀ x' y', p'.assets = [⟨n0, x'⟩, ⟨n1, y'⟩] → x * y ≤ x' * y' ∧ (x' ≤ x → y' ≤ y → x' = x ∧ y' = y) := by
  obtain ⟨p', hp', hid, hv⟩ := C03Sys.cp_value_per_lp_reachable w0 h0 hu0 txs hext hplain p hp hc.1
  refine ⟨p', hp', hid, ?_⟩
  intro x' y' ha
  unfold C03Sys.ValueLe at hv
  rw [hsupply, C03Sys.kOf_cp2 hc] at hv
  have hk' : C03Sys.kOf p' = x' * y' := by
    unfold C03Sys.kOf; rw [ha]; simp
  rw [hk'] at hv
  have hS : 0 < w0.bank.supply p.lpDenom ^ 2 := Nat.pow_pos (Nat.pos_of_ne_zero hfunded)
  have hk : x * y ≤ x' * y' := Nat.le_of_mul_le_mul_right hv hS
  exact ⟨hk, fun hx hy => not_both_down hk hx hy hpos⟩

end MantraDex.C03NoDrain
