/-
  C14, the locked variants, through the runtime: a single-asset deposit that LOCKS the minted LP in the farm manager
  (`unlocking_duration = Some u`, with or without an explicit position identifier, into a new or into the sender's own
  existing position) has exactly the effect of the depositor swapping half of it and then making the corresponding
  two-asset LOCKED deposit: same pools, same LP supply, same farm-manager state (positions, weights, counters), same
  balances of everybody — except the odd unit of an odd deposit, which stays in the pool manager's balance.
  Together with `C14Eq.single_asset_equals_two_step_partial` (unlocked) this covers every shape of single-asset deposit.

  PARTIAL, exactly as `C14Eq`: the three well-formedness hypotheses `hbuf` (no stale single-side buffer), `hvu` (the
  sender's address is valid) and `hsup` (the bank's recorded supply covers the deposit) are needed for the locked
  variants too — the executions are reproduced with `#eval` at the end of this file (`lWorld`, `lA`, `lB`).  Nothing
  else had to be added: nothing about `w.pm.config.farmManager`, `w.fm.config.poolManager`, the farm manager's
  invariants, or `u ≠ FM` beyond `hu`; if the lock call cannot go through, transaction A is not accepted.
  The conclusion of the first theorem is stronger than first stated: `wA.fm = wB.fm` outright (the field-by-field
  form is kept as the corollary `single_asset_locked_equals_two_step_fields`).
  Helper lemmas: `Proofs/LockTwoStep.lean` (namespace `MantraDex.LockTS`).
-/
import MantraDex.Model.System
import MantraDex.Proofs.NumLemmas
import MantraDex.Proofs.BankLemmas
import MantraDex.Proofs.TwoStepLemmas
import MantraDex.Properties.C14Eq
import MantraDex.Proofs.LockTwoStep

set_option linter.unusedSimpArgs false
set_option linter.unusedVariables false

namespace MantraDex.C14Lock
open MantraDex

/-- A: one single-asset LOCKED deposit `c` by the account `u`.
    B: `u` swaps ⌊c/2⌋ (same swap tolerance, proceeds to `u`), then deposits that half together with the proceeds with
    the same lock options.  If A is accepted, B is accepted step by step and ends in the same world, up to the odd unit.

    `_partial`: the three well-formedness hypotheses `hbuf`, `hvu`, `hsup` are those of
    `C14Eq.single_asset_equals_two_step_partial` (each shown necessary there; the same executions refute the locked
    statement without them).  NOTHING else is needed for the locked variants: a mis-configured farm-manager address
    or a farm manager that does not recognise the pool manager makes the lock call — hence transaction A — fail.
    The conclusion is STRONGER than first stated: the farm-manager states are equal outright (`wA.fm = wB.fm`)
    instead of field by field (positions, counter, farms, weight history, last-claimed epochs, configuration). -/
theorem single_asset_locked_equals_two_step_partial (w wA : World) (u : Addr) (c : Coin) (ls ss : Option Nat)
    (recv : Option Addr) (pid : String) (unl : Nat) (lockId : Option String)
    (hu : isContract u = false)
    (hbuf : w.pm.buffer = none) (hvu : w.validAddr u = true)
    (hsup : c.amount ≤ w.bank.supply c.denom)
    (hA : runTx w (.exec u PM (.pm (.provideLiquidity ls ss recv pid (some unl) lockId)) [c]) = .ok wA) :
    ∃ (askDenom : Denom) (ret : Nat) (w1 wB : World),
      askDenom ≠ c.denom ∧
      runTx w (.exec u PM (.pm (.swap askDenom none ss none pid)) [⟨c.denom, c.amount / 2⟩]) = .ok w1 ∧
      runTx w1 (.exec u PM (.pm (.provideLiquidity ls ss recv pid (some unl) lockId))
        [⟨c.denom, c.amount / 2⟩, ⟨askDenom, ret⟩]) = .ok wB ∧
      wA.pm = wB.pm ∧ wA.fm = wB.fm ∧ wA.em.cfg = wB.em.cfg ∧
      wA.bank.supply = wB.bank.supply ∧
      (∀ a d, ¬(d = c.denom ∧ (a = PM ∨ a = u)) → wA.bank.bal a d = wB.bank.bal a d) ∧
      wA.bank.bal PM c.denom = wB.bank.bal PM c.denom + c.amount % 2 ∧
      wA.bank.bal u c.denom + c.amount % 2 = wB.bank.bal u c.denom := by
  have huPM : u ≠ PM := C14Eq.not_contract_ne_pm hu
  obtain ⟨o, am⟩ := c
  simp only at hsup ⊢
  have hA' : execMsg 64 (w.at { w.bank with calls := 0, failAt := none } w.pm) u
      (.wasmExec PM (.pm (.provideLiquidity ls ss recv pid (some unl) lockId)) [⟨o, am⟩]) = .ok wA := hA
  obtain ⟨bA1, bA2, bA3, bA4, bA5, bA6, pool, ask, sim, y, sA6, rA6, ms0, lp, shares, fmS, rF,
    h1, hp, hru, hsim, h2, hcore, h3, e1, e2, h4, hprov2, hmsgs, hm0, hlen0, h5, h6, hfm, hrF, -, rfl⟩ :=
    LockTS.locked_run_inv hvu hA'
  simp only at h1 hsim h2 hcore h3 e1 e2 h4 hprov2
  obtain ⟨hne, hhalf0, hps⟩ := swapCore_inv hcore
  simp only at hne
  obtain ⟨pool', c', hp', hc', -, -, hret, hburn, hprot, -⟩ := C12.performSwap_inv hps
  rw [hp] at hp'; cases hp'
  rw [hsim] at hc'; cases hc'
  rw [hret, hburn, hprot] at h3
  have hybuf : y.1.buffer = none := by rw [performSwap_buffer hps]; exact hbuf
  rw [C14Eq.clear_buffer_eq hybuf] at hprov2 hmsgs hfm
  -- the bank side of B
  obtain ⟨bB1, bB2, bB3, hB1, hB2, hB3, hrel⟩ :=
    bank_two_step (tf := w.tfFees) (b0 := { w.bank with calls := 0, failAt := none }) huPM (fun e => hne e.symm) rfl hsup h1 h2 h3 e2 h4
  have hmint : ∀ m ∈ ms0 ++ [Msg.tfMint ⟨lp, shares⟩ PM], IsMint m := by
    intro m hm
    rcases List.mem_append.1 hm with hm | hm
    · exact hm0 m hm
    · simp only [List.mem_singleton] at hm; exact ⟨_, _, hm⟩
  obtain ⟨bB4, hB4, hrel'⟩ := mints_rel _ hmint hrel h5
  have hle : ∀ d, C01.coinsOf [(⟨lp, shares⟩ : Coin)] d ≤ bB4.bal PM d := by
    have hB4' := hB4
    rw [bankRun_append] at hB4'
    obtain ⟨bx, -, hlast⟩ := bind_ok.mp hB4'
    rw [bankRun_single] at hlast
    exact LockTS.mint_self_le (b := bx) hlast
  obtain ⟨bB5, hB5, hrel''⟩ := LockTS.send_rel hrel' h6 hle
  obtain ⟨hs', -, -, hb'⟩ := hrel''
  -- the deposit handler sees the same thing in both runs
  obtain ⟨deps, hagg, -⟩ := pl_agg hprov2
  have hlen : deps.length ≠ 1 := by
    rw [aggregateCoins_length (by simp [hne]) hagg]; simp
  have hv : ∀ b s a, (w.env b s).validAddr a = w.validAddr a := fun _ _ _ => rfl
  have hr1 : addrOrDefault (w.env bB3 y.1) recv u = u := hru
  have hr2 : addrOrDefault (w.env bA4 y.1) (some u) PM = u := by
    simp only [addrOrDefault, hv, hvu, if_true]
  have hcongr := LockTS.provide_multi_congr_lock y.1 (w.env bB3 y.1) (w.env bA4 y.1) u PM _ deps ls ss recv
    (some u) pid unl lockId u hagg hlen hrel.1.symm rfl rfl hr1 hr2 (by simp) (by
      have : (w.env bA4 y.1).self = PM := rfl
      simp [this])
  have hleaf : ∀ m ∈ ms0 ++ [Msg.tfMint ⟨lp, shares⟩ PM], IsLeaf m := fun m hm => isMint_leaf (hmint m hm)
  refine ⟨ask, sim.ret, w.at bB2 y.1, { w.at bB5 sA6 with fm := fmS }, fun e => hne e.symm, ?_, ?_, rfl, rfl, rfl,
    hs', ?_, ?_, ?_⟩
  · -- the swap
    show execMsg (63 + 1) (w.at { w.bank with calls := 0, failAt := none } w.pm) u
      (.wasmExec PM (.pm (.swap ask none ss none pid)) [⟨o, am / 2⟩]) = _
    rw [execMsg_pm_at 63 w _ _ u _ _ rfl, hB1]
    simp only [ok_bind, pmExecute]
    rw [swapHandler_eq, hcore]
    show execSubs 63 (w.at bB1 y.1) PM
      ((swapMsgs u w.pm.config.feeCollector y.2.ret y.2.burnFee y.2.protocolFee).map mkSub) = _
    rw [hret, hburn, hprot, execSubs_leaf_at _ 63 w bB1 _ PM (swapMsgs_leaf _ _ _ _ _)
      (by have := swapMsgs_length u w.pm.config.feeCollector ⟨ask, sim.ret⟩ ⟨ask, sim.burnFee⟩
            ⟨ask, sim.protocolFee⟩; omega), hB2]
    rfl
  · -- the deposit
    show execMsg (63 + 1) (w.at { bB2 with calls := 0, failAt := none } y.1) u
      (.wasmExec PM (.pm (.provideLiquidity ls ss recv pid (some unl) lockId)) [⟨o, am / 2⟩, ⟨ask, sim.ret⟩]) = _
    rw [execMsg_pm_at 63 w _ _ u _ _ rfl, hB3]
    simp only [ok_bind, pmExecute]
    rw [hcongr, hprov2]
    show execSubs 63 (w.at bB3 sA6) PM rA6.msgs = _
    rw [hmsgs, List.map_append, List.map_cons, List.map_nil]
    obtain ⟨k, hk, hk3⟩ : ∃ k, 63 = k + (ms0 ++ [Msg.tfMint ⟨lp, shares⟩ PM]).length ∧ 3 ≤ k :=
      ⟨62 - ms0.length, by simp only [List.length_append, List.length_singleton]; omega, by omega⟩
    have hrun := LockTS.execSubs_leaf_append_run (ms0 ++ [Msg.tfMint ⟨lp, shares⟩ PM])
      [mkSub (.wasmExec FM (.fm (LockTS.lockFm (w.env bA4 y.1) unl lockId u)) [⟨lp, shares⟩])] k
      (w.at bB3 sA6) _ PM bB4 hleaf (by omega) hB4
      (LockTS.lock_call_run (W := { w.at bB3 sA6 with bank := bB4 }) hk3 hB5 hfm hrF)
    rw [← hk] at hrun
    exact hrun
  · intro a d hnot
    have := hb' a d
    show bA6.bal a d = bB5.bal a d
    by_cases hd : o = d
    · subst hd
      have h1' : ¬ a = PM := fun e => hnot ⟨rfl, Or.inl e⟩
      have h2' : ¬ a = u := fun e => hnot ⟨rfl, Or.inr e⟩
      simp only [h1', h2', false_and, if_false] at this
      omega
    · simp only [hd, and_false, if_false] at this
      omega
  · have := hb' PM o
    show bA6.bal PM o = bB5.bal PM o + am % 2
    have hPu : ¬ PM = u := fun e => huPM e.symm
    simp only [hPu, false_and, if_false, true_and, if_true] at this
    omega
  · have := hb' u o
    show bA6.bal u o + am % 2 = bB5.bal u o
    simp only [huPM, false_and, if_false, true_and, if_true, and_self] at this
    omega

/-- the comparison in the form first stated: the farm manager field by field -/
theorem single_asset_locked_equals_two_step_fields (w wA : World) (u : Addr) (c : Coin) (ls ss : Option Nat)
    (recv : Option Addr) (pid : String) (unl : Nat) (lockId : Option String)
    (hu : isContract u = false)
    (hbuf : w.pm.buffer = none) (hvu : w.validAddr u = true)
    (hsup : c.amount ≤ w.bank.supply c.denom)
    (hA : runTx w (.exec u PM (.pm (.provideLiquidity ls ss recv pid (some unl) lockId)) [c]) = .ok wA) :
    ∃ (askDenom : Denom) (ret : Nat) (w1 wB : World),
      askDenom ≠ c.denom ∧
      runTx w (.exec u PM (.pm (.swap askDenom none ss none pid)) [⟨c.denom, c.amount / 2⟩]) = .ok w1 ∧
      runTx w1 (.exec u PM (.pm (.provideLiquidity ls ss recv pid (some unl) lockId))
        [⟨c.denom, c.amount / 2⟩, ⟨askDenom, ret⟩]) = .ok wB ∧
      wA.pm = wB.pm ∧ wA.fm.positions = wB.fm.positions ∧ wA.fm.posCounter = wB.fm.posCounter ∧
      wA.fm.farms = wB.fm.farms ∧ wA.fm.hist = wB.fm.hist ∧ wA.fm.lastClaimed = wB.fm.lastClaimed ∧
      wA.fm.config = wB.fm.config ∧ wA.em.cfg = wB.em.cfg ∧
      wA.bank.supply = wB.bank.supply ∧
      (∀ a d, ¬(d = c.denom ∧ (a = PM ∨ a = u)) → wA.bank.bal a d = wB.bank.bal a d) ∧
      wA.bank.bal PM c.denom = wB.bank.bal PM c.denom + c.amount % 2 ∧
      wA.bank.bal u c.denom + c.amount % 2 = wB.bank.bal u c.denom := by
  obtain ⟨ask, ret, w1, wB, h1, h2, h3, h4, h5, h6⟩ :=
    single_asset_locked_equals_two_step_partial w wA u c ls ss recv pid unl lockId hu hbuf hvu hsup hA
  exact ⟨ask, ret, w1, wB, h1, h2, h3, h4, by rw [h5], by rw [h5], by rw [h5], by rw [h5], by rw [h5], by rw [h5], h6⟩

/-- a single-asset locked deposit locks the LP for the sender only: every position it creates or changes belongs
    to the sender.

    Hypotheses DROPPED with respect to the first statement (all four turned out to be unnecessary, the theorem is
    stronger): `hu : isContract u = false`, `hbuf : w.pm.buffer = none`, `hpm : w.fm.config.poolManager = PM` and
    `hnd : (w.fm.positions.map (·.id)).Nodup`.  (The first leg overwrites the buffer; a farm manager that does not
    recognise the pool manager refuses the lock call, so A would not be accepted; the membership argument does not
    need distinct identifiers.)  `hvu` is necessary: with an invalid sender address the second leg falls back to
    the pool manager as receiver, see the refuting execution in `C15Sys` (`CE.world`, `CE.txNew`, `CE.txExp`) and
    run 2 at the end of this file.  First statement, for reference:

        theorem single_asset_locks_for_sender (w wA : World) (u : Addr) (c : Coin) (ls ss : Option Nat)
            (recv : Option Addr) (pid : String) (unl : Nat) (lockId : Option String)
            (hu : isContract u = false) (hbuf : w.pm.buffer = none) (hvu : w.validAddr u = true)
            (hpm : w.fm.config.poolManager = PM) (hnd : (w.fm.positions.map (·.id)).Nodup)
            (hA : runTx w (.exec u PM (.pm (.provideLiquidity ls ss recv pid (some unl) lockId)) [c]) = .ok wA) :
            ∀ p ∈ wA.fm.positions, p ∉ w.fm.positions → p.receiver = u -/
theorem single_asset_locks_for_sender (w wA : World) (u : Addr) (c : Coin) (ls ss : Option Nat)
    (recv : Option Addr) (pid : String) (unl : Nat) (lockId : Option String)
    (hvu : w.validAddr u = true)
    (hA : runTx w (.exec u PM (.pm (.provideLiquidity ls ss recv pid (some unl) lockId)) [c]) = .ok wA) :
    ∀ p ∈ wA.fm.positions, p ∉ w.fm.positions → p.receiver = u := by
  have hA' : execMsg 64 (w.at { w.bank with calls := 0, failAt := none } w.pm) u
      (.wasmExec PM (.pm (.provideLiquidity ls ss recv pid (some unl) lockId)) [c]) = .ok wA := hA
  obtain ⟨bA1, bA2, bA3, bA4, bA5, bA6, pool, ask, sim, y, sA6, rA6, ms0, lp, shares, fmS, rF,
    -, -, -, -, -, -, -, -, -, -, -, -, -, -, -, -, hfm, -, hpos, rfl⟩ := LockTS.locked_run_inv hvu hA'
  intro p hp hnot
  rcases LockTS.lock_positions hfm hpos p hp with h | h
  · exact absurd h hnot
  · exact h

/-! ### the three hypotheses are needed for the locked variants too (run with `#eval`)

  The world of `C14Eq` (`C14Eq.cxWorld`: constant-product pool `x/y`, reserves 10^6/10^6, LP supply 10^6, `alice`
  holding 5000 `x`) with a farm manager that accepts an unlocking duration of one day; `alice` deposits `1001 x`
  single-sided and locks the LP for a day. -/

def lFm : FmState := {
  config := ⟨FC, EM, PM, ⟨"x",0⟩, 1, 1, 86400, 31556926, 2629746, 0⟩, owner := { owner := some "o" } }
def lWorld (buf : Option SingleSideBuffer) (valid : Addr → Bool) (supplyX : Nat) : World :=
  { C14Eq.cxWorld buf valid supplyX with fm := lFm }
/-- A: `alice` deposits `1001 x` and locks the LP (position identifier `l`) -/
def lA (l : Option String) : Tx :=
  .exec "alice" PM (.pm (.provideLiquidity none none none "p" (some 86400) l)) [⟨"x", 1001⟩]
/-- B: `alice` swaps `500 x` (for `499 y`), then deposits `500 x + 499 y` with the same lock options -/
def lB (l : Option String) (w : World) : R World := do
  let w1 ← runTx w (.exec "alice" PM (.pm (.swap "y" none none none "p")) [⟨"x", 500⟩])
  runTx w1 (.exec "alice" PM (.pm (.provideLiquidity none none none "p" (some 86400) l)) [⟨"x", 500⟩, ⟨"y", 499⟩])
/-- (buffer set?, supply of `x`, LP of the farm manager, positions as (identifier, amount, receiver)) -/
def lShow (w : World) : R (Bool × Nat × Nat × List (String × Nat × Addr)) :=
  .ok (w.pm.buffer.isSome, w.bank.supply "x", w.bank.bal FM C14Eq.cxLp,
    w.fm.positions.map fun p => (p.id, p.amount, p.receiver))

/-  well-formed world: A and B agree
      #eval runTx (lWorld none (fun _ => true) 1005000) (lA none) >>= lShow        -- ok (false, 1005000, 499, [("p-1", 499, "alice")])
      #eval lB none (lWorld none (fun _ => true) 1005000) >>= lShow                -- ok (false, 1005000, 499, [("p-1", 499, "alice")])
      #eval runTx (lWorld none (fun _ => true) 1005000) (lA (some "k")) >>= lShow  -- ok (false, 1005000, 499, [("u-k", 499, "alice")])
      #eval lB (some "k") (lWorld none (fun _ => true) 1005000) >>= lShow          -- ok (false, 1005000, 499, [("u-k", 499, "alice")])
    1. stale buffer (without `hbuf`)
      #eval runTx (lWorld (some C14Eq.cxJunk) (fun _ => true) 1005000) (lA none) >>= lShow  -- ok (false, 1005000, 499, [("p-1", 499, "alice")])
      #eval lB none (lWorld (some C14Eq.cxJunk) (fun _ => true) 1005000) >>= lShow          -- ok (true, 1005000, 499, [("p-1", 499, "alice")])
    2. the sender is not a valid address (without `hvu`; also refutes `single_asset_locks_for_sender` without `hvu`)
      #eval runTx (lWorld none (fun a => a != "alice") 1005000) (lA none) >>= lShow  -- ok (false, 1005000, 499, [("p-1", 499, "pm")])
      #eval lB none (lWorld none (fun a => a != "alice") 1005000) >>= lShow          -- error invalidInput
    3. supply below the deposit (without `hsup`)
      #eval runTx (lWorld none (fun _ => true) 700) (lA none) >>= lShow              -- ok (false, 1001, 499, [("p-1", 499, "alice")])
      #eval lB none (lWorld none (fun _ => true) 700) >>= lShow                      -- ok (false, 700, 499, [("p-1", 499, "alice")])  -/

end MantraDex.C14Lock
