/-
  Soundness of six more implementation-side monitors with respect to the model (see MonSound … MonSoundE for the idea): fed with
  the quantities of an accepted MODEL transaction / of a state satisfying the reachable invariants, the monitor raises no alarm.

  * `monFmCustody` (C05): in every state satisfying `C05Sys.FmInv` (every reachable state, `C05Sys.fm_inv_reachable`) the farm
    manager's balance covers recorded positions + unclaimed farm budgets, for any list of denoms;
  * `monWeightsCover` (C10): in every state satisfying `C10Sys.Covers` (reachable: `C10Sys.weights_covered_reachable`) the
    total weight in effect at any epoch covers the sum of any duplicate-free set of users' weights in effect;
  * `monFarmExpand` (C11): an accepted ExpandFarm — budget grows by what was attached, the end by attached / rate, nothing else
    about the farm changes;
  * `monFarmCreate` (C11): an accepted CreateFarm that closes no expired farm on the way — the fee collector gets exactly the fee,
    nothing else is taken from the creator, the recorded budget is the declared reward.  The harness skips this monitor when the
    fee collector is the creator; take `w.fm.config.feeCollector ≠ u` (and whatever else is really needed: say so);
  * `monFarmClose` (C11): an accepted CloseFarm without an injected fault — the owner gets exactly funded − claimed, the farm
    manager loses exactly that, nobody else's balance of that denom moves (`others` = sum over any list of further accounts of
    |Δ|; state it with `Int.natAbs` or as "every such Δ is 0"); when the closer IS the farm owner the same amount;
  * `monQuote` (C12): the five numbers of the Simulation query on the pre-state = the five numbers the accepted swap reports
    (return, spread, swap / protocol / burn fee — take them from `performSwap`'s result on the pre-state, as MonSoundB does).

  If a statement is false as given: counterexample (kernel-evaluated), original kept in a comment, `_partial` with the weakest
  repair, prominent note — as in the guide.  Where I left the exact shape of a hypothesis open (marked TODO) choose the weakest
  that works and justify it in the doc comment.
  STATUS: all six proved; no statement was false.  One statement changed, to a STRONGER theorem: in `monFarmCreate_sound` the
  conjunct `feeCollector ≠ FM` of `hroles` became `feeCollector = FM → p.asset.denom ≠ createFarmFee.denom`.  Every role
  hypothesis that remains is shown necessary by a theorem `…_fires_…` (an accepted model transaction on which the monitor
  raises an alarm): `monFarmCreate_fires_collector_is_creator`, `monFarmCreate_fires_creator_is_fm`,
  `monFarmCreate_fires_collector_is_fm`, `monFarmClose_fires_owner_is_fm`.  NOTE FOR THE HARNESS: `mon_farm_create` gives a
  false `C11-fee-routed` alarm when the farm manager is configured as its own fee collector and the reward is paid in the fee
  denom (the "collector" then keeps reward + fee) — skip or adapt it there, as for `feeCollector = creator`.
-/
import MantraDex.Model.System
import MantraDex.Model.HistMon
import MantraDex.Model.Queries
import MantraDex.Properties.C05Sys
import MantraDex.Properties.C10Sys
import MantraDex.Properties.C11Sys
import MantraDex.Properties.C12Sys
import MantraDex.Proofs.MonSoundFLemmas

set_option linter.unusedSimpArgs false
set_option linter.unusedVariables false

namespace MantraDex.MonSoundF
open MantraDex

/-- `mon_fm_custody` (C05).  PROVED AS STATED: `C05Sys.FmInv.custody` + `C05.liability_eq`; `ds` is arbitrary (duplicates, denoms
    nobody holds: both sides 0).  The fourth component (`a sum did not fit`) is an artefact of the harness' 128-bit sums; the
    model's sums are unbounded, hence `false`. -/
theorem monFmCustody_sound (w : World) (h : C05Sys.FmInv w) (ds : List Denom) :
    monFmCustody (ds.map fun d => (w.bank.bal FM d, C05.posSum w.fm.positions d, C05.farmSum w.fm.farms d, false)) = none := by
  unfold monFmCustody
  apply MonSoundEL.firstFail_none
  intro x hx
  simp only [List.mem_cons, List.mem_nil_iff, or_false] at hx
  subst hx
  simp only [List.all_eq_true, List.mem_map]
  rintro y ⟨d, _, rfl⟩
  have hc := h.custody d
  rw [C05.liability_eq] at hc
  simp only [Bool.not_false, Bool.and_true, decide_eq_true_eq]
  exact hc

/-- `mon_weights` / `mon_weights_epoch` (C10).  PROVED AS STATED: `C10Sys.sumOver us g` IS `(us.map g).foldl (· + ·) 0`
    (definitional), so this is `C10Sys.Covers` read at `lp`, `us`, `e`.  `hnd` and `hfm` are `Covers`' own side conditions (a
    user listed twice is counted twice; the farm manager's own history is the total). -/
theorem monWeightsCover_sound (w : World) (h : C10Sys.Covers w) (lp : Denom) (us : List Addr) (hnd : us.Nodup)
    (hfm : FM ∉ us) (e : Nat) :
    monWeightsCover (Spec.weightAt (w.fm.hist FM lp) e)
      ((us.map fun u => Spec.weightAt (w.fm.hist u lp) e).foldl (· + ·) 0) = none := by
  have hc := h lp us hnd hfm e
  unfold C10Sys.sumOver at hc
  unfold monWeightsCover
  apply MonSoundEL.firstFail_none
  intro x hx
  simp only [List.mem_cons, List.mem_nil_iff, or_false] at hx
  subst hx
  simp only [decide_eq_true_eq]
  exact hc

/-- `mon_farm_expand` (C11): `f` the farm before, `f'` the farm stored under the same identifier after.

    PROVED AS STATED, for every fault position `k`.  `funds` is arbitrary in the statement, but an accepted ExpandFarm carries
    exactly `[p.asset]` with `p.asset.denom = f.assetDenom` (`C11Sys.expand_farm_tx_effect`: anything else — a second coin, another
    denom — is refused by `oneCoin` / the denom check), so `coinsOf funds f.assetDenom = p.asset.amount`; the handler stores
    `{ f with assetAmount := f.assetAmount + p.asset.amount, endEpoch := f.endEpoch + p.asset.amount / f.emissionRate }`
    (`MonSoundFL.expand_farm_stored_tx`, strengthening `C11.expand_farm_exact` to ALL remaining fields incl. `lpDenom`,
    `assetDenom`, `id`), which is what the three clauses say.  (`f.emissionRate = 0` is refused by the handler; the monitor
    skips that case anyway.) -/
theorem monFarmExpand_sound (w w' : World) (u : Addr) (p : FarmParams) (fid : String) (f f' : Farm) (funds : List Coin)
    (k : Option Nat) (hid : p.farmId = some fid) (hf : w.fm.getFarm fid = .ok f) (hf' : w'.fm.getFarm fid = .ok f')
    (h : runTx w (.exec u FM (.fm (.expandFarm p)) funds) k = .ok w') :
    monFarmExpand f.emissionRate (C01.coinsOf funds f.assetDenom) f.endEpoch f'.endEpoch f.assetAmount f'.assetAmount
      (f'.owner == f.owner && f'.claimed == f.claimed && f'.startEpoch == f.startEpoch && f'.lpDenom == f.lpDenom &&
       f'.assetDenom == f.assetDenom && f'.emissionRate == f.emissionRate) = none := by
  obtain ⟨_, hfunds, hden, _, _⟩ := C11Sys.expand_farm_tx_effect w w' u p fid f funds k hid hf h
  have hs := MonSoundFL.expand_farm_stored_tx hid hf h
  rw [hs] at hf'
  cases hf'
  subst hfunds
  rw [coinsOf_single, if_pos hden]
  unfold monFarmExpand
  simp

/-- `mon_farm_create` (C11): `f` the farm the accepted CreateFarm recorded (the one that was not there before).

    PROVED, with the third conjunct of `hroles` WEAKENED (stronger theorem; the stub had `feeCollector ≠ FM`, which implies
    the implication used here).  The hypotheses, each one needed (the exact additive bank effect is
    `C11Sys.create_farm_tx_effect_partial`; the three necessity lemmas below turn the remarks into theorems):
    * `hnoexp` — as in `C11Sys.create_farm_tx_effect_partial`: no farm of the LP token is expired, so nothing is closed and
      refunded on the way (expired farms are closed first and their remainders refunded to their owners — possibly the creator
      or the fee collector —, which the monitor's exact accounting does not model);
    * `feeCollector ≠ u` — otherwise the creator gets the fee back, is charged only the reward, and `extra` = the fee
      (`monFarmCreate_fires_collector_is_creator`); the harness skips the monitor in that case;
    * `u ≠ FM` — a payment of the farm manager to itself moves nothing, so "the creator" would be charged only the fee and
      `extra` = the reward (`monFarmCreate_fires_creator_is_fm`).  Holds for every `C05Sys.External` transaction
      (`C05Sys.not_contract_ne_FM`): contracts do not sign transactions;
    * `feeCollector = FM → p.asset.denom ≠ createFarmFee.denom` — when the farm manager is its own fee collector AND the reward
      is paid in the fee denom, the fee collector's balance of the fee denom grows by reward + fee, not by the fee
      (`monFarmCreate_fires_collector_is_fm`): the monitor's `C11-fee-routed` clause would be a false alarm.  With distinct
      denoms (or any other fee collector) the clause is right.  Nothing in the model or the contract prevents
      `fee_collector = farm manager` (`fmUpdateConfig` only validates the address), so the HARNESS should skip (or adapt)
      `mon_farm_create` for that configuration, as it does for `feeCollector = creator`.
    Aliasing that needs NO hypothesis: reward denom = fee denom (one coin `reward + fee` is attached, both `if`s of the
    `extra` term are taken), an overpaid fee (refunded to the creator inside the transaction), a zero fee, duplicates in `ds`
    (`hds` is not needed; kept, it costs the caller nothing). -/
theorem monFarmCreate_sound (w w' : World) (u : Addr) (p : FarmParams) (funds : List Coin) (f : Farm)
    (hnoexp : ∀ g ∈ w.fm.farmsByLp p.lpDenom w.fm.config.maxConcurrentFarms,
      isFarmExpiredOrFalse w.fm w.fmEnv g = .ok false)
    (hroles : w.fm.config.feeCollector ≠ u ∧ u ≠ FM ∧
      (w.fm.config.feeCollector = FM → p.asset.denom ≠ w.fm.config.createFarmFee.denom))
    (hf : f ∈ w'.fm.farms) (hnew : ∀ g ∈ w.fm.farms, g.id ≠ f.id)
    (h : runTx w (.exec u FM (.fm (.createFarm p)) funds) = .ok w') (ds : List Denom) (hds : ds.Nodup) :
    monFarmCreate p.asset.amount w.fm.config.createFarmFee.amount
      ((w'.bank.bal w.fm.config.feeCollector w.fm.config.createFarmFee.denom : Int)
        - w.bank.bal w.fm.config.feeCollector w.fm.config.createFarmFee.denom)
      -- anything taken from the creator beyond reward + fee, summed over any duplicate-free list of denoms
      ((ds.map fun d => Int.natAbs (((w.bank.bal u d : Int) - w'.bank.bal u d)
          - ((if d = p.asset.denom then (p.asset.amount : Int) else 0)
             + (if d = w.fm.config.createFarmFee.denom then (w.fm.config.createFarmFee.amount : Int) else 0)))).foldl
        (fun (acc : Int) (n : Nat) => acc + (n : Int)) (0 : Int))
      f.assetAmount = none := by
  obtain ⟨⟨f0, hf0, _, _, _, _, ha0, _, _⟩, hbank⟩ :=
    C11Sys.create_farm_tx_effect_partial w w' u p funds hnoexp h
  obtain ⟨h1, h2, h3⟩ := hroles
  -- the recorded budget
  have hfa : f.assetAmount = p.asset.amount := by
    rcases MonSoundFL.create_farm_farms hnoexp h f hf with hold | hnew'
    · exact absurd rfl (hnew f hold)
    · exact hnew'
  -- the fee collector
  have efc := hbank w.fm.config.feeCollector w.fm.config.createFarmFee.denom
  have c1 : ¬ w.fm.config.feeCollector = u := h1
  have hfc : ((w'.bank.bal w.fm.config.feeCollector w.fm.config.createFarmFee.denom : Int)
        - w.bank.bal w.fm.config.feeCollector w.fm.config.createFarmFee.denom) = (w.fm.config.createFarmFee.amount : Int) := by
    by_cases c2 : w.fm.config.feeCollector = FM
    · have c3 : ¬ p.asset.denom = w.fm.config.createFarmFee.denom := h3 c2
      have c4 : ¬ FM = u := fun e => h2 e.symm
      rw [c2] at efc ⊢
      simp only [C11Sys.at_, C11Sys.amt, c3, c4, if_false, if_true] at efc
      omega
    · simp only [C11Sys.at_, C11Sys.amt, c1, c2, if_false, if_true] at efc
      omega
  -- the creator
  have hextra : ∀ n ∈ (ds.map fun d => Int.natAbs (((w.bank.bal u d : Int) - w'.bank.bal u d)
          - ((if d = p.asset.denom then (p.asset.amount : Int) else 0)
             + (if d = w.fm.config.createFarmFee.denom then (w.fm.config.createFarmFee.amount : Int) else 0)))),
      n = 0 := by
    intro n hn
    obtain ⟨d, _, rfl⟩ := List.mem_map.1 hn
    have eu := hbank u d
    have c3 : ¬ u = FM := h2
    have c4 : ¬ u = w.fm.config.feeCollector := fun e => h1 e.symm
    simp only [C11Sys.at_, C11Sys.amt, c3, c4, if_false, if_true] at eu
    by_cases d1 : d = p.asset.denom <;> by_cases d2 : d = w.fm.config.createFarmFee.denom
    all_goals
      have d1' : (p.asset.denom = d) = (d = p.asset.denom) := propext ⟨Eq.symm, Eq.symm⟩
      have d2' : (w.fm.config.createFarmFee.denom = d) = (d = w.fm.config.createFarmFee.denom) :=
        propext ⟨Eq.symm, Eq.symm⟩
      simp only [d1', d2'] at eu
      simp only [d1, d2, if_true, if_false] at eu ⊢
      omega
  rw [MonSoundFL.foldl_int_zero _ hextra]
  unfold monFarmCreate
  rw [hfc, hfa]
  simp

/-! #### the three role hypotheses of `monFarmCreate_sound` are necessary

  For an ACCEPTED CreateFarm in a configuration violating one of them the monitor DOES fire, although the model — and the
  contract — behave exactly as intended: the monitor, not the implementation, would be wrong.  (The lemmas are conditional on
  acceptance; nothing in `createFarm` looks at who the fee collector is, and accepted CreateFarm transactions exist, e.g. in
  `NonVacuity`'s history.) -/

/-- the fee collector creates the farm (non-zero fee): the fee comes back, the monitor sees `extra` = fee -/
theorem monFarmCreate_fires_collector_is_creator (w w' : World) (u : Addr) (p : FarmParams) (funds : List Coin) (fa : Nat)
    (hnoexp : ∀ g ∈ w.fm.farmsByLp p.lpDenom w.fm.config.maxConcurrentFarms,
      isFarmExpiredOrFalse w.fm w.fmEnv g = .ok false)
    (hfc : w.fm.config.feeCollector = u) (hu : u ≠ FM) (hfee : w.fm.config.createFarmFee.amount ≠ 0)
    (h : runTx w (.exec u FM (.fm (.createFarm p)) funds) = .ok w') :
    monFarmCreate p.asset.amount w.fm.config.createFarmFee.amount
      ((w'.bank.bal w.fm.config.feeCollector w.fm.config.createFarmFee.denom : Int)
        - w.bank.bal w.fm.config.feeCollector w.fm.config.createFarmFee.denom)
      (([w.fm.config.createFarmFee.denom].map fun d => Int.natAbs (((w.bank.bal u d : Int) - w'.bank.bal u d)
          - ((if d = p.asset.denom then (p.asset.amount : Int) else 0)
             + (if d = w.fm.config.createFarmFee.denom then (w.fm.config.createFarmFee.amount : Int) else 0)))).foldl
        (fun (acc : Int) (n : Nat) => acc + (n : Int)) (0 : Int))
      fa = some "C11-create-exact" := by
  obtain ⟨_, hbank⟩ := C11Sys.create_farm_tx_effect_partial w w' u p funds hnoexp h
  have eu := hbank u w.fm.config.createFarmFee.denom
  have c1 : ¬ u = FM := hu
  simp only [C11Sys.at_, C11Sys.amt, hfc, c1, if_false, if_true] at eu
  have hx : (([w.fm.config.createFarmFee.denom].map fun d => Int.natAbs (((w.bank.bal u d : Int) - w'.bank.bal u d)
          - ((if d = p.asset.denom then (p.asset.amount : Int) else 0)
             + (if d = w.fm.config.createFarmFee.denom then (w.fm.config.createFarmFee.amount : Int) else 0)))).foldl
        (fun (acc : Int) (n : Nat) => acc + (n : Int)) (0 : Int)) = (w.fm.config.createFarmFee.amount : Int) := by
    simp only [List.map_cons, List.map_nil, List.foldl_cons, List.foldl_nil, if_true]
    by_cases d1 : p.asset.denom = w.fm.config.createFarmFee.denom
    · simp only [d1, if_true] at eu ⊢
      omega
    · have d1' : ¬ w.fm.config.createFarmFee.denom = p.asset.denom := fun e => d1 e.symm
      simp only [d1, d1', if_false] at eu ⊢
      omega
  rw [hx]
  unfold monFarmCreate
  have : ((w.fm.config.createFarmFee.amount : Int) != 0) = true := by
    simp only [bne_iff_ne, ne_eq]
    omega
  rw [if_pos this]

/-- the farm manager "creates" a farm (never in an `External` history): its payment to itself moves nothing, the monitor
    sees `extra` = reward -/
theorem monFarmCreate_fires_creator_is_fm (w w' : World) (p : FarmParams) (funds : List Coin) (fa : Nat)
    (hnoexp : ∀ g ∈ w.fm.farmsByLp p.lpDenom w.fm.config.maxConcurrentFarms,
      isFarmExpiredOrFalse w.fm w.fmEnv g = .ok false)
    (hfc : w.fm.config.feeCollector ≠ FM) (hamt : p.asset.amount ≠ 0)
    (h : runTx w (.exec FM FM (.fm (.createFarm p)) funds) = .ok w') :
    monFarmCreate p.asset.amount w.fm.config.createFarmFee.amount
      ((w'.bank.bal w.fm.config.feeCollector w.fm.config.createFarmFee.denom : Int)
        - w.bank.bal w.fm.config.feeCollector w.fm.config.createFarmFee.denom)
      (([p.asset.denom].map fun d => Int.natAbs (((w.bank.bal FM d : Int) - w'.bank.bal FM d)
          - ((if d = p.asset.denom then (p.asset.amount : Int) else 0)
             + (if d = w.fm.config.createFarmFee.denom then (w.fm.config.createFarmFee.amount : Int) else 0)))).foldl
        (fun (acc : Int) (n : Nat) => acc + (n : Int)) (0 : Int))
      fa = some "C11-create-exact" := by
  obtain ⟨_, hbank⟩ := C11Sys.create_farm_tx_effect_partial w w' FM p funds hnoexp h
  have eu := hbank FM p.asset.denom
  have c1 : ¬ FM = w.fm.config.feeCollector := fun e => hfc e.symm
  simp only [C11Sys.at_, C11Sys.amt, c1, if_false, if_true] at eu
  have hx : (([p.asset.denom].map fun d => Int.natAbs (((w.bank.bal FM d : Int) - w'.bank.bal FM d)
          - ((if d = p.asset.denom then (p.asset.amount : Int) else 0)
             + (if d = w.fm.config.createFarmFee.denom then (w.fm.config.createFarmFee.amount : Int) else 0)))).foldl
        (fun (acc : Int) (n : Nat) => acc + (n : Int)) (0 : Int)) = (p.asset.amount : Int) := by
    simp only [List.map_cons, List.map_nil, List.foldl_cons, List.foldl_nil, if_true]
    by_cases d1 : p.asset.denom = w.fm.config.createFarmFee.denom
    · simp only [d1, if_true] at eu ⊢
      omega
    · have d1' : ¬ w.fm.config.createFarmFee.denom = p.asset.denom := fun e => d1 e.symm
      simp only [d1, d1', if_false] at eu ⊢
      omega
  rw [hx]
  unfold monFarmCreate
  have : ((p.asset.amount : Int) != 0) = true := by
    simp only [bne_iff_ne, ne_eq]
    omega
  rw [if_pos this]

/-- the farm manager is its own fee collector and the reward is paid in the fee denom: the "fee collector" keeps
    reward + fee, the monitor raises an alarm whatever `extra` and the recorded budget are (`hamt` holds for every accepted
    CreateFarm: `C.MIN_FARM_AMOUNT ≤ p.asset.amount`, `FH.createFarm_inv`) -/
theorem monFarmCreate_fires_collector_is_fm (w w' : World) (u : Addr) (p : FarmParams) (funds : List Coin)
    (hnoexp : ∀ g ∈ w.fm.farmsByLp p.lpDenom w.fm.config.maxConcurrentFarms,
      isFarmExpiredOrFalse w.fm w.fmEnv g = .ok false)
    (hfc : w.fm.config.feeCollector = FM) (hu : u ≠ FM) (hden : p.asset.denom = w.fm.config.createFarmFee.denom)
    (hamt : p.asset.amount ≠ 0)
    (h : runTx w (.exec u FM (.fm (.createFarm p)) funds) = .ok w') (extra : Int) (fa : Nat) :
    monFarmCreate p.asset.amount w.fm.config.createFarmFee.amount
      ((w'.bank.bal w.fm.config.feeCollector w.fm.config.createFarmFee.denom : Int)
        - w.bank.bal w.fm.config.feeCollector w.fm.config.createFarmFee.denom) extra fa ≠ none := by
  obtain ⟨_, hbank⟩ := C11Sys.create_farm_tx_effect_partial w w' u p funds hnoexp h
  have eu := hbank FM w.fm.config.createFarmFee.denom
  have c1 : ¬ FM = u := fun e => hu e.symm
  simp only [C11Sys.at_, C11Sys.amt, hfc, hden, c1, if_false, if_true] at eu
  rw [hfc]
  unfold monFarmCreate
  split
  · exact fun e => by cases e
  · have : (((w'.bank.bal FM w.fm.config.createFarmFee.denom : Int) - w.bank.bal FM w.fm.config.createFarmFee.denom)
        != (w.fm.config.createFarmFee.amount : Int)) = true := by
      simp only [bne_iff_ne, ne_eq]
      omega
    rw [if_pos this]
    exact fun e => by cases e

/-- `mon_farm_close` (C11), no injected fault: `others` any accounts other than the farm's owner and the farm manager.

    PROVED AS STATED (`C11Sys.close_farm_tx_effect` at `k = none`: the "refund failed" branch needs an injected fault).  The
    closer `u` is arbitrary: the farm's owner or the contract owner (anybody else is refused) — the refund goes to `f.owner`
    in both cases, never to `u` as such, and `u` may be listed in `others` when it is not the farm owner.  `others` may contain
    duplicates.  `howner` is necessary (`monFarmClose_fires_owner_is_fm`); `hothers` is what "other" means; `hinv`
    (`C05Sys.fm_inv_reachable`) makes the farm manager solvent, so the refund cannot fail for lack of funds, and the farm
    identifiers unique.  With `f.assetAmount - f.claimed = 0` no message is sent and all three deltas are 0. -/
theorem monFarmClose_sound (w w' : World) (u : Addr) (f : Farm) (others : List Addr)
    (hf : w.fm.getFarm f.id = .ok f) (hinv : C05Sys.FmInv w)
    (howner : f.owner ≠ FM) (hothers : ∀ a ∈ others, a ≠ f.owner ∧ a ≠ FM)
    (h : runTx w (.exec u FM (.fm (.closeFarm f.id)) []) none = .ok w') :
    monFarmClose (f.assetAmount - f.claimed)
      ((w'.bank.bal f.owner f.assetDenom : Int) - w.bank.bal f.owner f.assetDenom)
      ((w.bank.bal FM f.assetDenom : Int) - w'.bank.bal FM f.assetDenom)
      ((others.map fun a => Int.natAbs ((w'.bank.bal a f.assetDenom : Int) - w.bank.bal a f.assetDenom)).foldl
        (fun (acc : Int) (n : Nat) => acc + (n : Int)) (0 : Int)) = none := by
  obtain ⟨_, _, _, _, hbank⟩ := C11Sys.close_farm_tx_effect w w' u f none hf hinv h
  rcases hbank with hb | ⟨hk, _⟩
  · have e1 := hb f.owner f.assetDenom
    have e2 := hb FM f.assetDenom
    have c1 : ¬ FM = f.owner := fun e => howner e.symm
    simp only [C11Sys.at_, true_and, and_self, if_true, howner, c1, if_false] at e1 e2
    have hoth : ∀ n ∈ (others.map fun a => Int.natAbs ((w'.bank.bal a f.assetDenom : Int) - w.bank.bal a f.assetDenom)),
        n = 0 := by
      intro n hn
      obtain ⟨a, ha, rfl⟩ := List.mem_map.1 hn
      obtain ⟨a1, a2⟩ := hothers a ha
      have e := hb a f.assetDenom
      simp only [C11Sys.at_, a1, a2, and_false, if_false] at e
      omega
    rw [MonSoundFL.foldl_int_zero _ hoth]
    unfold monFarmClose
    apply MonSoundEL.firstFail_none
    intro x hx
    simp only [List.mem_cons, List.mem_nil_iff, or_false] at hx
    subst hx
    simp only [Bool.and_eq_true, beq_iff_eq]
    refine ⟨⟨?_, ?_⟩, trivial⟩ <;> omega
  · exact absurd rfl hk

/-- `howner` of `monFarmClose_sound` is necessary: a farm owned by the farm manager itself (never in an `External` history:
    the owner of a farm is the signer of its CreateFarm) is "refunded" by a self-payment that moves nothing — the monitor
    fires whenever something was left to refund -/
theorem monFarmClose_fires_owner_is_fm (w w' : World) (u : Addr) (f : Farm)
    (hf : w.fm.getFarm f.id = .ok f) (hinv : C05Sys.FmInv w)
    (howner : f.owner = FM) (hrem : f.assetAmount - f.claimed ≠ 0)
    (h : runTx w (.exec u FM (.fm (.closeFarm f.id)) []) none = .ok w') (others : Int) :
    monFarmClose (f.assetAmount - f.claimed)
      ((w'.bank.bal f.owner f.assetDenom : Int) - w.bank.bal f.owner f.assetDenom)
      ((w.bank.bal FM f.assetDenom : Int) - w'.bank.bal FM f.assetDenom) others ≠ none := by
  obtain ⟨_, _, _, _, hbank⟩ := C11Sys.close_farm_tx_effect w w' u f none hf hinv h
  rcases hbank with hb | ⟨hk, _⟩
  · have e1 := hb FM f.assetDenom
    simp only [C11Sys.at_, howner, and_self, if_true] at e1
    rw [howner]
    have hg : ((w'.bank.bal FM f.assetDenom : Int) - w.bank.bal FM f.assetDenom
        == ((f.assetAmount - f.claimed : Nat) : Int)) = false := by
      simp only [beq_eq_false_iff_ne, ne_eq]
      omega
    unfold monFarmClose
    rw [hg, Bool.false_and, Bool.false_and]
    exact MonSoundFL.firstFail_false _
  · exact absurd rfl hk

/-- `mon_quote` (C12): Simulation on the pre-state vs. what the accepted direct swap computed.

    PROVED AS STATED (`C12.simulation_eq_swap`: the query and `performSwap` call `computeSwap` on the same stored pool; the
    belief price / slippage limit only decide acceptance).  `h` is not needed (kept: it says which `performSwap` is meant —
    by `C12Sys.swap_tx_equals_simulation` the accepted transaction runs exactly `performSwap w.pm offer ask pid b ms`). -/
theorem monQuote_sound (w w' : World) (u : Addr) (offer : Coin) (ask : Denom) (b ms : Option Nat)
    (recv : Option Addr) (pid : String) (s1 : PmState) (r : SwapResult) (c : SwapComputation)
    (hq : querySimulation w.pm offer ask pid = .ok c)
    (hps : performSwap w.pm offer ask pid b ms = .ok (s1, r))
    (h : runTx w (.exec u PM (.pm (.swap ask b ms recv pid)) [offer]) = .ok w') :
    monQuote [c.ret, c.slippage, c.swapFee, c.protocolFee, c.burnFee]
      [r.ret.amount, r.slippage, r.swapFee.amount, r.protocolFee.amount, r.burnFee.amount] = none := by
  obtain ⟨c', hq', h1, h2, h3, h4, _, h6⟩ := C12.simulation_eq_swap hps
  rw [hq] at hq'
  cases hq'
  unfold monQuote
  apply MonSoundEL.firstFail_none
  intro x hx
  simp only [List.mem_cons, List.mem_nil_iff, or_false] at hx
  subst hx
  simp only [h1, h2, h3, h4, h6, beq_self_eq_true]

end MantraDex.MonSoundF
