/-
  C17, non-interference at the level of WHOLE TRANSACTIONS and histories.

  `C17NI` shows that two pool-manager states differing only in pool switches answer every single
  MESSAGE identically, except that the less enabled one may refuse with `disabled`.  Here the statement is
  lifted through the runtime (`execMsg` / `execSubs`: nested calls between the pool manager and the farm
  manager, replies, rollback scopes, injected bank faults): two WORLDS that differ only in pool switches,
  the second at least as enabled as the first, run every transaction the first one accepts to related
  worlds again — same balances, same farm manager, same reserves, same LP supplies, same everything except
  the switches.  This is the clause "while the other operations on that pool and all operations on other
  pools behave exactly as before" of C17 for whole transactions, which the `twin` stream only samples
  (`mon_twin_c17`).
-/
import MantraDex.Model.System
import MantraDex.Properties.C17NI
import MantraDex.Proofs.SwitchTx

set_option linter.unusedSimpArgs false
set_option linter.unusedVariables false

namespace MantraDex.C17Tx
open MantraDex

/-- same world up to the pool switches of the pool manager; `w2` at least as enabled as `w1` -/
def WorldRel (w1 w2 : World) : Prop :=
  w2.bank = w1.bank ∧ w2.fm = w1.fm ∧ w2.em = w1.em ∧ w2.fc = w1.fc ∧ w2.nowNs = w1.nowNs ∧
  w2.tfFees = w1.tfFees ∧ w2.validAddr = w1.validAddr ∧ C17NI.StateRel w1.pm w2.pm

/-! ### bridge to `Proofs/SwitchTx.lean` (same relation, stated there over `Switch.StateRel`) -/

theorem worldRel_to {w1 w2 : World} (h : WorldRel w1 w2) : SwitchTx.WorldRel w1 w2 :=
  ⟨h.1, h.2.1, h.2.2.1, h.2.2.2.1, h.2.2.2.2.1, h.2.2.2.2.2.1, h.2.2.2.2.2.2.1,
    C17NI.stateRel_to h.2.2.2.2.2.2.2⟩

theorem worldRel_of {w1 w2 : World} (h : SwitchTx.WorldRel w1 w2) : WorldRel w1 w2 :=
  ⟨h.1, h.2.1, h.2.2.1, h.2.2.2.1, h.2.2.2.2.1, h.2.2.2.2.2.1, h.2.2.2.2.2.2.1,
    C17NI.stateRel_of h.2.2.2.2.2.2.2⟩

/-- one transaction on related worlds: the less enabled world refuses as `disabled`, or both accept with
    related results, or both reject -/
theorem runTx_sim {w1 w2 : World} (hrel : WorldRel w1 w2) (tx : Tx) (k : Option Nat) :
    Switch.Sim WorldRel (runTx w1 tx k) (runTx w2 tx k) :=
  (SwitchTx.runTx_sim (worldRel_to hrel) tx k).mono fun _ _ => worldRel_of

theorem worldRel_refl (w : World) : WorldRel w w :=
  worldRel_of (SwitchTx.WorldRel.refl w)

/-- **whole transactions**: whatever the less enabled world accepts, the more enabled world accepts too,
    with or without an injected bank fault, and the resulting worlds are again equal up to switches -/
theorem tx_more_enabled_simulates {w1 w2 w1' : World} {tx : Tx} {k : Option Nat}
    (hrel : WorldRel w1 w2) (h : runTx w1 tx k = .ok w1') :
    ∃ w2', runTx w2 tx k = .ok w2' ∧ WorldRel w1' w2' :=
  (runTx_sim hrel tx k).ok_left h

/-- conversely: what the more enabled world accepts, the less enabled one either accepts with the same
    result (up to switches) or rejects as a whole — and then nothing changes there (`step`) -/
theorem tx_less_enabled_same_or_rejected {w1 w2 w2' : World} {tx : Tx} {k : Option Nat}
    (hrel : WorldRel w1 w2) (h : runTx w2 tx k = .ok w2') :
    (∃ w1', runTx w1 tx k = .ok w1' ∧ WorldRel w1' w2') ∨ (∃ e, runTx w1 tx k = .error e) := by
  rcases (runTx_sim hrel tx k).ok_right h with hd | hok
  · exact Or.inr ⟨_, hd⟩
  · exact Or.inl hok

/-- when the less enabled world rejects a transaction that the more enabled one accepts, the reason is a
    switch: the error is `disabled` -/
theorem tx_rejected_only_by_switch {w1 w2 w2' : World} {tx : Tx} {k : Option Nat} {e : Err}
    (hrel : WorldRel w1 w2) (h2 : runTx w2 tx k = .ok w2') (h1 : runTx w1 tx k = .error e) :
    e = .disabled := by
  rcases (runTx_sim hrel tx k).ok_right h2 with hd | ⟨w1', hok, _⟩
  · rw [hd] at h1; cases h1; rfl
  · rw [hok] at h1; cases h1

/-- **histories**: along any history in which the less enabled world accepts every transaction, the two
    worlds stay equal up to switches -/
theorem history_simulates (w1 w2 : World) (txs : List (Tx × Option Nat)) (hrel : WorldRel w1 w2)
    (hacc : ∀ (pre : List (Tx × Option Nat)) (t : Tx × Option Nat) (post : List (Tx × Option Nat)),
      txs = pre ++ t :: post →
      ∃ w', runTx (pre.foldl (fun w t => step w t.1 t.2) w1) t.1 t.2 = .ok w') :
    WorldRel (txs.foldl (fun w t => step w t.1 t.2) w1) (txs.foldl (fun w t => step w t.1 t.2) w2) := by
  induction txs generalizing w1 w2 with
  | nil => exact hrel
  | cons t rest ih =>
    obtain ⟨w1', h1⟩ := hacc [] t rest rfl
    obtain ⟨w2', h2, hrel'⟩ := tx_more_enabled_simulates hrel h1
    have hs1 : step w1 t.1 t.2 = w1' := by
      have h1' : runTx w1 t.1 t.2 = .ok w1' := h1   -- `[].foldl _ w1` is `w1`
      unfold step; rw [h1']
    have hs2 : step w2 t.1 t.2 = w2' := by unfold step; rw [h2]
    rw [List.foldl_cons, List.foldl_cons, hs1, hs2]
    apply ih w1' w2' hrel'
    intro pre t' post hsplit
    have := hacc (t :: pre) t' post (by rw [hsplit]; rfl)
    rw [List.foldl_cons, hs1] at this
    exact this

end MantraDex.C17Tx
