/-
  The monitors ARE the theorems: soundness of implementation-side monitors with respect to the model.

  `bin/check` evaluates decidable predicates (Model/HistMon.lean) on what the IMPLEMENTATION did — balance deltas, reserves,
  supplies read from the real contracts after every step.  Here the same predicates are proved to hold of what the MODEL does,
  for all inputs: whenever the implementation behaves as the model (the correspondence), a monitor cannot raise an alarm —
  an alarm therefore always means the code left the proved behaviour.  (Stated for the monitors with the richest arithmetic;
  the arguments the harness passes are spelled out in terms of the pre- and post-state of an accepted model transaction.)

  RESULT.  `monPmExcess_sound`, `monWithdraw_sound`: proved as stated.  `monCpDeposit_sound`: FALSE as first stated (a
  depositor who names the pool manager as receiver of the LP tokens makes the `locked == 0` clause fail:
  `monCpDeposit_sound_counterexample`, kernel-evaluated); proved as `monCpDeposit_sound_partial` with `u ≠ PM` and
  `rc ≠ some PM` added (both read off the message) and `x ≠ 0`, `y ≠ 0` dropped.  Glue lemmas: `Proofs/MonSoundLemmas.lean`.
-/
import MantraDex.Model.System
import MantraDex.Model.HistMon
import MantraDex.Properties.C01Exact
import MantraDex.Properties.C16Tx
import MantraDex.Properties.C02
import MantraDex.Proofs.MonSoundLemmas

set_option linter.unusedSimpArgs false
set_option linter.unusedVariables false

namespace MantraDex.MonSound
open MantraDex MantraDex.MonSoundL

/-- `mon_pm_excess` (C01): for a non-factory denom the harness passes the pool manager's balance and the summed reserves before
    and after the transaction, the donated coins and the odd unit; on an accepted model transaction the verdict is "no alarm" -/
theorem monPmExcess_sound (w w' : World) (tx : Tx) (k : Option Nat) (hext : C01Sys.External tx)
    (hfee : C01Sys.FeeSmall w) (hinv : C01All.AllInv w) (hself : C01Exact.NoSelfPay w) (hrecv : C01Exact.NoSelfReceiver tx)
    (hr : runTx w tx k = .ok w') (d : Denom) (hd : isFactoryToken d = false) :
    monPmExcess (w.bank.bal PM d) (C01.reserves w.pm d) (w'.bank.bal PM d) (C01.reserves w'.pm d)
      (C01Exact.donated tx d) (C01Exact.oddUnit tx d) = none := by
  have hex := C01Exact.excess_tx_exact w w' tx k hext hfee hinv hself hrecv hr d hd
  have hinv' := C01All.all_inv_step w tx k hext hfee hinv
  rw [step_ok hr] at hinv'
  have c1 : C01.reserves w.pm d ≤ w.bank.bal PM d := Nat.le_trans (Nat.le_add_right _ _) (hinv.custody d)
  have c2 : C01.reserves w'.pm d ≤ w'.bank.bal PM d := Nat.le_trans (Nat.le_add_right _ _) (hinv'.custody d)
  unfold C01Exact.excess at hex
  unfold monPmExcess
  apply firstFail_none
  intro x hx
  simp only [List.mem_cons, List.not_mem_nil, or_false] at hx
  rcases hx with rfl | rfl | rfl
  · simpa using c2
  · simpa using c1
  · simpa using hex

/-- `mon_withdraw` (C02): for an accepted WithdrawLiquidity the harness passes, per pool asset, (reserve before, reserve decrease,
    what the sender received) together with the LP amount burned and the LP supply before -/
theorem monWithdraw_sound (w w' : World) (u : Addr) (pid : String) (funds : List Coin) (pool pool' : PoolInfo) (amount : Nat)
    (hcov : LpSys.Covers w.bank) (hu : u ≠ PM) (hp : w.pm.getPool pid = .ok pool) (hp' : w'.pm.getPool pid = .ok pool')
    (hfunds : funds = [⟨pool.lpDenom, amount⟩])
    (hnolp : ∀ a ∈ pool.assets, a.denom ≠ pool.lpDenom)
    (hnd : (pool.assets.map (·.denom)).Nodup)
    (h : runTx w (.exec u PM (.pm (.withdrawLiquidity pid)) funds) = .ok w') :
    monWithdraw amount (w.bank.supply pool.lpDenom)
      (pool.assets.map fun a =>
        (a.amount, a.amount - C01.coinsOf pool'.assets a.denom, w'.bank.bal u a.denom - w.bank.bal u a.denom)) = none := by
  obtain ⟨amount', refunds, pool'', hf, hne, hsup, href, hg, hd1, hd2, hres, hfm, hs, hb⟩ :=
    C16Tx.withdraw_liquidity_tx_effect_partial w w' u pid funds pool hcov hp h
  rw [hp'] at hg
  cases hg
  rw [hfunds] at hf
  simp only [List.cons.injEq, Coin.mk.injEq, true_and, and_true] at hf
  subst hf
  unfold monWithdraw
  apply firstFail_none
  intro x hx
  simp only [List.mem_flatMap, List.mem_map] at hx
  obtain ⟨t, ⟨a, ha, rfl⟩, hx⟩ := hx
  have e1 : C01.coinsOf pool.assets a.denom = a.amount := Live.coinsOf_nodup hnd ha
  have e2 : C01.coinsOf refunds a.denom = a.amount * amount / w.bank.supply pool.lpDenom := by
    rw [href]
    exact coinsOf_refunds pool.assets _ hnd a ha
  have e3 := hres a.denom
  have e4 := hb u a.denom
  have hdl : ¬ (a.denom = pool.lpDenom) := hnolp a ha
  unfold C16Tx.at_ C16Tx.coinsIn at e4
  simp only [true_and, if_neg hdl, if_neg hu, if_true] at e4
  rw [e2] at e3 e4
  rw [e1] at e3
  generalize hrdef : a.amount * amount / w.bank.supply pool.lpDenom = r at *
  have hr1 : a.amount - C01.coinsOf pool'.assets a.denom = r := by omega
  have hr2 : w'.bank.bal u a.denom - w.bank.bal u a.denom = r := by omega
  simp only [List.mem_cons, List.not_mem_nil, or_false] at hx
  rw [hr1, hr2] at hx
  have hb := C02.withdraw_bounds (reserve := a.amount) (burned := amount) hsup hrdef.symm
  rcases hx with rfl | rfl | rfl
  · simpa using hb.1
  · simp
  · simp only [Bool.or_eq_true, beq_iff_eq, decide_eq_true_eq]
    right
    omega

/-
  ORIGINAL STATEMENT of `monCpDeposit_sound` (FALSE as first written; counterexample below):

    theorem monCpDeposit_sound (w w' : World) (u : Addr) (ls ss : Option Nat) (rc : Option Addr) (pid : String)
        (pool pool' : PoolInfo) (n0 n1 : Denom) (x y dx dy x' y' : Nat)
        (hcov : LpSys.Covers w.bank) (hp : w.pm.getPool pid = .ok pool) (hp' : w'.pm.getPool pid = .ok pool')
        (hcp : pool.ptype = .cp) (hassets : pool.assets = [⟨n0, x⟩, ⟨n1, y⟩]) (hassets' : pool'.assets = [⟨n0, x'⟩, ⟨n1, y'⟩])
        (hne : n0 ≠ n1) (hfunded : w.bank.supply pool.lpDenom ≠ 0) (hx : x ≠ 0) (hy : y ≠ 0)
        (hlp0 : pool.lpDenom ≠ n0) (hlp1 : pool.lpDenom ≠ n1)
        (h : runTx w (.exec u PM (.pm (.provideLiquidity ls ss rc pid none none)) [⟨n0, dx⟩, ⟨n1, dy⟩]) = .ok w') :
        monCpDeposit x y dx dy (w.bank.supply pool.lpDenom)
          (w'.bank.supply pool.lpDenom - w.bank.supply pool.lpDenom)
          (w'.bank.bal PM pool.lpDenom - w.bank.bal PM pool.lpDenom) x' y' = none

  What is missing: the LP tokens must not be minted to the pool manager itself.  The depositor may name ANY valid address
  as `receiver`, also the pool manager's (a donation by choice — the case `monPmLp` calls `tainted`); then the pool
  manager's LP balance grows by the minted shares, the harness passes that increase as `locked`, and the clause
  `locked == 0` ("C01-lp-held") fails although the implementation behaves exactly as the model.
  `monCpDeposit_sound_counterexample`: funded pool 100 / 100 with LP supply 100, `alice` deposits 10 / 10 with
  `receiver = some PM`: accepted, 10 LP minted to the pool manager, verdict `some "C01-lp-held"` (kernel-evaluated).
  Added: `hu : u ≠ PM` (senders of transactions are accounts: `C01Sys.External`) and `hrc : rc ≠ some PM` — both are read
  off the message, so the harness can (and must) evaluate `mon_cp_deposit`'s `locked` clause only for such deposits.

  Dropped as unnecessary: `hx : x ≠ 0`, `hy : y ≠ 0` (an accepted later deposit already implies non-zero reserves: the
  share computation divides by them).  No ordering of the attached coins is needed: the handler sorts them and looks
  every deposit up in the pool, and `min` is symmetric (`MonSoundL.provide_cp_msgs`).
-/

/-- the original statement is refuted: every hypothesis of the original `monCpDeposit_sound` holds, the deposit is accepted,
    and the monitor raises `C01-lp-held` (the depositor made the pool manager the receiver of the LP tokens) -/
theorem monCpDeposit_sound_counterexample :
    LpSys.Covers Cx.wX.bank ∧ Cx.wX.pm.getPool "p" = .ok Cx.poolX ∧ Cx.poolX.ptype = .cp ∧
    Cx.poolX.assets = [⟨"x", 100⟩, ⟨"y", 100⟩] ∧ ("x" : Denom) ≠ "y" ∧ Cx.wX.bank.supply Cx.poolX.lpDenom ≠ 0 ∧
    (100 : Nat) ≠ 0 ∧ Cx.poolX.lpDenom ≠ "x" ∧ Cx.poolX.lpDenom ≠ "y" ∧
    ∃ w' pool', w'.pm.getPool "p" = .ok pool' ∧ pool'.assets = [⟨"x", 110⟩, ⟨"y", 110⟩] ∧
      runTx Cx.wX (.exec "alice" PM (.pm (.provideLiquidity none none (some PM) "p" none none)) [⟨"x", 10⟩, ⟨"y", 10⟩]) = .ok w' ∧
      monCpDeposit 100 100 10 10 (Cx.wX.bank.supply Cx.poolX.lpDenom)
        (w'.bank.supply Cx.poolX.lpDenom - Cx.wX.bank.supply Cx.poolX.lpDenom)
        (w'.bank.bal PM Cx.poolX.lpDenom - Cx.wX.bank.bal PM Cx.poolX.lpDenom) 110 110 = some "C01-lp-held" := by
  refine ⟨Cx.wX_covers, rfl, rfl, rfl, by decide, by decide, by decide, by decide, by decide, ?_⟩
  obtain ⟨w', pool', hr, hg, ha, hs, hb⟩ := Cx.run
  refine ⟨w', pool', hg, ha, hr, ?_⟩
  have e1 : Cx.poolX.lpDenom = Cx.lp := rfl
  have e2 : Cx.wX.bank.supply Cx.lp = 100 := by decide
  have e3 : Cx.wX.bank.bal PM Cx.lp = 0 := by decide
  rw [e1, hs, hb, e2, e3]
  exact Cx.verdict

/-- `mon_cp_deposit` (C02), later deposit into a funded two-asset constant-product pool: the harness passes the reserves before,
    the deposited amounts, the LP supply before, the LP minted (supply increase), the pool manager's LP balance increase and the
    reserves after.
    PARTIAL: added `hu : u ≠ PM`, `hrc : rc ≠ some PM` (the LP tokens are not directed to the pool manager itself — see the
    comment and the counterexample above); dropped `hx`, `hy`. -/
theorem monCpDeposit_sound_partial (w w' : World) (u : Addr) (ls ss : Option Nat) (rc : Option Addr) (pid : String)
    (pool pool' : PoolInfo) (n0 n1 : Denom) (x y dx dy x' y' : Nat)
    (hcov : LpSys.Covers w.bank) (hp : w.pm.getPool pid = .ok pool) (hp' : w'.pm.getPool pid = .ok pool')
    (hcp : pool.ptype = .cp) (hassets : pool.assets = [⟨n0, x⟩, ⟨n1, y⟩]) (hassets' : pool'.assets = [⟨n0, x'⟩, ⟨n1, y'⟩])
    (hne : n0 ≠ n1) (hfunded : w.bank.supply pool.lpDenom ≠ 0)
    (hlp0 : pool.lpDenom ≠ n0) (hlp1 : pool.lpDenom ≠ n1)
    (hu : u ≠ PM) (hrc : rc ≠ some PM)
    (h : runTx w (.exec u PM (.pm (.provideLiquidity ls ss rc pid none none)) [⟨n0, dx⟩, ⟨n1, dy⟩]) = .ok w') :
    monCpDeposit x y dx dy (w.bank.supply pool.lpDenom)
      (w'.bank.supply pool.lpDenom - w.bank.supply pool.lpDenom)
      (w'.bank.bal PM pool.lpDenom - w.bank.bal PM pool.lpDenom) x' y' = none := by
  have hfunds : (([⟨n0, dx⟩, ⟨n1, dy⟩] : List Coin).map (·.denom)).Nodup := by
    simp only [List.map_cons, List.map_nil, List.nodup_cons, List.mem_cons, List.not_mem_nil, or_false,
      not_false_eq_true, List.nodup_nil, and_true]
    exact hne
  obtain ⟨shares, locked, pool'', hg, hd1, hd2, hres, hlock, hsh, hfm, hs, hb⟩ :=
    C16Tx.provide_liquidity_tx_effect_partial w w' u ls ss rc pid _ pool hcov hfunds (by simp) hp h
  rw [hp'] at hg
  cases hg
  obtain ⟨hsup, hx, hy⟩ := provide_cp_supply hcov hp hcp hassets hne hfunded h
  have hl0 := hlock hfunded
  subst hl0
  -- reserves
  have r0 := hres n0
  have r1 := hres n1
  rw [hassets, hassets', (coinsOf_two n0 n1 x' y' hne).1, (coinsOf_two n0 n1 x y hne).1,
    (coinsOf_two n0 n1 dx dy hne).1] at r0
  rw [hassets, hassets', (coinsOf_two n0 n1 x' y' hne).2, (coinsOf_two n0 n1 x y hne).2,
    (coinsOf_two n0 n1 dx dy hne).2] at r1
  -- the pool manager's LP balance
  have hrecv : ¬ (PM = addrOrDefault w.pmEnv rc u) := by
    intro c1
    unfold addrOrDefault at c1
    cases rc with
    | none => exact hu c1.symm
    | some a =>
      simp only at c1
      split at c1
      · exact hrc (by rw [← c1])
      · exact hu c1.symm
  have e4 := hb PM pool.lpDenom
  unfold C16Tx.at_ C16Tx.coinsIn at e4
  rw [coinsOf_two_other n0 n1 _ dx dy hlp0 hlp1] at e4
  have hu' : ¬ PM = u := fun e => hu e.symm
  simp only [if_neg hrecv, if_neg hu', ite_self, Int.sub_zero, Int.add_zero, Int.natCast_zero, and_self, and_true, if_true] at e4
  have hlocked : w'.bank.bal PM pool.lpDenom - w.bank.bal PM pool.lpDenom = 0 := by omega
  generalize hS : w.bank.supply pool.lpDenom = S at *
  have hminted : w'.bank.supply pool.lpDenom - S = min (dx * S / x) (dy * S / y) := by
    rw [hsup]; exact Nat.add_sub_cancel_left _ _
  rw [hlocked, hminted]
  obtain ⟨k0, k1⟩ := C02.cp_mint_le_share (d0 := dx) (d1 := dy) (S := S) hx hy rfl
  have k2 := C02.cp_value_per_lp_mono k0 k1
  unfold monCpDeposit
  rw [if_neg hfunded]
  apply firstFail_none
  intro c hc
  simp only [List.mem_cons, List.not_mem_nil, or_false] at hc
  subst r0 r1
  rcases hc with rfl | rfl | rfl | rfl
  · simp
  · simp
  · simp only [Bool.and_eq_true, decide_eq_true_eq]; exact ⟨k0, k1⟩
  · simpa using k2

end MantraDex.MonSound
