/-
  C13 — Price protections are enforced and failed trades change nothing.

  `assert_max_slippage` (swaps, routes), `minimum_receive` (routes), `assert_slippage_tolerance`
  (deposits): acceptance is characterised by a reference predicate; the tolerance defaults to 1 %
  and is capped at 50 %; within the valid range a larger tolerance never rejects what a smaller one
  accepts; an exactly proportional constant-product deposit passes under any valid tolerance.
  Stableswap deposit tolerance: finding F-11 (rejects every realistic deposit) — witness below.
-/
import MantraDex.Model.System
import MantraDex.Proofs.NumLemmas

set_option linter.unusedSimpArgs false

namespace MantraDex.C13
open MantraDex

/-- effective tolerance: 1 % when omitted, never more than 50 % -/
def effTol (ms : Option Nat) : Nat := min (ms.getD C.DEFAULT_SLIPPAGE) C.MAX_ALLOWED_SLIPPAGE

theorem default_and_cap : C.DEFAULT_SLIPPAGE * 100 = ONE18 ∧ C.MAX_ALLOWED_SLIPPAGE * 2 = ONE18 := by
  decide

theorem ONE18_le_U256 : ONE18 ≤ U256_MAX := by decide

theorem ratio_le_one {a b : Nat} (h : a ≤ b) : a * ONE18 / b ≤ ONE18 := by
  rw [Nat.mul_comm]; exact mul_div_le_of_le h

/-- without a belief price: accepted ⇔ slippage/(return+slippage) ≤ tolerance (18-digit floor) -/
theorem max_slippage_accept_iff {ms : Option Nat} {offer ret slip : Nat}
    (hfit : ret + slip ≤ U128_MAX) (hpos : ret + slip ≠ 0) :
    assertMaxSlippage none ms offer ret slip = .ok () ↔
      slip * ONE18 / (ret + slip) ≤ effTol ms := by
  have hr : slip * ONE18 / (ret + slip) ≤ U256_MAX :=
    Nat.le_trans (ratio_le_one (Nat.le_add_left _ _)) ONE18_le_U256
  unfold assertMaxSlippage effTol
  simp only [bind_ok, fit_ok, orPanic_ok, decFromRatio_ok]
  constructor
  · rintro ⟨tot, ⟨_, rfl⟩, ratio, ⟨_, _, rfl⟩, h⟩
    split at h
    · simp at h
    · omega
  · intro h
    refine ⟨_, ⟨hfit, rfl⟩, _, ⟨hpos, hr, rfl⟩, ?_⟩
    rw [if_neg (Nat.not_lt.2 h)]; rfl

/-- with a belief price: accepted ⇔ the return is at least the expected amount offer/belief, or
    falls short of it by at most the tolerance -/
theorem belief_accept_iff {bp : Nat} {ms : Option Nat} {offer ret slip : Nat}
    (hbp : bp ≠ 0) (ho : offer * ONE18 ≤ U256_MAX)
    (hm : offer * ONE18 * (ONE18 * ONE18 / bp) / ONE18 ≤ U256_MAX) :
    assertMaxSlippage (some bp) ms offer ret slip = .ok () ↔
      let expected := offer * ONE18 * (ONE18 * ONE18 / bp) / ONE18 / ONE18
      expected ≤ ret ∨ (expected - ret) * ONE18 / expected ≤ effTol ms := by
  unfold assertMaxSlippage effTol decInv decFloor
  simp only [if_neg hbp, bind_ok, fit_ok, orPanic_ok, decFromRatio_ok, decMul_ok, pure_ok]
  generalize hE : offer * ONE18 * (ONE18 * ONE18 / bp) / ONE18 = E at hm ⊢
  constructor
  · rintro ⟨inv, rfl, o18, ⟨_, rfl⟩, e, ⟨_, he⟩, h⟩
    rw [hE] at he; subst he
    split at h
    · right
      simp only [bind_ok, orPanic_ok, decFromRatio_ok] at h
      obtain ⟨ratio, ⟨_, _, rfl⟩, h⟩ := h
      split at h
      · simp at h
      · omega
    · left; omega
  · intro h
    refine ⟨_, rfl, _, ⟨ho, rfl⟩, E, ⟨by rw [hE]; exact hm, hE.symm⟩, ?_⟩
    split
    · next hlt =>
      simp only [bind_ok, orPanic_ok, decFromRatio_ok]
      have hne : E / ONE18 ≠ 0 := by omega
      refine ⟨_, ⟨hne, Nat.le_trans (ratio_le_one (Nat.sub_le _ _)) ONE18_le_U256, rfl⟩, ?_⟩
      rcases h with h | h
      · omega
      · rw [if_neg (Nat.not_lt.2 h)]; rfl
    · rfl

/-- the check with the effective tolerance made explicit -/
def amsCore (belief : Option Nat) (t : Nat) (offer ret slippage : Nat) : R Unit := do
  match belief with
  | some bp =>
    let inv ← match decInv bp with | some i => pure i | none => .error .invalidInput
    let o18 ← fit U256_MAX (offer * ONE18) .panic
    let e ← decMul U256_MAX o18 inv
    let expected := decFloor e
    let sl := expected - ret
    if ret < expected then
      let ratio ← orPanic (decFromRatio U256_MAX sl expected)
      if ratio > t then .error .slippage else pure ()
    else pure ()
  | none =>
    let tot ← fit U128_MAX (ret + slippage) .panic
    let ratio ← orPanic (decFromRatio U256_MAX slippage tot)
    if ratio > t then .error .slippage else pure ()

theorem ams_eq_core (b ms : Option Nat) (offer ret slip : Nat) :
    assertMaxSlippage b ms offer ret slip = amsCore b (effTol ms) offer ret slip := rfl

theorem gate_mono {x t1 t2 : Nat} (hle : t1 ≤ t2)
    (h : (if x > t1 then (.error .slippage : R Unit) else pure ()) = .ok ()) :
    (if x > t2 then (.error .slippage : R Unit) else pure ()) = .ok () := by
  split at h
  · simp at h
  · rw [if_neg (by omega)]; rfl

theorem amsCore_mono {b : Option Nat} {t1 t2 offer ret slip : Nat} (hle : t1 ≤ t2)
    (h : amsCore b t1 offer ret slip = .ok ()) : amsCore b t2 offer ret slip = .ok () := by
  unfold amsCore at h ⊢
  cases b with
  | none =>
    simp only [bind_ok] at h ⊢
    obtain ⟨tot, h1, ratio, h2, h3⟩ := h
    exact ⟨tot, h1, ratio, h2, gate_mono hle h3⟩
  | some bp =>
    simp only at h ⊢
    cases hd : decInv bp with
    | none => rw [hd] at h; simp [bind, Except.bind] at h
    | some i =>
    rw [hd] at h
    simp only [bind_ok] at h ⊢
    obtain ⟨inv, h0, o18, h1, e, h2, h3⟩ := h
    refine ⟨inv, h0, o18, h1, e, h2, ?_⟩
    split at h3
    · next hlt =>
      rw [if_pos hlt]
      simp only [bind_ok] at h3 ⊢
      obtain ⟨ratio, h4, h5⟩ := h3
      exact ⟨ratio, h4, gate_mono hle h5⟩
    · next hlt => rw [if_neg hlt]; rfl

/-- a larger tolerance never rejects what a smaller one accepts (swaps and routes) -/
theorem tolerance_monotone_swap {b : Option Nat} {t1 t2 : Nat} {offer ret slip : Nat} (hle : t1 ≤ t2)
    (h : assertMaxSlippage b (some t1) offer ret slip = .ok ()) :
    assertMaxSlippage b (some t2) offer ret slip = .ok () := by
  rw [ams_eq_core] at h ⊢
  exact amsCore_mono (min_mono_left hle) h

/-- a tolerance above 50 % behaves exactly like 50 % (capped, not refused) -/
theorem tolerance_capped {b : Option Nat} {t : Nat} {offer ret slip : Nat}
    (ht : C.MAX_ALLOWED_SLIPPAGE ≤ t) :
    assertMaxSlippage b (some t) offer ret slip =
      assertMaxSlippage b (some C.MAX_ALLOWED_SLIPPAGE) offer ret slip := by
  rw [ams_eq_core, ams_eq_core]
  have : effTol (some t) = effTol (some C.MAX_ALLOWED_SLIPPAGE) := by
    unfold effTol
    simp only [Option.getD_some]
    rw [Nat.min_eq_right ht, Nat.min_self]
  rw [this]

/-- a routed swap that delivers less than `minimum_receive` fails as a whole -/
theorem min_receive_enforced {s s' : PmState} {env : PmEnv} {sender : Addr} {funds : List Coin}
    {ops : List SwapOp} {m : Nat} {recv : Option Addr} {ms : Option Nat} {resp : Response}
    (h : execSwapOps s env sender funds ops (some m) recv ms = .ok (s', resp)) :
    ∃ first amount out fees, ops.head? = some first ∧
      routeHops s ms ops ⟨first.tokenIn, amount⟩ [] = .ok (s', out, fees) ∧ m ≤ out.amount := by
  unfold execSwapOps at h
  cases hl : ops.getLast? with
  | none => rw [hl] at h; simp [bind, Except.bind] at h
  | some last =>
  cases hf : ops.head? with
  | none => rw [hl, hf] at h; simp [bind, Except.bind, pure, Except.pure] at h
  | some first =>
  rw [hl, hf] at h
  simp only [bind_ok, pure_ok] at h
  obtain ⟨_, rfl, _, rfl, amount, hamt, _, _, ⟨s1, out, fees⟩, hroute, h⟩ := h
  dsimp only at h
  split at h
  · simp [bind, Except.bind] at h
  · next hlt =>
    simp only [pure_ok, Prod.mk.injEq] at h
    obtain ⟨rfl, _⟩ := h
    exact ⟨_, amount, out, fees, rfl, hroute, Nat.le_of_not_lt hlt⟩

/-- deposit tolerance above 100 % is refused -/
theorem deposit_tolerance_above_one_refused {tol : Nat} {deps pa : List Coin} {pt : PoolType}
    (hnz : ∀ c ∈ pa, c.amount ≠ 0) (ht : ONE18 < tol) :
    assertSlippageTolerance (some tol) deps pa pt = .error .invalidInput := by
  unfold assertSlippageTolerance
  have hany : pa.any (·.amount == 0) = false := by
    rw [List.any_eq_false]
    intro c hc
    simpa using hnz c hc
  rw [hany]
  simp only [Bool.false_eq_true, if_false]
  rw [if_pos ht]

theorem sortCoins_pair {n0 n1 : Denom} (hlt : n0 < n1) (p0 p1 : Nat) :
    sortCoins [⟨n0, p0⟩, ⟨n1, p1⟩] = [⟨n0, p0⟩, ⟨n1, p1⟩] := by
  have h : ¬ n1 < n0 := String.lt_asymm hlt
  simp [sortCoins, sortCoins.ins, h]

theorem U128_mul_ONE18_le : U128_MAX * ONE18 ≤ U256_MAX := by decide

theorem ratio_fits {n d : Nat} (hn : n ≤ U128_MAX) : n * ONE18 / d ≤ U256_MAX :=
  Nat.le_trans (Nat.div_le_self _ _)
    (Nat.le_trans (Nat.mul_le_mul_right _ hn) U128_mul_ONE18_le)

theorem decFromRatio_eq {m n d : Nat} (hd : d ≠ 0) (hb : n * ONE18 / d ≤ m) :
    decFromRatio m n d = .ok (n * ONE18 / d) := by
  rw [decFromRatio_ok]; exact ⟨hd, hb, rfl⟩

theorem decMul_eq {m a b : Nat} (hb : a * b / ONE18 ≤ m) :
    decMul m a b = .ok (a * b / ONE18) := by
  rw [decMul_ok]; exact ⟨hb, rfl⟩

theorem orPanic_okv {α : Type} (x : α) : orPanic (.ok x : R α) = .ok x := rfl
theorem ok_bind {α β : Type} (x : α) (f : α → R β) : ((.ok x : R α) >>= f) = f x := rfl

/-- the constant-product check as a closed expression (nothing can overflow under the bounds) -/
theorem cp_check_eq {tol d0 d1 p0 p1 : Nat} {n0 n1 : Denom} (hlt : n0 < n1)
    (ht : tol ≤ ONE18) (hd0 : d0 ≠ 0) (hd1 : d1 ≠ 0) (hp0 : p0 ≠ 0) (hp1 : p1 ≠ 0)
    (hb : d0 ≤ U128_MAX ∧ d1 ≤ U128_MAX ∧ p0 ≤ U128_MAX ∧ p1 ≤ U128_MAX) :
    assertSlippageTolerance (some tol) [⟨n0, d0⟩, ⟨n1, d1⟩] [⟨n0, p0⟩, ⟨n1, p1⟩] .cp =
      if d0 * ONE18 / d1 * (ONE18 - tol) / ONE18 > p0 * ONE18 / p1 then .error .slippage
      else if d1 * ONE18 / d0 * (ONE18 - tol) / ONE18 > p1 * ONE18 / p0 then .error .slippage
      else .ok [⟨n0, p0⟩, ⟨n1, p1⟩] := by
  obtain ⟨hb0, hb1, hb2, hb3⟩ := hb
  unfold assertSlippageTolerance
  have hany : ([⟨n0, p0⟩, ⟨n1, p1⟩] : List Coin).any (·.amount == 0) = false := by
    simp [hp0, hp1]
  rw [hany, sortCoins_pair hlt]
  have hm (x : Nat) (hx : x ≤ U256_MAX) : x * (ONE18 - tol) / ONE18 ≤ U256_MAX :=
    Nat.le_trans (mul_div_le_of_le (Nat.sub_le _ _)) hx
  simp only [Bool.false_eq_true, if_false, if_neg (Nat.not_lt.2 ht), List.map_cons, List.map_nil,
    List.length_cons, List.length_nil]
  have e0 : ∀ a b : Nat, [a, b][0]! = a := fun _ _ => rfl
  have e1 : ∀ a b : Nat, [a, b][1]! = b := fun _ _ => rfl
  rw [if_neg (by decide)]
  simp only [e0, e1]
  have r1 := ratio_fits (d := d1) hb0
  have r2 := ratio_fits (d := p1) hb2
  have r3 := ratio_fits (d := d0) hb1
  have r4 := ratio_fits (d := p0) hb3
  rw [decFromRatio_eq hd1 r1, orPanic_okv, ok_bind, decMul_eq (hm _ r1), orPanic_okv, ok_bind,
    decFromRatio_eq hp1 r2, orPanic_okv, ok_bind,
    decFromRatio_eq hd0 r3, orPanic_okv, ok_bind, decMul_eq (hm _ r3), orPanic_okv, ok_bind,
    decFromRatio_eq hp0 r4, orPanic_okv, ok_bind]
  rfl

/-- constant-product deposits: accepted ⇔ both deposit ratios, reduced by the tolerance, are at
    most the pool ratios (18-digit floors); `deps` and `pa` sorted by denom as the handler has them -/
theorem cp_deposit_accept_iff {tol d0 d1 p0 p1 : Nat} {n0 n1 : Denom} (hlt : n0 < n1)
    (ht : tol ≤ ONE18) (hd0 : d0 ≠ 0) (hd1 : d1 ≠ 0) (hp0 : p0 ≠ 0) (hp1 : p1 ≠ 0)
    (hb : d0 ≤ U128_MAX ∧ d1 ≤ U128_MAX ∧ p0 ≤ U128_MAX ∧ p1 ≤ U128_MAX) :
    (∃ r, assertSlippageTolerance (some tol) [⟨n0, d0⟩, ⟨n1, d1⟩] [⟨n0, p0⟩, ⟨n1, p1⟩] .cp = .ok r) ↔
      d0 * ONE18 / d1 * (ONE18 - tol) / ONE18 ≤ p0 * ONE18 / p1 ∧
      d1 * ONE18 / d0 * (ONE18 - tol) / ONE18 ≤ p1 * ONE18 / p0 := by
  rw [cp_check_eq hlt ht hd0 hd1 hp0 hp1 hb]
  generalize d0 * ONE18 / d1 * (ONE18 - tol) / ONE18 = A
  generalize d1 * ONE18 / d0 * (ONE18 - tol) / ONE18 = B
  generalize p0 * ONE18 / p1 = P
  generalize p1 * ONE18 / p0 = Q
  constructor
  · rintro ⟨r, h⟩
    split at h
    · simp at h
    · split at h
      · simp at h
      · omega
  · rintro ⟨h1, h2⟩
    rw [if_neg (Nat.not_lt.2 h1), if_neg (Nat.not_lt.2 h2)]
    exact ⟨_, rfl⟩

/-- … hence monotone in the tolerance … -/
theorem tolerance_monotone_deposit {t1 t2 d0 d1 p0 p1 : Nat} {n0 n1 : Denom} (hlt : n0 < n1)
    (hle : t1 ≤ t2) (ht : t2 ≤ ONE18) (hd0 : d0 ≠ 0) (hd1 : d1 ≠ 0) (hp0 : p0 ≠ 0) (hp1 : p1 ≠ 0)
    (hb : d0 ≤ U128_MAX ∧ d1 ≤ U128_MAX ∧ p0 ≤ U128_MAX ∧ p1 ≤ U128_MAX)
    (h : ∃ r, assertSlippageTolerance (some t1) [⟨n0, d0⟩, ⟨n1, d1⟩] [⟨n0, p0⟩, ⟨n1, p1⟩] .cp = .ok r) :
    ∃ r, assertSlippageTolerance (some t2) [⟨n0, d0⟩, ⟨n1, d1⟩] [⟨n0, p0⟩, ⟨n1, p1⟩] .cp = .ok r := by
  rw [cp_deposit_accept_iff hlt (Nat.le_trans hle ht) hd0 hd1 hp0 hp1 hb] at h
  rw [cp_deposit_accept_iff hlt ht hd0 hd1 hp0 hp1 hb]
  have hs : ONE18 - t2 ≤ ONE18 - t1 := Nat.sub_le_sub_left hle _
  have mono (x : Nat) : x * (ONE18 - t2) / ONE18 ≤ x * (ONE18 - t1) / ONE18 :=
    Nat.div_le_div_right (Nat.mul_le_mul_left _ hs)
  exact ⟨Nat.le_trans (mono _) h.1, Nat.le_trans (mono _) h.2⟩

/-- … and a deposit in exact pool proportion (d0 = k·p0, d1 = k·p1) passes under any valid tolerance -/
theorem cp_exact_proportion_accepted {tol k p0 p1 : Nat} {n0 n1 : Denom} (hlt : n0 < n1)
    (ht : tol ≤ ONE18) (hk : k ≠ 0) (hp0 : p0 ≠ 0) (hp1 : p1 ≠ 0)
    (hb : k * p0 ≤ U128_MAX ∧ k * p1 ≤ U128_MAX) :
    ∃ r, assertSlippageTolerance (some tol) [⟨n0, k * p0⟩, ⟨n1, k * p1⟩] [⟨n0, p0⟩, ⟨n1, p1⟩] .cp = .ok r := by
  have hkpos : 0 < k := Nat.pos_of_ne_zero hk
  have l0 : p0 ≤ k * p0 := Nat.le_mul_of_pos_left _ hkpos
  have l1 : p1 ≤ k * p1 := Nat.le_mul_of_pos_left _ hkpos
  rw [cp_deposit_accept_iff hlt ht (Nat.mul_ne_zero hk hp0) (Nat.mul_ne_zero hk hp1) hp0 hp1
    ⟨hb.1, hb.2, Nat.le_trans l0 hb.1, Nat.le_trans l1 hb.2⟩]
  rw [Nat.mul_assoc k p0, Nat.mul_assoc k p1, Nat.mul_div_mul_left _ _ hkpos,
    Nat.mul_div_mul_left _ _ hkpos]
  exact ⟨mul_div_le_of_le (Nat.sub_le _ _), mul_div_le_of_le (Nat.sub_le _ _)⟩

/-- F-11 witness: a stableswap deposit in exact pool proportion (+1 % of both reserves) is rejected
    under a 50 % tolerance — the check compares D_final/D_initial (≥ 1) with the tolerance (≤ 1) -/
theorem ss_exact_proportion_rejected_witness :
    assertSlippageTolerance (some 500000000000000000) [⟨"a", 10000⟩, ⟨"b", 10000⟩]
      [⟨"a", 1000000⟩, ⟨"b", 1000000⟩] (.stable 100) = .error .slippage := by
  -- plain `decide` gets stuck on `Nat.sqrt.iter` (well-founded, irreducible); the kernel evaluates it
  decide +kernel

end MantraDex.C13
