/-
  C13 — Price protections are enforced and failed trades change nothing.

  `assert_max_slippage` (swaps, routes), `minimum_receive` (routes), `assert_slippage_tolerance`
  (deposits): acceptance is characterised by a reference predicate; the tolerance defaults to 1 %
  and is capped at 50 %; within the valid range a larger tolerance never rejects what a smaller one
  accepts; an exactly proportional constant-product deposit passes under any valid tolerance.
  Stableswap deposit tolerance: finding F-11 (rejects every realistic deposit) — witness below.
-/
import MantraDex.Model.System
import MantraDex.Proofs.NumLemmas

set_option linter.unusedSimpArgs false

namespace MantraDex.C13
open MantraDex

/-- effective tolerance: 1 % when omitted, never more than 50 % -/
def effTol (ms : Option Nat) : Nat := min (ms.getD C.DEFAULT_SLIPPAGE) C.MAX_ALLOWED_SLIPPAGE

theorem default_and_cap : C.DEFAULT_SLIPPAGE * 100 = ONE18 ∧ C.MAX_ALLOWED_SLIPPAGE * 2 = ONE18 := by
  sorry

/-- without a belief price: accepted ⇔ slippage/(return+slippage) ≤ tolerance (18-digit floor) -/
theorem max_slippage_accept_iff {ms : Option Nat} {offer ret slip : Nat}
    (hfit : ret + slip ≤ U128_MAX) (hpos : ret + slip ≠ 0) :
    assertMaxSlippage none ms offer ret slip = .ok () ↔
      slip * ONE18 / (ret + slip) ≤ effTol ms := by
  sorry

/-- with a belief price: accepted ⇔ the return is at least the expected amount offer/belief, or
    falls short of it by at most the tolerance -/
theorem belief_accept_iff {bp : Nat} {ms : Option Nat} {offer ret slip : Nat}
    (hbp : bp ≠ 0) (ho : offer * ONE18 ≤ U256_MAX)
    (hm : offer * ONE18 * (ONE18 * ONE18 / bp) / ONE18 ≤ U256_MAX) :
    assertMaxSlippage (some bp) ms offer ret slip = .ok () ↔
      let expected := offer * ONE18 * (ONE18 * ONE18 / bp) / ONE18 / ONE18
      expected ≤ ret ∨ (expected - ret) * ONE18 / expected ≤ effTol ms := by
  sorry

/-- a larger tolerance never rejects what a smaller one accepts (swaps and routes) -/
theorem tolerance_monotone_swap {b : Option Nat} {t1 t2 : Nat} {offer ret slip : Nat} (hle : t1 ≤ t2)
    (h : assertMaxSlippage b (some t1) offer ret slip = .ok ()) :
    assertMaxSlippage b (some t2) offer ret slip = .ok () := by
  sorry

/-- a tolerance above 50 % behaves exactly like 50 % (capped, not refused) -/
theorem tolerance_capped {b : Option Nat} {t : Nat} {offer ret slip : Nat}
    (ht : C.MAX_ALLOWED_SLIPPAGE ≤ t) :
    assertMaxSlippage b (some t) offer ret slip =
      assertMaxSlippage b (some C.MAX_ALLOWED_SLIPPAGE) offer ret slip := by
  sorry

/-- a routed swap that delivers less than `minimum_receive` fails as a whole -/
theorem min_receive_enforced {s s' : PmState} {env : PmEnv} {sender : Addr} {funds : List Coin}
    {ops : List SwapOp} {m : Nat} {recv : Option Addr} {ms : Option Nat} {resp : Response}
    (h : execSwapOps s env sender funds ops (some m) recv ms = .ok (s', resp)) :
    ∃ first amount out fees, ops.head? = some first ∧
      routeHops s ms ops ⟨first.tokenIn, amount⟩ [] = .ok (s', out, fees) ∧ m ≤ out.amount := by
  sorry

/-- deposit tolerance above 100 % is refused -/
theorem deposit_tolerance_above_one_refused {tol : Nat} {deps pa : List Coin} {pt : PoolType}
    (hnz : ∀ c ∈ pa, c.amount ≠ 0) (ht : ONE18 < tol) :
    assertSlippageTolerance (some tol) deps pa pt = .error .invalidInput := by
  sorry

/-- constant-product deposits: accepted ⇔ both deposit ratios, reduced by the tolerance, are at
    most the pool ratios (18-digit floors); `deps` and `pa` sorted by denom as the handler has them -/
theorem cp_deposit_accept_iff {tol d0 d1 p0 p1 : Nat} {n0 n1 : Denom} (hlt : n0 < n1)
    (ht : tol ≤ ONE18) (hd0 : d0 ≠ 0) (hd1 : d1 ≠ 0) (hp0 : p0 ≠ 0) (hp1 : p1 ≠ 0)
    (hb : d0 ≤ U128_MAX ∧ d1 ≤ U128_MAX ∧ p0 ≤ U128_MAX ∧ p1 ≤ U128_MAX) :
    (∃ r, assertSlippageTolerance (some tol) [⟨n0, d0⟩, ⟨n1, d1⟩] [⟨n0, p0⟩, ⟨n1, p1⟩] .cp = .ok r) ↔
      d0 * ONE18 / d1 * (ONE18 - tol) / ONE18 ≤ p0 * ONE18 / p1 ∧
      d1 * ONE18 / d0 * (ONE18 - tol) / ONE18 ≤ p1 * ONE18 / p0 := by
  sorry

/-- … hence monotone in the tolerance … -/
theorem tolerance_monotone_deposit {t1 t2 d0 d1 p0 p1 : Nat} {n0 n1 : Denom} (hlt : n0 < n1)
    (hle : t1 ≤ t2) (ht : t2 ≤ ONE18) (hd0 : d0 ≠ 0) (hd1 : d1 ≠ 0) (hp0 : p0 ≠ 0) (hp1 : p1 ≠ 0)
    (hb : d0 ≤ U128_MAX ∧ d1 ≤ U128_MAX ∧ p0 ≤ U128_MAX ∧ p1 ≤ U128_MAX)
    (h : ∃ r, assertSlippageTolerance (some t1) [⟨n0, d0⟩, ⟨n1, d1⟩] [⟨n0, p0⟩, ⟨n1, p1⟩] .cp = .ok r) :
    ∃ r, assertSlippageTolerance (some t2) [⟨n0, d0⟩, ⟨n1, d1⟩] [⟨n0, p0⟩, ⟨n1, p1⟩] .cp = .ok r := by
  sorry

/-- … and a deposit in exact pool proportion (d0 = k·p0, d1 = k·p1) passes under any valid tolerance -/
theorem cp_exact_proportion_accepted {tol k p0 p1 : Nat} {n0 n1 : Denom} (hlt : n0 < n1)
    (ht : tol ≤ ONE18) (hk : k ≠ 0) (hp0 : p0 ≠ 0) (hp1 : p1 ≠ 0)
    (hb : k * p0 ≤ U128_MAX ∧ k * p1 ≤ U128_MAX) :
    ∃ r, assertSlippageTolerance (some tol) [⟨n0, k * p0⟩, ⟨n1, k * p1⟩] [⟨n0, p0⟩, ⟨n1, p1⟩] .cp = .ok r := by
  sorry

/-- F-11 witness: a stableswap deposit in exact pool proportion (+1 % of both reserves) is rejected
    under a 50 % tolerance — the check compares D_final/D_initial (≥ 1) with the tolerance (≤ 1) -/
theorem ss_exact_proportion_rejected_witness :
    assertSlippageTolerance (some 500000000000000000) [⟨"a", 10000⟩, ⟨"b", 10000⟩]
      [⟨"a", 1000000⟩, ⟨"b", 1000000⟩] (.stable 100) = .error .slippage := by
  sorry

end MantraDex.C13
