/-
  C01, lifted through the runtime: for every non-factory denom the pool manager's bank balance covers
  the sum of the reserves recorded for it in all pools, after every transaction of every history —
  swaps, routes of any length, withdrawals, multi-asset deposits with or without locking in the farm
  manager (nested call), pool creation, configuration, donations, injected bank faults, rejected
  transactions.

  `C01.lean` proves the handler law  reserves' + outflow = reserves + inflow  per message kind.  Here
  the laws are composed with the message-execution semantics of `Model/System.lean` into an invariant
  of `step`.  The single-asset deposit (first leg + self-swap + reply + second leg) is excluded from
  this theorem: its transient excess is settled by the reply's exact balance checks and is covered by
  the custody monitors (`mon_pm_custody`, `mon_pm_excess`) and the C14 twin, not by this proof.
-/
import MantraDex.Model.System
import MantraDex.Proofs.NumLemmas
import MantraDex.Properties.C01
import MantraDex.Proofs.PmSysLemmas
import MantraDex.Proofs.SysLemmasPm

set_option linter.unusedSimpArgs false
set_option linter.unusedVariables false

namespace MantraDex.C01Sys
open MantraDex SysPm

/-- transactions are signed by accounts, never by a contract address, and carry at most one coin per denom -/
def External : Tx → Prop
  | .exec sender _ _ funds => isContract sender = false ∧ (funds.map (·.denom)).Nodup
  | .send frm _ coins => isContract frm = false ∧ (coins.map (·.denom)).Nodup
  | .advance _ => True

/-- not a single-asset deposit -/
def NotSingleAsset : Tx → Prop
  | .exec _ _ (.pm (.provideLiquidity ..)) funds => 2 ≤ funds.length
  | _ => True

/-- per non-factory denom (LP tokens are factory denoms), the pool manager's balance covers all reserves -/
def PmCustody (w : World) : Prop :=
  ∀ d, isFactoryToken d = false → C01.reserves w.pm d ≤ w.bank.bal PM d

/-- the invariant carried along -/
structure PmInv (w : World) : Prop where
  custody : PmCustody w
  wf : C01.WF w.pm
  noBuffer : w.pm.buffer = none
  /-- token-factory fee configuration: distinct denoms, and no overflow when added to the creation fee -/
  tfNodup : (w.tfFees.map (·.denom)).Nodup
  tfSmall : ∀ f ∈ w.tfFees, f.amount ≤ U128_MAX / 2

/-- the pool creation fee can be set by the owner to any amount; the law for pool creation needs the sum
    with a token-factory fee of the same denom not to overflow (see `C01.create_pool_conserves_partial`) -/
def FeeSmall (w : World) : Prop := w.pm.config.creationFee.amount ≤ U128_MAX / 2


/-! ### helpers -/

theorem not_contract_ne_pm {a : Addr} (h : isContract a = false) : a ≠ PM := by
  intro e; subst e; revert h; decide

/-- the invariant survives any execution that frames the pool manager -/
theorem inv_of_frame {w w0 w' : World} (h : PmInv w) (e1 : w0.pm = w.pm) (e2 : w0.tfFees = w.tfFees)
    (e3 : w0.bank.bal = w.bank.bal) (f : Frame w0 w') : PmInv w' := by
  have hpm : w'.pm = w.pm := f.pm.trans e1
  have htf : w'.tfFees = w.tfFees := f.tf.trans e2
  refine ⟨?_, by rw [hpm]; exact h.wf, by rw [hpm]; exact h.noBuffer, by rw [htf]; exact h.tfNodup,
    by rw [htf]; exact h.tfSmall⟩
  intro d hd
  have h1 := h.custody d hd
  have h2 := f.bal d
  rw [e3] at h2
  rw [hpm]
  exact Nat.le_trans h1 h2

theorem notSingle_of {sender c : Addr} {m : PmMsg} {funds : List Coin}
    (hns : NotSingleAsset (.exec sender c (.pm m) funds)) : NotSingle m funds := by
  cases m <;> first | exact hns | trivial

/-- a whole pool-manager transaction sent by an external account -/
theorem pm_tx {w0 w' : World} {sender c : Addr} {m : PmMsg} {funds : List Coin} (hs : sender ≠ PM)
    (hfunds : (funds.map (·.denom)).Nodup) (hns : NotSingle m funds) (hfee : FeeSmall w0) (h : PmInv w0)
    (hr : execMsg FUEL w0 sender (.wasmExec c (.pm m) funds) = .ok w') : PmInv w' := by
  rw [show FUEL = 63 + 1 from rfl] at hr
  obtain ⟨w1, w2, resp, hw1, hce, hsubs⟩ := wasm_inv hr
  -- the handler
  simp only [callExecute] at hce
  split at hce
  · cases hce
  rename_i hc
  have hc : c = PM := by simpa using hc
  subst hc
  obtain ⟨⟨s, r⟩, hpe, hce⟩ := bind_ok.mp hce
  simp only [pure_ok, Prod.mk.injEq] at hce
  obtain ⟨rfl, rfl⟩ := hce
  -- the funds
  have hw1' : w1.pm = w0.pm ∧ w1.tfFees = w0.tfFees ∧
      ∀ d, w1.bank.bal PM d = w0.bank.bal PM d + C01.coinsOf funds d := by
    split at hw1
    · rename_i hf
      simp only [pure_ok] at hw1; subst hw1
      have : funds = [] := List.isEmpty_iff.1 hf
      subst this
      exact ⟨rfl, rfl, fun d => rfl⟩
    · obtain ⟨b, hb, hw1⟩ := bind_ok.mp hw1
      simp only [pure_ok] at hw1; subst hw1
      exact ⟨rfl, rfl, fun d => send_to hs hb d⟩
  obtain ⟨e1, e2, e3⟩ := hw1'
  have out := pmExecute_sys (env := w1.pmEnv) rfl (by rw [e1]; exact h.wf) (by rw [e1]; exact h.noBuffer)
    (by show (w1.tfFees.map (·.denom)).Nodup; rw [e2]; exact h.tfNodup)
    (by show ∀ f ∈ w1.tfFees, f.amount ≤ U128_MAX / 2; rw [e2]; exact h.tfSmall)
    (by rw [e1]; exact hfee) hfunds hns hpe
  have paid := pm_subs _ _ _ _ out.msgs hsubs
  have hpm : w'.pm = s := paid.pm
  have htf : w'.tfFees = w0.tfFees := paid.tf.trans e2
  refine ⟨?_, by rw [hpm]; exact out.wf, by rw [hpm]; exact out.buf, by rw [htf]; exact h.tfNodup,
    by rw [htf]; exact h.tfSmall⟩
  intro d hd
  have h1 := out.cons d hd
  have h2 := paid.bal d
  have h3 := h.custody d hd
  have h4 := e3 d
  rw [e1] at h1
  rw [hpm]
  dsimp only [World.pmEnv] at h1 h2
  omega

/-- one transaction (committed or rejected, with or without an injected fault) preserves the invariant -/
theorem pm_inv_step_partial (w : World) (tx : Tx) (k : Option Nat) (hext : External tx)
    (hns : NotSingleAsset tx) (hfee : FeeSmall w) (h : PmInv w) :
    PmInv (step w tx k) := by
  unfold step
  cases hr : runTx w tx k with
  | error e => exact h
  | ok w' =>
    show PmInv w'
    have h0 : PmInv { w with bank := { w.bank with calls := 0, failAt := k } } :=
      ⟨h.custody, h.wf, h.noBuffer, h.tfNodup, h.tfSmall⟩
    have hfee0 : FeeSmall { w with bank := { w.bank with calls := 0, failAt := k } } := hfee
    cases tx with
    | exec sender c msg funds =>
      obtain ⟨hsc, hfunds⟩ := hext
      have hs := not_contract_ne_pm hsc
      simp only [runTx] at hr
      cases msg with
      | pm m => exact pm_tx hs hfunds (notSingle_of hns) hfee0 h0 hr
      | fm m => exact inv_of_frame h0 rfl rfl rfl ((other_exec FUEL).1 _ _ _ _ hs (by trivial) hr)
      | em m => exact inv_of_frame h0 rfl rfl rfl ((other_exec FUEL).1 _ _ _ _ hs (by trivial) hr)
      | fc m => exact inv_of_frame h0 rfl rfl rfl ((other_exec FUEL).1 _ _ _ _ hs (by trivial) hr)
    | send frm to coins =>
      have hs := not_contract_ne_pm hext.1
      simp only [runTx] at hr
      exact inv_of_frame h0 rfl rfl rfl ((other_exec FUEL).1 _ _ _ _ hs (by trivial) hr)
    | advance ns =>
      simp only [runTx] at hr
      cases hr
      exact ⟨h.custody, h.wf, h.noBuffer, h.tfNodup, h.tfSmall⟩

/-- every reachable state of histories without single-asset deposits -/
theorem pm_custody_reachable_partial (w0 : World) (h0 : PmInv w0) (txs : List (Tx × Option Nat))
    (hext : ∀ t ∈ txs, External t.1) (hns : ∀ t ∈ txs, NotSingleAsset t.1)
    (hfee : ∀ n, FeeSmall ((txs.take n).foldl (fun w t => step w t.1 t.2) w0)) :
    PmCustody (txs.foldl (fun w t => step w t.1 t.2) w0) := by
  suffices hinv : PmInv (txs.foldl (fun w t => step w t.1 t.2) w0) from hinv.custody
  induction txs generalizing w0 with
  | nil => exact h0
  | cons t rest ih =>
    rw [List.foldl_cons]
    apply ih
    · exact pm_inv_step_partial w0 t.1 t.2 (hext t (List.mem_cons_self ..)) (hns t (List.mem_cons_self ..))
        (hfee 0) h0
    · exact fun t' ht' => hext t' (List.mem_cons_of_mem _ ht')
    · exact fun t' ht' => hns t' (List.mem_cons_of_mem _ ht')
    · intro n
      have := hfee (n + 1)
      rw [List.take_succ_cons, List.foldl_cons] at this
      exact this

/-- a freshly instantiated deployment -/
theorem pm_inv_init (w : World) (hp : w.pm.pools = []) (hb : w.pm.buffer = none)
    (htf : (w.tfFees.map (·.denom)).Nodup) (hsm : ∀ f ∈ w.tfFees, f.amount ≤ U128_MAX / 2) : PmInv w := by
  refine ⟨?_, ?_, hb, htf, hsm⟩
  · intro d _
    unfold C01.reserves
    rw [hp]
    exact Nat.zero_le _
  · unfold C01.WF
    rw [hp]
    exact ⟨List.nodup_nil, fun p hp => by cases hp⟩


end MantraDex.C01Sys
