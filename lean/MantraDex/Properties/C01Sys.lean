/-
  C01, lifted through the runtime: for every non-factory denom the pool manager's bank balance covers
  the sum of the reserves recorded for it in all pools, after every transaction of every history —
  swaps, routes of any length, withdrawals, multi-asset deposits with or without locking in the farm
  manager (nested call), pool creation, configuration, donations, injected bank faults, rejected
  transactions.

  `C01.lean` proves the handler law  reserves' + outflow = reserves + inflow  per message kind.  Here
  the laws are composed with the message-execution semantics of `Model/System.lean` into an invariant
  of `step`.  The `_partial` theorems exclude the single-asset deposit (first leg + self-swap + reply +
  second leg); `single_tx` unrolls that message tree (the reply's exact balance checks pin the balances
  after the self-swap, and the second leg deposits exactly the simulated = actual proceeds), and
  `pm_inv_step` / `pm_custody_reachable` at the end of the file cover every transaction.
-/
import MantraDex.Model.System
import MantraDex.Proofs.NumLemmas
import MantraDex.Properties.C01
import MantraDex.Proofs.PmSysLemmas
import MantraDex.Proofs.SysLemmasPm
import MantraDex.Proofs.SysLemmasSingle
import MantraDex.Properties.C14

set_option linter.unusedSimpArgs false
set_option linter.unusedVariables false

namespace MantraDex.C01Sys
open MantraDex SysPm

/-- transactions are signed by accounts, never by a contract address, and carry at most one coin per denom -/
def External : Tx → Prop
  | .exec sender _ _ funds => isContract sender = false ∧ (funds.map (·.denom)).Nodup
  | .send frm _ coins => isContract frm = false ∧ (coins.map (·.denom)).Nodup
  | .advance _ => True

/-- not a single-asset deposit -/
def NotSingleAsset : Tx → Prop
  | .exec _ _ (.pm (.provideLiquidity ..)) funds => 2 ≤ funds.length
  | _ => True

/-- per non-factory denom (LP tokens are factory denoms), the pool manager's balance covers all reserves -/
def PmCustody (w : World) : Prop :=
  ∀ d, isFactoryToken d = false → C01.reserves w.pm d ≤ w.bank.bal PM d

/-- the invariant carried along -/
structure PmInv (w : World) : Prop where
  custody : PmCustody w
  wf : C01.WF w.pm
  noBuffer : w.pm.buffer = none
  /-- token-factory fee configuration: distinct denoms, and no overflow when added to the creation fee -/
  tfNodup : (w.tfFees.map (·.denom)).Nodup
  tfSmall : ∀ f ∈ w.tfFees, f.amount ≤ U128_MAX / 2

/-- the pool creation fee can be set by the owner to any amount; the law for pool creation needs the sum
    with a token-factory fee of the same denom not to overflow (see `C01.create_pool_conserves_partial`) -/
def FeeSmall (w : World) : Prop := w.pm.config.creationFee.amount ≤ U128_MAX / 2


/-! ### helpers -/

theorem not_contract_ne_pm {a : Addr} (h : isContract a = false) : a ≠ PM := by
  intro e; subst e; revert h; decide

/-- the invariant survives any execution that frames the pool manager -/
theorem inv_of_frame {w w0 w' : World} (h : PmInv w) (e1 : w0.pm = w.pm) (e2 : w0.tfFees = w.tfFees)
    (e3 : w0.bank.bal = w.bank.bal) (f : Frame w0 w') : PmInv w' := by
  have hpm : w'.pm = w.pm := f.pm.trans e1
  have htf : w'.tfFees = w.tfFees := f.tf.trans e2
  refine ⟨?_, by rw [hpm]; exact h.wf, by rw [hpm]; exact h.noBuffer, by rw [htf]; exact h.tfNodup,
    by rw [htf]; exact h.tfSmall⟩
  intro d hd
  have h1 := h.custody d hd
  have h2 := f.bal d
  rw [e3] at h2
  rw [hpm]
  exact Nat.le_trans h1 h2

theorem notSingle_of {sender c : Addr} {m : PmMsg} {funds : List Coin}
    (hns : NotSingleAsset (.exec sender c (.pm m) funds)) : NotSingle m funds := by
  cases m <;> first | exact hns | trivial

/-- a whole pool-manager transaction sent by an external account -/
theorem pm_tx {w0 w' : World} {sender c : Addr} {m : PmMsg} {funds : List Coin} (hs : sender ≠ PM)
    (hfunds : (funds.map (·.denom)).Nodup) (hns : NotSingle m funds) (hfee : FeeSmall w0) (h : PmInv w0)
    (hr : execMsg FUEL w0 sender (.wasmExec c (.pm m) funds) = .ok w') : PmInv w' := by
  rw [show FUEL = 63 + 1 from rfl] at hr
  obtain ⟨w1, w2, resp, hw1, hce, hsubs⟩ := wasm_inv hr
  -- the handler
  simp only [callExecute] at hce
  split at hce
  · cases hce
  rename_i hc
  have hc : c = PM := by simpa using hc
  subst hc
  obtain ⟨⟨s, r⟩, hpe, hce⟩ := bind_ok.mp hce
  simp only [pure_ok, Prod.mk.injEq] at hce
  obtain ⟨rfl, rfl⟩ := hce
  -- the funds
  have hw1' : w1.pm = w0.pm ∧ w1.tfFees = w0.tfFees ∧
      ∀ d, w1.bank.bal PM d = w0.bank.bal PM d + C01.coinsOf funds d := by
    split at hw1
    · rename_i hf
      simp only [pure_ok] at hw1; subst hw1
      have : funds = [] := List.isEmpty_iff.1 hf
      subst this
      exact ⟨rfl, rfl, fun d => rfl⟩
    · obtain ⟨b, hb, hw1⟩ := bind_ok.mp hw1
      simp only [pure_ok] at hw1; subst hw1
      exact ⟨rfl, rfl, fun d => send_to hs hb d⟩
  obtain ⟨e1, e2, e3⟩ := hw1'
  have out := pmExecute_sys (env := w1.pmEnv) rfl (by rw [e1]; exact h.wf) (by rw [e1]; exact h.noBuffer)
    (by show (w1.tfFees.map (·.denom)).Nodup; rw [e2]; exact h.tfNodup)
    (by show ∀ f ∈ w1.tfFees, f.amount ≤ U128_MAX / 2; rw [e2]; exact h.tfSmall)
    (by rw [e1]; exact hfee) hfunds hns hpe
  have paid := pm_subs _ _ _ _ out.msgs hsubs
  have hpm : w'.pm = s := paid.pm
  have htf : w'.tfFees = w0.tfFees := paid.tf.trans e2
  refine ⟨?_, by rw [hpm]; exact out.wf, by rw [hpm]; exact out.buf, by rw [htf]; exact h.tfNodup,
    by rw [htf]; exact h.tfSmall⟩
  intro d hd
  have h1 := out.cons d hd
  have h2 := paid.bal d
  have h3 := h.custody d hd
  have h4 := e3 d
  rw [e1] at h1
  rw [hpm]
  dsimp only [World.pmEnv] at h1 h2
  omega

/-- one transaction (committed or rejected, with or without an injected fault) preserves the invariant -/
theorem pm_inv_step_partial (w : World) (tx : Tx) (k : Option Nat) (hext : External tx)
    (hns : NotSingleAsset tx) (hfee : FeeSmall w) (h : PmInv w) :
    PmInv (step w tx k) := by
  unfold step
  cases hr : runTx w tx k with
  | error e => exact h
  | ok w' =>
    show PmInv w'
    have h0 : PmInv { w with bank := { w.bank with calls := 0, failAt := k } } :=
      ⟨h.custody, h.wf, h.noBuffer, h.tfNodup, h.tfSmall⟩
    have hfee0 : FeeSmall { w with bank := { w.bank with calls := 0, failAt := k } } := hfee
    cases tx with
    | exec sender c msg funds =>
      obtain ⟨hsc, hfunds⟩ := hext
      have hs := not_contract_ne_pm hsc
      simp only [runTx] at hr
      cases msg with
      | pm m => exact pm_tx hs hfunds (notSingle_of hns) hfee0 h0 hr
      | fm m => exact inv_of_frame h0 rfl rfl rfl ((other_exec FUEL).1 _ _ _ _ hs (by trivial) hr)
      | em m => exact inv_of_frame h0 rfl rfl rfl ((other_exec FUEL).1 _ _ _ _ hs (by trivial) hr)
      | fc m => exact inv_of_frame h0 rfl rfl rfl ((other_exec FUEL).1 _ _ _ _ hs (by trivial) hr)
    | send frm to coins =>
      have hs := not_contract_ne_pm hext.1
      simp only [runTx] at hr
      exact inv_of_frame h0 rfl rfl rfl ((other_exec FUEL).1 _ _ _ _ hs (by trivial) hr)
    | advance ns =>
      simp only [runTx] at hr
      cases hr
      exact ⟨h.custody, h.wf, h.noBuffer, h.tfNodup, h.tfSmall⟩

/-- every reachable state of histories without single-asset deposits -/
theorem pm_custody_reachable_partial (w0 : World) (h0 : PmInv w0) (txs : List (Tx × Option Nat))
    (hext : ∀ t ∈ txs, External t.1) (hns : ∀ t ∈ txs, NotSingleAsset t.1)
    (hfee : ∀ n, FeeSmall ((txs.take n).foldl (fun w t => step w t.1 t.2) w0)) :
    PmCustody (txs.foldl (fun w t => step w t.1 t.2) w0) := by
  suffices hinv : PmInv (txs.foldl (fun w t => step w t.1 t.2) w0) from hinv.custody
  induction txs generalizing w0 with
  | nil => exact h0
  | cons t rest ih =>
    rw [List.foldl_cons]
    apply ih
    · exact pm_inv_step_partial w0 t.1 t.2 (hext t (List.mem_cons_self ..)) (hns t (List.mem_cons_self ..))
        (hfee 0) h0
    · exact fun t' ht' => hext t' (List.mem_cons_of_mem _ ht')
    · exact fun t' ht' => hns t' (List.mem_cons_of_mem _ ht')
    · intro n
      have := hfee (n + 1)
      rw [List.take_succ_cons, List.foldl_cons] at this
      exact this

/-- a freshly instantiated deployment -/
theorem pm_inv_init (w : World) (hp : w.pm.pools = []) (hb : w.pm.buffer = none)
    (htf : (w.tfFees.map (·.denom)).Nodup) (hsm : ∀ f ∈ w.tfFees, f.amount ≤ U128_MAX / 2) : PmInv w := by
  refine ⟨?_, ?_, hb, htf, hsm⟩
  · intro d _
    unfold C01.reserves
    rw [hp]
    exact Nat.zero_le _
  · unfold C01.WF
    rw [hp]
    exact ⟨List.nodup_nil, fun p hp => by cases hp⟩


/-! ### the full statement: single-asset deposits included

  A single-asset deposit runs as: first leg (records the expected balances, the half to swap and the
  simulated proceeds in the buffer) → self-call `Swap` of ⌊a/2⌋ with reply-on-success → reply (checks both
  balances exactly, clears the buffer) → self-call `ProvideLiquidity` with the half and the simulated
  proceeds.  The proceeds of the self-swap are sent to the pool manager itself; simulation = swap
  (`C12.simulation_eq_swap`, the pool is untouched between the quote and the swap) makes the second
  leg deposit exactly what the swap produced, so the excess never goes negative. -/

/-- a deposit without funds is refused -/
theorem no_funds_tx {n : Nat} {w0 w' : World} {sender c : Addr} {ls ss : Option Nat} {rc : Option Addr}
    {pid : String} {u : Option Nat} {l : Option String}
    (hr : execMsg (n + 1) w0 sender (.wasmExec c (.pm (.provideLiquidity ls ss rc pid u l)) []) = .ok w') :
    False := by
  obtain ⟨w1, w2, resp, hw1, hce, hsubs⟩ := wasm_inv hr
  simp only [callExecute] at hce
  split at hce
  · cases hce
  obtain ⟨⟨s2, r2⟩, hpe, hce⟩ := bind_ok.mp hce
  simp only [pmExecute] at hpe
  obtain ⟨deps, hagg, hne⟩ := pl_agg hpe
  rw [aggregateCoins_nil] at hagg
  cases hagg
  cases hne

/-- a single-asset deposit sent by an external account: first leg, self-swap, reply, second leg -/
theorem single_tx {w0 w' : World} {sender c : Addr} {coin : Coin} {ls ss : Option Nat} {rc : Option Addr}
    {pid : String} {u : Option Nat} {l : Option String} (hs : sender ≠ PM) (hfee : FeeSmall w0) (h : PmInv w0)
    (hr : execMsg FUEL w0 sender (.wasmExec c (.pm (.provideLiquidity ls ss rc pid u l)) [coin]) = .ok w') :
    PmInv w' := by
  rw [show FUEL = 63 + 1 from rfl] at hr
  obtain ⟨w1, w2, resp, hw1, hce, hsubs⟩ := wasm_inv hr
  simp only [callExecute] at hce
  split at hce
  · cases hce
  rename_i hc
  have hc : c = PM := by simpa using hc
  subst hc
  obtain ⟨⟨s2, r2⟩, hpe, hce⟩ := bind_ok.mp hce
  simp only [pure_ok, Prod.mk.injEq] at hce
  obtain ⟨hw2, hresp⟩ := hce
  subst hw2
  subst hresp
  -- the funds
  have hw1' : w1.pm = w0.pm ∧ w1.tfFees = w0.tfFees ∧
      ∀ d, w1.bank.bal PM d = w0.bank.bal PM d + C01.coinsOf [coin] d := by
    split at hw1
    · rename_i hf
      cases hf
    · obtain ⟨b, hb, hw1⟩ := bind_ok.mp hw1
      simp only [pure_ok] at hw1; subst hw1
      exact ⟨rfl, rfl, fun d => send_to hs hb d⟩
  obtain ⟨e1, e2, e3⟩ := hw1'
  -- the first leg
  simp only [pmExecute] at hpe
  obtain ⟨pool, -, -, hp, -⟩ := pl_single (agg_single coin) hpe
  obtain ⟨buf, sim, ask, hs2, hsim, hoh, hea, heo, hexa, -, -, -, -, -, -, hmsgs⟩ := C14.first_leg_shape hp hpe
  rw [hmsgs] at hsubs
  obtain ⟨m, w3, w4, resp4, hm, hswap, hreply, hsubs4⟩ := subs_single_success rfl hsubs
  obtain rfl : m = 62 := by omega
  have hpools2 : s2.pools = w0.pm.pools := by rw [hs2]; show w1.pm.pools = _; rw [e1]
  have hwf2 : C01.WF s2 := wf_of_pools hpools2 h.wf
  -- the nested swap
  have hswap' : execMsg (61 + 1) { w1 with pm := s2 } PM
      (.wasmExec PM (.pm (.swap ask none ss none pid)) [buf.offerHalf]) = .ok w3 := hswap
  obtain ⟨w2a, s3, r3, a1, a2, a3, hsw, hsubs3⟩ := self_call hswap'
  have a1' : w2a.pm = s2 := a1
  simp only [pmExecute] at hsw
  rw [a1'] at hsw
  have hcons3 := C01.swap_conserves hwf2 hsw
  obtain ⟨offer, sr, hoff, hps, hmsgs3⟩ := C04.swapHandler_messages hsw
  have hoff' : offer = ⟨coin.denom, coin.amount / 2⟩ := by
    rw [hoh] at hoff
    simpa using hoff.symm
  subst hoff'
  have hne : coin.denom ≠ ask := by
    have := performSwap_denoms_ne hps
    exact this
  obtain ⟨pool', c', oi, ai, x, y, hp', hc', -, -, -, -, -, -, -, -, hret, hpf, hbf, -, -⟩ :=
    C04.performSwap_ok hps
  have hgp : s2.getPool pid = w1.pm.getPool pid := by rw [hs2]; rfl
  rw [hgp, hp] at hp'
  cases hp'
  rw [hsim] at hc'
  cases hc'
  obtain ⟨-, ret, pf, bf, hret', hpf', hbf', hres3⟩ := C01.performSwap_reserves hwf2.1 hps
  rw [hret] at hret'
  rw [hpf] at hpf'
  rw [hbf] at hbf'
  cases hret'
  cases hpf'
  cases hbf'
  have hok3 : ∀ sm ∈ r3.msgs, SubOk sm := by
    rw [hmsgs3]
    apply mk_ok
    exact noPm_append (noPm_append (noPm_opt trivial) (noPm_opt trivial)) (noPm_opt trivial)
  have paid3 := pm_subs _ _ _ _ hok3 hsubs3
  have hpm3 : w3.pm = s3 := paid3.pm
  have hwf3 : C01.WF s3 := performSwap_wf hwf2 hps
  have hbuf3 : w3.pm.buffer = some buf := by
    rw [hpm3, performSwap_buffer hps, hs2]
  -- the reply
  simp only [callReply, beq_self_eq_true, if_true] at hreply
  obtain ⟨⟨s4, r4⟩, hrep, hreply⟩ := bind_ok.mp hreply
  simp only [pure_ok, Prod.mk.injEq] at hreply
  obtain ⟨rfl, rfl⟩ := hreply
  obtain ⟨hchk1, hchk2, hs4, hmsgs4⟩ := C14.reply_shape hbuf3 hrep
  rw [heo] at hchk1
  rw [hexa] at hchk2
  -- the second leg
  rw [hmsgs4] at hsubs4
  obtain ⟨m, hm, hsecond⟩ := subs_single_never rfl hsubs4
  obtain rfl : m = 61 := by omega
  have hsecond' : execMsg (60 + 1) { w3 with pm := s4 } PM
      (.wasmExec PM (.pm (.provideLiquidity buf.liqSlip buf.swapSlip (some buf.receiver) buf.poolId
        buf.unlocking buf.lockId)) [buf.offerHalf, buf.expectedAsk]) = .ok w' := hsecond
  obtain ⟨w4a, s5, r5, b1, b2, b3, hpl, hsubs5⟩ := self_call hsecond'
  have b1' : w4a.pm = s4 := b1
  have hpools4 : w4a.pm.pools = s3.pools := by rw [b1', hs4, hpm3]
  have hcfg4 : w4a.pm.config = w0.pm.config := by
    rw [b1', hs4]
    show w3.pm.config = _
    rw [hpm3, C04.performSwap_config hps, hs2]
    show w1.pm.config = _
    rw [e1]
  have htf4 : w4a.tfFees = w0.tfFees := by
    rw [b2]
    show w3.tfFees = _
    rw [paid3.tf]
    show w2a.tfFees = _
    rw [a2]
    exact e2
  have hfunds2 : (([buf.offerHalf, buf.expectedAsk] : List Coin).map (·.denom)).Nodup := by
    rw [hoh, hea]
    simp [hne]
  have out := pmExecute_sys (env := w4a.pmEnv) (m := .provideLiquidity buf.liqSlip buf.swapSlip (some buf.receiver)
      buf.poolId buf.unlocking buf.lockId) rfl (wf_of_pools hpools4 hwf3) (by rw [b1', hs4])
    (by show (w4a.tfFees.map (·.denom)).Nodup; rw [htf4]; exact h.tfNodup)
    (by show ∀ f ∈ w4a.tfFees, f.amount ≤ U128_MAX / 2; rw [htf4]; exact h.tfSmall)
    (by rw [hcfg4]; exact hfee) hfunds2 (Nat.le_refl 2) hpl
  have paid5 := pm_subs _ _ _ _ out.msgs hsubs5
  have hpm5 : w'.pm = s5 := paid5.pm
  have htf5 : w'.tfFees = w0.tfFees := paid5.tf.trans htf4
  refine ⟨?_, by rw [hpm5]; exact out.wf, by rw [hpm5]; exact out.buf, by rw [htf5]; exact h.tfNodup,
    by rw [htf5]; exact h.tfSmall⟩
  -- custody
  intro d hd
  have h0 := h.custody d hd
  have h1 := e3 d
  have hR2 : C01.reserves s2 d = C01.reserves w0.pm d := reserves_of_pools hpools2 d
  have h3 := hres3 d
  have h3c := hcons3 d
  have h3p := paid3.bal d
  have h2a := a3 d
  have hR4 : C01.reserves w4a.pm d = C01.reserves s3 d := reserves_of_pools hpools4 d
  have h5 := out.cons d hd
  have h5p := paid5.bal d
  have h4a := b3 d
  rw [hpm5]
  rw [hoh, hea] at h5
  rw [hoh] at h3c
  rw [hR2] at h3 h3c
  rw [hR4] at h5
  rw [C01.coinsOf_singleton] at h1 h3c
  rw [C01.coinsOf_cons, C01.coinsOf_singleton] at h5
  dsimp only [World.pmEnv] at h3c h3p h5 h5p h2a h4a hchk1 hchk2
  by_cases hcd : coin.denom = d
  · subst hcd
    have hx : (ask == coin.denom) = false := by simpa using fun e => hne e.symm
    simp only [C01.amt, hx, beq_self_eq_true, if_true, if_false, Bool.false_eq_true] at h1 h3 h3c h5
    omega
  · have hx : (coin.denom == d) = false := by simpa using hcd
    by_cases had : ask = d
    · subst had
      simp only [C01.amt, hx, beq_self_eq_true, if_true, if_false, Bool.false_eq_true] at h1 h3 h3c h5
      omega
    · have hy : (ask == d) = false := by simpa using had
      simp only [C01.amt, hx, hy, if_false, Bool.false_eq_true] at h1 h3 h3c h5
      omega

/-- one transaction of ANY kind (committed or rejected, with or without an injected fault) preserves the invariant -/
theorem pm_inv_step (w : World) (tx : Tx) (k : Option Nat) (hext : External tx)
    (hfee : FeeSmall w) (h : PmInv w) :
    PmInv (step w tx k) := by
  by_cases hns : NotSingleAsset tx
  · exact pm_inv_step_partial w tx k hext hns hfee h
  · unfold step
    cases hr : runTx w tx k with
    | error e => exact h
    | ok w' =>
      show PmInv w'
      have h0 : PmInv { w with bank := { w.bank with calls := 0, failAt := k } } :=
        ⟨h.custody, h.wf, h.noBuffer, h.tfNodup, h.tfSmall⟩
      have hfee0 : FeeSmall { w with bank := { w.bank with calls := 0, failAt := k } } := hfee
      cases tx with
      | exec sender c msg funds =>
        obtain ⟨hsc, hfunds⟩ := hext
        have hs := not_contract_ne_pm hsc
        simp only [runTx] at hr
        cases msg with
        | pm m =>
          cases m with
          | provideLiquidity ls ss rc pid u l =>
            match funds, hns, hr with
            | [], _, hr => exact (no_funds_tx (n := 63) hr).elim
            | [coin], _, hr => exact single_tx hs hfee0 h0 hr
            | _ :: _ :: _, hns, _ => exact absurd (by simp [NotSingleAsset]) hns
          | _ => exact absurd trivial hns
        | _ => exact absurd trivial hns
      | send frm to coins => exact absurd trivial hns
      | advance ns => exact absurd trivial hns

/-- custody in every reachable state, for every history of account-signed transactions -/
theorem pm_custody_reachable (w0 : World) (h0 : PmInv w0) (txs : List (Tx × Option Nat))
    (hext : ∀ t ∈ txs, External t.1)
    (hfee : ∀ n, FeeSmall ((txs.take n).foldl (fun w t => step w t.1 t.2) w0)) :
    PmCustody (txs.foldl (fun w t => step w t.1 t.2) w0) := by
  suffices hinv : PmInv (txs.foldl (fun w t => step w t.1 t.2) w0) from hinv.custody
  induction txs generalizing w0 with
  | nil => exact h0
  | cons t rest ih =>
    rw [List.foldl_cons]
    apply ih
    · exact pm_inv_step w0 t.1 t.2 (hext t (List.mem_cons_self ..)) (hfee 0) h0
    · exact fun t' ht' => hext t' (List.mem_cons_of_mem _ ht')
    · intro n
      have := hfee (n + 1)
      rw [List.take_succ_cons, List.foldl_cons] at this
      exact this

end MantraDex.C01Sys
