/-
  C06, end to end over whole histories: a ledger of every reward payment made by every accepted `Claim`
  transaction is derived from the history (one entry per (user, farm, epoch) with the reward paid), and in
  every history of account-signed transactions starting from a fresh deployment

    * for every farm (identifier, LP token, emission rate) and every epoch, the rewards paid to ALL users
      for that epoch add up to at most the epoch's emission  (`epoch_paid_le_emission`);
    * no (user, farm, epoch) is ever paid twice  (`no_epoch_paid_twice`);
    * every entry is ⌊rate · user weight in effect / total weight in effect⌋ with the weights in effect at
      that epoch at claim time, for an epoch inside the farm's life that has already begun (`entry_shape`);
    * the coins an accepted claim sends are exactly the sum of its ledger entries (`claim_pays_entries`).

  The epoch configuration must stay the same along the history (as in `C10Sys`).

  STATEMENT CHANGE.  `no_epoch_paid_twice` as originally stated (it counts ALL ledger entries per
  (user, LP token, farm, epoch)) is FALSE: after a cursor reset, a claim with an explicit `until_epoch` before
  the user's new first snapshot rewinds the cursor, and the next claim lists epochs of the user's earlier stay
  again — with user weight 0 and reward 0 (counterexample `CE`, checked by evaluation).  Proved instead:
    * `no_epoch_paid_twice_partial`        at most one entry with a non-zero user weight per key, every history;
    * `no_epoch_paid_twice_nonzero`        … hence at most one entry with a non-zero reward;
    * `no_epoch_paid_twice_default_until`  the original conclusion when every claim uses the default `until_epoch`.
  The other three theorems are proved as stated.
-/
import MantraDex.Model.System
import MantraDex.Spec.Ledger
import MantraDex.Proofs.NumLemmas
import MantraDex.Properties.C06
import MantraDex.Properties.C07
import MantraDex.Properties.C07Split
import MantraDex.Properties.C10Sys
import MantraDex.Proofs.LedSysFold
import MantraDex.Proofs.LedSysRun

set_option linter.unusedSimpArgs false
set_option linter.unusedVariables false

namespace MantraDex.C06Sys
open MantraDex

/-- one payment: `user` received `reward` units of `denom` from farm `farm` (on LP token `lp`, emitting
    `rate` per epoch) for epoch `epoch`; `uw` / `total` are the user's and the total weight in effect at
    that epoch when the claim was made -/
structure Entry where
  user : Addr
  lp : Denom
  farm : String
  denom : Denom
  rate : Nat
  epoch : Nat
  uw : Nat
  total : Nat
  reward : Nat
  deriving Repr, DecidableEq, Inhabited

def farmField (s : FmState) (id : String) (f : Farm → α) (dflt : α) : α :=
  ((s.farms.find? (·.id == id)).map f).getD dflt

/-- the entries of one LP token of a claim: the per-epoch terms `calculate_rewards` computes -/
def lpEntries (s : FmState) (env : FmEnv) (lp : Denom) (u : Addr) (untilE : Nat) : List Entry :=
  match calculateRewards s env lp u untilE with
  | .ok rc => rc.terms.map fun t =>
      { user := u, lp := lp, farm := t.1, denom := farmField s t.1 (·.assetDenom) "",
        rate := farmField s t.1 (·.emissionRate) 0, epoch := t.2.1,
        uw := Spec.weightAt (s.hist u lp) t.2.1, total := Spec.weightAt (s.hist env.self lp) t.2.1,
        reward := t.2.2 }
  | .error _ => []

/-- the entries of a claim by `sender` in state `s` (all LP tokens of the sender's open positions) -/
def claimEntries (s : FmState) (env : FmEnv) (sender : Addr) (untilE : Option Nat) : List Entry :=
  match fmCurrentEpoch s env with
  | .error _ => []
  | .ok cur =>
    match untilEpochOrCurrent untilE cur with
    | .error _ => []
    | .ok u => (uniqueDenoms (s.positionsBy sender true)).flatMap fun lp => lpEntries s env lp sender u

/-- entries produced by one transaction: those of an ACCEPTED top-level `Claim` -/
def ledgerStep (w : World) (tx : Tx) (k : Option Nat) : List Entry :=
  match tx with
  | .exec sender c (.fm (.claim u)) _ =>
    match runTx w tx k with
    | .ok _ => if c = FM then claimEntries w.fm w.fmEnv sender u else []
    | .error _ => []
  | _ => []

/-- the ledger of a history -/
def ledger (w : World) : List (Tx × Option Nat) → List Entry
  | [] => []
  | t :: ts => ledgerStep w t.1 t.2 ++ ledger (step w t.1 t.2) ts

def sumRewards (es : List Entry) : Nat := (es.map (·.reward)).foldl (· + ·) 0

/-- a fresh deployment: no positions, no farms, no weight history, no claim cursor, no pending buffer -/
structure Fresh (w : World) : Prop where
  positions : w.fm.positions = []
  farms : w.fm.farms = []
  hist : w.fm.hist = fun _ _ => []
  cursor : w.fm.lastClaimed = fun _ => none
  buffer : w.pm.buffer = none

/-- the history keeps the epoch configuration and the farm manager's pool-manager pointer (as in C10Sys) -/
def Stable (w0 : World) (txs : List (Tx × Option Nat)) : Prop :=
  ∀ n, C10Sys.EpochStable w0 ((txs.take n).foldl (fun w t => step w t.1 t.2) w0) ∧
       ((txs.take n).foldl (fun w t => step w t.1 t.2) w0).fm.config.poolManager = PM

/-! ## Proof development (helper files `Proofs/LedSys*.lean`, namespace `MantraDex.LedSys`)

  * `LedSysClaim`  the terms of `calculate_rewards` (`TermOk`, at most one per (farm, epoch), coins = Σ terms);
  * `LedSysFold`   an accepted claim in closed form: every iteration computes on the pre-state (`claim_run`);
  * `LedSysEvo`, `LedSysFm`  what every other handler does to histories and cursors (`Evo`, `HEvo`);
  * `LedSysRun`    the lift through `execMsg` / `execSubs`; no contract emits a `claim`;
  * here: the ledger invariant `LInv`, its preservation, and the four theorems. -/

/-! ### entries of one claim -/

def mkEntry (s : FmState) (env : FmEnv) (lp : Denom) (u : Addr) (t : String × Nat × Nat) : Entry :=
  { user := u, lp := lp, farm := t.1, denom := farmField s t.1 (·.assetDenom) "",
    rate := farmField s t.1 (·.emissionRate) 0, epoch := t.2.1,
    uw := Spec.weightAt (s.hist u lp) t.2.1, total := Spec.weightAt (s.hist env.self lp) t.2.1,
    reward := t.2.2 }

theorem lpEntries_eq (s : FmState) (env : FmEnv) (lp : Denom) (u : Addr) (untilE : Nat) :
    lpEntries s env lp u untilE = (LedSys.lpTerms s env lp u untilE).map (mkEntry s env lp u) := by
  unfold lpEntries LedSys.lpTerms
  cases calculateRewards s env lp u untilE <;> rfl

theorem claimEntries_eq {s : FmState} {env : FmEnv} {sender : Addr} {u : Option Nat} {cur untilE : Nat}
    (hc : fmCurrentEpoch s env = .ok cur) (hu : untilEpochOrCurrent u cur = .ok untilE) :
    claimEntries s env sender u =
      (uniqueDenoms (s.positionsBy sender true)).flatMap fun lp => lpEntries s env lp sender untilE := by
  unfold claimEntries
  rw [hc]
  simp only
  rw [hu]

theorem sumRewards_eq (es : List Entry) : sumRewards es = (es.map (·.reward)).sum := by
  unfold sumRewards
  rw [Farm.foldl_add_eq_sum, Nat.zero_add]

theorem sumRewards_append (a b : List Entry) : sumRewards (a ++ b) = sumRewards a + sumRewards b := by
  rw [sumRewards_eq, sumRewards_eq, sumRewards_eq, List.map_append, List.sum_append]

theorem sumRewards_flatMap_filter {α : Type} (l : List α) (f : α → List Entry) (p : Entry → Bool) :
    sumRewards ((l.flatMap f).filter p) = (l.map fun a => sumRewards ((f a).filter p)).sum := by
  induction l with
  | nil => rfl
  | cons a l ih =>
    rw [List.flatMap_cons, List.filter_append, sumRewards_append, ih]
    rfl

theorem lpEntries_sum (s : FmState) (env : FmEnv) (lp : Denom) (u : Addr) (untilE : Nat) (d : Denom) :
    sumRewards ((lpEntries s env lp u untilE).filter (·.denom == d)) =
      LedSys.termSum s d (LedSys.lpTerms s env lp u untilE) := by
  rw [lpEntries_eq, sumRewards_eq, List.filter_map, List.map_map]
  rfl

/-- the coins an accepted claim sends are exactly its ledger entries, per denom -/
theorem claim_pays_entries {s s' : FmState} {env : FmEnv} {sender : Addr} {u : Option Nat} {r : Response}
    (hnd : (s.farms.map (·.id)).Nodup)
    (h : fmClaim s env sender [] u = .ok (s', r)) (d : Denom) :
    C05.outflow r.msgs d = sumRewards ((claimEntries s env sender u).filter (·.denom == d)) := by
  obtain ⟨cur, untilE, sF, total, _, hcur, hun, _, hmid, _, hout⟩ := LedSys.claim_run hnd h
  rw [hout d, hmid.coins d, claimEntries_eq hcur hun, sumRewards_flatMap_filter]
  congr 1
  apply List.map_congr_left
  intro lp _
  rw [LedSys.lpRewards_coins hnd d, lpEntries_sum]

/-! ### the ledger invariant -/

/-- same (user, LP token, farm, epoch) -/
def SameKey (x y : Entry) : Prop := x.user = y.user ∧ x.lp = y.lp ∧ x.farm = y.farm ∧ x.epoch = y.epoch

/-- what is known about one entry in a later state: its epoch has begun, its total is the (frozen) total weight
    in effect at that epoch, and either the user's cursor has passed it or it is older than every snapshot
    the user has in that LP token -/
structure EntryOk (s : FmState) (env : FmEnv) (x : Entry) : Prop where
  past : ∃ cur, fmCurrentEpoch s env = .ok cur ∧ x.epoch ≤ cur
  notSelf : x.user ≠ env.self
  totalNe : x.total ≠ 0
  reward : x.reward = x.rate * x.uw / x.total
  totalEq : x.total = Spec.weightAt (s.hist env.self x.lp) x.epoch
  disc : (∃ l, s.lastClaimed x.user = some l ∧ x.epoch ≤ l) ∨ (∀ sn ∈ s.hist x.user x.lp, x.epoch < sn.1)

/-- the weight `n` may stand for user `u` at (`lp`, `e`): the weight in effect now, or the weight recorded in
    one of `u`'s entries for (`lp`, `e`) -/
def Choice (s : FmState) (L : List Entry) (lp : Denom) (e : Nat) (u : Addr) (n : Nat) : Prop :=
  n = Spec.weightAt (s.hist u lp) e ∨ ∃ x ∈ L, x.user = u ∧ x.lp = lp ∧ x.epoch = e ∧ x.uw = n

/-- the generalised covering: for distinct users, any admissible choice of weights is covered by the total -/
def GCov (s : FmState) (me : Addr) (L : List Entry) : Prop :=
  ∀ lp e (ps : List (Addr × Nat)), (ps.map (·.1)).Nodup → me ∉ ps.map (·.1) →
    (∀ p ∈ ps, Choice s L lp e p.1 p.2) → (ps.map (·.2)).sum ≤ Spec.weightAt (s.hist me lp) e

/-- the cursor of a user dominates all of the user's entries -/
def Dom (s : FmState) (L : List Entry) : Prop :=
  ∀ x ∈ L, ∀ l, s.lastClaimed x.user = some l → x.epoch ≤ l

/-- `D` stands for "every claim so far used the default `until_epoch`"; under `D` the cursor dominates the
    user's entries and no key occurs twice at all (`strict`) -/
structure LInv (D : Prop) (s : FmState) (env : FmEnv) (L : List Entry) : Prop where
  entries : ∀ x ∈ L, EntryOk s env x
  cursorLe : ∀ u l, s.lastClaimed u = some l → ∃ cur, fmCurrentEpoch s env = .ok cur ∧ l ≤ cur
  cursorSnap : ∀ u l, s.lastClaimed u = some l → ∀ lp, ∀ sn ∈ s.hist u lp, l ≤ sn.1
  gcov : GCov s env.self L
  uniq : L.Pairwise (fun x y => y.uw ≠ 0 → ¬ SameKey x y)
  strict : D → Dom s L ∧ L.Pairwise (fun x y => ¬ SameKey x y)

/-! ### the generalised covering -/

theorem sum_le_of_cov {s : FmState} {me : Addr} {lp : Denom} {e : Nat}
    (hc : WSys.Cov (fun a => s.hist a lp) me) (ps : List (Addr × Nat))
    (hnd : (ps.map (·.1)).Nodup) (hself : me ∉ ps.map (·.1))
    (hw : ∀ p ∈ ps, p.2 = Spec.weightAt (s.hist p.1 lp) e) :
    (ps.map (·.2)).sum ≤ Spec.weightAt (s.hist me lp) e := by
  have := hc (ps.map (·.1)) hnd hself e
  unfold WSys.sumU at this
  rw [Farm.foldl_add_eq_sum, Nat.zero_add, List.map_map] at this
  have he : ps.map (·.2) = ps.map ((fun u => Spec.weightAt (s.hist u lp) e) ∘ fun p => p.1) :=
    List.map_congr_left (fun p hp => hw p hp)
  rw [he]
  exact this

theorem raise_choices {Q : Addr → Nat → Prop} : ∀ (ps : List (Addr × Nat)),
    (∀ p ∈ ps, ∃ n, p.2 ≤ n ∧ Q p.1 n) →
    ∃ ps' : List (Addr × Nat), ps'.map (·.1) = ps.map (·.1) ∧ (∀ p ∈ ps', Q p.1 p.2) ∧
      (ps.map (·.2)).sum ≤ (ps'.map (·.2)).sum := by
  intro ps
  induction ps with
  | nil => intro _; exact ⟨[], rfl, fun p hp => (by cases hp), Nat.le_refl _⟩
  | cons p ps ih =>
    intro h
    obtain ⟨n, hn, hq⟩ := h p List.mem_cons_self
    obtain ⟨ps', h1, h2, h3⟩ := ih (fun q hq => h q (List.mem_cons_of_mem _ hq))
    refine ⟨(p.1, n) :: ps', by simp only [List.map_cons, h1], ?_, ?_⟩
    · intro q hq'
      rcases List.mem_cons.1 hq' with rfl | hq'
      · exact hq
      · exact h2 q hq'
    · simp only [List.map_cons, List.sum_cons]
      omega

theorem gcov_nil {s : FmState} {me : Addr} (hc : ∀ lp, WSys.Cov (fun a => s.hist a lp) me) : GCov s me [] := by
  intro lp e ps hnd hself hch
  refine sum_le_of_cov (hc lp) ps hnd hself ?_
  intro p hp
  rcases hch p hp with h | ⟨x, hx, _⟩
  · exact h
  · cases hx

/-- one step: the total is frozen and users only drop at or before `cur`, every entry lies at or before `cur`,
    new entries record the pre-state weight in effect; after `cur` the plain covering of the post-state applies -/
theorem gcov_step {s s' : FmState} {me : Addr} {L L' : List Entry} {cur : Nat}
    (hg : GCov s me L) (hcov : ∀ lp, WSys.Cov (fun a => s'.hist a lp) me)
    (hle : ∀ x ∈ L', x.epoch ≤ cur)
    (hfz : ∀ lp e, e ≤ cur → Spec.weightAt (s'.hist me lp) e = Spec.weightAt (s.hist me lp) e)
    (hlow : ∀ a lp e, a ≠ me → e ≤ cur → Spec.weightAt (s'.hist a lp) e ≤ Spec.weightAt (s.hist a lp) e)
    (hnew : ∀ x ∈ L', x ∈ L ∨ x.uw = Spec.weightAt (s.hist x.user x.lp) x.epoch) : GCov s' me L' := by
  intro lp e ps hnd hself hch
  by_cases he : e ≤ cur
  · have hraise : ∀ p ∈ ps, ∃ n, p.2 ≤ n ∧ Choice s L lp e p.1 n := by
      intro p hp
      have hpme : p.1 ≠ me := fun e' => hself (e' ▸ List.mem_map_of_mem (f := fun p => p.1) hp)
      rcases hch p hp with h | ⟨x, hx, h1, h2, h3, h4⟩
      · exact ⟨_, by rw [h]; exact hlow p.1 lp e hpme he, Or.inl rfl⟩
      · rcases hnew x hx with hx' | hx'
        · exact ⟨p.2, Nat.le_refl _, Or.inr ⟨x, hx', h1, h2, h3, h4⟩⟩
        · refine ⟨p.2, Nat.le_refl _, Or.inl ?_⟩
          rw [← h4, hx', h1, h2, h3]
    obtain ⟨ps', h1, h2, h3⟩ := raise_choices ps hraise
    have := hg lp e ps' (by rw [h1]; exact hnd) (by rw [h1]; exact hself) h2
    rw [hfz lp e he]
    omega
  · refine sum_le_of_cov (hcov lp) ps hnd hself ?_
    intro p hp
    rcases hch p hp with h | ⟨x, hx, _, _, h3, _⟩
    · exact h
    · have := hle x hx
      omega

/-! ### every handler other than `claim` keeps the ledger invariant -/

variable {D : Prop}

theorem toOpt_ok {s : FmState} {env : FmEnv} {cur : Nat} (h : fmCurrentEpoch s env = .ok cur) :
    (fmCurrentEpoch s env).toOption = some cur := by rw [h]; rfl

theorem entries_le_cur {s : FmState} {env : FmEnv} {L : List Entry} (hl : ∀ x ∈ L, EntryOk s env x) {cur : Nat}
    (hc : fmCurrentEpoch s env = .ok cur) : ∀ x ∈ L, x.epoch ≤ cur := by
  intro x hx
  obtain ⟨c, h1, h2⟩ := (hl x hx).past
  rw [hc] at h1; cases h1
  exact h2

theorem linv_evo {s s' : FmState} {env : FmEnv} {L : List Entry} (hl : LInv D s env L) (hi' : WSys.FInv s' env)
    (he : LedSys.HEvo env s s') (hem : s'.config.epochManager = s.config.epochManager) : LInv D s' env L := by
  have hce : fmCurrentEpoch s' env = fmCurrentEpoch s env := WSys.fmCurrentEpoch_congr env hem
  have hreset := LedSys.hevo_reset_hist he hi'
  refine ⟨?_, ?_, ?_, ?_, hl.uniq, fun hd => ⟨?_, (hl.strict hd).2⟩⟩
  rotate_right
  · intro x hx l hl'
    rcases he.evo.cursor x.user with h | h
    · rw [h] at hl'; exact (hl.strict hd).1 x hx l hl'
    · rw [h] at hl'; cases hl'
  · intro x hx
    have e := hl.entries x hx
    obtain ⟨cur, hc, hxe⟩ := e.past
    have hopt := toOpt_ok hc
    refine ⟨⟨cur, by rw [hce]; exact hc, hxe⟩, e.notSelf, e.totalNe, e.reward, ?_, ?_⟩
    · rw [he.evo.frozen cur hopt x.lp x.epoch hxe]; exact e.totalEq
    · rcases e.disc with ⟨l, hl1, hl2⟩ | h2
      · by_cases hch : s'.lastClaimed x.user = s.lastClaimed x.user
        · exact Or.inl ⟨l, by rw [hch]; exact hl1, hl2⟩
        · right
          intro sn hsn
          rw [hreset x.user hch x.lp] at hsn
          cases hsn
      · right
        intro sn hsn
        rcases he.evo.snaps _ _ sn hsn with h | ⟨cur', hc', h⟩
        · exact h2 sn h
        · rw [hopt] at hc'; cases hc'; omega
  · intro u l hul
    rcases he.evo.cursor u with h | h
    · rw [h] at hul
      rw [hce]; exact hl.cursorLe u l hul
    · rw [h] at hul; cases hul
  · intro u l hul lp sn hsn
    rcases he.evo.cursor u with h | h
    · rw [h] at hul
      obtain ⟨cur, hc, hlc⟩ := hl.cursorLe u l hul
      rcases he.evo.snaps _ _ sn hsn with h' | ⟨cur', hc', h'⟩
      · exact hl.cursorSnap u l hul lp sn h'
      · rw [toOpt_ok hc] at hc'; cases hc'; omega
    · rw [h] at hul; cases hul
  · by_cases hcur : ∃ cur, fmCurrentEpoch s env = .ok cur
    · obtain ⟨cur, hc⟩ := hcur
      have hopt := toOpt_ok hc
      exact gcov_step hl.gcov (fun lp => hi'.hist.covers lp) (entries_le_cur hl.entries hc)
        (he.evo.frozen cur hopt) (he.evo.lower cur hopt) (fun x hx => Or.inl hx)
    · have : L = [] := by
        rw [List.eq_nil_iff_forall_not_mem]
        intro x hx
        obtain ⟨cur, hc, _⟩ := (hl.entries x hx).past
        exact hcur ⟨cur, hc⟩
      subst this
      exact gcov_nil (fun lp => hi'.hist.covers lp)

theorem carried_linv (D : Prop) (env0 : FmEnv) (L : List Entry) : LedSys.Carried env0 (fun s => LInv D s env0 L) :=
  fun _ _ hp _ hi' he hem => linv_evo hp hi' he hem

/-- configuration messages and the passing of time: histories and cursors stay, epochs only move forward -/
theorem linv_env {s s' : FmState} {env env' : FmEnv} {L : List Entry} (hl : LInv D s env L)
    (hself : env'.self = env.self) (hh : s'.hist = s.hist) (hlc : s'.lastClaimed = s.lastClaimed)
    (hcur : ∀ cur, fmCurrentEpoch s env = .ok cur → ∃ cur', fmCurrentEpoch s' env' = .ok cur' ∧ cur ≤ cur') :
    LInv D s' env' L := by
  refine ⟨?_, ?_, ?_, ?_, hl.uniq, fun hd => ⟨?_, (hl.strict hd).2⟩⟩
  rotate_right
  · intro x hx l hl'
    rw [hlc] at hl'
    exact (hl.strict hd).1 x hx l hl'
  · intro x hx
    have e := hl.entries x hx
    obtain ⟨cur, hc, hxe⟩ := e.past
    obtain ⟨cur', hc', hle⟩ := hcur cur hc
    refine ⟨⟨cur', hc', by omega⟩, by rw [hself]; exact e.notSelf, e.totalNe, e.reward, ?_, ?_⟩
    · rw [hh, hself]; exact e.totalEq
    · rw [hh, hlc]; exact e.disc
  · intro u l hul
    rw [hlc] at hul
    obtain ⟨cur, hc, hle⟩ := hl.cursorLe u l hul
    obtain ⟨cur', hc', hle'⟩ := hcur cur hc
    exact ⟨cur', hc', by omega⟩
  · intro u l hul
    rw [hlc] at hul
    rw [hh]; exact hl.cursorSnap u l hul
  · intro lp e ps hnd hself' hch
    rw [hh, hself]
    rw [hself] at hself'
    refine hl.gcov lp e ps hnd hself' ?_
    intro p hp
    have := hch p hp
    unfold Choice at this ⊢
    rw [hh] at this
    exact this

/-! ### an accepted claim extends the ledger and keeps the invariant -/

theorem weightAt_ne_zero {h : List (Nat × Nat)} {e : Nat} (hne : Spec.weightAt h e ≠ 0) :
    ∃ sn ∈ h, sn.1 ≤ e := by
  apply Classical.byContradiction
  intro hno
  apply hne
  rw [Farm.weightAt_eq]
  apply Farm.wAtD_of_forall_gt
  intro x hx
  apply Classical.byContradiction
  intro hlt
  exact hno ⟨x, hx, by omega⟩

/-- what is known about a fresh entry of a claim by `sender` up to `untilE` -/
structure NewOk (s : FmState) (env : FmEnv) (sender : Addr) (untilE : Nat) (lps : List Denom) (y : Entry) :
    Prop where
  user : y.user = sender
  lp : y.lp ∈ lps
  le : y.epoch ≤ untilE
  after : ∀ l, s.lastClaimed sender = some l → l < y.epoch
  first : s.lastClaimed sender = none → ∃ sn ∈ s.hist sender y.lp, sn.1 ≤ y.epoch
  totalEq : y.total = Spec.weightAt (s.hist env.self y.lp) y.epoch
  totalNe : y.total ≠ 0
  uwEq : y.uw = Spec.weightAt (s.hist sender y.lp) y.epoch
  reward : y.reward = y.rate * y.uw / y.total

theorem mkEntry_newOk {s : FmState} {env : FmEnv} {sender : Addr} {untilE : Nat} {lps : List Denom} {lp : Denom}
    (hn : (s.farms.map (·.id)).Nodup) (hlp : lp ∈ lps) {t : String × Nat × Nat}
    (ht : LedSys.TermOk s env lp sender untilE t) : NewOk s env sender untilE lps (mkEntry s env lp sender t) := by
  obtain ⟨f, hf, hid, _, _, _, hrw⟩ := ht.farm
  have hrate : (mkEntry s env lp sender t).rate = f.emissionRate := by
    show LedSys.fField s t.1 (·.emissionRate) 0 = _
    rw [← hid, LedSys.fField_of_mem hn hf]
  exact ⟨rfl, hlp, ht.le, ht.after, ht.first, rfl, ht.totalNe, rfl, by rw [hrate]; exact hrw⟩

theorem claimEntries_newOk {s : FmState} {env : FmEnv} {sender : Addr} {untilE : Nat} {lps : List Denom}
    (hi : WSys.FInv s env) (hsnap : ∀ l, s.lastClaimed sender = some l → ∀ lp, ∀ sn ∈ s.hist sender lp, l ≤ sn.1)
    (hn : (s.farms.map (·.id)).Nodup) :
    ∀ y ∈ lps.flatMap (fun lp => lpEntries s env lp sender untilE), NewOk s env sender untilE lps y := by
  intro y hy
  obtain ⟨lp, hlp, hy⟩ := List.mem_flatMap.1 hy
  rw [lpEntries_eq] at hy
  obtain ⟨t, ht, rfl⟩ := List.mem_map.1 hy
  exact mkEntry_newOk hn hlp (LedSys.lpTerms_ok (hi.hist.sorted sender lp) (hi.hist.sorted env.self lp)
    (fun l hl x hx => hsnap l hl lp x hx) t ht)

theorem claimEntries_pairwise {s : FmState} {env : FmEnv} {sender : Addr} {untilE : Nat} {lps : List Denom}
    (hn : (s.farms.map (·.id)).Nodup) (hnd : lps.Nodup) :
    (lps.flatMap (fun lp => lpEntries s env lp sender untilE)).Pairwise (fun x y => ¬ SameKey x y) := by
  rw [List.pairwise_flatMap]
  refine ⟨?_, ?_⟩
  · intro lp _
    rw [lpEntries_eq, List.pairwise_map]
    have := LedSys.lpTerms_nodup (env := env) (lp := lp) (recv := sender) (u := untilE) hn
    rw [List.Nodup, List.pairwise_map] at this
    refine this.imp ?_
    intro a b hab hk
    apply hab
    obtain ⟨_, _, h3, h4⟩ := hk
    show (a.1, a.2.1) = (b.1, b.2.1)
    have h3' : a.1 = b.1 := h3
    have h4' : a.2.1 = b.2.1 := h4
    rw [h3', h4']
  · refine hnd.imp ?_
    intro lp1 lp2 hne x hx y hy hk
    rw [lpEntries_eq] at hx hy
    obtain ⟨t1, _, rfl⟩ := List.mem_map.1 hx
    obtain ⟨t2, _, rfl⟩ := List.mem_map.1 hy
    exact hne hk.2.1

theorem noOpen_of_not_mem_lps {s : FmState} {env : FmEnv} {sender : Addr} (hi : WSys.FInv s env) {lp : Denom}
    (hlp : lp ∉ uniqueDenoms (s.positionsBy sender true)) : WSys.NoOpen s sender lp := by
  intro p hp hr hl
  cases ho : p.open_ with
  | false => rfl
  | true =>
    exfalso
    apply hlp
    rw [LedSys.mem_uniqueDenoms]
    refine ⟨p, ?_, hl⟩
    unfold FmState.positionsBy
    have hlim : (s.positions.filter fun p => p.receiver == sender && p.open_ == true).length ≤
        C.MAX_POSITIONS_LIMIT := hi.pos.openLimit sender
    rw [List.take_of_length_le hlim]
    exact List.mem_filter.2 ⟨hp, by simp [hr, ho]⟩

theorem linv_claim {s s' : FmState} {env : FmEnv} {sender : Addr} {funds : List Coin} {u : Option Nat}
    {r : Response} {L : List Entry} (hi : WSys.FInv s env) (hi' : WSys.FInv s' env) (hl : LInv D s env L)
    (hn : (s.farms.map (·.id)).Nodup) (hs : sender ≠ env.self) (hD : D → u = none)
    (h : fmClaim s env sender funds u = .ok (s', r)) : LInv D s' env (L ++ claimEntries s env sender u) := by
  obtain ⟨cur, untilE, sF, total, hop, hcur, hun, hle, hmid, hs', _⟩ := LedSys.claim_run hn h
  rw [claimEntries_eq hcur hun]
  generalize hlps : uniqueDenoms (s.positionsBy sender true) = lps at hmid
  -- the post-state
  have hh' : s'.hist = sF.hist := by rw [hs']
  have hce : fmCurrentEpoch s' env = .ok cur := by
    rw [← hcur]
    exact WSys.fmCurrentEpoch_congr env (by rw [hs']; show sF.config.epochManager = _; rw [hmid.config])
  have hlastS : s'.lastClaimed sender = some untilE := by rw [hs']; simp
  have hlastO : ∀ a, a ≠ sender → s'.lastClaimed a = s.lastClaimed a := by
    intro a ha
    rw [hs']
    simp only [ha, if_false]
    rw [hmid.last]
  have hhO : ∀ a lp, (a ≠ sender ∨ lp ∉ lps) → s'.hist a lp = s.hist a lp := by
    intro a lp hor; rw [hh']; exact hmid.histOther a lp hor
  have hhD : ∀ lp ∈ lps,
      (s'.hist sender lp = s.hist sender lp ∧ ∀ sn ∈ s.hist sender lp, untilE < sn.1) ∨
      (s'.hist sender lp = WSys.compact (s.hist sender lp) untilE ∧ ∃ sn ∈ s.hist sender lp, sn.1 ≤ untilE) := by
    intro lp hlp; rw [hh']; exact (hmid.histDone lp hlp).2
  have hempty : ∀ lp, lp ∉ lps → s.hist sender lp = [] := by
    intro lp hlp
    exact hi.noWeight sender lp hs (noOpen_of_not_mem_lps hi (by rw [hlps]; exact hlp))
  have hlow : ∀ a lp e, Spec.weightAt (s'.hist a lp) e ≤ Spec.weightAt (s.hist a lp) e := by
    intro a lp e
    by_cases hx : a = sender ∧ lp ∈ lps
    · obtain ⟨rfl, hlp⟩ := hx
      rcases hhD lp hlp with ⟨e1, _⟩ | ⟨e1, _⟩
      · rw [e1]; exact Nat.le_refl _
      · rw [e1]; exact WSys.compact_le (hi.hist.sorted a lp) untilE e
    · rw [hhO a lp (by
        by_cases ha : a = sender
        · exact Or.inr (fun hlp => hx ⟨ha, hlp⟩)
        · exact Or.inl ha)]
      exact Nat.le_refl _
  have hself : ∀ lp, s'.hist env.self lp = s.hist env.self lp := fun lp => hhO env.self lp (Or.inl (Ne.symm hs))
  have hnew := claimEntries_newOk (untilE := untilE) (lps := lps) hi (fun l hl' lp sn hsn => hl.cursorSnap sender l hl' lp sn hsn) hn
  -- the cursor does not exceed `until`
  have hcurs : ∀ l, s.lastClaimed sender = some l → l ≤ untilE := by
    intro l hl'
    have hne : s.positionsBy sender true ≠ [] := by
      intro e; rw [e] at hop; simp at hop
    obtain ⟨p, hp⟩ := List.exists_mem_of_ne_nil _ hne
    have hlp : p.lpDenom ∈ lps := by rw [← hlps]; exact LedSys.mem_uniqueDenoms.2 ⟨p, hp, rfl⟩
    obtain ⟨rc, hrc⟩ := hmid.calcOk _ hlp
    exact (LedSys.calculateRewards_ok hrc).1 l hl'
  refine ⟨?_, ?_, ?_, ?_, ?_, ?_⟩
  · intro x hx
    rcases List.mem_append.1 hx with hx | hx
    · have e := hl.entries x hx
      refine ⟨⟨cur, hce, entries_le_cur hl.entries hcur x hx⟩, e.notSelf, e.totalNe, e.reward, ?_, ?_⟩
      · rw [hself]; exact e.totalEq
      · by_cases hxu : x.user = sender
        · by_cases hxe : x.epoch ≤ untilE
          · exact Or.inl ⟨untilE, by rw [hxu]; exact hlastS, hxe⟩
          · rcases e.disc with ⟨l, hl1, hl2⟩ | h2
            · rw [hxu] at hl1
              have := hcurs l hl1
              omega
            · right
              rw [hxu] at h2 ⊢
              by_cases hlp : x.lp ∈ lps
              · rcases hhD x.lp hlp with ⟨e1, _⟩ | ⟨_, sn0, hsn0, hle0⟩
                · rw [e1]; exact h2
                · have := h2 sn0 hsn0
                  omega
              · rw [hhO sender x.lp (Or.inr hlp)]; exact h2
        · have h1 := hlastO x.user hxu
          rcases e.disc with ⟨l, hl1, hl2⟩ | h2
          · exact Or.inl ⟨l, by rw [h1]; exact hl1, hl2⟩
          · right
            rw [hhO x.user x.lp (Or.inl hxu)]; exact h2
    · have e := hnew x hx
      refine ⟨⟨cur, hce, Nat.le_trans e.le hle⟩, by rw [e.user]; exact hs, e.totalNe, e.reward, ?_, ?_⟩
      · rw [hself]; exact e.totalEq
      · exact Or.inl ⟨untilE, by rw [e.user]; exact hlastS, e.le⟩
  · intro a l hal
    by_cases ha : a = sender
    · subst ha
      rw [hlastS] at hal; cases hal
      exact ⟨cur, hce, hle⟩
    · rw [hlastO a ha] at hal
      obtain ⟨c, hc, hlc⟩ := hl.cursorLe a l hal
      rw [hcur] at hc; cases hc
      exact ⟨cur, hce, hlc⟩
  · intro a l hal lp sn hsn
    by_cases ha : a = sender
    · subst ha
      rw [hlastS] at hal; cases hal
      by_cases hlp : lp ∈ lps
      · rcases hhD lp hlp with ⟨e1, hall⟩ | ⟨e1, _⟩
        · rw [e1] at hsn
          exact Nat.le_of_lt (hall sn hsn)
        · rw [e1] at hsn
          exact LedSys.compact_ge hsn
      · rw [hhO a lp (Or.inr hlp), hempty lp hlp] at hsn
        cases hsn
    · rw [hlastO a ha] at hal
      rw [hhO a lp (Or.inl ha)] at hsn
      exact hl.cursorSnap a l hal lp sn hsn
  · refine gcov_step (cur := cur) hl.gcov (fun lp => hi'.hist.covers lp) ?_ ?_ ?_ ?_
    · intro x hx
      rcases List.mem_append.1 hx with hx | hx
      · exact entries_le_cur hl.entries hcur x hx
      · exact Nat.le_trans (hnew x hx).le hle
    · intro lp e _
      exact congrArg (fun h => Spec.weightAt h e) (hself lp)
    · intro a lp e _ _
      exact hlow a lp e
    · intro x hx
      rcases List.mem_append.1 hx with hx | hx
      · exact Or.inl hx
      · right
        have e := hnew x hx
        rw [e.user]; exact e.uwEq
  · rw [List.pairwise_append]
    refine ⟨hl.uniq, ?_, ?_⟩
    · have hp := claimEntries_pairwise (env := env) (sender := sender) (untilE := untilE) (lps := lps) hn
        (by rw [← hlps]; exact LedSys.uniqueDenoms_nodup _)
      refine List.Pairwise.imp ?_ hp
      intro a b hk _
      exact hk
    · intro x hx y hy hyw hk
      have e := hl.entries x hx
      have ey := hnew y hy
      obtain ⟨k1, k2, _, k4⟩ := hk
      rcases e.disc with ⟨l, hl1, hl2⟩ | h2
      · rw [k1, ey.user] at hl1
        have := ey.after l hl1
        omega
      · rw [ey.uwEq] at hyw
        obtain ⟨sn, hsn, hsle⟩ := weightAt_ne_zero hyw
        rw [k1, ey.user, k2] at h2
        have := h2 sn hsn
        omega
  · intro hd
    have hunt : untilE = cur := by
      have := hD hd
      subst this
      unfold untilEpochOrCurrent at hun
      simp only [Except.ok.injEq] at hun
      exact hun.symm
    refine ⟨?_, ?_⟩
    · intro x hx l hl'
      rcases List.mem_append.1 hx with hx | hx
      · by_cases hxu : x.user = sender
        · rw [hxu, hlastS] at hl'
          cases hl'
          rw [hunt]
          exact entries_le_cur hl.entries hcur x hx
        · rw [hlastO x.user hxu] at hl'
          exact (hl.strict hd).1 x hx l hl'
      · have e := hnew x hx
        rw [e.user, hlastS] at hl'
        cases hl'
        exact e.le
    · rw [List.pairwise_append]
      refine ⟨(hl.strict hd).2, claimEntries_pairwise (lps := lps) hn
        (by rw [← hlps]; exact LedSys.uniqueDenoms_nodup _), ?_⟩
      intro x hx y hy hk
      have e := hl.entries x hx
      have ey := hnew y hy
      obtain ⟨k1, k2, _, k4⟩ := hk
      cases hlc : s.lastClaimed sender with
      | some l =>
        have h1 := (hl.strict hd).1 x hx l (by rw [k1, ey.user]; exact hlc)
        have h2 := ey.after l hlc
        omega
      | none =>
        obtain ⟨sn, hsn, hsle⟩ := ey.first hlc
        rcases e.disc with ⟨l, hl1, _⟩ | h2
        · rw [k1, ey.user, hlc] at hl1; cases hl1
        · rw [k1, ey.user, k2] at h2
          have := h2 sn hsn
          omega

/-! ### one transaction -/

/-- the invariant of a history: the C10 core invariant and the ledger invariant -/
structure JInv (D : Prop) (L : List Entry) (w : World) : Prop where
  core : WSys.WCore w
  led : LInv D w.fm w.fmEnv L

theorem ledgerStep_error {w : World} {tx : Tx} {k : Option Nat} {e : Err} (h : runTx w tx k = .error e) :
    ledgerStep w tx k = [] := by
  unfold ledgerStep
  split
  · rw [h]
  · rfl

theorem ledgerStep_nonclaim {w : World} {sender c : Addr} {msg : ContractMsg} {funds : List Coin}
    {k : Option Nat} (h : ∀ u, msg ≠ .fm (.claim u)) : ledgerStep w (.exec sender c msg funds) k = [] := by
  unfold ledgerStep
  split
  next s' c' u' f' heq =>
    cases heq
    exact absurd rfl (h u')
  · rfl

theorem fundsMove_bank {w w1 : World} {sender c : Addr} {funds : List Coin}
    (h : (if funds.isEmpty then pure w else do
        let b ← w.bank.send sender c funds
        pure { w with bank := b }) = (.ok w1 : R World)) : ∃ b, w1 = { w with bank := b } := by
  split at h
  · simp only [pure_ok] at h; exact ⟨w.bank, by rw [← h]⟩
  · obtain ⟨b, hb, h⟩ := bind_ok.mp h
    simp only [pure_ok] at h; exact ⟨b, by rw [← h]⟩

/-- a non-claim, non-configuration message executed from the top level -/
theorem led_lift {w w' : World} {sender : Addr} {m : Msg} {k : Option Nat} {L : List Entry}
    (h : WSys.WCore w) (hl : LInv D w.fm w.fmEnv L) (hpm : w.fm.config.poolManager = PM)
    (hok : LedSys.MsgOk2 sender m)
    (hx : execMsg FUEL { w with bank := { w.bank with calls := 0, failAt := k } } sender m = .ok w') :
    LInv D w'.fm w'.fmEnv L := by
  have hI : LedSys.LS w.fmEnv (fun s => LInv D s w.fmEnv L)
      { w with bank := { w.bank with calls := 0, failAt := k } } :=
    ⟨⟨rfl, hpm, h.finv, h.wf, h.buf⟩, hl⟩
  have hI' := LedSys.ls_exec (carried_linv D w.fmEnv L) hI hok hx
  have := hI'.p
  rw [hI'.sinv.env]
  exact this

/-- an accepted top-level claim -/
theorem led_claim {w w' : World} {sender c : Addr} {u : Option Nat} {funds : List Coin} {k : Option Nat}
    {L : List Entry} (hs : isContract sender = false) (h : WSys.WCore w) (hl : LInv D w.fm w.fmEnv L)
    (hpm : w.fm.config.poolManager = PM) (hn : (w.fm.farms.map (·.id)).Nodup) (hD : D → u = none)
    (hx : execMsg FUEL { w with bank := { w.bank with calls := 0, failAt := k } } sender
      (.wasmExec c (.fm (.claim u)) funds) = .ok w') :
    c = FM ∧ LInv D w'.fm w'.fmEnv (L ++ claimEntries w.fm w.fmEnv sender u) := by
  rw [WSys.FUEL_succ] at hx
  obtain ⟨w1, w2, resp, hw1, hce, hsub⟩ := SysPools.wasm_inv hx
  obtain ⟨b, rfl⟩ := fundsMove_bank hw1
  obtain ⟨hsf, _⟩ := WSys.ext_ne hs
  rcases AuthSys.callExecute_cases hce with ⟨m, s, hm, -, -, -⟩ | ⟨m, s, hm, hc, hxx, rfl⟩ |
      ⟨m, s, hm, -, -, -, -⟩ | ⟨a, o, hm, -, -, -, -, -⟩
  · cases hm
  · cases hm
    refine ⟨hc, ?_⟩
    have hclaim : fmClaim w.fm w.fmEnv sender funds u = .ok (s, resp) := hxx
    have hsenv : sender ≠ w.fmEnv.self := hsf
    obtain ⟨k1, k2, k3, k4⟩ := WSys.fmClaim_inv h.finv hsenv hclaim
    have hled := linv_claim h.finv k1 hl hn hsenv hD hclaim
    have hI : LedSys.LS w.fmEnv (fun s => LInv D s w.fmEnv (L ++ claimEntries w.fm w.fmEnv sender u))
        { ({ w with bank := b } : World) with fm := s } :=
      ⟨⟨rfl, by show s.config.poolManager = PM; rw [k2]; exact hpm, k1, FmSys.poswf_congr k3 k4 h.wf, h.buf⟩, hled⟩
    have hI' := LedSys.ls_subs (carried_linv D w.fmEnv _) hI
      (fun sm hsm => LedSys.msgOk2_of_send (SysPm.fmExecute_sends hxx sm hsm)) hsub
    have := hI'.p
    rw [hI'.sinv.env]
    exact this
  · cases hm
  · cases hm

theorem top_fm_config_last {w w' : World} {sender c : Addr} {u : FmConfigUpdate} {funds : List Coin} {n : Nat}
    (h : execMsg (n + 1) w sender (.wasmExec c (.fm (.updateConfig u)) funds) = .ok w') :
    w'.fm.lastClaimed = w.fm.lastClaimed := by
  obtain ⟨w1, w2, resp, hw1, hce, hx⟩ := SysPools.wasm_inv h
  obtain ⟨b, rfl⟩ := fundsMove_bank hw1
  simp only [callExecute] at hce
  split at hce
  · cases hce
  · obtain ⟨⟨s, r⟩, hr, hce⟩ := bind_ok.mp hce
    simp only [pure_ok, Prod.mk.injEq] at hce
    obtain ⟨rfl, rfl⟩ := hce
    unfold fmExecute at hr
    simp only [bind_ok] at hr
    obtain ⟨_, _, hr⟩ := hr
    obtain ⟨_, _, _, h4⟩ := WSys.fmUpdateConfig_frame' hr
    rw [h4] at hx
    have := WSys.execSubs_nil hx
    subst this
    exact LedSys.fmUpdateConfig_last hr

/-- a successful top-level contract call by an account -/
theorem led_exec {w w' : World} {sender c : Addr} {msg : ContractMsg} {funds : List Coin} {k : Option Nat}
    {L : List Entry} (hs : isContract sender = false) (h : WSys.WCore w) (hl : LInv D w.fm w.fmEnv L)
    (hpm : w.fm.config.poolManager = PM) (hn : (w.fm.farms.map (·.id)).Nodup)
    (hcfg : w'.em.cfg = w.em.cfg) (hem : w'.fm.config.epochManager = w.fm.config.epochManager)
    (hD : D → ∀ u, msg = .fm (.claim u) → u = none)
    (hx : execMsg FUEL { w with bank := { w.bank with calls := 0, failAt := k } } sender
      (.wasmExec c msg funds) = .ok w')
    (hr : runTx w (.exec sender c msg funds) k = .ok w') :
    LInv D w'.fm w'.fmEnv (L ++ ledgerStep w (.exec sender c msg funds) k) := by
  have outer : w'.fm.hist = w.fm.hist → w'.fm.lastClaimed = w.fm.lastClaimed → w'.nowNs = w.nowNs →
      LInv D w'.fm w'.fmEnv L := by
    intro h1 h2 h3
    have hcur : fmCurrentEpoch w'.fm w'.fmEnv = fmCurrentEpoch w.fm w.fmEnv := by
      unfold fmCurrentEpoch World.fmEnv
      simp only [hem, hcfg, h3]
    exact linv_env hl rfl h1 h2 (fun cur hc => ⟨cur, by rw [hcur]; exact hc, Nat.le_refl _⟩)
  by_cases hclaim : ∃ u, msg = .fm (.claim u)
  · obtain ⟨u, rfl⟩ := hclaim
    obtain ⟨hc, hled⟩ := led_claim hs h hl hpm hn (fun hd => hD hd u rfl) hx
    have : ledgerStep w (.exec sender c (.fm (.claim u)) funds) k = claimEntries w.fm w.fmEnv sender u := by
      unfold ledgerStep
      simp only
      rw [hr]
      simp only [hc, if_true]
    rw [this]
    exact hled
  · have hnc : ∀ u, msg ≠ .fm (.claim u) := fun u e => hclaim ⟨u, e⟩
    rw [ledgerStep_nonclaim hnc, List.append_nil]
    by_cases h1 : ∃ u, msg = .fm (.updateConfig u)
    · obtain ⟨u, rfl⟩ := h1
      rw [WSys.FUEL_succ] at hx
      obtain ⟨ho, _⟩ := WSys.top_fm_config hx
      have hlc := top_fm_config_last hx
      exact outer ho.hist hlc ho.nowNs
    · by_cases h2 : ∃ m, msg = .em m
      · obtain ⟨m, rfl⟩ := h2
        rw [WSys.FUEL_succ] at hx
        obtain ⟨ho, hfm⟩ := WSys.top_em hx
        exact outer ho.hist (by rw [hfm]) ho.nowNs
      · have hok : WSys.MsgOk sender (.wasmExec c msg funds) :=
          WSys.msgOk_external hs (fun u e => h1 ⟨u, e⟩) (fun m e => h2 ⟨m, e⟩)
        have hok2 : LedSys.MsgOk2 sender (.wasmExec c msg funds) := by
          refine ⟨hok, ?_⟩
          cases msg with
          | fm m =>
            cases m with
            | claim u => exact absurd rfl (hnc u)
            | _ => trivial
          | _ => trivial
        exact led_lift h hl hpm hok2 hx

theorem jinv_step (w : World) (tx : Tx) (k : Option Nat) (L : List Entry) (hext : C05Sys.External tx)
    (hcfg : (step w tx k).em.cfg = w.em.cfg)
    (hem : (step w tx k).fm.config.epochManager = w.fm.config.epochManager)
    (hnow : (step w tx k).nowNs ≤ U64_MAX)
    (hpm : w.fm.config.poolManager = PM) (hn : (w.fm.farms.map (·.id)).Nodup)
    (hD : D → ∀ s c u f, tx = .exec s c (.fm (.claim u)) f → u = none) (h : JInv D L w) :
    JInv D (L ++ ledgerStep w tx k) (step w tx k) := by
  refine ⟨WSys.wcore_step w tx k hext hcfg hem hnow hpm h.core, ?_⟩
  unfold step at hcfg hem hnow ⊢
  cases hr : runTx w tx k with
  | error e =>
    rw [ledgerStep_error hr, List.append_nil]
    exact h.led
  | ok w' =>
    rw [hr] at hcfg hem hnow
    simp only at hcfg hem hnow ⊢
    cases tx with
    | exec sender c msg funds =>
      exact led_exec hext.1 h.core h.led hpm hn hcfg hem
        (fun hd u hu => hD hd sender c u funds (by rw [hu])) hr hr
    | send frm to coins =>
      have : ledgerStep w (.send frm to coins) k = [] := rfl
      rw [this, List.append_nil]
      simp only [runTx] at hr
      exact led_lift (m := .bankSend to coins) h.core h.led hpm ⟨trivial, trivial⟩ hr
    | advance ns =>
      have : ledgerStep w (.advance ns) k = [] := rfl
      rw [this, List.append_nil]
      simp only [runTx, Except.ok.injEq] at hr
      subst hr
      refine linv_env h.led rfl rfl rfl ?_
      intro cur hc
      exact WSys.fmCurrentEpoch_mono hc rfl (Nat.le_add_right _ _) hnow

/-! ### whole histories -/

theorem ledger_append (w : World) (a b : List (Tx × Option Nat)) :
    ledger w (a ++ b) = ledger w a ++ ledger (a.foldl (fun w t => step w t.1 t.2) w) b := by
  induction a generalizing w with
  | nil => rfl
  | cons t ts ih =>
    simp only [List.cons_append, ledger, List.foldl_cons]
    rw [ih, List.append_assoc]

theorem jinv_init (w0 : World) (h0 : Fresh w0) : JInv D [] w0 := by
  have hw := (C10Sys.winv_init w0 h0.positions h0.hist h0.buffer).toCore
  refine ⟨hw, ⟨fun x hx => (by cases hx), ?_, ?_, gcov_nil (fun lp => hw.finv.hist.covers lp), List.Pairwise.nil,
    fun _ => ⟨fun x hx => (by cases hx), List.Pairwise.nil⟩⟩⟩
  · intro u l hul
    rw [h0.cursor] at hul; cases hul
  · intro u l hul
    rw [h0.cursor] at hul; cases hul

/-- every claim of the history uses the default `until_epoch` (the current epoch) -/
def DefaultUntil (txs : List (Tx × Option Nat)) : Prop :=
  ∀ t ∈ txs, ∀ s c u f, t.1 = .exec s c (.fm (.claim u)) f → u = none

/-- every prefix of the history: the invariant holds for the ledger so far -/
theorem jinv_reach (w0 : World) (h0 : Fresh w0) (txs : List (Tx × Option Nat))
    (hext : ∀ t ∈ txs, C05Sys.External t.1) (hst : Stable w0 txs) (hD : D → DefaultUntil txs) (n : Nat) :
    JInv D (ledger w0 (txs.take n)) ((txs.take n).foldl (fun w t => step w t.1 t.2) w0) ∧
    C05Sys.FmInv ((txs.take n).foldl (fun w t => step w t.1 t.2) w0) := by
  induction n with
  | zero => exact ⟨jinv_init w0 h0, C05Sys.fm_inv_init w0 h0.positions h0.farms⟩
  | succ n ih =>
    rw [List.take_add_one, List.foldl_append, ledger_append]
    cases ht : txs[n]? with
    | none =>
      simp only [Option.toList, List.foldl_nil, ledger, List.append_nil]
      exact ih
    | some t =>
      have hmem : t ∈ txs := List.mem_of_getElem? ht
      obtain ⟨⟨a1, a2, _⟩, a4⟩ := hst n
      obtain ⟨⟨b1, b2, b3⟩, _⟩ := hst (n + 1)
      rw [List.take_add_one, List.foldl_append, ht] at b1 b2 b3
      simp only [Option.toList, List.foldl_cons, List.foldl_nil] at b1 b2 b3 ⊢
      simp only [ledger, List.append_nil]
      exact ⟨jinv_step _ t.1 t.2 _ (hext t hmem) (b1.trans a1.symm) (b2.trans a2.symm) b3 a4 ih.2.farmNodup
          (fun hd => hD hd t hmem) ih.1,
        C05Sys.fm_inv_step _ t.1 t.2 (hext t hmem) ih.2⟩

/-- the ledger invariant in the final state of a history -/
theorem linv_reach (w0 : World) (h0 : Fresh w0) (txs : List (Tx × Option Nat))
    (hext : ∀ t ∈ txs, C05Sys.External t.1) (hst : Stable w0 txs) (hD : D → DefaultUntil txs) :
    LInv D (txs.foldl (fun w t => step w t.1 t.2) w0).fm (txs.foldl (fun w t => step w t.1 t.2) w0).fmEnv
      (ledger w0 txs) := by
  have := (jinv_reach w0 h0 txs hext hst hD txs.length).1.led
  rw [List.take_length] at this
  exact this

/-- every ledger entry of a history: paid by a farm on that LP token for an epoch inside its life that had
    already begun, and equal to the floor of the exact share with the weights recorded in the entry -/
theorem entry_shape (w0 : World) (h0 : Fresh w0) (txs : List (Tx × Option Nat))
    (hext : ∀ t ∈ txs, C05Sys.External t.1) (hst : Stable w0 txs) :
    ∀ x ∈ ledger w0 txs, x.total ≠ 0 ∧ x.uw ≤ x.total ∧ x.reward = x.rate * x.uw / x.total ∧ x.user ≠ FM := by
  intro x hx
  have hl := linv_reach (D := False) w0 h0 txs hext hst (fun h => h.elim)
  have e := hl.entries x hx
  refine ⟨e.totalNe, ?_, e.reward, e.notSelf⟩
  have := hl.gcov x.lp x.epoch [(x.user, x.uw)] (by simp) (by simpa using fun h => e.notSelf h.symm)
    (by
      intro p hp
      simp only [List.mem_singleton] at hp
      subst hp
      exact Or.inr ⟨x, hx, rfl, rfl, rfl, rfl⟩)
  simp only [List.map_cons, List.map_nil, List.sum_cons, List.sum_nil, Nat.add_zero] at this
  rw [e.totalEq]
  exact this

/- ORIGINAL STATEMENT (false, see `no_epoch_paid_twice_counterexample` below):

/-- no (user, LP token, farm, epoch) is paid twice -/
theorem no_epoch_paid_twice (w0 : World) (h0 : Fresh w0) (txs : List (Tx × Option Nat))
    (hext : ∀ t ∈ txs, C05Sys.External t.1) (hst : Stable w0 txs)
    (u : Addr) (lp : Denom) (f : String) (e : Nat) :
    ((ledger w0 txs).filter fun x => x.user == u && x.lp == lp && x.farm == f && x.epoch == e).length ≤ 1

  It counts ledger entries, including entries with user weight 0 (reward 0).  A user whose cursor was reset
  (they closed their last position, which also drops their histories) and who opened a new position can
  claim with an explicit `until_epoch` that lies BEFORE their new first snapshot: `calculate_rewards` then
  has nothing to pay (every window is empty), the compaction finds no snapshot at or before `until_epoch` and
  leaves the history alone, but the cursor is set to `until_epoch` — i.e. it is REWOUND behind epochs that were
  paid during the user's earlier stay.  The next ordinary claim starts at `until_epoch + 1` and produces one
  term per epoch from there on; for the epochs before the new first snapshot the user's weight in effect is 0,
  so these terms are 0 — but they are terms (ledger entries) for (user, farm, epoch) triples that already have
  an entry from the earlier stay.  Nothing is paid twice; the zero entries are duplicates.
  The repaired statement counts entries with a non-zero user weight (`no_epoch_paid_twice_partial`); it holds
  for every history. -/

/-- REPAIRED version of `no_epoch_paid_twice`: the filter additionally requires a non-zero user weight
    (`x.uw != 0`, which every entry with a non-zero reward has).  Needed because a backdated claim after a
    cursor reset rewinds the cursor, and the following claim re-lists already paid epochs with weight 0
    (see the comment above and `no_epoch_paid_twice_counterexample`). -/
theorem no_epoch_paid_twice_partial (w0 : World) (h0 : Fresh w0) (txs : List (Tx × Option Nat))
    (hext : ∀ t ∈ txs, C05Sys.External t.1) (hst : Stable w0 txs)
    (u : Addr) (lp : Denom) (f : String) (e : Nat) :
    ((ledger w0 txs).filter fun x =>
      x.user == u && x.lp == lp && x.farm == f && x.epoch == e && x.uw != 0).length ≤ 1 := by
  have hl := linv_reach (D := False) w0 h0 txs hext hst (fun h => h.elim)
  have hp := hl.uniq.filter (fun x => x.user == u && x.lp == lp && x.farm == f && x.epoch == e && x.uw != 0)
  generalize hE : (ledger w0 txs).filter
    (fun x => x.user == u && x.lp == lp && x.farm == f && x.epoch == e && x.uw != 0) = E at hp
  have hmem : ∀ x ∈ E, x.user = u ∧ x.lp = lp ∧ x.farm = f ∧ x.epoch = e ∧ x.uw ≠ 0 := by
    intro x hx
    rw [← hE] at hx
    have := (List.mem_filter.1 hx).2
    simp only [Bool.and_eq_true, beq_iff_eq, bne_iff_ne, ne_eq] at this
    exact ⟨this.1.1.1.1, this.1.1.1.2, this.1.1.2, this.1.2, this.2⟩
  match E, hp, hmem with
  | [], _, _ => exact Nat.zero_le _
  | [_], _, _ => exact Nat.le_refl _
  | a :: b :: rest, hp, hmem =>
    exfalso
    have ha := hmem a (by simp)
    have hb := hmem b (by simp)
    have hab := (List.pairwise_cons.1 hp).1 b (by simp)
    exact hab hb.2.2.2.2 ⟨ha.1.trans hb.1.symm, ha.2.1.trans hb.2.1.symm, ha.2.2.1.trans hb.2.2.1.symm,
      ha.2.2.2.1.trans hb.2.2.2.1.symm⟩

/-- … in particular no (user, LP token, farm, epoch) receives a non-zero amount twice -/
theorem no_epoch_paid_twice_nonzero (w0 : World) (h0 : Fresh w0) (txs : List (Tx × Option Nat))
    (hext : ∀ t ∈ txs, C05Sys.External t.1) (hst : Stable w0 txs)
    (u : Addr) (lp : Denom) (f : String) (e : Nat) :
    ((ledger w0 txs).filter fun x =>
      x.user == u && x.lp == lp && x.farm == f && x.epoch == e && x.reward != 0).length ≤ 1 := by
  refine Nat.le_trans ?_ (no_epoch_paid_twice_partial w0 h0 txs hext hst u lp f e)
  apply List.Sublist.length_le
  have hl := linv_reach (D := False) w0 h0 txs hext hst (fun h => h.elim)
  have : ∀ x ∈ ledger w0 txs,
      (x.user == u && x.lp == lp && x.farm == f && x.epoch == e && x.reward != 0) = true →
      (x.user == u && x.lp == lp && x.farm == f && x.epoch == e && x.uw != 0) = true := by
    intro x hx hq
    simp only [Bool.and_eq_true, bne_iff_ne, ne_eq] at hq ⊢
    refine ⟨hq.1, ?_⟩
    intro h0'
    apply hq.2
    rw [(hl.entries x hx).reward, h0', Nat.mul_zero, Nat.zero_div]
  have hfe : (ledger w0 txs).filter (fun x => x.user == u && x.lp == lp && x.farm == f && x.epoch == e && x.reward != 0) =
      ((ledger w0 txs).filter (fun x => x.user == u && x.lp == lp && x.farm == f && x.epoch == e && x.uw != 0)).filter
        (fun x => x.user == u && x.lp == lp && x.farm == f && x.epoch == e && x.reward != 0) := by
    rw [List.filter_filter]
    apply List.filter_congr
    intro x hx
    cases hq : (x.user == u && x.lp == lp && x.farm == f && x.epoch == e && x.reward != 0) with
    | false => simp
    | true => rw [this x hx hq]; rfl
  rw [hfe]
  exact List.filter_sublist

/-- SECOND repaired version of `no_epoch_paid_twice`: the ORIGINAL conclusion (all entries counted, also those
    with weight 0), under the extra hypothesis that every `claim` of the history uses the default `until_epoch`
    (`DefaultUntil`).  Then a cursor is never rewound: it always dominates the user's entries. -/
theorem no_epoch_paid_twice_default_until (w0 : World) (h0 : Fresh w0) (txs : List (Tx × Option Nat))
    (hext : ∀ t ∈ txs, C05Sys.External t.1) (hst : Stable w0 txs) (hdu : DefaultUntil txs)
    (u : Addr) (lp : Denom) (f : String) (e : Nat) :
    ((ledger w0 txs).filter fun x => x.user == u && x.lp == lp && x.farm == f && x.epoch == e).length ≤ 1 := by
  have hl := linv_reach (D := True) w0 h0 txs hext hst (fun _ => hdu)
  have hp := (hl.strict trivial).2.filter (fun x => x.user == u && x.lp == lp && x.farm == f && x.epoch == e)
  generalize hE : (ledger w0 txs).filter
    (fun x => x.user == u && x.lp == lp && x.farm == f && x.epoch == e) = E at hp
  have hmem : ∀ x ∈ E, x.user = u ∧ x.lp = lp ∧ x.farm = f ∧ x.epoch = e := by
    intro x hx
    rw [← hE] at hx
    have := (List.mem_filter.1 hx).2
    simp only [Bool.and_eq_true, beq_iff_eq] at this
    exact ⟨this.1.1.1, this.1.1.2, this.1.2, this.2⟩
  match E, hp, hmem with
  | [], _, _ => exact Nat.zero_le _
  | [_], _, _ => exact Nat.le_refl _
  | a :: b :: rest, hp, hmem =>
    exfalso
    have ha := hmem a (by simp)
    have hb := hmem b (by simp)
    have hab := (List.pairwise_cons.1 hp).1 b (by simp)
    exact hab ⟨ha.1.trans hb.1.symm, ha.2.1.trans hb.2.1.symm, ha.2.2.1.trans hb.2.2.1.symm,
      ha.2.2.2.trans hb.2.2.2.symm⟩

/-! #### the counterexample to the original `no_epoch_paid_twice`

  `v` and `u` lock 1000 LP each in epoch 0, `o` creates farm "m-f" (epochs 1 … 100, 1000 per epoch).
  Epoch 3: `u` claims (entries for epochs 1, 2, 3 with weight 1000) and closes the position: cursor and
  history of `u` are dropped.  Epoch 4: `u` locks again (first snapshot at epoch 5).  Epoch 7: `u` claims with
  `until_epoch = 1` — accepted, pays nothing, sets the cursor to 1 — and then claims normally: the terms start
  at epoch 2, so the ledger gets (u, m-f, 2) and (u, m-f, 3) a second time, with weight 0 and reward 0:

      #eval (ledger CE.w0 CE.txs).map fun x => (x.user, x.farm, x.epoch, x.uw, x.total, x.reward)
      -- [("u","m-f",1,1000,2000,500), ("u","m-f",2,1000,2000,500), ("u","m-f",3,1000,2000,500),
      --  ("u","m-f",2,0,2000,0), ("u","m-f",3,0,2000,0), ("u","m-f",4,0,1000,0),
      --  ("u","m-f",5,1000,2000,500), ("u","m-f",6,1000,2000,500), ("u","m-f",7,1000,2000,500)]

  The run is checked by evaluation (`#guard` below; kernel reduction gets stuck on the string operations of
  `validateLpDenom` / `toString`); `Fresh` and `External` are proved, `Stable` is checked by evaluation
  (`CE.stableB` mirrors it: no transaction of the history is a configuration message). -/

namespace CE
def lp : Denom := "factory/pm/x.LP"
def own : Ownership := { owner := some "owner" }
def w0 : World := {
  bank := { bal := fun a d => (if (a == "u" || a == "v") && d == lp then 1000000
                               else if a == "o" && d == "uom" then 10000000 else 0),
            supply := fun _ => 0 },
  pm := { config := { feeCollector := FC, farmManager := FM, creationFee := ⟨"uom", 0⟩ }, owner := own },
  fm := { config := ⟨FC, EM, PM, ⟨"uom", 0⟩, 5, 14, 86400, 31536000, 2629746, 0⟩, owner := own },
  em := { cfg := ⟨86400, 0⟩, owner := own },
  fc := own, nowNs := 0, tfFees := [], validAddr := fun _ => true }
def day : Tx × Option Nat := (.advance (86400 * NANOS), none)
def txs : List (Tx × Option Nat) := [
  (.exec "v" FM (.fm (.createPosition none 86400 none)) [⟨lp, 1000⟩], none),
  (.exec "u" FM (.fm (.createPosition (some "a") 86400 none)) [⟨lp, 1000⟩], none),
  (.exec "o" FM (.fm (.createFarm ⟨lp, some 1, some 101, ⟨"uom", 100000⟩, some "f"⟩)) [⟨"uom", 100000⟩], none),
  day, day, day,
  (.exec "u" FM (.fm (.claim none)) [], none),
  (.exec "u" FM (.fm (.closePosition "u-a" none)) [], none),
  day,
  (.exec "u" FM (.fm (.createPosition (some "b") 86400 none)) [⟨lp, 1000⟩], none),
  day, day, day,
  (.exec "u" FM (.fm (.claim (some 1))) [], none),
  (.exec "u" FM (.fm (.claim none)) [], none)]

/-- `Stable w0 txs`, as a computation over the prefixes (a prefix beyond the length is the whole list) -/
def stableB : Bool := (List.range (txs.length + 1)).all fun n =>
  let w := (txs.take n).foldl (fun w t => step w t.1 t.2) w0
  w.em.cfg == w0.em.cfg && w.fm.config.epochManager == w0.fm.config.epochManager &&
    decide (w.nowNs ≤ U64_MAX) && w.fm.config.poolManager == PM
end CE

theorem CE.fresh : Fresh CE.w0 := ⟨rfl, rfl, rfl, rfl, rfl⟩

theorem CE.external : ∀ t ∈ CE.txs, C05Sys.External t.1 := by
  intro t ht
  simp only [CE.txs, CE.day, List.mem_cons, List.not_mem_nil, or_false] at ht
  rcases ht with rfl | rfl | rfl | rfl | rfl | rfl | rfl | rfl | rfl | rfl | rfl | rfl | rfl | rfl | rfl <;>
    first | trivial | exact ⟨by decide, by decide⟩

#guard CE.stableB
-- the refutation, by evaluation: (u, LP, "m-f", epoch 2) has two ledger entries, one of them with weight 0
#guard ((ledger CE.w0 CE.txs).filter fun x =>
  x.user == "u" && x.lp == CE.lp && x.farm == "m-f" && x.epoch == 2).length == 2
#guard ((ledger CE.w0 CE.txs).filter fun x =>
  x.user == "u" && x.lp == CE.lp && x.farm == "m-f" && x.epoch == 2 && x.uw != 0).length == 1

theorem sumRewards_filter_of_zero (q : Entry → Bool) : ∀ (l : List Entry),
    (∀ x ∈ l, q x = false → x.reward = 0) → sumRewards l = sumRewards (l.filter q) := by
  intro l
  induction l with
  | nil => intro _; rfl
  | cons a l ih =>
    intro h
    have iht := ih (fun x hx => h x (List.mem_cons_of_mem _ hx))
    rw [sumRewards_eq] at iht ⊢
    rw [List.filter_cons]
    cases hq : q a with
    | true =>
      simp only [if_true]
      rw [sumRewards_eq, List.map_cons, List.sum_cons, List.map_cons, List.sum_cons, iht, sumRewards_eq]
    | false =>
      simp only [Bool.false_eq_true, if_false]
      rw [List.map_cons, List.sum_cons, h a List.mem_cons_self hq, Nat.zero_add, iht]

/-- for every farm (identifier, LP token, emission rate) and every epoch, the rewards paid to all users for
    that epoch add up to at most the epoch's emission -/
theorem epoch_paid_le_emission (w0 : World) (h0 : Fresh w0) (txs : List (Tx × Option Nat))
    (hext : ∀ t ∈ txs, C05Sys.External t.1) (hst : Stable w0 txs)
    (f : String) (lp : Denom) (r e : Nat) :
    sumRewards ((ledger w0 txs).filter fun x => x.farm == f && x.lp == lp && x.rate == r && x.epoch == e) ≤ r := by
  have hl := linv_reach (D := False) w0 h0 txs hext hst (fun h => h.elim)
  generalize hwF : txs.foldl (fun w t => step w t.1 t.2) w0 = wF at hl
  generalize hL : ledger w0 txs = L at hl
  generalize hE : L.filter (fun x => x.farm == f && x.lp == lp && x.rate == r && x.epoch == e) = E
  have hEmem : ∀ x ∈ E, x ∈ L ∧ x.farm = f ∧ x.lp = lp ∧ x.rate = r ∧ x.epoch = e := by
    intro x hx
    rw [← hE] at hx
    obtain ⟨h1, h2⟩ := List.mem_filter.1 hx
    simp only [Bool.and_eq_true, beq_iff_eq] at h2
    exact ⟨h1, h2.1.1.1, h2.1.1.2, h2.1.2, h2.2⟩
  -- entries with weight 0 pay nothing
  rw [sumRewards_filter_of_zero (fun x => x.uw != 0) E (by
    intro x hx hq
    have hz : x.uw = 0 := by simpa using hq
    rw [(hl.entries x (hEmem x hx).1).reward, hz, Nat.mul_zero, Nat.zero_div])]
  generalize hE1 : E.filter (fun x => x.uw != 0) = E1
  have hE1mem : ∀ x ∈ E1, x ∈ L ∧ x.farm = f ∧ x.lp = lp ∧ x.rate = r ∧ x.epoch = e ∧ x.uw ≠ 0 := by
    intro x hx
    rw [← hE1] at hx
    obtain ⟨h1, h2⟩ := List.mem_filter.1 hx
    obtain ⟨a, b, c, d, e'⟩ := hEmem x h1
    exact ⟨a, b, c, d, e', by simpa using h2⟩
  -- distinct users
  have hsub : E1.Sublist L := by
    rw [← hE1, ← hE]
    exact List.filter_sublist.trans List.filter_sublist
  have hpw : E1.Pairwise (fun x y => x.user ≠ y.user) := by
    have hp := hl.uniq.sublist hsub
    have hp2 : E1.Pairwise (fun x y => x ∈ E1 ∧ y ∈ E1) := by
      rw [List.pairwise_iff_forall_sublist]
      intro a b hab
      have := hab.subset
      exact ⟨this (by simp), this (by simp)⟩
    refine (hp.and hp2).imp ?_
    intro x y ⟨hR, hx, hy⟩ hu
    obtain ⟨_, a1, a2, _, a4, _⟩ := hE1mem x hx
    obtain ⟨_, b1, b2, _, b4, b5⟩ := hE1mem y hy
    exact hR b5 ⟨hu, a2.trans b2.symm, a1.trans b1.symm, a4.trans b4.symm⟩
  -- the recorded weights are covered by the (common) total
  have hcov := hl.gcov lp e (E1.map fun x => (x.user, x.uw))
    (by rw [List.map_map]; exact (List.pairwise_map.2 hpw))
    (by
      rw [List.map_map]
      intro hm
      obtain ⟨x, hx, hxe⟩ := List.mem_map.1 hm
      exact (hl.entries x (hE1mem x hx).1).notSelf hxe)
    (by
      intro p hp
      obtain ⟨x, hx, rfl⟩ := List.mem_map.1 hp
      obtain ⟨a, _, a2, _, a4, _⟩ := hE1mem x hx
      exact Or.inr ⟨x, a, rfl, a2, a4, rfl⟩)
  rw [List.map_map] at hcov
  generalize hT : Spec.weightAt (wF.fm.hist wF.fmEnv.self lp) e = T at hcov
  have hrew : ∀ x ∈ E1, x.reward = r * x.uw / T := by
    intro x hx
    obtain ⟨a, _, a2, a3, a4, _⟩ := hE1mem x hx
    have e' := hl.entries x a
    rw [e'.reward, e'.totalEq, a2, a3, a4, hT]
  rw [sumRewards_eq, List.map_congr_left hrew]
  refine Nat.le_trans (Split.sum_map_div_le E1 (fun x => r * x.uw) T) ?_
  rw [Split.sum_map_mul_left]
  exact mul_div_le_of_le hcov

end MantraDex.C06Sys
