/-
  Soundness of the monitors added with the eighth round of seeded changes (see MonSound / MonSoundB / MonSoundC / MonSoundD for
  the idea): fed with the quantities of an accepted MODEL transaction, the monitor raises no alarm — for all inputs.  Plus one
  theorem the broken-route-link scenario relies on: a route with a non-consecutive link ANYWHERE is refused.

  * `monCloseExpiry` (C08): whatever an accepted ClosePosition closes (the position itself, or the part split off) carries
    `expiringAt = block time (s) + the position's own unlocking duration` — independent of the configuration;
  * `monPenaltyTotal` (C09): after an accepted emergency exit of a not-yet-unlocked position the farm manager has paid out the
    position's amount up to the dust of the division among the distinct active farm owners (fewer than `max n 1` units) —
    WHOEVER those owners are: the fee collector and the position owner may be among them (no distinctness hypotheses);
  * `monSingleShape` (C14): an accepted single-asset ProvideLiquidity went into a pool with exactly two assets, none empty;
  * `monRouteUnquoted` (C12): an accepted route over pairwise distinct pools, no denom produced by two hops, IS priced by the
    simulation query on the pre-state (so the monitor's "executed although the simulation refused" cannot fire);
  * `route_broken_link_refused` (C04 / C12): a route in which some hop's declared input differs from the previous hop's output
    is refused, wherever the broken link is.

  If a statement is false as given: counterexample (kernel-evaluated), original kept in a comment, `_partial` with the weakest
  repair, prominent note — as in the guide.
-/
import MantraDex.Model.System
import MantraDex.Model.HistMon
import MantraDex.Properties.C08Tx
import MantraDex.Properties.C09Sys
import MantraDex.Properties.C12Sys
import MantraDex.Properties.C14
import MantraDex.Properties.C14Lock
import MantraDex.Proofs.MonSoundELemmas

set_option linter.unusedSimpArgs false
set_option linter.unusedVariables false

namespace MantraDex.MonSoundE
open MantraDex

/-- `mon_close_expiry` (C08): every position that is closed after an accepted ClosePosition of `p` and was not closed before
    (the position itself after a full close, the new part after a partial close) unlocks `p.unlocking` seconds after the block
    time.  `hinv`: the farm-manager invariant of every reachable state (`C05Sys.fm_inv_reachable`). -/
theorem monCloseExpiry_sound (w w' : World) (u : Addr) (id : String) (lp : Option Coin) (funds : List Coin)
    (p q : Position) (hinv : C05Sys.FmInv w)
    (hp : w.fm.getPosition id = some p)
    (h : runTx w (.exec u FM (.fm (.closePosition id lp)) funds) = .ok w')
    (hq : q ∈ w'.fm.positions) (hclosed : q.open_ = false)
    (hnew : ∀ r ∈ w.fm.positions, r.id = q.id → r.open_ = true) :
    monCloseExpiry q.expiringAt (w.nowNs / NANOS) p.unlocking = none := by
  -- `hinv` is not needed (kept: it holds in every reachable state and costs the caller nothing)
  have hexp : q.expiringAt = some (w.nowNs / NANOS + p.unlocking) := by
    rcases MonSoundEL.close_position_members hp h q hq with hold | hopen | hexp
    · have := hnew q hold rfl
      rw [hclosed] at this
      cases this
    · rw [hclosed] at hopen
      cases hopen
    · rw [hexp, MonSoundEL.expiry_seconds]
  unfold monCloseExpiry
  apply MonSoundEL.firstFail_none
  intro x hx
  simp only [List.mem_cons, List.mem_nil_iff, or_false] at hx
  subst hx
  simp only [hexp, beq_self_eq_true]

/-- `mon_penalty_total` (C09): what left the farm manager in the LP token after an accepted emergency exit, against the amount
    and the number of distinct owners of the active farms.

    PROVED AS STATED.  Notes on the hypotheses and the bound:
    * `hfm` (the farm manager is neither the sender, nor the fee collector, nor an active-farm owner) is what makes
      `bal FM before − bal FM after` the sum of ALL payments: by `C09Sys.emergency_withdraw_tx_effect` a payment the farm
      manager makes to itself adds and subtracts the same amount, so with `feeCollector = FM` (or `FM` a farm owner, or
      `u = FM`) the measured outflow is smaller by that payment and the monitor WOULD fire although the model accepted —
      the three conjuncts are the right ones (each excludes one self-payment; nothing about `u`, the fee collector and
      the owners being distinct from EACH OTHER is needed, the measure is taken at `FM` only).
    * the bound `< max n 1` is right in all three branches of `penaltySplit` (`C09.split_accounted`): with no active farm
      (`n = 0`) and when the per-owner share rounds to zero the whole penalty goes to the fee collector, the dust is
      `0 < 1 ≤ max n 1`; otherwise the dust is `(total / 2) mod n < n`. -/
theorem monPenaltyTotal_sound (w w' : World) (u : Addr) (p : Position)
    (hp : w.fm.getPosition p.id = some p)
    (hnot : (⟨p.amount, p.unlocking, p.expiringAt⟩ : PosView).isExpired w.fmEnv.nowS = false)
    (active : List Farm) (hact : C09Sys.activeFarms w.fm w.fmEnv p.lpDenom = .ok active)
    (hfm : u ≠ FM ∧ w.fm.config.feeCollector ≠ FM ∧ FM ∉ uniqueOwners active)
    (h : runTx w (.exec u FM (.fm (.withdrawPosition p.id (some true))) []) = .ok w') :
    monPenaltyTotal p.amount ((w.bank.bal FM p.lpDenom : Int) - w'.bank.bal FM p.lpDenom) (uniqueOwners active).length = none := by
  obtain ⟨hu, rate, active', sp, hrate, hact', hsp, hgone, hpm, hfarms, hle, hbal⟩ :=
    C09Sys.emergency_withdraw_tx_effect w w' u p hp hnot h
  rw [hact] at hact'
  cases hact'
  obtain ⟨h1, h2, h3⟩ := hfm
  have e := hbal FM p.lpDenom
  have c1 : ¬ FM = u := fun c => h1 c.symm
  have c3 : ¬ FM = w.fm.config.feeCollector := fun c => h2 c.symm
  simp only [C09Sys.at_, true_and, and_self, c1, h3, c3, false_and, if_false, if_true] at e
  obtain ⟨hacc, hpaid, hdust⟩ := C09.split_accounted hsp
  obtain ⟨_, hlt, hop, _⟩ := C09.penaltySplit_ok hsp
  unfold monPenaltyTotal
  apply MonSoundEL.firstFail_none
  intro x hx
  simp only [List.mem_cons, List.mem_nil_iff, or_false] at hx
  subst hx
  simp only [Bool.and_eq_true, decide_eq_true_eq]
  generalize sp.nFarmOwners * sp.perFarmOwner = Q at *
  generalize (uniqueOwners active).length = n at *
  omega

/-- `mon_single_shape` (C14): an accepted ProvideLiquidity with exactly one coin attached -/
theorem monSingleShape_sound (w w' : World) (u : Addr) (c : Coin) (ls ss : Option Nat) (recv : Option Addr) (pid : String)
    (ul : Option Nat) (l : Option String) (pool : PoolInfo)
    (hu : isContract u = false)
    (hp : w.pm.getPool pid = .ok pool)
    (h : runTx w (.exec u PM (.pm (.provideLiquidity ls ss recv pid ul l)) [c]) = .ok w') :
    monSingleShape pool.assets.length (pool.assets.all (·.amount == 0)) = none := by
  -- `hu` is not needed
  obtain ⟨env, s, r, hx⟩ := MonSoundEL.single_tx_handler h
  have hlen : pool.assets.length = 2 := by
    apply Classical.byContradiction
    intro hne
    exact C14.single_refused_on_empty_or_larger_pool hp (Or.inr hne) (s, r) hx
  have hany : pool.assets.any (·.amount == 0) = false := by
    cases hb : pool.assets.any (·.amount == 0) with
    | false => rfl
    | true => exact absurd hx (C14.single_refused_on_empty_or_larger_pool hp (Or.inl hb) (s, r))
  have hall : pool.assets.all (·.amount == 0) = false := by
    match hpa : pool.assets, hlen with
    | [a, b], _ =>
      rw [hpa] at hany
      simp only [List.any_cons, List.any_nil, Bool.or_false, Bool.or_eq_false_iff] at hany
      simp only [List.all_cons, List.all_nil, Bool.and_true, hany.1, Bool.false_and]
  unfold monSingleShape
  rw [hlen, hall]
  rfl

/-- `mon_route_unquoted` (C12): an accepted route that is `clean` is priced by the simulation on the pre-state — stated as: the
    monitor fed with `clean = true` can only be reached when the query failed, which cannot happen -/
theorem monRouteUnquoted_sound (w w' : World) (u : Addr) (ops : List SwapOp) (mr : Option Nat) (recv : Option Addr)
    (ms : Option Nat) (funds : List Coin) (hd : C12.distinctPools ops) (hout : (ops.map (·.tokenOut)).Nodup)
    (h : runTx w (.exec u PM (.pm (.execSwapOps ops mr recv ms)) funds) = .ok w') :
    ∃ amount r, funds.map (·.amount) = [amount] ∧ simulateSwapOpsFull w.pm amount ops = .ok r := by
  obtain ⟨first, amount, s1, out, feeMsgs, r, hhead, hf, hroute, hq, hra⟩ :=
    C12Sys.route_tx_equals_simulation_partial w w' u ops mr recv ms funds hd hout h
  exact ⟨amount, r, by rw [hf]; rfl, hq⟩

/-- a route whose link into hop `k + 1` is broken (the declared input of hop `k + 1` is not what hop `k` delivers) is refused,
    whatever else the transaction carries -/
theorem route_broken_link_refused (w : World) (u : Addr) (ops : List SwapOp) (mr : Option Nat) (recv : Option Addr)
    (ms : Option Nat) (funds : List Coin) (k : Nat) (a b : SwapOp)
    (ha : ops[k]? = some a) (hb : ops[k + 1]? = some b) (hbroken : b.tokenIn ≠ a.tokenOut) :
    ∀ fault, ∃ e, runTx w (.exec u PM (.pm (.execSwapOps ops mr recv ms)) funds) fault = .error e := by
  intro fault
  cases hrun : runTx w (.exec u PM (.pm (.execSwapOps ops mr recv ms)) funds) fault with
  | error e => exact ⟨e, rfl⟩
  | ok w' =>
    obtain ⟨first, last, amount, s1, out, feeMsgs, b1, x, b', hhead, hlast, hf, hao, _⟩ := QSys.route_run_inv hrun
    exact absurd (MonSoundEL.assertOperations_link hao ha hb) hbroken

end MantraDex.MonSoundE
