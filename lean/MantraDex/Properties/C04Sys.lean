/-
  C04 through the runtime: the complete bank effect of an executed swap transaction.  The offer moves
  from the trader to the pool manager; the pool manager pays the return amount to the receiver, the
  protocol fee to the fee collector and burns the burn fee; swap and extra fees stay; nobody else's
  balance changes.  Stated additively over `Int` so that every aliasing of the five parties (trader =
  receiver, receiver = fee collector, receiver = pool manager, …) is covered by one formula.
-/
import MantraDex.Model.System
import MantraDex.Proofs.NumLemmas
import MantraDex.Proofs.BankLemmas
import MantraDex.Proofs.SwapTxLemmas

set_option linter.unusedSimpArgs false
set_option linter.unusedVariables false

namespace MantraDex.C04Sys
open MantraDex

/-- amount of denom `d` in a coin -/
def amt (c : Coin) (d : Denom) : Int := if c.denom = d then (c.amount : Int) else 0

/-- `1` when the two accounts coincide -/
def at_ (a b : Addr) (x : Int) : Int := if a = b then x else 0

theorem amt_eq_coinsOf (c : Coin) (d : Denom) : amt c d = ((C01.coinsOf [c] d : Nat) : Int) := by
  rw [coinsOf_single]
  unfold amt
  split <;> rfl

/-- an accepted `Swap` transaction by an account: the pool-manager state is the one `performSwap`
    computes, no other contract changes, and every balance of every account and denom moves by exactly
    the offer, the return amount, the protocol fee and the burn fee, as the property says -/
theorem swap_tx_effect (w w' : World) (u : Addr) (offer : Coin) (ask : Denom) (b ms : Option Nat)
    (recv : Option Addr) (pid : String)
    (hu : isContract u = false)
    (h : runTx w (.exec u PM (.pm (.swap ask b ms recv pid)) [offer]) = .ok w') :
    ∃ (s1 : PmState) (r : SwapResult),
      performSwap w.pm offer ask pid b ms = .ok (s1, r) ∧
      w'.pm = s1 ∧ w'.fm = w.fm ∧ w'.em.cfg = w.em.cfg ∧
      ∀ a d, (w'.bank.bal a d : Int) = (w.bank.bal a d : Int)
          - at_ a u (amt offer d) + at_ a PM (amt offer d)
          - at_ a PM (amt r.ret d + amt r.protocolFee d + amt r.burnFee d)
          + at_ a (addrOrDefault w.pmEnv recv u) (amt r.ret d)
          + at_ a w.pm.config.feeCollector (amt r.protocolFee d) := by
  obtain ⟨b1, x, y, b4, s1, r, hps, m0, m1, m2, m3, rfl⟩ := swap_run_inv h
  refine ⟨s1, r, hps, rfl, rfl, rfl, ?_⟩
  intro a d
  have e0 := m0.bal a d
  have e1 := m1.bal a d
  have e2 := m2.bal a d
  have e3 := m3.bal a d
  simp only [amt_eq_coinsOf, at_]
  simp only at e0 e1 e2 e3 ⊢
  generalize C01.coinsOf [offer] d = o at *
  generalize C01.coinsOf [r.ret] d = rr at *
  generalize C01.coinsOf [r.burnFee] d = bf at *
  generalize C01.coinsOf [r.protocolFee] d = pf at *
  generalize addrOrDefault w.pmEnv recv u = rc at *
  generalize w.pm.config.feeCollector = fc at *
  by_cases c1 : a = u <;> by_cases c2 : a = PM <;> by_cases c3 : a = rc <;> by_cases c4 : a = fc <;>
    (try simp only [if_pos c1] at e0 e1 e2 e3 ⊢) <;> (try simp only [if_neg c1] at e0 e1 e2 e3 ⊢) <;>
    (try simp only [if_pos c2] at e0 e1 e2 e3 ⊢) <;> (try simp only [if_neg c2] at e0 e1 e2 e3 ⊢) <;>
    (try simp only [if_pos c3] at e0 e1 e2 e3 ⊢) <;> (try simp only [if_neg c3] at e0 e1 e2 e3 ⊢) <;>
    (try simp only [if_pos c4] at e0 e1 e2 e3 ⊢) <;> (try simp only [if_neg c4] at e0 e1 e2 e3 ⊢) <;>
    omega

end MantraDex.C04Sys
