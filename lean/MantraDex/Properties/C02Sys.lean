/-
  C02 / C01 (LP clause), lifted through the runtime: LP supply moves only in deposit and withdrawal
  transactions; once a pool has been funded, the pool manager holds its permanently locked minimum
  liquidity for ever, so the LP supply of a funded pool never falls below it; the pool manager's own
  LP balance moves only by the locked minimum of a first deposit and by donations.

  Stated for deployments in which no pool lists an LP token of the pool manager as one of its assets
  and the token-factory fee is not charged in an LP token (`LpPlain`); with an LP token as a pool asset
  a swap's burn fee destroys LP of the other pool, which the property's first sentence does not allow
  for either (recorded in DESIGN.md).
-/
import MantraDex.Model.System
import MantraDex.Proofs.NumLemmas
import MantraDex.Properties.C01Sys
import MantraDex.Properties.C16Sys
import MantraDex.Proofs.LpSysTx
import MantraDex.Proofs.LpSysFm

set_option linter.unusedSimpArgs false
set_option linter.unusedVariables false

namespace MantraDex.C02Sys
open MantraDex

/-- the minimum liquidity locked by the first deposit into `p` (as `provide_liquidity` computes it) -/
def minLiqOf (p : PoolInfo) : Option Nat :=
  match p.ptype with
  | .cp => some C.MINIMUM_LIQUIDITY_AMOUNT
  | .stable _ =>
    match listMin p.decimals, listMax p.decimals with
    | some mn, some mx => (match minLiquidityStable mn mx with | .ok m => some m | .error _ => none)
    | _, _ => none

/-- no pool of `w` trades an LP token of a pool of `w`, and the denom-creation fee is not paid in one -/
def LpPlain (w : World) : Prop :=
  ∀ p ∈ w.pm.pools, (∀ q ∈ w.pm.pools, p.lpDenom ∉ q.denoms) ∧ p.lpDenom ∉ w.tfFees.map (·.denom)

def sumOver (as : List Addr) (f : Addr → Nat) : Nat := (as.map f).foldl (· + ·) 0

/-- the invariant carried along (the proving agent may add fields; the first two stay) -/
structure LpInv (w : World) : Prop where
  /-- a pool's LP token either does not exist yet, or the pool manager holds the locked minimum -/
  locked : ∀ p ∈ w.pm.pools, w.bank.supply p.lpDenom = 0 ∨
    ∃ m, minLiqOf p = some m ∧ 0 < m ∧ m ≤ w.bank.bal PM p.lpDenom
  /-- bank: the supply of a denom covers the balances of any set of distinct accounts -/
  supplyCovers : ∀ d (as : List Addr), as.Nodup → sumOver as (fun a => w.bank.bal a d) ≤ w.bank.supply d
  ids : (w.pm.pools.map (·.id)).Nodup
  lpDerived : ∀ p ∈ w.pm.pools, p.lpDenom = lpDenomOf PM p.id
  noBuffer : w.pm.buffer = none
  /-- (added) reserves are listed in the order of the pool's asset denoms -/
  aligned : ∀ p ∈ w.pm.pools, p.assets.map (·.denom) = p.denoms
  /-- (added) a factory denom of the pool manager that is not (yet) the LP denom of a pool does not exist:
      without it `locked` is not inductive (a pool created over a pre-existing LP supply holds no minimum) -/
  fresh : ∀ id, (∀ p ∈ w.pm.pools, p.id ≠ id) → w.bank.supply (lpDenomOf PM id) = 0
  /-- (added, used by C03Sys) a constant-product pool has two assets; the asset denoms of a pool are distinct -/
  shape : ∀ p ∈ w.pm.pools, (p.ptype = .cp → p.denoms.length = 2) ∧ p.denoms.Nodup

/-! ### helpers -/

open MantraDex.LpSys (Covers PlainD PlainPools TxD Foreign minLiq)

theorem sumOver_eq (as : List Addr) (f : Addr → Nat) : sumOver as f = LpSys.sumOver as f := rfl

theorem minLiqOf_eq (p : PoolInfo) : minLiqOf p = minLiq p := rfl

theorem covers_iff (b : Bank) :
    (∀ d (as : List Addr), as.Nodup → sumOver as (fun a => b.bal a d) ≤ b.supply d) ↔ Covers b := Iff.rfl

/-- reserves stay aligned with the asset denoms (C16), as a relation carried through the runtime -/
def AlignedRel (s s' : PmState) : Prop :=
  (∀ p ∈ s.pools, C16.Aligned p) → ∀ p ∈ s'.pools, C16.Aligned p

theorem alignedRel : SysPools.PmRel AlignedRel where
  refl := fun s h => h
  trans := fun h1 h2 h => h2 (h1 h)
  exec := by
    intro s s' env sender funds m r _ h ha
    exact C16.aligned_preserved ha h
  reply := by
    intro s s' env id r h ha
    rw [C16.reply_keeps_pools h]
    exact ha

/-- the static shape of a pool -/
def Shape (p : PoolInfo) : Prop := (p.ptype = .cp → p.denoms.length = 2) ∧ p.denoms.Nodup

theorem shape_static {p q : PoolInfo} (h : SameStatic p q) (hp : Shape p) : Shape q := by
  unfold Shape
  rw [← h.2.1, ← h.2.2.2.1]
  exact hp

theorem pmStep_shape {s s' : PmState} (h : PmStep s s') (ha : ∀ p ∈ s.pools, Shape p) :
    ∀ p ∈ s'.pools, Shape p := by
  induction h with
  | refl s => exact ha
  | buffer s b => exact ha
  | save s pid p0 p' hp hs hden =>
    obtain ⟨hmem, _⟩ := getPool_ok hp
    rw [savePool_pools_of_getPool hp hs.1]
    intro q' hq'
    obtain ⟨q, hq, rfl⟩ := List.mem_map.1 hq'
    split
    · exact shape_static hs (ha p0 hmem)
    · exact ha q hq
  | trans _ _ ih1 ih2 => exact ih2 (ih1 ha)

def ShapeRel (s s' : PmState) : Prop := (∀ p ∈ s.pools, Shape p) → ∀ p ∈ s'.pools, Shape p

theorem shapeRel : SysPools.PmRel ShapeRel where
  refl := fun s h => h
  trans := fun h1 h2 h => h2 (h1 h)
  exec := by
    intro s s' env sender funds m r _ h ha
    rcases pmExecute_cases h with hs | ⟨d, dc, f, pt, id, rfl, hc⟩ | ⟨s1, cfg, _, hs, rfl⟩ | ⟨o, _, rfl⟩
    · exact pmStep_shape hs ha
    · obtain ⟨-, -, -, hcp, -, hdup, -⟩ := C16.createPool_shape hc
      obtain ⟨p0, _, hpools, _, _, hp0⟩ := createPool_pools hc
      intro q hq
      rw [hpools] at hq
      rcases mem_insertPoolSorted.1 hq with rfl | hq
      · subst hp0
        exact ⟨hcp, SysPm.nodup_of_hasDuplicates _ hdup⟩
      · exact ha q hq
    · exact fun p hp => pmStep_shape hs ha p hp
    · exact ha
  reply := by
    intro s s' env id r h ha
    rw [C16.reply_keeps_pools h]
    exact ha

theorem not_contract_ne_pm {a : Addr} (h : isContract a = false) : a ≠ PM := by
  intro e; subst e; revert h; decide

/-- an LP denom of the post-state is neither a reserve denom nor a fee denom of the pre-state -/
theorem plain_back {w w' : World} (hplain : LpPlain w') (hkept : C16Sys.PoolsKept w w')
    (hal : ∀ p ∈ w.pm.pools, p.assets.map (·.denom) = p.denoms) (htf : w'.tfFees = w.tfFees)
    {p' : PoolInfo} (hp' : p' ∈ w'.pm.pools) : PlainD p'.lpDenom w := by
  obtain ⟨h1, h2⟩ := hplain p' hp'
  constructor
  · intro q hq a ha e
    obtain ⟨q', hq', hs⟩ := hkept q hq
    apply h1 q' hq'
    rw [← hs.2.1, ← hal q hq, ← e]
    exact List.mem_map_of_mem ha
  · intro f hf e
    apply h2
    rw [htf, ← e]
    exact List.mem_map_of_mem hf

/-- a call of the pool manager's `execute` is addressed to the pool manager -/
theorem pm_exec_callee {n : Nat} {w w' : World} {sender c : Addr} {m : PmMsg} {funds : List Coin}
    (h : execMsg (n + 1) w sender (.wasmExec c (.pm m) funds) = .ok w') : c = PM := by
  obtain ⟨w1, w2, resp, -, hce, -⟩ := SysPm.wasm_inv h
  simp only [callExecute] at hce
  split at hce
  · cases hce
  · rename_i hc
    simpa using hc

/-- what one transaction does to the supply of a plain denom `d` and to the pool manager's balance of it -/
structure DFacts (w w' : World) (tx : Tx) (d : Denom) : Prop where
  balGe : w.bank.bal PM d ≤ w'.bank.bal PM d
  up : w.bank.supply d < w'.bank.supply d →
    ∃ sender ls ss rc pid u l funds, tx = .exec sender PM (.pm (.provideLiquidity ls ss rc pid u l)) funds
  down : w'.bank.supply d < w.bank.supply d →
    ∃ sender pid pool funds, tx = .exec sender PM (.pm (.withdrawLiquidity pid)) funds ∧
      w.pm.getPool pid = .ok pool ∧ pool.lpDenom = d
  first : w.bank.supply d = 0 → w'.bank.supply d ≠ 0 → ∀ p ∈ w.pm.pools, p.lpDenom = d →
    ∃ mn, minLiq p = some mn ∧ w.bank.bal PM d + mn ≤ w'.bank.bal PM d

theorem DFacts.of_foreign {w w' : World} {tx : Tx} {d : Denom}
    (hs : w'.bank.supply d = w.bank.supply d) (hb : w.bank.bal PM d ≤ w'.bank.bal PM d) : DFacts w w' tx d :=
  ⟨hb, fun h => by omega, fun h => by omega, fun h0 h1 => by omega⟩

/-- everything about one committed transaction -/
structure Committed (w w' : World) (tx : Tx) : Prop where
  cov : Covers w'.bank
  tf : w'.tfFees = w.tfFees
  buf : w'.pm.buffer = none
  fresh : ∀ id, (∀ p ∈ w.pm.pools, p.id ≠ id) → w.bank.supply (lpDenomOf PM id) = 0 →
    w'.bank.supply (lpDenomOf PM id) = 0
  perD : ∀ d, PlainD d w → DFacts w w' tx d

/-- a message-executing transaction, run from the world `w0` (the pre-state with the fault counter reset) -/
theorem committed0 {w0 w' : World} {tx : Tx} (hext : C01Sys.External tx) (hc0 : Covers w0.bank)
    (hok : C16Sys.LpOk w0.pm) (hbuf : w0.pm.buffer = none)
    (hr : match tx with
      | .exec sender c msg funds => execMsg FUEL w0 sender (.wasmExec c msg funds) = .ok w'
      | .send frm to coins => execMsg FUEL w0 frm (.bankSend to coins) = .ok w'
      | .advance _ => False) : Committed w0 w' tx := by
  cases tx with
  | exec sender c msg funds =>
    obtain ⟨hsc, hfunds⟩ := hext
    have hs := not_contract_ne_pm hsc
    simp only at hr
    cases msg with
    | pm m =>
      have hcc : c = PM := pm_exec_callee (n := 63) hr
      subst hcc
      obtain ⟨c1, t1⟩ := (LpSys.exec_covers FUEL).1 _ _ _ _ hr hc0
      refine ⟨c1, t1, ?_, ?_, ?_⟩
      · by_cases hns : SysPm.NotSingle m funds
        · obtain ⟨-, w1, s', r, fi, hpe, hpm, -⟩ := LpSys.pm_call (n := 63) hfunds hns hc0 hr
          rw [hpm, LpSys.handler_buffer hfunds hns hpe]
          exact hbuf
        · cases m with
          | provideLiquidity ls ss rc pid u l =>
            match funds, hns, hr with
            | [], _, hr => exact (C01Sys.no_funds_tx (n := 63) hr).elim
            | _ :: _ :: _, hns, _ => exact absurd (by simp [SysPm.NotSingle]) hns
            | [coin], _, hr =>
              obtain ⟨w1, w3, buf, ask, fi, hoh, hea, hne, -, -, -, -, hswap, hbuf3, hsecond⟩ :=
                LpSys.single_tree hs hc0 hr
              have hcov3 := ((LpSys.exec_covers 62).1 _ _ _ _ hswap fi.cov).1
              have hnd : (([buf.offerHalf, buf.expectedAsk] : List Coin).map (·.denom)).Nodup := by
                rw [hoh]
                simp [hea, hne]
              obtain ⟨-, w3a, s5, r5, fi4, hpe5, hpm5, -⟩ :=
                LpSys.pm_call (n := 60) (w := { w3 with pm := { w3.pm with buffer := none } })
                  (funds := [buf.offerHalf, buf.expectedAsk])
                  (m := .provideLiquidity buf.liqSlip buf.swapSlip (some buf.receiver) buf.poolId buf.unlocking
                    buf.lockId) hnd (Nat.le_refl 2) hcov3 hsecond
              rw [hpm5, LpSys.handler_buffer (m := .provideLiquidity buf.liqSlip buf.swapSlip (some buf.receiver)
                buf.poolId buf.unlocking buf.lockId) hnd (Nat.le_refl 2) hpe5]
          | _ => exact absurd trivial hns
      · exact LpSys.tx_fresh hs hfunds hc0 hok hr
      · intro d hpl
        obtain ⟨txd, -⟩ := LpSys.tx_pm_d (d := d) hs hfunds hc0 hok hbuf hpl hr
        refine ⟨txd.balGe, fun hlt => ?_, fun hlt => ?_, txd.first⟩
        · obtain ⟨ls, ss, rc, pid, u, l, rfl⟩ := txd.up hlt
          exact ⟨sender, ls, ss, rc, pid, u, l, funds, rfl⟩
        · obtain ⟨pid, pool, rfl, hp, hd⟩ := txd.down hlt
          exact ⟨sender, pid, pool, funds, rfl, hp, hd⟩
    | fm m =>
      obtain ⟨f, -⟩ := LpSys.foreign_call (n := 63) (msg := .fm m) hs (by intro pm e; cases e) hc0 hr
      exact ⟨f.cov, f.tf, by rw [f.pm]; exact hbuf, fun id _ h0 => by rw [f.sup]; exact h0,
        fun d _ => DFacts.of_foreign (f.sup d) (f.bal d)⟩
    | em m =>
      obtain ⟨f, -⟩ := LpSys.foreign_call (n := 63) (msg := .em m) hs (by intro pm e; cases e) hc0 hr
      exact ⟨f.cov, f.tf, by rw [f.pm]; exact hbuf, fun id _ h0 => by rw [f.sup]; exact h0,
        fun d _ => DFacts.of_foreign (f.sup d) (f.bal d)⟩
    | fc m =>
      obtain ⟨f, -⟩ := LpSys.foreign_call (n := 63) (msg := .fc m) hs (by intro pm e; cases e) hc0 hr
      exact ⟨f.cov, f.tf, by rw [f.pm]; exact hbuf, fun id _ h0 => by rw [f.sup]; exact h0,
        fun d _ => DFacts.of_foreign (f.sup d) (f.bal d)⟩
  | send frm to coins =>
    have hs := not_contract_ne_pm hext.1
    simp only at hr
    have f := LpSys.foreign_transfer hs hc0 hr
    exact ⟨f.cov, f.tf, by rw [f.pm]; exact hbuf, fun id _ h0 => by rw [f.sup]; exact h0,
      fun d _ => DFacts.of_foreign (f.sup d) (f.bal d)⟩
  | advance ns => exact hr.elim

theorem committed {w w' : World} {tx : Tx} {k : Option Nat} (hext : C01Sys.External tx) (h : LpInv w)
    (hr : runTx w tx k = .ok w') : Committed w w' tx := by
  have hc : Covers w.bank := (covers_iff _).1 h.supplyCovers
  have hok : C16Sys.LpOk w.pm := ⟨h.ids, h.lpDerived⟩
  have key : ∀ w0 : World, w0 = { w with bank := { w.bank with calls := 0, failAt := k } } →
      Committed w0 w' tx → Committed w w' tx := by
    intro w0 e cm
    subst e
    exact ⟨cm.cov, cm.tf, cm.buf, cm.fresh, fun d hpl =>
      let df := cm.perD d hpl
      ⟨df.balGe, df.up, df.down, df.first⟩⟩
  cases tx with
  | exec sender c msg funds =>
    simp only [runTx] at hr
    exact key _ rfl (committed0 hext hc hok h.noBuffer hr)
  | send frm to coins =>
    simp only [runTx] at hr
    exact key _ rfl (committed0 hext hc hok h.noBuffer hr)
  | advance ns =>
    simp only [runTx] at hr
    cases hr
    exact ⟨hc, rfl, h.noBuffer, fun id _ h0 => h0, fun d _ => DFacts.of_foreign rfl (Nat.le_refl _)⟩

/-- the invariant after a committed transaction -/
theorem inv_of_committed {w w' : World} {tx : Tx} (h : LpInv w) (hplain : LpPlain w')
    (hkept : C16Sys.PoolsKept w w') (hok' : C16Sys.LpOk w'.pm)
    (hal' : ∀ p ∈ w'.pm.pools, C16.Aligned p) (hsh' : ∀ p ∈ w'.pm.pools, Shape p) (cm : Committed w w' tx) :
    LpInv w' := by
  have hok : C16Sys.LpOk w.pm := ⟨h.ids, h.lpDerived⟩
  -- a pool of the post-state is a pool of the pre-state (same static fields) or has a fresh identifier
  have hold : ∀ p' ∈ w'.pm.pools, (∃ p ∈ w.pm.pools, C16.StaticEq p p') ∨ (∀ p ∈ w.pm.pools, p.id ≠ p'.id) := by
    intro p' hp'
    by_cases hex : ∃ p ∈ w.pm.pools, p.id = p'.id
    · obtain ⟨p, hp, hid⟩ := hex
      obtain ⟨p'', hp'', hs⟩ := hkept p hp
      have : p'' = p' := C16.eq_of_nodup_ids hok'.1 p'' hp'' p' hp' (hs.1.symm.trans hid)
      subst this
      exact Or.inl ⟨p, hp, hs⟩
    · exact Or.inr (fun p hp e => hex ⟨p, hp, e⟩)
  refine ⟨?_, (covers_iff _).2 cm.cov, hok'.1, hok'.2, cm.buf, hal', ?_, hsh'⟩
  · intro p' hp'
    rcases hold p' hp' with ⟨p, hp, hs⟩ | hnew
    · have hpl : PlainD p'.lpDenom w := plain_back hplain hkept h.aligned cm.tf hp'
      have df := cm.perD _ hpl
      have hlp : p.lpDenom = p'.lpDenom := hs.2.2.2.2.2
      have hml : minLiqOf p' = minLiq p := by rw [minLiqOf_eq, LpSys.minLiq_static hs]
      rcases h.locked p hp with h0 | ⟨m, hm, hpos, hle⟩
      · rw [hlp] at h0
        by_cases h1 : w'.bank.supply p'.lpDenom = 0
        · exact Or.inl h1
        · obtain ⟨mn, hmn, hb⟩ := df.first h0 h1 p hp hlp
          exact Or.inr ⟨mn, by rw [hml]; exact hmn, LpSys.minLiq_pos hmn, by omega⟩
      · rw [hlp] at hle
        have := df.balGe
        exact Or.inr ⟨m, by rw [hml, ← minLiqOf_eq]; exact hm, hpos, by omega⟩
    · left
      rw [hok'.2 p' hp']
      exact cm.fresh p'.id hnew (h.fresh p'.id hnew)
  · intro id hid
    have hid0 : ∀ p ∈ w.pm.pools, p.id ≠ id := by
      intro p hp e
      obtain ⟨p', hp', hs⟩ := hkept p hp
      exact hid p' hp' (hs.1.symm.trans e)
    exact cm.fresh id hid0 (h.fresh id hid0)

/-- one step: the invariant, and the per-denom facts for every pool of the pre-state -/
theorem step_core (w : World) (tx : Tx) (k : Option Nat) (hext : C01Sys.External tx)
    (hplain : LpPlain (step w tx k)) (h : LpInv w) :
    LpInv (step w tx k) ∧ ∀ p' ∈ (step w tx k).pm.pools, DFacts w (step w tx k) tx p'.lpDenom := by
  have hkept := (C16Sys.pools_static_step w tx k h.ids).1
  have hok' : C16Sys.LpOk (step w tx k).pm := SysPools.step_rel C16Sys.lpRel w tx k ⟨h.ids, h.lpDerived⟩
  have hal' : ∀ p ∈ (step w tx k).pm.pools, C16.Aligned p := SysPools.step_rel alignedRel w tx k h.aligned
  have hsh' : ∀ p ∈ (step w tx k).pm.pools, Shape p := SysPools.step_rel shapeRel w tx k h.shape
  cases hr : runTx w tx k with
  | error e =>
    have hst : step w tx k = w := by unfold step; rw [hr]
    rw [hst]
    exact ⟨h, fun p' _ => DFacts.of_foreign rfl (Nat.le_refl _)⟩
  | ok w' =>
    have hst : step w tx k = w' := by unfold step; rw [hr]
    rw [hst] at hplain hkept hok' hal' hsh' ⊢
    have cm := committed hext h hr
    refine ⟨inv_of_committed h hplain hkept hok' hal' hsh' cm, fun p' hp' => ?_⟩
    exact cm.perD _ (plain_back hplain hkept h.aligned cm.tf hp')

/-- one transaction (committed or rejected, any injected fault) preserves the invariant -/
theorem lp_inv_step (w : World) (tx : Tx) (k : Option Nat) (hext : C01Sys.External tx)
    (hplain : LpPlain (step w tx k)) (h : LpInv w) : LpInv (step w tx k) :=
  (step_core w tx k hext hplain h).1

/- ORIGINAL STATEMENT (not provable for the extended invariant, and the un-extended invariant is not inductive):

    theorem lp_inv_init (w : World) (hp : w.pm.pools = []) (hb : w.pm.buffer = none)
        (hs : ∀ d (as : List Addr), as.Nodup → sumOver as (fun a => w.bank.bal a d) ≤ w.bank.supply d) :
        LpInv w

   Why a further hypothesis is needed.  With only the five original fields `lp_inv_step` is FALSE: take `w` with no
   pools, `supply "factory/pm/o.x.LP" = 5`, all 5 held by an account `alice` (so `supplyCovers` holds, the other
   fields hold vacuously).  `CreatePool … (some "x")` by anybody (no fees configured) commits and stores the pool
   `o.x` with `lpDenom = "factory/pm/o.x.LP"`; nothing is minted, so afterwards the pool's LP supply is `5 ≠ 0`
   while the pool manager holds `0 < 1000` of it — `locked` fails.  (On the real chain the token factory refuses to
   create an existing denom and a denom that does not exist has supply 0; the bank model does not track which denoms
   exist.)  Reproduced with `#eval` through `runTx` (world `C14Eq.cxWorld` without pools, token-factory fee `1 x`,
   `supply "factory/pm/o.p.LP" = 5` held by `alice`, `CreatePool ["x","y"] … (some "p")` with `[1 x]` attached):
   result `ok (["factory/pm/o.p.LP"], 5, 0)` = (LP denoms of the pools, supply of the new pool's LP denom, balance of
   `PM` in it).  The invariant therefore carries the field `fresh` ("a factory denom of the pool manager that is not
   the LP denom of a pool has supply 0"), and a genesis state has to satisfy it: hypothesis `hfresh` below. -/

/-- a freshly instantiated deployment (no pools) in which no token of the pool manager's factory namespace exists -/
theorem lp_inv_init_partial (w : World) (hp : w.pm.pools = []) (hb : w.pm.buffer = none)
    (hs : ∀ d (as : List Addr), as.Nodup → sumOver as (fun a => w.bank.bal a d) ≤ w.bank.supply d)
    (hfresh : ∀ id, w.bank.supply (lpDenomOf PM id) = 0) :
    LpInv w := by
  refine ⟨?_, hs, ?_, ?_, hb, ?_, fun id _ => hfresh id, ?_⟩
  · intro p hpm; rw [hp] at hpm; cases hpm
  · rw [hp]; exact List.nodup_nil
  · intro p hpm; rw [hp] at hpm; cases hpm
  · intro p hpm; rw [hp] at hpm; cases hpm
  · intro p hpm; rw [hp] at hpm; cases hpm

/-- the invariant in every reachable state -/
theorem lp_inv_reachable (w0 : World) (h0 : LpInv w0) (txs : List (Tx × Option Nat))
    (hext : ∀ t ∈ txs, C01Sys.External t.1)
    (hplain : ∀ n, LpPlain ((txs.take n).foldl (fun w t => step w t.1 t.2) w0)) :
    LpInv (txs.foldl (fun w t => step w t.1 t.2) w0) := by
  induction txs generalizing w0 with
  | nil => exact h0
  | cons t rest ih =>
    rw [List.foldl_cons]
    apply ih
    · have := hplain 1
      rw [List.take_succ_cons, List.take_zero, List.foldl_cons, List.foldl_nil] at this
      exact lp_inv_step w0 t.1 t.2 (hext t (List.mem_cons_self ..)) this h0
    · exact fun t' ht' => hext t' (List.mem_cons_of_mem _ ht')
    · intro n
      have := hplain (n + 1)
      rw [List.take_succ_cons, List.foldl_cons] at this
      exact this

/-- the LP supply of a funded pool never falls below the minimum liquidity locked at the first deposit -/
theorem lp_supply_ge_min_reachable (w0 : World) (h0 : LpInv w0) (txs : List (Tx × Option Nat))
    (hext : ∀ t ∈ txs, C01Sys.External t.1)
    (hplain : ∀ n, LpPlain ((txs.take n).foldl (fun w t => step w t.1 t.2) w0)) :
    ∀ p ∈ (txs.foldl (fun w t => step w t.1 t.2) w0).pm.pools,
      (txs.foldl (fun w t => step w t.1 t.2) w0).bank.supply p.lpDenom = 0 ∨
      ∃ m, minLiqOf p = some m ∧ 0 < m ∧ m ≤ (txs.foldl (fun w t => step w t.1 t.2) w0).bank.supply p.lpDenom := by
  have hinv := lp_inv_reachable w0 h0 txs hext hplain
  intro p hp
  rcases hinv.locked p hp with h | ⟨m, hm, hpos, hle⟩
  · exact Or.inl h
  · refine Or.inr ⟨m, hm, hpos, Nat.le_trans hle ?_⟩
    exact ((covers_iff _).1 hinv.supplyCovers).one PM p.lpDenom

/-- LP tokens are created only by deposit transactions and destroyed only by withdrawal transactions:
    if a transaction changes the supply of a pool's LP token, it is a `ProvideLiquidity` (supply grows)
    or a `WithdrawLiquidity` (supply shrinks) sent to the pool manager -/
theorem lp_supply_moves_only_by_deposit_or_withdrawal (w : World) (tx : Tx) (k : Option Nat)
    (hext : C01Sys.External tx) (hplain : LpPlain (step w tx k)) (h : LpInv w)
    (p : PoolInfo) (hp : p ∈ w.pm.pools) :
    ((step w tx k).bank.supply p.lpDenom > w.bank.supply p.lpDenom →
      ∃ sender ls ss rc pid u l funds, tx = .exec sender PM (.pm (.provideLiquidity ls ss rc pid u l)) funds) ∧
    ((step w tx k).bank.supply p.lpDenom < w.bank.supply p.lpDenom →
      ∃ sender funds, tx = .exec sender PM (.pm (.withdrawLiquidity p.id)) funds) := by
  obtain ⟨-, hd⟩ := step_core w tx k hext hplain h
  obtain ⟨p', hp', hs⟩ := (C16Sys.pools_static_step w tx k h.ids).1 p hp
  have df := hd p' hp'
  rw [← hs.2.2.2.2.2] at df
  refine ⟨fun hgt => df.up hgt, fun hlt => ?_⟩
  obtain ⟨sender, pid, pool, funds, rfl, hg, hlp⟩ := df.down hlt
  obtain ⟨hmem, hid⟩ := getPool_ok hg
  have : pool = p := LpSys.pool_unique ⟨h.ids, h.lpDerived⟩ hmem hp hlp
  subst this
  exact ⟨sender, funds, by rw [hid]⟩

/-- once funded, always funded: the locked minimum never leaves the pool manager (used by C03Sys) -/
theorem lp_funded_step (w : World) (tx : Tx) (k : Option Nat) (hext : C01Sys.External tx)
    (hplain : LpPlain (step w tx k)) (h : LpInv w) (p : PoolInfo) (hp : p ∈ w.pm.pools)
    (hS : w.bank.supply p.lpDenom ≠ 0) : (step w tx k).bank.supply p.lpDenom ≠ 0 := by
  obtain ⟨hinv, hd⟩ := step_core w tx k hext hplain h
  obtain ⟨p', hp', hs⟩ := (C16Sys.pools_static_step w tx k h.ids).1 p hp
  have df := hd p' hp'
  rw [← hs.2.2.2.2.2] at df
  rcases h.locked p hp with h0 | ⟨m, -, hpos, hle⟩
  · exact absurd h0 hS
  · have h1 := df.balGe
    have h2 := ((covers_iff _).1 hinv.supplyCovers).one PM p.lpDenom
    omega

/- ORIGINAL STATEMENT (false as it stands, see the counterexamples below):

    theorem pm_lp_balance_step (w : World) (sender c : Addr) (msg : ContractMsg) (funds : List Coin) (k : Option Nat)
        (hext : C01Sys.External (.exec sender c msg funds))
        (hplain : LpPlain (step w (.exec sender c msg funds) k)) (h : LpInv w)
        (p : PoolInfo) (hp : p ∈ w.pm.pools) :
        (step w (.exec sender c msg funds) k).bank.bal PM p.lpDenom = w.bank.bal PM p.lpDenom ∨
        (w.bank.supply p.lpDenom = 0 ∧ ∃ m, minLiqOf p = some m ∧
          (step w (.exec sender c msg funds) k).bank.bal PM p.lpDenom = w.bank.bal PM p.lpDenom + m)

   A contract call can hand LP tokens to the pool manager in three further ways, all of them "donations" made through
   a contract instead of a plain bank send; each refutes the statement (`LpInv` and `LpPlain` hold in all of them):

   1. the depositor names the pool manager as LP receiver: `ProvideLiquidity { receiver: Some(PM), .. }` with two
      assets into a funded pool, `validAddr PM = true`: the handler mints the shares to `PM`
      (`tfMint ⟨lp, shares⟩ PM`), so `bal PM lp` grows by `shares` although `supply lp ≠ 0`.  The same happens in a
      single-asset deposit without receiver when the sender is not a valid address but the pool manager is: the reply
      re-validates the recorded receiver, falls back to its own sender, the pool manager (reproduced with `#eval` in
      `Properties/C14Eq.lean`, corner 2: `ok (false, 1005000, 499, 0)`, 499 LP on `PM`);
   2. the pool manager is its own fee collector (`pm.config.feeCollector = PM`) and the pool creation fee is charged
      in the LP denom of an existing pool: `CreatePool` with exactly that fee attached forwards the fee to the pool
      manager itself, its LP balance grows by the fee (the fee may be any denom, `LpPlain` only restricts the
      token-factory fee);
   3. the farm manager pays LP tokens to the pool manager: `fm.config.feeCollector = PM` (emergency-withdrawal
      penalty in the position's LP denom, or a farm-creation fee charged in an LP denom), or a stored farm is owned by
      `PM` (its share of an emergency penalty, or the refund of an LP-denominated reward when the farm is closed).

   1 and 2 were reproduced with `#eval` through `runTx` on `C14Eq.cxWorld` (pool `p`, reserves 10^6/10^6, LP supply
   10^6, `PM` holding 0 LP, `alice` holding x, y and 1000 LP); printed is (LP supply, LP of `PM`, LP of `alice`):
     before                                                                               ok (1000000, 0, 1000)
     1. `ProvideLiquidity { receiver: Some(PM) }` with `[500 x, 500 y]` by `alice`        ok (1000500, 500, 1000)
     2. `pm.config = ⟨PM, FM, 7 LP⟩`, `tfFees = [1 x]`, `CreatePool` with `[7 LP, 1 x]`   ok (1000000, 7, 993)

   The repaired statement excludes exactly these: `hrecv` (the LP receiver of a deposit — the named receiver if valid,
   else the sender — is a valid address other than the pool manager), `hfc` (the pool manager is not its own fee
   collector) and `hfm` (for calls of the farm manager: neither its fee collector nor the owner of a stored farm is the
   pool manager).  Nothing else was added; the conclusion is unchanged. -/

/-- a call addressed to the world `w0` (the pre-state with the fault counter reset) -/
theorem balance0 {w0 w' : World} {sender c : Addr} {msg : ContractMsg} {funds : List Coin}
    (hext : C01Sys.External (.exec sender c msg funds)) (hc0 : Covers w0.bank) (hok : C16Sys.LpOk w0.pm)
    (hbuf : w0.pm.buffer = none) (hr : execMsg FUEL w0 sender (.wasmExec c msg funds) = .ok w')
    (hfc : w0.pm.config.feeCollector ≠ PM)
    (hrecv : ∀ ls ss rc pid u l, msg = .pm (.provideLiquidity ls ss rc pid u l) →
      addrOrDefault w0.pmEnv rc sender ≠ PM ∧ w0.validAddr (addrOrDefault w0.pmEnv rc sender) = true)
    (hfm : ∀ m, msg = .fm m → w0.fm.config.feeCollector ≠ PM ∧ ∀ f ∈ w0.fm.farms, f.owner ≠ PM)
    (p : PoolInfo) (hp : p ∈ w0.pm.pools) (hpl : PlainD p.lpDenom w0) :
    w'.bank.bal PM p.lpDenom = w0.bank.bal PM p.lpDenom ∨
    (w0.bank.supply p.lpDenom = 0 ∧ ∃ m, minLiq p = some m ∧
      w'.bank.bal PM p.lpDenom = w0.bank.bal PM p.lpDenom + m) := by
  obtain ⟨hsc, hfunds⟩ := hext
  have hs := not_contract_ne_pm hsc
  cases msg with
  | pm m =>
    obtain ⟨txd, -⟩ := LpSys.tx_pm_d (d := p.lpDenom) hs hfunds hc0 hok hbuf hpl hr
    rcases txd.exact hfc (fun ls ss rc pid u l e => hrecv ls ss rc pid u l (by rw [e])) with h1 | ⟨h0, h1⟩
    · exact Or.inl h1
    · exact Or.inr ⟨h0, h1 p hp rfl⟩
  | fm m =>
    obtain ⟨-, w1, w2, resp, hce, hfmeq, hbal⟩ :=
      LpSys.foreign_call (n := 63) (msg := .fm m) hs (by intro pm e; cases e) hc0 hr
    left
    apply hbal
    simp only [callExecute] at hce
    split at hce
    · cases hce
    · obtain ⟨⟨s, r⟩, hfe, hce⟩ := bind_ok.mp hce
      simp only [pure_ok, Prod.mk.injEq] at hce
      obtain ⟨-, rfl⟩ := hce
      obtain ⟨h1, h2⟩ := hfm m rfl
      rw [hfmeq] at hfe
      exact LpSys.fmExecute_to hs h1 h2 hfe
  | em m =>
    obtain ⟨-, w1, w2, resp, hce, -, hbal⟩ :=
      LpSys.foreign_call (n := 63) (msg := .em m) hs (by intro pm e; cases e) hc0 hr
    left
    apply hbal
    simp only [callExecute] at hce
    split at hce
    · cases hce
    · obtain ⟨s, -, hce⟩ := bind_ok.mp hce
      simp only [pure_ok, Prod.mk.injEq] at hce
      obtain ⟨-, rfl⟩ := hce
      intro sm hsm; cases hsm
  | fc m =>
    obtain ⟨-, w1, w2, resp, hce, -, hbal⟩ :=
      LpSys.foreign_call (n := 63) (msg := .fc m) hs (by intro pm e; cases e) hc0 hr
    left
    apply hbal
    cases m with
    | updateOwnership a =>
      simp only [callExecute] at hce
      split at hce
      · cases hce
      · obtain ⟨_, _, hce⟩ := bind_ok.mp hce
        obtain ⟨o, -, hce⟩ := bind_ok.mp hce
        simp only [pure_ok, Prod.mk.injEq] at hce
        obtain ⟨-, rfl⟩ := hce
        intro sm hsm; cases hsm

/-- the only LP tokens the pool manager holds are the locked minimum (plus donations): a contract call that does
    not name the pool manager as a recipient (see the comment above) changes its balance of a pool's LP token only
    by minting the locked minimum at the first deposit -/
theorem pm_lp_balance_step_partial (w : World) (sender c : Addr) (msg : ContractMsg) (funds : List Coin)
    (k : Option Nat) (hext : C01Sys.External (.exec sender c msg funds))
    (hplain : LpPlain (step w (.exec sender c msg funds) k)) (h : LpInv w)
    (p : PoolInfo) (hp : p ∈ w.pm.pools)
    (hfc : w.pm.config.feeCollector ≠ PM)
    (hrecv : ∀ ls ss rc pid u l, msg = .pm (.provideLiquidity ls ss rc pid u l) →
      addrOrDefault w.pmEnv rc sender ≠ PM ∧ w.validAddr (addrOrDefault w.pmEnv rc sender) = true)
    (hfm : ∀ m, msg = .fm m → w.fm.config.feeCollector ≠ PM ∧ ∀ f ∈ w.fm.farms, f.owner ≠ PM) :
    (step w (.exec sender c msg funds) k).bank.bal PM p.lpDenom = w.bank.bal PM p.lpDenom ∨
    (w.bank.supply p.lpDenom = 0 ∧ ∃ m, minLiqOf p = some m ∧
      (step w (.exec sender c msg funds) k).bank.bal PM p.lpDenom = w.bank.bal PM p.lpDenom + m) := by
  have hkept := (C16Sys.pools_static_step w (.exec sender c msg funds) k h.ids).1
  cases hr : runTx w (.exec sender c msg funds) k with
  | error e =>
    have hst : step w (.exec sender c msg funds) k = w := by unfold step; rw [hr]
    rw [hst]
    exact Or.inl rfl
  | ok w' =>
    have hst : step w (.exec sender c msg funds) k = w' := by unfold step; rw [hr]
    rw [hst] at hplain hkept ⊢
    have hc : Covers w.bank := (covers_iff _).1 h.supplyCovers
    have cm := committed hext h hr
    obtain ⟨p', hp', hs⟩ := hkept p hp
    have hpl : PlainD p.lpDenom w := by
      rw [hs.2.2.2.2.2]
      exact plain_back hplain hkept h.aligned cm.tf hp'
    simp only [runTx] at hr
    have := balance0 (w0 := { w with bank := { w.bank with calls := 0, failAt := k } }) hext hc
      ⟨h.ids, h.lpDerived⟩ h.noBuffer hr hfc hrecv hfm p hp hpl
    exact this

end MantraDex.C02Sys
