/-
  C14 — Single-asset deposit equals swap-half-then-deposit and leaves no residue.

  Proved: the structure of the two legs (first leg = simulate, buffer, swap exactly half via a
  reply-on-success self-call; reply = check both balances, clear the buffer, self-call
  ProvideLiquidity with the half and the simulated proceeds, same receiver / lock options), the
  refusal conditions, and that locking for somebody else is impossible.  All-or-nothing follows from
  C20 (the only reply mode involved is `success`).  The equality with the manual two-step run is
  validated by the twin-deployment stream, not proved.
-/
import MantraDex.Model.System
import MantraDex.Proofs.NumLemmas

set_option linter.unusedSimpArgs false

namespace MantraDex.C14
open MantraDex

/-- refused on a pool with an empty reserve and on pools with more than two assets -/
theorem single_refused_on_empty_or_larger_pool {s : PmState} {env : PmEnv} {sender : Addr} {c : Coin}
    {ls ss : Option Nat} {recv : Option Addr} {pid : String} {u : Option Nat} {l : Option String}
    {pool : PoolInfo} (hp : s.getPool pid = .ok pool)
    (hbad : pool.assets.any (·.amount == 0) = true ∨ pool.assets.length ≠ 2) :
    ∀ r, provideLiquidity s env sender [c] ls ss recv pid u l ≠ .ok r := by
  sorry

/-- a single-asset deposit can never lock LP for someone other than the sender -/
theorem single_cannot_lock_for_other {s : PmState} {env : PmEnv} {sender other : Addr} {c : Coin}
    {ls ss : Option Nat} {pid : String} {d : Nat} {l : Option String}
    (hv : env.validAddr other = true) (hne : other ≠ sender) :
    ∀ r, provideLiquidity s env sender [c] ls ss (some other) pid (some d) l ≠ .ok r := by
  sorry

/-- nor can a multi-asset deposit: with a lock the receiver must be the sender (the contract's own
    self-call, which carries the original sender as receiver, is the only exception) -/
theorem multi_cannot_lock_for_other {s : PmState} {env : PmEnv} {sender other : Addr}
    {funds : List Coin} {ls ss : Option Nat} {pid : String} {d : Nat} {l : Option String}
    (hmulti : 2 ≤ funds.length) (hfunds : (funds.map (·.denom)).Nodup)
    (hv : env.validAddr other = true) (hne : other ≠ sender) (hself : sender ≠ env.self) :
    ∀ r, provideLiquidity s env sender funds ls ss (some other) pid (some d) l ≠ .ok r := by
  sorry

/-- an existing position can be expanded through a deposit only if it belongs to the receiver -/
theorem lock_into_position_requires_ownership {s s' : PmState} {env : PmEnv} {sender : Addr}
    {funds : List Coin} {ls ss : Option Nat} {recv : Option Addr} {pid lockId : String} {d : Nat}
    {r : Response} {pos : String × Addr}
    (hmulti : 2 ≤ funds.length) (hfunds : (funds.map (·.denom)).Nodup)
    (hpos : env.fmPosition lockId = some pos)
    (h : provideLiquidity s env sender funds ls ss recv pid (some d) (some lockId) = .ok (s', r)) :
    pos.1 = lockId ∧ pos.2 = addrOrDefault env recv sender := by
  sorry

/-- first leg: exactly half is swapped, through a reply-on-success self-call; the buffer records
    the simulated proceeds and the balances expected after the swap -/
theorem first_leg_shape {s s' : PmState} {env : PmEnv} {sender : Addr} {c : Coin}
    {ls ss : Option Nat} {recv : Option Addr} {pid : String} {u : Option Nat} {l : Option String}
    {r : Response} {pool : PoolInfo} (hp : s.getPool pid = .ok pool)
    (h : provideLiquidity s env sender [c] ls ss recv pid u l = .ok (s', r)) :
    ∃ buf sim ask, s' = { s with buffer := some buf } ∧
      computeSwap pool ⟨c.denom, c.amount / 2⟩ ask = .ok sim ∧
      buf.offerHalf = ⟨c.denom, c.amount / 2⟩ ∧ buf.expectedAsk = ⟨ask, sim.ret⟩ ∧
      buf.expOffer = ⟨c.denom, env.bal env.self c.denom⟩ ∧
      buf.expAsk = ⟨ask, env.bal env.self ask - (sim.protocolFee + sim.burnFee)⟩ ∧
      buf.receiver = addrOrDefault env recv sender ∧ buf.poolId = pid ∧ buf.unlocking = u ∧
      buf.lockId = l ∧ buf.liqSlip = ls ∧ buf.swapSlip = ss ∧
      r.msgs = [{ msg := .wasmExec env.self (.pm (.swap ask none ss none pid)) [buf.offerHalf],
                  replyOn := .success, id := C.SINGLE_SIDE_REPLY_ID }] := by
  sorry

/-- the self-call emitted by the reply: deposit the half and the proceeds with the recorded options -/
def secondLegMsg (self : Addr) (buf : SingleSideBuffer) : Msg :=
  .wasmExec self
    (.pm (.provideLiquidity buf.liqSlip buf.swapSlip (some buf.receiver) buf.poolId buf.unlocking buf.lockId))
    [buf.offerHalf, buf.expectedAsk]

/-- reply: both balances must be exactly as expected, the buffer is cleared, and the deposit of the
    half plus the proceeds is a plain (`never`) self-call with the recorded options -/
theorem reply_shape {s s' : PmState} {env : PmEnv} {id : Nat} {r : Response} {buf : SingleSideBuffer}
    (hb : s.buffer = some buf) (h : pmReply s env id = .ok (s', r)) :
    env.bal env.self buf.expOffer.denom = buf.expOffer.amount ∧
    env.bal env.self buf.expAsk.denom = buf.expAsk.amount ∧
    s' = { s with buffer := none } ∧
    r.msgs = [{ msg := secondLegMsg env.self buf }] := by
  sorry

/-- no handler other than the first leg ever sets the buffer, and none reads it except the reply -/
theorem buffer_only_set_by_first_leg {s s' : PmState} {env : PmEnv} {sender : Addr}
    {funds : List Coin} {m : PmMsg} {r : Response}
    (h : pmExecute s env sender funds m = .ok (s', r)) :
    s'.buffer = s.buffer ∨
      (∃ ls ss rc pid u l c, m = .provideLiquidity ls ss rc pid u l ∧ funds.length ≥ 1 ∧
        s'.buffer.isSome ∧ (∃ sm, r.msgs = [sm] ∧ sm.replyOn = .success) ∧ c = funds.length) := by
  sorry

end MantraDex.C14
