/-
  C14 — Single-asset deposit equals swap-half-then-deposit and leaves no residue.

  Proved: the structure of the two legs (first leg = simulate, buffer, swap exactly half via a
  reply-on-success self-call; reply = check both balances, clear the buffer, self-call
  ProvideLiquidity with the half and the simulated proceeds, same receiver / lock options), the
  refusal conditions, and that locking for somebody else is impossible.  All-or-nothing follows from
  C20 (the only reply mode involved is `success`).  The equality with the manual two-step run is
  validated by the twin-deployment stream, not proved.
-/
import MantraDex.Model.System
import MantraDex.Proofs.NumLemmas
import MantraDex.Proofs.ProvideLemmas
import MantraDex.Proofs.HandlerLemmas
import MantraDex.Properties.C04

set_option linter.unusedSimpArgs false

namespace MantraDex.C14
open MantraDex

/-- refused on a pool with an empty reserve and on pools with more than two assets -/
theorem single_refused_on_empty_or_larger_pool {s : PmState} {env : PmEnv} {sender : Addr} {c : Coin}
    {ls ss : Option Nat} {recv : Option Addr} {pid : String} {u : Option Nat} {l : Option String}
    {pool : PoolInfo} (hp : s.getPool pid = .ok pool)
    (hbad : pool.assets.any (·.amount == 0) = true ∨ pool.assets.length ≠ 2) :
    ∀ r, provideLiquidity s env sender [c] ls ss recv pid u l ≠ .ok r := by
  intro r h
  obtain ⟨s', r⟩ := r
  obtain ⟨pool', ask, sim, hp', -, hz, hl, -⟩ := pl_single (agg_single c) h
  rw [hp] at hp'
  cases hp'
  rcases hbad with hb | hb
  · rw [hz] at hb; cases hb
  · exact hb hl

/-- a single-asset deposit can never lock LP for someone other than the sender -/
theorem single_cannot_lock_for_other {s : PmState} {env : PmEnv} {sender other : Addr} {c : Coin}
    {ls ss : Option Nat} {pid : String} {d : Nat} {l : Option String}
    (hv : env.validAddr other = true) (hne : other ≠ sender) :
    ∀ r, provideLiquidity s env sender [c] ls ss (some other) pid (some d) l ≠ .ok r := by
  intro r h
  obtain ⟨s', r⟩ := r
  obtain ⟨pool', ask, sim, -, hu, -⟩ := pl_single (agg_single c) h
  simp only [addrOrDefault, hv, if_true, Option.isSome_some, Bool.true_and, bne_eq_false_iff_eq] at hu
  exact hne hu

/-- nor can a multi-asset deposit: with a lock the receiver must be the sender (the contract's own
    self-call, which carries the original sender as receiver, is the only exception) -/
theorem multi_cannot_lock_for_other {s : PmState} {env : PmEnv} {sender other : Addr}
    {funds : List Coin} {ls ss : Option Nat} {pid : String} {d : Nat} {l : Option String}
    (hmulti : 2 ≤ funds.length) (hfunds : (funds.map (·.denom)).Nodup)
    (hv : env.validAddr other = true) (hne : other ≠ sender) (hself : sender ≠ env.self) :
    ∀ r, provideLiquidity s env sender funds ls ss (some other) pid (some d) l ≠ .ok r := by
  intro r h
  obtain ⟨s', r⟩ := r
  obtain ⟨deps, hagg, -⟩ := pl_agg h
  have hlen : deps.length ≠ 1 := by rw [aggregateCoins_length hfunds hagg]; omega
  obtain ⟨pool, sh, m0, -, -, ht⟩ := pl_multi hagg hlen h
  obtain ⟨_, _, -, -, -, -, hauth, -⟩ := plTail_ok ht
  have := hauth rfl
  simp only [addrOrDefault, hv, if_true, Bool.or_eq_true, beq_iff_eq] at this
  rcases this with h | h
  · exact hne h
  · exact hself h

/-- an existing position can be expanded through a deposit only if it belongs to the receiver -/
theorem lock_into_position_requires_ownership {s s' : PmState} {env : PmEnv} {sender : Addr}
    {funds : List Coin} {ls ss : Option Nat} {recv : Option Addr} {pid lockId : String} {d : Nat}
    {r : Response} {pos : String × Addr}
    (hmulti : 2 ≤ funds.length) (hfunds : (funds.map (·.denom)).Nodup)
    (hpos : env.fmPosition lockId = some pos)
    (h : provideLiquidity s env sender funds ls ss recv pid (some d) (some lockId) = .ok (s', r)) :
    pos.1 = lockId ∧ pos.2 = addrOrDefault env recv sender := by
  obtain ⟨deps, hagg, -⟩ := pl_agg h
  have hlen : deps.length ≠ 1 := by rw [aggregateCoins_length hfunds hagg]; omega
  obtain ⟨pool, sh, m0, -, -, ht⟩ := pl_multi hagg hlen h
  obtain ⟨_, _, -, -, -, -, -, hown⟩ := plTail_ok ht
  exact hown lockId pos rfl rfl hpos

/-- first leg: exactly half is swapped, through a reply-on-success self-call; the buffer records
    the simulated proceeds and the balances expected after the swap -/
theorem first_leg_shape {s s' : PmState} {env : PmEnv} {sender : Addr} {c : Coin}
    {ls ss : Option Nat} {recv : Option Addr} {pid : String} {u : Option Nat} {l : Option String}
    {r : Response} {pool : PoolInfo} (hp : s.getPool pid = .ok pool)
    (h : provideLiquidity s env sender [c] ls ss recv pid u l = .ok (s', r)) :
    ∃ buf sim ask, s' = { s with buffer := some buf } ∧
      computeSwap pool ⟨c.denom, c.amount / 2⟩ ask = .ok sim ∧
      buf.offerHalf = ⟨c.denom, c.amount / 2⟩ ∧ buf.expectedAsk = ⟨ask, sim.ret⟩ ∧
      buf.expOffer = ⟨c.denom, env.bal env.self c.denom⟩ ∧
      buf.expAsk = ⟨ask, env.bal env.self ask - (sim.protocolFee + sim.burnFee)⟩ ∧
      buf.receiver = addrOrDefault env recv sender ∧ buf.poolId = pid ∧ buf.unlocking = u ∧
      buf.lockId = l ∧ buf.liqSlip = ls ∧ buf.swapSlip = ss ∧
      r.msgs = [{ msg := .wasmExec env.self (.pm (.swap ask none ss none pid)) [buf.offerHalf],
                  replyOn := .success, id := C.SINGLE_SIDE_REPLY_ID }] := by
  obtain ⟨pool', ask, sim, hp', -, -, -, hsim, hs, hr⟩ := pl_single (agg_single c) h
  rw [hp] at hp'
  cases hp'
  exact ⟨_, sim, ask, hs, hsim, rfl, rfl, rfl, rfl, rfl, rfl, rfl, rfl, rfl, rfl, hr⟩

/-- the self-call emitted by the reply: deposit the half and the proceeds with the recorded options -/
def secondLegMsg (self : Addr) (buf : SingleSideBuffer) : Msg :=
  .wasmExec self
    (.pm (.provideLiquidity buf.liqSlip buf.swapSlip (some buf.receiver) buf.poolId buf.unlocking buf.lockId))
    [buf.offerHalf, buf.expectedAsk]

/-- reply: both balances must be exactly as expected, the buffer is cleared, and the deposit of the
    half plus the proceeds is a plain (`never`) self-call with the recorded options -/
theorem reply_shape {s s' : PmState} {env : PmEnv} {id : Nat} {r : Response} {buf : SingleSideBuffer}
    (hb : s.buffer = some buf) (h : pmReply s env id = .ok (s', r)) :
    env.bal env.self buf.expOffer.denom = buf.expOffer.amount ∧
    env.bal env.self buf.expAsk.denom = buf.expAsk.amount ∧
    s' = { s with buffer := none } ∧
    r.msgs = [{ msg := secondLegMsg env.self buf }] := by
  unfold pmReply at h
  split at h
  · rw [hb] at h
    simp only [] at h
    split at h
    · cases h
    · split at h
      · cases h
      · simp only [Except.ok.injEq, Prod.mk.injEq] at h
        obtain ⟨rfl, rfl⟩ := h
        rename_i h1 h2
        exact ⟨by simpa using h1, by simpa using h2, rfl, rfl⟩
  · cases h

/-- no handler other than the first leg ever sets the buffer, and none reads it except the reply -/
theorem buffer_only_set_by_first_leg {s s' : PmState} {env : PmEnv} {sender : Addr}
    {funds : List Coin} {m : PmMsg} {r : Response}
    (h : pmExecute s env sender funds m = .ok (s', r)) :
    s'.buffer = s.buffer ∨
      (∃ ls ss rc pid u l c, m = .provideLiquidity ls ss rc pid u l ∧ funds.length ≥ 1 ∧
        s'.buffer.isSome ∧ (∃ sm, r.msgs = [sm] ∧ sm.replyOn = .success) ∧ c = funds.length) := by
  cases m with
  | createPool denoms decimals fees ptype id =>
    left
    obtain ⟨_, _, _, _, -, -, -, -, rfl, -⟩ := createPool_ok h
    exact savePool_buffer _ _
  | provideLiquidity ls ss rc pid u l =>
    have h : provideLiquidity s env sender funds ls ss rc pid u l = .ok (s', r) := h
    obtain ⟨deps, hagg, hne⟩ := pl_agg h
    by_cases hlen : deps.length = 1
    · right
      obtain ⟨c, rfl⟩ : ∃ c, deps = [c] := by
        match deps, hlen with
        | [c], _ => exact ⟨c, rfl⟩
      obtain ⟨pool', ask, sim, -, -, -, -, -, hs, hr⟩ := pl_single hagg h
      refine ⟨ls, ss, rc, pid, u, l, funds.length, rfl, ?_, ?_, ⟨_, hr, rfl⟩, rfl⟩
      · cases funds with
        | nil => rw [aggregateCoins_nil] at hagg; cases hagg
        | cons => simp
      · rw [hs]; rfl
    · left
      obtain ⟨pool, sh, m0, -, -, ht⟩ := pl_multi hagg hlen h
      obtain ⟨_, _, -, rfl, -⟩ := plTail_ok ht
      exact savePool_buffer _ _
  | swap ask b ms rc pid =>
    left
    obtain ⟨offer, r', -, hps, -⟩ := C04.swapHandler_messages h
    exact performSwap_buffer hps
  | withdrawLiquidity pid =>
    left
    obtain ⟨_, _, _, _, -, -, -, rfl, -⟩ := withdraw_ok h
    exact savePool_buffer _ _
  | execSwapOps ops mr rc ms =>
    left
    obtain ⟨_, _, _, _, _, -, -, -, hroute, -⟩ := execSwapOps_ok h
    exact routeHops_buffer hroute
  | updateConfig fc fm cf t =>
    left
    exact (pmExecute_config_ok (Or.inl ⟨fc, fm, cf, t, rfl⟩) h).2.2.1
  | updateOwnership a =>
    left
    exact (pmExecute_config_ok (Or.inr ⟨a, rfl⟩) h).2.2.1

end MantraDex.C14
