/-
  C17 — Per-pool feature switches stop exactly the switched operation on every path.
-/
import MantraDex.Model.System
import MantraDex.Proofs.NumLemmas
import MantraDex.Proofs.Post

set_option linter.unusedSimpArgs false
set_option linter.tactic.unusedName false

namespace MantraDex.C17
open MantraDex

/-! ### helpers: `getPool` after `savePool` -/

theorem find_insert_self (p : PoolInfo) (l : List PoolInfo) (h : l.any (·.id == p.id) = false) :
    (insertPoolSorted p l).find? (·.id == p.id) = some p := by
  induction l with
  | nil => simp [insertPoolSorted]
  | cons x xs ih =>
    simp only [List.any_cons, Bool.or_eq_false_iff] at h
    unfold insertPoolSorted
    split
    · simp
    · simp [h.1, ih h.2]

theorem find_replace_self (p : PoolInfo) (l : List PoolInfo) (h : l.any (·.id == p.id) = true) :
    (l.map fun q => if q.id == p.id then p else q).find? (·.id == p.id) = some p := by
  induction l with
  | nil => simp at h
  | cons x xs ih =>
    simp only [List.any_cons, Bool.or_eq_true] at h
    rw [List.map_cons, List.find?_cons]
    by_cases hx : (x.id == p.id) = true
    · have hpp : (p.id == p.id) = true := by simp
      simp only [hx, if_true, hpp]
    · simp only [Bool.not_eq_true] at hx
      simp only [hx, Bool.false_eq_true, false_or] at h
      simp only [hx, Bool.false_eq_true, if_false]
      exact ih h

theorem find_insert_ne (p : PoolInfo) (l : List PoolInfo) (qid : String) (h : qid ≠ p.id) :
    (insertPoolSorted p l).find? (·.id == qid) = l.find? (·.id == qid) := by
  have hp : (p.id == qid) = false := by simp [Ne.symm h]
  induction l with
  | nil => simp [insertPoolSorted, hp]
  | cons x xs ih =>
    unfold insertPoolSorted
    split
    · simp [hp]
    · simp [List.find?_cons, ih]

theorem find_replace_ne (p : PoolInfo) (l : List PoolInfo) (qid : String) (h : qid ≠ p.id) :
    (l.map fun q => if q.id == p.id then p else q).find? (·.id == qid) = l.find? (·.id == qid) := by
  have hp : (p.id == qid) = false := by simp [Ne.symm h]
  induction l with
  | nil => rfl
  | cons x xs ih =>
    rw [List.map_cons, List.find?_cons, List.find?_cons]
    by_cases hx : (x.id == p.id) = true
    · have hx' : x.id = p.id := by simpa using hx
      have hxq : (x.id == qid) = false := by rw [hx']; exact hp
      simp only [hx, if_true, hp, hxq]
      exact ih
    · simp only [Bool.not_eq_true] at hx
      simp only [hx, Bool.false_eq_true, if_false]
      rw [ih]

theorem getPool_savePool_self (s : PmState) (p : PoolInfo) : (s.savePool p).getPool p.id = .ok p := by
  unfold PmState.savePool PmState.getPool
  by_cases h : (s.pools.any (·.id == p.id)) = true
  · rw [if_pos h]
    simp only [find_replace_self p s.pools h]
  · rw [if_neg h]
    simp only [Bool.not_eq_true] at h
    simp only [find_insert_self p s.pools h]

theorem getPool_savePool_ne (s : PmState) (p : PoolInfo) (qid : String) (h : qid ≠ p.id) :
    (s.savePool p).getPool qid = s.getPool qid := by
  unfold PmState.savePool PmState.getPool
  by_cases hc : (s.pools.any (·.id == p.id)) = true
  · rw [if_pos hc]
    simp only [find_replace_ne p s.pools qid h]
  · rw [if_neg hc]
    simp only [find_insert_ne p s.pools qid h]

theorem getPool_id {s : PmState} {pid : String} {p : PoolInfo} (h : s.getPool pid = .ok p) : p.id = pid := by
  unfold PmState.getPool at h
  split at h
  next q hq =>
    cases h
    have := List.find?_some hq
    simpa using this
  next => cases h

theorem getPool_mem {s : PmState} {pid : String} {p : PoolInfo} (h : s.getPool pid = .ok p) : p ∈ s.pools := by
  unfold PmState.getPool at h
  split at h
  next q hq => cases h; exact List.mem_of_find?_eq_some hq
  next => cases h

theorem getPool_congr {s1 s2 : PmState} (h : s1.pools = s2.pools) (pid : String) :
    s1.getPool pid = s2.getPool pid := by
  unfold PmState.getPool; rw [h]

/-! ### helpers: stepping through `do` blocks -/

theorem ok_bind {α β : Type} (a : α) (f : α → R β) : (Except.ok a >>= f) = f a := rfl

theorem jp_unit_err {α : Type} {c : Prop} [Decidable c] {e : Err} {f : Unit → R α} (hc : c) :
    (if c then (Except.error e >>= f) else f ()) = .error e := by
  rw [if_pos hc]; rfl

/-! ### the properties -/

/-- a direct swap on a pool whose swaps are disabled is rejected -/
theorem swap_disabled_direct {s : PmState} {env : PmEnv} {sender : Addr} {funds : List Coin}
    {ask : Denom} {b ms : Option Nat} {recv : Option Addr} {pid : String} {pool : PoolInfo}
    (hp : s.getPool pid = .ok pool) (hoff : pool.status.swaps = false) :
    swapHandler s env sender funds ask b ms recv pid = .error .disabled := by
  unfold swapHandler
  rw [hp, ok_bind]
  apply jp_unit_err
  simp [hoff]

theorem performSwap_save {s s' : PmState} {offer : Coin} {ask : Denom} {pid : String}
    {b ms : Option Nat} {r : SwapResult} (h : performSwap s offer ask pid b ms = .ok (s', r)) :
    ∃ pool pool', s.getPool pid = .ok pool ∧ pool'.id = pool.id ∧ pool'.status = pool.status ∧
      s' = s.savePool pool' := by
  have : Post (fun y : PmState × SwapResult => ∃ pool pool', s.getPool pid = .ok pool ∧
      pool'.id = pool.id ∧ pool'.status = pool.status ∧ y.1 = s.savePool pool')
      (performSwap s offer ask pid b ms) := by
    unfold performSwap
    apply post_bind; intro pool hp
    repeat' pstep
    apply post_pure
    refine ⟨_, _, hp, ?_, ?_, rfl⟩ <;> rfl
  exact this.out _ h

/-- `perform_swap` never changes any pool's switches -/
theorem performSwap_status {s s' : PmState} {offer : Coin} {ask : Denom} {pid qid : String}
    {b ms : Option Nat} {r : SwapResult} {q : PoolInfo}
    (h : performSwap s offer ask pid b ms = .ok (s', r)) (hq : s.getPool qid = .ok q) :
    ∃ q', s'.getPool qid = .ok q' ∧ q'.status = q.status := by
  obtain ⟨pool, pool', hp, hid, hst, rfl⟩ := performSwap_save h
  by_cases hqp : qid = pool'.id
  · subst hqp
    refine ⟨pool', getPool_savePool_self _ _, ?_⟩
    have : pool.id = pid := getPool_id hp
    rw [hid, this] at hq
    rw [hp] at hq
    cases hq
    exact hst
  · exact ⟨q, by rw [getPool_savePool_ne _ _ _ hqp]; exact hq, rfl⟩

/-- backwards: a pool visible after the swap was there before, with the same switches -/
theorem performSwap_status_back {s s' : PmState} {offer : Coin} {ask : Denom} {pid qid : String}
    {b ms : Option Nat} {r : SwapResult} {q' : PoolInfo}
    (h : performSwap s offer ask pid b ms = .ok (s', r)) (hq : s'.getPool qid = .ok q') :
    ∃ q, s.getPool qid = .ok q ∧ q.status = q'.status := by
  obtain ⟨pool, pool', hp, hid, hst, rfl⟩ := performSwap_save h
  by_cases hqp : qid = pool'.id
  · subst hqp
    rw [getPool_savePool_self] at hq
    cases hq
    have : pool.id = pid := getPool_id hp
    exact ⟨pool, by rw [hid, this]; exact hp, hst.symm⟩
  · rw [getPool_savePool_ne _ _ _ hqp] at hq
    exact ⟨q', hq, rfl⟩

/-- a routed swap that succeeds passed only through pools whose swaps are enabled: any route
    containing a disabled pool is rejected as a whole -/
theorem route_requires_enabled {ms : Option Nat} :
    ∀ (ops : List SwapOp) (s s' : PmState) (prev out : Coin) (fees fees' : List Msg),
      routeHops s ms ops prev fees = .ok (s', out, fees') →
      ∀ op ∈ ops, ∃ pool, s.getPool op.poolId = .ok pool ∧ pool.status.swaps = true := by
  intro ops
  induction ops with
  | nil => intro s s' prev out fees fees' _ op hop; cases hop
  | cons o ops ih =>
    intro s s' prev out fees fees' h
    have hP : Post (fun _ => ∀ op ∈ o :: ops, ∃ pool, s.getPool op.poolId = .ok pool ∧ pool.status.swaps = true)
        (routeHops s ms (o :: ops) prev fees) := by
      unfold routeHops
      apply post_bind; intro pool hp
      apply post_jp_unit; intro hsw
      apply post_bind; intro x hx
      obtain ⟨s1, r⟩ := x
      refine ⟨fun y hy => ?_⟩
      obtain ⟨s2, out2, fees2⟩ := y
      have ih' := ih _ _ _ _ _ _ hy
      intro op hop
      rcases List.mem_cons.1 hop with rfl | hop
      · exact ⟨pool, hp, by simpa using hsw⟩
      · obtain ⟨p1, hp1, hs1⟩ := ih' op hop
        obtain ⟨p0, hp0, hs0⟩ := performSwap_status_back hx hp1
        exact ⟨p0, hp0, by rw [hs0]; exact hs1⟩
    exact hP.out _ h

/-- deposits disabled: every deposit shape (multi-asset, single-asset, locked) is rejected -/
theorem deposit_disabled {s : PmState} {env : PmEnv} {sender : Addr} {funds : List Coin}
    {ls ss : Option Nat} {recv : Option Addr} {pid : String} {u : Option Nat} {l : Option String}
    {pool : PoolInfo} (hp : s.getPool pid = .ok pool) (hoff : pool.status.deposits = false) :
    provideLiquidity s env sender funds ls ss recv pid u l = .error .disabled := by
  unfold provideLiquidity
  rw [hp, ok_bind]
  apply jp_unit_err
  simp [hoff]

/-- withdrawals disabled -/
theorem withdraw_disabled {s : PmState} {env : PmEnv} {sender : Addr} {funds : List Coin}
    {pid : String} {pool : PoolInfo} (hp : s.getPool pid = .ok pool)
    (hoff : pool.status.withdrawals = false) :
    withdrawLiquidity s env sender funds pid = .error .disabled := by
  unfold withdrawLiquidity
  rw [hp, ok_bind]
  apply jp_unit_err
  simp [hoff]

theorem provide_single_shape {s s2 : PmState} {env : PmEnv} {sender : Addr} {c : Coin}
    {ls ss : Option Nat} {recv : Option Addr} {pid : String} {u : Option Nat} {l : Option String}
    {r : Response}
    (h : provideLiquidity s env sender [c] ls ss recv pid u l = .ok (s2, r)) :
    s2.pools = s.pools ∧ ∃ ask half, r.msgs =
      [{ msg := .wasmExec env.self (.pm (.swap ask none ss none pid)) [half], replyOn := .success,
         id := C.SINGLE_SIDE_REPLY_ID }] := by
  have hP : Post (fun y : PmState × Response => y.1.pools = s.pools ∧ ∃ ask half, y.2.msgs =
      [{ msg := .wasmExec env.self (.pm (.swap ask none ss none pid)) [half], replyOn := .success,
         id := C.SINGLE_SIDE_REPLY_ID }])
      (provideLiquidity s env sender [c] ls ss recv pid u l) := by
    unfold provideLiquidity
    apply post_bind; intro pool hp
    apply post_jp_unit; intro _; dsimp -zeta only
    pstep
    apply post_bind; intro deps hd
    have : deps = [c] := by
      have : aggregateCoins [c] = .ok [c] := rfl
      rw [this] at hd; cases hd; rfl
    subst this
    apply post_jp_unit; intro _; dsimp -zeta only
    apply post_jp_unit; intro _; dsimp -zeta only
    pstep
    apply post_ite
    · intro _
      repeat' pstep
      apply post_pure
      exact ⟨rfl, _, _, rfl⟩
    · intro hne; exact absurd rfl hne
  exact hP.out _ h

theorem execMsg_wasm_ok {fuel : Nat} {w w' : World} {sender c : Addr} {msg : ContractMsg}
    {funds : List Coin} (h : execMsg (fuel + 1) w sender (.wasmExec c msg funds) = .ok w') :
    ∃ w1 w2 resp, w1.pm = w.pm ∧ callExecute w1 c sender funds msg = .ok (w2, resp) ∧
      execSubs fuel w2 c resp.msgs = .ok w' := by
  simp only [execMsg] at h
  split at h
  · cases h
  · split at h
    · simp only [bind_ok, pure_ok] at h
      obtain ⟨w1, rfl, ⟨w2, resp⟩, hc, hs⟩ := h
      refine ⟨_, w2, resp, ?_, hc, hs⟩; rfl
    · simp only [bind_ok, pure_ok] at h
      obtain ⟨b, _, w1, rfl, ⟨w2, resp⟩, hc, hs⟩ := h
      refine ⟨_, w2, resp, ?_, hc, hs⟩; rfl

/-- a single-asset deposit swaps internally: with swaps disabled on the pool the whole transaction
    is rejected (the inner swap is a reply-on-success sub-message, its failure aborts everything) -/
theorem single_asset_blocked_by_swap_switch {w : World} {sender : Addr} {c : Coin}
    {ls ss : Option Nat} {recv : Option Addr} {pid : String} {u : Option Nat} {l : Option String}
    {pool : PoolInfo} {k : Option Nat}
    (hp : w.pm.getPool pid = .ok pool) (hoff : pool.status.swaps = false) :
    ∃ e, runTx w (.exec sender PM (.pm (.provideLiquidity ls ss recv pid u l)) [c]) k = .error e := by
  cases hres : runTx w (.exec sender PM (.pm (.provideLiquidity ls ss recv pid u l)) [c]) k with
  | error e => exact ⟨e, rfl⟩
  | ok w' =>
    exfalso
    unfold runTx at hres
    have hF : FUEL = 62 + 1 + 1 := rfl
    simp only [hF] at hres
    obtain ⟨w1, w2, resp, hpm, hc, hs⟩ := execMsg_wasm_ok hres
    -- the handler ran in the single-asset branch
    simp only [callExecute, bne_self_eq_false, Bool.false_eq_true, if_false, bind_ok, pure_ok,
      pmExecute] at hc
    obtain ⟨⟨s2, r2⟩, hprov, heq⟩ := hc
    cases heq
    obtain ⟨hpools, ask, half, hmsgs⟩ := provide_single_shape hprov
    have hpm' : w1.pm = w.pm := hpm
    have hp2 : s2.getPool pid = .ok pool := by
      rw [getPool_congr hpools, hpm']; exact hp
    simp only [hmsgs] at hs
    rw [execSubs] at hs
    -- the inner swap fails
    cases hin : execMsg 62 { w1 with pm := s2 } PM
        (.wasmExec w1.pmEnv.self (.pm (.swap ask none ss none pid)) [half]) with
    | ok w3 =>
      have h61 : (62 : Nat) = 61 + 1 := rfl
      rw [h61] at hin
      obtain ⟨w4, w5, resp', hpm4, hc4, _⟩ := execMsg_wasm_ok hin
      have hself : w1.pmEnv.self = PM := rfl
      rw [hself] at hc4
      simp only [callExecute, bne_self_eq_false, Bool.false_eq_true, if_false, bind_ok, pure_ok,
        pmExecute] at hc4
      obtain ⟨a, hsw, _⟩ := hc4
      have hp4 : w4.pm.getPool pid = .ok pool := by rw [hpm4]; exact hp2
      rw [swap_disabled_direct hp4 hoff] at hsw
      cases hsw
    | error e =>
      simp only [hin, ReplyOn.onError, Bool.false_eq_true, if_false] at hs
      cases hs

theorem toggle_aux {s : PmState} {pid : String} {p : PoolInfo} (st : PoolStatus) (cfg : PmConfig)
    (hp : s.getPool pid = .ok p) :
    (∀ qid, qid ≠ pid →
      ({ s.savePool { p with status := st } with config := cfg } : PmState).getPool qid = s.getPool qid) ∧
    ({ s.savePool { p with status := st } with config := cfg } : PmState).getPool pid =
      .ok { p with status := st } := by
  have hid : p.id = pid := getPool_id hp
  constructor
  · intro qid hq
    show (PmState.savePool s _).getPool qid = _
    exact getPool_savePool_ne _ _ _ (by show qid ≠ p.id; rw [hid]; exact hq)
  · show (PmState.savePool s _).getPool pid = _
    rw [← hid]
    exact getPool_savePool_self s { p with status := st }

/-- toggling touches only the named pool, and only its switches -/
theorem toggle_only_named_pool {s s' : PmState} {env : PmEnv} {sender : Addr}
    {fc fm : Option Addr} {fee : Option Coin} {t : FeatureToggle} {r : Response}
    (h : pmUpdateConfig s env sender fc fm fee (some t) = .ok (s', r)) :
    (∀ qid, qid ≠ t.poolId → s'.getPool qid = s.getPool qid) ∧
    ∃ p p', s.getPool t.poolId = .ok p ∧ s'.getPool t.poolId = .ok p' ∧
      p' = { p with status := p'.status } ∧
      p'.status.swaps = t.swaps.getD p.status.swaps ∧
      p'.status.deposits = t.deposits.getD p.status.deposits ∧
      p'.status.withdrawals = t.withdrawals.getD p.status.withdrawals := by
  have hP : Post (fun y : PmState × Response =>
      (∀ qid, qid ≠ t.poolId → y.1.getPool qid = s.getPool qid) ∧
      ∃ p p', s.getPool t.poolId = .ok p ∧ y.1.getPool t.poolId = .ok p' ∧
        p' = { p with status := p'.status } ∧
        p'.status.swaps = t.swaps.getD p.status.swaps ∧
        p'.status.deposits = t.deposits.getD p.status.deposits ∧
        p'.status.withdrawals = t.withdrawals.getD p.status.withdrawals)
      (pmUpdateConfig s env sender fc fm fee (some t)) := by
    unfold pmUpdateConfig
    apply post_bind; intro _ _
    pstep
    pjp
    · repeat' pstep
    pjp
    · repeat' pstep
    dsimp only
    apply post_bind; intro p hp
    refine ⟨fun y hy => ?_⟩
    cases hy
    obtain ⟨h1, h2⟩ := toggle_aux _ _ hp
    refine ⟨h1, p, _, hp, h2, rfl, ?_⟩
    cases t.swaps <;> cases t.deposits <;> cases t.withdrawals <;> exact ⟨rfl, rfl, rfl⟩
  exact hP.out _ h

/-- re-enabling restores: switching a feature off and on again gives back the original pool -/
theorem reenable_restores (p : PoolInfo) (b : Bool) :
    ({ ({ p with status := { p.status with swaps := b } } : PoolInfo) with
        status := { ({ p.status with swaps := b } : PoolStatus) with swaps := p.status.swaps } } : PoolInfo) = p := by
  rfl

/-- new pools start with everything enabled -/
theorem new_pool_all_enabled {s s' : PmState} {env : PmEnv} {funds : List Coin} {denoms : List Denom}
    {decimals : List Nat} {fees : PoolFee} {pt : PoolType} {id : Option String} {r : Response}
    (h : createPool s env funds denoms decimals fees pt id = .ok (s', r)) :
    ∃ p, p ∈ s'.pools ∧ ¬ (∃ q ∈ s.pools, q.id = p.id) ∧
      p.status.swaps = true ∧ p.status.deposits = true ∧ p.status.withdrawals = true := by
  have hP : Post (fun y : PmState × Response => ∃ p, p ∈ y.1.pools ∧ ¬ (∃ q ∈ s.pools, q.id = p.id) ∧
      p.status.swaps = true ∧ p.status.deposits = true ∧ p.status.withdrawals = true)
      (createPool s env funds denoms decimals fees pt id) := by
    unfold createPool
    repeat' pstep
    all_goals
      apply post_pure
      refine ⟨_, getPool_mem (getPool_savePool_self _ _), ?_, rfl, rfl, rfl⟩
      rintro ⟨q, hq, hid⟩
      have : (s.pools.any fun x => x.id == _) = true :=
        List.any_eq_true.2 ⟨q, hq, beq_iff_eq.2 hid⟩
      contradiction
  exact hP.out _ h

end MantraDex.C17
