/-
  C17 — Per-pool feature switches stop exactly the switched operation on every path.
-/
import MantraDex.Model.System
import MantraDex.Proofs.NumLemmas

set_option linter.unusedSimpArgs false

namespace MantraDex.C17
open MantraDex

/-- a direct swap on a pool whose swaps are disabled is rejected -/
theorem swap_disabled_direct {s : PmState} {env : PmEnv} {sender : Addr} {funds : List Coin}
    {ask : Denom} {b ms : Option Nat} {recv : Option Addr} {pid : String} {pool : PoolInfo}
    (hp : s.getPool pid = .ok pool) (hoff : pool.status.swaps = false) :
    swapHandler s env sender funds ask b ms recv pid = .error .disabled := by
  sorry

/-- `perform_swap` never changes any pool's switches -/
theorem performSwap_status {s s' : PmState} {offer : Coin} {ask : Denom} {pid qid : String}
    {b ms : Option Nat} {r : SwapResult} {q : PoolInfo}
    (h : performSwap s offer ask pid b ms = .ok (s', r)) (hq : s.getPool qid = .ok q) :
    ∃ q', s'.getPool qid = .ok q' ∧ q'.status = q.status := by
  sorry

/-- a routed swap that succeeds passed only through pools whose swaps are enabled: any route
    containing a disabled pool is rejected as a whole -/
theorem route_requires_enabled {ms : Option Nat} :
    ∀ (ops : List SwapOp) (s s' : PmState) (prev out : Coin) (fees fees' : List Msg),
      routeHops s ms ops prev fees = .ok (s', out, fees') →
      ∀ op ∈ ops, ∃ pool, s.getPool op.poolId = .ok pool ∧ pool.status.swaps = true := by
  sorry

/-- deposits disabled: every deposit shape (multi-asset, single-asset, locked) is rejected -/
theorem deposit_disabled {s : PmState} {env : PmEnv} {sender : Addr} {funds : List Coin}
    {ls ss : Option Nat} {recv : Option Addr} {pid : String} {u : Option Nat} {l : Option String}
    {pool : PoolInfo} (hp : s.getPool pid = .ok pool) (hoff : pool.status.deposits = false) :
    provideLiquidity s env sender funds ls ss recv pid u l = .error .disabled := by
  sorry

/-- withdrawals disabled -/
theorem withdraw_disabled {s : PmState} {env : PmEnv} {sender : Addr} {funds : List Coin}
    {pid : String} {pool : PoolInfo} (hp : s.getPool pid = .ok pool)
    (hoff : pool.status.withdrawals = false) :
    withdrawLiquidity s env sender funds pid = .error .disabled := by
  sorry

/-- a single-asset deposit swaps internally: with swaps disabled on the pool the whole transaction
    is rejected (the inner swap is a reply-on-success sub-message, its failure aborts everything) -/
theorem single_asset_blocked_by_swap_switch {w : World} {sender : Addr} {c : Coin}
    {ls ss : Option Nat} {recv : Option Addr} {pid : String} {u : Option Nat} {l : Option String}
    {pool : PoolInfo} {k : Option Nat}
    (hp : w.pm.getPool pid = .ok pool) (hoff : pool.status.swaps = false) :
    ∃ e, runTx w (.exec sender PM (.pm (.provideLiquidity ls ss recv pid u l)) [c]) k = .error e := by
  sorry

/-- toggling touches only the named pool, and only its switches -/
theorem toggle_only_named_pool {s s' : PmState} {env : PmEnv} {sender : Addr}
    {fc fm : Option Addr} {fee : Option Coin} {t : FeatureToggle} {r : Response}
    (h : pmUpdateConfig s env sender fc fm fee (some t) = .ok (s', r)) :
    (∀ qid, qid ≠ t.poolId → s'.getPool qid = s.getPool qid) ∧
    ∃ p p', s.getPool t.poolId = .ok p ∧ s'.getPool t.poolId = .ok p' ∧
      p' = { p with status := p'.status } ∧
      p'.status.swaps = t.swaps.getD p.status.swaps ∧
      p'.status.deposits = t.deposits.getD p.status.deposits ∧
      p'.status.withdrawals = t.withdrawals.getD p.status.withdrawals := by
  sorry

/-- re-enabling restores: switching a feature off and on again gives back the original pool -/
theorem reenable_restores (p : PoolInfo) (b : Bool) :
    ({ ({ p with status := { p.status with swaps := b } } : PoolInfo) with
        status := { ({ p.status with swaps := b } : PoolStatus) with swaps := p.status.swaps } } : PoolInfo) = p := by
  sorry

/-- new pools start with everything enabled -/
theorem new_pool_all_enabled {s s' : PmState} {env : PmEnv} {funds : List Coin} {denoms : List Denom}
    {decimals : List Nat} {fees : PoolFee} {pt : PoolType} {id : Option String} {r : Response}
    (h : createPool s env funds denoms decimals fees pt id = .ok (s', r)) :
    ∃ p, p ∈ s'.pools ∧ ¬ (∃ q ∈ s.pools, q.id = p.id) ∧
      p.status.swaps = true ∧ p.status.deposits = true ∧ p.status.withdrawals = true := by
  sorry

end MantraDex.C17
