/-
  C17 at the level of whole transactions (runtime: nested calls, replies, rollbacks, injected faults):

    * swaps disabled on a pool: whatever anybody sends — direct swaps, routes of any shape passing through it,
      single-asset deposits (which swap internally), anything nested — the pool's reserves change only through a
      multi-asset deposit into it or a withdrawal from it (`swaps_disabled_reserves_frozen`);
    * deposits disabled: the supply of its LP token never grows (`deposits_disabled_no_mint`);
    * withdrawals disabled: the supply of its LP token never shrinks (`withdrawals_disabled_no_burn`);
    * a configuration transaction that toggles pool `t` leaves every other pool exactly as it was
      (`toggle_tx_only_named_pool`); a pool created by a transaction starts with everything enabled
      (`created_pool_enabled`);
    * (strengthening of C02Sys) a transaction that increases the supply of a pool's LP token is a
      `ProvideLiquidity` naming THAT pool (`lp_supply_increase_names_pool`).
-/
import MantraDex.Model.System
import MantraDex.Proofs.NumLemmas
import MantraDex.Properties.C17
import MantraDex.Properties.C02Sys
import MantraDex.Properties.C16Sys
import MantraDex.Proofs.SwSysUp
import MantraDex.Proofs.SwSysPools

set_option linter.unusedSimpArgs false
set_option linter.unusedVariables false

namespace MantraDex.C17Sys
open MantraDex

open MantraDex.LpSys (Covers PlainD)

theorem step_ok {w w' : World} {tx : Tx} {k : Option Nat} (hr : runTx w tx k = .ok w') : step w tx k = w' := by
  unfold step; rw [hr]

theorem step_err {w : World} {tx : Tx} {k : Option Nat} {e : Err} (hr : runTx w tx k = .error e) :
    step w tx k = w := by
  unfold step; rw [hr]

theorem lp_supply_increase_names_pool (w : World) (tx : Tx) (k : Option Nat)
    (hext : C01Sys.External tx) (hplain : C02Sys.LpPlain (step w tx k)) (h : C02Sys.LpInv w)
    (p : PoolInfo) (hp : p ∈ w.pm.pools)
    (hup : (step w tx k).bank.supply p.lpDenom > w.bank.supply p.lpDenom) :
    ∃ sender ls ss rc u l funds, tx = .exec sender PM (.pm (.provideLiquidity ls ss rc p.id u l)) funds := by
  obtain ⟨sender, ls, ss, rc, pid, u, l, funds, rfl⟩ :=
    (C02Sys.lp_supply_moves_only_by_deposit_or_withdrawal w tx k hext hplain h p hp).1 hup
  have hkept := (C16Sys.pools_static_step w (.exec sender PM (.pm (.provideLiquidity ls ss rc pid u l)) funds) k h.ids).1
  cases hr : runTx w (.exec sender PM (.pm (.provideLiquidity ls ss rc pid u l)) funds) k with
  | error e =>
    rw [step_err hr] at hup
    exact absurd hup (Nat.lt_irrefl _)
  | ok w' =>
    rw [step_ok hr] at hup hplain hkept
    have cm := C02Sys.committed hext h hr
    obtain ⟨p', hp', hs⟩ := hkept p hp
    have hpl : PlainD p.lpDenom w := by
      rw [hs.2.2.2.2.2]
      exact C02Sys.plain_back hplain hkept h.aligned cm.tf hp'
    have hc : Covers w.bank := (C02Sys.covers_iff _).1 h.supplyCovers
    simp only [runTx] at hr
    obtain ⟨ls', ss', rc', pid', u', l', hm, hd⟩ :=
      SwSys.tx_pm_up (w := { w with bank := { w.bank with calls := 0, failAt := k } }) (d := p.lpDenom)
        (C02Sys.not_contract_ne_pm hext.1) hext.2 hc ⟨h.ids, h.lpDerived⟩ hpl hr hup
    simp only [PmMsg.provideLiquidity.injEq] at hm
    obtain ⟨-, -, -, rfl, -, -⟩ := hm
    rw [h.lpDerived p hp] at hd
    have : p.id = pid := C16Sys.lpDenomOf_inj hd
    subst this
    exact ⟨sender, ls, ss, rc, u, l, funds, rfl⟩

/-- the pool manager's state after a transaction that does not call it is unchanged -/
theorem other_pm {w w' : World} {tx : Tx} {k : Option Nat} (hext : C01Sys.External tx)
    (hnp : ∀ sender c m funds, tx ≠ .exec sender c (.pm m) funds) (hr : runTx w tx k = .ok w') : w'.pm = w.pm := by
  cases tx with
  | exec sender c msg funds =>
    have hs := C02Sys.not_contract_ne_pm hext.1
    simp only [runTx] at hr
    cases msg with
    | pm m => exact absurd rfl (hnp sender c m funds)
    | fm m => exact ((SysPm.other_exec FUEL).1 _ _ _ _ hs (by trivial) hr).pm
    | em m => exact ((SysPm.other_exec FUEL).1 _ _ _ _ hs (by trivial) hr).pm
    | fc m => exact ((SysPm.other_exec FUEL).1 _ _ _ _ hs (by trivial) hr).pm
  | send frm to coins =>
    have hs := C02Sys.not_contract_ne_pm hext.1
    simp only [runTx] at hr
    exact ((SysPm.other_exec FUEL).1 _ _ _ _ hs (by trivial) hr).pm
  | advance ns =>
    simp only [runTx] at hr
    cases hr
    rfl

/-- a transaction sent to the pool manager, run from `w0`: a pool whose swaps are disabled -/
theorem frozen0 {w0 w' : World} {sender c : Addr} {m : PmMsg} {funds : List Coin}
    (hfunds : (funds.map (·.denom)).Nodup) (hids : (w0.pm.pools.map (·.id)).Nodup)
    (p : PoolInfo) (hp : p ∈ w0.pm.pools) (hoff : p.status.swaps = false)
    (hr : execMsg FUEL w0 sender (.wasmExec c (.pm m) funds) = .ok w') :
    (∃ p' ∈ w'.pm.pools, p'.id = p.id ∧ p'.assets = p.assets) ∨
    (∃ ls ss rc u l, m = .provideLiquidity ls ss rc p.id u l ∧ 2 ≤ funds.length) ∨
    m = .withdrawLiquidity p.id := by
  have keep : p ∈ w'.pm.pools → (∃ p' ∈ w'.pm.pools, p'.id = p.id ∧ p'.assets = p.assets) ∨
      (∃ ls ss rc u l, m = .provideLiquidity ls ss rc p.id u l ∧ 2 ≤ funds.length) ∨
      m = .withdrawLiquidity p.id := fun hm => Or.inl ⟨p, hm, rfl, rfl⟩
  by_cases hns : SysPm.NotSingle m funds
  · rw [show FUEL = 63 + 1 from rfl] at hr
    obtain ⟨env, s', r, -, hpe, hpm⟩ := SwSys.pm_call_pm hfunds hns hr
    rw [hpm]
    rw [hpm] at keep
    cases m with
    | createPool denoms decimals fees pt id =>
      simp only [pmExecute] at hpe
      obtain ⟨q, -, hpools, -⟩ := createPool_pools hpe
      exact keep (by rw [hpools]; exact mem_insertPoolSorted.2 (Or.inr hp))
    | provideLiquidity ls ss rc pid u l =>
      simp only [pmExecute] at hpe
      by_cases hpid : p.id = pid
      · subst hpid
        exact Or.inr (Or.inl ⟨ls, ss, rc, u, l, rfl, hns⟩)
      · exact keep (SwSys.provide_other hfunds hns hpe hp hpid)
    | swap ask b ms rc pid =>
      simp only [pmExecute] at hpe
      exact keep (SwSys.swap_frozen hids hp hoff hpe).1
    | withdrawLiquidity pid =>
      simp only [pmExecute] at hpe
      by_cases hpid : p.id = pid
      · subst hpid
        exact Or.inr (Or.inr rfl)
      · exact keep (SwSys.withdraw_other hpe hp hpid)
    | execSwapOps ops mr rc ms =>
      simp only [pmExecute] at hpe
      obtain ⟨first, last, amount, out, fm, -, -, -, hroute, -⟩ := execSwapOps_ok hpe
      exact keep (SwSys.route_frozen ops _ _ _ _ _ _ hids hroute p hp hoff)
    | updateConfig fc fm cf t =>
      exact Or.inl (SwSys.config_assets (Or.inl ⟨fc, fm, cf, t, rfl⟩) hids hpe hp)
    | updateOwnership a =>
      exact Or.inl (SwSys.config_assets (Or.inr ⟨a, rfl⟩) hids hpe hp)
  · cases m with
    | provideLiquidity ls ss rc pid u l =>
      match funds, hns, hr with
      | [], _, hr => exact (C01Sys.no_funds_tx (n := 63) hr).elim
      | _ :: _ :: _, hns, _ => exact absurd (by simp [SysPm.NotSingle]) hns
      | [coin], _, hr =>
        obtain ⟨buf, ask, env3, env5, s3, s5, r3, r5, hpid, -, -, hsw, hnd, hpl5, hpm5⟩ := SwSys.single_tree_pm hr
        obtain ⟨hp3, hne⟩ := SwSys.swap_frozen (s := { w0.pm with buffer := some buf }) hids hp hoff hsw
        have hp5 : p ∈ s5.pools :=
          SwSys.provide_other (s := { s3 with buffer := none }) hnd (Nat.le_refl 2) hpl5 hp3
            (by rw [hpid]; exact fun e => hne e.symm)
        exact keep (by rw [hpm5]; exact hp5)
    | _ => exact absurd trivial hns

/-- (stronger form: of the invariant only the uniqueness of the pool identifiers is used) -/
theorem swaps_disabled_reserves_frozen_of_ids (w : World) (tx : Tx) (k : Option Nat)
    (hext : C01Sys.External tx) (hids : (w.pm.pools.map (·.id)).Nodup)
    (p : PoolInfo) (hp : p ∈ w.pm.pools) (hoff : p.status.swaps = false) :
    (∃ p' ∈ (step w tx k).pm.pools, p'.id = p.id ∧ p'.assets = p.assets) ∨
    (∃ sender ls ss rc u l funds,
      tx = .exec sender PM (.pm (.provideLiquidity ls ss rc p.id u l)) funds ∧ 2 ≤ funds.length) ∨
    (∃ sender funds, tx = .exec sender PM (.pm (.withdrawLiquidity p.id)) funds) := by
  cases hr : runTx w tx k with
  | error e =>
    rw [step_err hr]
    exact Or.inl ⟨p, hp, rfl, rfl⟩
  | ok w' =>
    rw [step_ok hr]
    by_cases hpm : ∃ sender c m funds, tx = .exec sender c (.pm m) funds
    · obtain ⟨sender, c, m, funds, rfl⟩ := hpm
      simp only [runTx] at hr
      have hc : c = PM := C02Sys.pm_exec_callee (n := 63) hr
      subst hc
      rcases frozen0 (w0 := { w with bank := { w.bank with calls := 0, failAt := k } }) hext.2 hids p hp hoff hr
        with h1 | ⟨ls, ss, rc, u, l, rfl, h2⟩ | rfl
      · exact Or.inl h1
      · exact Or.inr (Or.inl ⟨sender, ls, ss, rc, u, l, funds, rfl, h2⟩)
      · exact Or.inr (Or.inr ⟨sender, funds, rfl⟩)
    · have := other_pm hext (fun sender c m funds e => hpm ⟨sender, c, m, funds, e⟩) hr
      exact Or.inl ⟨p, by rw [this]; exact hp, rfl, rfl⟩

theorem swaps_disabled_reserves_frozen (w : World) (tx : Tx) (k : Option Nat)
    (hext : C01Sys.External tx) (h : C02Sys.LpInv w)
    (p : PoolInfo) (hp : p ∈ w.pm.pools) (hoff : p.status.swaps = false) :
    (∃ p' ∈ (step w tx k).pm.pools, p'.id = p.id ∧ p'.assets = p.assets) ∨
    (∃ sender ls ss rc u l funds,
      tx = .exec sender PM (.pm (.provideLiquidity ls ss rc p.id u l)) funds ∧ 2 ≤ funds.length) ∨
    (∃ sender funds, tx = .exec sender PM (.pm (.withdrawLiquidity p.id)) funds) :=
  swaps_disabled_reserves_frozen_of_ids w tx k hext h.ids p hp hoff

theorem deposits_disabled_no_mint (w : World) (tx : Tx) (k : Option Nat)
    (hext : C01Sys.External tx) (hplain : C02Sys.LpPlain (step w tx k)) (h : C02Sys.LpInv w)
    (p : PoolInfo) (hp : p ∈ w.pm.pools) (hoff : p.status.deposits = false) :
    (step w tx k).bank.supply p.lpDenom ≤ w.bank.supply p.lpDenom := by
  apply Nat.le_of_not_lt
  intro hup
  obtain ⟨sender, ls, ss, rc, u, l, funds, rfl⟩ := lp_supply_increase_names_pool w tx k hext hplain h p hp hup
  cases hr : runTx w (.exec sender PM (.pm (.provideLiquidity ls ss rc p.id u l)) funds) k with
  | error e =>
    rw [step_err hr] at hup
    exact absurd hup (Nat.lt_irrefl _)
  | ok w' =>
    simp only [runTx] at hr
    obtain ⟨-, w1, s', r, -, hpe, -⟩ :=
      SwSys.top_handler (n := 63) (w := { w with bank := { w.bank with calls := 0, failAt := k } }) hr
    simp only [pmExecute] at hpe
    rw [C17.deposit_disabled (s := w.pm) (SwSys.getPool_of_mem h.ids hp) hoff] at hpe
    cases hpe

theorem withdrawals_disabled_no_burn (w : World) (tx : Tx) (k : Option Nat)
    (hext : C01Sys.External tx) (hplain : C02Sys.LpPlain (step w tx k)) (h : C02Sys.LpInv w)
    (p : PoolInfo) (hp : p ∈ w.pm.pools) (hoff : p.status.withdrawals = false) :
    w.bank.supply p.lpDenom ≤ (step w tx k).bank.supply p.lpDenom := by
  apply Nat.le_of_not_lt
  intro hdown
  obtain ⟨sender, funds, rfl⟩ :=
    (C02Sys.lp_supply_moves_only_by_deposit_or_withdrawal w tx k hext hplain h p hp).2 hdown
  cases hr : runTx w (.exec sender PM (.pm (.withdrawLiquidity p.id)) funds) k with
  | error e =>
    rw [step_err hr] at hdown
    exact absurd hdown (Nat.lt_irrefl _)
  | ok w' =>
    simp only [runTx] at hr
    obtain ⟨-, w1, s', r, -, hpe, -⟩ :=
      SwSys.top_handler (n := 63) (w := { w with bank := { w.bank with calls := 0, failAt := k } }) hr
    simp only [pmExecute] at hpe
    rw [C17.withdraw_disabled (s := w.pm) (SwSys.getPool_of_mem h.ids hp) hoff] at hpe
    cases hpe

theorem toggle_tx_only_named_pool (w : World) (sender : Addr) (fc fm : Option Addr) (cf : Option Coin)
    (t : FeatureToggle) (funds : List Coin) (k : Option Nat)
    (hids : (w.pm.pools.map (·.id)).Nodup)
    (q : PoolInfo) (hq : q ∈ w.pm.pools) (hne : q.id ≠ t.poolId) :
    q ∈ (step w (.exec sender PM (.pm (.updateConfig fc fm cf (some t))) funds) k).pm.pools := by
  cases hr : runTx w (.exec sender PM (.pm (.updateConfig fc fm cf (some t))) funds) k with
  | error e => rw [step_err hr]; exact hq
  | ok w' =>
    rw [step_ok hr]
    simp only [runTx] at hr
    obtain ⟨-, w1, s', r, -, hpe, hsubs⟩ :=
      SwSys.top_handler (n := 63) (w := { w with bank := { w.bank with calls := 0, failAt := k } }) hr
    simp only [pmExecute] at hpe
    obtain ⟨_, -, hupd⟩ := bind_ok.mp hpe
    rw [C02.updateConfig_msgs hupd] at hsubs
    have := SysPm.subs_nil hsubs
    subst this
    have hg := (C17.toggle_only_named_pool hupd).1 q.id hne
    have hq' : s'.getPool q.id = .ok q := by
      rw [hg]
      exact SwSys.getPool_of_mem (s := w.pm) hids hq
    exact C17.getPool_mem hq'

/- STATEMENT CHANGE (strengthening only): the hypothesis `hids : (w.pm.pools.map (·.id)).Nodup` of
   `created_pool_enabled` as first written is not needed and has been dropped. -/
theorem created_pool_enabled (w : World) (tx : Tx) (k : Option Nat) (hext : C01Sys.External tx)
    (p' : PoolInfo) (hp' : p' ∈ (step w tx k).pm.pools) (hnew : ∀ p ∈ w.pm.pools, p.id ≠ p'.id) :
    p'.status.swaps = true ∧ p'.status.deposits = true ∧ p'.status.withdrawals = true ∧
    ∀ a ∈ p'.assets, a.amount = 0 := by
  have old : (∃ p ∈ w.pm.pools, p.id = p'.id) → p'.status.swaps = true ∧ p'.status.deposits = true ∧
      p'.status.withdrawals = true ∧ ∀ a ∈ p'.assets, a.amount = 0 := by
    rintro ⟨p, hp, e⟩
    exact absurd e (hnew p hp)
  cases hr : runTx w tx k with
  | error e =>
    rw [step_err hr] at hp'
    exact old ⟨p', hp', rfl⟩
  | ok w' =>
    rw [step_ok hr] at hp'
    by_cases hpm : ∃ sender c m funds, tx = .exec sender c (.pm m) funds
    · obtain ⟨sender, c, m, funds, rfl⟩ := hpm
      simp only [runTx] at hr
      by_cases hns : SysPm.NotSingle m funds
      · obtain ⟨env, s', r, -, hpe, hpm⟩ :=
          SwSys.pm_call_pm (n := 63) (w := { w with bank := { w.bank with calls := 0, failAt := k } }) hext.2 hns hr
        rw [hpm] at hp'
        rcases SwSys.handler_fresh hpe p' hp' with h1 | h1
        · exact old h1
        · exact h1
      · cases m with
        | provideLiquidity ls ss rc pid u l =>
          match funds, hns, hr with
          | [], _, hr => exact (C01Sys.no_funds_tx (n := 63) hr).elim
          | _ :: _ :: _, hns, _ => exact absurd (by simp [SysPm.NotSingle]) hns
          | [coin], _, hr =>
            obtain ⟨buf, ask, env3, env5, s3, s5, r3, r5, -, -, -, hsw, -, hpl5, hpm5⟩ :=
              SwSys.single_tree_pm (w := { w with bank := { w.bank with calls := 0, failAt := k } }) hr
            rw [hpm5] at hp'
            have e5 := (provideLiquidity_step hpl5).ids
            have e3 := (swapHandler_step hsw).ids
            obtain ⟨p5, hp5, h5⟩ := SwSys.ids_back e5 p' hp'
            obtain ⟨p3, hp3, h3⟩ := SwSys.ids_back e3 p5 hp5
            exact old ⟨p3, hp3, h3.trans h5⟩
        | _ => exact absurd trivial hns
    · have := other_pm hext (fun sender c m funds e => hpm ⟨sender, c, m, funds, e⟩) hr
      rw [this] at hp'
      exact old ⟨p', hp', rfl⟩

end MantraDex.C17Sys
