/-
  Soundness of further implementation-side monitors with respect to the model (see MonSound.lean / MonSoundB.lean for the
  idea): fed with the quantities of an accepted MODEL transaction, the monitor raises no alarm — for all inputs.

  * `monSwapFees` (C04): the fee amounts of every swap the model performs are the configured shares of the gross output
  * `monCpSlippage` (C13): an accepted direct constant-product swap without belief price is within the effective tolerance as
    the monitor measures it (the monitor's own arithmetic: 18-digit price, floor) — if this is FALSE for some input, that is a
    finding about the monitor (a possible false alarm): prove the counterexample (kernel-evaluated) and the `_partial` version
    with the weakest extra hypothesis you can find
  * `monWithdrawPosAccept` (C08): an accepted WithdrawPosition comes from the owner, and without the emergency flag the
    position was closed and its unlock instant has been reached
  * `monWithdrawPos` (C08) for an accepted NORMAL withdrawal: the owner gets the whole amount, nobody else gets anything, the
    position is gone
  * `monPmCustody` (C01): in every state satisfying the all-denoms custody invariant of `C01All` the custody monitor is quiet
-/
import MantraDex.Model.System
import MantraDex.Model.HistMon
import MantraDex.Properties.C04
import MantraDex.Properties.C04Sys
import MantraDex.Properties.C13
import MantraDex.Properties.C12Sys
import MantraDex.Properties.C08Tx
import MantraDex.Properties.C09Sys
import MantraDex.Properties.C01All
import MantraDex.Proofs.MonSoundCLemmas

set_option linter.unusedSimpArgs false
set_option linter.unusedVariables false

namespace MantraDex.MonSoundC
open MantraDex

theorem firstFail_all_true (xs : List (Bool × String)) (h : ∀ x ∈ xs, x.1 = true) : firstFail xs = none := by
  unfold firstFail
  have : xs.filter (fun x => !x.1) = [] := by
    rw [List.filter_eq_nil_iff]
    intro x hx
    simp [h x hx]
  simp [this]

/-- `mon_swap_fees` (C04): whatever `performSwap` accepts, its reported amounts satisfy the fee monitor for the pool's fees -/
theorem monSwapFees_sound (s s1 : PmState) (offer : Coin) (ask : Denom) (pid : String) (b ms : Option Nat)
    (pool : PoolInfo) (r : SwapResult)
    (hp : s.getPool pid = .ok pool)
    (hps : performSwap s offer ask pid b ms = .ok (s1, r)) :
    monSwapFees pool.fees r.ret.amount r.swapFee.amount r.protocolFee.amount r.burnFee.amount r.extraFees.amount = none := by
  obtain ⟨pool', c, oi, ai, x, y, hp', hc, _, _, _, _, _, _, _, _, hr, hpf, hbf, hsf, hef⟩ := C04.performSwap_ok hps
  rw [hp] at hp'
  cases hp'
  obtain ⟨gross, hg, h1, h2, h3, h4⟩ := C04.computeSwap_split hc
  rw [hr, hpf, hbf, hsf, hef]
  simp only
  unfold monSwapFees
  apply firstFail_all_true
  have hg' : c.ret + c.swapFee + c.protocolFee + c.burnFee + c.extraFees = gross := hg
  intro x hx
  simp only [List.mem_cons, List.mem_nil_iff, or_false] at hx
  rcases hx with rfl | rfl | rfl | rfl
  · simp only [hg', beq_iff_eq]; exact h1
  · simp only [hg', beq_iff_eq]; exact h2
  · simp only [hg', beq_iff_eq]; exact h3
  · simp only [hg', beq_iff_eq]; exact h4

/-- `mon_cp_slippage` (C13) for a direct swap without belief price on a constant-product pool, `x` / `y` the offer / ask
    reserves before the swap.  (If false as stated: counterexample + `_partial`, see the header.) -/
theorem monCpSlippage_sound (w w' : World) (u : Addr) (offer : Coin) (ask : Denom) (ms : Option Nat)
    (recv : Option Addr) (pid : String) (pool : PoolInfo) (x y : Nat) (s1 : PmState) (r : SwapResult)
    (hu : isContract u = false)
    (hp : w.pm.getPool pid = .ok pool) (hcp : pool.ptype = .cp)
    (hne : offer.denom ≠ ask)
    (hassets : pool.assets = [⟨offer.denom, x⟩, ⟨ask, y⟩] ∨ pool.assets = [⟨ask, y⟩, ⟨offer.denom, x⟩])
    (hps : performSwap w.pm offer ask pid none ms = .ok (s1, r))
    (h : runTx w (.exec u PM (.pm (.swap ask none ms recv pid)) [offer]) = .ok w') :
    monCpSlippage ms x y offer.amount r.ret.amount = none :=
  -- `hu` and `h` are not needed: `performSwap` accepting (hypothesis `hps`) already implies the claim
  MonSoundCL.monCpSlippage_performSwap hp hcp hne hassets hps

/-- `mon_withdrawpos_accept` (C08): an accepted WithdrawPosition -/
theorem monWithdrawPosAccept_sound (w w' : World) (u : Addr) (p : Position) (em : Option Bool)
    (hp : w.fm.getPosition p.id = some p)
    (h : runTx w (.exec u FM (.fm (.withdrawPosition p.id em)) []) = .ok w') :
    monWithdrawPosAccept true (p.receiver == u) (em.getD false) p.expiringAt w.fmEnv.nowS = none := by
  obtain ⟨s1, r, hx, _⟩ := MonSoundCL.withdraw_tx_handler h
  obtain ⟨hrecv, hunl⟩ := MonSoundCL.withdraw_accept_inv hp hx
  unfold monWithdrawPosAccept
  simp only [Bool.not_true, Bool.false_eq_true, if_false]
  apply firstFail_all_true
  intro x hx
  simp only [List.mem_cons, List.mem_nil_iff, or_false] at hx
  rcases hx with rfl | rfl
  · simp only [beq_iff_eq]; exact hrecv
  · rcases hunl with rfl | ⟨t, ht, hle⟩
    · rfl
    · simp only [ht, Bool.or_eq_true, decide_eq_true_eq]
      exact Or.inr hle

/-- `mon_withdrawpos` (C08) for an accepted NORMAL withdrawal (no emergency flag, or `some false`), the owner not being the
    farm manager itself: the owner receives exactly the position's amount from the farm manager, the fee collector and the
    farm owners receive nothing from this transaction, the position is deleted.  `others` = any list of accounts other than
    the owner and the farm manager (the monitor is fed the fee collector and the farm owners). -/
theorem monWithdrawPos_normal_sound (w w' : World) (u : Addr) (p : Position) (em : Option Bool) (fc : Addr) (owners : List Addr)
    (hp : w.fm.getPosition p.id = some p)
    (hem : em.getD false = false)
    (hu : u ≠ FM) (hfc : fc ≠ u ∧ fc ≠ FM) (howners : ∀ a ∈ owners, a ≠ u ∧ a ≠ FM)
    (h : runTx w (.exec u FM (.fm (.withdrawPosition p.id em)) []) = .ok w') :
    monWithdrawPos p.amount
      ((w'.bank.bal u p.lpDenom : Int) - w.bank.bal u p.lpDenom)
      ((w'.bank.bal fc p.lpDenom : Int) - w.bank.bal fc p.lpDenom)
      ((owners.map fun a => (w'.bank.bal a p.lpDenom : Int) - w.bank.bal a p.lpDenom).foldl (· + ·) 0)
      ((w.bank.bal FM p.lpDenom : Int) - w'.bank.bal FM p.lpDenom)
      false (w'.fm.getPosition p.id).isNone = none := by
  have hem' : em ≠ some true := by
    intro e; rw [e] at hem; cases hem
  obtain ⟨hrecv, hgone, mv⟩ := MonSoundCL.withdraw_normal_run hp hem' h
  subst hrecv
  have hne : FM ≠ p.receiver := fun e => hu e.symm
  have eU : (w'.bank.bal p.receiver p.lpDenom : Int) - w.bank.bal p.receiver p.lpDenom = p.amount := by
    have := mv.bal p.receiver p.lpDenom
    simp only [coinsOf_single, if_true, if_neg hu] at this
    omega
  have eF : (w.bank.bal FM p.lpDenom : Int) - w'.bank.bal FM p.lpDenom = p.amount := by
    have := mv.bal FM p.lpDenom
    simp only [coinsOf_single, if_true, if_neg hne] at this
    omega
  have eO : ∀ a, a ≠ p.receiver ∧ a ≠ FM → (w'.bank.bal a p.lpDenom : Int) - w.bank.bal a p.lpDenom = 0 := by
    intro a ⟨h1, h2⟩
    have := mv.bal a p.lpDenom
    simp only [coinsOf_single, if_true, if_neg h1, if_neg h2] at this
    omega
  rw [eU, eF, eO fc hfc, MonSoundCL.foldl_zero owners _ (fun a ha => eO a (howners a ha)), hgone]
  unfold monWithdrawPos
  apply firstFail_all_true
  intro x hx
  simp only [List.mem_cons, List.mem_nil_iff, or_false] at hx
  rcases hx with rfl | rfl | rfl | rfl | rfl | rfl <;> simp

/-- `mon_pm_custody` (C01): the custody monitor, fed for any list of denoms with the pool manager's balance and the sum of the
    reserves it reports (what the harness feeds), is quiet in every state satisfying the all-denoms custody invariant of
    `C01All` — hence (`C01All.pm_custody_all_reachable`) in every reachable state -/
theorem monPmCustody_sound (w : World) (h : C01All.AllInv w) (ds : List Denom) :
    monPmCustody (ds.map fun d => (w.bank.bal PM d, C01.reserves w.pm d)) = none := by
  unfold monPmCustody
  apply firstFail_all_true
  intro x hx
  simp only [List.mem_cons, List.mem_nil_iff, or_false] at hx
  subst hx
  simp only [List.all_eq_true]
  intro x hx
  rw [List.mem_map] at hx
  obtain ⟨d, _, rfl⟩ := hx
  have := h.custody d
  simp only [decide_eq_true_eq]
  omega

/-- the same with the locked minimum on top (the stronger clause the LP-token monitor relies on) -/
theorem monPmCustody_locked_sound (w : World) (h : C01All.AllInv w) (ds : List Denom) :
    monPmCustody (ds.map fun d => (w.bank.bal PM d, C01.reserves w.pm d + C01All.lockedMin w d)) = none := by
  unfold monPmCustody
  apply firstFail_all_true
  intro x hx
  simp only [List.mem_cons, List.mem_nil_iff, or_false] at hx
  subst hx
  simp only [List.all_eq_true]
  intro x hx
  rw [List.mem_map] at hx
  obtain ⟨d, _, rfl⟩ := hx
  have := h.custody d
  simp only [decide_eq_true_eq]
  exact this

end MantraDex.MonSoundC
