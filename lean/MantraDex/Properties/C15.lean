/-
  C15 — Only authorised parties can perform privileged actions.

  Decision logic of the four contracts' privileged variants, for every sender, state and funds.
  "Rejected" is `≠ .ok _` (which check fires first on a doubly-invalid message is not part of the
  property); "no state change" then follows from the runtime (C20 `step_error_restores`).
-/
import MantraDex.Model.System
import MantraDex.Proofs.NumLemmas
import MantraDex.Proofs.PoolLemmas

set_option linter.unusedSimpArgs false

namespace MantraDex.C15
open MantraDex

/-! ### cw-ownable -/

/-- the owner changes only when the pending owner accepts in time, or the owner renounces -/
theorem ownership_moves_only_by_accept_or_renounce {o o' : Ownership} {v : Addr → Bool}
    {now : Nat} {sender : Addr} {a : OwnAction}
    (h : o.update v now sender a = .ok o') (hne : o'.owner ≠ o.owner) :
    (a = .accept ∧ o.pending = some sender ∧ o'.owner = some sender ∧
        (∀ e, o.pendingExpiry = some e → now < e)) ∨
    (a = .renounce ∧ o.owner = some sender ∧ o'.owner = none) := by
  cases a with
  | transfer n e =>
    exfalso
    simp only [Ownership.update, bind_ok, assertOwner_ok] at h
    obtain ⟨_, _, h⟩ := h
    split at h
    · simp at h
    · simp only [pure_ok] at h; subst h; exact hne rfl
  | accept =>
    left
    simp only [Ownership.update] at h
    split at h
    · simp at h
    · next p hp =>
      split at h
      · simp at h
      · next hps =>
        have hps : p = sender := by simpa using hps
        subst hps
        split at h
        · next e he =>
          split at h
          · simp at h
          · next hlt =>
            simp only [pure_ok] at h; subst h
            refine ⟨rfl, hp, rfl, ?_⟩
            intro e' he'; rw [he] at he'; cases he'; omega
        · next he =>
          simp only [pure_ok] at h; subst h
          refine ⟨rfl, hp, rfl, ?_⟩
          intro e' he'; rw [he] at he'; cases he'
  | renounce =>
    right
    simp only [Ownership.update, bind_ok, assertOwner_ok, pure_ok] at h
    obtain ⟨_, ho, rfl⟩ := h
    exact ⟨rfl, ho, rfl⟩

/-- only the current owner can propose a transfer or renounce -/
theorem transfer_and_renounce_require_owner {o o' : Ownership} {v : Addr → Bool} {now : Nat}
    {sender : Addr} {a : OwnAction} (h : o.update v now sender a = .ok o') (ha : a ≠ .accept) :
    o.owner = some sender := by
  cases a with
  | transfer n e =>
    simp only [Ownership.update, bind_ok, assertOwner_ok] at h
    obtain ⟨_, ho, _⟩ := h; exact ho
  | accept => exact absurd rfl ha
  | renounce =>
    simp only [Ownership.update, bind_ok, assertOwner_ok] at h
    obtain ⟨_, ho, _⟩ := h; exact ho

/-- a renounced contract has no way back: every ownership action fails -/
theorem renounced_is_final {o : Ownership} {v : Addr → Bool} {now : Nat} {sender : Addr}
    {a : OwnAction} (ho : o.owner = none) (hp : o.pending = none) :
    ∀ o', o.update v now sender a ≠ .ok o' := by
  intro o' h
  cases a with
  | transfer n e =>
    simp only [Ownership.update, bind_ok, assertOwner_ok] at h
    obtain ⟨_, ho', _⟩ := h; rw [ho] at ho'; cases ho'
  | accept =>
    simp only [Ownership.update, hp] at h
    cases h
  | renounce =>
    simp only [Ownership.update, bind_ok, assertOwner_ok] at h
    obtain ⟨_, ho', _⟩ := h; rw [ho] at ho'; cases ho'

/-- renouncing clears the pending transfer too, so the state above is what renounce produces -/
theorem renounce_result {o o' : Ownership} {v : Addr → Bool} {now : Nat} {sender : Addr}
    (h : o.update v now sender .renounce = .ok o') : o'.owner = none ∧ o'.pending = none := by
  simp only [Ownership.update, bind_ok, assertOwner_ok, pure_ok] at h
  obtain ⟨_, _, rfl⟩ := h
  exact ⟨rfl, rfl⟩

/-! ### pool manager -/

theorem pm_update_config_requires_owner {s : PmState} {env : PmEnv} {sender : Addr}
    {funds : List Coin} {fc fm : Option Addr} {fee : Option Coin} {t : Option FeatureToggle}
    (hno : s.owner.owner ≠ some sender) :
    ∀ r, pmExecute s env sender funds (.updateConfig fc fm fee t) ≠ .ok r := by
  intro r h
  simp only [pmExecute, pmUpdateConfig, bind_ok, assertOwner_ok] at h
  obtain ⟨_, _, _, ho, _⟩ := h
  exact hno ho

theorem pm_privileged_nonpayable {s : PmState} {env : PmEnv} {sender : Addr} {funds : List Coin}
    {m : PmMsg} (hm : (∃ fc fm fee t, m = .updateConfig fc fm fee t) ∨ (∃ a, m = .updateOwnership a))
    (hf : funds ≠ []) : ∀ r, pmExecute s env sender funds m ≠ .ok r := by
  intro r h
  rcases hm with ⟨fc, fm, fee, t, rfl⟩ | ⟨a, rfl⟩
  · simp only [pmExecute, bind_ok, nonpayable_ok] at h
    obtain ⟨_, hf', _⟩ := h; exact hf hf'
  · simp only [pmExecute, bind_ok, nonpayable_ok] at h
    obtain ⟨_, hf', _⟩ := h; exact hf hf'

/-- non-privileged pool-manager messages never change config or ownership -/
theorem pm_config_changes_only_by_privileged {s s' : PmState} {env : PmEnv} {sender : Addr}
    {funds : List Coin} {m : PmMsg} {r : Response}
    (h : pmExecute s env sender funds m = .ok (s', r))
    (hm : ¬ (∃ fc fm fee t, m = .updateConfig fc fm fee t) ∧ ¬ (∃ a, m = .updateOwnership a)) :
    s'.config = s.config ∧ s'.owner = s.owner := by
  rcases pmExecute_cases h with hs | ⟨d, dc, f, pt, id, rfl, hc⟩ | ⟨_, _, hpriv, _, _⟩ | ⟨_, hpriv, _⟩
  · exact hs.config_owner
  · obtain ⟨_, _, _, hcfg, hown, _⟩ := createPool_pools hc
    exact ⟨hcfg, hown⟩
  · exact absurd hpriv hm.1
  · exact absurd hpriv hm.2

/-! ### farm manager -/

theorem fm_update_config_requires_owner {s : FmState} {env : FmEnv} {sender : Addr}
    {funds : List Coin} {u : FmConfigUpdate} (hno : s.owner.owner ≠ some sender) :
    ∀ r, fmExecute s env sender funds (.updateConfig u) ≠ .ok r := by
  intro r h
  simp only [fmExecute, fmUpdateConfig, bind_ok, assertOwner_ok] at h
  obtain ⟨_, _, _, ho, _⟩ := h
  exact hno ho

theorem fm_privileged_nonpayable {s : FmState} {env : FmEnv} {sender : Addr} {funds : List Coin}
    {m : FmMsg} (hm : (∃ u, m = .updateConfig u) ∨ (∃ a, m = .updateOwnership a)) (hf : funds ≠ []) :
    ∀ r, fmExecute s env sender funds m ≠ .ok r := by
  intro r h
  rcases hm with ⟨u, rfl⟩ | ⟨a, rfl⟩
  · simp only [fmExecute, bind_ok, nonpayable_ok] at h
    obtain ⟨_, hf', _⟩ := h; exact hf hf'
  · simp only [fmExecute, bind_ok, nonpayable_ok] at h
    obtain ⟨_, hf', _⟩ := h; exact hf hf'

/-- farm expansion is reserved to the farm's owner -/
theorem expand_farm_requires_farm_owner {s : FmState} {env : FmEnv} {sender : Addr}
    {funds : List Coin} {p : FarmParams} {fid : String} {f : Farm}
    (hid : p.farmId = some fid) (hf : s.getFarm fid = .ok f) (hno : f.owner ≠ sender) :
    ∀ r, expandFarm s env sender funds p ≠ .ok r := by
  intro r h
  unfold expandFarm at h
  rw [hid] at h
  simp only [↓err_bind, bind_ok, pure_ok, ite_err_ok] at h
  obtain ⟨_, rfl, f', hf', hchk, _⟩ := h
  rw [hf] at hf'; cases hf'
  simp [hno] at hchk

/-- farm closing is reserved to the farm's owner or the contract owner -/
theorem close_farm_requires_farm_or_contract_owner {s : FmState} {sender : Addr} {funds : List Coin}
    {fid : String} {f : Farm} (hf : s.getFarm fid = .ok f) (hno : f.owner ≠ sender)
    (hnc : s.owner.owner ≠ some sender) : ∀ r, closeFarm s sender funds fid ≠ .ok r := by
  intro r h
  unfold closeFarm at h
  simp only [↓err_bind, bind_ok, pure_ok, ite_err_ok] at h
  obtain ⟨_, _, f', hf', hchk, _⟩ := h
  rw [hf] at hf'; cases hf'
  simp [hno, hnc] at hchk

/-- only a position's owner can close it -/
theorem close_position_requires_owner {s : FmState} {env : FmEnv} {sender : Addr} {funds : List Coin}
    {id : String} {lp : Option Coin} {p : Position}
    (hp : s.getPosition id = some p) (hno : p.receiver ≠ sender) :
    ∀ r, closePosition s env sender funds id lp ≠ .ok r := by
  intro r h
  unfold closePosition at h
  rw [hp] at h
  simp only [↓err_bind, bind_ok, pure_ok, ite_err_ok] at h
  obtain ⟨_, _, _, _, _, _, rfl, hchk, _⟩ := h
  simp [hno] at hchk

/-- … or withdraw it (normal or emergency) -/
theorem withdraw_position_requires_owner {s : FmState} {env : FmEnv} {sender : Addr}
    {funds : List Coin} {id : String} {em : Option Bool} {p : Position}
    (hp : s.getPosition id = some p) (hno : p.receiver ≠ sender) :
    ∀ r, withdrawPosition s env sender funds id em ≠ .ok r := by
  intro r h
  unfold withdrawPosition at h
  rw [hp] at h
  simp only [↓err_bind, bind_ok, pure_ok, ite_err_ok] at h
  obtain ⟨_, _, _, rfl, hchk, _⟩ := h
  simp [hno] at hchk

/-- only the owner or the pool manager can add to a position -/
theorem expand_position_requires_owner_or_pm {s : FmState} {env : FmEnv} {sender : Addr}
    {funds : List Coin} {id : String} {p : Position}
    (hp : s.getPosition id = some p) (hno : p.receiver ≠ sender) (hpm : sender ≠ s.config.poolManager) :
    ∀ r, expandPosition s env sender funds id ≠ .ok r := by
  intro r h
  unfold expandPosition at h
  rw [hp] at h
  simp only [↓err_bind, bind_ok, pure_ok, ite_err_ok] at h
  obtain ⟨_, rfl, _, _, _, _, _, hchk, _⟩ := h
  simp [hno, hpm] at hchk

/-- a position can be created for someone else only by the pool manager -/
theorem create_for_other_requires_pm {s : FmState} {env : FmEnv} {sender recv : Addr}
    {funds : List Coin} {id : Option String} {u : Nat}
    (hne : recv ≠ sender) (hpm : sender ≠ s.config.poolManager) :
    ∀ r, createPosition s env sender funds id u (some recv) ≠ .ok r := by
  intro r h
  unfold createPosition at h
  simp only [↓err_bind, bind_ok, pure_ok, ite_err_ok] at h
  obtain ⟨_, _, _, _, _, hchk, _⟩ := h
  simp [hpm, Ne.symm hne] at hchk

/-! ### epoch manager, fee collector -/

theorem em_privileged_requires_owner_and_no_funds {s s' : EmState} {v : Addr → Bool} {now : Nat}
    {sender : Addr} {funds : List Coin} {cfg : Option EpochConfig}
    (h : emExecute s v now sender funds (.updateConfig cfg) = .ok s') :
    funds = [] ∧ s.owner.owner = some sender := by
  simp only [emExecute, bind_ok, nonpayable_ok, assertOwner_ok] at h
  obtain ⟨_, hf, _, ho, _⟩ := h
  exact ⟨hf, ho⟩

theorem fc_only_ownership_no_funds {w w' : World} {sender : Addr} {funds : List Coin}
    {a : OwnAction} {r : Response}
    (h : callExecute w FC sender funds (.fc (.updateOwnership a)) = .ok (w', r)) :
    funds = [] ∧ r.msgs = [] ∧ w'.pm.pools = w.pm.pools ∧ w'.bank.bal = w.bank.bal := by
  unfold callExecute at h
  simp only [bne_self_eq_false, Bool.false_eq_true, if_false, bind_ok, nonpayable_ok, pure_ok] at h
  obtain ⟨_, hf, o, _, h⟩ := h
  simp only [Prod.mk.injEq] at h
  obtain ⟨rfl, rfl⟩ := h
  exact ⟨hf, rfl, rfl, rfl⟩

end MantraDex.C15
