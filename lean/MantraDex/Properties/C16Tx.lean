/-
  C16 / C02 through the runtime: the complete bank effect of the pool-manager's liquidity-side transactions.

    * `create_pool_tx_effect`: an accepted `CreatePool` costs the creator exactly the pool creation fee plus the
      token-factory fee(s); the creation fee arrives at the fee collector, the token-factory fee is destroyed
      (burned by the chain), the pool manager keeps nothing, nobody else's balance moves; the new pool has the
      requested assets / decimals / type / fees, a fresh identifier, zero reserves, everything enabled;
    * `withdraw_liquidity_tx_effect`: an accepted `WithdrawLiquidity` burns exactly the attached LP amount (supply
      falls by it), pays the sender floor(reserve × burned / supply) of every asset and reduces the reserves by
      exactly that; nothing else moves;
    * `provide_liquidity_tx_effect`: an accepted multi-asset, unlocked `ProvideLiquidity` takes exactly the attached
      coins into the reserves and mints exactly the computed shares to the receiver (plus, on the first deposit,
      the locked minimum to the pool manager itself); nothing else moves.
-/
import MantraDex.Model.System
import MantraDex.Proofs.NumLemmas
import MantraDex.Proofs.BankLemmas
import MantraDex.Properties.C02
import MantraDex.Properties.C16
import MantraDex.Properties.C04Sys
import MantraDex.Proofs.PoolTxLemmas
import MantraDex.Proofs.PoolTxProvide
import MantraDex.Proofs.PoolTxCreate
import MantraDex.Proofs.PoolTxCx

set_option linter.unusedSimpArgs false
set_option linter.unusedVariables false

namespace MantraDex.C16Tx
open MantraDex

def at_ (c : Prop) [Decidable c] (x : Int) : Int := if c then x else 0
def coinsIn (cs : List Coin) (d : Denom) : Int := ((C01.coinsOf cs d : Nat) : Int)

/-
  ORIGINAL STATEMENTS (all three false as first written; counterexamples in `Proofs/PoolTxCx.lean`):

    theorem create_pool_tx_effect (w w' : World) (u : Addr) (denoms : List Denom) (decimals : List Nat)
        (fees : PoolFee) (pt : PoolType) (id : Option String) (funds : List Coin)
        (hu : isContract u = false) (hfunds : (funds.map (·.denom)).Nodup)
        (h : runTx w (.exec u PM (.pm (.createPool denoms decimals fees pt id)) funds) = .ok w') : … (as below)

    theorem withdraw_liquidity_tx_effect (w w' : World) (u : Addr) (pid : String) (funds : List Coin) (pool : PoolInfo)
        (hu : isContract u = false) (hp : w.pm.getPool pid = .ok pool) (hids : (w.pm.pools.map (·.id)).Nodup)
        (h : runTx w (.exec u PM (.pm (.withdrawLiquidity pid)) funds) = .ok w') : … (as below)

    theorem provide_liquidity_tx_effect (w w' : World) (u : Addr) (ls ss : Option Nat) (rc : Option Addr) (pid : String)
        (funds : List Coin) (pool : PoolInfo)
        (hu : isContract u = false) (hfunds : (funds.map (·.denom)).Nodup) (h2 : 2 ≤ funds.length)
        (hp : w.pm.getPool pid = .ok pool) (hids : (w.pm.pools.map (·.id)).Nodup)
        (h : runTx w (.exec u PM (.pm (.provideLiquidity ls ss rc pid none none)) funds) = .ok w') : … (as below)

  The conclusions are unchanged.  What was missing:

  * `hcov : LpSys.Covers w.bank` (all three) — the supply of every denom covers the balances of any set of
    distinct accounts.  The bank module subtracts with truncation (`Bank.subCoin`: `supply d - amount`), so in
    a world where an account holds more of a denom than its recorded supply a plain `BankMsg::Send` CHANGES the
    supply (burn: `s - c` truncated to 0, mint: `+ c`).  Then the supply formulas fail
    (`PoolTx.Cx.create_pool_no_covers`, kernel-checked: supply of `uom` goes 0 → 10 although no `uom` is
    burned; `PoolTx.Cx.wB`/`txB`: supply of a deposited asset goes 0 → 2000), and for the withdrawal even the
    refunds are different, because the handler reads the LP supply AFTER the attached LP moved
    (`PoolTx.Cx.wA`/`txA`: balance 10, supply 5 ⇒ the handler sees supply 10 and refunds 100 instead of
    100·10/5 = 200).  `Covers` is the invariant `C02Sys.LpInv.supplyCovers` of every reachable state.
  * `htf : (w.tfFees.map (·.denom)).Nodup` (pool creation) — with a token-factory fee list that names a denom
    twice, `validate_fees_are_paid` asks for each entry separately (one payment satisfies both) while the denom
    creation burns both: the pool manager pays the second one out of its own pocket and the "exact funds"
    conjunct fails (`PoolTx.Cx.create_pool_dup_tf`, kernel-checked, in a covered world).  It is
    `C01Sys.PmInv.tfNodup`.
  * `hov` (pool creation) — a token-factory fee in the creation fee's denom must not overflow `u128` when added
    to it; otherwise `checked_add(..).unwrap_or(0)` makes the required payment 0 and the pool is created with NO
    funds while the pool manager still pays both fees (`PoolTx.Cx.create_pool_overflow`, kernel-checked, in a
    covered world; the handler-level version is `C01.create_pool_conserves_partial`).  It follows from
    `C01Sys.PmInv.tfSmall` and `C01Sys.FeeSmall`.

  Dropped as unnecessary: `hu : isContract u = false` (all three: the additive formulas are right under every
  aliasing of the parties, including `u = PM`, `u = feeCollector`, `feeCollector = PM`, a zero creation fee)
  and `hids : (w.pm.pools.map (·.id)).Nodup` (withdrawal and deposit: `getPool` returns the first pool with
  the identifier, and that one is replaced).
-/

/-- PARTIAL: added `hcov`, `htf`, `hov`; dropped `hu` (see the comment above) -/
theorem create_pool_tx_effect_partial (w w' : World) (u : Addr) (denoms : List Denom) (decimals : List Nat)
    (fees : PoolFee) (pt : PoolType) (id : Option String) (funds : List Coin)
    (hcov : LpSys.Covers w.bank) (hfunds : (funds.map (·.denom)).Nodup)
    (htf : (w.tfFees.map (·.denom)).Nodup)
    (hov : ∀ f ∈ w.tfFees, f.denom = w.pm.config.creationFee.denom →
      f.amount + w.pm.config.creationFee.amount ≤ U128_MAX)
    (h : runTx w (.exec u PM (.pm (.createPool denoms decimals fees pt id)) funds) = .ok w') :
    (∃ p, p ∈ w'.pm.pools ∧ (∀ q ∈ w.pm.pools, q.id ≠ p.id) ∧ p.denoms = denoms ∧ p.decimals = decimals ∧
      p.ptype = pt ∧ p.fees = fees ∧ p.lpDenom = lpDenomOf PM p.id ∧ p.assets = denoms.map (fun d => ⟨d, 0⟩) ∧
      p.status.swaps = true ∧ p.status.deposits = true ∧ p.status.withdrawals = true ∧
      ∀ q ∈ w.pm.pools, q ∈ w'.pm.pools) ∧
    w'.pm.config = w.pm.config ∧ w'.fm = w.fm ∧
    (∀ d, (w'.bank.supply d : Int) = (w.bank.supply d : Int) - coinsIn w.tfFees d) ∧
    ∀ a d, (w'.bank.bal a d : Int) = (w.bank.bal a d : Int)
        - at_ (a = u) (coinsIn funds d) + at_ (a = PM) (coinsIn funds d)
        - at_ (a = PM) (coinsIn [w.pm.config.creationFee] d + coinsIn w.tfFees d)
        + at_ (a = w.pm.config.feeCollector) (coinsIn [w.pm.config.creationFee] d) ∧
      -- exact funds: what was attached is the creation fee plus the token-factory fees, so the pool manager keeps nothing
      coinsIn funds d = coinsIn [w.pm.config.creationFee] d + coinsIn w.tfFees d := by
  obtain ⟨hpool, hcfg, hfm, total, b1, b2, hfees, hnoadd, m0, m1, m2, hs⟩ := PoolTx.create_pool_run hcov h
  refine ⟨hpool, hcfg, hfm, ?_, ?_⟩
  · intro d
    have := hs d
    unfold coinsIn
    omega
  · intro a d
    have e0 := m0.bal a d
    have e1 := m1.bal a d
    have e2 := m2.bal a d
    have hF := C01.fees_balance htf hfunds hov hfees hnoadd d
    rw [← C01.coinsOf_singleton] at hF
    simp only at e0
    unfold at_ coinsIn
    generalize C01.coinsOf funds d = F at *
    generalize C01.coinsOf [w.pm.config.creationFee] d = Cf at *
    generalize C01.coinsOf w.tfFees d = T at *
    generalize w.pm.config.feeCollector = fc at *
    refine ⟨?_, by omega⟩
    by_cases c1 : a = u <;> by_cases c2 : a = PM <;> by_cases c3 : a = fc <;>
      (try simp only [if_pos c1] at e0 e1 e2 ⊢) <;> (try simp only [if_neg c1] at e0 e1 e2 ⊢) <;>
      (try simp only [if_pos c2] at e0 e1 e2 ⊢) <;> (try simp only [if_neg c2] at e0 e1 e2 ⊢) <;>
      (try simp only [if_pos c3] at e0 e1 e2 ⊢) <;> (try simp only [if_neg c3] at e0 e1 e2 ⊢) <;> omega

/-- PARTIAL: added `hcov`; dropped `hu`, `hids` (see the comment above) -/
theorem withdraw_liquidity_tx_effect_partial (w w' : World) (u : Addr) (pid : String) (funds : List Coin) (pool : PoolInfo)
    (hcov : LpSys.Covers w.bank) (hp : w.pm.getPool pid = .ok pool)
    (h : runTx w (.exec u PM (.pm (.withdrawLiquidity pid)) funds) = .ok w') :
    ∃ amount refunds pool', funds = [⟨pool.lpDenom, amount⟩] ∧ amount ≠ 0 ∧ w.bank.supply pool.lpDenom ≠ 0 ∧
      refunds = (pool.assets.map fun a =>
        (⟨a.denom, a.amount * amount / w.bank.supply pool.lpDenom⟩ : Coin)).filter (·.amount > 0) ∧
      w'.pm.getPool pid = .ok pool' ∧ pool'.denoms = pool.denoms ∧ pool'.lpDenom = pool.lpDenom ∧
      (∀ d, C01.coinsOf pool'.assets d + C01.coinsOf refunds d = C01.coinsOf pool.assets d) ∧
      w'.fm = w.fm ∧
      (∀ d, (w'.bank.supply d : Int) = (w.bank.supply d : Int) - at_ (d = pool.lpDenom) (amount : Int)) ∧
      ∀ a d, (w'.bank.bal a d : Int) = (w.bank.bal a d : Int)
          - at_ (a = u ∧ d = pool.lpDenom) (amount : Int)
          + at_ (a = u) (coinsIn refunds d) - at_ (a = PM) (coinsIn refunds d) := by
  obtain ⟨amount, refunds, pool', b1, b2, hf, hne, hsup, href, hg, hd1, hd2, hres, hfm, m0, m1, m2, hs⟩ :=
    PoolTx.withdraw_run hcov hp h
  refine ⟨amount, refunds, pool', hf, hne, hsup, href, hg, hd1, hd2, hres, hfm, ?_, ?_⟩
  · intro d
    have := hs d
    rw [coinsOf_single] at this
    unfold at_
    by_cases hd : d = pool.lpDenom
    · subst hd
      simp only [if_true] at this ⊢
      omega
    · have hd' : ¬ pool.lpDenom = d := fun e => hd e.symm
      simp only [hd, hd', if_false] at this ⊢
      omega
  · intro a d
    have e0 := m0.bal a d
    have e1 := m1.bal a d
    have e2 := m2.bal a d
    rw [coinsOf_single] at e0 e2
    simp only at e0 e2
    unfold at_ coinsIn
    generalize C01.coinsOf refunds d = R at *
    by_cases hd : d = pool.lpDenom
    · subst hd
      simp only [if_true, and_true] at e0 e1 e2 ⊢
      by_cases c1 : a = u <;> by_cases c2 : a = PM <;>
        (try simp only [if_pos c1] at e0 e1 e2 ⊢) <;> (try simp only [if_neg c1] at e0 e1 e2 ⊢) <;>
        (try simp only [if_pos c2] at e0 e1 e2 ⊢) <;> (try simp only [if_neg c2] at e0 e1 e2 ⊢) <;> omega
    · have hd' : ¬ pool.lpDenom = d := fun e => hd e.symm
      simp only [hd, hd', if_false, and_false] at e0 e1 e2 ⊢
      by_cases c1 : a = u <;> by_cases c2 : a = PM <;>
        (try simp only [if_pos c1] at e0 e1 e2 ⊢) <;> (try simp only [if_neg c1] at e0 e1 e2 ⊢) <;>
        (try simp only [if_pos c2] at e0 e1 e2 ⊢) <;> (try simp only [if_neg c2] at e0 e1 e2 ⊢) <;> omega

/-- PARTIAL: added `hcov`; dropped `hu`, `hids` (see the comment above) -/
theorem provide_liquidity_tx_effect_partial (w w' : World) (u : Addr) (ls ss : Option Nat) (rc : Option Addr) (pid : String)
    (funds : List Coin) (pool : PoolInfo)
    (hcov : LpSys.Covers w.bank) (hfunds : (funds.map (·.denom)).Nodup) (h2 : 2 ≤ funds.length)
    (hp : w.pm.getPool pid = .ok pool)
    (h : runTx w (.exec u PM (.pm (.provideLiquidity ls ss rc pid none none)) funds) = .ok w') :
    ∃ shares locked pool', w'.pm.getPool pid = .ok pool' ∧ pool'.denoms = pool.denoms ∧ pool'.lpDenom = pool.lpDenom ∧
      (∀ d, C01.coinsOf pool'.assets d = C01.coinsOf pool.assets d + C01.coinsOf funds d) ∧
      (w.bank.supply pool.lpDenom ≠ 0 → locked = 0) ∧ shares ≠ 0 ∧
      w'.fm = w.fm ∧
      (∀ d, (w'.bank.supply d : Int) = (w.bank.supply d : Int) + at_ (d = pool.lpDenom) ((shares + locked : Nat) : Int)) ∧
      ∀ a d, (w'.bank.bal a d : Int) = (w.bank.bal a d : Int)
          - at_ (a = u) (coinsIn funds d) + at_ (a = PM) (coinsIn funds d)
          + at_ (a = addrOrDefault w.pmEnv rc u ∧ d = pool.lpDenom) (shares : Int)
          + at_ (a = PM ∧ d = pool.lpDenom) (locked : Int) := by
  obtain ⟨shares, locked, pool', b1, b2, hg, hd1, hd2, hres, hlock, hsh, hfm, m0, sup1, m1, m2⟩ :=
    PoolTx.provide_run hcov hfunds h2 hp h
  refine ⟨shares, locked, pool', hg, hd1, hd2, hres, hlock, hsh, hfm, ?_, ?_⟩
  · intro d
    have s1 := sup1 d
    have s2 := m1.sup d
    have s3 := m2.sup d
    rw [coinsOf_single] at s2 s3
    simp only at s2 s3
    unfold at_
    by_cases hd : d = pool.lpDenom
    · subst hd
      simp only [if_true] at s2 s3 ⊢
      omega
    · have hd' : ¬ pool.lpDenom = d := fun e => hd e.symm
      simp only [hd, hd', if_false] at s2 s3 ⊢
      omega
  · intro a d
    have e0 := m0.bal a d
    have e1 := m1.bal a d
    have e2 := m2.bal a d
    rw [coinsOf_single] at e1 e2
    simp only at e0 e1 e2
    unfold at_ coinsIn
    generalize C01.coinsOf funds d = F at *
    generalize addrOrDefault w.pmEnv rc u = rcv at *
    by_cases hd : d = pool.lpDenom
    · subst hd
      simp only [if_true, and_true] at e0 e1 e2 ⊢
      by_cases c1 : a = u <;> by_cases c2 : a = PM <;> by_cases c3 : a = rcv <;>
        (try simp only [if_pos c1] at e0 e1 e2 ⊢) <;> (try simp only [if_neg c1] at e0 e1 e2 ⊢) <;>
        (try simp only [if_pos c2] at e0 e1 e2 ⊢) <;> (try simp only [if_neg c2] at e0 e1 e2 ⊢) <;>
        (try simp only [if_pos c3] at e0 e1 e2 ⊢) <;> (try simp only [if_neg c3] at e0 e1 e2 ⊢) <;> omega
    · have hd' : ¬ pool.lpDenom = d := fun e => hd e.symm
      simp only [hd, hd', if_false, and_false, Nat.add_zero, ite_self] at e0 e1 e2 ⊢
      by_cases c1 : a = u <;> by_cases c2 : a = PM <;>
        (try simp only [if_pos c1] at e0 e1 e2 ⊢) <;> (try simp only [if_neg c1] at e0 e1 e2 ⊢) <;>
        (try simp only [if_pos c2] at e0 e1 e2 ⊢) <;> (try simp only [if_neg c2] at e0 e1 e2 ⊢) <;> omega

end MantraDex.C16Tx
