/-
  C01 at full strength, for EVERY token — including LP tokens of the pool manager and pools that list another pool's
  LP token as one of their assets (which `C01Sys` excludes by restricting itself to non-factory denoms, and `C02Sys`
  by `LpPlain`): in every state reachable by account-signed transactions, for every denom `d`,

      (sum over all pools of the reserve recorded for d)  +  (the locked minimum liquidity, if d is the LP token
      of a funded pool)   ≤   the pool manager's bank balance of d.

  So reserves are fully backed for every token, and the only LP tokens the pool manager holds beyond reserves,
  donations and the odd units of single-asset deposits are the permanently locked minimum of each funded pool.
-/
import MantraDex.Model.System
import MantraDex.Proofs.NumLemmas
import MantraDex.Properties.C01Sys
import MantraDex.Properties.C02Sys
import MantraDex.Proofs.AllSysTx

set_option linter.unusedSimpArgs false
set_option linter.unusedVariables false

namespace MantraDex.C01All
open MantraDex

/-- minimum liquidity locked in the pool manager for denom `d`: that of the funded pool whose LP token `d` is -/
def lockedMin (w : World) (d : Denom) : Nat :=
  C01.sumNat (w.pm.pools.map fun p =>
    if p.lpDenom == d && w.bank.supply d != 0 then (C02Sys.minLiqOf p).getD 0 else 0)

/-- every token: recorded reserves plus the locked minimum are covered by the real balance -/
def PmCustodyAll (w : World) : Prop := ∀ d, C01.reserves w.pm d + lockedMin w d ≤ w.bank.bal PM d

/-- the invariant carried along (the proving agent chooses the auxiliary fields; `custody` stays) -/
structure AllInv (w : World) : Prop where
  custody : PmCustodyAll w
  wf : C01.WF w.pm
  noBuffer : w.pm.buffer = none
  tfNodup : (w.tfFees.map (·.denom)).Nodup
  tfSmall : ∀ f ∈ w.tfFees, f.amount ≤ U128_MAX / 2
  lpDerived : ∀ p ∈ w.pm.pools, p.lpDenom = lpDenomOf PM p.id
  supplyCovers : ∀ d (as : List Addr), as.Nodup →
    C02Sys.sumOver as (fun a => w.bank.bal a d) ≤ w.bank.supply d
  fresh : ∀ id, (∀ p ∈ w.pm.pools, p.id ≠ id) → w.bank.supply (lpDenomOf PM id) = 0

/-! ### helpers

  Proof outline (`Proofs/AllSys*.lean`).  Per handler and per denom `d` — whatever `d` is: a reserve denom of one or
  several pools, the LP token of another (or of the same) pool, the token-factory or creation fee denom, all at once —
      reserves' d + (what the response sends out, burns, pays as factory fee, attaches to the lock call) + first d
        ≤ reserves d + funds d + (what the response sends or mints to the pool manager itself)
  (`AllSys.handler_law`; `first d` = the locked minimum minted by a first deposit into the pool whose LP token `d` is),
  and the runtime moves the pool manager's balance by exactly those message weights (`LpSys.pm_call`, needs only the
  bank invariant `supplyCovers`).  Hence balance − reserves never drops through a call and grows by `first d` exactly
  when the LP token `d` comes into existence (`AllSys.TxAll`), also through the single-asset tree (`single_all`: the
  self-swap's proceeds are sent to the pool manager itself and are exactly what the second leg deposits).
  No exclusion is needed: a pool that lists its OWN LP token as an asset is covered like any other (it simply can
  never be funded — nobody can hold the token before the first deposit mints it — but the inequality does not rely
  on that). -/

open MantraDex.LpSys (Covers Foreign)
open MantraDex.AllSys (TxAll Pre)

theorem lockedMin_eq (w : World) (d : Denom) : lockedMin w d = AllSys.lockedMin w d := rfl

/-- the invariant of `C01Sys` (custody of the non-factory denoms) is part of this one -/
theorem AllInv.toPmInv {w : World} (h : AllInv w) : C01Sys.PmInv w :=
  ⟨fun d _ => Nat.le_trans (Nat.le_add_right _ _) (h.custody d), h.wf, h.noBuffer, h.tfNodup, h.tfSmall⟩

/-- a message-executing transaction, run from the world `w0` (the pre-state with the fault counter reset) -/
theorem custody0 {w0 w' : World} {tx : Tx} (hext : C01Sys.External tx) (hpre : Pre w0)
    (hok : C16Sys.LpOk w0.pm) (hok' : C16Sys.LpOk w'.pm) (hkept : C16Sys.PoolsKept w0 w')
    (hfresh : ∀ id, (∀ p ∈ w0.pm.pools, p.id ≠ id) → w0.bank.supply (lpDenomOf PM id) = 0)
    (hcust : ∀ d, C01.reserves w0.pm d + AllSys.lockedMin w0 d ≤ w0.bank.bal PM d)
    (hr : match tx with
      | .exec sender c msg funds => execMsg FUEL w0 sender (.wasmExec c msg funds) = .ok w'
      | .send frm to coins => execMsg FUEL w0 frm (.bankSend to coins) = .ok w'
      | .advance _ => False) :
    ∀ d, C01.reserves w'.pm d + AllSys.lockedMin w' d ≤ w'.bank.bal PM d := by
  intro d
  have fin : ∀ first, TxAll w0 w' d first → C01.reserves w'.pm d + AllSys.lockedMin w' d ≤ w'.bank.bal PM d :=
    fun first t => AllSys.custody_of_txAll t (hcust d) hok hok' hkept hfresh
  cases tx with
  | exec sender c msg funds =>
    obtain ⟨hsc, hfunds⟩ := hext
    have hs := C02Sys.not_contract_ne_pm hsc
    simp only at hr
    cases msg with
    | pm m =>
      obtain ⟨first, t⟩ := AllSys.tx_pm_all hs hfunds hpre hr d
      exact fin first t
    | fm m =>
      obtain ⟨f, -⟩ := LpSys.foreign_call (n := 63) (msg := .fm m) hs (by intro pm e; cases e) hpre.cov hr
      exact fin 0 (TxAll.of_foreign f d)
    | em m =>
      obtain ⟨f, -⟩ := LpSys.foreign_call (n := 63) (msg := .em m) hs (by intro pm e; cases e) hpre.cov hr
      exact fin 0 (TxAll.of_foreign f d)
    | fc m =>
      obtain ⟨f, -⟩ := LpSys.foreign_call (n := 63) (msg := .fc m) hs (by intro pm e; cases e) hpre.cov hr
      exact fin 0 (TxAll.of_foreign f d)
  | send frm to coins =>
    have hs := C02Sys.not_contract_ne_pm hext.1
    simp only at hr
    exact fin 0 (TxAll.of_foreign (LpSys.foreign_transfer hs hpre.cov hr) d)
  | advance ns => exact hr.elim

/-- one transaction of ANY kind (committed or rejected, any injected fault) preserves the invariant -/
theorem all_inv_step (w : World) (tx : Tx) (k : Option Nat) (hext : C01Sys.External tx)
    (hfee : C01Sys.FeeSmall w) (h : AllInv w) : AllInv (step w tx k) := by
  have hpm' := C01Sys.pm_inv_step w tx k hext hfee h.toPmInv
  have hkept := (C16Sys.pools_static_step w tx k h.wf.1).1
  have hok : C16Sys.LpOk w.pm := ⟨h.wf.1, h.lpDerived⟩
  have hok' : C16Sys.LpOk (step w tx k).pm := SysPools.step_rel C16Sys.lpRel w tx k hok
  have hc : Covers w.bank := (C02Sys.covers_iff _).1 h.supplyCovers
  cases hr : runTx w tx k with
  | error e =>
    have hst : step w tx k = w := by unfold step; rw [hr]
    rw [hst]; exact h
  | ok w' =>
    have hst : step w tx k = w' := by unfold step; rw [hr]
    rw [hst] at hpm' hkept hok' ⊢
    -- the bank invariant, the fee table and the freshness of unused factory denoms
    have hcf : Covers w'.bank ∧ ∀ id, (∀ p ∈ w.pm.pools, p.id ≠ id) → w.bank.supply (lpDenomOf PM id) = 0 →
        w'.bank.supply (lpDenomOf PM id) = 0 := by
      cases tx with
      | exec sender c msg funds =>
        simp only [runTx] at hr
        have cm := C02Sys.committed0 (w0 := { w with bank := { w.bank with calls := 0, failAt := k } })
          (tx := .exec sender c msg funds) hext hc hok h.noBuffer hr
        exact ⟨cm.cov, cm.fresh⟩
      | send frm to coins =>
        simp only [runTx] at hr
        have cm := C02Sys.committed0 (w0 := { w with bank := { w.bank with calls := 0, failAt := k } })
          (tx := .send frm to coins) hext hc hok h.noBuffer hr
        exact ⟨cm.cov, cm.fresh⟩
      | advance ns =>
        simp only [runTx] at hr
        cases hr
        exact ⟨hc, fun _ _ h0 => h0⟩
    have hpre : Pre w := ⟨hc, h.wf, h.tfNodup, h.tfSmall, hfee⟩
    have hcust : ∀ d, C01.reserves w'.pm d + AllSys.lockedMin w' d ≤ w'.bank.bal PM d := by
      cases tx with
      | exec sender c msg funds =>
        simp only [runTx] at hr
        exact custody0 (w0 := { w with bank := { w.bank with calls := 0, failAt := k } })
          (tx := .exec sender c msg funds) hext ⟨hc, h.wf, h.tfNodup, h.tfSmall, hfee⟩ hok hok' hkept h.fresh
          h.custody hr
      | send frm to coins =>
        simp only [runTx] at hr
        exact custody0 (w0 := { w with bank := { w.bank with calls := 0, failAt := k } })
          (tx := .send frm to coins) hext ⟨hc, h.wf, h.tfNodup, h.tfSmall, hfee⟩ hok hok' hkept h.fresh
          h.custody hr
      | advance ns =>
        simp only [runTx] at hr
        cases hr
        exact h.custody
    refine ⟨hcust, hpm'.wf, hpm'.noBuffer, hpm'.tfNodup, hpm'.tfSmall, hok'.2, (C02Sys.covers_iff _).2 hcf.1, ?_⟩
    intro id hid
    have hid0 : ∀ p ∈ w.pm.pools, p.id ≠ id := by
      intro p hp e
      obtain ⟨p', hp', hs⟩ := hkept p hp
      exact hid p' hp' (hs.1.symm.trans e)
    exact hcf.2 id hid0 (h.fresh id hid0)

/-- the invariant in every reachable state -/
theorem all_inv_reachable (w0 : World) (h0 : AllInv w0) (txs : List (Tx × Option Nat))
    (hext : ∀ t ∈ txs, C01Sys.External t.1)
    (hfee : ∀ n, C01Sys.FeeSmall ((txs.take n).foldl (fun w t => step w t.1 t.2) w0)) :
    AllInv (txs.foldl (fun w t => step w t.1 t.2) w0) := by
  induction txs generalizing w0 with
  | nil => exact h0
  | cons t rest ih =>
    rw [List.foldl_cons]
    apply ih
    · exact all_inv_step w0 t.1 t.2 (hext t (List.mem_cons_self ..)) (hfee 0) h0
    · exact fun t' ht' => hext t' (List.mem_cons_of_mem _ ht')
    · intro n
      have := hfee (n + 1)
      rw [List.take_succ_cons, List.foldl_cons] at this
      exact this

/-- custody of every token in every reachable state -/
theorem pm_custody_all_reachable (w0 : World) (h0 : AllInv w0) (txs : List (Tx × Option Nat))
    (hext : ∀ t ∈ txs, C01Sys.External t.1)
    (hfee : ∀ n, C01Sys.FeeSmall ((txs.take n).foldl (fun w t => step w t.1 t.2) w0)) :
    PmCustodyAll (txs.foldl (fun w t => step w t.1 t.2) w0) :=
  (all_inv_reachable w0 h0 txs hext hfee).custody

/-- a fresh deployment satisfies the invariant -/
theorem all_inv_init (w : World) (hp : w.pm.pools = []) (hb : w.pm.buffer = none)
    (htf : (w.tfFees.map (·.denom)).Nodup) (hsm : ∀ f ∈ w.tfFees, f.amount ≤ U128_MAX / 2)
    (hs : ∀ d (as : List Addr), as.Nodup → C02Sys.sumOver as (fun a => w.bank.bal a d) ≤ w.bank.supply d)
    (hfresh : ∀ id, w.bank.supply (lpDenomOf PM id) = 0) : AllInv w := by
  refine ⟨?_, ?_, hb, htf, hsm, ?_, hs, fun id _ => hfresh id⟩
  · intro d
    unfold C01.reserves lockedMin
    rw [hp]
    exact Nat.zero_le _
  · unfold C01.WF
    rw [hp]
    exact ⟨List.nodup_nil, fun p hp => by cases hp⟩
  · intro p hpm; rw [hp] at hpm; cases hpm

end MantraDex.C01All
