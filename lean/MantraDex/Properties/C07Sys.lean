/-
  C06 (last clause) and C07, end to end over whole histories, on top of the reward ledger of `C06Sys`:

    * a farm's `claimed_amount` is exactly the sum of the ledger entries paid by it since it was created
      (`claimed_eq_ledger`), hence at most emission rate × elapsed farm epochs and at most its budget;
    * a claim never fails for lack of farm funds: no claim by anybody can make another user's rightful
      claim fail (`claim_never_exhausted`);
    * what a user is owed for an epoch that has begun does not depend on what anybody else does afterwards
      (other users' deposits, closes, claims in any split, farm expansions, time): while the paying farm
      exists, every non-zero entry of the user's pending claim survives any transaction signed by
      somebody else (`owed_frozen`) — so the total a user receives over a span of epochs is the same
      however their own claims and everybody else's operations are scheduled.

  STATEMENT CHANGES.
    * `claimed_eq_ledger`, `claimed_le_emitted`: proved as stated.
    * `claim_never_exhausted`: proved; the unnecessary hypothesis `hmax : MaxOk w0 txs` is dropped.
    * `owed_frozen` as stated is FALSE in the model (a farm budget above u128 lets another user's claim push
      `claimed_amount` so high that `reward + claimed` overflows u128 in `u`'s computation; counterexample `CE`,
      checked by evaluation).  Proved instead: `owed_frozen_partial`, with the added hypotheses `hov` (the
      recomputation does not overflow u128 — the failure above), `hv` and `hb` (signer's address valid, no
      pending single-asset deposit; inherited from the `C15Sys` machinery that is reused).
  Helper files: `Proofs/LedSys2*.lean`.
-/
import MantraDex.Model.System
import MantraDex.Spec.Ledger
import MantraDex.Proofs.NumLemmas
import MantraDex.Properties.C06Sys
import MantraDex.Properties.C11Sys
import MantraDex.Properties.C15Sys
import MantraDex.Proofs.LedSys2Hist
import MantraDex.Proofs.LedSys2Ex
import MantraDex.Proofs.LedSys2Owed
import MantraDex.Proofs.LedSys2Step

set_option linter.unusedSimpArgs false
set_option linter.unusedVariables false

namespace MantraDex.C07Sys
open MantraDex C06Sys

def run (w0 : World) (txs : List (Tx × Option Nat)) : World := txs.foldl (fun w t => step w t.1 t.2) w0

/-- what `u` would be paid by a claim right now (all epochs up to the current one) -/
def owed (w : World) (u : Addr) : List Entry := claimEntries w.fm w.fmEnv u none

/-- the per-LP farm limit stays within the query cap along the history (known finding F-12 otherwise) -/
def MaxOk (w0 : World) (txs : List (Tx × Option Nat)) : Prop :=
  ∀ n, (run w0 (txs.take n)).fm.config.maxConcurrentFarms ≤ C.MAX_FARMS_LIMIT

/-- the ledger invariant and its farm side in the final state of a history -/
theorem reach (w0 : World) (h0 : Fresh w0) (txs : List (Tx × Option Nat))
    (hext : ∀ t ∈ txs, C05Sys.External t.1) (hst : Stable w0 txs) :
    JInv False (ledger w0 txs) (run w0 txs) ∧ LedSys.FL (run w0 txs).fm (ledger w0 txs) := by
  have := LedSys.fl_reach (D := False) w0 h0 txs hext hst (fun h => h.elim) txs.length
  rw [List.take_length] at this
  exact this

/-- a farm's claimed amount is the sum of the ledger entries it paid since its creation (entries of an
    earlier farm that carried the same identifier all lie before its first epoch) -/
theorem claimed_eq_ledger (w0 : World) (h0 : Fresh w0) (txs : List (Tx × Option Nat))
    (hext : ∀ t ∈ txs, C05Sys.External t.1) (hst : Stable w0 txs)
    (f : Farm) (hf : f ∈ (run w0 txs).fm.farms) :
    f.claimed = sumRewards ((ledger w0 txs).filter fun x => x.farm == f.id && decide (f.startEpoch ≤ x.epoch)) :=
  (reach w0 h0 txs hext hst).2.claimed f hf

/-- cumulative payouts of a farm never exceed emission rate × its epochs that have begun, nor its budget -/
theorem claimed_le_emitted (w0 : World) (h0 : Fresh w0) (txs : List (Tx × Option Nat))
    (hext : ∀ t ∈ txs, C05Sys.External t.1) (hst : Stable w0 txs)
    (f : Farm) (hf : f ∈ (run w0 txs).fm.farms) (cur : Nat)
    (hcur : fmCurrentEpoch (run w0 txs).fm (run w0 txs).fmEnv = .ok cur) :
    f.claimed ≤ f.emissionRate * (min (cur + 1) f.endEpoch - f.startEpoch) ∧
    f.emissionRate * (f.endEpoch - f.startEpoch) ≤ f.assetAmount := by
  obtain ⟨hj, hfl⟩ := reach w0 h0 txs hext hst
  exact ⟨LedSys.claimed_le_inv hj.led hfl hj.core.finv hf hcur, hfl.budget f hf⟩

/-- no claim is ever refused for lack of farm funds, whatever was claimed by others before.
    (Dropped the unnecessary hypothesis `hmax : MaxOk w0 txs` of the stub: a truncated farm list only means
    fewer budget checks.) -/
theorem claim_never_exhausted (w0 : World) (h0 : Fresh w0) (txs : List (Tx × Option Nat))
    (hext : ∀ t ∈ txs, C05Sys.External t.1) (hst : Stable w0 txs)
    (u : Addr) (hu : isContract u = false) (un : Option Nat) :
    fmClaim (run w0 txs).fm (run w0 txs).fmEnv u [] un ≠ .error .exhausted := by
  obtain ⟨hj, hfl⟩ := reach w0 h0 txs hext hst
  exact LedSys.claim_ne_exhausted_inv hj.led hfl hj.core.finv (WSys.ext_ne hu).1 [] un

/-! ### `owed_frozen` -/

theorem run_snoc (w0 : World) (txs : List (Tx × Option Nat)) (t : Tx × Option Nat) :
    run w0 (txs ++ [t]) = step (run w0 txs) t.1 t.2 := by
  unfold run
  rw [List.foldl_append]
  rfl

theorem stable_prefix {w0 : World} {txs : List (Tx × Option Nat)} {t : Tx × Option Nat}
    (h : Stable w0 (txs ++ [t])) : Stable w0 txs := by
  intro n
  by_cases hn : n ≤ txs.length
  · have := h n
    rw [List.take_append_of_le_length hn] at this
    exact this
  · have := h txs.length
    rw [List.take_append_of_le_length (Nat.le_refl _), List.take_length] at this
    rw [List.take_of_length_le (by omega)]
    exact this

theorem farmsByLp_all {s : FmState} (hlim : ∀ lp, (s.farms.filter (·.lpDenom == lp)).length ≤ s.config.maxConcurrentFarms)
    (hmax : s.config.maxConcurrentFarms ≤ C.MAX_FARMS_LIMIT) :
    ∀ lp, ∀ g ∈ s.farms, g.lpDenom = lp → g ∈ s.farmsByLp lp s.config.maxConcurrentFarms := by
  intro lp g hg hlp
  unfold FmState.farmsByLp
  rw [List.take_of_length_le (by have := hlim lp; omega)]
  exact List.mem_filter.2 ⟨hg, by simpa using hlp⟩

/- ORIGINAL STATEMENT (false in the model, see below):

theorem owed_frozen (w0 : World) (h0 : Fresh w0) (txs : List (Tx × Option Nat)) (t : Tx × Option Nat)
    (hext : ∀ t' ∈ txs ++ [t], C05Sys.External t'.1) (hst : Stable w0 (txs ++ [t])) (hmax : MaxOk w0 (txs ++ [t]))
    (u : Addr) (hu : isContract u = false) (hsig : C15Sys.signer t.1 ≠ some u)
    (x : Entry) (hx : x ∈ owed (run w0 txs) u) (hnz : x.reward ≠ 0)
    (hfarm : ∃ f ∈ (run w0 txs).fm.farms, ∃ f' ∈ (run w0 (txs ++ [t])).fm.farms,
      f.id = x.farm ∧ f'.id = x.farm ∧ f'.startEpoch = f.startEpoch ∧ f'.emissionRate = f.emissionRate ∧
      f'.lpDenom = f.lpDenom) :
    ∃ x' ∈ owed (run w0 (txs ++ [t])) u,
      x'.lp = x.lp ∧ x'.farm = x.farm ∧ x'.epoch = x.epoch ∧ x'.uw = x.uw ∧ x'.total = x.total ∧
      x'.reward = x.reward

  COUNTEREXAMPLE (u128 overflow; checked by evaluation, `CE` below).  The model does not bound a farm's budget by
  u128 when the farm-creation fee is in another denom (`assert_farm_asset` only adds fee and reward when the
  denoms coincide), and bank balances are unbounded.  A farm with budget 6·10³⁸ > 2¹²⁸ over two epochs (rate
  3·10³⁸ ≤ u128) pays `v` (85 %), `z` (14 %) and `u` (1 %).  After `v` and `z` claimed epoch 1, `claimed` is
  2.97·10³⁸ and `u`'s pending terms still pass the check `reward + claimed ≤ u128` of `calculate_rewards`.
  Then `z` claims epoch 2 (a transaction signed by somebody else): `claimed` = 3.39·10³⁸ ≤ u128, and now
  `3·10³⁶ + claimed` overflows u128 in `u`'s computation: `calculate_rewards` fails with `overflow`, the pending
  claim of `u` is empty — `u` can never claim from this farm again.  On a real chain coin amounts are u128
  and the total supply of a denom fits u128, so the sums cannot overflow.

  REPAIR: hypothesis `hov` — recomputing `u`'s pending rewards for the LP token in the post-state does not
  overflow u128 (this is exactly the failure above; every other way for the recomputation to fail is
  excluded by the proof, in particular `exhausted`).  Two further hypotheses are inherited from the position
  theorems of `C15Sys` whose lift (`AuthSys.pos_lift`) is reused to show that a transaction of somebody else
  never touches `u`'s histories and cursor: `hv` (the signer's address is valid) and `hb` (no single-asset
  deposit is pending before the transaction; `C01Sys.PmInv.noBuffer` in reachable states).  They are most
  likely not necessary (a stale buffer is overwritten by the first leg before any reply reads it, and an
  invalid signer only makes the pool manager lock for itself), but proving that needs a second copy of the
  pool-manager analysis of `WSysPm` with `u` in place of the farm manager. -/

/-- PARTIAL (added: `hov`, `hv`, `hb`, see the comment above): what a user is owed for epochs that have begun
    is not changed by any transaction signed by somebody else, while the paying farm exists -/
theorem owed_frozen_partial (w0 : World) (h0 : Fresh w0) (txs : List (Tx × Option Nat)) (t : Tx × Option Nat)
    (hext : ∀ t' ∈ txs ++ [t], C05Sys.External t'.1) (hst : Stable w0 (txs ++ [t])) (hmax : MaxOk w0 (txs ++ [t]))
    (u : Addr) (hu : isContract u = false) (hsig : C15Sys.signer t.1 ≠ some u)
    (hv : ∀ s, C15Sys.signer t.1 = some s → (run w0 txs).validAddr s = true)
    (hb : (run w0 txs).pm.buffer = none)
    (x : Entry) (hx : x ∈ owed (run w0 txs) u) (hnz : x.reward ≠ 0)
    (hfarm : ∃ f ∈ (run w0 txs).fm.farms, ∃ f' ∈ (run w0 (txs ++ [t])).fm.farms,
      f.id = x.farm ∧ f'.id = x.farm ∧ f'.startEpoch = f.startEpoch ∧ f'.emissionRate = f.emissionRate ∧
      f'.lpDenom = f.lpDenom)
    (hov : ∀ cur', fmCurrentEpoch (run w0 (txs ++ [t])).fm (run w0 (txs ++ [t])).fmEnv = .ok cur' →
      calculateRewards (run w0 (txs ++ [t])).fm (run w0 (txs ++ [t])).fmEnv x.lp u cur' ≠ .error .overflow) :
    ∃ x' ∈ owed (run w0 (txs ++ [t])) u,
      x'.lp = x.lp ∧ x'.farm = x.farm ∧ x'.epoch = x.epoch ∧ x'.uw = x.uw ∧ x'.total = x.total ∧
      x'.reward = x.reward := by
  have hext1 : ∀ t' ∈ txs, C05Sys.External t'.1 := fun t' ht' => hext t' (List.mem_append_left _ ht')
  have hextt : C05Sys.External t.1 := hext t (List.mem_append_right _ (List.mem_singleton.2 rfl))
  have hst1 := stable_prefix hst
  obtain ⟨hj, hfl⟩ := reach w0 h0 txs hext1 hst1
  obtain ⟨hj', hfl'⟩ := reach w0 h0 (txs ++ [t]) hext hst
  -- stability before and after the last transaction
  obtain ⟨⟨a1', a2', _⟩, a4'⟩ := hst txs.length
  obtain ⟨⟨b1', b2', b3'⟩, _⟩ := hst (txs.length + 1)
  rw [List.take_append_of_le_length (Nat.le_refl _), List.take_length] at a1' a2' a4'
  rw [List.take_of_length_le (by simp)] at b1' b2' b3'
  have a1 : (run w0 txs).em.cfg = w0.em.cfg := a1'
  have a2 : (run w0 txs).fm.config.epochManager = w0.fm.config.epochManager := a2'
  have a4 : (run w0 txs).fm.config.poolManager = PM := a4'
  have b1 : (run w0 (txs ++ [t])).em.cfg = w0.em.cfg := b1'
  have b2 : (run w0 (txs ++ [t])).fm.config.epochManager = w0.fm.config.epochManager := b2'
  have b3 : (run w0 (txs ++ [t])).nowNs ≤ U64_MAX := b3'
  clear a1' a2' a4' b1' b2' b3'
  have hfinv : C05Sys.FmInv (run w0 txs) :=
    C05Sys.fm_inv_reachable w0 (C05Sys.fm_inv_init w0 h0.positions h0.farms) txs hext1
  have hmaxF : (run w0 (txs ++ [t])).fm.config.maxConcurrentFarms ≤ C.MAX_FARMS_LIMIT := by
    have := hmax (txs.length + 1)
    rw [List.take_of_length_le (by simp)] at this
    exact this
  have hlimit : C11Sys.FarmLimit (run w0 (txs ++ [t])) :=
    C11Sys.farm_limit_reachable_final w0 (by rw [h0.farms]; exact List.nodup_nil)
      (by intro lp; rw [h0.farms]; exact Nat.zero_le _) (txs ++ [t]) hmaxF
  generalize hw : run w0 txs = w at *
  have hw' : run w0 (txs ++ [t]) = step w t.1 t.2 := by rw [run_snoc, hw]
  rw [hw'] at hj' hfl' hfarm hov hlimit hmaxF b1 b2 b3 ⊢
  -- the current epoch before
  obtain ⟨cur, hcur⟩ : ∃ cur, fmCurrentEpoch w.fm w.fmEnv = .ok cur := by
    unfold owed claimEntries at hx
    cases hc : fmCurrentEpoch w.fm w.fmEnv with
    | ok cur => exact ⟨cur, rfl⟩
    | error e => rw [hc] at hx; cases hx
  -- one transaction: frozen totals, farm descent, epochs move forward
  obtain ⟨⟨hfrz, _⟩, hmono⟩ := LedSys.step_carried2 (P := fun s => LedSys.Frz w.fm w.fmEnv cur s ∧
      (s.farms.map (·.id)).Nodup) w t.1 t.2 (LedSys.frz_carried2 hcur) LedSys.frz_claim
    (fun s s' hp hh hf hem => ⟨LedSys.frz_cfg s s' hp.1 hh hf hem, by rw [hf]; exact hp.2⟩)
    hextt (b1.trans a1.symm) (b2.trans a2.symm) b3 hj.core a4 ⟨LedSys.frz_refl _ _ _, hfl.nodup⟩
  obtain ⟨cur', hcur', hle⟩ := hmono cur hcur
  have hsame := LedSys.sameU_step w t.1 t.2 u hu hextt hsig hv hfinv.toWF hb a4
  obtain ⟨f, hf, f', hf', e1, e2, e3, e4, e5⟩ := hfarm
  have hend : f.startEpoch ≤ cur → f.endEpoch ≤ f'.endEpoch := by
    intro hsc
    rcases hfrz.farms f' hf' with ⟨g, hg, g1, g2, g3⟩ | hlt
    · have : g = f := FH.nodup_key_inj Farm.id w.fm.farms hfl.nodup g hg f hf (g1.trans (e2.trans e1.symm))
      subst this
      exact g3
    · omega
  exact LedSys.owed_transport hj.core.finv hj.led hfl hj'.core.finv hj'.led hfl' rfl hcur hcur' hle
    (WSys.ext_ne hu).1 hsame hfrz.total (farmsByLp_all hlimit hmaxF) hx hnz hf hf' e1 e2 e3 e4 e5 hend
    (hov cur' hcur')

/-! #### the counterexample to the original `owed_frozen` (checked by evaluation)

      #eval (owed (run CE.w0 CE.txs) "u").map fun x => (x.farm, x.epoch, x.uw, x.total, x.reward)
      -- [("m-f", 1, 1000, 100000, 3·10³⁶), ("m-f", 2, 1000, 100000, 3·10³⁶)]
      #eval (owed (run CE.w0 (CE.txs ++ [CE.t])) "u").length                    -- 0
      #eval (run CE.w0 CE.txs).fm.farms.map (·.claimed)                          -- [297·10³⁶]
      #eval (run CE.w0 (CE.txs ++ [CE.t])).fm.farms.map (·.claimed)              -- [339·10³⁶],  u128 ≈ 340.28·10³⁶
-/

namespace CE
def lp : Denom := "factory/pm/x.LP"
def own : Ownership := { owner := some "owner" }
def big : Nat := 600000000000000000000000000000000000000
def w0 : World := {
  bank := { bal := fun a d => (if (a == "u" || a == "v" || a == "z") && d == lp then 1000000
                               else if a == "o" && d == "uom" then 10 * big else 0),
            supply := fun _ => 0 },
  pm := { config := { feeCollector := FC, farmManager := FM, creationFee := ⟨"uom", 0⟩ }, owner := own },
  fm := { config := ⟨FC, EM, PM, ⟨"fee", 0⟩, 5, 14, 86400, 31536000, 2629746, 0⟩, owner := own },
  em := { cfg := ⟨86400, 0⟩, owner := own },
  fc := own, nowNs := 0, tfFees := [], validAddr := fun _ => true }
def day : Tx × Option Nat := (.advance (86400 * NANOS), none)
def txs : List (Tx × Option Nat) := [
  (.exec "v" FM (.fm (.createPosition none 86400 none)) [⟨lp, 85000⟩], none),
  (.exec "z" FM (.fm (.createPosition none 86400 none)) [⟨lp, 14000⟩], none),
  (.exec "u" FM (.fm (.createPosition none 86400 none)) [⟨lp, 1000⟩], none),
  (.exec "o" FM (.fm (.createFarm ⟨lp, some 1, some 3, ⟨"uom", big⟩, some "f"⟩)) [⟨"uom", big⟩], none),
  day,
  (.exec "v" FM (.fm (.claim none)) [], none),
  (.exec "z" FM (.fm (.claim none)) [], none),
  day]
/-- the transaction signed by somebody else: `z` claims epoch 2 -/
def t : Tx × Option Nat := (.exec "z" FM (.fm (.claim none)) [], none)

/-- `Stable` and `MaxOk`, as a computation over the prefixes -/
def stableB : Bool := (List.range ((txs ++ [t]).length + 1)).all fun n =>
  let w := run w0 ((txs ++ [t]).take n)
  w.em.cfg == w0.em.cfg && w.fm.config.epochManager == w0.fm.config.epochManager &&
    decide (w.nowNs ≤ U64_MAX) && w.fm.config.poolManager == PM &&
    decide (w.fm.config.maxConcurrentFarms ≤ C.MAX_FARMS_LIMIT)
end CE

theorem CE.fresh : Fresh CE.w0 := ⟨rfl, rfl, rfl, rfl, rfl⟩

theorem CE.external : ∀ t' ∈ CE.txs ++ [CE.t], C05Sys.External t'.1 := by
  intro t' ht
  simp only [CE.txs, CE.t, CE.day, List.cons_append, List.nil_append, List.mem_cons, List.not_mem_nil,
    or_false] at ht
  rcases ht with rfl | rfl | rfl | rfl | rfl | rfl | rfl | rfl | rfl <;>
    first | trivial | exact ⟨by decide, by decide⟩

theorem CE.signer : C15Sys.signer CE.t.1 ≠ some "u" := by decide

#guard CE.stableB
-- before: `u` is owed 3·10³⁶ for epoch 1 by the farm "m-f"; the buffer is empty
#guard ((owed (run CE.w0 CE.txs) "u").filter fun x => x.farm == "m-f" && x.epoch == 1 && x.reward != 0).length == 1
#guard (run CE.w0 CE.txs).pm.buffer.isNone
-- the farm is there before and after, with the same start, rate and LP token
#guard (run CE.w0 CE.txs).fm.farms.map (fun f => (f.id, f.startEpoch, f.emissionRate, f.lpDenom)) ==
  (run CE.w0 (CE.txs ++ [CE.t])).fm.farms.map (fun f => (f.id, f.startEpoch, f.emissionRate, f.lpDenom))
#guard (run CE.w0 CE.txs).fm.farms.map (·.id) == ["m-f"]
-- after `z`'s claim: nothing is owed to `u` any more — the recomputation overflows u128
#guard (owed (run CE.w0 (CE.txs ++ [CE.t])) "u").length == 0
#guard (match calculateRewards (run CE.w0 (CE.txs ++ [CE.t])).fm (run CE.w0 (CE.txs ++ [CE.t])).fmEnv CE.lp "u" 2 with
  | .error .overflow => true | _ => false)

end MantraDex.C07Sys
