/-
  C14, the main clause, through the runtime: providing liquidity with one asset has exactly the effect
  of the depositor swapping half of it and then depositing that half plus the swap proceeds — same
  pools (reserves, fees, everything), same LP supply, same LP to the chosen receiver, same fees to the
  collector, same balances for everybody; the only difference is the odd unit of an odd deposit, which
  stays in the pool manager's balance (outside the reserves) instead of in the depositor's wallet.
  (Unlocked deposits; the locked variants differ only in who the LP is minted to.)

  PARTIAL.  The statement as first written (`single_asset_equals_two_step`, no hypotheses on the
  starting world) is false in three corners of ill-formed worlds; each was reproduced with `#eval`
  through `runTx` (definitions `cxWorld`, `cxA`, `cxB` at the end of this file: a constant-product pool
  `x/y` with reserves 10^6/10^6, LP supply 10^6, `alice` holding 5000 `x`, deposit `1001 x`, no
  tolerances, no receiver):

  1. a stale single-side buffer: with `w.pm.buffer = some junk` transaction A ends with the buffer
     cleared (`none`) while neither transaction of B touches it (`some junk`), so `wA.pm ≠ wB.pm`
     whatever `askDenom`/`ret` are;
  2. a depositor that is not a valid address while the pool manager is one (`validAddr "alice" = false`,
     `validAddr PM = true`): A records `alice` as receiver, the second leg re-validates it, falls back
     to its own sender — the pool manager — and mints the LP to the pool manager (A is accepted, 499 LP
     to `PM`); in B the deposit by `alice` is refused (`invalid_input`) whatever `askDenom`/`ret` are;
  3. a bank whose recorded supply of the deposited denom is below the deposit (`supply x = 700 <
     1001 ≤ bal alice x`): a bank send is burn-then-mint with a truncating burn on the supply, so A
     leaves `supply x = 1001` and B (which only ever moves 500) leaves `supply x = 700`.

  Well-formed worlds exclude all three (the buffer is empty between transactions, transaction senders
  are validated addresses, every balance is part of the supply); the extra hypotheses `hbuf`, `hvu`,
  `hsup` are exactly these three facts, nothing else was added and the conclusion is unchanged.
-/
import MantraDex.Model.System
import MantraDex.Proofs.NumLemmas
import MantraDex.Proofs.BankLemmas
import MantraDex.Proofs.TwoStepLemmas

set_option linter.unusedSimpArgs false
set_option linter.unusedVariables false

namespace MantraDex.C14Eq
open MantraDex

theorem not_contract_ne_pm {a : Addr} (h : isContract a = false) : a ≠ PM := by
  rintro rfl
  revert h
  decide

/-- clearing an empty buffer changes nothing -/
theorem clear_buffer_eq {s : PmState} (h : s.buffer = none) : ({ s with buffer := none } : PmState) = s := by
  obtain ⟨cfg, pools, ctr, buf, own⟩ := s
  simp only at h
  subst h
  rfl

/-- A: one single-asset deposit `c` by the account `u`.
    B: `u` swaps ⌊c/2⌋ for the other asset (same swap tolerance, proceeds to `u`), then deposits that
    half together with the proceeds (same deposit tolerance, same receiver).
    If A is accepted, B is accepted step by step and ends in the same world, up to the odd unit. -/
theorem single_asset_equals_two_step_partial (w wA : World) (u : Addr) (c : Coin) (ls ss : Option Nat)
    (recv : Option Addr) (pid : String)
    (hu : isContract u = false)
    (hbuf : w.pm.buffer = none) (hvu : w.validAddr u = true)
    (hsup : c.amount ≤ w.bank.supply c.denom)
    (hA : runTx w (.exec u PM (.pm (.provideLiquidity ls ss recv pid none none)) [c]) = .ok wA) :
    ∃ (askDenom : Denom) (ret : Nat) (w1 wB : World),
      askDenom ≠ c.denom ∧
      runTx w (.exec u PM (.pm (.swap askDenom none ss none pid)) [⟨c.denom, c.amount / 2⟩]) = .ok w1 ∧
      runTx w1 (.exec u PM (.pm (.provideLiquidity ls ss recv pid none none))
        [⟨c.denom, c.amount / 2⟩, ⟨askDenom, ret⟩]) = .ok wB ∧
      wA.pm = wB.pm ∧ wA.fm = wB.fm ∧ wA.em.cfg = wB.em.cfg ∧
      wA.bank.supply = wB.bank.supply ∧
      (∀ a d, ¬(d = c.denom ∧ (a = PM ∨ a = u)) → wA.bank.bal a d = wB.bank.bal a d) ∧
      wA.bank.bal PM c.denom = wB.bank.bal PM c.denom + c.amount % 2 ∧
      wA.bank.bal u c.denom + c.amount % 2 = wB.bank.bal u c.denom := by
  have huPM : u ≠ PM := not_contract_ne_pm hu
  obtain ⟨o, am⟩ := c
  simp only at hsup ⊢
  have hA' : execMsg 64 (w.at { w.bank with calls := 0, failAt := none } w.pm) u
      (.wasmExec PM (.pm (.provideLiquidity ls ss recv pid none none)) [⟨o, am⟩]) = .ok wA := hA
  obtain ⟨bA1, bA2, bA3, bA4, bA5, pool, ask, sim, y, sA6, rA6, ms, h1, hp, hsim, h2, hcore, h3, e1, e2, h4,
    hprov2, hms, hmint, hfuel, h5, rfl⟩ := single_run_inv hA'
  simp only at h1 hsim h2 hcore h3 e1 e2 h4 hprov2
  obtain ⟨hne, hhalf0, hps⟩ := swapCore_inv hcore
  simp only at hne
  obtain ⟨pool', c', hp', hc', -, -, hret, hburn, hprot, -⟩ := C12.performSwap_inv hps
  rw [hp] at hp'; cases hp'
  rw [hsim] at hc'; cases hc'
  rw [hret, hburn, hprot] at h3
  have hybuf : y.1.buffer = none := by rw [performSwap_buffer hps]; exact hbuf
  rw [clear_buffer_eq hybuf] at hprov2
  -- the bank side of B
  obtain ⟨bB1, bB2, bB3, hB1, hB2, hB3, hrel⟩ :=
    bank_two_step (tf := w.tfFees) (b0 := { w.bank with calls := 0, failAt := none }) huPM (fun e => hne e.symm) rfl hsup h1 h2 h3 e2 h4
  obtain ⟨bB4, hB4, hrel'⟩ := mints_rel ms hmint hrel h5
  obtain ⟨hs', -, -, hb'⟩ := hrel'
  -- the deposit handler sees the same thing in both runs
  obtain ⟨deps, hagg, -⟩ := pl_agg hprov2
  have hlen : deps.length ≠ 1 := by
    rw [aggregateCoins_length (by simp [hne]) hagg]; simp
  have haddr : addrOrDefault (w.env bB3 y.1) recv u =
      addrOrDefault (w.env bA4 y.1) (some (addrOrDefault (w.env bA1 w.pm) recv u)) PM := by
    have hv : ∀ b s a, (w.env b s).validAddr a = w.validAddr a := fun _ _ _ => rfl
    cases recv with
    | none => simp only [addrOrDefault, hv, hvu, if_true]
    | some a =>
      by_cases ha : w.validAddr a = true
      · simp only [addrOrDefault, hv, ha, if_true]
      · simp only [addrOrDefault, hv, ha, hvu, if_true, if_false, Bool.false_eq_true]
  have hcongr := provide_multi_congr y.1 (w.env bB3 y.1) (w.env bA4 y.1) u PM _ deps ls ss recv
    (some (addrOrDefault (w.env bA1 w.pm) recv u)) pid hagg hlen rfl hrel.1.symm rfl haddr
  refine ⟨ask, sim.ret, w.at bB2 y.1, w.at bB4 sA6, fun e => hne e.symm, ?_, ?_, rfl, rfl, rfl, hs', ?_, ?_, ?_⟩
  · -- the swap
    show execMsg (63 + 1) (w.at { w.bank with calls := 0, failAt := none } w.pm) u
      (.wasmExec PM (.pm (.swap ask none ss none pid)) [⟨o, am / 2⟩]) = _
    rw [execMsg_pm_at 63 w _ _ u _ _ rfl, hB1]
    simp only [ok_bind, pmExecute]
    rw [swapHandler_eq, hcore]
    show execSubs 63 (w.at bB1 y.1) PM
      ((swapMsgs u w.pm.config.feeCollector y.2.ret y.2.burnFee y.2.protocolFee).map mkSub) = _
    rw [hret, hburn, hprot, execSubs_leaf_at _ 63 w bB1 _ PM (swapMsgs_leaf _ _ _ _ _)
      (by have := swapMsgs_length u w.pm.config.feeCollector ⟨ask, sim.ret⟩ ⟨ask, sim.burnFee⟩
            ⟨ask, sim.protocolFee⟩; omega), hB2]
    rfl
  · -- the deposit
    show execMsg (63 + 1) (w.at { bB2 with calls := 0, failAt := none } y.1) u
      (.wasmExec PM (.pm (.provideLiquidity ls ss recv pid none none)) [⟨o, am / 2⟩, ⟨ask, sim.ret⟩]) = _
    rw [execMsg_pm_at 63 w _ _ u _ _ rfl, hB3]
    simp only [ok_bind, pmExecute]
    rw [hcongr, hprov2]
    show execSubs 63 (w.at bB3 sA6) PM rA6.msgs = _
    rw [hms, execSubs_leaf_at ms 63 w bB3 _ PM (fun m hm => isMint_leaf (hmint m hm)) (by omega), hB4]
    rfl
  · intro a d hnot
    have := hb' a d
    show bA5.bal a d = bB4.bal a d
    by_cases hd : o = d
    · subst hd
      have h1' : ¬ a = PM := fun e => hnot ⟨rfl, Or.inl e⟩
      have h2' : ¬ a = u := fun e => hnot ⟨rfl, Or.inr e⟩
      simp only [h1', h2', false_and, if_false] at this
      omega
    · simp only [hd, and_false, if_false] at this
      omega
  · have := hb' PM o
    show bA5.bal PM o = bB4.bal PM o + am % 2
    have hPu : ¬ PM = u := fun e => huPM e.symm
    simp only [hPu, false_and, if_false, true_and, if_true] at this
    omega
  · have := hb' u o
    show bA5.bal u o + am % 2 = bB4.bal u o
    simp only [huPM, false_and, if_false, true_and, if_true, and_self] at this
    omega

/-! ### counterexamples to the statement without `hbuf` / `hvu` / `hsup` (run with `#eval`) -/

def cxLp : Denom := "factory/pm/p.LP"
def cxPool : PoolInfo := {
  id := "p", denoms := ["x","y"], lpDenom := cxLp, decimals := [6,6]
  assets := [⟨"x", 1000000⟩, ⟨"y", 1000000⟩], ptype := .cp, fees := ⟨0,0,0,[]⟩, status := {} }
def cxJunk : SingleSideBuffer := {
  receiver := "z", expOffer := ⟨"x",0⟩, expAsk := ⟨"y",0⟩, offerHalf := ⟨"x",0⟩, expectedAsk := ⟨"y",0⟩
  swapSlip := none, liqSlip := none, poolId := "p", unlocking := none, lockId := none }
def cxFm : FmState := {
  config := ⟨FC, EM, PM, ⟨"x",0⟩, 1, 1, 1, 2, 1, 0⟩, owner := { owner := some "o" } }
def cxWorld (buf : Option SingleSideBuffer) (valid : Addr → Bool) (supplyX : Nat) : World := {
  bank := {
    bal := fun a d => if a = "alice" ∧ d = "x" then 5000 else if a = PM ∧ (d = "x" ∨ d = "y") then 1000000 else 0
    supply := fun d => if d = "x" then supplyX else if d = "y" then 1000000 else if d = cxLp then 1000000 else 0 }
  pm := { config := ⟨FC, FM, ⟨"x", 0⟩⟩, pools := [cxPool], owner := { owner := some "o" }, buffer := buf }
  fm := cxFm
  em := { cfg := ⟨86400, 0⟩, owner := { owner := some "o" } }
  fc := { owner := some "o" }, nowNs := 0, tfFees := [], validAddr := valid }
/-- A: `alice` deposits `1001 x` -/
def cxA : Tx := .exec "alice" PM (.pm (.provideLiquidity none none none "p" none none)) [⟨"x", 1001⟩]
/-- B: `alice` swaps `500 x` (for `499 y`), then deposits `500 x + 499 y` -/
def cxB (w : World) : R World := do
  let w1 ← runTx w (.exec "alice" PM (.pm (.swap "y" none none none "p")) [⟨"x", 500⟩])
  runTx w1 (.exec "alice" PM (.pm (.provideLiquidity none none none "p" none none)) [⟨"x", 500⟩, ⟨"y", 499⟩])
/-- (buffer set?, supply of `x`, LP of the pool manager, LP of `alice`) -/
def cxShow (w : World) : R (Bool × Nat × Nat × Nat) :=
  .ok (w.pm.buffer.isSome, w.bank.supply "x", w.bank.bal PM cxLp, w.bank.bal "alice" cxLp)

/-  well-formed world: A and B agree
      #eval runTx (cxWorld none (fun _ => true) 1005000) cxA >>= cxShow          -- ok (false, 1005000, 0, 499)
      #eval cxB (cxWorld none (fun _ => true) 1005000) >>= cxShow                -- ok (false, 1005000, 0, 499)
    1. stale buffer (without `hbuf`)
      #eval runTx (cxWorld (some cxJunk) (fun _ => true) 1005000) cxA >>= cxShow -- ok (false, 1005000, 0, 499)
      #eval cxB (cxWorld (some cxJunk) (fun _ => true) 1005000) >>= cxShow       -- ok (true, 1005000, 0, 499)
    2. the sender is not a valid address (without `hvu`)
      #eval runTx (cxWorld none (fun a => a != "alice") 1005000) cxA >>= cxShow  -- ok (false, 1005000, 499, 0)
      #eval cxB (cxWorld none (fun a => a != "alice") 1005000) >>= cxShow        -- error invalidInput
    3. supply below the deposit (without `hsup`)
      #eval runTx (cxWorld none (fun _ => true) 700) cxA >>= cxShow              -- ok (false, 1001, 0, 499)
      #eval cxB (cxWorld none (fun _ => true) 700) >>= cxShow                    -- ok (false, 700, 0, 499)  -/

end MantraDex.C14Eq
