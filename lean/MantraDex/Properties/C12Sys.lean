/-
  C12, C13 and C04 (routes) through the runtime AND through the query entry points of `Model/Queries.lean`:

    * an accepted `Swap` transaction delivers to the receiver exactly what the `Simulation` query answered
      an instant before, with exactly the quoted fees, and it satisfies the price protection the caller asked
      for (`swap_tx_equals_simulation`, `swap_tx_within_slippage`);
    * an accepted `ExecuteSwapOperations` transaction has the exact bank effect of its chain of hops (the
      offer in, only the final output to the receiver, each hop's protocol fee to the fee collector, each burn
      fee destroyed, nothing else moves — `route_tx_effect`), delivers at least `minimum_receive`
      (`route_tx_min_receive`), and, when the route visits each pool at most once, delivers exactly the
      `SimulateSwapOperations` answer whenever that query answers (`route_tx_simulation_agrees`,
      `route_tx_chain`); the query does answer when no denom is the output of two hops
      (`route_tx_equals_simulation_partial`); without that it can fail on a u128 overflow of its aggregated
      fee lists although the route executes (`route_tx_equals_simulation_counterexample`);
    * the query functions themselves: `SimulateSwapOperations` is the chained `Simulation`
      (`simops_amount_eq_chain`); on a constant-product pool without fees, offering the `ReverseSimulation`
      quote plus one yields at least the requested amount through the `Simulation` query
      (`reverse_query_plus_one_suffices_partial`; with fees: known finding F-09).
-/
import MantraDex.Model.System
import MantraDex.Model.Queries
import MantraDex.Proofs.NumLemmas
import MantraDex.Proofs.BankLemmas
import MantraDex.Properties.C04Sys
import MantraDex.Properties.C12
import MantraDex.Properties.C13
import MantraDex.Proofs.QSysQuery
import MantraDex.Proofs.QSysTx
import MantraDex.Proofs.QSysRoute

set_option linter.unusedSimpArgs false
set_option linter.unusedVariables false

namespace MantraDex.C12Sys
open MantraDex

def amt (c : Coin) (d : Denom) : Int := if c.denom = d then (c.amount : Int) else 0
def at_ (a b : Addr) (x : Int) : Int := if a = b then x else 0

/-- bank effect on (account `a`, denom `d`) of one fee message of a route, sent by the pool manager -/
def feeMsgEffect (fc : Addr) (a : Addr) (d : Denom) : Msg → Int
  | .bankSend to cs => at_ a to ((C01.coinsOf cs d : Nat) : Int) - at_ a PM ((C01.coinsOf cs d : Nat) : Int)
  | .bankBurn cs => - at_ a PM ((C01.coinsOf cs d : Nat) : Int)
  | _ => 0

def sumInt (xs : List Int) : Int := xs.foldl (· + ·) 0

/-- the `Simulation` query answers exactly what an immediately following accepted `Swap` delivers and charges -/
theorem swap_tx_equals_simulation (w w' : World) (u : Addr) (offer : Coin) (ask : Denom) (b ms : Option Nat)
    (recv : Option Addr) (pid : String)
    (h : runTx w (.exec u PM (.pm (.swap ask b ms recv pid)) [offer]) = .ok w') :
    ∃ c, querySimulation w.pm offer ask pid = .ok c ∧
      ∀ a d, (w'.bank.bal a d : Int) = (w.bank.bal a d : Int)
          - at_ a u (amt offer d) + at_ a PM (amt offer d)
          - at_ a PM (amt ⟨ask, c.ret + c.protocolFee + c.burnFee⟩ d)
          + at_ a (addrOrDefault w.pmEnv recv u) (amt ⟨ask, c.ret⟩ d)
          + at_ a w.pm.config.feeCollector (amt ⟨ask, c.protocolFee⟩ d) := by
  obtain ⟨b1, x, y, b4, s1, r, hps, m0, m1, m2, m3, rfl⟩ := swap_run_inv h
  obtain ⟨pool, c, hp, hc, -, -, h1, h2, h3, -⟩ := C12.performSwap_inv hps
  refine ⟨c, ?_, ?_⟩
  · unfold querySimulation
    simp only [bind_ok]
    exact ⟨pool, hp, hc⟩
  intro a d
  have e0 := m0.bal a d
  have e1 := m1.bal a d
  have e2 := m2.bal a d
  have e3 := m3.bal a d
  rw [h1] at e1
  rw [h2] at e2
  rw [h3] at e3
  simp only [coinsOf_single] at e0 e1 e2 e3
  simp only [amt, at_]
  generalize addrOrDefault w.pmEnv recv u = rc at *
  generalize w.pm.config.feeCollector = fc at *
  by_cases c0 : ask = d <;> by_cases c5 : offer.denom = d <;>
    (try simp only [if_pos c0] at e0 e1 e2 e3 ⊢) <;> (try simp only [if_neg c0] at e0 e1 e2 e3 ⊢) <;>
    (try simp only [if_pos c5] at e0 e1 e2 e3 ⊢) <;> (try simp only [if_neg c5] at e0 e1 e2 e3 ⊢) <;>
    by_cases c1 : a = u <;> by_cases c2 : a = PM <;> by_cases c3 : a = rc <;> by_cases c4 : a = fc <;>
    (try simp only [if_pos c1] at e0 e1 e2 e3 ⊢) <;> (try simp only [if_neg c1] at e0 e1 e2 e3 ⊢) <;>
    (try simp only [if_pos c2] at e0 e1 e2 e3 ⊢) <;> (try simp only [if_neg c2] at e0 e1 e2 e3 ⊢) <;>
    (try simp only [if_pos c3] at e0 e1 e2 e3 ⊢) <;> (try simp only [if_neg c3] at e0 e1 e2 e3 ⊢) <;>
    (try simp only [if_pos c4] at e0 e1 e2 e3 ⊢) <;> (try simp only [if_neg c4] at e0 e1 e2 e3 ⊢) <;>
    omega

/-- an accepted `Swap` passed the caller's price protection on the pre-trade pool: without a belief price,
    slippage / (return + slippage) ≤ min(max_slippage or 1 %, 50 %) -/
theorem swap_tx_within_slippage (w w' : World) (u : Addr) (offer : Coin) (ask : Denom) (ms : Option Nat)
    (recv : Option Addr) (pid : String) (k : Option Nat)
    (h : runTx w (.exec u PM (.pm (.swap ask none ms recv pid)) [offer]) k = .ok w') :
    ∃ c, querySimulation w.pm offer ask pid = .ok c ∧ c.ret + c.slippage ≠ 0 ∧
      c.slippage * ONE18 / (c.ret + c.slippage) ≤ C13.effTol ms := by
  obtain ⟨s1, r, hps⟩ := QSys.swap_tx_performSwap h
  obtain ⟨pool, c, hp, hc, hams⟩ := QSys.performSwap_slippage hps
  obtain ⟨hne, hle⟩ := QSys.maxSlippage_none_ok hams
  refine ⟨c, ?_, hne, hle⟩
  unfold querySimulation
  simp only [bind_ok]
  exact ⟨pool, hp, hc⟩

theorem at_eq : at_ = QSys.at_ := rfl
theorem sumInt_eq : sumInt = QSys.sumInt := rfl
theorem feeMsgEffect_eq : feeMsgEffect = QSys.feeMsgEffect := by
  funext fc a d m
  cases m <;> rfl

/-- exact bank effect of an accepted route -/
theorem route_tx_effect (w w' : World) (u : Addr) (ops : List SwapOp) (mr : Option Nat) (recv : Option Addr)
    (ms : Option Nat) (funds : List Coin)
    (h : runTx w (.exec u PM (.pm (.execSwapOps ops mr recv ms)) funds) = .ok w') :
    ∃ first last amount s1 out feeMsgs,
      ops.head? = some first ∧ ops.getLast? = some last ∧ funds = [⟨first.tokenIn, amount⟩] ∧
      routeHops w.pm ms ops ⟨first.tokenIn, amount⟩ [] = .ok (s1, out, feeMsgs) ∧
      w'.pm = s1 ∧ w'.fm = w.fm ∧
      (∀ m ∈ feeMsgs, (∃ cs, m = Msg.bankBurn cs) ∨ (∃ cs, m = Msg.bankSend w.pm.config.feeCollector cs)) ∧
      ∀ a d, (w'.bank.bal a d : Int) = (w.bank.bal a d : Int)
          - at_ a u (amt ⟨first.tokenIn, amount⟩ d) + at_ a PM (amt ⟨first.tokenIn, amount⟩ d)
          + at_ a (addrOrDefault w.pmEnv recv u) (amt ⟨last.tokenOut, out.amount⟩ d)
          - at_ a PM (amt ⟨last.tokenOut, out.amount⟩ d)
          + sumInt (feeMsgs.map (feeMsgEffect w.pm.config.feeCollector a d)) := by
  obtain ⟨first, last, amount, s1, out, feeMsgs, b1, x, b', hhead, hlast, hf, hao, hroute, hmr, hfee, m0, m1,
    hrun, rfl⟩ := QSys.route_run_inv h
  refine ⟨first, last, amount, s1, out, feeMsgs, hhead, hlast, hf, hroute, rfl, rfl, hfee, ?_⟩
  intro a d
  have e0 := m0.bal a d
  have e1 := m1.bal a d
  have ef := QSys.feeRun_effect feeMsgs hfee hrun a d
  rw [sumInt_eq, feeMsgEffect_eq]
  simp only [coinsOf_single, QSys.bank0] at e0 e1
  simp only [amt, at_]
  generalize QSys.sumInt (feeMsgs.map (QSys.feeMsgEffect w.pm.config.feeCollector a d)) = S at *
  generalize addrOrDefault w.pmEnv recv u = rc at *
  by_cases c0 : last.tokenOut = d <;> by_cases c5 : first.tokenIn = d <;>
    (try simp only [if_pos c0] at e0 e1 ⊢) <;> (try simp only [if_neg c0] at e0 e1 ⊢) <;>
    (try simp only [if_pos c5] at e0 e1 ⊢) <;> (try simp only [if_neg c5] at e0 e1 ⊢) <;>
    by_cases c1 : a = u <;> by_cases c2 : a = PM <;> by_cases c3 : a = rc <;>
    (try simp only [if_pos c1] at e0 e1 ⊢) <;> (try simp only [if_neg c1] at e0 e1 ⊢) <;>
    (try simp only [if_pos c2] at e0 e1 ⊢) <;> (try simp only [if_neg c2] at e0 e1 ⊢) <;>
    (try simp only [if_pos c3] at e0 e1 ⊢) <;> (try simp only [if_neg c3] at e0 e1 ⊢) <;>
    omega

/-- a routed swap delivers at least `minimum_receive` or fails as a whole: the final output of the executed chain
    (the amount `route_tx_effect` credits to the receiver) is at least the requested minimum -/
theorem route_tx_min_receive (w w' : World) (u : Addr) (ops : List SwapOp) (m : Nat) (recv : Option Addr)
    (ms : Option Nat) (funds : List Coin) (k : Option Nat)
    (h : runTx w (.exec u PM (.pm (.execSwapOps ops (some m) recv ms)) funds) k = .ok w') :
    ∃ first amount s1 out feeMsgs, ops.head? = some first ∧ funds = [⟨first.tokenIn, amount⟩] ∧
      routeHops w.pm ms ops ⟨first.tokenIn, amount⟩ [] = .ok (s1, out, feeMsgs) ∧ w'.pm = s1 ∧ m ≤ out.amount := by
  obtain ⟨first, last, amount, s1, out, feeMsgs, b1, x, b', hhead, hlast, hf, hao, hroute, hmr, hfee, m0, m1,
    hrun, rfl⟩ := QSys.route_run_inv h
  exact ⟨first, amount, s1, out, feeMsgs, hhead, hf, hroute, rfl, hmr m rfl⟩

/-- `SimulateSwapOperations`' return amount is the chained `Simulation` of `C12.simChain` -/
theorem simops_amount_eq_chain (s : PmState) (amount : Nat) (ops : List SwapOp) (r : RouteSim)
    (h : simulateSwapOpsFull s amount ops = .ok r) : C12.simChain s ops amount = .ok r.amount := by
  obtain ⟨r0, h0, he⟩ := QSys.simulateSwapOpsFull_inv h
  rw [he]
  exact QSys.simFold_chain s ops _ r0 h0

/-- an accepted route over pairwise distinct pools: the chained `Simulation` on the pre-state gives exactly the
    delivered amount, the hop loop of `SimulateSwapOperations` succeeds with that amount, and the whole query is
    that loop's result with its five fee lists aggregated (`aggregate_coins`, the only step that can still fail) -/
theorem route_tx_chain (w w' : World) (u : Addr) (ops : List SwapOp) (mr : Option Nat) (recv : Option Addr)
    (ms : Option Nat) (funds : List Coin) (hd : C12.distinctPools ops)
    (h : runTx w (.exec u PM (.pm (.execSwapOps ops mr recv ms)) funds) = .ok w') :
    ∃ first amount s1 out feeMsgs r0,
      ops.head? = some first ∧ funds = [⟨first.tokenIn, amount⟩] ∧
      routeHops w.pm ms ops ⟨first.tokenIn, amount⟩ [] = .ok (s1, out, feeMsgs) ∧
      C12.simChain w.pm ops amount = .ok out.amount ∧
      ops.foldlM (QSys.simStep w.pm)
        { amount := amount, slippage := [], swapFees := [], protocolFees := [], burnFees := [], extraFees := [] }
        = .ok r0 ∧ r0.amount = out.amount ∧
      simulateSwapOpsFull w.pm amount ops = QSys.aggregateSim r0 := by
  obtain ⟨first, last, amount, s1, out, feeMsgs, b1, x, b', hhead, hlast, hf, hao, hroute, hmr, hfee, m0, m1,
    hrun, rfl⟩ := QSys.route_run_inv h
  have hne : ops ≠ [] := by
    intro e; rw [e] at hhead; cases hhead
  have hchain : C12.simChain w.pm ops amount = .ok out.amount := by
    refine C12.route_eq_simulation (s0 := w.pm) ops w.pm s1 ⟨first.tokenIn, amount⟩ out [] feeMsgs hd
      (fun _ _ => rfl) ?_ (QSys.assertOperations_chain hao) hroute
    cases ops with
    | nil => trivial
    | cons o rest =>
      simp only [List.head?_cons, Option.some.injEq] at hhead
      subst hhead
      rfl
  obtain ⟨r0, h0, hr0⟩ := QSys.simFold_of_chain w.pm ops
    { amount := amount, slippage := [], swapFees := [], protocolFees := [], burnFees := [], extraFees := [] }
    out.amount hchain
  exact ⟨first, amount, s1, out, feeMsgs, r0, hhead, hf, hroute, hchain, h0, hr0,
    QSys.simulateSwapOpsFull_eq w.pm amount ops r0 hne h0⟩

/-- an accepted route over pairwise distinct pools delivers exactly what `SimulateSwapOperations` answers on the
    pre-state, whenever that query answers at all (no further hypothesis) -/
theorem route_tx_simulation_agrees (w w' : World) (u : Addr) (ops : List SwapOp) (mr : Option Nat)
    (recv : Option Addr) (ms : Option Nat) (funds : List Coin) (hd : C12.distinctPools ops)
    (h : runTx w (.exec u PM (.pm (.execSwapOps ops mr recv ms)) funds) = .ok w') :
    ∃ first amount s1 out feeMsgs,
      ops.head? = some first ∧ funds = [⟨first.tokenIn, amount⟩] ∧
      routeHops w.pm ms ops ⟨first.tokenIn, amount⟩ [] = .ok (s1, out, feeMsgs) ∧
      C12.simChain w.pm ops amount = .ok out.amount ∧
      ∀ r, simulateSwapOpsFull w.pm amount ops = .ok r → r.amount = out.amount := by
  obtain ⟨first, amount, s1, out, feeMsgs, r0, hhead, hf, hroute, hchain, h0, hr0, hq⟩ :=
    route_tx_chain w w' u ops mr recv ms funds hd h
  refine ⟨first, amount, s1, out, feeMsgs, hhead, hf, hroute, hchain, ?_⟩
  intro r hr
  have := simops_amount_eq_chain w.pm amount ops r hr
  rw [hchain] at this
  exact (Except.ok.inj this).symm

/- ORIGINAL STATEMENT (false, see `route_tx_equals_simulation_counterexample` below):

theorem route_tx_equals_simulation (w w' : World) (u : Addr) (ops : List SwapOp) (mr : Option Nat) (recv : Option Addr)
    (ms : Option Nat) (funds : List Coin) (hu : isContract u = false) (hd : C12.distinctPools ops)
    (h : runTx w (.exec u PM (.pm (.execSwapOps ops mr recv ms)) funds) = .ok w') :
    ∃ first amount s1 out feeMsgs r,
      ops.head? = some first ∧ funds = [⟨first.tokenIn, amount⟩] ∧
      routeHops w.pm ms ops ⟨first.tokenIn, amount⟩ [] = .ok (s1, out, feeMsgs) ∧
      simulateSwapOpsFull w.pm amount ops = .ok r ∧ r.amount = out.amount

  The query `SimulateSwapOperations` also returns five per-denom aggregated fee lists (`aggregate_coins`, checked
  u128 additions), which the execution never computes.  When a route produces the same denom in several hops, the
  per-denom sum of the hops' `slippage_amount`s (or fees) can exceed u128 although every single hop — and the whole
  `ExecuteSwapOperations` — succeeds: the query then fails with an overflow error while the route executes. -/

/-- an accepted route over pairwise distinct pools delivers exactly the `SimulateSwapOperations` answer.
    ADDED HYPOTHESIS `hout`: no denom is the output of two hops.  It is needed for the query to answer at all: its
    aggregated fee lists sum the hops' amounts per output denom in u128 and can overflow otherwise (counterexample
    below); `route_tx_simulation_agrees` is the unconditional form "whenever the query answers".
    DROPPED HYPOTHESIS `hu` (unnecessary). -/
theorem route_tx_equals_simulation_partial (w w' : World) (u : Addr) (ops : List SwapOp) (mr : Option Nat)
    (recv : Option Addr) (ms : Option Nat) (funds : List Coin) (hd : C12.distinctPools ops)
    (hout : (ops.map (·.tokenOut)).Nodup)
    (h : runTx w (.exec u PM (.pm (.execSwapOps ops mr recv ms)) funds) = .ok w') :
    ∃ first amount s1 out feeMsgs r,
      ops.head? = some first ∧ funds = [⟨first.tokenIn, amount⟩] ∧
      routeHops w.pm ms ops ⟨first.tokenIn, amount⟩ [] = .ok (s1, out, feeMsgs) ∧
      simulateSwapOpsFull w.pm amount ops = .ok r ∧ r.amount = out.amount := by
  obtain ⟨first, amount, s1, out, feeMsgs, r0, hhead, hf, hroute, hchain, h0, hr0, hq⟩ :=
    route_tx_chain w w' u ops mr recv ms funds hd h
  obtain ⟨r, hr, hra⟩ := QSys.aggregateSim_nodup_ex w.pm amount ops r0 hout h0
  exact ⟨first, amount, s1, out, feeMsgs, r, hhead, hf, hroute, hq.trans hr, hra.trans hr0⟩

/-! #### counterexample to the original `route_tx_equals_simulation`

  Five fee-less constant-product pools `p1 … p5`; the route `A → B → A → B → A → B` trades at exactly 50 % spread
  in every hop (accepted with `max_slippage = 50 %`).  The three hops into `B` each report a `slippage_amount` of
  2^127 − 1; their sum exceeds u128, so `SimulateSwapOperations` fails in `aggregate_coins` while the transaction
  is accepted.  (It needs three `B` reserves of about 2^128 — possible in the model and on a chain whose bank keeps
  256-bit supplies, but not a realistic state.) -/

def cexPool (id : String) (a b : Nat) (x y : String) : PoolInfo :=
  { id := id, denoms := [x, y], lpDenom := "lp" ++ id, decimals := [6, 6],
    assets := [⟨x, a⟩, ⟨y, b⟩], ptype := .cp, fees := ⟨0, 0, 0, []⟩, status := {} }

def cexPm : PmState :=
  { config := { feeCollector := "fc", farmManager := "fm", creationFee := ⟨"uom", 0⟩ },
    pools := [cexPool "p1" (2^100) (2^128 - 2) "A" "B", cexPool "p2" (2^127 - 1) (2^101) "B" "A",
              cexPool "p3" (2^100) (2^128 - 2) "A" "B", cexPool "p4" (2^127 - 1) (2^101) "B" "A",
              cexPool "p5" (2^100) (2^128 - 2) "A" "B"],
    owner := { owner := some "admin" } }

def cexOps : List SwapOp :=
  [⟨"A", "B", "p1"⟩, ⟨"B", "A", "p2"⟩, ⟨"A", "B", "p3"⟩, ⟨"B", "A", "p4"⟩, ⟨"A", "B", "p5"⟩]

def cexWorld : World :=
  { bank := { bal := fun a d => if a = "alice" ∧ d = "A" then 2^100 else if a = "pm" ∧ d = "B" then 3 * (2^128 - 2)
                else if a = "pm" ∧ d = "A" then 3 * 2^101 else 0,
              supply := fun d => if d = "A" then 2^100 + 3 * 2^101 else if d = "B" then 3 * (2^128 - 2) else 0 },
    pm := cexPm,
    fm := { config := default, owner := { owner := some "admin" } },
    em := { cfg := ⟨86400, 0⟩, owner := { owner := some "admin" } },
    fc := { owner := some "admin" },
    nowNs := 0, tfFees := [], validAddr := fun _ => true }

def cexTx : Tx :=
  .exec "alice" PM (.pm (.execSwapOps cexOps none none (some 500000000000000000))) [⟨"A", 2^100⟩]

theorem cex_tx_accepted : (runTx cexWorld cexTx).toBool = true := by decide +kernel
theorem cex_query_fails : (simulateSwapOpsFull cexPm (2^100) cexOps).toBool = false := by decide +kernel
theorem cex_distinct : C12.distinctPools cexOps := by
  unfold C12.distinctPools cexOps
  decide

/-- the original statement of `route_tx_equals_simulation` is false -/
theorem route_tx_equals_simulation_counterexample :
    ¬ (∀ (w w' : World) (u : Addr) (ops : List SwapOp) (mr : Option Nat) (recv : Option Addr)
        (ms : Option Nat) (funds : List Coin), isContract u = false → C12.distinctPools ops →
        runTx w (.exec u PM (.pm (.execSwapOps ops mr recv ms)) funds) = .ok w' →
        ∃ first amount s1 out feeMsgs r,
          ops.head? = some first ∧ funds = [⟨first.tokenIn, amount⟩] ∧
          routeHops w.pm ms ops ⟨first.tokenIn, amount⟩ [] = .ok (s1, out, feeMsgs) ∧
          simulateSwapOpsFull w.pm amount ops = .ok r ∧ r.amount = out.amount) := by
  intro H
  have hacc := cex_tx_accepted
  cases hrun : runTx cexWorld cexTx with
  | error e => rw [hrun] at hacc; cases hacc
  | ok w' =>
    obtain ⟨first, amount, s1, out, feeMsgs, r, hhead, hf, -, hq, -⟩ :=
      H cexWorld w' "alice" cexOps none none (some 500000000000000000) [⟨"A", 2^100⟩] (by decide) cex_distinct hrun
    simp only [List.cons.injEq, Coin.mk.injEq, and_true] at hf
    have hamt : amount = 2^100 := hf.2.symm
    subst hamt
    have hfail := cex_query_fails
    have hq' : simulateSwapOpsFull cexPm (2^100) cexOps = .ok r := hq
    rw [hq'] at hfail
    cases hfail

/-- constant product, no fees: offering the `ReverseSimulation` quote plus one unit yields at least the requested
    amount through the `Simulation` query (with fees the statement is false for large requests: F-09) -/
theorem reverse_query_plus_one_suffices_partial (s : PmState) (p : PoolInfo) (pid : String) (ask : Coin)
    (offerDenom : Denom) (q : OfferAmountComputation) (c : SwapComputation)
    (hp : s.getPool pid = .ok p) (hcp : p.ptype = .cp) (hfee : p.fees = ⟨0, 0, 0, []⟩)
    (hq : queryReverseSimulation s ask offerDenom pid = .ok q)
    (hs : querySimulation s ⟨offerDenom, q.offer + 1⟩ ask.denom pid = .ok c) :
    ask.amount ≤ c.ret := by
  obtain ⟨oc, ac, oi, ai, od, ad, hidx, hoff⟩ := QSys.queryReverse_cp_inv hp hcp hq
  obtain ⟨oc', ac', oi', ai', od', ad', hidx', hsw⟩ := QSys.querySimulation_cp_inv hp hcp hs
  simp only at hidx' hsw
  rw [hidx] at hidx'
  cases hidx'
  exact C12.reverse_quote_plus_one_suffices_partial hfee hoff hsw

end MantraDex.C12Sys
