/-
  Soundness of the monitors added with the ninth round of seeded changes (see MonSound … MonSoundF for the idea): fed with the
  quantities of an accepted MODEL transaction the monitor raises no alarm.

  `latest h` = the weight of the last change point of a history (what the harness calls the latest weight).

  * `monTopupBacked` / `monTopupWeight` (C08, C05, C10, C07): an accepted direct ExpandPosition — the recorded amount grows by
    exactly the coin, the farm manager receives exactly that coin, the owner's latest weight in that LP token grows and nobody
    else's latest weight in it changes (the farm manager's own entry is the TOTAL and is not among "the others");
  * `monExitWeight` (C10): an accepted emergency exit with a position that was still OPEN: the owner's and the total's latest
    weight do not grow, and each becomes strictly smaller unless it was already zero;
  * `monMinReceive` (C13): an accepted route carrying `minimum_receive = some m` delivered at least `m`;
  * `monHopK` (C03): for a two-hop route through the SAME constant-product pool (x → y, then y → x; the case where the before /
    after snapshots of the pool only show the net effect), the product of the reserves after the first hop is at least the
    product before, and after the second hop at least that after the first.  State it on `routeHops`: with `s1` / `s2` the
    pool-manager states after one and two hops.

  If a statement is false as given: counterexample (kernel-evaluated), original kept in a comment, `_partial` with the weakest
  repair, prominent note — as in the guide.  Hypotheses I expect to be needed (fields of invariants of reachable states — say
  which theorem provides them): `C05Sys.FmInv w` (unique position identifiers), `w.fm.config.poolManager = PM`, sorted weight
  histories (`C10Sys.WInv.sorted`), an epoch clock that answers.

  STATUS: ALL FIVE PROVED.  `monTopupBacked_sound`, `monTopupWeight_sound`, `monMinReceive_sound`, `monHopK_sound` as stated.

  `monExitWeight_sound`: the stub's statement was FALSE for the first version of the monitor (which demanded "the total becomes
  strictly smaller unless it was already zero"): in a REACHABLE state the owner's recorded weight can be ZERO while the
  position is still open with a non-zero amount (top-ups in pieces add Σ calculate_weight(piece) < calculate_weight(sum); a
  partial close of the sum then removes `min(calculate_weight(part), user weight)` = the user's whole weight, and an open
  remainder stays — the known drift of the F-07 clamp, `C10Eq.pieces_not_exact` / `partial_not_exact`); the exit then removes
  `min(calculate_weight(amount), 0) = 0` from the total as well.  The monitor in `Model/HistMon.lean` has since been CORRECTED
  to the exact law (`exit_weights`: the owner's and the total's latest weight both lose
  `min(calculate_weight(amount, unlocking), owner's latest weight)`); for it the statement is proved with
    * one ADDED hypothesis `hlive` (the position is not expired) — a consequence of `MonSoundGL.NoExp w` ("open positions have
      no expiry time"), proved to hold in EVERY reachable state (`MonSoundGL.noExp_reachable`, `Proofs/MonSoundGNoExp.lean`; it
      is also the field `noExp` of `C10Eq.Exact`): `monExitWeight_sound_of_noExp`.  Necessary:
      `monExitWeight_fires_expired_open` (an OPEN position with an expiry in the past leaves through the ORDINARY branch,
      which never touches the weights);
    * `hfm : C05Sys.FmInv w` DROPPED (not needed).
  The kernel-evaluated history (`Proofs/MonSoundGCx.lean`) is kept as `monExitWeight_quiet_on_clamped_owner`: on that
  reachable state the exit is accepted, the monitor is fed (0, 0, 1, 1), the old clause about the total is false, the
  corrected monitor is quiet.  `exit_keeps_total_on_zero_owner` is the general form of that case.

  Answers to the questions asked with the stub:
  * the owner's latest weight DOES grow on every accepted top-up, by `calculate_weight(coin) ≥ coin > 0` (`oneCoin` refuses a
    zero coin, `ckAdd` refuses an overflow) — `monTopupWeight_sound`;
  * `update_weights` writes the entry of epoch `cur + 1`; under `WInv.sorted` + `WInv.bounded` (no snapshot beyond `cur + 1`,
    for the SAME `cur`: the transaction runs at the block time of the pre-state) that entry is the last change point, so
    `latest` is exactly what it changes (`MonSoundGL.update_latest`, from `C10H.update_weights_same_delta`).  Without
    `bounded` it is not: `histSet [(7, 3)] 2 9` has latest weight 3 (`latest_not_written_without_bounded`);
  * an emergency exit (any WithdrawPosition) by someone other than the position's owner is refused:
    `withdraw_only_owner_tx`.
-/
import MantraDex.Model.System
import MantraDex.Model.HistMon
import MantraDex.Properties.C03
import MantraDex.Properties.C03Sys
import MantraDex.Properties.C08Tx
import MantraDex.Properties.C10Sys
import MantraDex.Properties.C12Sys
import MantraDex.Proofs.MonSoundGLemmas
import MantraDex.Proofs.MonSoundGNoExp
import MantraDex.Proofs.MonSoundGCx

set_option linter.unusedSimpArgs false
set_option linter.unusedVariables false

namespace MantraDex.MonSoundG
open MantraDex

/-- the weight of the last change point -/
def latest (h : List (Nat × Nat)) : Nat := (h.getLast?.map (·.2)).getD 0

/-- `latest` is the model's `latestWeight` (what `update_weights` reads) -/
theorem latest_eq (h : List (Nat × Nat)) : latest h = latestWeight h := rfl

/-- `mon_topup_backed` (C08 / C05) for a direct ExpandPosition.

    PROVED AS STATED (`C08Tx.expand_position_tx_effect`: the stored amount grows by the coin's amount, the coin is of the
    position's denom, and the farm manager — not the sender, `hu` — receives exactly it). -/
theorem monTopupBacked_sound (w w' : World) (u : Addr) (id : String) (funds : List Coin) (k : Option Nat) (p p' : Position)
    (hu : isContract u = false) (hpm : w.fm.config.poolManager = PM)
    (hp : w.fm.getPosition id = some p) (hp' : w'.fm.getPosition id = some p')
    (h : runTx w (.exec u FM (.fm (.expandPosition id)) funds) k = .ok w') :
    monTopupBacked (p'.amount - p.amount) ((w'.bank.bal FM p.lpDenom : Int) - w.bank.bal FM p.lpDenom) = none := by
  obtain ⟨c, p'', hf, hden, hrecv, hopen, hget, hp'', _, _, _, _, hbank⟩ :=
    C08Tx.expand_position_tx_effect w w' u id funds k p hu hpm hp h
  rw [hp'] at hget
  cases hget
  subst hp''
  have e := hbank FM p.lpDenom
  have c1 : ¬ FM = u := fun e => C05Sys.not_contract_ne_FM hu e.symm
  simp only [C08Tx.at_, C08Tx.amt, hden, c1, if_false, if_true] at e
  unfold monTopupBacked
  apply MonSoundEL.firstFail_none
  intro x hx
  simp only [List.mem_cons, List.mem_nil_iff, or_false] at hx
  subst hx
  simp only [beq_iff_eq]
  have : p.amount + c.amount - p.amount = c.amount := by omega
  rw [this]
  omega

/-- `mon_topup_weight`, for ANY sender: `hu` / `hpm` of the stub are not needed (the owner is not the farm manager by
    `WInv.noSelf`; whoever sends the ExpandPosition — the owner or the pool manager — the weight goes to `p.receiver`) -/
theorem monTopupWeight_sound_any_sender (w w' : World) (u : Addr) (id : String) (funds : List Coin) (k : Option Nat)
    (p : Position) (others : List Addr) (hinv : C10Sys.WInv w)
    (hp : w.fm.getPosition id = some p) (hothers : ∀ a ∈ others, a ≠ p.receiver ∧ a ≠ FM)
    (h : runTx w (.exec u FM (.fm (.expandPosition id)) funds) k = .ok w') :
    monTopupWeight (decide (latest (w.fm.hist p.receiver p.lpDenom) < latest (w'.fm.hist p.receiver p.lpDenom)))
      ((others.filter fun a => latest (w'.fm.hist a p.lpDenom) != latest (w.fm.hist a p.lpDenom)).length) = none := by
  obtain ⟨c, hf, hnz, hden, hupd⟩ := MonSoundGL.expand_position_weights_tx hp h
  have hne : p.receiver ≠ w.fmEnv.self := hinv.noSelf p (FH.getPosition_some hp).1
  rw [hden] at hupd
  obtain ⟨wgt, hw, hfill, _, hoth⟩ := MonSoundGL.update_latest (s0 := w.fm) (by rw [savePosition_hist])
    (by rw [savePosition_config]) hinv.sorted hinv.bounded hne hupd
  obtain ⟨h1, _⟩ := hfill rfl
  have hge := C10.weight_ge_amount hw
  unfold monTopupWeight
  apply MonSoundEL.firstFail_none
  intro x hx
  simp only [List.mem_cons, List.mem_nil_iff, or_false] at hx
  subst hx
  simp only [Bool.and_eq_true, decide_eq_true_eq, beq_iff_eq, List.length_eq_zero_iff, List.filter_eq_nil_iff]
  refine ⟨?_, ?_⟩
  · rw [latest_eq, latest_eq, h1]
    omega
  · intro a ha
    obtain ⟨a1, a2⟩ := hothers a ha
    have : w'.fm.hist a p.lpDenom = w.fm.hist a p.lpDenom :=
      hoth a p.lpDenom (fun e => a1 (Prod.mk.inj e).1) (fun e => a2 (Prod.mk.inj e).1)
    rw [this]
    simp

/-- `mon_topup_weight` (C10 / C07) for a direct ExpandPosition: `others` any accounts other than the owner and the farm manager.

    PROVED AS STATED (`hu`, `hpm` are not used: `monTopupWeight_sound_any_sender`).  The owner's latest weight grows by
    `calculate_weight(coin, unlocking) ≥ coin.amount > 0`; `hinv` (`sorted`, `bounded`, `noSelf`) makes the entry written at
    `cur + 1` the last change point of the owner's history. -/
theorem monTopupWeight_sound (w w' : World) (u : Addr) (id : String) (funds : List Coin) (k : Option Nat) (p : Position)
    (others : List Addr)
    (hu : isContract u = false) (hpm : w.fm.config.poolManager = PM) (hinv : C10Sys.WInv w)
    (hp : w.fm.getPosition id = some p) (hothers : ∀ a ∈ others, a ≠ p.receiver ∧ a ≠ FM)
    (h : runTx w (.exec u FM (.fm (.expandPosition id)) funds) k = .ok w') :
    monTopupWeight (decide (latest (w.fm.hist p.receiver p.lpDenom) < latest (w'.fm.hist p.receiver p.lpDenom)))
      ((others.filter fun a => latest (w'.fm.hist a p.lpDenom) != latest (w.fm.hist a p.lpDenom)).length) = none :=
  monTopupWeight_sound_any_sender w w' u id funds k p others hinv hp hothers h

/-- why `WInv.bounded` is needed: without it the entry `update_weights` writes (epoch `cur + 1`) need not be the last change
    point — here a snapshot at epoch 7 survives a write at epoch 2, and the latest weight stays 3 -/
theorem latest_not_written_without_bounded : latest (histSet [(7, 3)] 2 9) = 3 := by decide

/-- only the owner can withdraw (with or without the emergency flag, open or closed position, any fault position) -/
theorem withdraw_only_owner_tx (w w' : World) (u : Addr) (p : Position) (em : Option Bool) (funds : List Coin)
    (k : Option Nat) (hp : w.fm.getPosition p.id = some p)
    (h : runTx w (.exec u FM (.fm (.withdrawPosition p.id em)) funds) k = .ok w') : u = p.receiver :=
  MonSoundGL.withdraw_only_owner_tx hp h

/-- the four numbers the monitor is fed with after an accepted emergency exit with an OPEN, unexpired position: with
    `wgt = calculate_weight(amount, unlocking) ≥ amount`, BOTH the owner's and the total's latest weight lose
    `min wgt (owner's latest weight)` (`update_weights` writes the entry of the NEXT epoch, which by `WInv.sorted` /
    `WInv.bounded` is the last change point of both histories); afterwards the owner's history may be cleared
    (`reconcile_user_state`, when that was the last open position in the LP token), the total's is not (`WInv.noSelf`: the
    owner is not the farm manager).  The total covers the owner's weight before (`WInv.covers`), so it is positive whenever
    the owner's is.  Only the position's owner can exit (`u = p.receiver`, derived). -/
theorem exit_weights (w w' : World) (u : Addr) (p : Position) (k : Option Nat)
    (hinv : C10Sys.WInv w)
    (hp : w.fm.getPosition p.id = some p) (hopen : p.open_ = true)
    (hlive : (⟨p.amount, p.unlocking, p.expiringAt⟩ : PosView).isExpired w.fmEnv.nowS = false)
    (h : runTx w (.exec u FM (.fm (.withdrawPosition p.id (some true))) []) k = .ok w') :
    ∃ ub ua tb ta wgt,
      ub = latest (w.fm.hist p.receiver p.lpDenom) ∧ ua = latest (w'.fm.hist p.receiver p.lpDenom) ∧
      tb = latest (w.fm.hist FM p.lpDenom) ∧ ta = latest (w'.fm.hist FM p.lpDenom) ∧
      p.amount ≤ wgt ∧ (ua = 0 ∨ ua = ub - min wgt ub) ∧ ta = tb - min wgt ub ∧ ub ≤ tb := by
  obtain ⟨hu, s1, h1, h3⟩ := MonSoundGL.emergency_exit_weights_tx hp hopen hlive h
  subst hu
  have hmem : p ∈ w.fm.positions := (FH.getPosition_some hp).1
  have hne : p.receiver ≠ w.fmEnv.self := hinv.noSelf p hmem
  obtain ⟨wgt, hwg, _, hclose, hoth⟩ :=
    MonSoundGL.update_latest (s0 := w.fm) rfl rfl hinv.sorted hinv.bounded hne h1
  obtain ⟨e1, e2⟩ := hclose rfl
  obtain ⟨hr1, hr2⟩ := MonSoundGL.reconcile_hist h3
  have hrm : (s1.removePosition p.id).hist = s1.hist := rfl
  rw [hrm] at hr1 hr2
  have hFM : w'.fm.hist FM p.lpDenom = s1.hist FM p.lpDenom :=
    hr2 FM p.lpDenom (fun e => hne (Prod.mk.inj e).1.symm)
  have e2' : latestWeight (s1.hist FM p.lpDenom) =
      latestWeight (w.fm.hist FM p.lpDenom) - min wgt (latestWeight (w.fm.hist p.receiver p.lpDenom)) := e2
  refine ⟨_, _, _, _, wgt, rfl, rfl, rfl, rfl, C10.weight_ge_amount hwg, ?_, ?_, ?_⟩
  · rcases hr1 with hr1 | hr1
    · left; rw [hr1]; rfl
    · right; rw [hr1, latest_eq, latest_eq, e1]
  · rw [hFM, latest_eq, latest_eq, latest_eq, e2']
  · rw [latest_eq, latest_eq]
    exact MonSoundGL.latest_covered hinv.covers hne p.lpDenom

/-
  HISTORY OF THIS STATEMENT.  The stub was written for the FIRST version of the monitor,
      monExitWeight ub ua tb ta = firstFail [(decide (ua ≤ ub) && decide (ta ≤ tb) && (ub == 0 || decide (ua < ub)) &&
                                               (tb == 0 || decide (ta < tb)), "C10-weight-kept")],
  for which the statement

    theorem monExitWeight_sound (w w' : World) (u : Addr) (p : Position) (k : Option Nat)
        (hinv : C10Sys.WInv w) (hfm : C05Sys.FmInv w)
        (hp : w.fm.getPosition p.id = some p) (hopen : p.open_ = true) (hamt : p.amount ≠ 0)
        (h : runTx w (.exec u FM (.fm (.withdrawPosition p.id (some true))) []) k = .ok w') :
        monExitWeight (latest (w.fm.hist p.receiver p.lpDenom)) (latest (w'.fm.hist p.receiver p.lpDenom))
          (latest (w.fm.hist FM p.lpDenom)) (latest (w'.fm.hist FM p.lpDenom)) = none

  was FALSE: on the reachable state of `Proofs/MonSoundGCx.lean` (owner's recorded weight clamped to 0, total 1 because of
  another user) the exit leaves the total at 1 and the clause "the total becomes strictly smaller unless it was already zero"
  fired.  The monitor in `Model/HistMon.lean` was then CORRECTED to the exact law (`exit_weights`):
      if ub == 0 then ua == 0 && ta == tb else decide (ua < ub) && decide (ta < tb).
  For the corrected monitor the statement holds with ONE added hypothesis (`hlive`, a consequence of the reachable invariant
  `MonSoundGL.NoExp`) and without `hfm`; what the kernel-checked history now shows is
  `monExitWeight_quiet_on_clamped_owner`.
-/

/-- `mon_exit_weight` (C10), corrected monitor: emergency exit with an OPEN position.

    PROVED for the corrected monitor.  W.r.t. the stub:
    * ADDED `hlive` — the position is not expired.  It follows from `MonSoundGL.NoExp w` ("open positions have no expiry
      time"), which holds in every reachable state (`MonSoundGL.noExp_reachable`): `monExitWeight_sound_of_noExp`.  It is
      necessary: `monExitWeight_fires_expired_open`.
    * DROPPED `hfm : C05Sys.FmInv w` (not needed).
    `hinv` is used in full: `sorted` / `bounded` make the entry `update_weights` writes the last change point, `noSelf` keeps
    the total's history apart from the owner's, `covers` makes the total positive when the owner's weight is.  `hamt` is
    needed (a position of amount 0 has weight `calculate_weight(0) = 0`: nothing would leave).  By `exit_weights`: with
    `m = min (calculate_weight(amount)) ub`, `ta = tb - m` and `ua ∈ {0, ub - m}`; `ub = 0` gives `m = 0`, `ua = 0`,
    `ta = tb`; `ub > 0` gives `m ≥ 1`, `ua < ub`, and `tb ≥ ub > 0`, so `ta < tb`. -/
theorem monExitWeight_sound (w w' : World) (u : Addr) (p : Position) (k : Option Nat)
    (hinv : C10Sys.WInv w)
    (hp : w.fm.getPosition p.id = some p) (hopen : p.open_ = true) (hamt : p.amount ≠ 0)
    (hlive : (⟨p.amount, p.unlocking, p.expiringAt⟩ : PosView).isExpired w.fmEnv.nowS = false)
    (h : runTx w (.exec u FM (.fm (.withdrawPosition p.id (some true))) []) k = .ok w') :
    monExitWeight (latest (w.fm.hist p.receiver p.lpDenom)) (latest (w'.fm.hist p.receiver p.lpDenom))
      (latest (w.fm.hist FM p.lpDenom)) (latest (w'.fm.hist FM p.lpDenom)) = none := by
  obtain ⟨ub, ua, tb, ta, wgt, e1, e2, e3, e4, hge, hua, hta, hcov⟩ := exit_weights w w' u p k hinv hp hopen hlive h
  rw [← e1, ← e2, ← e3, ← e4]
  unfold monExitWeight
  apply MonSoundEL.firstFail_none
  intro x hx
  simp only [List.mem_cons, List.mem_nil_iff, or_false] at hx
  subst hx
  have hm : min wgt ub = if wgt ≤ ub then wgt else ub := Nat.min_def ..
  rw [hm] at hua hta
  by_cases hz : ub = 0
  · subst hz
    have h1 : ua = 0 := by split at hua <;> omega
    have h2 : ta = tb := by split at hta <;> omega
    subst h1 h2
    simp
  · have hb : (ub == 0) = false := by simpa using hz
    simp only [hb, Bool.false_eq_true, if_false, Bool.and_eq_true, decide_eq_true_eq]
    split at hua <;> rcases hua with rfl | rfl <;> subst hta <;> omega

/-- the same with the reachable invariant `MonSoundGL.NoExp` instead of `hlive` -/
theorem monExitWeight_sound_of_noExp (w w' : World) (u : Addr) (p : Position) (k : Option Nat)
    (hinv : C10Sys.WInv w) (hnx : MonSoundGL.NoExp w)
    (hp : w.fm.getPosition p.id = some p) (hopen : p.open_ = true) (hamt : p.amount ≠ 0)
    (h : runTx w (.exec u FM (.fm (.withdrawPosition p.id (some true))) []) k = .ok w') :
    monExitWeight (latest (w.fm.hist p.receiver p.lpDenom)) (latest (w'.fm.hist p.receiver p.lpDenom))
      (latest (w.fm.hist FM p.lpDenom)) (latest (w'.fm.hist FM p.lpDenom)) = none :=
  monExitWeight_sound w w' u p k hinv hp hopen hamt
    (MonSoundGL.not_expired_of_noExp hnx (FH.getPosition_some hp).1 hopen _) h

/-- what the kernel-evaluated history of `Proofs/MonSoundGCx.lean` shows: a state REACHED from a fresh deployment by five
    account-signed transactions (so `WInv`, `FmInv` and `NoExp` hold) in which the owner's recorded weight is ZERO although the
    position "u-a" is OPEN with 1 LP (80-day positions: `calculate_weight(1) = 1`, `calculate_weight(2) = 3`; bob opens 1 LP;
    alice opens 1 LP, tops up 1 LP twice — recorded 1 + 1 + 1 = 3 —, closes 2 LP of the 3: `min(3, 3) = 3` leaves).  Her
    emergency exit is accepted and feeds the monitor (0, 0, 1, 1): the total stays at bob's 1.  The FIRST version's clause
    "the total becomes strictly smaller unless it was already zero" (`tb == 0 || ta < tb`) is false there; the corrected
    monitor is quiet. -/
theorem monExitWeight_quiet_on_clamped_owner :
    ∃ (w w' : World) (u : Addr) (p : Position) (k : Option Nat),
      C10Sys.WInv w ∧ C05Sys.FmInv w ∧ MonSoundGL.NoExp w ∧
      w.fm.getPosition p.id = some p ∧ p.open_ = true ∧ p.amount ≠ 0 ∧
      runTx w (.exec u FM (.fm (.withdrawPosition p.id (some true))) []) k = .ok w' ∧
      latest (w.fm.hist p.receiver p.lpDenom) = 0 ∧ latest (w'.fm.hist p.receiver p.lpDenom) = 0 ∧
      latest (w.fm.hist FM p.lpDenom) = 1 ∧ latest (w'.fm.hist FM p.lpDenom) = 1 ∧
      -- the old clause about the total fails on these numbers
      ((latest (w.fm.hist FM p.lpDenom) == 0 ||
        decide (latest (w'.fm.hist FM p.lpDenom) < latest (w.fm.hist FM p.lpDenom))) = false) ∧
      monExitWeight (latest (w.fm.hist p.receiver p.lpDenom)) (latest (w'.fm.hist p.receiver p.lpDenom))
        (latest (w.fm.hist FM p.lpDenom)) (latest (w'.fm.hist FM p.lpDenom)) = none := by
  obtain ⟨_, _, _, _, _, hget, _, hv⟩ := MonSoundGL.Cx.evaluated
  simp only [Prod.mk.injEq] at hv
  obtain ⟨v1, v2, v3, v4⟩ := hv
  have e1 : latest (MonSoundGL.Cx.w5.fm.hist MonSoundGL.Cx.pA.receiver MonSoundGL.Cx.pA.lpDenom) = 0 := v1
  have e2 : latest (MonSoundGL.Cx.w6.fm.hist MonSoundGL.Cx.pA.receiver MonSoundGL.Cx.pA.lpDenom) = 0 := v2
  have e3 : latest (MonSoundGL.Cx.w5.fm.hist FM MonSoundGL.Cx.pA.lpDenom) = 1 := v3
  have e4 : latest (MonSoundGL.Cx.w6.fm.hist FM MonSoundGL.Cx.pA.lpDenom) = 1 := v4
  refine ⟨MonSoundGL.Cx.w5, MonSoundGL.Cx.w6, "alice", MonSoundGL.Cx.pA, none, MonSoundGL.Cx.invariants.1,
    MonSoundGL.Cx.invariants.2, MonSoundGL.Cx.noExp, hget, rfl, by decide, MonSoundGL.Cx.exit_accepted,
    e1, e2, e3, e4, ?_, ?_⟩
  · rw [e3, e4]; decide
  · rw [e1, e2, e3, e4]
    unfold monExitWeight
    apply MonSoundEL.firstFail_none
    intro x hx
    simp only [List.mem_cons, List.mem_nil_iff, or_false] at hx
    subst hx
    decide

/-- with an owner's recorded weight of zero (clamped away by earlier piecewise operations) an accepted exit changes neither
    the owner's nor the total's latest weight — the case the first version of the monitor got wrong -/
theorem exit_keeps_total_on_zero_owner (w w' : World) (u : Addr) (p : Position) (k : Option Nat)
    (hinv : C10Sys.WInv w)
    (hp : w.fm.getPosition p.id = some p) (hopen : p.open_ = true)
    (hlive : (⟨p.amount, p.unlocking, p.expiringAt⟩ : PosView).isExpired w.fmEnv.nowS = false)
    (hz : latest (w.fm.hist p.receiver p.lpDenom) = 0)
    (h : runTx w (.exec u FM (.fm (.withdrawPosition p.id (some true))) []) k = .ok w') :
    latest (w'.fm.hist p.receiver p.lpDenom) = 0 ∧
    latest (w'.fm.hist FM p.lpDenom) = latest (w.fm.hist FM p.lpDenom) := by
  obtain ⟨ub, ua, tb, ta, wgt, e1, e2, e3, e4, hge, hua, hta, _⟩ := exit_weights w w' u p k hinv hp hopen hlive h
  rw [← e1] at hz
  rw [← e2, ← e3, ← e4]
  have hm : min wgt ub = 0 := by rw [hz]; exact Nat.min_zero _
  rw [hm] at hua hta
  constructor
  · rcases hua with h | h <;> omega
  · omega

/-- `hlive` of `monExitWeight_sound` is NECESSARY: an OPEN position with an expiry in the past (no reachable state has one:
    `MonSoundGL.noExp_reachable`) leaves through the ordinary branch, whatever the emergency flag says; the weights are not
    touched (the owner's history is at most cleared), so the total keeps its value and the corrected monitor raises
    `C10-weight-kept` whenever the owner's recorded weight was not zero -/
theorem monExitWeight_fires_expired_open (w w' : World) (u : Addr) (p : Position) (k : Option Nat) (em : Option Bool)
    (hinv : C10Sys.WInv w)
    (hp : w.fm.getPosition p.id = some p) (hopen : p.open_ = true)
    (hexp : (⟨p.amount, p.unlocking, p.expiringAt⟩ : PosView).isExpired w.fmEnv.nowS = true)
    (hub : latest (w.fm.hist p.receiver p.lpDenom) ≠ 0)
    (h : runTx w (.exec u FM (.fm (.withdrawPosition p.id em)) []) k = .ok w') :
    monExitWeight (latest (w.fm.hist p.receiver p.lpDenom)) (latest (w'.fm.hist p.receiver p.lpDenom))
      (latest (w.fm.hist FM p.lpDenom)) (latest (w'.fm.hist FM p.lpDenom)) ≠ none := by
  obtain ⟨hu, h3⟩ := MonSoundGL.expired_open_exit_tx hp hopen hexp h
  subst hu
  have hne : p.receiver ≠ FM := hinv.noSelf p (FH.getPosition_some hp).1
  obtain ⟨_, hr2⟩ := MonSoundGL.reconcile_hist h3
  have hFM : w'.fm.hist FM p.lpDenom = w.fm.hist FM p.lpDenom :=
    hr2 FM p.lpDenom (fun e => hne (Prod.mk.inj e).1.symm)
  rw [hFM]
  generalize latest (w.fm.hist FM p.lpDenom) = tb
  generalize latest (w.fm.hist p.receiver p.lpDenom) = ub at hub
  generalize latest (w'.fm.hist p.receiver p.lpDenom) = ua
  unfold monExitWeight
  have : (if ub == 0 then ua == 0 && tb == tb else decide (ua < ub) && decide (tb < tb)) = false := by
    simp [hub]
  rw [this]
  exact MonSoundGL.firstFail_false _

/-- `mon_min_receive` (C13).  PROVED AS STATED (`C12Sys.route_tx_min_receive`; `hhead`, `hf`, `hroute` identify `out` with
    the output of the chain the accepted transaction ran). -/
theorem monMinReceive_sound (w w' : World) (u : Addr) (ops : List SwapOp) (m : Nat) (recv : Option Addr)
    (ms : Option Nat) (funds : List Coin) (k : Option Nat) (first : SwapOp) (amount : Nat) (s1 : PmState) (out : Coin)
    (feeMsgs : List Msg)
    (hhead : ops.head? = some first) (hf : funds = [⟨first.tokenIn, amount⟩])
    (hroute : routeHops w.pm ms ops ⟨first.tokenIn, amount⟩ [] = .ok (s1, out, feeMsgs))
    (h : runTx w (.exec u PM (.pm (.execSwapOps ops (some m) recv ms)) funds) k = .ok w') :
    monMinReceive m out.amount = none := by
  obtain ⟨first', amount', s1', out', fm', hh, hf', hr', _, hle⟩ :=
    C12Sys.route_tx_min_receive w w' u ops m recv ms funds k h
  rw [hhead] at hh
  cases hh
  rw [hf] at hf'
  simp only [List.cons.injEq, Coin.mk.injEq, true_and, and_true] at hf'
  subst hf'
  rw [hroute] at hr'
  cases hr'
  unfold monMinReceive
  apply MonSoundEL.firstFail_none
  intro x hx
  simp only [List.mem_cons, List.mem_nil_iff, or_false] at hx
  subst hx
  simp only [decide_eq_true_eq]
  exact hle

/-- `mon_hop_k` (C03): a route x → y → x through one constant-product pool `pid` with two assets; reserves of (x, y) before,
    after the first hop (`s1`), after the second (`s2`).

    PROVED AS STATED (`C03.performSwap_k_mono` on each hop; the pool stored after the first hop is the swap result's pool,
    still constant-product, `MonSoundBL.performSwap_getPool`). -/
theorem monHopK_sound (s s1 s2 : PmState) (ms : Option Nat) (pid : String) (x y : Denom) (amount : Nat)
    (pool pool1 pool2 : PoolInfo) (o1 o2 : Coin) (f1 f2 : List Msg) (rx ry rx1 ry1 rx2 ry2 : Nat)
    (hne : x ≠ y)
    (hp : s.getPool pid = .ok pool) (hcp : pool.ptype = .cp) (ha : pool.assets = [⟨x, rx⟩, ⟨y, ry⟩])
    (h1 : routeHops s ms [⟨x, y, pid⟩] ⟨x, amount⟩ [] = .ok (s1, o1, f1))
    (hp1 : s1.getPool pid = .ok pool1) (ha1 : pool1.assets = [⟨x, rx1⟩, ⟨y, ry1⟩])
    (h2 : routeHops s1 ms [⟨y, x, pid⟩] o1 [] = .ok (s2, o2, f2))
    (hp2 : s2.getPool pid = .ok pool2) (ha2 : pool2.assets = [⟨x, rx2⟩, ⟨y, ry2⟩]) :
    monHopK rx ry rx1 ry1 = none ∧ monHopK rx1 ry1 rx2 ry2 = none := by
  -- first hop
  obtain ⟨t1, r1, hps1, hrest1⟩ := C04.routeHops_cons h1
  simp only [routeHops, Except.ok.injEq, Prod.mk.injEq] at hrest1
  obtain ⟨rfl, rfl, _⟩ := hrest1
  simp only at hps1
  obtain ⟨x', y', hra, hk1⟩ := C03.performSwap_k_mono hp hcp ha hne hps1
  have hg1 := MonSoundBL.performSwap_getPool hps1
  rw [hp1] at hg1
  cases hg1
  rw [ha1] at hra
  simp only [List.cons.injEq, Coin.mk.injEq, true_and, and_true] at hra
  obtain ⟨rfl, rfl⟩ := hra
  have hcp1 : r1.pool.ptype = .cp := by
    obtain ⟨pool0, _, _, _, _, _, hp0, _, _, _, _, _, _, _, hr, _⟩ := C04.performSwap_ok hps1
    rw [hp] at hp0
    cases hp0
    rw [hr]
    exact hcp
  -- second hop
  obtain ⟨t2, r2, hps2, hrest2⟩ := C04.routeHops_cons h2
  simp only [routeHops, Except.ok.injEq, Prod.mk.injEq] at hrest2
  obtain ⟨rfl, rfl, _⟩ := hrest2
  simp only at hps2
  obtain ⟨x'', y'', hra2, hk2⟩ := C03.performSwap_k_mono hp1 hcp1 ha1 hne hps2
  have hg2 := MonSoundBL.performSwap_getPool hps2
  rw [hp2] at hg2
  cases hg2
  rw [ha2] at hra2
  simp only [List.cons.injEq, Coin.mk.injEq, true_and, and_true] at hra2
  obtain ⟨rfl, rfl⟩ := hra2
  have fin : ∀ a b c d : Nat, a * b ≤ c * d → monHopK a b c d = none := by
    intro a b c d hle
    unfold monHopK
    apply MonSoundEL.firstFail_none
    intro x hx
    simp only [List.mem_cons, List.mem_nil_iff, or_false] at hx
    subst hx
    simp only [decide_eq_true_eq]
    exact hle
  exact ⟨fin _ _ _ _ hk1, fin _ _ _ _ hk2⟩

end MantraDex.MonSoundG
