/-
  Non-vacuity: the hypotheses of the reachable-state theorems are met by the deployment the correspondence harness
  actually runs (four contracts, six funded accounts, the standard configuration of `harness/src/world.rs`), so the
  theorems are not implications with an unsatisfiable premise.

  `w0` is that deployment as a `World` (same as `Driver.initWorld` with the default parameters).  Proved: `w0` satisfies
  every initial-state hypothesis used by the system-level theorems (`C01All.AllInv`, `C01Sys.PmInv`, `C01Sys.FeeSmall`,
  `C02Sys.LpInv`, `C05Sys.FmInv`, `C10Sys.WInv`, `C06Sys.Fresh`, `C11Sys.FarmLimit`, `C03Sys.Unfunded`), and a concrete
  history (`hist`: create a pool, two deposits, lock, create a farm, let two epochs pass, claim) consists of external
  transactions and keeps the epoch configuration (`C06Sys.Stable`, `C10Sys.EpochStable`), so every `…_reachable` theorem
  applies to it; its ledger is not empty (`ledger_nonempty`: the claim really paid something).
-/
import MantraDex.Model.System
import MantraDex.Properties.C01All
import MantraDex.Properties.C03Sys
import MantraDex.Properties.C05Sys
import MantraDex.Properties.C06Sys
import MantraDex.Properties.C07Sys
import MantraDex.Properties.C10Sys
import MantraDex.Properties.C11Sys
import MantraDex.Proofs.NonVacBank
import MantraDex.Proofs.NonVacFrame
import MantraDex.Proofs.NonVacTwin

set_option linter.unusedSimpArgs false
set_option linter.unusedVariables false

namespace MantraDex.NonVacuity
open MantraDex

def USERS : List String := ["owner", "u1", "u2", "u3", "u4", "out"]
def BASE : List String := ["uusdc", "ausdy", "uusdt", "udai", "uom", "uluna", "uusd"]
def BAL : Nat := U128_MAX / 1000000
def GENESIS : Nat := 1714057200
def DAY : Nat := 86400

/-- the harness's standard deployment at genesis -/
def w0 : World :=
  let own : Ownership := { owner := some "owner" }
  { bank := { bal := fun a d => if USERS.contains a && BASE.contains d then BAL else 0,
              supply := fun d => if BASE.contains d then 6 * BAL else 0 },
    pm := { config := { feeCollector := FC, farmManager := FM, creationFee := ⟨"uusd", 1000⟩ }, owner := own },
    fm := { config := { feeCollector := FC, epochManager := EM, poolManager := PM, createFarmFee := ⟨"uom", 1000⟩,
                        maxConcurrentFarms := 2, maxFarmEpochBuffer := 14, minUnlocking := DAY, maxUnlocking := 31556926,
                        farmExpirationTime := 2629746, emergencyUnlockPenalty := 100000000000000000 },
            owner := own },
    em := { cfg := ⟨DAY, GENESIS⟩, owner := own },
    fc := own,
    nowNs := GENESIS * NANOS,
    tfFees := [⟨"uom", 1000⟩],
    validAddr := fun a => (USERS ++ ["pm", "fm", "em", "fc"]).contains a }

theorem w0_tfNodup : (w0.tfFees.map (·.denom)).Nodup := by
  show ["uom"].Nodup
  simp

theorem w0_tfSmall : ∀ f ∈ w0.tfFees, f.amount ≤ U128_MAX / 2 := by
  intro f hf
  have : f = ⟨"uom", 1000⟩ := by simpa [w0] using hf
  subst this
  decide

/-- the bank: distinct addresses hold at most the supply (at most the six funded users hold anything) -/
theorem w0_supplyCovers (d : Denom) (as : List Addr) (hnd : as.Nodup) :
    C02Sys.sumOver as (fun a => w0.bank.bal a d) ≤ w0.bank.supply d :=
  NonVac.genesis_supply_covers USERS BASE BAL d as hnd

theorem base_short : ∀ b ∈ BASE, b.toList.length ≤ 10 := by decide

/-- no LP token exists at genesis: an LP denom `factory/pm/….LP` is none of the seven base denoms -/
theorem w0_noLp (id : String) : w0.bank.supply (lpDenomOf PM id) = 0 := by
  show (if BASE.contains (lpDenomOf PM id) then 6 * BAL else 0) = 0
  rw [NonVac.lpDenom_not_short BASE base_short PM id]
  rfl

theorem w0_allInv : C01All.AllInv w0 :=
  C01All.all_inv_init w0 rfl rfl w0_tfNodup w0_tfSmall w0_supplyCovers w0_noLp
theorem w0_pmInv : C01Sys.PmInv w0 := C01Sys.pm_inv_init w0 rfl rfl w0_tfNodup w0_tfSmall
theorem w0_feeSmall : C01Sys.FeeSmall w0 := by
  show 1000 ≤ U128_MAX / 2
  decide
theorem w0_lpInv : C02Sys.LpInv w0 := C02Sys.lp_inv_init_partial w0 rfl rfl w0_supplyCovers w0_noLp
theorem w0_unfunded : C03Sys.Unfunded w0 := by
  intro p hp
  cases hp
theorem w0_fmInv : C05Sys.FmInv w0 := C05Sys.fm_inv_init w0 rfl rfl
theorem w0_wInv : C10Sys.WInv w0 := C10Sys.winv_init w0 rfl rfl rfl
theorem w0_fresh : C06Sys.Fresh w0 := ⟨rfl, rfl, rfl, rfl, rfl⟩
theorem w0_farmLimit : C11Sys.FarmLimit w0 := by
  intro lp
  exact Nat.zero_le _

def lp : Denom := lpDenomOf PM "o.pool"
def fees : PoolFee := ⟨1000000000000000, 2000000000000000, 0, []⟩

/-- a concrete history: pool creation, first and second deposit, a lock, a farm, two epochs, a claim -/
def hist : List (Tx × Option Nat) := [
  (.exec "u1" PM (.pm (.createPool ["uom", "uusdc"] [6, 6] fees .cp (some "pool"))) [⟨"uom", 1000⟩, ⟨"uusd", 1000⟩], none),
  (.exec "u1" PM (.pm (.provideLiquidity none none none "o.pool" none none)) [⟨"uom", 1000000⟩, ⟨"uusdc", 1000000⟩], none),
  (.exec "u2" PM (.pm (.provideLiquidity none none none "o.pool" none none)) [⟨"uom", 500000⟩, ⟨"uusdc", 500000⟩], none),
  (.exec "u2" FM (.fm (.createPosition none DAY none)) [⟨lp, 400000⟩], none),
  (.exec "u3" FM (.fm (.createFarm ⟨lp, none, none, ⟨"uusdt", 14000⟩, some "farm"⟩)) [⟨"uom", 1000⟩, ⟨"uusdt", 14000⟩], none),
  (.advance (3 * DAY * NANOS), none),
  (.exec "u2" FM (.fm (.claim none)) [], none)]

def wEnd : World := hist.foldl (fun w t => step w t.1 t.2) w0

theorem mem_hist {P : Tx × Option Nat → Prop} (h : ∀ i : Fin 7, P hist[i]) : ∀ t ∈ hist, P t := by
  intro t ht
  obtain ⟨i, hi, rfl⟩ := List.getElem_of_mem ht
  exact h ⟨i, hi⟩

theorem hist_external : ∀ t ∈ hist, C05Sys.External t.1 := by
  apply mem_hist
  intro i
  match i with
  | ⟨0, _⟩ => exact ⟨by decide, by decide⟩
  | ⟨1, _⟩ => exact ⟨by decide, by decide⟩
  | ⟨2, _⟩ => exact ⟨by decide, by decide⟩
  | ⟨3, _⟩ => exact ⟨by decide, List.nodup_cons.2 ⟨List.not_mem_nil, List.nodup_nil⟩⟩
  | ⟨4, _⟩ => exact ⟨by decide, by decide⟩
  | ⟨5, _⟩ => exact trivial
  | ⟨6, _⟩ => exact ⟨by decide, List.nodup_nil⟩

theorem hist_external' : ∀ t ∈ hist, C01Sys.External t.1 := by
  apply mem_hist
  intro i
  match i with
  | ⟨0, _⟩ => exact ⟨by decide, by decide⟩
  | ⟨1, _⟩ => exact ⟨by decide, by decide⟩
  | ⟨2, _⟩ => exact ⟨by decide, by decide⟩
  | ⟨3, _⟩ => exact ⟨by decide, List.nodup_cons.2 ⟨List.not_mem_nil, List.nodup_nil⟩⟩
  | ⟨4, _⟩ => exact ⟨by decide, by decide⟩
  | ⟨5, _⟩ => exact trivial
  | ⟨6, _⟩ => exact ⟨by decide, List.nodup_nil⟩

/-- no transaction of the history is a configuration or ownership message -/
theorem hist_quiet : ∀ t ∈ hist, NonVac.Quiet t.1 := by
  apply mem_hist
  intro i
  match i with
  | ⟨0, _⟩ | ⟨1, _⟩ | ⟨2, _⟩ | ⟨3, _⟩ | ⟨4, _⟩ | ⟨5, _⟩ | ⟨6, _⟩ => exact trivial

theorem hist_clock : w0.nowNs + NonVac.advSum hist ≤ U64_MAX := by
  show GENESIS * NANOS + (0 + (0 + (0 + (0 + (0 + (3 * DAY * NANOS + (0 + 0))))))) ≤ U64_MAX
  decide

/-- every prefix of the history keeps the configurations of the three managers and stays within the clock bound -/
theorem hist_prefix (n : Nat) :
    ((hist.take n).foldl (fun w t => step w t.1 t.2) w0).em = w0.em ∧
    ((hist.take n).foldl (fun w t => step w t.1 t.2) w0).fm.config = w0.fm.config ∧
    ((hist.take n).foldl (fun w t => step w t.1 t.2) w0).pm.config = w0.pm.config ∧
    ((hist.take n).foldl (fun w t => step w t.1 t.2) w0).nowNs ≤ U64_MAX := by
  have h := NonVac.quiet_prefix w0 hist hist_external' hist_quiet List.nodup_nil n
  exact ⟨h.1, h.2.1, h.2.2.1, Nat.le_trans h.2.2.2 hist_clock⟩

theorem hist_stable : C06Sys.Stable w0 hist := by
  intro n
  obtain ⟨h1, h2, -, h4⟩ := hist_prefix n
  refine ⟨⟨?_, ?_, h4⟩, ?_⟩
  · rw [h1]
  · rw [h2]
  · rw [h2]; rfl

/-- the creation fee stays small along the history (it never changes) -/
theorem hist_feeSmall (n : Nat) : C01Sys.FeeSmall ((hist.take n).foldl (fun w t => step w t.1 t.2) w0) := by
  obtain ⟨-, -, h3, -⟩ := hist_prefix n
  unfold C01Sys.FeeSmall
  rw [h3]
  exact w0_feeSmall

/-- the final state and the ledger, computed with the kernel-evaluable twin `NonVac.stepK` of `step`
    (`NonVac.stepK_eq : @stepK = @step`; see `Proofs/NonVacTwin.lean`) -/
theorem wEnd_eq_twin : wEnd = hist.foldl (fun w t => NonVac.stepK w t.1 t.2) w0 := by
  unfold wEnd
  rw [NonVac.stepK_eq]

/-- the history really does what it says: a pool, a position, a farm with something claimed, a non-empty ledger.
    Proof: evaluation of the seven transactions by the kernel (`decide +kernel`: checked by the kernel itself, no trust in the compiler) on the twin. -/
theorem hist_effective :
    wEnd.pm.pools.length = 1 ∧ wEnd.fm.positions.length = 1 ∧
    (∃ f ∈ wEnd.fm.farms, f.claimed ≠ 0) ∧ (C06Sys.ledger w0 hist).length ≠ 0 := by
  rw [wEnd_eq_twin, ← NonVac.ledgerK_eq hist w0]
  decide +kernel

/-- more precisely: all seven transactions are accepted, the ledger has three entries (user `u2`, epochs 1, 2, 3,
    1000 each) and the farm has paid out 3000 -/
theorem hist_effective_detail :
    NonVac.allAccepted w0 hist = true ∧
    (C06Sys.ledger w0 hist).map (fun x => (x.user, x.epoch, x.reward)) = [("u2", 1, 1000), ("u2", 2, 1000), ("u2", 3, 1000)] ∧
    wEnd.fm.farms.map (·.claimed) = [3000] := by
  rw [wEnd_eq_twin, ← NonVac.ledgerK_eq hist w0, ← NonVac.allAcceptedK_eq hist w0]
  decide +kernel

/-- … hence the reachable-state theorems apply to it (instances, not new facts) -/
theorem instance_custody : C01All.PmCustodyAll wEnd ∧ C05Sys.FmCustody wEnd :=
  ⟨C01All.pm_custody_all_reachable w0 w0_allInv hist hist_external' hist_feeSmall,
   C05Sys.fm_custody_reachable w0 w0_fmInv hist hist_external⟩
theorem instance_weights : C10Sys.Covers wEnd :=
  (C10Sys.weights_covered_reachable w0 w0_wInv hist hist_external hist_stable).1
theorem instance_emission (f : String) (lp' : Denom) (r e : Nat) :
    C06Sys.sumRewards ((C06Sys.ledger w0 hist).filter fun x => x.farm == f && x.lp == lp' && x.rate == r && x.epoch == e) ≤ r :=
  C06Sys.epoch_paid_le_emission w0 w0_fresh hist hist_external hist_stable f lp' r e

end MantraDex.NonVacuity
