/-
  C11 — Farm lifecycle conserves funds and respects owners and limits.
  (Owner checks: C15.  Custody: C05.)
-/
import MantraDex.Model.System
import MantraDex.Proofs.NumLemmas

set_option linter.unusedSimpArgs false

namespace MantraDex.C11
open MantraDex

/-- `assert_farm_asset` (after the F-05 fix): the funds are exactly the reward, plus the fee coin
    when a non-zero fee is due in another denom; in the same denom, one coin of reward + fee -/
theorem farm_asset_exact {funds : List Coin} {fee asset : Coin}
    (h : assertFarmAsset funds fee asset = .ok ()) :
    (fee.denom ≠ asset.denom ∧ fee.amount = 0 → funds = [asset]) ∧
    (fee.denom ≠ asset.denom ∧ fee.amount ≠ 0 → funds.length = 2 ∧
        ∃ c ∈ funds, c.denom = asset.denom ∧ c.amount = asset.amount) ∧
    (fee.denom = asset.denom → funds = [⟨asset.denom, asset.amount + fee.amount⟩]) := by
  sorry

/-- the fee messages: any overpayment of a fee paid in another denom is refunded to the sender,
    exactly the fee goes to the fee collector -/
theorem farm_fee_messages {cfg : FmConfig} {sender : Addr} {funds : List Coin} {asset : Coin}
    {msgs : List Msg} (hne : cfg.createFarmFee.amount ≠ 0)
    (h : processFarmCreationFee cfg sender funds asset = .ok msgs) :
    ∃ paid, (funds.find? (·.denom == cfg.createFarmFee.denom)).map (·.amount) = some paid ∧
      cfg.createFarmFee.amount ≤ paid ∧
      msgs = (if paid = cfg.createFarmFee.amount ∨ cfg.createFarmFee.denom == asset.denom then []
              else [Msg.bankSend sender [⟨cfg.createFarmFee.denom, paid - cfg.createFarmFee.amount⟩]]) ++
             [Msg.bankSend cfg.feeCollector [cfg.createFarmFee]] := by
  sorry

/-- what an accepted `create_farm` records: the full reward as the budget, nothing claimed, the
    sender as owner, emission rate = ⌊reward / (end − start)⌋, start > current epoch, within the buffer -/
theorem create_farm_records {s s' : FmState} {env : FmEnv} {sender : Addr} {funds : List Coin}
    {p : FarmParams} {r : Response} (h : createFarm s env sender funds p = .ok (s', r)) :
    ∃ f cur, f ∈ s'.farms ∧ (∀ g ∈ s.farms, g.id ≠ f.id) ∧ fmCurrentEpoch s env = .ok cur ∧
      f.owner = sender ∧ f.lpDenom = p.lpDenom ∧ f.assetDenom = p.asset.denom ∧
      f.assetAmount = p.asset.amount ∧ f.claimed = 0 ∧ C.MIN_FARM_AMOUNT ≤ f.assetAmount ∧
      cur < f.startEpoch ∧ f.startEpoch < f.endEpoch ∧ f.startEpoch ≤ cur + s.config.maxFarmEpochBuffer ∧
      f.emissionRate = f.assetAmount / (f.endEpoch - f.startEpoch) ∧
      assertFarmAsset funds s.config.createFarmFee p.asset = .ok () := by
  sorry

/-- expanding adds exactly the attached amount (a multiple of the emission rate) and extends the
    end by amount / rate epochs; only before the farm ended -/
theorem expand_farm_exact {s s' : FmState} {env : FmEnv} {sender : Addr} {funds : List Coin}
    {p : FarmParams} {r : Response} {fid : String} {f : Farm}
    (hid : p.farmId = some fid) (hf : s.getFarm fid = .ok f)
    (h : expandFarm s env sender funds p = .ok (s', r)) :
    ∃ cur f', funds = [p.asset] ∧ p.asset.denom = f.assetDenom ∧ f.emissionRate ≠ 0 ∧
      p.asset.amount % f.emissionRate = 0 ∧ fmCurrentEpoch s env = .ok cur ∧ cur < f.endEpoch ∧
      s'.getFarm fid = .ok f' ∧ f'.assetAmount = f.assetAmount + p.asset.amount ∧
      f'.endEpoch = f.endEpoch + p.asset.amount / f.emissionRate ∧ f'.claimed = f.claimed ∧
      f'.owner = f.owner ∧ f'.emissionRate = f.emissionRate ∧ f'.startEpoch = f.startEpoch ∧ r.msgs = [] := by
  sorry

/-- closing refunds exactly the unclaimed remainder to the farm's owner and to nobody else -/
theorem close_farms_refunds (s : FmState) (fs : List Farm) :
    ((closeFarms s fs).2.map (·.msg)) =
      (fs.filter (fun f => f.assetAmount - f.claimed > 0)).map
        (fun f => Msg.bankSend f.owner [⟨f.assetDenom, f.assetAmount - f.claimed⟩]) ∧
    (closeFarms s fs).1.farms = s.farms.filter (fun g => !(fs.any (·.id == g.id))) := by
  sorry

/-- the number of farms per LP token never exceeds the configured maximum (≤ 100, see F-12) -/
theorem farms_per_lp_le_max_partial {s s' : FmState} {env : FmEnv} {sender : Addr} {funds : List Coin}
    {p : FarmParams} {r : Response}
    (hmax : s.config.maxConcurrentFarms ≤ C.MAX_FARMS_LIMIT)
    (hinv : (s.farms.filter (·.lpDenom == p.lpDenom)).length ≤ s.config.maxConcurrentFarms)
    (h : createFarm s env sender funds p = .ok (s', r)) :
    (s'.farms.filter (·.lpDenom == p.lpDenom)).length ≤ s.config.maxConcurrentFarms := by
  sorry

/-- the limit can only be raised -/
theorem max_farms_never_decreases {s s' : FmState} {env : FmEnv} {sender : Addr} {u : FmConfigUpdate}
    {r : Response} (h : fmUpdateConfig s env sender u = .ok (s', r)) :
    s.config.maxConcurrentFarms ≤ s'.config.maxConcurrentFarms := by
  sorry

end MantraDex.C11
