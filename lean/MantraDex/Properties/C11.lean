/-
  C11 — Farm lifecycle conserves funds and respects owners and limits.
  (Owner checks: C15.  Custody: C05.)
-/
import MantraDex.Model.System
import MantraDex.Proofs.NumLemmas
import MantraDex.Proofs.FarmHandlerLemmas

set_option linter.unusedSimpArgs false

namespace MantraDex.C11
open MantraDex MantraDex.FH

/-- `assert_farm_asset` (after the F-05 fix): the funds are exactly the reward, plus the fee coin
    when a non-zero fee is due in another denom; in the same denom, one coin of reward + fee -/
theorem farm_asset_exact {funds : List Coin} {fee asset : Coin}
    (h : assertFarmAsset funds fee asset = .ok ()) :
    (fee.denom ≠ asset.denom ∧ fee.amount = 0 → funds = [asset]) ∧
    (fee.denom ≠ asset.denom ∧ fee.amount ≠ 0 → funds.length = 2 ∧
        ∃ c ∈ funds, c.denom = asset.denom ∧ c.amount = asset.amount) ∧
    (fee.denom = asset.denom → funds = [⟨asset.denom, asset.amount + fee.amount⟩]) := by
  unfold assertFarmAsset at h
  rcases hfind : funds.find? (fun x => x.denom == asset.denom) with _ | sent
  · simp [hfind, bind, Except.bind] at h
  · have hd : sent.denom = asset.denom := by
      have := List.find?_some hfind; simpa using this
    simp only [hfind, bind_ok, pure_ok] at h
    obtain ⟨sent', hs, h⟩ := h
    subst hs
    by_cases hne : fee.denom = asset.denom
    · have hb : (fee.denom != asset.denom) = false := by simp [hne]
      simp only [hb, Bool.false_eq_true, if_false, bind_ok, ckAdd_ok] at h
      obtain ⟨t, ⟨_, rfl⟩, h⟩ := h
      by_cases hamt : asset.amount + fee.amount = sent'.amount
      · by_cases hlen : funds.length = 1
        · refine ⟨fun hh => absurd hne hh.1, fun hh => absurd hne hh.1, fun _ => ?_⟩
          rw [find_single hlen hfind]
          cases sent'; simp_all
        · simp [hamt, hlen] at h
      · simp [hamt, bind, Except.bind] at h
    · have hb : (fee.denom != asset.denom) = true := by simp [hne]
      simp only [hb, if_true] at h
      by_cases hamt : sent'.amount = asset.amount
      · by_cases hlen : funds.length = if fee.amount = 0 then 1 else 2
        · refine ⟨?_, ?_, fun he => absurd he hne⟩
          · rintro ⟨_, h0⟩
            rw [if_pos h0] at hlen
            rw [find_single hlen hfind]
            cases sent'; cases asset; simp_all
          · rintro ⟨_, h0⟩
            rw [if_neg h0] at hlen
            exact ⟨hlen, sent', List.mem_of_find?_eq_some hfind, hd, hamt⟩
        · simp [hamt, hlen] at h
      · simp [hamt, bind, Except.bind] at h

/-- the fee messages: any overpayment of a fee paid in another denom is refunded to the sender,
    exactly the fee goes to the fee collector -/
theorem farm_fee_messages {cfg : FmConfig} {sender : Addr} {funds : List Coin} {asset : Coin}
    {msgs : List Msg} (hne : cfg.createFarmFee.amount ≠ 0)
    (h : processFarmCreationFee cfg sender funds asset = .ok msgs) :
    ∃ paid, (funds.find? (·.denom == cfg.createFarmFee.denom)).map (·.amount) = some paid ∧
      cfg.createFarmFee.amount ≤ paid ∧
      msgs = (if paid = cfg.createFarmFee.amount ∨ cfg.createFarmFee.denom == asset.denom then []
              else [Msg.bankSend sender [⟨cfg.createFarmFee.denom, paid - cfg.createFarmFee.amount⟩]]) ++
             [Msg.bankSend cfg.feeCollector [cfg.createFarmFee]] := by
  unfold processFarmCreationFee at h
  rcases hfind : funds.find? (fun x => x.denom == cfg.createFarmFee.denom) with _ | c
  · simp [hfind, bind, Except.bind] at h
  · have hpos : cfg.createFarmFee.amount > 0 := Nat.pos_of_ne_zero hne
    simp only [hfind, bind_ok, pure_ok, hpos, if_true] at h
    obtain ⟨paid, rfl, h⟩ := h
    refine ⟨c.amount, by rw [hfind]; rfl, ?_⟩
    by_cases h1 : c.amount = cfg.createFarmFee.amount
    · simp only [h1, if_true, pure_ok, bind_ok] at h
      obtain ⟨_, rfl, rfl⟩ := h
      simp [h1]
    · simp only [h1, if_false] at h
      by_cases h2 : c.amount < cfg.createFarmFee.amount
      · simp [h2, bind, Except.bind] at h
      · simp only [h2, if_false] at h
        refine ⟨by omega, ?_⟩
        by_cases h3 : (cfg.createFarmFee.denom == asset.denom) = true
        · simp only [h3, if_true, bind_ok, ckAdd_ok] at h
          obtain ⟨t, ⟨_, rfl⟩, h⟩ := h
          split at h
          · simp [bind, Except.bind] at h
          · simp only [pure_ok, bind_ok] at h
            obtain ⟨_, rfl, rfl⟩ := h
            simp [h3]
        · simp only [h3, if_false, pure_ok, bind_ok] at h
          obtain ⟨_, rfl, rfl⟩ := h
          simp [h1, h3]

/-- what an accepted `create_farm` records: the full reward as the budget, nothing claimed, the
    sender as owner, emission rate = ⌊reward / (end − start)⌋, start > current epoch, within the buffer.

    PARTIAL: the original statement (without `hreuse`) is false.  `create_farm` first closes the
    expired farms of the LP denom and only then checks that the identifier is free, so the new farm
    may re-use the identifier of a farm that expired and is closed by the very same call; then
    `∀ g ∈ s.farms, g.id ≠ f.id` fails (counterexample: see the comment after this theorem).
    `hreuse` excludes exactly that: no expired farm of this LP denom carries the new identifier. -/
theorem create_farm_records_partial {s s' : FmState} {env : FmEnv} {sender : Addr} {funds : List Coin}
    {p : FarmParams} {r : Response}
    (hreuse : ∀ g ∈ s.farms, g.lpDenom = p.lpDenom → isFarmExpiredOrFalse s env g = .ok true →
      g.id ≠ (match p.farmId with
        | some i => C.EXPLICIT_FARM_ID_PREFIX ++ i
        | none => C.AUTO_FARM_ID_PREFIX ++ toString (s.farmCounter + 1)))
    (h : createFarm s env sender funds p = .ok (s', r)) :
    ∃ f cur, f ∈ s'.farms ∧ (∀ g ∈ s.farms, g.id ≠ f.id) ∧ fmCurrentEpoch s env = .ok cur ∧
      f.owner = sender ∧ f.lpDenom = p.lpDenom ∧ f.assetDenom = p.asset.denom ∧
      f.assetAmount = p.asset.amount ∧ f.claimed = 0 ∧ C.MIN_FARM_AMOUNT ≤ f.assetAmount ∧
      cur < f.startEpoch ∧ f.startEpoch < f.endEpoch ∧ f.startEpoch ≤ cur + s.config.maxFarmEpochBuffer ∧
      f.emissionRate = f.assetAmount / (f.endEpoch - f.startEpoch) ∧
      assertFarmAsset funds s.config.createFarmFee p.asset = .ok () := by
  obtain ⟨cur, flags, feeMsgs, start, end_, rate, hcur, hflags, _, hmin, _, hassert, hval, hrate, hany,
    rfl, _⟩ := createFarm_inv h
  obtain ⟨h1, h2, h3⟩ := validateFarmEpochs_ok hval
  obtain ⟨_, hfarms, _, _, hctr⟩ := closeFarms_spec s (cfExpired s p flags)
  simp only [divFloorFrac_ok, Nat.mul_one] at hrate
  refine ⟨{
      id := (cfIdState (closeFarms s (cfExpired s p flags)).1 p).1, owner := sender,
      lpDenom := p.lpDenom, assetDenom := p.asset.denom, assetAmount := p.asset.amount,
      claimed := 0, emissionRate := rate, startEpoch := start, endEpoch := end_ }, cur, ?_, ?_, hcur, rfl, rfl,
    rfl, rfl, rfl, hmin, h1, h2, h3, hrate.2.2, hassert⟩
  · unfold FmState.saveFarm
    rw [if_neg (by rw [hany]; simp)]
    exact (insertFarmSorted_perm _ _).mem_iff.2 (List.mem_cons_self)
  · intro g hg
    simp only
    by_cases hk : ((cfExpired s p flags).any (·.id == g.id)) = true
    · obtain ⟨g', hg', hid⟩ := List.any_eq_true.1 hk
      have hid' : g'.id = g.id := by simpa using hid
      unfold cfExpired at hg'
      simp only [List.mem_map, List.mem_filter] at hg'
      obtain ⟨⟨g'', b⟩, ⟨hz, hb⟩, rfl⟩ := hg'
      simp only at hb; subst hb
      have hexp := (mapM_ok_zip _ _ _ hflags).2 _ hz
      have hmem : g'' ∈ cfFarms s p := (List.of_mem_zip hz).1
      unfold cfFarms FmState.farmsByLp at hmem
      have hmem' := List.mem_of_mem_take hmem
      simp only [List.mem_filter, beq_iff_eq] at hmem'
      have := hreuse g'' hmem'.1 hmem'.2 hexp
      rw [cfIdState_fst, hctr, ← hid']
      exact this
    · have hg1 : g ∈ (cfIdState (closeFarms s (cfExpired s p flags)).1 p).2.farms := by
        rw [cfIdState_farms, hfarms]
        simp only [List.mem_filter]
        exact ⟨hg, by simpa using hk⟩
      have := List.any_eq_false.1 hany g hg1
      simpa using this

/-
  Counterexample to the unrestricted `create_farm_records` (checked with `#eval`):

    def lp : Denom := "factory/pm/p.1.LP"
    def cfg0 : FmConfig := {
      feeCollector := "fc", epochManager := "em", poolManager := "pm",
      createFarmFee := ⟨"uom", 0⟩, maxConcurrentFarms := 5, maxFarmEpochBuffer := 14,
      minUnlocking := 86400, maxUnlocking := 31556926, farmExpirationTime := 2629746,
      emergencyUnlockPenalty := 0 }
    def oldFarm : Farm := {
      id := "m-foo", owner := "alice", lpDenom := lp, assetDenom := "uusd",
      assetAmount := 1000, claimed := 1000, emissionRate := 100, startEpoch := 1, endEpoch := 2 }
    def s0 : FmState := { config := cfg0, farms := [oldFarm], owner := { owner := some "admin" } }
    def env0 : FmEnv := {
      self := "fm", nowNs := 86400 * 10 * 1000000000, validAddr := fun _ => true,
      emConfig := fun a => if a = "em" then some ⟨86400, 0⟩ else none }
    def p0 : FarmParams := {
      lpDenom := lp, startEpoch := none, endEpoch := none, asset := ⟨"uusd", 5000⟩, farmId := some "foo" }

    #eval isFarmExpiredOrFalse s0 env0 oldFarm                      -- Except.ok true
    #eval (createFarm s0 env0 "bob" [⟨"uusd", 5000⟩] p0).toOption.map (·.1.farms.map (·.id))
                                                                    -- some ["m-foo"]
  The only farm of the new state has id "m-foo", and `oldFarm ∈ s0.farms` has the same id.
-/

/-- expanding adds exactly the attached amount (a multiple of the emission rate) and extends the
    end by amount / rate epochs; only before the farm ended -/
theorem expand_farm_exact {s s' : FmState} {env : FmEnv} {sender : Addr} {funds : List Coin}
    {p : FarmParams} {r : Response} {fid : String} {f : Farm}
    (hid : p.farmId = some fid) (hf : s.getFarm fid = .ok f)
    (h : expandFarm s env sender funds p = .ok (s', r)) :
    ∃ cur f', funds = [p.asset] ∧ p.asset.denom = f.assetDenom ∧ f.emissionRate ≠ 0 ∧
      p.asset.amount % f.emissionRate = 0 ∧ fmCurrentEpoch s env = .ok cur ∧ cur < f.endEpoch ∧
      s'.getFarm fid = .ok f' ∧ f'.assetAmount = f.assetAmount + p.asset.amount ∧
      f'.endEpoch = f.endEpoch + p.asset.amount / f.emissionRate ∧ f'.claimed = f.claimed ∧
      f'.owner = f.owner ∧ f'.emissionRate = f.emissionRate ∧ f'.startEpoch = f.startEpoch ∧ r.msgs = [] := by
  unfold expandFarm at h
  simp only [hid, error_bind, ite_err_ok, bind_ok, pure_ok, fit_ok, ckAdd_ok] at h
  obtain ⟨fid', hfid', f', hf', _, cur, hcur, hlt, ex, _, _, _, reward, hone, hrw, hden, hrate, hmod, total,
    ⟨_, rfl⟩, extra, ⟨_, rfl⟩, newEnd, ⟨_, rfl⟩, h⟩ := h
  subst hfid'
  rw [hf] at hf'
  cases hf'
  simp only [Prod.mk.injEq] at h
  obtain ⟨rfl, rfl⟩ := h
  have hrw' : reward = p.asset := by simpa using hrw
  subst hrw'
  have hden' : f.assetDenom = p.asset.denom := by simpa using hden
  have hfunds : funds = [p.asset] := by
    unfold oneCoin at hone
    split at hone
    · split at hone
      · simp at hone
      · simp only [Except.ok.injEq] at hone; rw [hone]
    · simp at hone
  unfold FmState.getFarm at hf
  split at hf
  next f0 hfind =>
    simp only [Except.ok.injEq] at hf; subst hf
    have hfid : f0.id = fid' := by simpa using List.find?_some hfind
    have hmem := List.mem_of_find?_eq_some hfind
    subst hfid
    refine ⟨cur, { f0 with
        assetAmount := f0.assetAmount + p.asset.amount,
        endEpoch := f0.endEpoch + p.asset.amount / f0.emissionRate }, hfunds, hden'.symm, hrate, by simpa using hmod, hcur, Nat.lt_of_not_le hlt, ?_,
      rfl, rfl, rfl, rfl, rfl, rfl, rfl⟩
    unfold FmState.getFarm FmState.saveFarm
    have hany : (s.farms.any (·.id == f0.id)) = true := List.any_eq_true.2 ⟨f0, hmem, by simp⟩
    simp only [hany, if_true]
    rw [find_map_replace (k := Farm.id) s.farms f0 _ ?_ hfind]
    rfl
  next => cases hf

/-- closing refunds exactly the unclaimed remainder to the farm's owner and to nobody else -/
theorem close_farms_refunds (s : FmState) (fs : List Farm) :
    ((closeFarms s fs).2.map (·.msg)) =
      (fs.filter (fun f => f.assetAmount - f.claimed > 0)).map
        (fun f => Msg.bankSend f.owner [⟨f.assetDenom, f.assetAmount - f.claimed⟩]) ∧
    (closeFarms s fs).1.farms = s.farms.filter (fun g => !(fs.any (·.id == g.id))) := by
  obtain ⟨h1, h2, _⟩ := closeFarms_spec s fs
  exact ⟨h1, h2⟩

/-- the number of farms per LP token never exceeds the configured maximum (≤ 100, see F-12) -/
theorem farms_per_lp_le_max_partial {s s' : FmState} {env : FmEnv} {sender : Addr} {funds : List Coin}
    {p : FarmParams} {r : Response}
    (hmax : s.config.maxConcurrentFarms ≤ C.MAX_FARMS_LIMIT)
    (hinv : (s.farms.filter (·.lpDenom == p.lpDenom)).length ≤ s.config.maxConcurrentFarms)
    (h : createFarm s env sender funds p = .ok (s', r)) :
    (s'.farms.filter (·.lpDenom == p.lpDenom)).length ≤ s.config.maxConcurrentFarms := by
  obtain ⟨cur, flags, feeMsgs, start, end_, rate, hcur, hflags, hlive, _, _, _, _, _, hany,
    rfl, _⟩ := createFarm_inv h
  obtain ⟨_, hfarms, _, _, _⟩ := closeFarms_spec s (cfExpired s p flags)
  obtain ⟨hlen, hz⟩ := mapM_ok_zip _ _ _ hflags
  have hall : cfFarms s p = s.farms.filter (·.lpDenom == p.lpDenom) := by
    unfold cfFarms FmState.farmsByLp
    apply List.take_of_length_le
    rw [Nat.min_eq_left hmax]; exact hinv
  unfold FmState.saveFarm
  rw [if_neg (by rw [hany]; simp)]
  rw [((insertFarmSorted_perm _ _).filter _).length_eq, cfIdState_farms, hfarms, List.filter_cons]
  simp only [beq_self_eq_true, if_true, List.length_cons, List.filter_filter]
  have hle := zip_filter_len (fun g => !((cfExpired s p flags).any (·.id == g.id))) (cfFarms s p) flags hlen
    (by
      intro x hx hq
      cases hb : x.2 with
      | false => rfl
      | true =>
        exfalso
        have : x.1 ∈ cfExpired s p flags := by
          unfold cfExpired
          simp only [List.mem_map, List.mem_filter]
          exact ⟨x, ⟨hx, hb⟩, rfl⟩
        have hh : ((cfExpired s p flags).any (·.id == x.1.id)) = true :=
          List.any_eq_true.2 ⟨x.1, this, by simp⟩
        simp [hh] at hq)
  have heq : (s.farms.filter (fun a => (a.lpDenom == p.lpDenom && !((cfExpired s p flags).any (·.id == a.id))))).length
      = ((cfFarms s p).filter (fun g => !((cfExpired s p flags).any (·.id == g.id)))).length := by
    rw [hall, List.filter_filter]
    congr 1
    apply List.filter_congr
    intro a _; rw [Bool.and_comm]
  rw [heq]
  unfold cfLive at hlive
  omega

/-- the limit can only be raised -/
theorem max_farms_never_decreases {s s' : FmState} {env : FmEnv} {sender : Addr} {u : FmConfigUpdate}
    {r : Response} (h : fmUpdateConfig s env sender u = .ok (s', r)) :
    s.config.maxConcurrentFarms ≤ s'.config.maxConcurrentFarms := by
  unfold fmUpdateConfig at h
  simp only [bind_ok, pure_ok] at h
  obtain ⟨_, _, fc, _, em, _, pm, _, h⟩ := h
  iterate 10 (all_goals (try (split at h <;> try simp only [pure_bind, error_bind, reduceCtorEq] at h)))
  all_goals simp only [pure_ok, Prod.mk.injEq] at h
  all_goals obtain ⟨rfl, _⟩ := h
  all_goals simp only
  all_goals first | exact Nat.le_refl _ | assumption

end MantraDex.C11
