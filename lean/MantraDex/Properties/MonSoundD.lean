/-
  Soundness of the CLAIM monitor (`monClaim`, C06 / C07 / C05) with respect to the model: fed with what an accepted MODEL
  claim did — read off the states before and after by the explicit observation functions below, which mirror what the Rust
  harness reads off the real contracts (`harness/src/monitors.rs`, the `mon_claim` line) — the monitor raises no alarm.

  The monitor recomputes every farm's payment from the LEDGER (`Spec.spanReward`: per epoch ⌊rate · user weight in effect /
  total weight in effect⌋ over the epochs from the one after the cursor — or the user's entry epoch — up to `until`), so this
  theorem says: the model's `claim` pays, per farm, exactly the ledger's amount, moves `claimed` by exactly that, and the bank
  moves exactly the per-denom sums.  Building blocks exist: `C06Sys.claim_pays_entries`, `LedSys.claim_run`,
  `LedSys.lpRewards_coins`, `C07.terms_sum_eq_spanReward`-style lemmas in `Properties/C07.lean` (look them up),
  `C07.address_scan_eq_weightAt`, `C07.contract_scan_eq_weightAt`.

  You may need hypotheses that are fields of the reachable invariants (`WSys.FInv w.fm w.fmEnv`, unique farm identifiers
  `(w.fm.farms.map (·.id)).Nodup`, the per-LP farm limit so that no farm is cut off by the paging limit, sortedness of the weight
  histories, the claimant not being the farm manager / an account).  Add them as NAMED hypotheses, each one either a field of an
  invariant proved for every reachable state elsewhere in `Properties/` (say which theorem) or shown necessary by a
  kernel-evaluated counterexample.  The observation functions must stay as they are (they are what the harness does); if one of
  them cannot be right, say so in the hand-back notes rather than changing it silently.

  RESULT.  The statement as first written (no hypothesis on the state, see the comment before `monClaim_sound_counterexample`)
  is FALSE: `monClaim_sound_counterexample` (kernel-evaluated) is an accepted claim on which the monitor raises
  `C07-underpaid`, because a farm of the user's LP token lies beyond the page `calculate_rewards` reads
  (`farms_by_lp(lp, limit = max_concurrent_farms)` capped at `MAX_FARMS_LIMIT`).  Proved instead:

    * `monClaim_sound_partial`  the original conclusion, with four NAMED hypotheses added:
        `hfinv : WSys.FInv w.fm w.fmEnv`     reachable: `C06Sys.jinv_reach` (`.1.core.finv`), `WSys.wcore_step` (C10 machinery);
                                             used: histories ascending, the total weight covers the claimant's;
        `hn    : farm identifiers distinct`  reachable: `C05Sys.FmInv.farmNodup` (`C05Sys.fm_inv_reachable`, `C06Sys.jinv_reach.2`);
        `hsnap : no snapshot of the claimant lies before the cursor`
                                             reachable: `C06Sys.LInv.cursorSnap` (`C06Sys.linv_reach`);
        `hpage : every LP token has at most min(max_concurrent_farms, MAX_FARMS_LIMIT) farms`
                                             = `C11Sys.FarmLimit w` (reachable: `C11Sys.farm_limit_reachable_final`) together with
                                             `max_concurrent_farms ≤ MAX_FARMS_LIMIT` (the configuration assumption `C07Sys.MaxOk`,
                                             known finding F-12 otherwise); NECESSARY: `monClaim_sound_counterexample`.
    * `monClaim_sound_of_invariants`  the same, stated with the named invariants (`WSys.WCore`, `C05Sys.FmInv`, `C06Sys.LInv`,
      `C11Sys.FarmLimit` + the configuration bound);
    * `monClaim_sound_core`     the same with `hfinv` replaced by the two facts actually used (`hsorted`, `hcov`);
    * `claim_moves_claimed_by_spanReward`  the per-farm clauses on their own (handler level): after an accepted `claim` every
      farm of every LP token of the claimant has `claimed` raised by exactly `Spec.spanReward`, every other farm is untouched.
  The observation functions are unchanged and adequate.  Helper lemmas: `Proofs/MonSoundDLemmas.lean`.
-/
import MantraDex.Model.System
import MantraDex.Model.HistMon
import MantraDex.Properties.C06Sys
import MantraDex.Properties.C07
import MantraDex.Properties.C07Sys
import MantraDex.Proofs.MonSoundDLemmas
import MantraDex.Proofs.NonVacTwin

set_option linter.unusedSimpArgs false
set_option linter.unusedVariables false

namespace MantraDex.MonSoundD
open MantraDex

/-- what the harness lists for one farm: rate, start, preliminary end, reward denom, observed increase of `claimed` -/
def obsFarm (s' : FmState) (f : Farm) : Nat × Nat × Nat × String × Nat :=
  (f.emissionRate, f.startEpoch, f.endEpoch, f.assetDenom,
    ((s'.farms.find? (·.id == f.id)).map (fun g => g.claimed - f.claimed)).getD 0)

/-- one LP token's slice: the user's entry epoch (first epoch of the user's recorded weight history; 0 if none), the user's
    and the contract's change points, no other users (`others := []` makes the third clause compare with the user's own
    share of his own weight, i.e. with the full emission — the weakest form), the LP token's farms -/
def obsLp (s s' : FmState) (fmAddr u : Addr) (lp : Denom) : ClaimLp :=
  { entry := ((s.hist u lp).head?.map (·.1)).getD 0,
    uh := s.hist u lp, th := s.hist fmAddr lp, others := [],
    farms := (s.farms.filter (·.lpDenom == lp)).map (obsFarm s') }

/-- per reward denom: what the claimant received, what left the farm manager -/
def obsPaid (w w' : World) (u : Addr) (ds : List Denom) : List (String × Int × Int) :=
  ds.map fun d => (d, (w'.bank.bal u d : Int) - w.bank.bal u d, (w.bank.bal FM d : Int) - w'.bank.bal FM d)

/-! ### the per-farm clauses, at the level of the handler -/

/-- An accepted `claim` moves `claimed` by exactly the ledger's entitlement: for every LP token `lp` of the claimant's open
    positions and every farm `f` of `lp`, the farm stored under `f`'s identifier afterwards has
    `claimed = f.claimed + Spec.spanReward ⟨rate, start, end⟩ uh th (Spec.firstEpoch cursor entry) until`, with `uh` / `th` the
    claimant's and the contract's weight histories of `lp` BEFORE the claim; farms of other LP tokens are untouched.
    Hypotheses: distinct farm identifiers (`C05Sys.FmInv.farmNodup`), no farm beyond the page read by `calculate_rewards`
    (`hpage`, see the file header), ascending histories (`WSys.FInv.hist.sorted`), no snapshot of the claimant before the
    cursor (`C06Sys.LInv.cursorSnap`). -/
theorem claim_moves_claimed_by_spanReward {s s' : FmState} {env : FmEnv} {u : Addr} {funds : List Coin} {un : Option Nat}
    {r : Response} {cur untilE : Nat}
    (hn : (s.farms.map (·.id)).Nodup)
    (hpage : ∀ lp, (s.farms.filter (·.lpDenom == lp)).length ≤ min s.config.maxConcurrentFarms C.MAX_FARMS_LIMIT)
    (hsorted : ∀ a lp, WSys.Sorted (s.hist a lp))
    (hsnap : ∀ l, s.lastClaimed u = some l → ∀ lp, ∀ sn ∈ s.hist u lp, l ≤ sn.1)
    (hcur : fmCurrentEpoch s env = .ok cur) (hun : untilEpochOrCurrent un cur = .ok untilE)
    (h : fmClaim s env u funds un = .ok (s', r)) :
    (∀ lp ∈ uniqueDenoms (s.positionsBy u true), ∀ f ∈ s.farms, f.lpDenom = lp →
      ∃ g, s'.farms.find? (·.id == f.id) = some g ∧
        g.claimed = f.claimed +
          Spec.spanReward ⟨f.emissionRate, f.startEpoch, f.endEpoch⟩ (s.hist u lp) (s.hist env.self lp)
            (Spec.firstEpoch (s.lastClaimed u) (((s.hist u lp).head?.map (·.1)).getD 0)) untilE) ∧
    (∀ f ∈ s.farms, f.lpDenom ∉ uniqueDenoms (s.positionsBy u true) → s'.farms.find? (·.id == f.id) = some f) := by
  have hall : ∀ lp, s.farmsByLp lp s.config.maxConcurrentFarms = s.farms.filter (·.lpDenom == lp) := by
    intro lp
    unfold FmState.farmsByLp
    exact List.take_of_length_le (hpage lp)
  have hfarms := MonSoundDL.claim_farms hn hall hsorted hsnap hcur hun h
  refine ⟨?_, ?_⟩
  · intro lp hlp f hf hfl
    refine ⟨_, by rw [hfarms]; exact MonSoundDL.find_map_id hn hf _ (MonSoundDL.bump_id _ _ _ _ _), ?_⟩
    have hin : f.lpDenom ∈ uniqueDenoms (s.positionsBy u true) := by rw [hfl]; exact hlp
    simp only [MonSoundDL.bump, hin, if_true]
    rw [hfl]
    rfl
  · intro f hf hfl
    rw [hfarms, MonSoundDL.find_map_id hn hf _ (MonSoundDL.bump_id _ _ _ _ _)]
    simp only [MonSoundDL.bump, hfl, if_false, Nat.add_zero]

/-- the monitor's expected payment in denom `d`, for the observations of an accepted claim -/
theorem expectedOf_obs (s s' : FmState) (u : Addr) (cursor : Option Nat) (untilE : Nat) (lps : List Denom) (d : String) :
    MonSoundDL.expectedOf untilE cursor (lps.map (obsLp s s' FM u)) d =
      (lps.map fun lp => Split.dsum (s.farms.filter (·.lpDenom == lp)) (·.assetDenom == d)
        (Split.owed (s.hist u lp) (s.hist FM lp) (Spec.firstEpoch cursor (Split.entry (s.hist u lp))) untilE)).sum := by
  unfold MonSoundDL.expectedOf MonSoundDL.perFarm
  rw [Farm.foldl_add_eq_sum, Nat.zero_add]
  induction lps with
  | nil => rfl
  | cons lp lps ih =>
    simp only [List.map_cons, List.flatMap_cons, List.filter_append, List.map_append, List.sum_append]
    rw [ih]
    congr 1
    simp only [obsLp, List.map_map, List.filter_map]
    rw [MonSoundDL.sum_filter_map]
    rfl

/-! ### the monitor -/

/-- `mon_claim` for an accepted top-level claim by `u` with `until` resolved to `untilE`: the LP tokens of the user's open
    positions, the reward denoms of their farms — with exactly the facts about the pre-state that the proof uses:
    `hsorted` histories ascending and `hcov` the contract's total weight covers the claimant's (both from `WSys.FInv`),
    `hn`, `hpage`, `hsnap` as in `monClaim_sound_partial`. -/
theorem monClaim_sound_core (w w' : World) (u : Addr) (un : Option Nat) (cur untilE : Nat)
    (hu : isContract u = false)
    (hsorted : ∀ a lp, WSys.Sorted (w.fm.hist a lp))
    (hcov : ∀ lp e, Spec.weightAt (w.fm.hist u lp) e ≤ Spec.weightAt (w.fm.hist FM lp) e)
    (hn : (w.fm.farms.map (·.id)).Nodup)
    (hpage : ∀ lp, (w.fm.farms.filter (·.lpDenom == lp)).length ≤ min w.fm.config.maxConcurrentFarms C.MAX_FARMS_LIMIT)
    (hsnap : ∀ l, w.fm.lastClaimed u = some l → ∀ lp, ∀ sn ∈ w.fm.hist u lp, l ≤ sn.1)
    (hcur : fmCurrentEpoch w.fm w.fmEnv = .ok cur) (hun : untilEpochOrCurrent un cur = .ok untilE)
    (h : runTx w (.exec u FM (.fm (.claim un)) []) = .ok w') :
    let lps := uniqueDenoms (w.fm.positionsBy u true)
    let ds := ((w.fm.farms.filter fun f => lps.contains f.lpDenom).map (·.assetDenom)).eraseDups
    monClaim untilE (w.fm.lastClaimed u) (lps.map (obsLp w.fm w'.fm FM u)) (obsPaid w w' u ds) none = none := by
  intro lps ds
  obtain ⟨s, r, agg, hclaim, hfm, mv, hagg⟩ := MonSoundDL.claim_tx h
  have hall : ∀ lp, w.fm.farmsByLp lp w.fm.config.maxConcurrentFarms = w.fm.farms.filter (·.lpDenom == lp) := by
    intro lp
    unfold FmState.farmsByLp
    exact List.take_of_length_le (hpage lp)
  obtain ⟨hmoved, _⟩ := claim_moves_claimed_by_spanReward hn hpage hsorted hsnap hcur hun hclaim
  have hout := MonSoundDL.claim_outflow hn hall hsorted hsnap hcur hun hclaim
  have huFM : u ≠ FM := C05Sys.not_contract_ne_FM hu
  apply MonSoundDL.monClaim_quiet
  · -- per farm: `claimed` moved by exactly the ledger's entitlement, which is at most the full emission share
    intro l hl t ht
    obtain ⟨lp, hlp, rfl⟩ := List.mem_map.1 hl
    have ht' : t ∈ (w.fm.farms.filter (·.lpDenom == lp)).map (obsFarm w'.fm) := ht
    obtain ⟨f, hf, rfl⟩ := List.mem_map.1 ht'
    obtain ⟨hfm1, hfl⟩ := List.mem_filter.1 hf
    have hfl' : f.lpDenom = lp := by simpa using hfl
    obtain ⟨g, hg, hgc⟩ := hmoved lp hlp f hfm1 hfl'
    have hcd : (obsFarm w'.fm f).2.2.2.2 =
        Spec.spanReward ⟨f.emissionRate, f.startEpoch, f.endEpoch⟩ (w.fm.hist u lp) (w.fm.hist FM lp)
          (Spec.firstEpoch (w.fm.lastClaimed u) (((w.fm.hist u lp).head?.map (·.1)).getD 0)) untilE := by
      show ((w'.fm.farms.find? (·.id == f.id)).map (fun g => g.claimed - f.claimed)).getD 0 = _
      rw [hfm, hg]
      simp only [Option.map_some, Option.getD_some]
      rw [hgc, Nat.add_sub_cancel_left]
      rfl
    refine ⟨hcd, ?_⟩
    rw [hcd]
    exact MonSoundDL.spanReward_le_ofUsers _ _ _ _ _ _ _ (hcov lp)
  · -- per denom: the claimant received, and the farm manager lost, exactly the sum of the entitlements
    intro x hx
    obtain ⟨d, hd, rfl⟩ := List.mem_map.1 hx
    have hexp : MonSoundDL.expectedOf untilE (w.fm.lastClaimed u) (lps.map (obsLp w.fm w'.fm FM u)) d =
        C01.coinsOf agg d := by
      rw [expectedOf_obs, hagg d, hout d]
      rfl
    have b1 := mv.bal u d
    have b2 := mv.bal FM d
    simp only [if_neg huFM, if_true, if_neg (Ne.symm huFM), Nat.add_zero] at b1 b2
    simp only
    rw [hexp]
    constructor <;> omega

/-
  ORIGINAL STATEMENT (false as first written, refuted by `monClaim_sound_counterexample` below):

    theorem monClaim_sound (w w' : World) (u : Addr) (un : Option Nat) (cur untilE : Nat)
        (hu : isContract u = false)
        (hcur : fmCurrentEpoch w.fm w.fmEnv = .ok cur) (hun : untilEpochOrCurrent un cur = .ok untilE)
        (h : runTx w (.exec u FM (.fm (.claim un)) []) = .ok w') :
        let lps := uniqueDenoms (w.fm.positionsBy u true)
        let ds := ((w.fm.farms.filter fun f => lps.contains f.lpDenom).map (·.assetDenom)).eraseDups
        monClaim untilE (w.fm.lastClaimed u) (lps.map (obsLp w.fm w'.fm FM u)) (obsPaid w w' u ds) none = none

  It has no hypothesis on the pre-state.  Three of the four hypotheses added in `monClaim_sound_partial` are invariants of every
  reachable state (see the file header); the fourth, `hpage`, is the per-LP farm limit `C11Sys.FarmLimit` (an invariant as long as
  `max_concurrent_farms ≤ MAX_FARMS_LIMIT`) plus that configuration bound, and it is necessary:

  `calculate_rewards` reads `farms_by_lp(lp, limit = max_concurrent_farms)`, i.e. the first
  `min(max_concurrent_farms, MAX_FARMS_LIMIT = 100)` farms of the LP token in identifier order.  A farm of the LP token beyond
  that page is not paid and its `claimed_amount` does not move, while the monitor (fed with ALL farms of the LP token, as the
  harness does) expects the ledger's entitlement for it: `C07-underpaid`.  On the real chain this needs
  `max_concurrent_farms > 100` and more than 100 farms on one LP token (known finding F-12) or a farm count above the limit.
  The kernel-evaluated instance below uses the small version of the same thing: limit 1, two farms `a`, `b` (10 `r` per epoch,
  epochs 1 … 4) on the LP token `l`; `u` holds the whole weight since epoch 1 and claims up to epoch 2 in epoch 3.  The claim is
  accepted and pays 20 `r` from farm `a`; farm `b` owes 20 `r` as well but is never looked at.  Every other hypothesis of
  `monClaim_sound_core` holds in that state.
-/

namespace Cx
def own : Ownership := { owner := some "owner" }

/-- limit 1, two farms on the LP token `l`; `u` has one open position and the whole weight since epoch 1; the farm manager
    holds 1000 `r`; day-long epochs from genesis 0, now = start of epoch 3 -/
def w : World := {
  bank := { bal := fun a d => if a == FM && d == "r" then 1000 else 0, supply := fun _ => 0 },
  pm := { config := { feeCollector := FC, farmManager := FM, creationFee := ⟨"uom", 0⟩ }, owner := own },
  fm := { config := ⟨FC, EM, PM, ⟨"uom", 0⟩, 1, 14, 86400, 31536000, 2629746, 0⟩,
          positions := [⟨"p1", "l", 10, 86400, true, none, "u"⟩],
          farms := [⟨"a", "o", "l", "r", 1000, 0, 10, 1, 5⟩, ⟨"b", "o", "l", "r", 1000, 0, 10, 1, 5⟩],
          hist := fun a d => if (a == "u" || a == FM) && d == "l" then [(1, 10)] else [],
          owner := own },
  em := { cfg := ⟨86400, 0⟩, owner := own },
  fc := own, nowNs := 3 * 86400 * NANOS, tfFees := [], validAddr := fun _ => true }

def tx : Tx := .exec "u" FM (.fm (.claim (some 2))) []

/-- the verdict of the monitor on what the accepted claim did, by evaluation in the kernel (on the twin `runTxK = runTx`) -/
theorem eval :
    ((NonVac.runTxK w tx).toOption.map fun w' =>
      monClaim 2 (w.fm.lastClaimed "u") ((uniqueDenoms (w.fm.positionsBy "u" true)).map (obsLp w.fm w'.fm FM "u"))
        (obsPaid w w' "u"
          ((w.fm.farms.filter fun f => (uniqueDenoms (w.fm.positionsBy "u" true)).contains f.lpDenom).map
            (·.assetDenom)).eraseDups) none) = some (some "C07-underpaid") := by
  decide +kernel

theorem sorted (a : Addr) (lp : Denom) : WSys.Sorted (w.fm.hist a lp) := by
  show List.Pairwise _ (if (a == "u" || a == FM) && lp == "l" then [(1, 10)] else [])
  split
  · exact List.pairwise_singleton _ _
  · exact List.Pairwise.nil

theorem cov (lp : Denom) (e : Nat) : Spec.weightAt (w.fm.hist "u" lp) e ≤ Spec.weightAt (w.fm.hist FM lp) e := by
  have : w.fm.hist "u" lp = w.fm.hist FM lp := by
    show (if (("u" : Addr) == "u" || ("u" : Addr) == FM) && lp == "l" then [(1, 10)] else []) =
      (if (FM == "u" || FM == FM) && lp == "l" then [(1, 10)] else [])
    have h1 : ((("u" : Addr) == "u" || ("u" : Addr) == FM)) = true := by decide
    have h2 : (FM == "u" || FM == FM) = true := by decide
    rw [h1, h2]
  rw [this]
  exact Nat.le_refl _
end Cx

/-- the original statement is refuted, and `hpage` cannot be dropped: every hypothesis of the original statement and every
    other hypothesis of `monClaim_sound_core` holds, the claim is accepted, and the monitor raises `C07-underpaid` (a farm of
    the claimant's LP token lies beyond the page `calculate_rewards` reads) -/
theorem monClaim_sound_counterexample :
    isContract "u" = false ∧
    (∀ a lp, WSys.Sorted (Cx.w.fm.hist a lp)) ∧
    (∀ lp e, Spec.weightAt (Cx.w.fm.hist "u" lp) e ≤ Spec.weightAt (Cx.w.fm.hist FM lp) e) ∧
    (Cx.w.fm.farms.map (·.id)).Nodup ∧
    (∀ l, Cx.w.fm.lastClaimed "u" = some l → ∀ lp, ∀ sn ∈ Cx.w.fm.hist "u" lp, l ≤ sn.1) ∧
    fmCurrentEpoch Cx.w.fm Cx.w.fmEnv = .ok 3 ∧ untilEpochOrCurrent (some 2) 3 = .ok 2 ∧
    ¬ (∀ lp, (Cx.w.fm.farms.filter (·.lpDenom == lp)).length ≤ min Cx.w.fm.config.maxConcurrentFarms C.MAX_FARMS_LIMIT) ∧
    ∃ w', runTx Cx.w (.exec "u" FM (.fm (.claim (some 2))) []) = .ok w' ∧
      (let lps := uniqueDenoms (Cx.w.fm.positionsBy "u" true)
       let ds := ((Cx.w.fm.farms.filter fun f => lps.contains f.lpDenom).map (·.assetDenom)).eraseDups
       monClaim 2 (Cx.w.fm.lastClaimed "u") (lps.map (obsLp Cx.w.fm w'.fm FM "u")) (obsPaid Cx.w w' "u" ds) none) =
        some "C07-underpaid" := by
  refine ⟨by decide, Cx.sorted, Cx.cov, by decide, (fun l hl => nomatch hl), by decide, by decide, ?_, ?_⟩
  · intro hp
    exact absurd (hp "l") (by decide)
  · have h := Cx.eval
    rw [NonVac.runTxK_eq] at h
    cases hr : runTx Cx.w Cx.tx with
    | error e => rw [hr] at h; cases h
    | ok w' =>
      rw [hr] at h
      simp only [Except.toOption, Option.map_some, Option.some.injEq] at h
      exact ⟨w', hr, h⟩

/-- `mon_claim` for an accepted top-level claim by `u` with `until` resolved to `untilE`: the LP tokens of the user's open
    positions, the reward denoms of their farms.

    PARTIAL: four NAMED hypotheses on the pre-state are added to the original statement (kept in the comment above):
    * `hfinv`  the farm-manager invariant `WSys.FInv` (reachable: `C06Sys.jinv_reach`, field `core.finv`; `WSys.wcore_step`) —
      used for: weight histories ascending, the contract's total weight covers the claimant's weight at every epoch;
    * `hn`     farm identifiers distinct (reachable: `C05Sys.FmInv.farmNodup`, `C05Sys.fm_inv_reachable`); needed because
      `saveFarm` overwrites every farm carrying the identifier (see `C07Q.query_eq_claim_counterexample`);
    * `hsnap`  no snapshot of the claimant lies before the claim cursor (reachable: `C06Sys.LInv.cursorSnap`,
      `C06Sys.linv_reach`); needed because `compute_address_weights` only sees snapshots inside its window;
    * `hpage`  no LP token has more farms than `calculate_rewards` reads: `C11Sys.FarmLimit w` (reachable:
      `C11Sys.farm_limit_reachable_final`) together with `max_concurrent_farms ≤ MAX_FARMS_LIMIT` (`C07Sys.MaxOk`; known
      finding F-12 otherwise).  Necessary: `monClaim_sound_counterexample`. -/
theorem monClaim_sound_partial (w w' : World) (u : Addr) (un : Option Nat) (cur untilE : Nat)
    (hu : isContract u = false)
    (hfinv : WSys.FInv w.fm w.fmEnv)
    (hn : (w.fm.farms.map (·.id)).Nodup)
    (hsnap : ∀ l, w.fm.lastClaimed u = some l → ∀ lp, ∀ sn ∈ w.fm.hist u lp, l ≤ sn.1)
    (hpage : ∀ lp, (w.fm.farms.filter (·.lpDenom == lp)).length ≤ min w.fm.config.maxConcurrentFarms C.MAX_FARMS_LIMIT)
    (hcur : fmCurrentEpoch w.fm w.fmEnv = .ok cur) (hun : untilEpochOrCurrent un cur = .ok untilE)
    (h : runTx w (.exec u FM (.fm (.claim un)) []) = .ok w') :
    let lps := uniqueDenoms (w.fm.positionsBy u true)
    let ds := ((w.fm.farms.filter fun f => lps.contains f.lpDenom).map (·.assetDenom)).eraseDups
    monClaim untilE (w.fm.lastClaimed u) (lps.map (obsLp w.fm w'.fm FM u)) (obsPaid w w' u ds) none = none := by
  refine monClaim_sound_core w w' u un cur untilE hu hfinv.hist.sorted ?_ hn hpage hsnap hcur hun h
  intro lp e
  have hc : WSys.sumU [u] (fun a => Spec.weightAt (w.fm.hist a lp) e) ≤ Spec.weightAt (w.fm.hist FM lp) e :=
    hfinv.hist.covers lp [u] (by simp) (by simpa using fun e' => (C05Sys.not_contract_ne_FM hu) e'.symm) e
  simpa [WSys.sumU] using hc

/-- the hypotheses of `monClaim_sound_partial` in terms of the named invariants of `Properties/`: the core invariant of C10
    (`WSys.WCore`), the farm-manager invariant of C05 (`C05Sys.FmInv`), the ledger invariant of C06 (`C06Sys.LInv`, any ledger
    `L`) and the farm limit of C11 with the configuration bound -/
theorem monClaim_sound_of_invariants (w w' : World) (u : Addr) (un : Option Nat) (cur untilE : Nat) {D : Prop}
    {L : List C06Sys.Entry}
    (hu : isContract u = false)
    (hcore : WSys.WCore w) (hfm : C05Sys.FmInv w) (hled : C06Sys.LInv D w.fm w.fmEnv L)
    (hlim : C11Sys.FarmLimit w) (hmax : w.fm.config.maxConcurrentFarms ≤ C.MAX_FARMS_LIMIT)
    (hcur : fmCurrentEpoch w.fm w.fmEnv = .ok cur) (hun : untilEpochOrCurrent un cur = .ok untilE)
    (h : runTx w (.exec u FM (.fm (.claim un)) []) = .ok w') :
    let lps := uniqueDenoms (w.fm.positionsBy u true)
    let ds := ((w.fm.farms.filter fun f => lps.contains f.lpDenom).map (·.assetDenom)).eraseDups
    monClaim untilE (w.fm.lastClaimed u) (lps.map (obsLp w.fm w'.fm FM u)) (obsPaid w w' u ds) none = none :=
  monClaim_sound_partial w w' u un cur untilE hu hcore.finv hfm.farmNodup (fun l hl => hled.cursorSnap u l hl)
    (fun lp => Nat.le_min.2 ⟨hlim lp, Nat.le_trans (hlim lp) hmax⟩) hcur hun h

end MantraDex.MonSoundD
