/-
  C17, non-interference: the three switches of a pool are only ever read as guards.  Two pool-manager
  states that differ only in pool switches behave identically on every message, except that the less
  enabled one may refuse with `disabled`.  Together with the blocked-path theorems of `C17.lean` (a
  message is refused with `disabled` iff it needs a switched-off operation on a pool it touches) this
  is "the other operations on that pool and all operations on other pools behave exactly as before".
-/
import MantraDex.Model.System
import MantraDex.Proofs.NumLemmas
import MantraDex.Proofs.SwitchLemmas

set_option linter.unusedSimpArgs false
set_option linter.unusedVariables false

namespace MantraDex.C17NI
open MantraDex

/-- every switch that is on in `a` is on in `b` -/
def FlagsLe (a b : PoolStatus) : Prop :=
  (a.swaps = true → b.swaps = true) ∧ (a.deposits = true → b.deposits = true) ∧
  (a.withdrawals = true → b.withdrawals = true)

/-- same pool up to the switches, `q` at least as enabled as `p` -/
def PoolRel (p q : PoolInfo) : Prop := q = { p with status := q.status } ∧ FlagsLe p.status q.status

inductive PoolsRel : List PoolInfo → List PoolInfo → Prop
  | nil : PoolsRel [] []
  | cons {p q ps qs} : PoolRel p q → PoolsRel ps qs → PoolsRel (p :: ps) (q :: qs)

/-- same pool-manager state up to pool switches, `s2` at least as enabled as `s1` -/
def StateRel (s1 s2 : PmState) : Prop :=
  s2.config = s1.config ∧ s2.counter = s1.counter ∧ s2.buffer = s1.buffer ∧ s2.owner = s1.owner ∧
  PoolsRel s1.pools s2.pools

/-! ### bridge to the relations of `Proofs/SwitchLemmas.lean` (same definitions, stated there so that the
    handler lemmas can live outside this file) -/

theorem poolRel_iff {p q : PoolInfo} : PoolRel p q ↔ Switch.PoolRel p q := Iff.rfl

theorem poolsRel_to {l1 l2 : List PoolInfo} (h : PoolsRel l1 l2) : Switch.PoolsRel l1 l2 := by
  induction h with
  | nil => exact Switch.PoolsRel.nil
  | cons hp _ ih => exact Switch.PoolsRel.cons (poolRel_iff.1 hp) ih

theorem poolsRel_of {l1 l2 : List PoolInfo} (h : Switch.PoolsRel l1 l2) : PoolsRel l1 l2 := by
  induction h with
  | nil => exact PoolsRel.nil
  | cons hp _ ih => exact PoolsRel.cons (poolRel_iff.2 hp) ih

theorem stateRel_to {s1 s2 : PmState} (h : StateRel s1 s2) : Switch.StateRel s1 s2 :=
  ⟨h.1, h.2.1, h.2.2.1, h.2.2.2.1, poolsRel_to h.2.2.2.2⟩

theorem stateRel_of {s1 s2 : PmState} (h : Switch.StateRel s1 s2) : StateRel s1 s2 :=
  ⟨h.1, h.2.1, h.2.2.1, h.2.2.2.1, poolsRel_of h.2.2.2.2⟩

/-- whatever the less enabled state accepts, the more enabled state accepts with the same response and
    the same resulting state (up to switches) -/
theorem more_enabled_simulates {s1 s2 s1' : PmState} {env : PmEnv} {sender : Addr} {funds : List Coin}
    {m : PmMsg} {r : Response} (hrel : StateRel s1 s2)
    (h : pmExecute s1 env sender funds m = .ok (s1', r)) :
    ∃ s2', pmExecute s2 env sender funds m = .ok (s2', r) ∧ StateRel s1' s2' := by
  obtain ⟨⟨s2', r'⟩, h2, hs, hr⟩ := (Switch.pmExecute_sim (stateRel_to hrel) env sender funds m).ok_left h
  dsimp only at hs hr
  subst hr
  exact ⟨s2', h2, stateRel_of hs⟩

/-- whatever the more enabled state accepts, the less enabled state either refuses as `disabled` or
    accepts with the same response and the same resulting state (up to switches) -/
theorem less_enabled_refuses_or_same {s1 s2 s2' : PmState} {env : PmEnv} {sender : Addr}
    {funds : List Coin} {m : PmMsg} {r : Response} (hrel : StateRel s1 s2)
    (h : pmExecute s2 env sender funds m = .ok (s2', r)) :
    pmExecute s1 env sender funds m = .error .disabled ∨
    ∃ s1', pmExecute s1 env sender funds m = .ok (s1', r) ∧ StateRel s1' s2' := by
  rcases (Switch.pmExecute_sim (stateRel_to hrel) env sender funds m).ok_right h with hd | ⟨⟨s1', r'⟩, h1, hs, hr⟩
  · exact Or.inl hd
  · dsimp only at hs hr
    subst hr
    exact Or.inr ⟨s1', h1, stateRel_of hs⟩

/-- the reply handler does not read switches at all -/
theorem reply_simulates {s1 s2 s1' : PmState} {env : PmEnv} {id : Nat} {r : Response}
    (hrel : StateRel s1 s2) (h : pmReply s1 env id = .ok (s1', r)) :
    ∃ s2', pmReply s2 env id = .ok (s2', r) ∧ StateRel s1' s2' := by
  obtain ⟨⟨s2', r'⟩, h2, hs, hr⟩ := (Switch.pmReply_sim (stateRel_to hrel) env id).ok_left h
  dsimp only at hs hr
  subst hr
  exact ⟨s2', h2, stateRel_of hs⟩

/-- quotes do not read switches either -/
theorem simulation_ignores_switches {s1 s2 : PmState} (hrel : StateRel s1 s2) (offer : Coin)
    (ask : Denom) (pid : String) :
    querySimulation s2 offer ask pid = querySimulation s1 offer ask pid :=
  Switch.querySimulation_eq (stateRel_to hrel) offer ask pid


end MantraDex.C17NI
