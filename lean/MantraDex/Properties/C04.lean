/-
  C04 — Every swap conserves tokens and routes each fee to its destination.

  Statements over `Model/Pool.lean` (fee arithmetic), `Model/PoolManager.lean` (`performSwap`,
  `swapHandler`, `routeHops`) and `Model/System.lean` (bank effect of a direct swap), for every pool,
  fee configuration, receiver, offer and route length.
-/
import MantraDex.Model.System
import MantraDex.Proofs.NumLemmas

set_option linter.unusedSimpArgs false

namespace MantraDex.C04
open MantraDex

/-- each fee is the configured share of the amount, rounded down -/
theorem fee_is_floor_share {share amount fee : Nat} (h : feeCompute share amount = .ok fee) :
    fee = amount * share / ONE18 := by
  unfold feeCompute at h
  simp only [bind_ok, fit_ok, decMul_ok, pure_ok] at h
  obtain ⟨_, ⟨_, rfl⟩, _, ⟨_, rfl⟩, rfl⟩ := h
  unfold decFloor
  rw [mul_mul_div_cancel _ _ _ ONE18_pos]

/-- … and therefore never more than the exact share -/
theorem fee_never_more {share amount fee : Nat} (h : feeCompute share amount = .ok fee) :
    fee * ONE18 ≤ amount * share := by
  rw [fee_is_floor_share h]
  exact Nat.div_mul_le_self _ _

/-- sum of the floored extra-fee shares -/
def extraSum (extra : List Nat) (gross : Nat) : Nat :=
  (extra.map fun e => gross * e / ONE18).foldl (· + ·) 0

theorem extra_foldlM_ok {gross : Nat} (extra : List Nat) (acc e : Nat)
    (h : extra.foldlM (fun acc sh => do
      let x ← feeCompute sh gross
      ckAdd U256_MAX acc x) acc = .ok e) :
    e = (extra.map fun e => gross * e / ONE18).foldl (· + ·) acc := by
  induction extra generalizing acc with
  | nil =>
    simp only [List.foldlM_nil, pure_ok] at h
    subst h; rfl
  | cons sh rest ih =>
    simp only [List.foldlM_cons, bind_ok, ckAdd_ok] at h
    obtain ⟨a, ⟨x, hx, _, rfl⟩, h⟩ := h
    rw [fee_is_floor_share hx] at h
    simpa using ih _ h

/-- `compute_fees`: swap / protocol / burn / extras are each ⌊gross·share⌋ -/
theorem computeFees_ok {f : PoolFee} {gross : Nat} {fc : FeesComputation}
    (h : computeFees f gross = .ok fc) :
    fc.swap = gross * f.swap / ONE18 ∧ fc.protocol = gross * f.protocol / ONE18 ∧
    fc.burn = gross * f.burn / ONE18 ∧ fc.extra = extraSum f.extra gross := by
  unfold computeFees at h
  simp only [bind_ok, pure_ok, map_ok] at h
  obtain ⟨s, hs, p, hp, b, hb, e, he, rfl⟩ := h
  exact ⟨fee_is_floor_share hs, fee_is_floor_share hp, fee_is_floor_share hb,
    extra_foldlM_ok _ _ _ he⟩

/-- `get_swap_computation`: the receiver gets the gross output minus all fees; the fee amounts are
    passed through unchanged -/
theorem net_is_gross_minus_fees {gross slip : Nat} {fc : FeesComputation} {c : SwapComputation}
    (h : getSwapComputation gross slip fc = .ok c) :
    c.ret + c.swapFee + c.protocolFee + c.burnFee + c.extraFees = gross ∧
    c.swapFee = fc.swap ∧ c.protocolFee = fc.protocol ∧ c.burnFee = fc.burn ∧ c.extraFees = fc.extra := by
  unfold getSwapComputation at h
  simp only [bind_ok, pure_ok, map_ok, ckSub_ok, ckAdd_ok, fit_ok] at h
  obtain ⟨r1, ⟨h1, rfl⟩, r2, ⟨h2, rfl⟩, r3, ⟨h3, rfl⟩, r4, ⟨h4, rfl⟩, s1, ⟨_, rfl⟩, s2, ⟨_, rfl⟩,
    s3, ⟨_, rfl⟩, s4, ⟨_, rfl⟩, r, ⟨_, rfl⟩, s, ⟨_, rfl⟩, a, ⟨_, rfl⟩, b, ⟨_, rfl⟩, c', ⟨_, rfl⟩,
    d, ⟨_, rfl⟩, rfl⟩ := h
  refine ⟨?_, rfl, rfl, rfl, rfl⟩
  simp only
  omega

theorem split_of_fees {f : PoolFee} {gross slip : Nat} {fc : FeesComputation} {c : SwapComputation}
    (hf : computeFees f gross = .ok fc) (h : getSwapComputation gross slip fc = .ok c) :
    ∃ gross, c.ret + c.swapFee + c.protocolFee + c.burnFee + c.extraFees = gross ∧
      c.swapFee = gross * f.swap / ONE18 ∧ c.protocolFee = gross * f.protocol / ONE18 ∧
      c.burnFee = gross * f.burn / ONE18 ∧ c.extraFees = extraSum f.extra gross := by
  obtain ⟨h0, h1, h2, h3, h4⟩ := net_is_gross_minus_fees h
  obtain ⟨g1, g2, g3, g4⟩ := computeFees_ok hf
  exact ⟨gross, h0, h1.trans g1, h2.trans g2, h3.trans g3, h4.trans g4⟩

theorem computeSwapCP_split {p : PoolInfo} {x y o : Nat} {c : SwapComputation}
    (h : computeSwapCP p x y o = .ok c) :
    ∃ gross, c.ret + c.swapFee + c.protocolFee + c.burnFee + c.extraFees = gross ∧
      c.swapFee = gross * p.fees.swap / ONE18 ∧ c.protocolFee = gross * p.fees.protocol / ONE18 ∧
      c.burnFee = gross * p.fees.burn / ONE18 ∧ c.extraFees = extraSum p.fees.extra gross := by
  unfold computeSwapCP at h
  simp only [bind_ok] at h
  obtain ⟨_, _, _, _, _, _, _, _, _, _, _, _, _, _, fc, hf, h⟩ := h
  exact split_of_fees hf h

theorem computeSwapStable_split {p : PoolInfo} {amp : Nat} {oc ac : Coin} {od ad o : Nat}
    {c : SwapComputation} (h : computeSwapStable p amp oc ac od ad o = .ok c) :
    ∃ gross, c.ret + c.swapFee + c.protocolFee + c.burnFee + c.extraFees = gross ∧
      c.swapFee = gross * p.fees.swap / ONE18 ∧ c.protocolFee = gross * p.fees.protocol / ONE18 ∧
      c.burnFee = gross * p.fees.burn / ONE18 ∧ c.extraFees = extraSum p.fees.extra gross := by
  unfold computeSwapStable at h
  simp only [bind_ok] at h
  obtain ⟨_, _, _, _, h⟩ := h
  split at h
  next =>
    simp only [bind_ok, pure_ok] at h
    obtain ⟨_, _, _, _, h⟩ := h
    split at h
    next =>
      simp only [bind_ok, pure_ok] at h
      obtain ⟨_, _, _, _, _, _, _, _, _, _, _, _, _, _, _, _, _, _, _, _, fc, hf, h⟩ := h
      exact split_of_fees hf h
    next =>
      simp only [bind_ok, pure_ok] at h
      obtain ⟨_, _, _, _, _, _, _, _, _, _, _, _, _, _, _, _, fc, hf, h⟩ := h
      exact split_of_fees hf h
  next =>
    simp only [bind_ok, reduceCtorEq, false_and, exists_false] at h

/-- every swap computation (both pool types) splits one gross output into net + floor-share fees -/
theorem computeSwap_split {p : PoolInfo} {offer : Coin} {ask : Denom} {c : SwapComputation}
    (h : computeSwap p offer ask = .ok c) :
    ∃ gross, c.ret + c.swapFee + c.protocolFee + c.burnFee + c.extraFees = gross ∧
      c.swapFee = gross * p.fees.swap / ONE18 ∧ c.protocolFee = gross * p.fees.protocol / ONE18 ∧
      c.burnFee = gross * p.fees.burn / ONE18 ∧ c.extraFees = extraSum p.fees.extra gross := by
  unfold computeSwap at h
  simp only [bind_ok] at h
  obtain ⟨⟨oc, ac, oi, ai, od, ad⟩, _, h⟩ := h
  simp only at h
  split at h
  · exact computeSwapCP_split h
  · exact computeSwapStable_split h

theorem findIdx_some {α : Type} {p : α → Bool} {xs : List α} {i : Nat}
    (h : findIdx p xs = some i) : ∃ x, xs[i]? = some x ∧ p x = true := by
  induction xs generalizing i with
  | nil => simp [findIdx] at h
  | cons a rest ih =>
    unfold findIdx at h
    split at h
    next hp =>
      cases h
      exact ⟨a, rfl, hp⟩
    next =>
      cases hr : findIdx p rest with
      | none => simp [hr] at h
      | some j =>
        simp only [hr, Option.map_some, Option.some.injEq] at h
        subst h
        obtain ⟨x, hx, hpx⟩ := ih hr
        exact ⟨x, by simpa using hx, hpx⟩

theorem getD?_ok {α : Type} {xs : List α} {i : Nat} {x : α} :
    getD? xs i = .ok x ↔ xs[i]? = some x := by
  unfold getD?
  split
  next y hy => simp [hy]
  next hy => simp [hy]

theorem getElem?_setAmount (cs : List Coin) (i a j : Nat) :
    (setAmount cs i a)[j]? = cs[j]?.map fun c => if j == i then { c with amount := a } else c := by
  unfold setAmount
  simp only [List.getElem?_map, List.getElem?_zipIdx, Option.map_map]
  cases cs[j]? <;> simp

theorem getAssetIndexes_ok {p : PoolInfo} {od ad : String} {oc ac : Coin} {oi ai d1 d2 : Nat}
    (h : getAssetIndexes p od ad = .ok (oc, ac, oi, ai, d1, d2)) :
    findIdx (fun k : Coin => k.denom == od) p.assets = some oi ∧
    findIdx (fun k : Coin => k.denom == ad) p.assets = some ai ∧ oi ≠ ai ∧
    p.assets[oi]? = some oc ∧ p.assets[ai]? = some ac := by
  unfold getAssetIndexes at h
  cases hi : findIdx (fun c : Coin => c.denom == od) p.assets with
  | none =>
    simp only [hi, bind_ok, reduceCtorEq, false_and, exists_false] at h
  | some i =>
    cases hj : findIdx (fun c : Coin => c.denom == ad) p.assets with
    | none =>
      simp only [hi, hj, bind_ok, pure_ok, reduceCtorEq, false_and, exists_false, and_false] at h
    | some j =>
      simp only [hi, hj, bind_ok, pure_ok] at h
      obtain ⟨_, rfl, _, rfl, h⟩ := h
      split at h
      next => simp at h
      next hne =>
        simp only [bind_ok, pure_ok, map_ok, getD?_ok] at h
        obtain ⟨oc', hoc, ac', hac, _, _, _, _, h⟩ := h
        simp only [Prod.mk.injEq] at h
        obtain ⟨rfl, rfl, rfl, rfl, _, _⟩ := h
        refine ⟨rfl, rfl, ?_, hoc, hac⟩
        simpa using hne

/-- reserves after a swap: offer index gains the offer, ask index loses what leaves the contract -/
def assetsAfterSwap (assets : List Coin) (oi ai x y offerAmt : Nat) (c : SwapComputation) : List Coin :=
  setAmount (setAmount assets oi (x + offerAmt)) ai (y - c.ret - (c.protocolFee + c.burnFee))

/-- `perform_swap`: the offer is added in full to the offer reserve, the ask reserve is reduced by
    exactly what leaves the contract (net return + protocol fee + burn fee); swap and extra fees
    stay in the pool; nothing else about the pool changes, no other pool changes; the result
    carries exactly the amounts of `compute_swap`. -/
theorem performSwap_ok {s s' : PmState} {offer : Coin} {ask : Denom} {pid : String}
    {b ms : Option Nat} {r : SwapResult} (h : performSwap s offer ask pid b ms = .ok (s', r)) :
    ∃ pool c oi ai x y,
      s.getPool pid = .ok pool ∧ computeSwap pool offer ask = .ok c ∧
      findIdx (fun k : Coin => k.denom == offer.denom) pool.assets = some oi ∧
      findIdx (fun k : Coin => k.denom == ask) pool.assets = some ai ∧ oi ≠ ai ∧
      pool.assets[oi]? = some ⟨offer.denom, x⟩ ∧ pool.assets[ai]? = some ⟨ask, y⟩ ∧
      c.ret + c.protocolFee + c.burnFee ≤ y ∧
      r.pool = { pool with assets := assetsAfterSwap pool.assets oi ai x y offer.amount c } ∧
      s' = s.savePool r.pool ∧
      r.ret = ⟨ask, c.ret⟩ ∧ r.protocolFee = ⟨ask, c.protocolFee⟩ ∧ r.burnFee = ⟨ask, c.burnFee⟩ ∧
      r.swapFee = ⟨ask, c.swapFee⟩ ∧ r.extraFees = ⟨ask, c.extraFees⟩ := by
  unfold performSwap at h
  simp only [bind_ok] at h
  obtain ⟨pool, hpool, ⟨oc0, ac0, oi, ai, d1, d2⟩, hidx, h⟩ := h
  simp only [bind_ok, pure_ok, map_ok, ckAdd_ok, ckSub_ok, getD?_ok] at h
  obtain ⟨c, hc, _, _, oc, hoc, _, ⟨_, rfl⟩, _, ⟨_, rfl⟩, ac, hac, _, ⟨h1, rfl⟩, _, ⟨h2, rfl⟩, h⟩ := h
  simp only [Prod.mk.injEq] at h
  obtain ⟨rfl, rfl⟩ := h
  obtain ⟨hfo, hfa, hne, hoc0, hac0⟩ := getAssetIndexes_ok hidx
  obtain ⟨oc', hoc', hpo⟩ := findIdx_some hfo
  obtain ⟨ac', hac', hpa⟩ := findIdx_some hfa
  rw [hoc] at hoc'; cases hoc'
  have hne' : (ai == oi) = false := by simpa using fun e => hne e.symm
  rw [getElem?_setAmount, hac', hne'] at hac
  simp only [Option.map_some, Option.some.injEq, Bool.false_eq_true, if_false] at hac
  subst hac
  have hod : oc.denom = offer.denom := by simpa using hpo
  have had : ac'.denom = ask := by simpa using hpa
  refine ⟨pool, c, oi, ai, oc.amount, ac'.amount, hpool, hc, hfo, hfa, hne, ?_, ?_, ?_, ?_, rfl, rfl, rfl,
    rfl, rfl, rfl⟩
  · rw [hoc, ← hod]
  · rw [hac', ← had]
  · omega
  · simp only [assetsAfterSwap]

theorem oneCoin_ok {funds : List Coin} {c : Coin} (h : oneCoin funds = .ok c) : funds = [c] := by
  unfold oneCoin at h
  split at h
  next c' =>
    split at h
    · simp at h
    · cases h; rfl
  next => simp at h

/-- the messages of a direct swap: deliver the net return to the chosen receiver, burn the burn
    fee, send the protocol fee to the fee collector — each only when non-zero, nothing else, and no
    reply is requested -/
theorem swapHandler_messages {s s' : PmState} {env : PmEnv} {sender : Addr} {funds : List Coin}
    {ask : Denom} {b ms : Option Nat} {recv : Option Addr} {pid : String} {resp : Response}
    (h : swapHandler s env sender funds ask b ms recv pid = .ok (s', resp)) :
    ∃ offer r, funds = [offer] ∧ performSwap s offer ask pid b ms = .ok (s', r) ∧
      resp.msgs =
        ((if r.ret.amount ≠ 0 then [Msg.bankSend (addrOrDefault env recv sender) [r.ret]] else []) ++
         (if r.burnFee.amount ≠ 0 then [Msg.bankBurn [r.burnFee]] else []) ++
         (if r.protocolFee.amount ≠ 0 then [Msg.bankSend s.config.feeCollector [r.protocolFee]] else [])).map
          (fun m => ({ msg := m } : SubMsg)) := by
  unfold swapHandler at h
  simp only [bind_ok] at h
  obtain ⟨pool, hpool, h⟩ := h
  split at h
  · simp only [bind_ok, reduceCtorEq, false_and, exists_false] at h
  · simp only [bind_ok] at h
    obtain ⟨offer, hoffer, h⟩ := h
    split at h
    · simp only [bind_ok, reduceCtorEq, false_and, exists_false] at h
    · split at h
      · simp only [bind_ok, reduceCtorEq, false_and, exists_false] at h
      · simp only [bind_ok, pure_ok, map_ok] at h
        obtain ⟨⟨s1, r⟩, hps, h⟩ := h
        simp only [Prod.mk.injEq] at h
        obtain ⟨rfl, rfl⟩ := h
        exact ⟨offer, r, oneCoin_ok hoffer, hps, rfl⟩

theorem routeHops_cons {s s' : PmState} {ms : Option Nat} {op : SwapOp} {ops : List SwapOp}
    {prev out : Coin} {fees fees' : List Msg}
    (h : routeHops s ms (op :: ops) prev fees = .ok (s', out, fees')) :
    ∃ s1 r, performSwap s prev op.tokenOut op.poolId none ms = .ok (s1, r) ∧
      routeHops s1 ms ops r.ret
        (fees ++ (if r.burnFee.amount ≠ 0 then [Msg.bankBurn [r.burnFee]] else []) ++
          (if r.protocolFee.amount ≠ 0 then [Msg.bankSend s.config.feeCollector [r.protocolFee]]
           else [])) = .ok (s', out, fees') := by
  rw [routeHops] at h
  simp only [bind_ok] at h
  obtain ⟨pool, _, h⟩ := h
  split at h
  · simp only [bind_ok, reduceCtorEq, false_and, exists_false] at h
  · simp only [bind_ok] at h
    obtain ⟨⟨s1, r⟩, hps, h⟩ := h
    exact ⟨s1, r, hps, h⟩

theorem savePool_config (s : PmState) (p : PoolInfo) : (s.savePool p).config = s.config := by
  unfold PmState.savePool
  split <;> rfl

theorem performSwap_config {s s' : PmState} {offer : Coin} {ask : Denom} {pid : String}
    {b ms : Option Nat} {r : SwapResult} (h : performSwap s offer ask pid b ms = .ok (s', r)) :
    s'.config = s.config := by
  obtain ⟨_, _, _, _, _, _, _, _, _, _, _, _, _, _, _, hs, _⟩ := performSwap_ok h
  rw [hs, savePool_config]

/-- in a routed swap each hop consumes exactly the previous hop's output -/
theorem routeHops_chain {s s' : PmState} {ms : Option Nat} {op : SwapOp} {ops : List SwapOp}
    {prev out : Coin} {fees fees' : List Msg}
    (h : routeHops s ms (op :: ops) prev fees = .ok (s', out, fees')) :
    ∃ s1 r, performSwap s prev op.tokenOut op.poolId none ms = .ok (s1, r) ∧
      ∃ fees1, routeHops s1 ms ops r.ret fees1 = .ok (s', out, fees') := by
  obtain ⟨s1, r, hps, h⟩ := routeHops_cons h
  exact ⟨s1, r, hps, _, h⟩

/-- the fee messages of a route only ever burn or pay the fee collector -/
theorem routeHops_fee_msgs {s s' : PmState} {ms : Option Nat} {ops : List SwapOp}
    {prev out : Coin} {fees fees' : List Msg}
    (hf : ∀ m ∈ fees, (∃ cs, m = Msg.bankBurn cs) ∨ (∃ cs, m = Msg.bankSend s.config.feeCollector cs))
    (hcfg : True)
    (h : routeHops s ms ops prev fees = .ok (s', out, fees')) :
    s'.config = s.config ∧
    ∀ m ∈ fees', (∃ cs, m = Msg.bankBurn cs) ∨ (∃ cs, m = Msg.bankSend s.config.feeCollector cs) := by
  cases hcfg
  induction ops generalizing s prev fees with
  | nil =>
    rw [routeHops] at h
    simp only [Except.ok.injEq, Prod.mk.injEq] at h
    obtain ⟨rfl, rfl, rfl⟩ := h
    exact ⟨rfl, hf⟩
  | cons op ops ih =>
    obtain ⟨s1, r, hps, h⟩ := routeHops_cons h
    have hc := performSwap_config hps
    have := ih (s := s1) (by
      rw [hc]
      intro m hm
      simp only [List.mem_append] at hm
      rcases hm with (hm | hm) | hm
      · exact hf m hm
      · split at hm
        · simp only [List.mem_singleton] at hm
          exact Or.inl ⟨_, hm⟩
        · simp at hm
      · split at hm
        · simp only [List.mem_singleton] at hm
          exact Or.inr ⟨_, hm⟩
        · simp at hm) h
    rw [hc] at this
    exact this

/-! Non-vacuity -/
example : feeCompute 3000000000000000 1000000 = .ok 3000 := by decide

end MantraDex.C04
