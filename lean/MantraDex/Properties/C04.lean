/-
  C04 — Every swap conserves tokens and routes each fee to its destination.

  Statements over `Model/Pool.lean` (fee arithmetic), `Model/PoolManager.lean` (`performSwap`,
  `swapHandler`, `routeHops`) and `Model/System.lean` (bank effect of a direct swap), for every pool,
  fee configuration, receiver, offer and route length.
-/
import MantraDex.Model.System
import MantraDex.Proofs.NumLemmas

set_option linter.unusedSimpArgs false

namespace MantraDex.C04
open MantraDex

/-- each fee is the configured share of the amount, rounded down -/
theorem fee_is_floor_share {share amount fee : Nat} (h : feeCompute share amount = .ok fee) :
    fee = amount * share / ONE18 := by
  sorry

/-- … and therefore never more than the exact share -/
theorem fee_never_more {share amount fee : Nat} (h : feeCompute share amount = .ok fee) :
    fee * ONE18 ≤ amount * share := by
  sorry

/-- sum of the floored extra-fee shares -/
def extraSum (extra : List Nat) (gross : Nat) : Nat :=
  (extra.map fun e => gross * e / ONE18).foldl (· + ·) 0

/-- `compute_fees`: swap / protocol / burn / extras are each ⌊gross·share⌋ -/
theorem computeFees_ok {f : PoolFee} {gross : Nat} {fc : FeesComputation}
    (h : computeFees f gross = .ok fc) :
    fc.swap = gross * f.swap / ONE18 ∧ fc.protocol = gross * f.protocol / ONE18 ∧
    fc.burn = gross * f.burn / ONE18 ∧ fc.extra = extraSum f.extra gross := by
  sorry

/-- `get_swap_computation`: the receiver gets the gross output minus all fees; the fee amounts are
    passed through unchanged -/
theorem net_is_gross_minus_fees {gross slip : Nat} {fc : FeesComputation} {c : SwapComputation}
    (h : getSwapComputation gross slip fc = .ok c) :
    c.ret + c.swapFee + c.protocolFee + c.burnFee + c.extraFees = gross ∧
    c.swapFee = fc.swap ∧ c.protocolFee = fc.protocol ∧ c.burnFee = fc.burn ∧ c.extraFees = fc.extra := by
  sorry

/-- every swap computation (both pool types) splits one gross output into net + floor-share fees -/
theorem computeSwap_split {p : PoolInfo} {offer : Coin} {ask : Denom} {c : SwapComputation}
    (h : computeSwap p offer ask = .ok c) :
    ∃ gross, c.ret + c.swapFee + c.protocolFee + c.burnFee + c.extraFees = gross ∧
      c.swapFee = gross * p.fees.swap / ONE18 ∧ c.protocolFee = gross * p.fees.protocol / ONE18 ∧
      c.burnFee = gross * p.fees.burn / ONE18 ∧ c.extraFees = extraSum p.fees.extra gross := by
  sorry

/-- reserves after a swap: offer index gains the offer, ask index loses what leaves the contract -/
def assetsAfterSwap (assets : List Coin) (oi ai x y offerAmt : Nat) (c : SwapComputation) : List Coin :=
  setAmount (setAmount assets oi (x + offerAmt)) ai (y - c.ret - (c.protocolFee + c.burnFee))

/-- `perform_swap`: the offer is added in full to the offer reserve, the ask reserve is reduced by
    exactly what leaves the contract (net return + protocol fee + burn fee); swap and extra fees
    stay in the pool; nothing else about the pool changes, no other pool changes; the result
    carries exactly the amounts of `compute_swap`. -/
theorem performSwap_ok {s s' : PmState} {offer : Coin} {ask : Denom} {pid : String}
    {b ms : Option Nat} {r : SwapResult} (h : performSwap s offer ask pid b ms = .ok (s', r)) :
    ∃ pool c oi ai x y,
      s.getPool pid = .ok pool ∧ computeSwap pool offer ask = .ok c ∧
      findIdx (fun k : Coin => k.denom == offer.denom) pool.assets = some oi ∧
      findIdx (fun k : Coin => k.denom == ask) pool.assets = some ai ∧ oi ≠ ai ∧
      pool.assets[oi]? = some ⟨offer.denom, x⟩ ∧ pool.assets[ai]? = some ⟨ask, y⟩ ∧
      c.ret + c.protocolFee + c.burnFee ≤ y ∧
      r.pool = { pool with assets := assetsAfterSwap pool.assets oi ai x y offer.amount c } ∧
      s' = s.savePool r.pool ∧
      r.ret = ⟨ask, c.ret⟩ ∧ r.protocolFee = ⟨ask, c.protocolFee⟩ ∧ r.burnFee = ⟨ask, c.burnFee⟩ ∧
      r.swapFee = ⟨ask, c.swapFee⟩ ∧ r.extraFees = ⟨ask, c.extraFees⟩ := by
  sorry

/-- the messages of a direct swap: deliver the net return to the chosen receiver, burn the burn
    fee, send the protocol fee to the fee collector — each only when non-zero, nothing else, and no
    reply is requested -/
theorem swapHandler_messages {s s' : PmState} {env : PmEnv} {sender : Addr} {funds : List Coin}
    {ask : Denom} {b ms : Option Nat} {recv : Option Addr} {pid : String} {resp : Response}
    (h : swapHandler s env sender funds ask b ms recv pid = .ok (s', resp)) :
    ∃ offer r, funds = [offer] ∧ performSwap s offer ask pid b ms = .ok (s', r) ∧
      resp.msgs =
        ((if r.ret.amount ≠ 0 then [Msg.bankSend (addrOrDefault env recv sender) [r.ret]] else []) ++
         (if r.burnFee.amount ≠ 0 then [Msg.bankBurn [r.burnFee]] else []) ++
         (if r.protocolFee.amount ≠ 0 then [Msg.bankSend s.config.feeCollector [r.protocolFee]] else [])).map
          (fun m => ({ msg := m } : SubMsg)) := by
  sorry

/-- in a routed swap each hop consumes exactly the previous hop's output -/
theorem routeHops_chain {s s' : PmState} {ms : Option Nat} {op : SwapOp} {ops : List SwapOp}
    {prev out : Coin} {fees fees' : List Msg}
    (h : routeHops s ms (op :: ops) prev fees = .ok (s', out, fees')) :
    ∃ s1 r, performSwap s prev op.tokenOut op.poolId none ms = .ok (s1, r) ∧
      ∃ fees1, routeHops s1 ms ops r.ret fees1 = .ok (s', out, fees') := by
  sorry

/-- the fee messages of a route only ever burn or pay the fee collector -/
theorem routeHops_fee_msgs {s s' : PmState} {ms : Option Nat} {ops : List SwapOp}
    {prev out : Coin} {fees fees' : List Msg}
    (hf : ∀ m ∈ fees, (∃ cs, m = Msg.bankBurn cs) ∨ (∃ cs, m = Msg.bankSend s.config.feeCollector cs))
    (hcfg : True)
    (h : routeHops s ms ops prev fees = .ok (s', out, fees')) :
    s'.config = s.config ∧
    ∀ m ∈ fees', (∃ cs, m = Msg.bankBurn cs) ∨ (∃ cs, m = Msg.bankSend s.config.feeCollector cs) := by
  sorry

/-! Non-vacuity -/
example : feeCompute 3000000000000000 1000000 = .ok 3000 := by decide

end MantraDex.C04
