/-
  C02 — Deposits and withdrawals never dilute other liquidity providers.

  Constant product (full, arithmetic of `cpShares` and `withdraw_liquidity` after the F-02 fix):
  mint ≤ proportional contribution on both assets; x·y / supply² never decreases through a deposit
  or a withdrawal; a withdrawal pays ⌊reserve·burned/supply⌋ per asset (≤ pro rata, > pro rata − 1)
  and any LP amount worth ≥ 1 unit of some asset yields a non-empty refund.
  LP supply moves only through the mint/burn messages of `provide_liquidity` / `withdraw_liquidity`.
  Stableswap: mint formula against the code's own D (`ss_mint_le_code_d_growth`); the link to the
  exact invariant is C19's accuracy clause (partial, validated by monitors).
-/
import MantraDex.Model.System
import MantraDex.Proofs.NumLemmas

set_option linter.unusedSimpArgs false

namespace MantraDex.C02
open MantraDex

/-- later constant-product deposits: the mint is min over the two assets of ⌊deposit·supply/reserve⌋ -/
theorem cp_mint_formula {self : Addr} {lp : Denom} {d0 d1 x y S shares : Nat} {n0 n1 : Denom}
    {msgs : List Msg} (hS : S ≠ 0) (hne : n0 ≠ n1)
    (h : cpShares self lp [⟨n0, d0⟩, ⟨n1, d1⟩] [⟨n0, x⟩, ⟨n1, y⟩] S = .ok (shares, msgs)) :
    shares = min (d0 * S / x) (d1 * S / y) ∧ msgs = [] ∧ x ≠ 0 ∧ y ≠ 0 := by
  sorry

/-- … hence never more than the depositor's proportional contribution on either asset -/
theorem cp_mint_le_share {d0 d1 x y S shares : Nat} (hx : x ≠ 0) (hy : y ≠ 0)
    (h : shares = min (d0 * S / x) (d1 * S / y)) :
    shares * x ≤ d0 * S ∧ shares * y ≤ d1 * S := by
  sorry

/-- … and pool value per LP token, (x·y)/S², never decreases through a deposit -/
theorem cp_value_per_lp_mono {d0 d1 x y S shares : Nat}
    (h0 : shares * x ≤ d0 * S) (h1 : shares * y ≤ d1 * S) :
    x * y * ((S + shares) * (S + shares)) ≤ (x + d0) * (y + d1) * (S * S) := by
  sorry

/-- first constant-product deposit: user shares + the locked minimum = ⌊√(d0·d1)⌋, and exactly the
    minimum liquidity is minted to the contract itself -/
theorem cp_first_mint {self : Addr} {lp : Denom} {d0 d1 shares : Nat} {n0 n1 : Denom} {pa : List Coin}
    {msgs : List Msg}
    (h : cpShares self lp [⟨n0, d0⟩, ⟨n1, d1⟩] pa 0 = .ok (shares, msgs)) :
    shares + C.MINIMUM_LIQUIDITY_AMOUNT = Nat.sqrt (d0 * d1) ∧ shares ≠ 0 ∧
    msgs = [.tfMint ⟨lp, C.MINIMUM_LIQUIDITY_AMOUNT⟩ self] ∧
    (shares + C.MINIMUM_LIQUIDITY_AMOUNT) * (shares + C.MINIMUM_LIQUIDITY_AMOUNT) ≤ d0 * d1 := by
  sorry

/-- a withdrawal pays, per asset, at most reserve·burned/supply and more than that minus one -/
theorem withdraw_bounds {reserve burned supply refund : Nat} (hs : supply ≠ 0)
    (h : refund = reserve * burned / supply) :
    refund * supply ≤ reserve * burned ∧ reserve * burned < (refund + 1) * supply := by
  sorry

/-- the refund computed by `withdraw_liquidity` is exactly that floor, for every pool asset -/
theorem withdraw_refunds_are_floor {s s' : PmState} {env : PmEnv} {sender : Addr} {funds : List Coin}
    {pid : String} {r : Response} {pool : PoolInfo}
    (hp : s.getPool pid = .ok pool)
    (h : withdrawLiquidity s env sender funds pid = .ok (s', r)) :
    ∃ amount, funds = [⟨pool.lpDenom, amount⟩] ∧ amount ≠ 0 ∧ env.supply pool.lpDenom ≠ 0 ∧
      r.msgs.map (·.msg) =
        [.bankSend sender ((pool.assets.map fun a =>
            (⟨a.denom, a.amount * amount / env.supply pool.lpDenom⟩ : Coin)).filter (·.amount > 0)),
         .tfBurn ⟨pool.lpDenom, amount⟩] := by
  sorry

/-- x·y/S² never decreases through a withdrawal either -/
theorem withdraw_value_per_lp_mono {x y S b rx ry : Nat} (hb : b ≤ S)
    (hx : rx * S ≤ x * b) (hy : ry * S ≤ y * b) :
    x * y * ((S - b) * (S - b)) ≤ (x - rx) * (y - ry) * (S * S) := by
  sorry

/-- redeemability: an LP amount worth at least one unit of some asset gets a non-zero refund -/
theorem withdraw_redeemable {reserve burned supply : Nat} (hs : supply ≠ 0)
    (hw : supply ≤ reserve * burned) : 0 < reserve * burned / supply := by
  sorry

/-- LP tokens are created only by deposits and destroyed only by withdrawals: the only
    pool-manager messages that mint or burn are those of `provide_liquidity` / `withdraw_liquidity` -/
theorem lp_only_minted_by_deposit_burned_by_withdraw {s s' : PmState} {env : PmEnv} {sender : Addr}
    {funds : List Coin} {m : PmMsg} {r : Response}
    (h : pmExecute s env sender funds m = .ok (s', r)) :
    (∀ sm ∈ r.msgs, ∀ c to, sm.msg = .tfMint c to → ∃ ls ss rc pid u l, m = .provideLiquidity ls ss rc pid u l) ∧
    (∀ sm ∈ r.msgs, ∀ c, sm.msg = .tfBurn c → ∃ pid, m = .withdrawLiquidity pid) := by
  sorry

/-- stableswap: the mint of a later deposit is ⌊supply·(D1adj − D0)/D0⌋ with the code's own D values -/
theorem ss_later_mint_shape {amp : Nat} {old new : List Coin} {supply : Nat} {p : PoolInfo} {mint : Nat}
    (hs : supply ≠ 0) (hold : ¬ old.all (·.amount == 0) = true)
    (h : computeLpMintStable amp old new supply p = .ok mint) :
    mint = 0 ∨ ∃ d0 dadj, computeDWithPoolInfo amp old p = .ok (some d0) ∧ d0 ≠ 0 ∧ d0 ≤ dadj ∧
      mint = supply * (dadj - d0) / d0 := by
  sorry

end MantraDex.C02
