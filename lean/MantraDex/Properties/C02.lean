/-
  C02 — Deposits and withdrawals never dilute other liquidity providers.

  Constant product (full, arithmetic of `cpShares` and `withdraw_liquidity` after the F-02 fix):
  mint ≤ proportional contribution on both assets; x·y / supply² never decreases through a deposit
  or a withdrawal; a withdrawal pays ⌊reserve·burned/supply⌋ per asset (≤ pro rata, > pro rata − 1)
  and any LP amount worth ≥ 1 unit of some asset yields a non-empty refund.
  LP supply moves only through the mint/burn messages of `provide_liquidity` / `withdraw_liquidity`.
  Stableswap: mint formula against the code's own D (`ss_mint_le_code_d_growth`); the link to the
  exact invariant is C19's accuracy clause (partial, validated by monitors).
-/
import MantraDex.Model.System
import MantraDex.Proofs.NumLemmas
import MantraDex.Proofs.C02Aux

set_option linter.unusedSimpArgs false
set_option linter.unusedVariables false

namespace MantraDex.C02
open MantraDex

/-- later constant-product deposits: the mint is min over the two assets of ⌊deposit·supply/reserve⌋ -/
theorem cp_mint_formula {self : Addr} {lp : Denom} {d0 d1 x y S shares : Nat} {n0 n1 : Denom}
    {msgs : List Msg} (hS : S ≠ 0) (hne : n0 ≠ n1)
    (h : cpShares self lp [⟨n0, d0⟩, ⟨n1, d1⟩] [⟨n0, x⟩, ⟨n1, y⟩] S = .ok (shares, msgs)) :
    shares = min (d0 * S / x) (d1 * S / y) ∧ msgs = [] ∧ x ≠ 0 ∧ y ≠ 0 := by
  unfold cpShares at h
  rw [if_neg hS] at h
  have hne' : (n0 == n1) = false := by simpa using hne
  simp only [List.mapM_cons, List.mapM_nil, findIdx, beq_self_eq_true, hne', if_true, if_false,
    Bool.false_eq_true, Option.map, bind_ok, pure_ok, getD?, List.getElem?_cons_zero,
    List.getElem?_cons_succ, orPanic_ok, mulRatio_ok, Nat.zero_add] at h
  obtain ⟨l, ⟨s0, ⟨_, rfl, c0, hc0, hx, _, rfl⟩, l1, ⟨s1, ⟨_, rfl, c1, hc1, hy, _, rfl⟩, _, rfl, rfl⟩, rfl⟩,
    a1, ha1, a2, ha2, hres⟩ := h
  simp only [List.getElem?_cons_zero, List.getElem?_cons_succ, Except.ok.injEq] at hc0 hc1 ha1 ha2
  subst hc0 hc1 ha1 ha2
  simp only [Prod.mk.injEq] at hres
  exact ⟨hres.1, hres.2, hx, hy⟩

/-- … hence never more than the depositor's proportional contribution on either asset -/
theorem cp_mint_le_share {d0 d1 x y S shares : Nat} (hx : x ≠ 0) (hy : y ≠ 0)
    (h : shares = min (d0 * S / x) (d1 * S / y)) :
    shares * x ≤ d0 * S ∧ shares * y ≤ d1 * S := by
  have h0 : shares ≤ d0 * S / x := by omega
  have h1 : shares ≤ d1 * S / y := by omega
  exact ⟨(Nat.le_div_iff_mul_le (Nat.pos_of_ne_zero hx)).1 h0,
         (Nat.le_div_iff_mul_le (Nat.pos_of_ne_zero hy)).1 h1⟩

/-- … and pool value per LP token, (x·y)/S², never decreases through a deposit -/
theorem cp_value_per_lp_mono {d0 d1 x y S shares : Nat}
    (h0 : shares * x ≤ d0 * S) (h1 : shares * y ≤ d1 * S) :
    x * y * ((S + shares) * (S + shares)) ≤ (x + d0) * (y + d1) * (S * S) := by
  have key : ∀ {x d : Nat}, shares * x ≤ d * S → (S + shares) * x ≤ (x + d) * S := by
    intro x d h
    calc (S + shares) * x = S * x + shares * x := Nat.add_mul ..
      _ ≤ S * x + d * S := Nat.add_le_add_left h _
      _ = (x + d) * S := by rw [Nat.add_mul, Nat.mul_comm S x]
  have := Nat.mul_le_mul (key h0) (key h1)
  calc x * y * ((S + shares) * (S + shares)) = (S + shares) * x * ((S + shares) * y) := by ac_rfl
    _ ≤ (x + d0) * S * ((y + d1) * S) := this
    _ = (x + d0) * (y + d1) * (S * S) := by ac_rfl

/-- first constant-product deposit: user shares + the locked minimum = ⌊√(d0·d1)⌋, and exactly the
    minimum liquidity is minted to the contract itself -/
theorem cp_first_mint {self : Addr} {lp : Denom} {d0 d1 shares : Nat} {n0 n1 : Denom} {pa : List Coin}
    {msgs : List Msg}
    (h : cpShares self lp [⟨n0, d0⟩, ⟨n1, d1⟩] pa 0 = .ok (shares, msgs)) :
    shares + C.MINIMUM_LIQUIDITY_AMOUNT = Nat.sqrt (d0 * d1) ∧ shares ≠ 0 ∧
    msgs = [.tfMint ⟨lp, C.MINIMUM_LIQUIDITY_AMOUNT⟩ self] ∧
    (shares + C.MINIMUM_LIQUIDITY_AMOUNT) * (shares + C.MINIMUM_LIQUIDITY_AMOUNT) ≤ d0 * d1 := by
  unfold cpShares at h
  rw [if_pos rfl] at h
  simp only [getD?, List.getElem?_cons_zero, List.getElem?_cons_succ, bind_ok, pure_ok] at h
  obtain ⟨a, ha, a1, ha1, h⟩ := h
  simp only [Except.ok.injEq] at ha ha1
  subst ha ha1
  have hsq := Nat.sqrt_le (d0 * d1)
  split at h
  · simp [bind, Except.bind] at h
  · split at h
    · simp [bind, Except.bind] at h
    · next hq =>
      generalize C.MINIMUM_LIQUIDITY_AMOUNT = M at h hq ⊢
      simp only [pure_ok, Prod.mk.injEq] at h
      obtain ⟨h1, h2⟩ := h
      subst h1 h2
      have e : isqrt256 (d0 * d1) = Nat.sqrt (d0 * d1) := rfl
      rw [e] at hq ⊢
      have : Nat.sqrt (d0 * d1) - M + M = Nat.sqrt (d0 * d1) := by omega
      rw [this]
      exact ⟨rfl, hq, rfl, hsq⟩

/-- a withdrawal pays, per asset, at most reserve·burned/supply and more than that minus one -/
theorem withdraw_bounds {reserve burned supply refund : Nat} (hs : supply ≠ 0)
    (h : refund = reserve * burned / supply) :
    refund * supply ≤ reserve * burned ∧ reserve * burned < (refund + 1) * supply := by
  subst h
  constructor
  · exact Nat.div_mul_le_self _ _
  · rw [Nat.mul_comm (_ + 1)]; exact Nat.lt_mul_div_succ _ (Nat.pos_of_ne_zero hs)

/-- the refund computed by `withdraw_liquidity` is exactly that floor, for every pool asset -/
theorem withdraw_refunds_are_floor {s s' : PmState} {env : PmEnv} {sender : Addr} {funds : List Coin}
    {pid : String} {r : Response} {pool : PoolInfo}
    (hp : s.getPool pid = .ok pool)
    (h : withdrawLiquidity s env sender funds pid = .ok (s', r)) :
    ∃ amount, funds = [⟨pool.lpDenom, amount⟩] ∧ amount ≠ 0 ∧ env.supply pool.lpDenom ≠ 0 ∧
      r.msgs.map (·.msg) =
        [.bankSend sender ((pool.assets.map fun a =>
            (⟨a.denom, a.amount * amount / env.supply pool.lpDenom⟩ : Coin)).filter (·.amount > 0)),
         .tfBurn ⟨pool.lpDenom, amount⟩] := by
  unfold withdrawLiquidity at h
  rw [hp] at h
  rw [bind_ok] at h
  obtain ⟨pool', hp', h⟩ := h
  simp only [Except.ok.injEq] at hp'
  subst hp'
  dsimp only at h
  split at h
  · cases h
  rw [bind_ok] at h
  obtain ⟨amount, hamt, h⟩ := h
  split at h
  · cases h
  rw [bind_ok] at h
  obtain ⟨ratio, hratio, h⟩ := h
  split at h
  · cases h
  rw [bind_ok] at h
  obtain ⟨refunds, href, h⟩ := h
  rw [bind_ok] at h
  obtain ⟨assets', -, h⟩ := h
  simp only [pure_ok, Prod.mk.injEq] at h
  obtain ⟨-, rfl⟩ := h
  obtain ⟨hfunds, hne⟩ := mustPay_ok hamt
  simp only [orPanic_ok, decFromRatio_ok] at hratio
  have hmap := mapM_ok_eq_map _
    (fun a : Coin => (⟨a.denom, a.amount * amount / env.supply pool.lpDenom⟩ : Coin))
    (by
      intro a b hb
      simp only [bind_ok, mulRatio_ok, pure_ok] at hb
      obtain ⟨_, ⟨_, _, rfl⟩, rfl⟩ := hb
      rfl) _ _ href
  subst hmap
  exact ⟨amount, hfunds, hne, hratio.1, by simp [Response.ofMsgs]⟩

/-- x·y/S² never decreases through a withdrawal either -/
theorem withdraw_value_per_lp_mono {x y S b rx ry : Nat} (hb : b ≤ S)
    (hx : rx * S ≤ x * b) (hy : ry * S ≤ y * b) :
    x * y * ((S - b) * (S - b)) ≤ (x - rx) * (y - ry) * (S * S) := by
  rcases Nat.eq_zero_or_pos S with rfl | hS
  · have : b = 0 := by omega
    subst this; simp
  · have key : ∀ {x rx : Nat}, rx * S ≤ x * b → x * (S - b) ≤ (x - rx) * S := by
      intro x rx hx
      have h1 : x * b ≤ x * S := Nat.mul_le_mul_left _ hb
      rw [Nat.mul_sub, Nat.sub_mul]
      omega
    have := Nat.mul_le_mul (key hx) (key hy)
    calc x * y * ((S - b) * (S - b)) = x * (S - b) * (y * (S - b)) := by ac_rfl
      _ ≤ (x - rx) * S * ((y - ry) * S) := this
      _ = (x - rx) * (y - ry) * (S * S) := by ac_rfl

/-- redeemability: an LP amount worth at least one unit of some asset gets a non-zero refund -/
theorem withdraw_redeemable {reserve burned supply : Nat} (hs : supply ≠ 0)
    (hw : supply ≤ reserve * burned) : 0 < reserve * burned / supply := by
  exact Nat.div_pos hw (Nat.pos_of_ne_zero hs)

/-- LP tokens are created only by deposits and destroyed only by withdrawals: the only
    pool-manager messages that mint or burn are those of `provide_liquidity` / `withdraw_liquidity` -/
theorem lp_only_minted_by_deposit_burned_by_withdraw {s s' : PmState} {env : PmEnv} {sender : Addr}
    {funds : List Coin} {m : PmMsg} {r : Response}
    (h : pmExecute s env sender funds m = .ok (s', r)) :
    (∀ sm ∈ r.msgs, ∀ c to, sm.msg = .tfMint c to → ∃ ls ss rc pid u l, m = .provideLiquidity ls ss rc pid u l) ∧
    (∀ sm ∈ r.msgs, ∀ c, sm.msg = .tfBurn c → ∃ pid, m = .withdrawLiquidity pid) := by
  have both : (∀ sm ∈ r.msgs, noMB sm.msg = true) →
      (∀ sm ∈ r.msgs, ∀ c to, sm.msg = .tfMint c to → ∃ ls ss rc pid u l, m = .provideLiquidity ls ss rc pid u l) ∧
      (∀ sm ∈ r.msgs, ∀ c, sm.msg = .tfBurn c → ∃ pid, m = .withdrawLiquidity pid) := by
    intro hh
    exact ⟨fun sm hsm c to e => (noMB_absurd_mint (hh sm hsm) e).elim,
           fun sm hsm c e => (noMB_absurd_burn (hh sm hsm) e).elim⟩
  cases m with
  | createPool denoms decimals fees ptype id => exact both (create_msgs h)
  | provideLiquidity ls ss rc pid u l =>
    refine ⟨fun _ _ _ _ _ => ⟨_, _, _, _, _, _, rfl⟩, fun sm hsm c e => ?_⟩
    have := provide_msgs h sm hsm
    rw [e] at this
    simp [noBurn] at this
  | swap ask b ms rc pid => exact both (swap_msgs h)
  | withdrawLiquidity pid =>
    refine ⟨fun sm hsm c to e => ?_, fun _ _ _ _ => ⟨_, rfl⟩⟩
    have := withdraw_msgs h sm hsm
    rw [e] at this
    simp [noMint] at this
  | execSwapOps ops mr rc ms => exact both (execSwapOps_msgs h)
  | updateConfig fc fm cf t =>
    apply both
    unfold pmExecute at h
    rw [bind_ok] at h
    obtain ⟨_, _, h⟩ := h
    rw [updateConfig_msgs h]
    intro sm hsm; cases hsm
  | updateOwnership a =>
    apply both
    unfold pmExecute at h
    do_norm
    repeat' peel_step
    simp only [Prod.mk.injEq] at hfin
    obtain ⟨-, rfl⟩ := hfin
    intro sm hsm; cases hsm

/-- stableswap: the mint of a later deposit is ⌊supply·(D1adj − D0)/D0⌋ with the code's own D values -/
theorem ss_later_mint_shape {amp : Nat} {old new : List Coin} {supply : Nat} {p : PoolInfo} {mint : Nat}
    (hs : supply ≠ 0) (hold : ¬ old.all (·.amount == 0) = true)
    (h : computeLpMintStable amp old new supply p = .ok mint) :
    mint = 0 ∨ ∃ d0 dadj, computeDWithPoolInfo amp old p = .ok (some d0) ∧ d0 ≠ 0 ∧ d0 ≤ dadj ∧
      mint = supply * (dadj - d0) / d0 := by
  unfold computeLpMintStable at h
  rw [bind_ok] at h
  obtain ⟨total, -, h⟩ := h
  split at h
  · simp only [pure_ok] at h; exact Or.inl h
  extract_lets n jp0 at h
  rw [bind_ok] at h
  obtain ⟨l0, hl0, h⟩ := h
  split at h
  case h_2 => cases h
  rename_i d0
  replace h : jp0 d0 = .ok mint := h
  simp -zeta only [jp0] at h
  clear jp0
  rw [bind_ok] at h
  obtain ⟨l1, hl1, h⟩ := h
  extract_lets jpD jpA jp1 at h
  have keyD : ∀ a, jpD a = .ok mint → mint = 0 ∨ ∃ d0 dadj, computeDWithPoolInfo amp old p = .ok (some d0) ∧ d0 ≠ 0 ∧ d0 ≤ dadj ∧
      mint = supply * (dadj - d0) / d0 := by
    intro a ha
    simp -zeta only [jpD] at ha
    have hs' : (supply == 0) = false := by simpa using hs
    rw [if_neg (by simp [hs'])] at ha
    simp only [bind_ok, ckSub_ok, ckMul_ok, ckDiv_ok, fit_ok] at ha
    obtain ⟨_, ⟨hle, rfl⟩, _, ⟨_, rfl⟩, _, ⟨hne, rfl⟩, _, rfl⟩ := ha
    exact Or.inr ⟨d0, a, hl0, hne, hle, rfl⟩
  clear_value jpD
  have keyA : ∀ a, jpA a = .ok mint → mint = 0 ∨ ∃ d0 dadj, computeDWithPoolInfo amp old p = .ok (some d0) ∧ d0 ≠ 0 ∧ d0 ≤ dadj ∧
      mint = supply * (dadj - d0) / d0 := by
    intro a ha
    simp -zeta only [jpA] at ha
    rw [bind_ok] at ha
    obtain ⟨l, -, ha⟩ := ha
    split at ha
    · exact keyD _ ha
    · cases ha
  clear_value jpA
  split at h
  case h_2 => cases h
  rename_i d1
  replace h : jp1 d1 = .ok mint := h
  simp -zeta only [jp1] at h
  clear jp1
  split at h
  · simp only [pure_ok] at h; exact Or.inl h
  split at h
  · exact keyA _ h
  dsimp only at h
  repeat (first
    | exact keyA _ h
    | (rw [bind_ok] at h; obtain ⟨_, -, h⟩ := h)
    | (split at h <;> try (cases h)))

end MantraDex.C02
