/-
  Liveness clauses (C02, C05 / C11): in every state satisfying the proved reachable-state invariants,

    * while withdrawals are enabled, a holder can ALWAYS redeem any LP amount worth at least one unit of some asset:
      the `WithdrawLiquidity` transaction is accepted (`withdraw_liquidity_live_partial`: the pool's LP denom must be
      a token-factory denom and its reserves u128 — both true of every pool a history creates, neither a field of
      `PmInv` / `LpInv`);
    * a farm's owner (or the contract owner) can ALWAYS close it and is refunded the unclaimed remainder: the
      `CloseFarm` transaction is accepted (`close_farm_live`);
    * a position's owner can leave through the emergency exit as long as the position is small enough for
      the penalty arithmetic (`emergency_withdraw_live_partial`: amount · 10^18 must fit 128 bits — recorded in
      DESIGN.md as a limitation outside the properties) AND no farm on the LP token makes `is_farm_expired` panic.
      The second condition is a liveness gap of the contract, not of the model: anybody can create a farm with a
      far-future end epoch, which blocks the emergency exit of every still-locked position of that LP token until the
      farm is closed (see the comment before the theorem, with an evaluated three-transaction history).

  Helper lemmas: `Proofs/LiveFarm.lean`, `Proofs/LivePool.lean`, `Proofs/LiveNum.lean`, `Proofs/LiveExit.lean`
  (namespace `MantraDex.Live`).
-/
import MantraDex.Model.System
import MantraDex.Proofs.NumLemmas
import MantraDex.Proofs.BankLemmas
import MantraDex.Properties.C01Sys
import MantraDex.Properties.C02Sys
import MantraDex.Properties.C05Sys
import MantraDex.Properties.C09Sys
import MantraDex.Properties.C11Sys
import MantraDex.Proofs.LiveFarm
import MantraDex.Proofs.LivePool
import MantraDex.Proofs.LiveExit

set_option linter.unusedSimpArgs false
set_option linter.unusedVariables false

namespace MantraDex.C02Live
open MantraDex

/-
  ORIGINAL STATEMENT (not provable as stated; kept for reference):

    theorem withdraw_liquidity_live (w : World) (p : PoolInfo) (u : Addr) (amount : Nat)
        (hc : C01Sys.PmInv w) (hl : C02Sys.LpInv w) (hp : p ∈ w.pm.pools)
        (hplainAssets : ∀ a ∈ p.assets, isFactoryToken a.denom = false)
        (hen : p.status.withdrawals = true)
        (hu : isContract u = false) (hpos : amount ≠ 0) (hbal : amount ≤ w.bank.bal u p.lpDenom)
        (hworth : ∃ a ∈ p.assets, w.bank.supply p.lpDenom ≤ a.amount * amount) :
        ∃ w', runTx w (.exec u PM (.pm (.withdrawLiquidity p.id)) [⟨p.lpDenom, amount⟩]) = .ok w'

  Two facts about the pool are missing, neither of which follows from `PmInv` / `LpInv` as they stand:

  * `hft : isFactoryToken p.lpDenom = true`.  `withdrawLiquidity` rejects with `.other` when the LP denom is not a
    token-factory denom.  `LpInv.lpDerived` gives `p.lpDenom = lpDenomOf PM p.id`, but nothing in the invariants
    restricts `p.id`: a world whose only pool has a 200-character identifier (LP supply 0 or the minimum locked,
    every other field as required) satisfies `PmInv` and `LpInv`, yet `isFactoryTokenParts` is false (sub-denom
    longer than 44 bytes) and every withdrawal is rejected.  `createPool` only stores identifiers for which
    `isFactoryTokenParts env.self (id ++ ".LP")` holds, so the fact is true for every pool a history can create;
    deriving `isFactoryToken (lpDenomOf PM id)` from it needs `String.splitOn`/`intercalate` round-trip lemmas that
    core Lean 4.33 does not provide, so it is taken as a hypothesis on the pool.
  * `hres : ∀ a ∈ p.assets, a.amount ≤ U128_MAX`.  The model's reserves are `Nat`s; `PmInv.custody` bounds them by
    bank balances, which are unbounded `Nat`s too.  A world with a reserve of 2^129 (covered by a balance of 2^129),
    LP supply 2000 (1000 locked with the pool manager, 1000 with a holder who redeems them) makes
    `mulRatio U128_MAX (2^129) 1000 2000 = 2^128 > U128_MAX` overflow: the handler rejects.
    Reserves are only ever written through `ckAdd U128_MAX` / subtraction, so the bound holds in every reachable
    state (it is the u128 range of the stored `Coin`).
-/

/-- PARTIAL (added: `hft`, the pool's LP denom is a token-factory denom; `hres`, the stored reserves are in the
    u128 range — see the comment above).  A holder of `amount` LP of a pool with withdrawals enabled, worth at least
    one unit of some asset, can redeem it. -/
theorem withdraw_liquidity_live_partial (w : World) (p : PoolInfo) (u : Addr) (amount : Nat)
    (hc : C01Sys.PmInv w) (hl : C02Sys.LpInv w) (hp : p ∈ w.pm.pools)
    (hplainAssets : ∀ a ∈ p.assets, isFactoryToken a.denom = false)
    (hft : isFactoryToken p.lpDenom = true)
    (hres : ∀ a ∈ p.assets, a.amount ≤ U128_MAX)
    (hen : p.status.withdrawals = true)
    (hu : isContract u = false) (hpos : amount ≠ 0) (hbal : amount ≤ w.bank.bal u p.lpDenom)
    (hworth : ∃ a ∈ p.assets, w.bank.supply p.lpDenom ≤ a.amount * amount) :
    ∃ w', runTx w (.exec u PM (.pm (.withdrawLiquidity p.id)) [⟨p.lpDenom, amount⟩]) = .ok w' :=
  Live.withdraw_liquidity_run hc.custody ((C02Sys.covers_iff w.bank).1 hl.supplyCovers)
    (SwSys.getPool_of_mem hl.ids hp) hp (hc.wf.2 p hp) hplainAssets hft hres hen
    (C01Sys.not_contract_ne_pm hu) hpos hbal hworth

/-- the farm's owner, or the contract owner, can always close a farm
    (dropped: `hu : isContract u = false` — not needed, the call carries no funds and the refund is sent by the
    farm manager in a reply-on-error sub-message, whose failure is tolerated) -/
theorem close_farm_live (w : World) (f : Farm) (u : Addr) (hinv : C05Sys.FmInv w) (hf : f ∈ w.fm.farms)
    (hauth : u = f.owner ∨ w.fm.owner.owner = some u) :
    ∃ w', runTx w (.exec u FM (.fm (.closeFarm f.id)) []) = .ok w' ∧
      (∀ g ∈ w'.fm.farms, g.id ≠ f.id) := by
  obtain ⟨w', hrun, hfm⟩ := Live.close_farm_live_run hinv.farmNodup hf hauth
  refine ⟨w', hrun, ?_⟩
  intro g hg
  rw [hfm] at hg
  simpa using (List.mem_filter.1 hg).2

/-
  STATEMENT AS HANDED OUT (already `_partial`: `hsmall`, `hdur`, `hpen`, `hepoch`); it needs three further
  hypotheses, two of them about the model's / the contract's number ranges and one that is a genuine liveness
  gap of the contract:

    theorem emergency_withdraw_live_partial (w : World) (p : Position) (hinv : C05Sys.FmInv w)
        (hp : p ∈ w.fm.positions) (hu : isContract p.receiver = false)
        (hsmall : p.amount * ONE18 ≤ U128_MAX) (hamt : p.amount ≠ 0)
        (hdur : C.SECONDS_IN_DAY ≤ p.unlocking ∧ p.unlocking ≤ C.SECONDS_IN_YEAR)
        (hpen : w.fm.config.emergencyUnlockPenalty ≤ ONE18)
        (hepoch : ∃ cur, fmCurrentEpoch w.fm w.fmEnv = .ok cur)
        (hnow : w.nowNs ≤ U64_MAX) :
        ∃ w', runTx w (.exec p.receiver FM (.fm (.withdrawPosition p.id (some true))) []) = .ok w' ∧
          w'.fm.getPosition p.id = none

  ADDED
  * `hpanic` — no farm on the position's LP token makes `is_farm_expired` PANIC.  `withdraw_position` evaluates
    `is_farm_expired(..).unwrap_or(false)` for every farm of the LP token that has started; `unwrap_or` swallows an
    `Err`, not a panic, and `is_farm_expired` panics when `end_epoch + 1` overflows u64, when the start time of
    epoch `end_epoch + 1` (seconds · 10^9, `Timestamp::from_seconds`) overflows u64, or when adding the farm
    expiration time overflows.  THIS IS NOT EXCLUDED BY ANY REACHABLE-STATE INVARIANT: `create_farm` accepts any
    `end_epoch > start_epoch` (`validate_farm_epochs` bounds only the START epoch by `max_farm_epoch_buffer`), so
    anybody can create, for the price of the farm fee and 1000 units of reward, a farm on a given LP token with
    `preliminary_end_epoch = u64::MAX` (or merely ≥ ~213 504 with one-day epochs, i.e. 2^64 ns ≈ 584 years after
    genesis).  Once that farm's start epoch is reached, every emergency withdrawal of a still-locked position of that
    LP token panics (and so does every later `create_farm` on that LP token), until the farm is closed by its owner
    or the contract owner.  Execution refuting the statement without `hpanic`: state with one such farm `f`
    (`f.lpDenom = p.lpDenom`, `f.startEpoch ≤ cur`, `f.endEpoch = U64_MAX`) and an open position `p`:
    `withdrawPosition` → `filterM` → `isFarmExpiredOrFalse` → `isFarmExpired` → `fit U64_MAX (f.endEpoch + 1) .panic`
    = `.error .panic`, so `runTx … = .error .panic`; all hypotheses of the handed-out statement hold
    (`FmInv` says nothing about end epochs).  `Live.isFarmExpired_no_panic` gives the numeric sufficient condition
    `(genesis + (end_epoch + 1) · duration) · 10^9 + farm_expiration_time · 10^9 ≤ u64::MAX` per farm.
    Checked by evaluation (`#eval`; `decide` cannot run it because `validateLpDenom` splits strings), from a
    fresh deployment with one-day epochs, in three external transactions:

      def lp1 : Denom := "factory/pm/o.a.LP"
      def w0 : World := {
        bank := { bal := fun a d => if a = "alice" ∧ d = "r" then 5000 else if a = "bob" ∧ d = lp1 then 1000000 else 0
                  supply := fun d => if d = "r" then 5000 else if d = lp1 then 1000000 else 0 }
        pm := { config := ⟨FC, FM, ⟨"x", 0⟩⟩, owner := { owner := some "o" } }
        fm := { config := ⟨FC, EM, PM, ⟨"x",0⟩, 5, 14, 86400, 31556926, 2629746, 100000000000000000⟩,
                owner := { owner := some "o" } }
        em := { cfg := ⟨86400, 0⟩, owner := { owner := some "o" } }
        fc := { owner := some "o" }, nowNs := 86400 * 2 * 1000000000, tfFees := [], validAddr := fun _ => true }
      def w1 := step w0 (.exec "bob" FM (.fm (.createPosition none 86400 none)) [⟨lp1, 1000000⟩])
      def mk (e : Nat) : Tx := .exec "alice" FM (.fm (.createFarm
        { lpDenom := lp1, startEpoch := none, endEpoch := some e, asset := ⟨"r", 1000⟩, farmId := none })) [⟨"r", 1000⟩]
      def exit : Tx := .exec "bob" FM (.fm (.withdrawPosition "p-1" (some true))) []
      def w3 (e : Nat) := step (step w1 (mk e)) (.advance (86400 * 2 * 1000000000))
      #eval runTx (w3 U64_MAX) exit      -- error panic   (farm "f-1": start 3, end 18446744073709551615, accepted)
      #eval runTx (w3 213504) exit       -- error panic
      #eval runTx (w3 213000) exit       -- ok
      #eval runTx (w3 U64_MAX) (mk 20)   -- error panic   (no further farm can be created on the LP token either)
      #eval runTx (step (w3 U64_MAX) (.exec "alice" FM (.fm (.closeFarm "f-1")) [])) exit   -- ok again
  * `hexp64` — a closed position's `expiring_at` is in the u64 range (it is a `u64` in the contract; the model's
    field is a `Nat`, and `FmInv` does not bound it).  Without it `Decimal::from_ratio(remaining, unlocking)` may
    exceed 128 bits and the handler panics (e.g. `expiringAt = some (2^128)`).
  * `hfan` — at most 60 farms on the position's LP token.  Artifact of the MODEL, not of the contract: `runTx`
    runs with `FUEL = 64` and `execSubs` consumes one unit per sub-message, while `withdraw_position` emits one
    transfer per distinct owner of an active farm (up to MAX_FARMS_LIMIT = 100) plus two; with more than 61
    distinct owners `execSubs` returns `.error .other` although the contract would succeed.  It follows from
    `C11Sys.FarmLimit w` whenever `max_concurrent_farms ≤ 60`.

  DROPPED (not needed): `hu : isContract p.receiver = false` (all transfers are made by the farm manager, whoever
  the receiver is) and `hnow : w.nowNs ≤ U64_MAX`.
-/

/-- the owner of a position can always leave through the emergency exit (position small enough for the 128-bit
    penalty arithmetic, epoch defined; no farm of the LP token whose expiry computation panics, `expiring_at` a
    u64, at most 60 farms on the LP token — see the comment above) -/
theorem emergency_withdraw_live_partial (w : World) (p : Position) (hinv : C05Sys.FmInv w)
    (hp : p ∈ w.fm.positions)
    (hsmall : p.amount * ONE18 ≤ U128_MAX) (hamt : p.amount ≠ 0)
    (hdur : C.SECONDS_IN_DAY ≤ p.unlocking ∧ p.unlocking ≤ C.SECONDS_IN_YEAR)
    (hpen : w.fm.config.emergencyUnlockPenalty ≤ ONE18)
    (hepoch : ∃ cur, fmCurrentEpoch w.fm w.fmEnv = .ok cur)
    (hexp64 : ∀ e, p.expiringAt = some e → e ≤ U64_MAX)
    (hpanic : ∀ f ∈ w.fm.farms, f.lpDenom = p.lpDenom → isFarmExpired w.fm w.fmEnv f ≠ .error .panic)
    (hfan : (w.fm.farms.filter (·.lpDenom == p.lpDenom)).length ≤ 60) :
    ∃ w', runTx w (.exec p.receiver FM (.fm (.withdrawPosition p.id (some true))) []) = .ok w' ∧
      w'.fm.getPosition p.id = none :=
  Live.emergency_withdraw_live_run hinv hp hsmall hamt hdur hpen hepoch hexp64 hpanic hfan

end MantraDex.C02Live
