/-
  C09 through the runtime: the complete bank effect of an accepted emergency withdrawal.  The owner
  receives the position's LP minus the penalty; every distinct owner of a currently active farm on that
  LP token receives the same share; the fee collector receives the rest of the penalty (all of it when
  there is no active farm); the farm manager pays out at most the recorded amount; the position is
  deleted; nobody else's balance moves.  Stated additively over `Int` so that one formula covers every
  aliasing of the parties (the owner may also be a farm owner or the fee collector).
-/
import MantraDex.Model.System
import MantraDex.Proofs.NumLemmas
import MantraDex.Proofs.BankLemmas
import MantraDex.Properties.C09
import MantraDex.Properties.C05Sys
import MantraDex.Proofs.FarmTxWithdraw

set_option linter.unusedSimpArgs false
set_option linter.unusedVariables false

namespace MantraDex.C09Sys
open MantraDex

def at_ (c : Prop) [Decidable c] (x : Int) : Int := if c then x else 0

/-- the farms that count as "currently active" for the penalty split, as `withdraw_position` selects them -/
def activeFarms (s : FmState) (env : FmEnv) (lp : Denom) : R (List Farm) := do
  let cur ← fmCurrentEpoch s env
  (s.farmsByLp lp C.MAX_FARMS_LIMIT).filterM fun f => do
    if f.startEpoch ≤ cur then do
      let ex ← isFarmExpiredOrFalse s env f
      pure (!ex)
    else pure false

theorem activeFarms_eq : @activeFarms = @FarmTx.activeFarms := rfl

/-- the owners that share the penalty are pairwise distinct (each is paid once) -/
theorem uniqueOwners_nodup (fs : List Farm) : (uniqueOwners fs).Nodup := FarmTx.uniqueOwners_nodup fs

/-- Dropped (unnecessary) hypotheses of the original statement: `hu : isContract u = false`,
    `hfc : w.fm.config.feeCollector ≠ FM` and `hinv : C05Sys.FmInv w`.  The transaction is assumed to be
    accepted, and the additive formula is the sum of the effects of the executed transfers, so it is right
    under every aliasing of the parties — a farm owner may be the withdrawing user, the fee collector or the
    farm manager itself, and the farm manager may be its own fee collector (a transfer to oneself adds and
    subtracts the same amount). -/
theorem emergency_withdraw_tx_effect (w w' : World) (u : Addr) (p : Position)
    (hp : w.fm.getPosition p.id = some p)
    (hnot : (⟨p.amount, p.unlocking, p.expiringAt⟩ : PosView).isExpired w.fmEnv.nowS = false)
    (h : runTx w (.exec u FM (.fm (.withdrawPosition p.id (some true))) []) = .ok w') :
    u = p.receiver ∧
    ∃ rate active sp,
      calculateEmergencyPenalty ⟨p.amount, p.unlocking, p.expiringAt⟩ w.fm.config.emergencyUnlockPenalty
        w.fmEnv.nowS = .ok rate ∧
      activeFarms w.fm w.fmEnv p.lpDenom = .ok active ∧
      penaltySplit p.amount rate (uniqueOwners active).length = .ok sp ∧
      w'.fm.getPosition p.id = none ∧ w'.pm = w.pm ∧ w'.fm.farms = w.fm.farms ∧
      (p.amount - sp.total) + sp.nFarmOwners * sp.perFarmOwner + sp.feeCollector ≤ p.amount ∧
      ∀ a d, (w'.bank.bal a d : Int) = (w.bank.bal a d : Int)
        + at_ (d = p.lpDenom ∧ a = u) ((p.amount - sp.total : Nat) : Int)
        + at_ (d = p.lpDenom ∧ a ∈ uniqueOwners active ∧ sp.nFarmOwners ≠ 0) (sp.perFarmOwner : Int)
        + at_ (d = p.lpDenom ∧ a = w.fm.config.feeCollector) (sp.feeCollector : Int)
        - at_ (d = p.lpDenom ∧ a = FM)
            (((p.amount - sp.total) + sp.nFarmOwners * sp.perFarmOwner + sp.feeCollector : Nat) : Int) := by
  obtain ⟨hu, rate, active, sp, hrate, hact, hsp, hgone, hpm, hfarms, b1, b2, e1, m2, m3⟩ :=
    FarmTx.emergency_withdraw_run hp hnot h
  refine ⟨hu, rate, active, sp, hrate, hact, hsp, hgone, hpm, hfarms, ?_, ?_⟩
  · obtain ⟨hacc, _, _⟩ := C09.split_accounted hsp
    obtain ⟨_, _, hop, _⟩ := C09.penaltySplit_ok hsp
    rw [hop] at hacc
    omega
  · intro a d
    have e1 := e1 a d
    have e2 := m2.bal a d
    have e3 := m3.bal a d
    rw [coinsOf_single] at e2 e3
    simp only at e2 e3
    unfold at_
    subst hu
    generalize sp.nFarmOwners * sp.perFarmOwner = Q at *
    generalize p.amount - sp.total = P at *
    generalize w.fm.config.feeCollector = fc at *
    by_cases hd : d = p.lpDenom
    · subst hd
      simp only [true_and, if_true] at e1 e2 e3 ⊢
      by_cases c1 : a = FM <;> by_cases c2 : a = fc <;> by_cases c3 : a = p.receiver <;>
        by_cases c4 : (a ∈ uniqueOwners active ∧ sp.nFarmOwners ≠ 0) <;>
        (try simp only [if_pos c1] at e1 e2 e3 ⊢) <;> (try simp only [if_neg c1] at e1 e2 e3 ⊢) <;>
        (try simp only [if_pos c2] at e1 e2 e3 ⊢) <;> (try simp only [if_neg c2] at e1 e2 e3 ⊢) <;>
        (try simp only [if_pos c3] at e1 e2 e3 ⊢) <;> (try simp only [if_neg c3] at e1 e2 e3 ⊢) <;>
        (try simp only [if_pos c4] at e1 e2 e3 ⊢) <;> (try simp only [if_neg c4] at e1 e2 e3 ⊢) <;>
        omega
    · have hd' : ¬ p.lpDenom = d := fun e => hd e.symm
      simp only [hd, hd', false_and, if_false] at e1 e2 e3 ⊢
      split at e2 <;> split at e2 <;> split at e3 <;> split at e3 <;> omega

end MantraDex.C09Sys
