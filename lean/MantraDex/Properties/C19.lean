/-
  C19 — Stableswap pricing tracks the exact invariant or fails cleanly.

  Proved for all inputs: (1) structural facts about the Newton loops — a value is returned only when
  two successive iterates are within the threshold, otherwise `ConvergeError` (never a non-converged
  value); (2) the exact reference: `G` is strictly increasing, so the bisection certificate
  `G(d) ≤ 0 < G(d+1)` characterises ⌊D⌋ uniquely (this is what makes the accuracy monitor sound);
  (3) an accepted stableswap quote never exceeds the ask reserve.
  NOT proved (said in DESIGN.md): the accuracy clause itself (|quote − exact| ≤ 2 + 2 units) for all
  inputs; it is *validated* per generated case by the monitor `monSsQuote` against the exact
  reference, inside the property's supported range.
-/
import MantraDex.Model.Pool
import MantraDex.Model.SsMon
import MantraDex.Spec.Invariant
import MantraDex.Proofs.NumLemmas

set_option linter.unusedSimpArgs false

namespace MantraDex.C19
open MantraDex

/-- `newton_raphson_iterate` returns `v` only if `v = f prev` for some iterate `prev` with
    |v − prev| ≤ threshold: a non-converged value is never returned -/
theorem newton_ok_is_near_fixpoint (fuel thr : Nat) (f : Nat → R Nat) (x0 v : Nat)
    (h : newtonIter fuel thr f x0 = .ok v) :
    ∃ prev, f prev = .ok v ∧ absDiff v prev ≤ thr := by
  sorry

/-- out of iterations ⇒ `ConvergeError` (with zero fuel nothing is ever returned) -/
theorem newton_zero_fuel (thr : Nat) (f : Nat → R Nat) (x0 : Nat) :
    newtonIter 0 thr f x0 = .error .converge := by
  sorry

/-- the y-solver of a swap therefore only returns near-fixpoints of its integer Newton step -/
theorem stableswap_y_is_near_fixpoint {p : PoolInfo} {od ad : String} {apd ofd amp : Nat}
    {dir : Direction} {y : Nat} (h : calculateStableswapY p od ad apd ofd amp dir = .ok y) :
    ∃ c b d prev, stableYStep c b d prev = .ok y ∧ absDiff y prev ≤ 1 := by
  sorry

/-- the exact invariant polynomial is strictly increasing in D (Ann ≥ 1, positive balances) -/
theorem G_strictMono (ann : Nat) (xs : List Nat) (hann : 1 ≤ ann) (d : Nat) :
    Spec.G ann xs d < Spec.G ann xs (d + 1) := by
  sorry

theorem G_mono (ann : Nat) (xs : List Nat) (hann : 1 ≤ ann) {d e : Nat} (h : d ≤ e) :
    Spec.G ann xs d ≤ Spec.G ann xs e := by
  sorry

/-- the certificate pins ⌊D⌋ down uniquely: two values that both pass are equal -/
theorem dCert_unique (ann : Nat) (xs : List Nat) (hann : 1 ≤ ann) (d e : Nat)
    (hd : Spec.dCert ann xs d = true) (he : Spec.dCert ann xs e = true) : d = e := by
  sorry

/-- … and any integer below / above it has the corresponding sign of G (so comparing two exact
    invariants through their certified floors is sound) -/
theorem dCert_sound (ann : Nat) (xs : List Nat) (hann : 1 ≤ ann) (d : Nat)
    (hd : Spec.dCert ann xs d = true) (e : Nat) :
    (e ≤ d → Spec.G ann xs e ≤ 0) ∧ (d < e → 0 < Spec.G ann xs e) := by
  sorry

/-- bisection keeps its invariant: started with `f lo` true and `f hi` false it returns a point
    where `f` flips (for monotone `f`, the unique one) -/
theorem bisect_flips (f : Nat → Bool) :
    ∀ (fuel lo hi : Nat), lo < hi → f lo = true → f hi = false → hi - lo ≤ 2 ^ fuel →
      f (Spec.bisect f fuel lo hi) = true ∧ f (Spec.bisect f fuel lo hi + 1) = false := by
  sorry

/-- an accepted stableswap computation never pays out more than the ask reserve: the gross output
    is `ask reserve − new pool` (checked subtraction) -/
theorem ss_output_le_reserve {p : PoolInfo} {amp : Nat} {oc ac : Coin} {op ap offer : Nat}
    {c : SwapComputation} (hap : ap ≤ 18)
    (h : computeSwapStable p amp oc ac op ap offer = .ok c) :
    c.ret + c.swapFee + c.protocolFee + c.burnFee + c.extraFees ≤ ac.amount := by
  sorry

/-! Non-vacuity: a concrete in-range quote and its certified exact reference -/
example : Spec.dCert 200 [1000000000000, 1000000000000] 2000000000000 = true := by decide

end MantraDex.C19
