/-
  C19 — Stableswap pricing tracks the exact invariant or fails cleanly.

  Proved for all inputs: (1) structural facts about the Newton loops — a value is returned only when
  two successive iterates are within the threshold, otherwise `ConvergeError` (never a non-converged
  value); (2) the exact reference: `G` is strictly increasing, so the bisection certificate
  `G(d) ≤ 0 < G(d+1)` characterises ⌊D⌋ uniquely (this is what makes the accuracy monitor sound);
  (3) an accepted stableswap quote never exceeds the ask reserve.
  NOT proved (said in DESIGN.md): the accuracy clause itself (|quote − exact| ≤ 2 + 2 units) for all
  inputs; it is *validated* per generated case by the monitor `monSsQuote` against the exact
  reference, inside the property's supported range.
-/
import MantraDex.Model.Pool
import MantraDex.Model.SsMon
import MantraDex.Spec.Invariant
import MantraDex.Proofs.NumLemmas
import Mathlib.Tactic.Linarith
import Mathlib.Tactic.Ring
import Mathlib.Tactic.Positivity
import Mathlib.Tactic.Push

set_option linter.unusedSimpArgs false

namespace MantraDex.C19
open MantraDex

/-- `newton_raphson_iterate` returns `v` only if `v = f prev` for some iterate `prev` with
    |v − prev| ≤ threshold: a non-converged value is never returned -/
theorem newton_ok_is_near_fixpoint (fuel thr : Nat) (f : Nat → R Nat) (x0 v : Nat)
    (h : newtonIter fuel thr f x0 = .ok v) :
    ∃ prev, f prev = .ok v ∧ absDiff v prev ≤ thr := by
  induction fuel generalizing x0 with
  | zero => simp [newtonIter] at h
  | succ n ih =>
    unfold newtonIter at h
    simp only [bind_ok] at h
    obtain ⟨nxt, hf, h⟩ := h
    split at h
    next hle =>
      simp only [pure_ok] at h; subst h; exact ⟨x0, hf, hle⟩
    next => exact ih _ h

/-- out of iterations ⇒ `ConvergeError` (with zero fuel nothing is ever returned) -/
theorem newton_zero_fuel (thr : Nat) (f : Nat → R Nat) (x0 : Nat) :
    newtonIter 0 thr f x0 = .error .converge := by
  rfl

/-- the y-solver of a swap therefore only returns near-fixpoints of its integer Newton step -/
theorem stableswap_y_is_near_fixpoint {p : PoolInfo} {od ad : String} {apd ofd amp : Nat}
    {dir : Direction} {y : Nat} (h : calculateStableswapY p od ad apd ofd amp dir = .ok y) :
    ∃ c b d prev, stableYStep c b d prev = .ok y ∧ absDiff y prev ≤ 1 := by
  unfold calculateStableswapY at h
  simp only [bind_ok] at h
  obtain ⟨ann, _, h⟩ := h
  split at h
  · simp only [bind_ok, pure_ok] at h
    obtain ⟨_, _, _, _, d, _, _, _, _, _, _, _, _, _, _, _, c, _, _, _, b, _, y', hy, hfit⟩ := h
    simp only [fit_ok] at hfit
    obtain ⟨_, rfl⟩ := hfit
    obtain ⟨prev, h1, h2⟩ := newton_ok_is_near_fixpoint _ _ _ _ _ hy
    exact ⟨c, b, d, prev, h1, h2⟩
  · simp [bind, Except.bind] at h

/-- the exact invariant polynomial is strictly increasing in D (Ann ≥ 1, positive balances) -/
theorem G_strictMono (ann : Nat) (xs : List Nat) (hann : 1 ≤ ann) (d : Nat) :
    Spec.G ann xs d < Spec.G ann xs (d + 1) := by
  unfold Spec.G
  simp only []
  generalize xs.length = n
  have hK : (0:Int) ≤ ((n : Int) ^ n * (Spec.listProd xs : Nat)) := by positivity
  generalize ((n : Int) ^ n * (Spec.listProd xs : Nat)) = K at hK ⊢
  generalize ((Spec.listSum xs : Nat) : Int) = S
  have hp : (d:Int)^(n+1) < ((d+1 : Nat):Int)^(n+1) := by
    exact_mod_cast Nat.pow_lt_pow_left (Nat.lt_succ_self d) (by omega)
  have ha : (0:Int) ≤ (ann:Int) - 1 := by omega
  have := mul_nonneg ha hK
  push_cast at hp ⊢
  nlinarith

theorem G_mono (ann : Nat) (xs : List Nat) (hann : 1 ≤ ann) {d e : Nat} (h : d ≤ e) :
    Spec.G ann xs d ≤ Spec.G ann xs e := by
  induction e with
  | zero => have : d = 0 := by omega
            subst this; exact Int.le_refl _
  | succ k ih =>
    rcases Nat.lt_or_ge d (k+1) with hlt | hge
    · exact Int.le_trans (ih (by omega)) (Int.le_of_lt (G_strictMono ann xs hann k))
    · have : d = k + 1 := by omega
      subst this; exact Int.le_refl _

/-- … and any integer below / above it has the corresponding sign of G (so comparing two exact
    invariants through their certified floors is sound) -/
theorem dCert_sound (ann : Nat) (xs : List Nat) (hann : 1 ≤ ann) (d : Nat)
    (hd : Spec.dCert ann xs d = true) (e : Nat) :
    (e ≤ d → Spec.G ann xs e ≤ 0) ∧ (d < e → 0 < Spec.G ann xs e) := by
  unfold Spec.dCert at hd
  simp only [Bool.and_eq_true, decide_eq_true_eq] at hd
  obtain ⟨h1, h2⟩ := hd
  constructor
  · intro h; exact Int.le_trans (G_mono ann xs hann h) h1
  · intro h; exact Int.lt_of_lt_of_le h2 (G_mono ann xs hann (by omega))

/-- the certificate pins ⌊D⌋ down uniquely: two values that both pass are equal -/
theorem dCert_unique (ann : Nat) (xs : List Nat) (hann : 1 ≤ ann) (d e : Nat)
    (hd : Spec.dCert ann xs d = true) (he : Spec.dCert ann xs e = true) : d = e := by
  have sd := dCert_sound ann xs hann d hd
  have se := dCert_sound ann xs hann e he
  rcases Nat.lt_trichotomy d e with h | h | h
  · have a := (sd e).2 h
    have b := (se e).1 (Nat.le_refl _)
    omega
  · exact h
  · have a := (se d).2 h
    have b := (sd d).1 (Nat.le_refl _)
    omega

/-- bisection keeps its invariant: started with `f lo` true and `f hi` false it returns a point
    where `f` flips (for monotone `f`, the unique one) -/
theorem bisect_flips (f : Nat → Bool) :
    ∀ (fuel lo hi : Nat), lo < hi → f lo = true → f hi = false → hi - lo ≤ 2 ^ fuel →
      f (Spec.bisect f fuel lo hi) = true ∧ f (Spec.bisect f fuel lo hi + 1) = false := by
  intro fuel
  induction fuel with
  | zero =>
    intro lo hi hlt hlo hhi hd
    have : hi = lo + 1 := by simp at hd; omega
    subst this
    simp only [Spec.bisect]
    exact ⟨hlo, hhi⟩
  | succ k ih =>
    intro lo hi hlt hlo hhi hd
    unfold Spec.bisect
    split
    next hle =>
      have : hi = lo + 1 := by omega
      subst this
      exact ⟨hlo, hhi⟩
    next hgt =>
      simp only []
      have hp : 2 ^ (k+1) = 2 * 2 ^ k := by rw [Nat.pow_succ, Nat.mul_comm]
      split
      next hm => exact ih _ _ (by omega) hm hhi (by omega)
      next hm =>
        have hm' : f ((lo + hi) / 2) = false := by simpa using hm
        exact ih _ _ (by omega) hlo hm' (by omega)

theorem getSwapComputation_sum {g s : Nat} {fc : FeesComputation} {c : SwapComputation}
    (h : getSwapComputation g s fc = .ok c) :
    c.ret + c.swapFee + c.protocolFee + c.burnFee + c.extraFees = g := by
  unfold getSwapComputation at h
  simp only [bind_ok, ckSub_ok, ckAdd_ok, fit_ok, pure_ok] at h
  obtain ⟨r1, ⟨h1, rfl⟩, r2, ⟨h2, rfl⟩, r3, ⟨h3, rfl⟩, r4, ⟨h4, rfl⟩, _, _, _, _, _, _, _, _,
    _, ⟨_, rfl⟩, _, _, _, ⟨_, rfl⟩, _, ⟨_, rfl⟩, _, ⟨_, rfl⟩, _, ⟨_, rfl⟩, rfl⟩ := h
  simp only []
  omega

theorem dec_round_trip {a ap x y : Nat} (hap : ap ≤ 18)
    (h1 : decWithPrecision a ap = .ok x) (h2 : decToUintWithPrecision x ap = .ok y) : y = a := by
  unfold decToUintWithPrecision at h2
  rw [if_neg (by omega)] at h2
  simp only [Except.ok.injEq] at h2
  subst h2
  unfold decWithPrecision decFromAtomics at h1
  split at h1
  · simp only [fit_ok] at h1
    obtain ⟨_, rfl⟩ := h1
    exact Nat.mul_div_cancel _ (Nat.pow_pos (by decide))
  · have : ap = 18 := by omega
    subst this
    simp at h1
    subst h1
    simp

/-- an accepted stableswap computation never pays out more than the ask reserve: the gross output
    is `ask reserve − new pool` (checked subtraction) -/
theorem ss_output_le_reserve {p : PoolInfo} {amp : Nat} {oc ac : Coin} {op ap offer : Nat}
    {c : SwapComputation} (hap : ap ≤ 18)
    (h : computeSwapStable p amp oc ac op ap offer = .ok c) :
    c.ret + c.swapFee + c.protocolFee + c.burnFee + c.extraFees ≤ ac.amount := by
  unfold computeSwapStable at h
  simp only [bind_ok] at h
  obtain ⟨apd, hapd, od, hod, h⟩ := h
  split at h
  · simp only [bind_ok, pure_ok] at h
    obtain ⟨_, _, y, hy, h⟩ := h
    have fin : ∀ {askAmt newPool gross sl : Nat} {fc : FeesComputation},
        decToUintWithPrecision apd ap = .ok askAmt → ckSub askAmt newPool = .ok gross →
        getSwapComputation gross sl fc = .ok c →
        c.ret + c.swapFee + c.protocolFee + c.burnFee + c.extraFees ≤ ac.amount := by
      intro askAmt newPool gross sl fc haa hg hgs
      have := dec_round_trip hap hapd haa
      subst this
      simp only [ckSub_ok] at hg
      rw [getSwapComputation_sum hgs]
      omega
    split at h
    all_goals
      simp only [bind_ok, pure_ok] at h
    · obtain ⟨_, _, newPool, _, askAmt, haa, gross, hg, _, _, _, _, _, _, _, _, _, _, _, _, fc, _, h⟩ := h
      exact fin haa hg h
    · obtain ⟨newPool, _, askAmt, haa, gross, hg, _, _, _, _, _, _, _, _, _, _, fc, _, h⟩ := h
      exact fin haa hg h
  · simp [bind, Except.bind] at h
/-! Non-vacuity: a concrete in-range quote and its certified exact reference -/
example : Spec.dCert 200 [1000000000000, 1000000000000] 2000000000000 = true := by decide

end MantraDex.C19
