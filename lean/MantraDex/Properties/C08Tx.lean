/-
  C08 / C05 through the runtime: the complete effect of position and claim transactions.

    * `create_position_tx_effect`: an accepted direct `CreatePosition` moves exactly the attached LP coin from the sender to
      the farm manager and records one new open position of exactly that amount for the sender (or, when the sender names
      a receiver, for that receiver = the sender); every other position is untouched; no other balance moves;
    * `expand_position_tx_effect`: exactly the attached amount is added to the named position (which belongs to the sender);
    * `close_position_tx_effect`: closing moves NO tokens; a full close keeps the amount and fixes the unlock instant; a
      partial close splits the position into an open remainder and a closed part whose amounts add up to the original —
      no LP is created or lost; every other position is untouched;
    * `claim_tx_effect`: an accepted `Claim` pays the sender, per denom, exactly the sum of its ledger entries
      (`C06Sys.claimEntries`), out of the farm manager's balance; positions are untouched; no other balance moves.
-/
import MantraDex.Model.System
import MantraDex.Proofs.NumLemmas
import MantraDex.Proofs.BankLemmas
import MantraDex.Properties.C08
import MantraDex.Properties.C05Sys
import MantraDex.Properties.C06Sys
import MantraDex.Proofs.SwapTxLemmas
import MantraDex.Proofs.PosTxLemmas
import MantraDex.Proofs.PosTxClaim
import MantraDex.Proofs.PosTxClose
import MantraDex.Proofs.PosTxCx

set_option linter.unusedSimpArgs false
set_option linter.unusedVariables false

namespace MantraDex.C08Tx
open MantraDex

def at_ (c : Prop) [Decidable c] (x : Int) : Int := if c then x else 0
def amt (c : Coin) (d : Denom) : Int := if c.denom = d then (c.amount : Int) else 0

theorem amt_eq_coinsOf (c : Coin) (d : Denom) : amt c d = ((C01.coinsOf [c] d : Nat) : Int) := by
  rw [coinsOf_single]
  unfold amt
  split <;> rfl

/-- the bank effect of the attached coin moving from `u` to the farm manager -/
theorem one_coin_effect {b0 b : Bank} {u : Addr} {c : Coin} (mv : Moves b0 b u FM [c]) (a : Addr) (d : Denom) :
    (b.bal a d : Int) = (b0.bal a d : Int) - at_ (a = u) (amt c d) + at_ (a = FM) (amt c d) := by
  have e := mv.bal a d
  simp only [amt_eq_coinsOf, at_]
  generalize C01.coinsOf [c] d = x at *
  by_cases c1 : a = u <;> by_cases c2 : a = FM <;>
    (try simp only [if_pos c1] at e ⊢) <;> (try simp only [if_neg c1] at e ⊢) <;>
    (try simp only [if_pos c2] at e ⊢) <;> (try simp only [if_neg c2] at e ⊢) <;> omega

/-- (Dropped the unnecessary hypothesis `hinv : C05Sys.FmInv w` of the original statement; `hu` and `hpm` are
    needed: the pool manager may open positions for others.) -/
theorem create_position_tx_effect (w w' : World) (u : Addr) (id : Option String) (unl : Nat) (recv : Option Addr)
    (funds : List Coin) (k : Option Nat) (hu : isContract u = false)
    (hpm : w.fm.config.poolManager = PM)
    (h : runTx w (.exec u FM (.fm (.createPosition id unl recv)) funds) k = .ok w') :
    ∃ c p, funds = [c] ∧ c.amount ≠ 0 ∧ p ∈ w'.fm.positions ∧ (∀ q ∈ w.fm.positions, q.id ≠ p.id) ∧
      p.receiver = u ∧ p.amount = c.amount ∧ p.lpDenom = c.denom ∧ p.open_ = true ∧ p.unlocking = unl ∧
      p.expiringAt = none ∧
      (∀ q ∈ w.fm.positions, q ∈ w'.fm.positions) ∧
      (∀ q ∈ w'.fm.positions, q = p ∨ q ∈ w.fm.positions) ∧
      w'.pm = w.pm ∧ w'.fm.farms = w.fm.farms ∧
      ∀ a d, (w'.bank.bal a d : Int) = (w.bank.bal a d : Int) - at_ (a = u) (amt c d) + at_ (a = FM) (amt c d) := by
  obtain ⟨c, hf, hne, hmem, hfresh, h1, h2, hpm', hfarms, mv⟩ := PosTx.create_position_run hu hpm h
  exact ⟨c, PosTx.newPos (C08.newPosId w.fm id) c unl u, hf, hne, hmem, hfresh, rfl, rfl, rfl, rfl, rfl, rfl, h1, h2,
    hpm', hfarms, fun a d => by have := one_coin_effect mv a d; exact this⟩

/-- (Dropped the unnecessary hypothesis `hinv : C05Sys.FmInv w` of the original statement.) -/
theorem expand_position_tx_effect (w w' : World) (u : Addr) (id : String) (funds : List Coin) (k : Option Nat)
    (p : Position) (hu : isContract u = false) (hpm : w.fm.config.poolManager = PM)
    (hp : w.fm.getPosition id = some p)
    (h : runTx w (.exec u FM (.fm (.expandPosition id)) funds) k = .ok w') :
    ∃ c p', funds = [c] ∧ c.denom = p.lpDenom ∧ p.receiver = u ∧ p.open_ = true ∧
      w'.fm.getPosition id = some p' ∧ p' = { p with amount := p.amount + c.amount } ∧
      (∀ q ∈ w.fm.positions, q.id ≠ id → q ∈ w'.fm.positions) ∧
      (∀ q ∈ w'.fm.positions, q.id ≠ id → q ∈ w.fm.positions) ∧
      w'.pm = w.pm ∧ w'.fm.farms = w.fm.farms ∧
      ∀ a d, (w'.bank.bal a d : Int) = (w.bank.bal a d : Int) - at_ (a = u) (amt c d) + at_ (a = FM) (amt c d) := by
  obtain ⟨c, hf, hden, hrecv, hopen, hget, h1, h2, hpm', hfarms, mv⟩ := PosTx.expand_position_run hu hpm hp h
  exact ⟨c, _, hf, hden, hrecv, hopen, hget, rfl, h1, h2, hpm', hfarms, fun a d => by have := one_coin_effect mv a d; exact this⟩

/-
  ORIGINAL STATEMENT (false as first written):

    theorem close_position_tx_effect (w w' : World) (u : Addr) (id : String) (lp : Option Coin) (funds : List Coin)
        (k : Option Nat) (p : Position) (hu : isContract u = false) (hinv : C05Sys.FmInv w)
        (hp : w.fm.getPosition id = some p)
        (h : runTx w (.exec u FM (.fm (.closePosition id lp)) funds) k = .ok w') : … (as in `_partial` below)

  The conjunct `part.amount ≠ 0` of the partial-close disjunct is false: `close_position` does not reject a
  closing amount of ZERO (`c.amount < p.amount` holds), so `ClosePosition { lp_asset: Some(0 LP) }` is accepted
  and stores a CLOSED POSITION OF AMOUNT 0 under the next generated identifier, leaving the original position
  untouched.  Kernel-checked counterexample: `PosTx.Cx.close_zero_counterexample` (`Proofs/PosTxCx.lean`) — a
  world satisfying `FmInv` with one open position "u-a" of 100 LP; `alice` sends
  `closePosition "u-a" (some ⟨lp, 0⟩)`; afterwards the positions are `[⟨"p-1", amount 0, closed⟩, ⟨"u-a", amount 100,
  open⟩]`, so neither disjunct of the original conclusion holds.  (Finding: zero-amount positions can be created;
  each one counts towards the owner's MAX_POSITIONS_LIMIT of closed positions.)

  REPAIR: `close_position_tx_effect_general` proves the statement with that conjunct replaced by
  `∃ c, lp = some c ∧ part.amount = c.amount`; `close_position_tx_effect_partial` is the original statement under
  the added hypothesis `hnz` (a closing amount, if given, is not zero).  `hu` turned out to be unnecessary and is
  dropped in both; `hinv` is needed (freshness of the generated identifier).
-/

theorem close_position_tx_effect_general (w w' : World) (u : Addr) (id : String) (lp : Option Coin) (funds : List Coin)
    (k : Option Nat) (p : Position) (hinv : C05Sys.FmInv w)
    (hp : w.fm.getPosition id = some p)
    (h : runTx w (.exec u FM (.fm (.closePosition id lp)) funds) k = .ok w') :
    funds = [] ∧ p.receiver = u ∧ p.open_ = true ∧
    (∀ a d, w'.bank.bal a d = w.bank.bal a d) ∧ w'.pm = w.pm ∧ w'.fm.farms = w.fm.farms ∧
    (∀ q ∈ w.fm.positions, q.id ≠ id → q ∈ w'.fm.positions) ∧
    ((∃ p', w'.fm.getPosition id = some p' ∧ p'.open_ = false ∧ p'.amount = p.amount ∧ p'.receiver = u ∧
        p'.lpDenom = p.lpDenom ∧ p'.expiringAt = some ((w.nowNs + p.unlocking * NANOS) / NANOS) ∧
        (∀ q ∈ w'.fm.positions, q.id ≠ id → q ∈ w.fm.positions)) ∨
     (∃ rem part, w'.fm.getPosition id = some rem ∧ part ∈ w'.fm.positions ∧ (∀ q ∈ w.fm.positions, q.id ≠ part.id) ∧
        rem.open_ = true ∧ part.open_ = false ∧ rem.amount + part.amount = p.amount ∧
        (∃ c, lp = some c ∧ part.amount = c.amount) ∧ rem.amount ≠ 0 ∧
        rem.receiver = u ∧ part.receiver = u ∧ rem.lpDenom = p.lpDenom ∧ part.lpDenom = p.lpDenom ∧
        part.expiringAt = some ((w.nowNs + p.unlocking * NANOS) / NANOS) ∧
        (∀ q ∈ w'.fm.positions, q.id ≠ id → q = part ∨ q ∈ w.fm.positions))) :=
  PosTx.close_position_run hinv hp h

/-- PARTIAL: added `hnz` (a closing amount, if given, is not zero); dropped `hu` — see the comment above -/
theorem close_position_tx_effect_partial (w w' : World) (u : Addr) (id : String) (lp : Option Coin) (funds : List Coin)
    (k : Option Nat) (p : Position) (hinv : C05Sys.FmInv w)
    (hnz : ∀ c, lp = some c → c.amount ≠ 0)
    (hp : w.fm.getPosition id = some p)
    (h : runTx w (.exec u FM (.fm (.closePosition id lp)) funds) k = .ok w') :
    funds = [] ∧ p.receiver = u ∧ p.open_ = true ∧
    (∀ a d, w'.bank.bal a d = w.bank.bal a d) ∧ w'.pm = w.pm ∧ w'.fm.farms = w.fm.farms ∧
    (∀ q ∈ w.fm.positions, q.id ≠ id → q ∈ w'.fm.positions) ∧
    ((∃ p', w'.fm.getPosition id = some p' ∧ p'.open_ = false ∧ p'.amount = p.amount ∧ p'.receiver = u ∧
        p'.lpDenom = p.lpDenom ∧ p'.expiringAt = some ((w.nowNs + p.unlocking * NANOS) / NANOS) ∧
        (∀ q ∈ w'.fm.positions, q.id ≠ id → q ∈ w.fm.positions)) ∨
     (∃ rem part, w'.fm.getPosition id = some rem ∧ part ∈ w'.fm.positions ∧ (∀ q ∈ w.fm.positions, q.id ≠ part.id) ∧
        rem.open_ = true ∧ part.open_ = false ∧ rem.amount + part.amount = p.amount ∧ part.amount ≠ 0 ∧ rem.amount ≠ 0 ∧
        rem.receiver = u ∧ part.receiver = u ∧ rem.lpDenom = p.lpDenom ∧ part.lpDenom = p.lpDenom ∧
        part.expiringAt = some ((w.nowNs + p.unlocking * NANOS) / NANOS) ∧
        (∀ q ∈ w'.fm.positions, q.id ≠ id → q = part ∨ q ∈ w.fm.positions))) := by
  obtain ⟨h1, h2, h3, h4, h5, h6, h7, h8⟩ := PosTx.close_position_run hinv hp h
  refine ⟨h1, h2, h3, h4, h5, h6, h7, ?_⟩
  rcases h8 with hfull | ⟨rem, part, a1, a2, a3, a4, a5, a6, a7, a8, a9⟩
  · exact Or.inl hfull
  · refine Or.inr ⟨rem, part, a1, a2, a3, a4, a5, a6, ?_, a8, a9⟩
    obtain ⟨c, hc, hpc⟩ := a7
    rw [hpc]
    exact hnz c hc

/-- (Dropped the unnecessary hypothesis `hu : isContract u = false`; of `hinv` only the distinctness of the farm
    identifiers is used.) -/
theorem claim_tx_effect (w w' : World) (u : Addr) (un : Option Nat) (funds : List Coin) (k : Option Nat)
    (hinv : C05Sys.FmInv w)
    (h : runTx w (.exec u FM (.fm (.claim un)) funds) k = .ok w') :
    funds = [] ∧ w'.fm.positions = w.fm.positions ∧ w'.pm = w.pm ∧
    ∀ a d, (w'.bank.bal a d : Int) = (w.bank.bal a d : Int)
      + at_ (a = u) ((C06Sys.sumRewards ((C06Sys.claimEntries w.fm w.fmEnv u un).filter (·.denom == d)) : Nat) : Int)
      - at_ (a = FM) ((C06Sys.sumRewards ((C06Sys.claimEntries w.fm w.fmEnv u un).filter (·.denom == d)) : Nat) : Int) := by
  obtain ⟨hf, hpos, hpm, agg, mv, hsum⟩ := PosTx.claim_run hinv.farmNodup h
  refine ⟨hf, hpos, hpm, ?_⟩
  intro a d
  have e := mv.bal a d
  rw [hsum d] at e
  unfold at_
  simp only at e
  generalize C06Sys.sumRewards ((C06Sys.claimEntries w.fm w.fmEnv u un).filter (·.denom == d)) = S at *
  by_cases c1 : a = u <;> by_cases c2 : a = FM <;>
    (try simp only [if_pos c1] at e ⊢) <;> (try simp only [if_neg c1] at e ⊢) <;>
    (try simp only [if_pos c2] at e ⊢) <;> (try simp only [if_neg c2] at e ⊢) <;> omega

end MantraDex.C08Tx
