/-
  C10 — LP weights: the total covers the sum of users' weights; the weight curve is sane.

  Part 1 (this section): the weight curve `calculateWeight` (position/helpers.rs), for every amount
  and every duration the code accepts: weight ≥ amount, ≤ 16·amount, monotone in amount and in
  duration, super-additive in the amount at a fixed duration (the fact behind finding F-07).
  Part 2 (total vs users, "takes effect next epoch") is in `Properties/C10Hist.lean` over the
  farm-manager state machine.
-/
import MantraDex.Model.FarmMath
import MantraDex.Proofs.NumLemmas

namespace MantraDex.C10
open MantraDex

/-- the multiplier as a plain function (what `weightMultiplier` returns when nothing overflows) -/
def mulOf (d : Nat) : Nat :=
  d * ONE18 * (d * ONE18) / ONE18 * C.WEIGHT_C2_NUM / ONE18 * ONE18 / C.WEIGHT_C2_DEN +
  d * ONE18 * C.WEIGHT_C1_NUM / ONE18 * ONE18 / C.WEIGHT_C1_DEN +
  C.WEIGHT_C0_NUM * ONE18 / C.WEIGHT_C0_DEN

theorem weightMultiplier_eq (d m : Nat) (h : weightMultiplier d = .ok m) : m = mulOf d := by
  unfold weightMultiplier weightParts at h
  simp only [bind_ok, fit_ok, decPow2, decMul_ok, decDiv_ok, decFromRatio_ok, ckAdd_ok, pure_ok,
    orPanic_ok] at h
  obtain ⟨⟨a, b, c⟩, ⟨durDec, ⟨_, rfl⟩, sq, ⟨_, rfl⟩, mul, ⟨_, rfl⟩, part, ⟨_, _, rfl⟩,
    nm, ⟨_, rfl⟩, nxt, ⟨_, _, rfl⟩, fin, ⟨_, _, rfl⟩, habc⟩, s, ⟨_, rfl⟩, _, rfl⟩ := h
  simp only [Prod.mk.injEq] at habc
  obtain ⟨rfl, rfl, rfl⟩ := habc
  rfl

theorem mulOf_mono {d d' : Nat} (h : d ≤ d') : mulOf d ≤ mulOf d' := by
  unfold mulOf
  have h1 : d * ONE18 ≤ d' * ONE18 := Nat.mul_le_mul_right _ h
  apply Nat.add_le_add_right
  apply Nat.add_le_add
  · apply Nat.div_le_div_right
    apply Nat.mul_le_mul_right
    apply Nat.div_le_div_right
    apply Nat.mul_le_mul_right
    apply Nat.div_le_div_right
    exact Nat.mul_le_mul h1 h1
  · apply Nat.div_le_div_right
    apply Nat.mul_le_mul_right
    apply Nat.div_le_div_right
    exact Nat.mul_le_mul_right _ h1

/-- at one year the multiplier is (just under) 16 — evaluated from the generated coefficients -/
theorem mulOf_year_le_16 : mulOf C.SECONDS_IN_YEAR ≤ 16 * ONE18 := by decide

/-- characterisation of an accepted weight computation -/
theorem calculateWeight_ok {a d w : Nat} (h : calculateWeight a d = .ok w) :
    C.SECONDS_IN_DAY ≤ d ∧ d ≤ C.SECONDS_IN_YEAR ∧ w = max (a * mulOf d / ONE18) a := by
  unfold calculateWeight at h
  split at h
  next => simp at h
  next hr =>
    simp only [Bool.or_eq_true, decide_eq_true_eq, not_or, Nat.not_lt] at hr
    simp only [bind_ok, fit_ok, decMul_ok, pure_ok] at h
    obtain ⟨amt, ⟨_, rfl⟩, m, hm, prod, ⟨_, rfl⟩, w', ⟨_, rfl⟩, rfl⟩ := h
    have := weightMultiplier_eq _ _ hm
    subst this
    refine ⟨hr.1, hr.2, ?_⟩
    congr 1
    rw [Nat.mul_assoc, Nat.mul_comm ONE18, ← Nat.mul_assoc, Nat.mul_div_cancel _ ONE18_pos]

/-- weight ≥ amount -/
theorem weight_ge_amount {a d w : Nat} (h : calculateWeight a d = .ok w) : a ≤ w := by
  obtain ⟨_, _, rfl⟩ := calculateWeight_ok h
  exact Nat.le_max_right _ _

/-- weight ≤ 16 × amount -/
theorem weight_le_16x {a d w : Nat} (h : calculateWeight a d = .ok w) : w ≤ 16 * a := by
  obtain ⟨_, hd, rfl⟩ := calculateWeight_ok h
  have hm : mulOf d ≤ 16 * ONE18 := Nat.le_trans (mulOf_mono hd) mulOf_year_le_16
  apply Nat.max_le.2
  constructor
  · calc a * mulOf d / ONE18 ≤ a * (16 * ONE18) / ONE18 :=
          Nat.div_le_div_right (Nat.mul_le_mul_left _ hm)
      _ = 16 * a := by
          rw [← Nat.mul_assoc, Nat.mul_div_cancel _ ONE18_pos, Nat.mul_comm]
  · exact Nat.le_mul_of_pos_left _ (by decide)

/-- non-decreasing in the amount -/
theorem weight_mono_amount {a a' d w w' : Nat} (hle : a ≤ a')
    (h : calculateWeight a d = .ok w) (h' : calculateWeight a' d = .ok w') : w ≤ w' := by
  obtain ⟨_, _, rfl⟩ := calculateWeight_ok h
  obtain ⟨_, _, rfl⟩ := calculateWeight_ok h'
  have : a * mulOf d / ONE18 ≤ a' * mulOf d / ONE18 :=
    Nat.div_le_div_right (Nat.mul_le_mul_right _ hle)
  exact Nat.max_le.2 ⟨Nat.le_trans this (Nat.le_max_left _ _), Nat.le_trans hle (Nat.le_max_right _ _)⟩

/-- non-decreasing in the unlocking duration -/
theorem weight_mono_duration {a d d' w w' : Nat} (hle : d ≤ d')
    (h : calculateWeight a d = .ok w) (h' : calculateWeight a d' = .ok w') : w ≤ w' := by
  obtain ⟨_, _, rfl⟩ := calculateWeight_ok h
  obtain ⟨_, _, rfl⟩ := calculateWeight_ok h'
  have : a * mulOf d / ONE18 ≤ a * mulOf d' / ONE18 :=
    Nat.div_le_div_right (Nat.mul_le_mul_left _ (mulOf_mono hle))
  exact Nat.max_le.2 ⟨Nat.le_trans this (Nat.le_max_left _ _), Nat.le_max_right _ _⟩

/-- super-additive in the amount at a fixed duration: w(a) + w(b) ≤ w(a+b).  (Strict whenever the
    fractional parts add up to ≥ 1: a position filled in pieces has *less* recorded weight than the
    same position filled at once — the source of F-07.) -/
theorem weight_superadditive {a b d wa wb wab : Nat}
    (ha : calculateWeight a d = .ok wa) (hb : calculateWeight b d = .ok wb)
    (hab : calculateWeight (a + b) d = .ok wab) : wa + wb ≤ wab := by
  obtain ⟨_, _, rfl⟩ := calculateWeight_ok ha
  obtain ⟨_, _, rfl⟩ := calculateWeight_ok hb
  obtain ⟨_, _, rfl⟩ := calculateWeight_ok hab
  generalize mulOf d = M
  have hsum : a * M / ONE18 + b * M / ONE18 ≤ (a + b) * M / ONE18 := by
    rw [Nat.add_mul]; exact div_add_div_le _ _ _
  -- the clamp `max · amount` applies to all three or to none, depending only on the multiplier
  by_cases hM : ONE18 ≤ M
  · have l (x : Nat) : x ≤ x * M / ONE18 := le_mul_div_of_le ONE18_pos hM
    rw [Nat.max_eq_left (l a), Nat.max_eq_left (l b), Nat.max_eq_left (l (a + b))]
    exact hsum
  · have hM' : M ≤ ONE18 := Nat.le_of_lt (Nat.lt_of_not_le hM)
    have u (x : Nat) : x * M / ONE18 ≤ x := mul_div_le_of_le hM'
    rw [Nat.max_eq_right (u a), Nat.max_eq_right (u b), Nat.max_eq_right (u (a + b))]
    exact Nat.le_refl _

/-- the curve's anchor points, from the generated coefficients: 1x at one day (clamped), 16x at
    one year -/
theorem curve_anchor_points :
    mulOf C.SECONDS_IN_DAY ≤ ONE18 ∧ ONE18 - 2 ≤ mulOf C.SECONDS_IN_DAY ∧
    16 * ONE18 - 2 ≤ mulOf C.SECONDS_IN_YEAR := by decide

/-! Non-vacuity: concrete accepted computations. -/
example : calculateWeight 1000 86400 = .ok 1000 := by decide
example : calculateWeight 1000 31556926 = .ok 15999 := by decide
example : calculateWeight 3 15778463 = .ok 14 := by decide
-- strict super-additivity at a fractional multiplier (≈ 5x at half a year): 4 + 4 < 9
example : calculateWeight 1 15778463 = .ok 4 ∧ calculateWeight 2 15778463 = .ok 9 := by decide

end MantraDex.C10
