/-
  C03 — Swaps never reduce pool value; no sequence of swaps is profitable.

  Constant product (full): x·y never decreases through `compute_swap` / `perform_swap`, for every
  reserve, offer and fee setting (incl. zero fees); a swap-and-swap-back round trip on a pool never
  returns more than was put in.
  Stableswap: the statement is FALSE for the code as it is (finding F-03: the output is rounded up);
  `ss_swap_D_witness` proves the negation on a concrete input; the exact-invariant monitor
  (`Model/SsMon.lean`) classifies every observed decrease.
-/
import MantraDex.Model.System
import MantraDex.Model.SsMon
import MantraDex.Proofs.NumLemmas
import MantraDex.Proofs.SwapLemmas
import MantraDex.Properties.C04

set_option linter.unusedSimpArgs false

namespace MantraDex.C03
open MantraDex

/-- gross output of a constant-product swap: ⌊Y·o / (X + o)⌋, split into net + fees -/
theorem cp_gross_formula {p : PoolInfo} {X Y o : Nat} {c : SwapComputation}
    (h : computeSwapCP p X Y o = .ok c) :
    c.ret + c.swapFee + c.protocolFee + c.burnFee + c.extraFees = Y * o / (X + o) := by
  obtain ⟨_, slip, fc, _, hc⟩ := computeSwapCP_inv h
  exact getSwapComputation_sum hc

/-- the arithmetic core: if at most ⌊Y·o/(X+o)⌋ leaves the ask reserve, x·y does not decrease -/
theorem cp_k_arith {X Y o out : Nat} (hog : out ≤ Y * o / (X + o)) :
    out ≤ Y ∧ X * Y ≤ (X + o) * (Y - out) := by
  have hgY : Y * o / (X + o) ≤ Y := mul_div_le_of_le (Nat.le_add_left o X)
  have h1 : (X + o) * (Y * o / (X + o)) ≤ Y * o := Nat.mul_div_le _ _
  generalize Y * o / (X + o) = g at hog hgY h1
  refine ⟨Nat.le_trans hog hgY, ?_⟩
  have h2 : (X + o) * Y = X * Y + Y * o := by rw [Nat.add_mul, Nat.mul_comm o Y]
  calc X * Y = (X + o) * Y - Y * o := by omega
    _ ≤ (X + o) * Y - (X + o) * g := Nat.sub_le_sub_left h1 _
    _ = (X + o) * (Y - g) := (Nat.mul_sub _ _ _).symm
    _ ≤ (X + o) * (Y - out) := Nat.mul_le_mul_left _ (by omega)

/-- x·y never decreases: what leaves the ask reserve (net + protocol + burn) is at most the gross
    output ⌊Y·o/(X+o)⌋, hence (X+o)·(Y − out) ≥ X·Y — for every fee setting, including zero fees -/
theorem cp_swap_k_mono {p : PoolInfo} {X Y o : Nat} {c : SwapComputation}
    (h : computeSwapCP p X Y o = .ok c) :
    c.ret + c.protocolFee + c.burnFee ≤ Y ∧
    X * Y ≤ (X + o) * (Y - (c.ret + c.protocolFee + c.burnFee)) := by
  have hg := cp_gross_formula h
  have hog : c.ret + c.protocolFee + c.burnFee ≤ Y * o / (X + o) := by omega
  exact cp_k_arith hog

/-- `get_asset_indexes_in_pool` on a two-asset pool: the two indexes are 0/1 or 1/0 and the coins
    are the stored reserves -/
theorem getAssetIndexes_two {pool : PoolInfo} {x y : Nat} {d0 d1 od ad : Denom}
    {oc ac : Coin} {oi ai odc adc : Nat}
    (hassets : pool.assets = [⟨d0, x⟩, ⟨d1, y⟩])
    (h : getAssetIndexes pool od ad = .ok (oc, ac, oi, ai, odc, adc)) :
    (oi = 0 ∧ ai = 1 ∧ oc = ⟨d0, x⟩ ∧ ac = ⟨d1, y⟩) ∨ (oi = 1 ∧ ai = 0 ∧ oc = ⟨d1, y⟩ ∧ ac = ⟨d0, x⟩) := by
  unfold getAssetIndexes at h
  rw [hassets] at h
  simp only [findIdx] at h
  by_cases h0 : (d0 == od) = true <;> by_cases h1 : (d0 == ad) = true <;>
    by_cases h2 : (d1 == od) = true <;> by_cases h3 : (d1 == ad) = true <;>
    simp [h0, h1, h2, h3, bind, Except.bind, getD?, pure, Except.pure] at h
  all_goals
    cases hd0 : pool.decimals[0]? <;> cases hd1 : pool.decimals[1]? <;>
      simp only [hd0, hd1, reduceCtorEq, Except.ok.injEq, Prod.mk.injEq] at h
  all_goals
    obtain ⟨rfl, rfl, rfl, rfl, -, -⟩ := h
    simp

/-- the same at the handler level: after `perform_swap` on a two-asset constant-product pool the
    product of the two stored reserves is at least what it was -/
theorem performSwap_k_mono {s s' : PmState} {offer : Coin} {ask : Denom} {pid : String}
    {b ms : Option Nat} {r : SwapResult} {pool : PoolInfo} {x y : Nat} {d0 d1 : Denom}
    (hp : s.getPool pid = .ok pool) (hcp : pool.ptype = .cp)
    (hassets : pool.assets = [⟨d0, x⟩, ⟨d1, y⟩]) (hd : d0 ≠ d1)
    (h : performSwap s offer ask pid b ms = .ok (s', r)) :
    ∃ x' y', r.pool.assets = [⟨d0, x'⟩, ⟨d1, y'⟩] ∧ x * y ≤ x' * y' := by
  have _ := hd
  unfold performSwap at h
  simp only [bind_ok, pure_ok, hp, Except.ok.injEq, exists_eq_left'] at h
  obtain ⟨⟨oc, ac, oi, ai, odc, adc⟩, hidx, c, hcs, _, _, oc', hoc', newOffer, hno, outgoing, hout,
    ac', hac', a1, ha1, a2, ha2, hr⟩ := h
  unfold computeSwap at hcs
  simp only [bind_ok, hidx, Except.ok.injEq, exists_eq_left', hcp] at hcs
  obtain ⟨-, hk⟩ := cp_swap_k_mono hcs
  simp only [Prod.mk.injEq] at hr
  obtain ⟨-, rfl⟩ := hr
  simp only [hassets, ckAdd_ok, ckSub_ok] at hoc' hno hout hac' ha1 ha2 hk ⊢
  obtain ⟨-, rfl⟩ := hno
  obtain ⟨-, rfl⟩ := hout
  obtain ⟨-, rfl⟩ := ha1
  obtain ⟨-, rfl⟩ := ha2
  rcases getAssetIndexes_two hassets hidx with ⟨rfl, rfl, rfl, rfl⟩ | ⟨rfl, rfl, rfl, rfl⟩
  · simp [getD?, setAmount, List.zipIdx] at hoc' hac' hk ⊢
    subst hoc' hac'
    refine ⟨_, _, ⟨rfl, rfl⟩, ?_⟩
    simp only [Nat.sub_sub, ← Nat.add_assoc]
    exact hk
  · simp [getD?, setAmount, List.zipIdx] at hoc' hac' hk ⊢
    subst hoc' hac'
    refine ⟨_, _, ⟨rfl, rfl⟩, ?_⟩
    simp only [Nat.sub_sub, ← Nat.add_assoc]
    rw [Nat.mul_comm x y, Nat.mul_comm _ (y + offer.amount)]
    exact hk

/-- swap o of A for B, then swap the proceeds back (any fee settings, the pool may have been moved
    by the first swap only): the trader gets back at most o -/
theorem cp_round_trip_no_profit {p : PoolInfo} {X Y o : Nat} {c1 c2 : SwapComputation}
    (hX : 0 < X) (hY : 0 < Y)
    (h1 : computeSwapCP p X Y o = .ok c1)
    (h2 : computeSwapCP p (Y - (c1.ret + c1.protocolFee + c1.burnFee)) (X + o) c1.ret = .ok c2) :
    c2.ret ≤ o := by
  obtain ⟨ho1, hk1⟩ := cp_swap_k_mono h1
  obtain ⟨ho2, hk2⟩ := cp_swap_k_mono h2
  have hr1 : c1.ret ≤ c1.ret + c1.protocolFee + c1.burnFee := by omega
  generalize c1.ret + c1.protocolFee + c1.burnFee = out1 at *
  apply Nat.le_of_not_lt
  intro hlt
  have hA : Y - out1 + c1.ret ≤ Y := by omega
  have hB : X + o - (c2.ret + c2.protocolFee + c2.burnFee) ≤ X - 1 := by omega
  have hchain : X * Y ≤ Y * (X - 1) :=
    calc X * Y ≤ (X + o) * (Y - out1) := hk1
      _ = (Y - out1) * (X + o) := Nat.mul_comm _ _
      _ ≤ (Y - out1 + c1.ret) * (X + o - (c2.ret + c2.protocolFee + c2.burnFee)) := hk2
      _ ≤ Y * (X - 1) := Nat.mul_le_mul hA hB
  rw [Nat.mul_sub, Nat.mul_one, Nat.mul_comm Y X] at hchain
  have : Y ≤ X * Y := Nat.le_mul_of_pos_left _ hX
  omega

/-- F-03 witness: a 6/6-decimals pool 10^12 / 10^12, amp 100, zero fees, offer 10^6: the contract
    returns 1 000 000 although the exact output is 999 999.99…, so the exact invariant decreases.
    (Evaluated by the kernel on the model of the code.) -/
def witnessPool : PoolInfo :=
  { id := "o.w", denoms := ["a", "b"], lpDenom := "factory/pm/o.w.LP", decimals := [6, 6],
    assets := [⟨"a", 1000000000000⟩, ⟨"b", 1000000000000⟩], ptype := .stable 100,
    fees := ⟨0, 0, 0, []⟩, status := {} }

set_option maxRecDepth 100000 in
theorem ss_swap_D_witness :
    (computeSwap witnessPool ⟨"a", 1000000⟩ "b").toOption.map (·.ret) = some 1000000 ∧
    Spec.dFloorScaled 200 [1000001000000, 999999000000] 1000000 <
      Spec.dFloorScaled 200 [1000000000000, 1000000000000] 1000000 := by
  decide +kernel

end MantraDex.C03
