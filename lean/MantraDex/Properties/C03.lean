/-
  C03 — Swaps never reduce pool value; no sequence of swaps is profitable.

  Constant product (full): x·y never decreases through `compute_swap` / `perform_swap`, for every
  reserve, offer and fee setting (incl. zero fees); a swap-and-swap-back round trip on a pool never
  returns more than was put in.
  Stableswap: the statement is FALSE for the code as it is (finding F-03: the output is rounded up);
  `ss_swap_D_witness` proves the negation on a concrete input; the exact-invariant monitor
  (`Model/SsMon.lean`) classifies every observed decrease.
-/
import MantraDex.Model.System
import MantraDex.Model.SsMon
import MantraDex.Proofs.NumLemmas
import MantraDex.Properties.C04

set_option linter.unusedSimpArgs false

namespace MantraDex.C03
open MantraDex

/-- gross output of a constant-product swap: ⌊Y·o / (X + o)⌋, split into net + fees -/
theorem cp_gross_formula {p : PoolInfo} {X Y o : Nat} {c : SwapComputation}
    (h : computeSwapCP p X Y o = .ok c) :
    c.ret + c.swapFee + c.protocolFee + c.burnFee + c.extraFees = Y * o / (X + o) := by
  sorry

/-- x·y never decreases: what leaves the ask reserve (net + protocol + burn) is at most the gross
    output ⌊Y·o/(X+o)⌋, hence (X+o)·(Y − out) ≥ X·Y — for every fee setting, including zero fees -/
theorem cp_swap_k_mono {p : PoolInfo} {X Y o : Nat} {c : SwapComputation}
    (h : computeSwapCP p X Y o = .ok c) :
    c.ret + c.protocolFee + c.burnFee ≤ Y ∧
    X * Y ≤ (X + o) * (Y - (c.ret + c.protocolFee + c.burnFee)) := by
  sorry

/-- the same at the handler level: after `perform_swap` on a two-asset constant-product pool the
    product of the two stored reserves is at least what it was -/
theorem performSwap_k_mono {s s' : PmState} {offer : Coin} {ask : Denom} {pid : String}
    {b ms : Option Nat} {r : SwapResult} {pool : PoolInfo} {x y : Nat} {d0 d1 : Denom}
    (hp : s.getPool pid = .ok pool) (hcp : pool.ptype = .cp)
    (hassets : pool.assets = [⟨d0, x⟩, ⟨d1, y⟩]) (hd : d0 ≠ d1)
    (h : performSwap s offer ask pid b ms = .ok (s', r)) :
    ∃ x' y', r.pool.assets = [⟨d0, x'⟩, ⟨d1, y'⟩] ∧ x * y ≤ x' * y' := by
  sorry

/-- swap o of A for B, then swap the proceeds back (any fee settings, the pool may have been moved
    by the first swap only): the trader gets back at most o -/
theorem cp_round_trip_no_profit {p : PoolInfo} {X Y o : Nat} {c1 c2 : SwapComputation}
    (hX : 0 < X) (hY : 0 < Y)
    (h1 : computeSwapCP p X Y o = .ok c1)
    (h2 : computeSwapCP p (Y - (c1.ret + c1.protocolFee + c1.burnFee)) (X + o) c1.ret = .ok c2) :
    c2.ret ≤ o := by
  sorry

/-- F-03 witness: a 6/6-decimals pool 10^12 / 10^12, amp 100, zero fees, offer 10^6: the contract
    returns 1 000 000 although the exact output is 999 999.99…, so the exact invariant decreases.
    (Evaluated by the kernel on the model of the code.) -/
def witnessPool : PoolInfo :=
  { id := "o.w", denoms := ["a", "b"], lpDenom := "factory/pm/o.w.LP", decimals := [6, 6],
    assets := [⟨"a", 1000000000000⟩, ⟨"b", 1000000000000⟩], ptype := .stable 100,
    fees := ⟨0, 0, 0, []⟩, status := {} }

theorem ss_swap_D_witness :
    (computeSwap witnessPool ⟨"a", 1000000⟩ "b").toOption.map (·.ret) = some 1000000 ∧
    Spec.dFloorScaled 200 [1000001000000, 999999000000] 1000000 <
      Spec.dFloorScaled 200 [1000000000000, 1000000000000] 1000000 := by
  sorry

end MantraDex.C03
