/-
  C20 / C11 / C13 at the level of whole transactions:

    * `create_farm_autoclose_tx_effect_partial`: an accepted `CreateFarm` (sender ≠ farm manager) that closes expired farms of the LP token on the way
      (no injected fault): every closed farm's owner is refunded exactly its unclaimed remainder, the new farm is
      funded exactly, the fee goes to the collector, nothing else moves; the expired farms are gone, the others kept;
    * `create_farm_refund_failure_accepted` / `create_farm_refund_failure_tolerated_partial`: the same transaction in
      which ONE of those refunds is made to fail (fault position = that refund's bank call) is STILL accepted, and
      (sender ≠ farm manager) its result differs from the fault-free run only by that one missing refund (the tokens
      stay in the farm manager) — the failure "neither blocks the close nor affects any other farm, position or
      balance";
    * `close_farm_refund_failure_tolerated`: the same for a manual `CloseFarm`;
    * `swap_tx_belief_price`: an accepted `Swap` with a belief price returned at least
      floor(offer / belief_price) × (1 − min(max_slippage or 1 %, 50 %)).

  Two statements needed the extra hypothesis `u ≠ FM` (the sender is not the farm manager itself — implied by
  `C05Sys.External`): see `create_farm_autoclose_tx_effect_counterexample` and
  `create_farm_refund_failure_tolerated_counterexample` (kernel-checked executions in `Proofs/RefundTxCx.lean`).
-/
import MantraDex.Model.System
import MantraDex.Proofs.NumLemmas
import MantraDex.Proofs.BankLemmas
import MantraDex.Properties.C11Sys
import MantraDex.Properties.C12Sys
import MantraDex.Properties.C13
import MantraDex.Properties.C20
import MantraDex.Proofs.RefundTxSwap
import MantraDex.Proofs.RefundTxTree
import MantraDex.Proofs.RefundTxCx

set_option linter.unusedSimpArgs false
set_option linter.unusedVariables false

namespace MantraDex.C20Tx
open MantraDex

def at_ (c : Prop) [Decidable c] (x : Int) : Int := if c then x else 0
def amt (c : Coin) (d : Denom) : Int := if c.denom = d then (c.amount : Int) else 0
def sumInt (xs : List Int) : Int := xs.foldl (· + ·) 0

/-- the farms of the LP token that `create_farm` closes: those it reads (`farmsByLp`) and finds expired -/
def expiredOf (w : World) (lp : Denom) : List Farm :=
  (w.fm.farmsByLp lp w.fm.config.maxConcurrentFarms).filter fun f =>
    match isFarmExpiredOrFalse w.fm w.fmEnv f with | .ok b => b | .error _ => false

/-- the refund of a closed farm, as a balance change of account `a` in denom `d` -/
def refundEffect (a : Addr) (d : Denom) (f : Farm) : Int :=
  at_ (d = f.assetDenom ∧ a = f.owner) ((f.assetAmount - f.claimed : Nat) : Int)
  - at_ (d = f.assetDenom ∧ a = FM) ((f.assetAmount - f.claimed : Nat) : Int)

theorem expiredOf_eq (w : World) (p : FarmParams) : expiredOf w p.lpDenom = RefundTx.expiredL w.fm w.fmEnv p := rfl

theorem refundEffect_eq (a : Addr) (d : Denom) : refundEffect a d = RefundTx.refundEff a d := rfl

/- ORIGINAL STATEMENT (false for `u = FM`, see below):

theorem create_farm_autoclose_tx_effect (w w' : World) (u : Addr) (p : FarmParams) (funds : List Coin)
    (hinv : C05Sys.FmInv w)
    (h : runTx w (.exec u FM (.fm (.createFarm p)) funds) = .ok w') :
    (∃ f, f ∈ w'.fm.farms ∧ f.owner = u ∧ f.lpDenom = p.lpDenom ∧ f.assetDenom = p.asset.denom ∧
      f.assetAmount = p.asset.amount ∧ f.claimed = 0 ∧
      (∀ g ∈ w.fm.farms, g ∉ expiredOf w p.lpDenom → g.id ≠ f.id → g ∈ w'.fm.farms) ∧
      (∀ g ∈ w'.fm.farms, g = f ∨ (g ∈ w.fm.farms ∧ g ∉ expiredOf w p.lpDenom))) ∧
    w'.fm.positions = w.fm.positions ∧ w'.pm = w.pm ∧
    ∀ a d, (w'.bank.bal a d : Int) = (w.bank.bal a d : Int)
      - at_ (a = u) (amt p.asset d + amt w.fm.config.createFarmFee d)
      + at_ (a = FM) (amt p.asset d)
      + at_ (a = w.fm.config.feeCollector) (amt w.fm.config.createFarmFee d)
      + sumInt ((expiredOf w p.lpDenom).map (refundEffect a d))

  Refuting execution (sender = the farm manager itself, which `C05Sys.External` excludes but the statement did
  not): let `u = FM`, fee collector `fc ≠ FM`, creation fee `E > 0` in denom `x`, reward `A` in the same denom,
  `funds = [⟨x, A + E⟩]`; the farm manager holds exactly `R ≥ A + E` of `x`, all of it owed to ONE expired farm `g`
  of the LP token (remainder `R`, owner `o ∉ {FM, fc}`), no positions, no other farm: `FmInv w` holds (custody is
  tight).  Run: the funds transfer FM → FM succeeds and changes nothing; the handler closes `g` and answers
  [fee → `fc`, refund `R` → `o` (reply on error)]; the fee message takes `E` from the farm manager, which now holds
  `R − E < R`; the refund fails for lack of funds, the failure is caught by the reply handler, the transaction is
  accepted.  `o` received nothing, whereas the formula claims `+R` for `(o, x)`.  With an external creator the
  reward stays in the farm manager and the fee is paid out of the attached funds, so the balance never drops
  below the old liabilities and every refund is covered — hence the added hypothesis `hu : u ≠ FM`. -/

/-- the original statement of `create_farm_autoclose_tx_effect` (without `u ≠ FM`) is false: kernel-checked
    execution `RefundTx.cx1_run` in the world `RefundTx.cxW1` (the scenario described above with `R = 5000`,
    `A = 1000`, `E = 100`) -/
theorem create_farm_autoclose_tx_effect_counterexample :
    ¬ (∀ (w w' : World) (u : Addr) (p : FarmParams) (funds : List Coin), C05Sys.FmInv w →
        runTx w (.exec u FM (.fm (.createFarm p)) funds) = .ok w' →
        (∃ f, f ∈ w'.fm.farms ∧ f.owner = u ∧ f.lpDenom = p.lpDenom ∧ f.assetDenom = p.asset.denom ∧
          f.assetAmount = p.asset.amount ∧ f.claimed = 0 ∧
          (∀ g ∈ w.fm.farms, g ∉ expiredOf w p.lpDenom → g.id ≠ f.id → g ∈ w'.fm.farms) ∧
          (∀ g ∈ w'.fm.farms, g = f ∨ (g ∈ w.fm.farms ∧ g ∉ expiredOf w p.lpDenom))) ∧
        w'.fm.positions = w.fm.positions ∧ w'.pm = w.pm ∧
        ∀ a d, (w'.bank.bal a d : Int) = (w.bank.bal a d : Int)
          - at_ (a = u) (amt p.asset d + amt w.fm.config.createFarmFee d)
          + at_ (a = FM) (amt p.asset d)
          + at_ (a = w.fm.config.feeCollector) (amt w.fm.config.createFarmFee d)
          + sumInt ((expiredOf w p.lpDenom).map (refundEffect a d))) := by
  intro H
  have hrun := RefundTx.cx1_run
  cases hr : runTx RefundTx.cxW1 RefundTx.cxTx with
  | error e => rw [hr] at hrun; cases hrun
  | ok w' =>
    rw [hr] at hrun
    have hbal : w'.bank.bal "olga" "uom" = 0 := by simpa [Except.toOption] using hrun
    obtain ⟨-, -, -, hb⟩ := H RefundTx.cxW1 w' "fm" RefundTx.cxP [⟨"uom", 1100⟩] RefundTx.cx1_inv hr
    have e := hb "olga" "uom"
    rw [expiredOf_eq, RefundTx.cx1_expired, hbal] at e
    revert e
    decide

/-- `create_farm_autoclose_tx_effect` with the ADDED hypothesis `hu : u ≠ FM` (the creator is not the farm manager
    itself; implied by `C05Sys.External`, i.e. `isContract u = false`).  Needed: a creation "by the farm manager"
    pays the fee out of the tokens that back the closed farms, so a refund can fail for lack of funds in the
    fault-free run (execution described above). -/
theorem create_farm_autoclose_tx_effect_partial (w w' : World) (u : Addr) (p : FarmParams) (funds : List Coin)
    (hu : u ≠ FM) (hinv : C05Sys.FmInv w)
    (h : runTx w (.exec u FM (.fm (.createFarm p)) funds) = .ok w') :
    (∃ f, f ∈ w'.fm.farms ∧ f.owner = u ∧ f.lpDenom = p.lpDenom ∧ f.assetDenom = p.asset.denom ∧
      f.assetAmount = p.asset.amount ∧ f.claimed = 0 ∧
      (∀ g ∈ w.fm.farms, g ∉ expiredOf w p.lpDenom → g.id ≠ f.id → g ∈ w'.fm.farms) ∧
      (∀ g ∈ w'.fm.farms, g = f ∨ (g ∈ w.fm.farms ∧ g ∉ expiredOf w p.lpDenom))) ∧
    w'.fm.positions = w.fm.positions ∧ w'.pm = w.pm ∧
    ∀ a d, (w'.bank.bal a d : Int) = (w.bank.bal a d : Int)
      - at_ (a = u) (amt p.asset d + amt w.fm.config.createFarmFee d)
      + at_ (a = FM) (amt p.asset d)
      + at_ (a = w.fm.config.feeCollector) (amt w.fm.config.createFarmFee d)
      + sumInt ((expiredOf w p.lpDenom).map (refundEffect a d)) := by
  obtain ⟨⟨f, h1, h2, h3, h4, h5, h6, h7, h8⟩, hp, hpm, hb⟩ := RefundTx.autoclose_effect hu hinv h
  exact ⟨⟨f, h1, h2, h3, h4, h5, h6, fun g hg hng _ => h7 g hg hng, h8⟩, hp, hpm, hb⟩

/-- bank calls of a `CreateFarm` transaction that come BEFORE the refunds of the farms it closes: the funds transfer and
    the fee messages (refund of an overpaid fee, fee to the collector) -/
def callsBeforeRefunds (w : World) (u : Addr) (p : FarmParams) (funds : List Coin) : Nat :=
  (if funds.isEmpty then 0 else 1) +
  (if w.fm.config.createFarmFee.amount ≠ 0 then
    (match processFarmCreationFee w.fm.config u funds p.asset with | .ok l => l.length | .error _ => 0)
   else 0)

/-- an injected failure at one of the refunds of the auto-closed farms: the creation is STILL accepted (liveness).
    (Dropped the unnecessary hypothesis `hinv : C05Sys.FmInv w` of the original statement: once the funds transfer
    and the plain fee messages went through, every refund is either executed or tolerated.) -/
theorem create_farm_refund_failure_accepted (w w0' : World) (u : Addr) (p : FarmParams) (funds : List Coin) (k : Nat)
    (h0 : runTx w (.exec u FM (.fm (.createFarm p)) funds) = .ok w0')
    (hk : callsBeforeRefunds w u p funds < k) :
    ∃ wk', runTx w (.exec u FM (.fm (.createFarm p)) funds) (some k) = .ok wk' :=
  RefundTx.refund_failure_accepted h0 hk

/- ORIGINAL STATEMENT (false for `u = FM`, see below):

theorem create_farm_refund_failure_tolerated (w w0' wk' : World) (u : Addr) (p : FarmParams) (funds : List Coin)
    (k : Nat) (hinv : C05Sys.FmInv w)
    (h0 : runTx w (.exec u FM (.fm (.createFarm p)) funds) = .ok w0')
    (hk : runTx w (.exec u FM (.fm (.createFarm p)) funds) (some k) = .ok wk') :
    wk'.fm.farms = w0'.fm.farms ∧ wk'.fm.positions = w0'.fm.positions ∧ wk'.pm = w0'.pm ∧
    ((∀ a d, wk'.bank.bal a d = w0'.bank.bal a d) ∨
     ∃ g' ∈ expiredOf w p.lpDenom,
      ∀ a d, (wk'.bank.bal a d : Int) = (w0'.bank.bal a d : Int) - refundEffect a d g')

  Refuting execution (again the sender is the farm manager itself): `u = FM`, `fc ≠ FM`, fee `E > 0` and reward `A`
  in denom `x`, `funds = [⟨x, A + E⟩]`; two expired farms `g1`, `g2` of the LP token (in storage order) with
  remainders `R1`, `R2` in `x`, owners `o1 ≠ o2` (neither `FM` nor `fc`), `E ≤ min R1 R2`, `A + E ≤ R1 + R2`; the
  farm manager holds exactly `R1 + R2` of `x`; no positions, no other farm: `FmInv w` holds.
  Fault-free run: funds FM → FM (no effect), fee `E` → `fc` (balance `R1 + R2 − E`), refund `R1` → `o1` succeeds
  (`E ≤ R2`), refund `R2` → `o2` fails for lack of funds (`R2 − E < R2`) and is tolerated.
  Run with the fault at call 3 (the refund of `g1`): that refund is skipped, and now the refund `R2` → `o2`
  succeeds (`R2 ≤ R1 + R2 − E`).  The two results differ at `(o1, x)` by `−R1` AND at `(o2, x)` by `+R2`: neither equal
  nor "one refund missing".  With an external creator every refund of the fault-free run is covered
  (`create_farm_autoclose_tx_effect_partial`), and skipping one only leaves more — hence `hu : u ≠ FM`. -/

/-- the original statement of `create_farm_refund_failure_tolerated` (without `u ≠ FM`) is false: kernel-checked
    executions `RefundTx.cx2_run0` (no fault) and `RefundTx.cx2_run3` (fault at call 3) in the world
    `RefundTx.cxW2` (the scenario described above with `R1 = R2 = 3000`, `A = 1000`, `E = 100`) -/
theorem create_farm_refund_failure_tolerated_counterexample :
    ¬ (∀ (w w0' wk' : World) (u : Addr) (p : FarmParams) (funds : List Coin) (k : Nat), C05Sys.FmInv w →
        runTx w (.exec u FM (.fm (.createFarm p)) funds) = .ok w0' →
        runTx w (.exec u FM (.fm (.createFarm p)) funds) (some k) = .ok wk' →
        wk'.fm.farms = w0'.fm.farms ∧ wk'.fm.positions = w0'.fm.positions ∧ wk'.pm = w0'.pm ∧
        ((∀ a d, wk'.bank.bal a d = w0'.bank.bal a d) ∨
         ∃ g' ∈ expiredOf w p.lpDenom,
          ∀ a d, (wk'.bank.bal a d : Int) = (w0'.bank.bal a d : Int) - refundEffect a d g')) := by
  intro H
  have hrun0 := RefundTx.cx2_run0
  have hrun3 := RefundTx.cx2_run3
  cases hr0 : runTx RefundTx.cxW2 RefundTx.cxTx with
  | error e => rw [hr0] at hrun0; cases hrun0
  | ok w0' =>
  cases hr3 : runTx RefundTx.cxW2 RefundTx.cxTx (some 3) with
  | error e => rw [hr3] at hrun3; cases hrun3
  | ok wk' =>
    rw [hr0] at hrun0
    rw [hr3] at hrun3
    have h0 : w0'.bank.bal "olga" "uom" = 3000 ∧ w0'.bank.bal "oleg" "uom" = 0 := by
      simpa [Except.toOption] using hrun0
    have h3 : wk'.bank.bal "olga" "uom" = 0 ∧ wk'.bank.bal "oleg" "uom" = 3000 := by
      simpa [Except.toOption] using hrun3
    obtain ⟨-, -, -, hb⟩ := H RefundTx.cxW2 w0' wk' "fm" RefundTx.cxP [⟨"uom", 1100⟩] 3 RefundTx.cx2_inv hr0 hr3
    rcases hb with hb | ⟨g, hg, hb⟩
    · have := hb "olga" "uom"
      rw [h0.1, h3.1] at this
      cases this
    · rw [expiredOf_eq, RefundTx.cx2_expired] at hg
      simp only [List.mem_cons, List.not_mem_nil, or_false] at hg
      rcases hg with rfl | rfl
      · have e := hb "oleg" "uom"
        rw [h0.2, h3.2] at e
        revert e
        decide
      · have e := hb "olga" "uom"
        rw [h0.1, h3.1] at e
        revert e
        decide

/-- … and its result differs from the fault-free one by at most that one refund, whose tokens stay in the farm manager:
    no other farm, position or balance is affected.

    `create_farm_refund_failure_tolerated` with the ADDED hypothesis `hu : u ≠ FM` (implied by `C05Sys.External`);
    needed because a creation "by the farm manager" can make refunds of the fault-free run fail for lack of funds,
    and skipping an earlier refund then lets a later one succeed (execution described above).  (In fact the whole
    farm-manager state coincides, `wk'.fm = w0'.fm`: see `RefundTx.refund_failure_tolerated`.) -/
theorem create_farm_refund_failure_tolerated_partial (w w0' wk' : World) (u : Addr) (p : FarmParams)
    (funds : List Coin) (k : Nat) (hu : u ≠ FM) (hinv : C05Sys.FmInv w)
    (h0 : runTx w (.exec u FM (.fm (.createFarm p)) funds) = .ok w0')
    (hk : runTx w (.exec u FM (.fm (.createFarm p)) funds) (some k) = .ok wk') :
    wk'.fm.farms = w0'.fm.farms ∧ wk'.fm.positions = w0'.fm.positions ∧ wk'.pm = w0'.pm ∧
    ((∀ a d, wk'.bank.bal a d = w0'.bank.bal a d) ∨
     ∃ g' ∈ expiredOf w p.lpDenom,
      ∀ a d, (wk'.bank.bal a d : Int) = (w0'.bank.bal a d : Int) - refundEffect a d g') := by
  obtain ⟨hfm, hpm, hb⟩ := RefundTx.refund_failure_tolerated hu hinv h0 hk
  exact ⟨by rw [hfm], by rw [hfm], hpm, hb⟩

/-- any injected failure of a manual close's refund: the farm is closed all the same -/
theorem close_farm_refund_failure_tolerated (w : World) (u : Addr) (f : Farm) (k : Nat)
    (hinv : C05Sys.FmInv w) (hf : f ∈ w.fm.farms) (hauth : u = f.owner ∨ w.fm.owner.owner = some u) :
    ∃ wk', runTx w (.exec u FM (.fm (.closeFarm f.id)) []) (some k) = .ok wk' ∧
      (∀ g ∈ wk'.fm.farms, g.id ≠ f.id) ∧ wk'.fm.positions = w.fm.positions ∧ wk'.pm = w.pm :=
  RefundTx.close_farm_any_fault (some k) hinv.farmNodup hf hauth

/-- an accepted swap under a belief price returned at least the expected amount less the tolerance -/
theorem swap_tx_belief_price (w w' : World) (u : Addr) (offer : Coin) (ask : Denom) (bp : Nat) (ms : Option Nat)
    (recv : Option Addr) (pid : String) (k : Option Nat)
    (h : runTx w (.exec u PM (.pm (.swap ask (some bp) ms recv pid)) [offer]) k = .ok w') :
    ∃ c, querySimulation w.pm offer ask pid = .ok c ∧ bp ≠ 0 ∧
      (let expected := offer.amount * ONE18 * (ONE18 * ONE18 / bp) / ONE18 / ONE18
       expected ≤ c.ret ∨ (expected - c.ret) * ONE18 / expected ≤ C13.effTol ms) := by
  obtain ⟨s1, r, hps⟩ := QSys.swap_tx_performSwap h
  obtain ⟨pool, c, hp, hc, hams⟩ := QSys.performSwap_slippage hps
  obtain ⟨hbp, hb⟩ := RefundTx.belief_ok_bound hams
  refine ⟨c, ?_, hbp, hb⟩
  unfold querySimulation
  simp only [bind_ok]
  exact ⟨pool, hp, hc⟩

end MantraDex.C20Tx
