/-
  C11 through the runtime: the complete bank effect of farm transactions.  Creating a farm (when no
  expired farm has to be closed on the way) costs the creator exactly reward + fee, the farm manager keeps
  exactly the reward, the fee collector receives exactly the fee; expanding moves exactly the attached
  amount into the farm; closing refunds exactly the unclaimed remainder to the farm's owner and to nobody
  else — or, if that transfer fails (injected fault), moves nothing and still closes the farm.  And the
  per-LP farm limit holds in every reachable state.
-/
import MantraDex.Model.System
import MantraDex.Proofs.NumLemmas
import MantraDex.Proofs.BankLemmas
import MantraDex.Properties.C11
import MantraDex.Properties.C05Sys
import MantraDex.Proofs.FarmTxLemmas
import MantraDex.Proofs.FarmTxLimit
import MantraDex.Proofs.FarmTxCreate

set_option linter.unusedSimpArgs false
set_option linter.unusedVariables false

namespace MantraDex.C11Sys
open MantraDex

def at_ (c : Prop) [Decidable c] (x : Int) : Int := if c then x else 0
def amt (c : Coin) (d : Denom) : Int := if c.denom = d then (c.amount : Int) else 0

theorem amt_eq_coinsOf (c : Coin) (d : Denom) : amt c d = ((C01.coinsOf [c] d : Nat) : Int) := by
  rw [coinsOf_single]
  unfold amt
  split <;> rfl

/-- closing a farm: only its owner or the contract owner; the farm disappears, nothing else in the farm
    manager changes; the owner is refunded exactly funded − claimed, or (refund transfer failed) nothing moves.
    (Dropped the unnecessary hypothesis `hu : isContract u = false` of the original statement.) -/
theorem close_farm_tx_effect (w w' : World) (u : Addr) (f : Farm) (k : Option Nat)
    (hf : w.fm.getFarm f.id = .ok f) (hinv : C05Sys.FmInv w)
    (h : runTx w (.exec u FM (.fm (.closeFarm f.id)) []) k = .ok w') :
    (u = f.owner ∨ w.fm.owner.owner = some u) ∧
    w'.fm.farms = w.fm.farms.filter (·.id != f.id) ∧ w'.fm.positions = w.fm.positions ∧ w'.pm = w.pm ∧
    ((∀ a d, (w'.bank.bal a d : Int) = (w.bank.bal a d : Int)
        + at_ (d = f.assetDenom ∧ a = f.owner) ((f.assetAmount - f.claimed : Nat) : Int)
        - at_ (d = f.assetDenom ∧ a = FM) ((f.assetAmount - f.claimed : Nat) : Int)) ∨
     (k ≠ none ∧ ∀ a d, w'.bank.bal a d = w.bank.bal a d)) := by
  obtain ⟨hauth, hfm, hpm, hbank⟩ := FarmTx.close_farm_run hf hinv h
  refine ⟨hauth, by rw [hfm], by rw [hfm], hpm, ?_⟩
  rcases hbank with ⟨h0, hb⟩ | ⟨b, mv, hb⟩ | ⟨hk, hb⟩
  · left
    intro a d
    rw [hb, h0]
    simp [at_]
  · left
    intro a d
    have e := mv.bal a d
    have l := mv.le d
    rw [hb]
    simp only [coinsOf_single] at e l
    unfold at_
    generalize f.assetAmount - f.claimed = rem at *
    by_cases hd : f.assetDenom = d
    · subst hd
      simp only [if_true, true_and] at e l ⊢
      by_cases c1 : a = FM <;> by_cases c2 : a = f.owner <;>
        (try simp only [if_pos c1] at e ⊢) <;> (try simp only [if_neg c1] at e ⊢) <;>
        (try simp only [if_pos c2] at e ⊢) <;> (try simp only [if_neg c2] at e ⊢) <;> omega
    · have hd' : ¬ d = f.assetDenom := fun e => hd e.symm
      simp only [hd, hd', if_false, false_and] at e l ⊢
      split at e <;> split at e <;> omega
  · right
    exact ⟨hk, fun a d => by rw [hb]⟩

/-- expanding a farm: only its owner, exactly the attached amount moves from the owner to the farm manager
    and is added to the farm's budget; the end moves by amount / rate.
    (Dropped the unnecessary hypothesis `hu : isContract u = false` of the original statement.) -/
theorem expand_farm_tx_effect (w w' : World) (u : Addr) (p : FarmParams) (fid : String) (f : Farm) (funds : List Coin)
    (k : Option Nat) (hid : p.farmId = some fid) (hf : w.fm.getFarm fid = .ok f)
    (h : runTx w (.exec u FM (.fm (.expandFarm p)) funds) k = .ok w') :
    u = f.owner ∧ funds = [p.asset] ∧ p.asset.denom = f.assetDenom ∧
    (∃ f', w'.fm.getFarm fid = .ok f' ∧ f'.assetAmount = f.assetAmount + p.asset.amount ∧
      f'.endEpoch = f.endEpoch + p.asset.amount / f.emissionRate ∧ f'.claimed = f.claimed ∧ f'.owner = f.owner) ∧
    ∀ a d, (w'.bank.bal a d : Int) = (w.bank.bal a d : Int)
      - at_ (a = u) (amt p.asset d) + at_ (a = FM) (amt p.asset d) := by
  obtain ⟨h1, h2, h3, h4, b, mv, hb⟩ := FarmTx.expand_farm_run hid hf h
  refine ⟨h1, h2, h3, h4, ?_⟩
  intro a d
  have e := mv.bal a d
  rw [hb]
  simp only [amt_eq_coinsOf, at_]
  simp only at e ⊢
  generalize C01.coinsOf [p.asset] d = c at *
  by_cases c1 : a = u <;> by_cases c2 : a = FM <;>
    (try simp only [if_pos c1] at e ⊢) <;> (try simp only [if_neg c1] at e ⊢) <;>
    (try simp only [if_pos c2] at e ⊢) <;> (try simp only [if_neg c2] at e ⊢) <;> omega

/-- creating a farm when no farm of the LP token is expired (nothing is closed on the way): the creator
    pays exactly reward + fee, the farm manager keeps exactly the reward, the fee collector gets exactly the fee.

    Dropped (unnecessary) hypotheses of the original statement: `hu : isContract u = false`,
    `hfunds : (funds.map (·.denom)).Nodup` (`assert_farm_asset` already pins the funds) and
    `hfc : w.fm.config.feeCollector ≠ FM` (the additive formula is also right when the farm manager is its
    own fee collector: it then keeps reward + fee). -/
theorem create_farm_tx_effect_partial (w w' : World) (u : Addr) (p : FarmParams) (funds : List Coin)
    (hnoexp : ∀ g ∈ w.fm.farmsByLp p.lpDenom w.fm.config.maxConcurrentFarms,
      isFarmExpiredOrFalse w.fm w.fmEnv g = .ok false)
    (h : runTx w (.exec u FM (.fm (.createFarm p)) funds) = .ok w') :
    (∃ f, f ∈ w'.fm.farms ∧ (∀ g ∈ w.fm.farms, g.id ≠ f.id) ∧ f.owner = u ∧ f.lpDenom = p.lpDenom ∧
      f.assetDenom = p.asset.denom ∧ f.assetAmount = p.asset.amount ∧ f.claimed = 0 ∧
      ∀ g ∈ w.fm.farms, g ∈ w'.fm.farms) ∧
    ∀ a d, (w'.bank.bal a d : Int) = (w.bank.bal a d : Int)
      - at_ (a = u) (amt p.asset d + amt w.fm.config.createFarmFee d)
      + at_ (a = FM) (amt p.asset d)
      + at_ (a = w.fm.config.feeCollector) (amt w.fm.config.createFarmFee d) := by
  obtain ⟨hfarm, b1, x, r, m0, m1, m2, hF⟩ := FarmTx.create_farm_run hnoexp h
  refine ⟨hfarm, ?_⟩
  intro a d
  have e0 := m0.bal a d
  have e1 := m1.bal a d
  have e2 := m2.bal a d
  have hf := hF d
  simp only [amt_eq_coinsOf, at_]
  simp only at e0 ⊢
  generalize C01.coinsOf funds d = F at *
  generalize C01.coinsOf [p.asset] d = A at *
  generalize C01.coinsOf [w.fm.config.createFarmFee] d = E at *
  generalize C01.coinsOf [(⟨w.fm.config.createFarmFee.denom, r⟩ : Coin)] d = R at *
  generalize w.fm.config.feeCollector = fc at *
  by_cases c1 : a = u <;> by_cases c2 : a = FM <;> by_cases c3 : a = fc <;>
    (try simp only [if_pos c1] at e0 e1 e2 ⊢) <;> (try simp only [if_neg c1] at e0 e1 e2 ⊢) <;>
    (try simp only [if_pos c2] at e0 e1 e2 ⊢) <;> (try simp only [if_neg c2] at e0 e1 e2 ⊢) <;>
    (try simp only [if_pos c3] at e0 e1 e2 ⊢) <;> (try simp only [if_neg c3] at e0 e1 e2 ⊢) <;>
    omega

/-- an LP token never has more farms than the configured maximum (for maxima up to the query cap
    MAX_FARMS_LIMIT = 100, see known finding F-12): invariant of every transaction -/
def FarmLimit (w : World) : Prop :=
  ∀ lp, (w.fm.farms.filter (·.lpDenom == lp)).length ≤ w.fm.config.maxConcurrentFarms

/-
  ORIGINAL STATEMENTS (false as stated — see the counterexample below):

    theorem farm_limit_step (w : World) (tx : Tx) (k : Option Nat) (hext : C05Sys.External tx)
        (hmax : (step w tx k).fm.config.maxConcurrentFarms ≤ C.MAX_FARMS_LIMIT)
        (h : FarmLimit w) : FarmLimit (step w tx k)

    theorem farm_limit_reachable (w0 : World) (h0 : FarmLimit w0) (txs : List (Tx × Option Nat))
        (hext : ∀ t ∈ txs, C05Sys.External t.1)
        (hmax : ∀ n, ((txs.take n).foldl (fun w t => step w t.1 t.2) w0).fm.config.maxConcurrentFarms ≤ C.MAX_FARMS_LIMIT) :
        FarmLimit (txs.foldl (fun w t => step w t.1 t.2) w0)

  They quantify over ALL worlds, including worlds in which two stored farms carry the same identifier
  (impossible in a reachable state: `C05Sys.FmInv.farmNodup`).  `FmState.saveFarm` overwrites every stored
  farm that carries the identifier, so in such a world expanding (or claiming from) one of the two farms
  turns the other one into a copy of it — and the copy counts for the first farm's LP token
  (`FarmTx.saveFarm_duplicate_ids_break_count`, proved by `decide`).

  Counterexample to `farm_limit_step` (checked with `#eval`; `decide` cannot run it because
  `validateLpDenom` splits strings):

    def lp1 : Denom := "factory/pm/a.LP"
    def lp2 : Denom := "factory/pm/b.LP"
    def fA : Farm := { id := "f", owner := "alice", lpDenom := lp1, assetDenom := "r", assetAmount := 1000,
                       claimed := 0, emissionRate := 100, startEpoch := 1, endEpoch := 11 }
    def fB : Farm := { fA with owner := "bob", lpDenom := lp2 }           -- same identifier "f"
    def cxW : World := {
      bank := { bal := fun a d => if a = "alice" ∧ d = "r" then 100 else if a = FM ∧ d = "r" then 2000 else 0
                supply := fun d => if d = "r" then 2100 else 0 }
      pm := { config := ⟨FC, FM, ⟨"x", 0⟩⟩, owner := { owner := some "o" } }
      fm := { config := ⟨FC, EM, PM, ⟨"x",0⟩, 1, 14, 86400, 31556926, 2629746, 0⟩, farms := [fA, fB],
              owner := { owner := some "o" } }
      em := { cfg := ⟨86400, 0⟩, owner := { owner := some "o" } }
      fc := { owner := some "o" }, nowNs := 86400 * 2 * 1000000000, tfFees := [], validAddr := fun _ => true }
    def cxTx : Tx := .exec "alice" FM (.fm (.expandFarm { lpDenom := lp1, startEpoch := none, endEpoch := none,
                                                           asset := ⟨"r", 100⟩, farmId := some "f" })) [⟨"r", 100⟩]

    #eval cxW.fm.farms.map (fun f => (f.id, f.lpDenom))            -- [("f", lp1), ("f", lp2)]: one farm per LP, max = 1
    #eval (step cxW cxTx).fm.farms.map (fun f => (f.id, f.lpDenom)) -- [("f", lp1), ("f", lp1)]
    #eval (step cxW cxTx).fm.config.maxConcurrentFarms              -- 1
    #eval ((step cxW cxTx).fm.farms.filter (·.lpDenom == lp1)).length   -- 2 > 1

  `cxTx` is external, `FarmLimit cxW` holds (one farm for `lp1`, one for `lp2`, maximum 1), the maximum
  stays 1 ≤ 100, and afterwards `lp1` has two farms.  The same world with `txs := [(cxTx, none)]` refutes
  `farm_limit_reachable`.

  REPAIR: the added hypothesis `hnd` — the stored farms have distinct identifiers — is exactly what is
  missing; it holds in every reachable state (it is `FmInv.farmNodup`, and `farm_ids_nodup_step` below
  shows that it is itself preserved by every transaction without any further assumption).  The hypothesis
  `hext` (external sender) turned out to be unnecessary and is dropped; in the history version the bound on
  the maximum is only needed for the FINAL state (`farm_limit_reachable_final`), because the maximum never
  decreases.
-/

/-- distinct farm identifiers are preserved by every transaction -/
theorem farm_ids_nodup_step (w : World) (tx : Tx) (k : Option Nat)
    (hnd : (w.fm.farms.map (·.id)).Nodup) : ((step w tx k).fm.farms.map (·.id)).Nodup :=
  (FarmTx.limit_step w tx k hnd).1

/-- the configured maximum never decreases -/
theorem max_farms_mono_step (w : World) (tx : Tx) (k : Option Nat)
    (hnd : (w.fm.farms.map (·.id)).Nodup) :
    w.fm.config.maxConcurrentFarms ≤ (step w tx k).fm.config.maxConcurrentFarms :=
  (FarmTx.limit_step w tx k hnd).2.1

/-- PARTIAL (added: `hnd`, distinct farm identifiers — see the comment above; dropped: `hext`) -/
theorem farm_limit_step_partial (w : World) (tx : Tx) (k : Option Nat)
    (hnd : (w.fm.farms.map (·.id)).Nodup)
    (hmax : (step w tx k).fm.config.maxConcurrentFarms ≤ C.MAX_FARMS_LIMIT)
    (h : FarmLimit w) : FarmLimit (step w tx k) :=
  (FarmTx.limit_step w tx k hnd).2.2 hmax h

/-- every history: the limit holds at the end provided the FINAL maximum is within the query cap -/
theorem farm_limit_reachable_final (w0 : World) (hnd : (w0.fm.farms.map (·.id)).Nodup) (h0 : FarmLimit w0)
    (txs : List (Tx × Option Nat))
    (hmax : (txs.foldl (fun w t => step w t.1 t.2) w0).fm.config.maxConcurrentFarms ≤ C.MAX_FARMS_LIMIT) :
    FarmLimit (txs.foldl (fun w t => step w t.1 t.2) w0) :=
  (FarmTx.limit_hist w0 txs hnd).2.2 hmax h0

/-- PARTIAL (added: `hnd`, distinct farm identifiers in the initial state; dropped: `hext`) -/
theorem farm_limit_reachable_partial (w0 : World) (hnd : (w0.fm.farms.map (·.id)).Nodup) (h0 : FarmLimit w0)
    (txs : List (Tx × Option Nat))
    (hmax : ∀ n, ((txs.take n).foldl (fun w t => step w t.1 t.2) w0).fm.config.maxConcurrentFarms ≤ C.MAX_FARMS_LIMIT) :
    FarmLimit (txs.foldl (fun w t => step w t.1 t.2) w0) := by
  apply farm_limit_reachable_final w0 hnd h0 txs
  have := hmax txs.length
  rw [List.take_length] at this
  exact this

/-- in particular from any state satisfying the custody invariant (hence from every reachable state) -/
theorem farm_limit_reachable_inv (w0 : World) (hinv : C05Sys.FmInv w0) (h0 : FarmLimit w0)
    (txs : List (Tx × Option Nat))
    (hmax : (txs.foldl (fun w t => step w t.1 t.2) w0).fm.config.maxConcurrentFarms ≤ C.MAX_FARMS_LIMIT) :
    FarmLimit (txs.foldl (fun w t => step w t.1 t.2) w0) :=
  farm_limit_reachable_final w0 hinv.farmNodup h0 txs hmax

end MantraDex.C11Sys
