/-
  C12 — Swap quotes equal execution.

  `Simulation` and `Swap` run the same `compute_swap` on the same pool state; a route over pairwise
  distinct pools is simulated against the unchanged state and executed against a state in which
  only *other* pools have moved.  Reverse quote (constant product): partial, see
  `reverse_quote_plus_one_suffices_partial` and finding F-09.
-/
import MantraDex.Model.System
import MantraDex.Proofs.NumLemmas
import MantraDex.Properties.C04

set_option linter.unusedSimpArgs false

namespace MantraDex.C12
open MantraDex

/-- `Simulation` returns exactly the amounts the following `Swap` produces (all five amounts), in
    any state, for both pool types -/
theorem simulation_eq_swap {s s' : PmState} {offer : Coin} {ask : Denom} {pid : String}
    {b ms : Option Nat} {r : SwapResult} (h : performSwap s offer ask pid b ms = .ok (s', r)) :
    ∃ c, querySimulation s offer ask pid = .ok c ∧
      r.ret.amount = c.ret ∧ r.swapFee.amount = c.swapFee ∧ r.protocolFee.amount = c.protocolFee ∧
      r.burnFee.amount = c.burnFee ∧ r.extraFees.amount = c.extraFees ∧ r.slippage = c.slippage := by
  sorry

/-- a swap on one pool leaves every other pool exactly as it was (frame lemma) -/
theorem performSwap_frame {s s' : PmState} {offer : Coin} {ask : Denom} {pid qid : String}
    {b ms : Option Nat} {r : SwapResult} (hne : qid ≠ pid)
    (h : performSwap s offer ask pid b ms = .ok (s', r)) :
    s'.getPool qid = s.getPool qid := by
  sorry

/-- the route, as executed: pairwise distinct pool identifiers -/
def distinctPools (ops : List SwapOp) : Prop := (ops.map (·.poolId)).Nodup

/-- the amounts chained by `simulate_swap_operations` from a given input amount -/
def simChain (s : PmState) : List SwapOp → Nat → R Nat
  | [], amt => .ok amt
  | op :: ops, amt => do
    let r ← querySimulation s ⟨op.tokenIn, amt⟩ op.tokenOut op.poolId
    simChain s ops r.ret

/-- executing a route over pairwise distinct pools (consecutive denoms) yields exactly the final
    amount that chaining the simulations on the *initial* state yields -/
theorem route_eq_simulation {s0 : PmState} {ms : Option Nat} :
    ∀ (ops : List SwapOp) (s s' : PmState) (prev out : Coin) (fees fees' : List Msg),
      distinctPools ops →
      (∀ op ∈ ops, s.getPool op.poolId = s0.getPool op.poolId) →
      (match ops with | [] => True | op :: _ => op.tokenIn = prev.denom) →
      (∀ i, ∀ h : i + 1 < ops.length, (ops[i]'(by omega)).tokenOut = (ops[i + 1]'h).tokenIn) →
      routeHops s ms ops prev fees = .ok (s', out, fees') →
      simChain s0 ops prev.amount = .ok out.amount := by
  sorry

/-- reverse quote on constant-product pools, zero fees: offering one unit more than quoted always
    yields at least the requested amount (the general statement is false for large asks: F-09) -/
theorem reverse_quote_plus_one_suffices_partial {p : PoolInfo} {X Y ask : Nat}
    {q : OfferAmountComputation} {c : SwapComputation}
    (hfee : p.fees = ⟨0, 0, 0, []⟩)
    (hq : computeOfferAmount X Y ask p.fees = .ok q)
    (hs : computeSwapCP p X Y (q.offer + 1) = .ok c) :
    ask ≤ c.ret := by
  sorry

/-- F-09 witness: pool 10^24/10^24, fees 0.3 % + 0.1 %, ask 10^21: quote + 1 falls short -/
theorem reverse_quote_witness :
    ∃ q c, computeOfferAmount (10^24) (10^24) (10^21) ⟨1000000000000000, 3000000000000000, 0, []⟩ = .ok q ∧
      computeSwapCP { (default : PoolInfo) with fees := ⟨1000000000000000, 3000000000000000, 0, []⟩ }
        (10^24) (10^24) (q.offer + 1) = .ok c ∧ c.ret < 10^21 := by
  sorry

end MantraDex.C12
