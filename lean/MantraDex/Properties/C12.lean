/-
  C12 — Swap quotes equal execution.

  `Simulation` and `Swap` run the same `compute_swap` on the same pool state; a route over pairwise
  distinct pools is simulated against the unchanged state and executed against a state in which
  only *other* pools have moved.  Reverse quote (constant product): partial, see
  `reverse_quote_plus_one_suffices_partial` and finding F-09.
-/
import MantraDex.Model.System
import MantraDex.Proofs.NumLemmas
import MantraDex.Proofs.SwapLemmas
import MantraDex.Properties.C04

set_option linter.unusedSimpArgs false

namespace MantraDex.C12
open MantraDex

/-- everything `perform_swap` does that the statements below need, read off its definition -/
theorem performSwap_inv {s s' : PmState} {offer : Coin} {ask : Denom} {pid : String}
    {b ms : Option Nat} {r : SwapResult} (h : performSwap s offer ask pid b ms = .ok (s', r)) :
    ∃ pool c, s.getPool pid = .ok pool ∧ computeSwap pool offer ask = .ok c ∧
      s' = s.savePool r.pool ∧ r.pool.id = pool.id ∧
      r.ret = ⟨ask, c.ret⟩ ∧ r.burnFee = ⟨ask, c.burnFee⟩ ∧ r.protocolFee = ⟨ask, c.protocolFee⟩ ∧
      r.swapFee = ⟨ask, c.swapFee⟩ ∧ r.extraFees = ⟨ask, c.extraFees⟩ ∧ r.slippage = c.slippage := by
  unfold performSwap at h
  simp only [bind_ok, pure_ok] at h
  obtain ⟨pool, hp, _, _, c, hc, _, _, _, _, _, _, _, _, _, _, _, _, _, _, hr⟩ := h
  simp only [Prod.mk.injEq] at hr
  obtain ⟨rfl, rfl⟩ := hr
  exact ⟨pool, c, hp, hc, rfl, rfl, rfl, rfl, rfl, rfl, rfl, rfl⟩

/-- `Simulation` returns exactly the amounts the following `Swap` produces (all five amounts), in
    any state, for both pool types -/
theorem simulation_eq_swap {s s' : PmState} {offer : Coin} {ask : Denom} {pid : String}
    {b ms : Option Nat} {r : SwapResult} (h : performSwap s offer ask pid b ms = .ok (s', r)) :
    ∃ c, querySimulation s offer ask pid = .ok c ∧
      r.ret.amount = c.ret ∧ r.swapFee.amount = c.swapFee ∧ r.protocolFee.amount = c.protocolFee ∧
      r.burnFee.amount = c.burnFee ∧ r.extraFees.amount = c.extraFees ∧ r.slippage = c.slippage := by
  obtain ⟨pool, c, hp, hc, -, -, h1, h2, h3, h4, h5, h6⟩ := performSwap_inv h
  refine ⟨c, ?_, ?_⟩
  · unfold querySimulation
    simp only [bind_ok]
    exact ⟨pool, hp, hc⟩
  · rw [h1, h2, h3, h4, h5, h6]
    exact ⟨rfl, rfl, rfl, rfl, rfl, rfl⟩

theorem getPool_id {s : PmState} {pid : String} {pool : PoolInfo} (h : s.getPool pid = .ok pool) :
    pool.id = pid := by
  unfold PmState.getPool at h
  split at h
  next p hf =>
    cases h
    have := List.find?_some hf
    exact eq_of_beq this
  next => cases h

theorem find_map_ne (p : PoolInfo) (qid : String) (hne : qid ≠ p.id) (l : List PoolInfo) :
    (l.map fun q => if q.id == p.id then p else q).find? (·.id == qid) = l.find? (·.id == qid) := by
  induction l with
  | nil => rfl
  | cons x xs ih =>
    simp only [List.map_cons, List.find?_cons]
    by_cases hx : x.id = p.id
    · have h1 : (p.id == qid) = false := by simpa using fun h => hne h.symm
      have h2 : (x.id == qid) = false := by rw [hx]; exact h1
      simp only [hx, beq_self_eq_true, if_true, h1, h2]
      exact ih
    · have h0 : (x.id == p.id) = false := by simpa using hx
      simp only [h0, Bool.false_eq_true, if_false]
      rw [ih]

theorem find_insert_ne (p : PoolInfo) (qid : String) (hne : qid ≠ p.id) (l : List PoolInfo) :
    (insertPoolSorted p l).find? (·.id == qid) = l.find? (·.id == qid) := by
  have h1 : (p.id == qid) = false := by simpa using fun h => hne h.symm
  induction l with
  | nil => simp [insertPoolSorted, h1]
  | cons x xs ih =>
    unfold insertPoolSorted
    split
    · simp only [List.find?_cons, h1]
    · simp only [List.find?_cons, ih]

theorem getPool_savePool_ne (s : PmState) (p : PoolInfo) (qid : String) (hne : qid ≠ p.id) :
    (s.savePool p).getPool qid = s.getPool qid := by
  have hf : (s.savePool p).pools.find? (·.id == qid) = s.pools.find? (·.id == qid) := by
    unfold PmState.savePool
    split
    · exact find_map_ne p qid hne _
    · exact find_insert_ne p qid hne _
  unfold PmState.getPool
  rw [hf]


/-- a swap on one pool leaves every other pool exactly as it was (frame lemma) -/
theorem performSwap_frame {s s' : PmState} {offer : Coin} {ask : Denom} {pid qid : String}
    {b ms : Option Nat} {r : SwapResult} (hne : qid ≠ pid)
    (h : performSwap s offer ask pid b ms = .ok (s', r)) :
    s'.getPool qid = s.getPool qid := by
  obtain ⟨pool, c, hp, -, rfl, hid, -⟩ := performSwap_inv h
  apply getPool_savePool_ne
  rw [hid, getPool_id hp]
  exact hne


/-- the route, as executed: pairwise distinct pool identifiers -/
def distinctPools (ops : List SwapOp) : Prop := (ops.map (·.poolId)).Nodup

/-- the amounts chained by `simulate_swap_operations` from a given input amount -/
def simChain (s : PmState) : List SwapOp → Nat → R Nat
  | [], amt => .ok amt
  | op :: ops, amt => do
    let r ← querySimulation s ⟨op.tokenIn, amt⟩ op.tokenOut op.poolId
    simChain s ops r.ret

theorem querySimulation_congr {s s0 : PmState} {offer : Coin} {ask : Denom} {pid : String}
    (h : s.getPool pid = s0.getPool pid) :
    querySimulation s offer ask pid = querySimulation s0 offer ask pid := by
  unfold querySimulation; rw [h]

/-- executing a route over pairwise distinct pools (consecutive denoms) yields exactly the final
    amount that chaining the simulations on the *initial* state yields -/
theorem route_eq_simulation {s0 : PmState} {ms : Option Nat} :
    ∀ (ops : List SwapOp) (s s' : PmState) (prev out : Coin) (fees fees' : List Msg),
      distinctPools ops →
      (∀ op ∈ ops, s.getPool op.poolId = s0.getPool op.poolId) →
      (match ops with | [] => True | op :: _ => op.tokenIn = prev.denom) →
      (∀ i, ∀ h : i + 1 < ops.length, (ops[i]'(by omega)).tokenOut = (ops[i + 1]'h).tokenIn) →
      routeHops s ms ops prev fees = .ok (s', out, fees') →
      simChain s0 ops prev.amount = .ok out.amount := by
  intro ops
  induction ops with
  | nil =>
    intro s s' prev out fees fees' _ _ _ _ h
    unfold routeHops at h
    cases h
    rfl
  | cons op ops ih =>
    intro s s' prev out fees fees' hd hs hin hcons h
    unfold routeHops at h
    simp only [bind_ok] at h
    obtain ⟨pool, _, h⟩ := h
    split at h
    · simp [bind, Except.bind] at h
    simp only [bind_ok] at h
    obtain ⟨⟨s1, r⟩, hps, hrest⟩ := h
    obtain ⟨pool', c, hp, hc, -, -, hret, -⟩ := performSwap_inv hps
    unfold distinctPools at hd
    simp only [List.map_cons, List.nodup_cons] at hd
    obtain ⟨hnotin, hd'⟩ := hd
    have hprev : (⟨op.tokenIn, prev.amount⟩ : Coin) = prev := by
      cases prev; simp only at hin ⊢; rw [hin]
    have hsim : querySimulation s0 ⟨op.tokenIn, prev.amount⟩ op.tokenOut op.poolId = .ok c := by
      rw [hprev, ← querySimulation_congr (hs op (List.mem_cons_self ..))]
      unfold querySimulation
      simp only [bind_ok]
      exact ⟨pool', hp, hc⟩
    have hstep : simChain s0 (op :: ops) prev.amount = simChain s0 ops r.ret.amount := by
      rw [simChain]
      simp only [hsim, hret]
      rfl
    rw [hstep]
    refine ih s1 s' r.ret out _ fees' hd' ?_ ?_ ?_ hrest
    · intro op' hop'
      have hne : op'.poolId ≠ op.poolId := by
        intro heq
        exact hnotin (heq ▸ List.mem_map_of_mem hop')
      rw [performSwap_frame hne hps]
      exact hs op' (List.mem_cons_of_mem _ hop')
    · cases ops with
      | nil => trivial
      | cons op2 ops2 =>
        simp only [hret]
        have := hcons 0 (by simp)
        simpa using this.symm
    · intro i hi
      have := hcons (i + 1) (by simp only [List.length_cons]; omega)
      simpa using this

theorem offerAmount_zero_fee {X Y ask : Nat} {q : OfferAmountComputation}
    (hq : computeOfferAmount X Y ask ⟨0, 0, 0, []⟩ = .ok q) :
    ask + 1 ≤ Y ∧ Y - ask - 1 ≠ 0 ∧ X ≤ X * Y / (Y - ask - 1) ∧ q.offer = X * Y / (Y - ask - 1) - X := by
  unfold computeOfferAmount at hq
  simp only [List.cons_append, List.nil_append, List.foldlM_cons, List.foldlM_nil, bind_ok, pure_ok, ckAdd_ok, orPanic_ok, ckSub_ok, decDiv_ok, fit_ok, decMul_ok, mulRatio_ok, decFloor] at hq
  obtain ⟨fees, ⟨a1, ⟨_, rfl⟩, a2, ⟨_, rfl⟩, rfl⟩, oneMinus, ⟨_, rfl⟩, inv, ⟨_, _, rfl⟩, cp, ⟨_, rfl⟩,
    a18, ⟨_, rfl⟩, bc, ⟨_, rfl⟩, den, ⟨hle, rfl⟩, den2, ⟨h1, rfl⟩, qq, ⟨hne, _, rfl⟩, off, ⟨hXle, rfl⟩,
    o18, _, rate, _, bs, _, sf, _, pf, _, bf, _, ef, _, rest⟩ := hq
  have hbc : ask * ONE18 * (ONE18 * ONE18 / (ONE18 - (0 + 0 + 0))) / ONE18 / ONE18 = ask := by
    have hk := ONE18_pos
    generalize ONE18 = k at hk ⊢
    simp only [Nat.add_zero]
    rw [Nat.sub_zero, Nat.mul_div_cancel _ hk, Nat.mul_div_cancel _ hk,
      Nat.mul_div_cancel _ hk]
  rw [hbc] at hle h1 hne hXle rest
  obtain ⟨a, ⟨_, rfl⟩, _, _, _, _, _, _, _, _, _, _, rfl⟩ := rest
  rw [Nat.one_mul] at hXle
  refine ⟨by omega, hne, hXle, ?_⟩
  simp only [Nat.one_mul]


theorem feeCompute_zero {g f : Nat} (h : feeCompute 0 g = .ok f) : f = 0 := by
  unfold feeCompute at h
  simp only [bind_ok, pure_ok, fit_ok, decMul_ok, decFloor, Nat.mul_zero, Nat.zero_div] at h
  obtain ⟨_, _, _, ⟨_, rfl⟩, rfl⟩ := h
  rfl

theorem swapCP_zero_fee {p : PoolInfo} {X Y o : Nat} {c : SwapComputation}
    (hfee : p.fees = ⟨0, 0, 0, []⟩) (h : computeSwapCP p X Y o = .ok c) :
    c.ret = Y * o / (X + o) := by
  obtain ⟨_, slip, fc, hfc, hc⟩ := computeSwapCP_inv h
  generalize Y * o / (X + o) = g at hfc hc
  rw [hfee] at hfc
  unfold computeFees at hfc
  simp only [bind_ok, pure_ok, List.foldlM_nil] at hfc
  obtain ⟨s, hs, pf, hpf, b, hb, e, rfl, rfl⟩ := hfc
  cases feeCompute_zero hs
  cases feeCompute_zero hpf
  cases feeCompute_zero hb
  unfold getSwapComputation at hc
  simp only [bind_ok, pure_ok, ckSub_ok, ckAdd_ok, fit_ok, Nat.sub_zero] at hc
  obtain ⟨_, ⟨_, rfl⟩, _, ⟨_, rfl⟩, _, ⟨_, rfl⟩, _, ⟨_, rfl⟩, _, _, _, _, _, _, _, _, _, ⟨_, rfl⟩, _, _,
    _, _, _, _, _, _, _, _, rfl⟩ := hc
  rfl

theorem reverse_arith {X Y ask : Nat} (h1 : ask + 1 ≤ Y) (hD : Y - ask - 1 ≠ 0)
    (hX : X ≤ X * Y / (Y - ask - 1)) :
    ask ≤ Y * (X * Y / (Y - ask - 1) - X + 1) / (X + (X * Y / (Y - ask - 1) - X + 1)) := by
  obtain ⟨D, hDdef⟩ : ∃ D, D = Y - ask - 1 := ⟨_, rfl⟩
  rw [← hDdef] at hD hX ⊢
  have hlt : X * Y < D * (X * Y / D + 1) := Nat.lt_mul_div_succ _ (Nat.pos_of_ne_zero hD)
  generalize X * Y / D = Q at hX hlt ⊢
  have hY : Y = ask + 1 + D := by omega
  subst hY
  have e1 : X + (Q - X + 1) = Q + 1 := by omega
  have e2 : Q - X + 1 = (Q + 1) - X := by omega
  rw [e1, e2, Nat.le_div_iff_mul_le (by omega : 0 < Q + 1), Nat.mul_sub, Nat.add_mul, Nat.add_mul,
    Nat.one_mul, Nat.mul_comm (ask + 1 + D) X]
  omega

/-- reverse quote on constant-product pools, zero fees: offering one unit more than quoted always
    yields at least the requested amount (the general statement is false for large asks: F-09) -/
theorem reverse_quote_plus_one_suffices_partial {p : PoolInfo} {X Y ask : Nat}
    {q : OfferAmountComputation} {c : SwapComputation}
    (hfee : p.fees = ⟨0, 0, 0, []⟩)
    (hq : computeOfferAmount X Y ask p.fees = .ok q)
    (hs : computeSwapCP p X Y (q.offer + 1) = .ok c) :
    ask ≤ c.ret := by
  rw [hfee] at hq
  obtain ⟨h1, hD, hX, hoff⟩ := offerAmount_zero_fee hq
  rw [swapCP_zero_fee hfee hs, hoff]
  exact reverse_arith h1 hD hX

/-- F-09 witness: pool 10^24/10^24, fees 0.3 % + 0.1 %, ask 10^21: quote + 1 falls short -/
theorem reverse_quote_witness :
    ∃ q c, computeOfferAmount (10^24) (10^24) (10^21) ⟨1000000000000000, 3000000000000000, 0, []⟩ = .ok q ∧
      computeSwapCP { (default : PoolInfo) with fees := ⟨1000000000000000, 3000000000000000, 0, []⟩ }
        (10^24) (10^24) (q.offer + 1) = .ok c ∧ c.ret < 10^21 := by
  exact ⟨⟨1005025125628140703067, 1009061371112591067, 3012048192771084336, 1004016064257028112, 0, 0⟩,
   ⟨999999999999999999553, 5025125628140703515, 3012048192771084336, 1004016064257028112, 0, 0⟩,
   by decide⟩

/-! Non-vacuity of the zero-fee reverse quote: a concrete accepted quote and swap -/
example : ∃ q c, computeOfferAmount 1000000 1000000 1000 ⟨0, 0, 0, []⟩ = .ok q ∧
    computeSwapCP { (default : PoolInfo) with fees := ⟨0, 0, 0, []⟩ } 1000000 1000000 (q.offer + 1) = .ok c ∧
    1000 ≤ c.ret := by
  refine ⟨_, _, rfl, rfl, ?_⟩
  decide

end MantraDex.C12
