/-
  C16 — Pool creation charges exact fees and pool parameters are unique and immutable.
-/
import MantraDex.Model.System
import MantraDex.Proofs.NumLemmas

set_option linter.unusedSimpArgs false

namespace MantraDex.C16
open MantraDex

/-- the fields of a pool that must never change -/
def StaticEq (p q : PoolInfo) : Prop :=
  p.id = q.id ∧ p.denoms = q.denoms ∧ p.decimals = q.decimals ∧ p.ptype = q.ptype ∧
  p.fees = q.fees ∧ p.lpDenom = q.lpDenom

/-- reserves are listed in the order of `asset_denoms` -/
def Aligned (p : PoolInfo) : Prop := p.assets.map (·.denom) = p.denoms

/-- what `create_pool` guarantees about an accepted request and the pool it stores -/
theorem createPool_shape {s s' : PmState} {env : PmEnv} {funds : List Coin} {denoms : List Denom}
    {decimals : List Nat} {fees : PoolFee} {pt : PoolType} {id : Option String} {r : Response}
    (h : createPool s env funds denoms decimals fees pt id = .ok (s', r)) :
    denoms.length = decimals.length ∧ 2 ≤ denoms.length ∧ denoms.length ≤ 4 ∧
    (pt = .cp → denoms.length = 2) ∧ (∀ amp, pt = .stable amp → amp ≠ 0) ∧
    hasDuplicates denoms = false ∧ poolFeeValid fees = true ∧
    ∃ ident, (ident = (match id with
                | some i => C.EXPLICIT_POOL_ID_PREFIX ++ i
                | none => C.AUTO_POOL_ID_PREFIX ++ toString (s.counter + 1))) ∧
      validatePoolIdentifier ident = true ∧ (∀ q ∈ s.pools, q.id ≠ ident) ∧
      ∃ p, p ∈ s'.pools ∧ p.id = ident ∧ p.denoms = denoms ∧ p.decimals = decimals ∧ p.ptype = pt ∧
        p.fees = fees ∧ p.lpDenom = lpDenomOf env.self ident ∧
        p.assets = denoms.map (fun d => ⟨d, 0⟩) ∧ Aligned p := by
  sorry

/-- an accepted pool creation attached exactly the fees: every (aggregated) coin sent is one of
    the required fee coins with exactly the required amount, and every required coin was sent -/
theorem createPool_funds_exact {s s' : PmState} {env : PmEnv} {funds : List Coin} {denoms : List Denom}
    {decimals : List Nat} {fees : PoolFee} {pt : PoolType} {id : Option String} {r : Response}
    (h : createPool s env funds denoms decimals fees pt id = .ok (s', r)) :
    ∃ total agg, validateFeesArePaid s.config.creationFee env.tfFees funds = .ok total ∧
      aggregateCoins funds = .ok agg ∧
      (∀ f ∈ agg, ∃ t ∈ total, t.denom = f.denom ∧ t.amount = f.amount) := by
  sorry

/-- the creation fee goes to the fee collector, the token-factory fee is consumed by the denom
    creation: the response is exactly [send creation fee]? ++ [create denom] -/
theorem createPool_messages {s s' : PmState} {env : PmEnv} {funds : List Coin} {denoms : List Denom}
    {decimals : List Nat} {fees : PoolFee} {pt : PoolType} {id : Option String} {r : Response}
    (h : createPool s env funds denoms decimals fees pt id = .ok (s', r)) :
    ∃ sub, r.msgs.map (·.msg) =
      (if s.config.creationFee.amount ≠ 0
        then [Msg.bankSend s.config.feeCollector [s.config.creationFee]] else []) ++ [Msg.tfCreateDenom sub] := by
  sorry

/-- pools are never removed and their static fields never change, whatever message is executed -/
theorem static_fields_immutable {s s' : PmState} {env : PmEnv} {sender : Addr} {funds : List Coin}
    {m : PmMsg} {r : Response} (h : pmExecute s env sender funds m = .ok (s', r)) :
    ∀ p ∈ s.pools, ∃ p' ∈ s'.pools, StaticEq p p' := by
  sorry

/-- the reply handler does not touch pools at all -/
theorem reply_keeps_pools {s s' : PmState} {env : PmEnv} {id : Nat} {r : Response}
    (h : pmReply s env id = .ok (s', r)) : s'.pools = s.pools := by
  sorry

/-- identifiers stay unique -/
theorem ids_unique_preserved {s s' : PmState} {env : PmEnv} {sender : Addr} {funds : List Coin}
    {m : PmMsg} {r : Response} (hu : (s.pools.map (·.id)).Nodup)
    (h : pmExecute s env sender funds m = .ok (s', r)) : (s'.pools.map (·.id)).Nodup := by
  sorry

/-- reserves stay aligned with `asset_denoms` (this is what finding F-08 broke) -/
theorem aligned_preserved {s s' : PmState} {env : PmEnv} {sender : Addr} {funds : List Coin}
    {m : PmMsg} {r : Response} (ha : ∀ p ∈ s.pools, Aligned p)
    (h : pmExecute s env sender funds m = .ok (s', r)) : ∀ p ∈ s'.pools, Aligned p := by
  sorry

end MantraDex.C16
