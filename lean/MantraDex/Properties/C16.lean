/-
  C16 — Pool creation charges exact fees and pool parameters are unique and immutable.
-/
import MantraDex.Model.System
import MantraDex.Proofs.NumLemmas
import MantraDex.Proofs.PoolLemmas

set_option linter.unusedSimpArgs false

namespace MantraDex.C16
open MantraDex

/-- the fields of a pool that must never change -/
def StaticEq (p q : PoolInfo) : Prop :=
  p.id = q.id ∧ p.denoms = q.denoms ∧ p.decimals = q.decimals ∧ p.ptype = q.ptype ∧
  p.fees = q.fees ∧ p.lpDenom = q.lpDenom

/-- reserves are listed in the order of `asset_denoms` -/
def Aligned (p : PoolInfo) : Prop := p.assets.map (·.denom) = p.denoms

/-! ### helper lemmas -/

theorem StaticEq.refl (p : PoolInfo) : StaticEq p p := ⟨rfl, rfl, rfl, rfl, rfl, rfl⟩

theorem StaticEq.symm {p q : PoolInfo} (h : StaticEq p q) : StaticEq q p :=
  ⟨h.1.symm, h.2.1.symm, h.2.2.1.symm, h.2.2.2.1.symm, h.2.2.2.2.1.symm, h.2.2.2.2.2.symm⟩

theorem StaticEq.trans {p q r : PoolInfo} (h : StaticEq p q) (h' : StaticEq q r) : StaticEq p r :=
  ⟨h.1.trans h'.1, h.2.1.trans h'.2.1, h.2.2.1.trans h'.2.2.1, h.2.2.2.1.trans h'.2.2.2.1,
    h.2.2.2.2.1.trans h'.2.2.2.2.1, h.2.2.2.2.2.trans h'.2.2.2.2.2⟩

/-- pools that share an identifier agree on their static fields (implied by unique identifiers) -/
def SameIdSameStatic (ps : List PoolInfo) : Prop :=
  ∀ p ∈ ps, ∀ q ∈ ps, p.id = q.id → StaticEq p q

theorem eq_of_nodup_ids {ps : List PoolInfo} (h : (ps.map (·.id)).Nodup) :
    ∀ p ∈ ps, ∀ q ∈ ps, p.id = q.id → p = q := by
  induction ps with
  | nil => intro p hp; cases hp
  | cons x xs ih =>
    rw [List.map_cons, List.nodup_cons] at h
    intro p hp q hq hid
    rcases List.mem_cons.1 hp with rfl | hp' <;> rcases List.mem_cons.1 hq with rfl | hq'
    · rfl
    · exact absurd (List.mem_map.2 ⟨q, hq', hid.symm⟩) h.1
    · exact absurd (List.mem_map.2 ⟨p, hp', hid⟩) h.1
    · exact ih h.2 p hp' q hq' hid

theorem sameIdSameStatic_of_nodup {ps : List PoolInfo} (h : (ps.map (·.id)).Nodup) :
    SameIdSameStatic ps := by
  intro p hp q hq hid
  rw [eq_of_nodup_ids h p hp q hq hid]
  exact StaticEq.refl q

theorem step_static {s s' : PmState} (h : PmStep s s') (hw : SameIdSameStatic s.pools) :
    (∀ p ∈ s.pools, ∃ p' ∈ s'.pools, StaticEq p p') ∧ SameIdSameStatic s'.pools := by
  induction h with
  | refl s => exact ⟨fun p hp => ⟨p, hp, StaticEq.refl p⟩, hw⟩
  | buffer s b => exact ⟨fun p hp => ⟨p, hp, StaticEq.refl p⟩, hw⟩
  | save s pid p0 p' hp hs _ =>
    obtain ⟨hmem, _⟩ := getPool_ok hp
    have hf : ∀ q ∈ s.pools, StaticEq q (if q.id == p'.id then p' else q) := by
      intro q hq
      split
      · next hc =>
        have : q.id = p0.id := by rw [hs.1]; simpa using hc
        exact (hw q hq p0 hmem this).trans hs
      · exact StaticEq.refl q
    rw [savePool_pools_of_getPool hp hs.1]
    refine ⟨fun q hq => ⟨_, List.mem_map.2 ⟨q, hq, rfl⟩, hf q hq⟩, ?_⟩
    intro a' ha' b' hb' hid
    obtain ⟨a, ha, rfl⟩ := List.mem_map.1 ha'
    obtain ⟨b, hb, rfl⟩ := List.mem_map.1 hb'
    have h1 := hf a ha
    have h2 := hf b hb
    exact h1.symm.trans ((hw a ha b hb (h1.1.trans (hid.trans h2.1.symm))).trans h2)
  | trans _ _ ih1 ih2 =>
    obtain ⟨h1, hw1⟩ := ih1 hw
    obtain ⟨h2, hw2⟩ := ih2 hw1
    refine ⟨fun p hp => ?_, hw2⟩
    obtain ⟨p1, hp1, e1⟩ := h1 p hp
    obtain ⟨p2, hp2, e2⟩ := h2 p1 hp1
    exact ⟨p2, hp2, e1.trans e2⟩

theorem step_aligned {s s' : PmState} (h : PmStep s s') (ha : ∀ p ∈ s.pools, Aligned p) :
    ∀ p ∈ s'.pools, Aligned p := by
  induction h with
  | refl s => exact ha
  | buffer s b => exact ha
  | save s pid p0 p' hp hs hden =>
    obtain ⟨hmem, _⟩ := getPool_ok hp
    rw [savePool_pools_of_getPool hp hs.1]
    intro q' hq'
    obtain ⟨q, hq, rfl⟩ := List.mem_map.1 hq'
    split
    · show p'.assets.map (·.denom) = p'.denoms
      rw [hden, ← hs.2.1]; exact ha p0 hmem
    · exact ha q hq
  | trans _ _ ih1 ih2 => exact ih2 (ih1 ha)

/-! ### the properties -/

/-- what `create_pool` guarantees about an accepted request and the pool it stores -/
theorem createPool_shape {s s' : PmState} {env : PmEnv} {funds : List Coin} {denoms : List Denom}
    {decimals : List Nat} {fees : PoolFee} {pt : PoolType} {id : Option String} {r : Response}
    (h : createPool s env funds denoms decimals fees pt id = .ok (s', r)) :
    denoms.length = decimals.length ∧ 2 ≤ denoms.length ∧ denoms.length ≤ 4 ∧
    (pt = .cp → denoms.length = 2) ∧ (∀ amp, pt = .stable amp → amp ≠ 0) ∧
    hasDuplicates denoms = false ∧ poolFeeValid fees = true ∧
    ∃ ident, (ident = (match id with
                | some i => C.EXPLICIT_POOL_ID_PREFIX ++ i
                | none => C.AUTO_POOL_ID_PREFIX ++ toString (s.counter + 1))) ∧
      validatePoolIdentifier ident = true ∧ (∀ q ∈ s.pools, q.id ≠ ident) ∧
      ∃ p, p ∈ s'.pools ∧ p.id = ident ∧ p.denoms = denoms ∧ p.decimals = decimals ∧ p.ptype = pt ∧
        p.fees = fees ∧ p.lpDenom = lpDenomOf env.self ident ∧
        p.assets = denoms.map (fun d => ⟨d, 0⟩) ∧ Aligned p := by
  obtain ⟨total, hmin, hlen, hcp, hst, hmax, hfees, hnoadd, hdup, hfee, hvalid, hany, hs', hr⟩ :=
    createPool_inv h
  obtain ⟨p, hfresh, hpools, _, _, hp⟩ := createPool_pools h
  subst hp
  refine ⟨hlen, hmin, hmax, hcp, hst, hdup, hfee, newPoolIdent s id, ?_, hvalid, hfresh,
    { id := newPoolIdent s id, denoms := denoms, lpDenom := lpDenomOf env.self (newPoolIdent s id),
      decimals := decimals, assets := denoms.map fun d => ⟨d, 0⟩, ptype := pt, fees := fees,
      status := {} }, ?_, rfl, rfl, rfl, rfl, rfl, rfl, rfl, ?_⟩
  · cases id <;> rfl
  · rw [hpools]; exact mem_insertPoolSorted.2 (Or.inl rfl)
  · show List.map (·.denom) (denoms.map fun d => (⟨d, 0⟩ : Coin)) = denoms
    rw [List.map_map]
    have : ((fun x : Coin => x.denom) ∘ fun d => (⟨d, 0⟩ : Coin)) = _root_.id := rfl
    rw [this, List.map_id]

/-- an accepted pool creation attached exactly the fees: every (aggregated) coin sent is one of
    the required fee coins with exactly the required amount, and every required coin was sent -/
theorem createPool_funds_exact {s s' : PmState} {env : PmEnv} {funds : List Coin} {denoms : List Denom}
    {decimals : List Nat} {fees : PoolFee} {pt : PoolType} {id : Option String} {r : Response}
    (h : createPool s env funds denoms decimals fees pt id = .ok (s', r)) :
    ∃ total agg, validateFeesArePaid s.config.creationFee env.tfFees funds = .ok total ∧
      aggregateCoins funds = .ok agg ∧
      (∀ f ∈ agg, ∃ t ∈ total, t.denom = f.denom ∧ t.amount = f.amount) := by
  obtain ⟨total, _, _, _, _, _, hfees, hnoadd, _⟩ := createPool_inv h
  unfold validateNoAdditionalFunds at hnoadd
  simp only [↓err_bind, bind_ok, ite_err_ok] at hnoadd
  obtain ⟨agg, hagg, hnot, _⟩ := hnoadd
  refine ⟨total, agg, hfees, hagg, ?_⟩
  intro f hf
  have := hnot
  simp only [List.any_eq_true, Bool.not_eq_true', not_exists, not_and, Bool.not_eq_false,
    Bool.and_eq_true, beq_iff_eq] at this
  obtain ⟨t, ht, h1, h2⟩ := this f hf
  exact ⟨t, ht, h1, h2⟩

/-- the creation fee goes to the fee collector, the token-factory fee is consumed by the denom
    creation: the response is exactly [send creation fee]? ++ [create denom] -/
theorem createPool_messages {s s' : PmState} {env : PmEnv} {funds : List Coin} {denoms : List Denom}
    {decimals : List Nat} {fees : PoolFee} {pt : PoolType} {id : Option String} {r : Response}
    (h : createPool s env funds denoms decimals fees pt id = .ok (s', r)) :
    ∃ sub, r.msgs.map (·.msg) =
      (if s.config.creationFee.amount ≠ 0
        then [Msg.bankSend s.config.feeCollector [s.config.creationFee]] else []) ++ [Msg.tfCreateDenom sub] := by
  obtain ⟨total, _, _, _, _, _, _, _, _, _, _, _, _, hr⟩ := createPool_inv h
  subst hr
  refine ⟨newPoolIdent s id ++ "." ++ C.LP_SYMBOL, ?_⟩
  simp only [Response.ofMsgs, List.map_map]
  have : ((fun x : SubMsg => x.msg) ∘ fun m => ({ msg := m } : SubMsg)) = _root_.id := rfl
  rw [this, List.map_id]

/-- pools are never removed and their static fields never change, whatever message is executed.

    The statement without the extra hypothesis (`static_fields_immutable` as first written) is
    FALSE: if two stored pools shared an identifier, `savePool` would overwrite both with the
    updated copy of the first one (see `static_fields_immutable_counterexample` below).  The
    hypothesis is the weakest natural one: pools with the same identifier agree on their static
    fields; it follows from unique identifiers (`static_fields_immutable_of_nodup`), which is an
    invariant (`ids_unique_preserved`). -/
theorem static_fields_immutable_partial {s s' : PmState} {env : PmEnv} {sender : Addr}
    {funds : List Coin} {m : PmMsg} {r : Response} (hw : SameIdSameStatic s.pools)
    (h : pmExecute s env sender funds m = .ok (s', r)) :
    ∀ p ∈ s.pools, ∃ p' ∈ s'.pools, StaticEq p p' := by
  rcases pmExecute_cases h with hs | ⟨d, dc, f, pt, id, rfl, hc⟩ | ⟨s1, cfg, _, hs, rfl⟩ | ⟨o, _, rfl⟩
  · exact (step_static hs hw).1
  · obtain ⟨p, _, hpools, _⟩ := createPool_pools hc
    intro q hq
    exact ⟨q, by rw [hpools]; exact mem_insertPoolSorted.2 (Or.inr hq), StaticEq.refl q⟩
  · exact (step_static hs hw).1
  · exact fun p hp => ⟨p, hp, StaticEq.refl p⟩

/-! #### counterexample to the unrestricted statement

Two stored pools share the identifier "x" (different denoms / LP denom).  The owner toggles a
feature of pool "x": `getPool` finds the first one, `savePool` overwrites *both* entries with its
updated copy, and the second pool's static fields are gone. -/
namespace CE
def fee0 : PoolFee := ⟨0, 0, 0, []⟩
def pa : PoolInfo := { id := "x", denoms := ["a", "b"], lpDenom := "lpA", decimals := [6, 6],
                       assets := [⟨"a", 0⟩, ⟨"b", 0⟩], ptype := .cp, fees := fee0, status := {} }
def pb : PoolInfo := { id := "x", denoms := ["c", "d"], lpDenom := "lpB", decimals := [6, 6],
                       assets := [⟨"c", 0⟩, ⟨"d", 0⟩], ptype := .cp, fees := fee0, status := {} }
def s0 : PmState := { config := ⟨"fc", "fm", ⟨"uom", 0⟩⟩, pools := [pa, pb],
                      owner := { owner := some "admin" } }
def env0 : PmEnv := { self := "pm", nowNs := 0, bal := fun _ _ => 0, supply := fun _ => 0,
                      tfFees := [], validAddr := fun _ => true, fmPosition := fun _ => none }
def pa' : PoolInfo := { pa with status := { swaps := false } }

theorem run :
    pmExecute s0 env0 "admin" [] (.updateConfig none none none (some ⟨"x", some false, none, none⟩))
      = .ok ({ s0 with pools := [pa', pa'] }, { attrs := [("action", "update_config")] }) := by
  rfl
end CE

/-- `static_fields_immutable` without a hypothesis on `s.pools` does not hold -/
theorem static_fields_immutable_counterexample :
    ¬ (∀ {s s' : PmState} {env : PmEnv} {sender : Addr} {funds : List Coin} {m : PmMsg}
        {r : Response}, pmExecute s env sender funds m = .ok (s', r) →
        ∀ p ∈ s.pools, ∃ p' ∈ s'.pools, StaticEq p p') := by
  intro H
  obtain ⟨p', hp', he⟩ := H CE.run CE.pb (by simp [CE.s0])
  have hd : CE.pb.denoms = p'.denoms := he.2.1
  have : p' = CE.pa' := by
    simp only [List.mem_cons, List.not_mem_nil, or_false, or_self] at hp'
    exact hp'
  subst this
  exact absurd hd (by decide)

/-- … in particular when identifiers are unique -/
theorem static_fields_immutable_of_nodup {s s' : PmState} {env : PmEnv} {sender : Addr}
    {funds : List Coin} {m : PmMsg} {r : Response} (hu : (s.pools.map (·.id)).Nodup)
    (h : pmExecute s env sender funds m = .ok (s', r)) :
    ∀ p ∈ s.pools, ∃ p' ∈ s'.pools, StaticEq p p' :=
  static_fields_immutable_partial (sameIdSameStatic_of_nodup hu) h

/-- the reply handler does not touch pools at all -/
theorem reply_keeps_pools {s s' : PmState} {env : PmEnv} {id : Nat} {r : Response}
    (h : pmReply s env id = .ok (s', r)) : s'.pools = s.pools := by
  unfold pmReply at h
  split at h
  · split at h
    · cases h
    · simp only [ite_err_ok] at h
      obtain ⟨_, _, h⟩ := h
      cases h; rfl
  · cases h

/-- identifiers stay unique -/
theorem ids_unique_preserved {s s' : PmState} {env : PmEnv} {sender : Addr} {funds : List Coin}
    {m : PmMsg} {r : Response} (hu : (s.pools.map (·.id)).Nodup)
    (h : pmExecute s env sender funds m = .ok (s', r)) : (s'.pools.map (·.id)).Nodup := by
  rcases pmExecute_cases h with hs | ⟨d, dc, f, pt, id, rfl, hc⟩ | ⟨s1, cfg, _, hs, rfl⟩ | ⟨o, _, rfl⟩
  · rw [hs.ids]; exact hu
  · obtain ⟨p, hfresh, hpools, _⟩ := createPool_pools hc
    rw [hpools]; exact insertPoolSorted_nodup hfresh hu
  · show (s1.pools.map (·.id)).Nodup
    rw [hs.ids]; exact hu
  · exact hu

/-- reserves stay aligned with `asset_denoms` (this is what finding F-08 broke) -/
theorem aligned_preserved {s s' : PmState} {env : PmEnv} {sender : Addr} {funds : List Coin}
    {m : PmMsg} {r : Response} (ha : ∀ p ∈ s.pools, Aligned p)
    (h : pmExecute s env sender funds m = .ok (s', r)) : ∀ p ∈ s'.pools, Aligned p := by
  rcases pmExecute_cases h with hs | ⟨d, dc, f, pt, id, rfl, hc⟩ | ⟨s1, cfg, _, hs, rfl⟩ | ⟨o, _, rfl⟩
  · exact step_aligned hs ha
  · obtain ⟨p0, _, hpools, _, _, hp0⟩ := createPool_pools hc
    intro q hq
    rw [hpools] at hq
    rcases mem_insertPoolSorted.1 hq with rfl | hq
    · subst hp0
      show List.map (·.denom) (d.map fun x => (⟨x, 0⟩ : Coin)) = d
      rw [List.map_map]
      have : ((fun x : Coin => x.denom) ∘ fun x => (⟨x, 0⟩ : Coin)) = _root_.id := rfl
      rw [this, List.map_id]
    · exact ha q hq
  · exact fun p hp => step_aligned hs ha p hp
  · exact ha

end MantraDex.C16
