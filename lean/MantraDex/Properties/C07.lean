/-
  C07 — Each user's reward is their weight share per epoch, however claims are scheduled.

  The refinement core: the contract's two windowed scans of the (compacted) weight history compute
  the ledger's "weight in effect" (`Spec.weightAt`), compaction at claim time preserves the weight in
  effect from the claimed epoch on (so later claims see the same weights whatever the schedule), and
  a farm's reward terms add up to the ledger entitlement `Spec.spanReward`.
  The end-to-end statement over whole histories (two runs with different claim schedules pay the
  same) is validated by the ledger monitor (`monClaim`) on every generated claim, not proved.
-/
import MantraDex.Model.System
import MantraDex.Spec.Ledger
import MantraDex.Proofs.NumLemmas
import MantraDex.Proofs.FarmLemmas

set_option linter.unusedSimpArgs false
set_option linter.unusedVariables false

namespace MantraDex.C07
open MantraDex

/-- snapshots are kept in ascending epoch order without duplicates -/
def Sorted (h : List (Nat × Nat)) : Prop := h.Pairwise (fun a b => a.1 < b.1)

theorem histSet_sorted {h : List (Nat × Nat)} (hs : Sorted h) (e w : Nat) : Sorted (histSet h e w) := by
  exact Farm.histSet_asc hs e w

/-- `LP_WEIGHT_HISTORY.save` semantics: the written epoch reads back, the others are unchanged -/
theorem histGet_histSet {h : List (Nat × Nat)} (hs : Sorted h) (e w e' : Nat) :
    histGet (histSet h e w) e' = if e' = e then some w else histGet h e' := by
  exact Farm.histGet_histSet h e w e'

/-- weight in effect after a write at epoch `e`: unchanged before `e`, the new value from `e` up to
    the next snapshot -/
theorem weightAt_histSet_before {h : List (Nat × Nat)} (hs : Sorted h) (e w e' : Nat) (hlt : e' < e) :
    Spec.weightAt (histSet h e w) e' = Spec.weightAt h e' := by
  exact Farm.wAtD_histSet_before 0 h e w e' hlt

/-- the user scan (`compute_address_weights`) over [start−1, until], when no snapshot lies before
    start−1, yields for every epoch of the window the ledger's weight in effect -/
theorem address_scan_eq_weightAt {h : List (Nat × Nat)} {startFrom until_ : Nat}
    {ws : List (Nat × Nat)} (hs : Sorted h) (hpos : 0 < startFrom)
    (hno : ∀ x ∈ h, startFrom - 1 ≤ x.1)
    (hw : computeAddressWeights h startFrom until_ = .ok ws) :
    ∀ e, startFrom - 1 ≤ e → e ≤ until_ → lookupW ws e = some (Spec.weightAt h e) := by
  exact Farm.address_scan hs hno hw

/-- the total-weight scan (`compute_contract_weights`, after the F-06 fix) yields the ledger's
    weight in effect for every epoch of [start, until] at or after the earliest snapshot, and has no
    entry (read as 0 = the ledger's value) before it -/
theorem contract_scan_eq_weightAt {h : List (Nat × Nat)} {startFrom until_ : Nat}
    {ws : List (Nat × Nat)} (hs : Sorted h)
    (hw : computeContractWeights h startFrom until_ = .ok ws) :
    ∀ e, startFrom ≤ e → e ≤ until_ → (lookupW ws e).getD 0 = Spec.weightAt h e := by
  exact Farm.contract_scan hs hw

/-- compaction at claim time (after the F-04 fix) preserves the weight in effect at every epoch
    from the claimed epoch on — the heart of schedule independence -/
theorem sync_preserves_weightAt {s s' : FmState} {a : Addr} {lp : Denom} {epoch : Nat}
    (hs : Sorted (s.hist a lp)) (h : syncHistory s a lp epoch true = .ok s') :
    Sorted (s'.hist a lp) ∧ (∀ e, epoch ≤ e → Spec.weightAt (s'.hist a lp) e = Spec.weightAt (s.hist a lp) e) ∧
    (∀ x ∈ s'.hist a lp, epoch ≤ x.1 ∨ (s.hist a lp).all (fun y => epoch < y.1) = true) ∧
    (∀ a' d', (a', d') ≠ (a, lp) → s'.hist a' d' = s.hist a' d') := by
  obtain ⟨h1, h2, h3, h4, _⟩ := Farm.sync_spec hs h
  exact ⟨h1, h2, h3, h4⟩

/-- a farm's reward terms add up to the ledger's entitlement for the span, when the scans agree with
    the ledger weights on the span -/
theorem farm_terms_sum_eq_ledger {f : Farm} {uw cw uh th : List (Nat × Nat)} {startFrom until_ : Nat}
    {terms : List (Nat × Nat)}
    (hu : ∀ e, startFrom ≤ e → e ≤ until_ → lookupW uw e = some (Spec.weightAt uh e))
    (hc : ∀ e, startFrom ≤ e → e ≤ until_ → (lookupW cw e).getD 0 = Spec.weightAt th e)
    (h : farmRewardTerms f uw cw startFrom until_ = .ok terms) :
    (terms.map (·.2)).foldl (· + ·) 0 =
      Spec.spanReward ⟨f.emissionRate, f.startEpoch, f.endEpoch⟩ uh th startFrom until_ := by
  exact Farm.farm_terms_sum hu hc h

/-- each per-epoch payment is the floor of the exact share: never more, less by under one unit -/
theorem epoch_share_floor {rate u tot : Nat} (htot : tot ≠ 0) :
    (rate * u / tot) * tot ≤ rate * u ∧ rate * u < (rate * u / tot + 1) * tot := by
  have hpos : 0 < tot := Nat.pos_of_ne_zero htot
  refine ⟨Nat.div_mul_le_self _ _, ?_⟩
  rw [Nat.mul_comm (rate * u / tot + 1) tot]
  exact Nat.lt_mul_div_succ _ hpos

/-- the Rewards query and the claim go through the same `calculate_rewards`: for a user whose open
    positions are all in one LP token, the coins an accepted claim sends are exactly what the query
    returns on the same state -/
theorem query_eq_claim_single_lp {s s' : FmState} {env : FmEnv} {sender : Addr} {u : Option Nat}
    {r : Response} {lp : Denom}
    (hv : env.validAddr sender = true)
    (hone : uniqueDenoms (s.positionsBy sender true) = [lp])
    (h : fmClaim s env sender [] u = .ok (s', r)) :
    ∃ coins, queryRewards s env sender u = .ok coins ∧
      r.msgs.map (·.msg) = (if coins.isEmpty then [] else [Msg.bankSend sender coins]) := by
  exact Farm.query_eq_claim hv hone h

end MantraDex.C07
