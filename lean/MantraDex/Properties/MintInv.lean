/-
  The history streams contain, besides transactions, the line `mint <user> <coins>`: the chain's bank module hands a user
  account new tokens (`BankSudo::Mint`; this is how an account comes to hold amounts near the top of u128).  It is not a
  transaction of the model (`Tx` has no such constructor): the driver applies `Bank.mint` to the world between two
  transactions (`Driver/HistStream.lean`, case "mint").  The theorems about histories quantify over every start world that
  satisfies the reachable invariants — so what has to be shown is that such a mint PRESERVES those invariants: then every
  theorem of the form "Inv w → … for every history from w" applies to the world after the mint.

  `mintWorld` below is exactly what the driver does (the call counter and fault plan of the bank are left as they were).

  Prove preservation for EVERY world-level invariant structure that theorems of `Properties/` start from and that mentions the
  bank.  The list below is my reading of the code base; if you find another invariant structure over `World` that mentions
  `w.bank` and is used as the hypothesis of a `…_reachable` / `…_step` theorem, add the corresponding theorem.
  Hypotheses allowed: the receiver is an ordinary account (`isContract to = false`, hence ≠ PM, FM, …); the minted denoms are
  not factory tokens (`isFactoryToken c.denom = false` — the harness mints base denoms only; an LP-token-like denom would break
  `AllInv.fresh`: show that with a counterexample); the coins are non-zero where `Bank.mint` needs it.
  RESULT (proving agent).  All preservation theorems are proved.  Two findings:
  * `isFactoryToken c.denom = false` does NOT protect `AllInv` / `LpInv`: `lpDenomOf PM id` is a factory token only for
    well-formed identifiers, while `fresh` quantifies over all identifiers; "factory/pm/!.LP" is not a factory token and
    minting it breaks both invariants (`mint_nonfactory_breaks_allInv`).  The two theorems are therefore stated as
    `mint_allInv_partial` / `mint_lpInv_partial` with `hlp : NotLp cs` (no minted denom has the form `lpDenomOf PM id`)
    in place of `hd`; `MintL.notLp_of_noPrefix` / `MintL.notLp_of_short` derive it from decidable checks on the denoms.
  * `hto` (the receiver is not a contract) and, for `PmInv` / `FmInv`, `hd` are never needed: dropped everywhere.
  Further invariants covered: `Unfunded`, `Covers`, `AllSys.Pre`, `FmSys.Cov`, `Exact`, `NoSelfPay`, `FarmLimit`, `LpPlain`,
  `FeeSmall`, `Fresh`, `EpochStable`, and the per-transaction invariants `SInv`, `EInv`, `PInv`, `LS`, `LS2`.
-/
import MantraDex.Model.System
import MantraDex.Properties.C01All
import MantraDex.Properties.C01Sys
import MantraDex.Properties.C02Sys
import MantraDex.Properties.C05Sys
import MantraDex.Properties.C10Sys
import MantraDex.Properties.C06Sys
import MantraDex.Proofs.MintLemmas

set_option linter.unusedSimpArgs false
set_option linter.unusedVariables false

namespace MantraDex.MintInv
open MantraDex

/-- what the driver does for an accepted `mint` line -/
def mintWorld (w : World) (to : Addr) (cs : List Coin) : Option World :=
  match ({ w.bank with calls := 0, failAt := none } : Bank).mint to cs with
  | .ok bank => some { w with bank := { bank with calls := w.bank.calls, failAt := w.bank.failAt } }
  | .error _ => none

/-! ### helpers -/

/-- the world after an accepted mint is `w` with another bank, which is `w.bank` after `cs` was minted to `to`
    (`Mints`, `Proofs/BankLemmas.lean`); the call counter and the fault plan are as before; the coin list is accepted
    by the bank module (not all coins are zero) -/
theorem mintWorld_shape {w w' : World} {to : Addr} {cs : List Coin} (h : mintWorld w to cs = some w') :
    ∃ b, w' = { w with bank := b } ∧ Mints w.bank b to cs ∧ b.calls = w.bank.calls ∧ b.failAt = w.bank.failAt ∧
      ∃ r, normalizeCoins cs = .ok r := by
  unfold mintWorld at h
  split at h
  · rename_i bank hb
    cases h
    obtain ⟨hn, m⟩ := mint_spec hb
    exact ⟨_, rfl, ⟨fun x d => m.bal x d, fun d => m.sup d, rfl⟩, rfl, rfl, hn⟩
  · cases h

/-- a mint is accepted exactly when the bank module accepts the coin list (some coin is non-zero) -/
theorem mintWorld_ex (w : World) (to : Addr) {cs r : List Coin} (hn : normalizeCoins cs = .ok r) :
    ∃ w', mintWorld w to cs = some w' := by
  obtain ⟨b, hb⟩ := mint_ex (b := ({ w.bank with calls := 0, failAt := none } : Bank)) (to := to) rfl hn
  unfold mintWorld
  rw [hb]
  exact ⟨_, rfl⟩

/-- no minted denom has the form of an LP denom of the pool manager, `lpDenomOf PM id` for some identifier `id`
    (= `MintL.NotLp`; decidable sufficient conditions: `MintL.notLp_of_noPrefix` — the denom does not start with
    "factory/pm/" — and `MintL.notLp_of_short` — at most 10 characters) -/
abbrev NotLp (cs : List Coin) : Prop := MintL.NotLp cs

/-! ### the effect of a mint -/

/-- nothing but the bank changes, and there only `to`'s balance and the supply of the minted denoms, by the minted amounts -/
theorem mintWorld_effect (w w' : World) (to : Addr) (cs : List Coin) (h : mintWorld w to cs = some w') :
    w'.pm = w.pm ∧ w'.fm = w.fm ∧ w'.em = w.em ∧ w'.fc = w.fc ∧ w'.nowNs = w.nowNs ∧ w'.tfFees = w.tfFees ∧
    (∀ a d, w'.bank.bal a d = w.bank.bal a d + (if a = to then C01.coinsOf cs d else 0)) ∧
    (∀ d, w'.bank.supply d = w.bank.supply d + C01.coinsOf cs d) := by
  obtain ⟨b, rfl, m, -, -, -⟩ := mintWorld_shape h
  exact ⟨rfl, rfl, rfl, rfl, rfl, rfl, m.bal, m.sup⟩

/-- (added) what `mintWorld_effect` does not say: the address validation, the call counter and the fault plan are
    unchanged too -/
theorem mintWorld_rest (w w' : World) (to : Addr) (cs : List Coin) (h : mintWorld w to cs = some w') :
    w'.validAddr = w.validAddr ∧ w'.bank.calls = w.bank.calls ∧ w'.bank.failAt = w.bank.failAt ∧
    w'.fmEnv = w.fmEnv := by
  obtain ⟨b, rfl, m, hc, hf, -⟩ := mintWorld_shape h
  exact ⟨rfl, hc, hf, rfl⟩

/-! ### invariants that speak about the supply of LP denoms: `AllInv`, `LpInv`

  ORIGINAL STATEMENTS (false as stated — `mint_nonfactory_breaks_allInv` below):

    theorem mint_allInv (w w' : World) (to : Addr) (cs : List Coin) (hto : isContract to = false)
        (hd : ∀ c ∈ cs, isFactoryToken c.denom = false)
        (h : mintWorld w to cs = some w') (hinv : C01All.AllInv w) : C01All.AllInv w'

    theorem mint_lpInv (w w' : World) (to : Addr) (cs : List Coin) (hto : isContract to = false)
        (hd : ∀ c ∈ cs, isFactoryToken c.denom = false)
        (h : mintWorld w to cs = some w') (hinv : C02Sys.LpInv w) : C02Sys.LpInv w'

  Why `hd` does not protect the invariant.  `AllInv.fresh` / `LpInv.fresh` say: for EVERY identifier `id` that is not
  the identifier of a pool, `supply (lpDenomOf PM id) = 0` — also for identifiers no pool can ever get (`create_pool`
  validates the identifier).  But `isFactoryToken (lpDenomOf PM id)` holds only for identifiers made of the allowed
  characters and short enough (`isFactoryTokenParts`).  The denom "factory/pm/!.LP" `= lpDenomOf PM "!"` is NOT a
  factory token for the model (`'!'` is not an allowed character), so `hd` allows minting it, and afterwards `fresh`
  fails for `id = "!"`.  (The same holds for, e.g., a 200-character identifier.)

  What is needed instead of `hd` is `hlp : NotLp cs` — no minted denom has the FORM `lpDenomOf PM id`, whatever `id` —
  which the base denoms of the harness satisfy (`MintL.notLp_of_noPrefix`: a denom that does not start with
  "factory/pm/"; `MintL.notLp_of_short`: a denom of at most 10 characters).  With `hlp`, neither `hd` nor `hto` is
  needed (the custody inequalities only get easier whoever receives the tokens; `supplyCovers` is kept by any mint). -/

/-- PARTIAL (`hd` replaced by `hlp : NotLp cs`; `hto` dropped as unnecessary — see the comment above) -/
theorem mint_allInv_partial (w w' : World) (to : Addr) (cs : List Coin) (hlp : NotLp cs)
    (h : mintWorld w to cs = some w') (hinv : C01All.AllInv w) : C01All.AllInv w' := by
  obtain ⟨b, rfl, m, -, -, -⟩ := mintWorld_shape h
  exact MintL.allInv m hlp hinv

/-- PARTIAL (`hd` replaced by `hlp : NotLp cs`; `hto` dropped as unnecessary — see the comment above) -/
theorem mint_lpInv_partial (w w' : World) (to : Addr) (cs : List Coin) (hlp : NotLp cs)
    (h : mintWorld w to cs = some w') (hinv : C02Sys.LpInv w) : C02Sys.LpInv w' := by
  obtain ⟨b, rfl, m, -, -, -⟩ := mintWorld_shape h
  exact MintL.lpInv m hlp hinv

/-! ### invariants with custody inequalities only: `PmInv`, `FmInv`

  Hypotheses dropped w.r.t. the stub (not needed): `hto : isContract to = false` and
  `hd : ∀ c ∈ cs, isFactoryToken c.denom = false` — a mint only raises balances, whoever receives it. -/

theorem mint_pmInv (w w' : World) (to : Addr) (cs : List Coin)
    (h : mintWorld w to cs = some w') (hinv : C01Sys.PmInv w) : C01Sys.PmInv w' := by
  obtain ⟨b, rfl, m, -, -, -⟩ := mintWorld_shape h
  exact MintL.pmInv m hinv

theorem mint_fmInv (w w' : World) (to : Addr) (cs : List Coin)
    (h : mintWorld w to cs = some w') (hinv : C05Sys.FmInv w) : C05Sys.FmInv w' := by
  obtain ⟨b, rfl, m, -, -, -⟩ := mintWorld_shape h
  exact MintL.fmInv m hinv

/-! ### invariants that do not mention the bank: `WInv`, `WCore`, `JInv`

  (`w.fmEnv` is built from the clock, the address validation and the epoch manager's configuration only.)
  Hypothesis dropped w.r.t. the stub (not needed): `hto`. -/

theorem mint_wInv (w w' : World) (to : Addr) (cs : List Coin)
    (h : mintWorld w to cs = some w') (hinv : C10Sys.WInv w) : C10Sys.WInv w' := by
  obtain ⟨b, rfl, -⟩ := mintWorld_shape h
  exact MintL.wInv b hinv

theorem mint_wcore (w w' : World) (to : Addr) (cs : List Coin)
    (h : mintWorld w to cs = some w') (hinv : WSys.WCore w) : WSys.WCore w' := by
  obtain ⟨b, rfl, -⟩ := mintWorld_shape h
  exact MintL.wcore b hinv

theorem mint_jInv {D : Prop} (L : List C06Sys.Entry) (w w' : World) (to : Addr) (cs : List Coin)
    (h : mintWorld w to cs = some w') (hinv : C06Sys.JInv D L w) : C06Sys.JInv D L w' := by
  obtain ⟨b, rfl, -⟩ := mintWorld_shape h
  exact MintL.jInv b hinv

/-! ### further invariants and side conditions over `World` that history theorems start from -/

/-- `C03Sys.Unfunded` (start hypothesis of `cp_value_per_lp_reachable`, `no_history_drains_pool`): mentions the bank;
    no condition needed (a supply that is 0 after the mint was 0 before) -/
theorem mint_unfunded (w w' : World) (to : Addr) (cs : List Coin)
    (h : mintWorld w to cs = some w') (hinv : C03Sys.Unfunded w) : C03Sys.Unfunded w' := by
  obtain ⟨b, rfl, m, -, -, -⟩ := mintWorld_shape h
  exact MintL.unfunded m hinv

/-- the bank invariant `LpSys.Covers` (hypothesis of the `C16Tx` transaction theorems): kept by any mint -/
theorem mint_covers (w w' : World) (to : Addr) (cs : List Coin)
    (h : mintWorld w to cs = some w') (hinv : LpSys.Covers w.bank) : LpSys.Covers w'.bank := by
  obtain ⟨b, rfl, m, -, -, -⟩ := mintWorld_shape h
  exact MintL.covers m hinv

/-- `AllSys.Pre` (`Proofs/AllSysTx.lean`; mentions the bank through `Covers`) -/
theorem mint_pre (w w' : World) (to : Addr) (cs : List Coin)
    (h : mintWorld w to cs = some w') (hinv : AllSys.Pre w) : AllSys.Pre w' := by
  obtain ⟨b, rfl, m, -, -, -⟩ := mintWorld_shape h
  exact MintL.pre m hinv

/-- `FmSys.Cov` (`Proofs/FmSysLemmas.lean`: the farm manager's custody with a pending cost; mentions the bank) -/
theorem mint_fmCov (w w' : World) (to : Addr) (cs : List Coin) (P : Denom → Nat)
    (h : mintWorld w to cs = some w') (hinv : FmSys.Cov w P) : FmSys.Cov w' P := by
  obtain ⟨b, rfl, m, -, -, -⟩ := mintWorld_shape h
  exact MintL.fmCov m hinv

/-- `C10Eq.Exact` (start hypothesis of `exact_reachable`): does not mention the bank -/
theorem mint_exact (w w' : World) (to : Addr) (cs : List Coin)
    (h : mintWorld w to cs = some w') (hinv : C10Eq.Exact w) : C10Eq.Exact w' := by
  obtain ⟨b, rfl, -⟩ := mintWorld_shape h
  exact MintL.exact b hinv

/-- `C01Exact.NoSelfPay` (start hypothesis of `excess_history_exact`): does not mention the bank -/
theorem mint_noSelfPay (w w' : World) (to : Addr) (cs : List Coin)
    (h : mintWorld w to cs = some w') (hinv : C01Exact.NoSelfPay w) : C01Exact.NoSelfPay w' := by
  obtain ⟨b, rfl, -⟩ := mintWorld_shape h
  exact MintL.noSelfPay b hinv

/-- `C11Sys.FarmLimit`, `C02Sys.LpPlain`, `C01Sys.FeeSmall`, `C06Sys.Fresh`: do not mention the bank -/
theorem mint_side (w w' : World) (to : Addr) (cs : List Coin) (h : mintWorld w to cs = some w') :
    (C11Sys.FarmLimit w → C11Sys.FarmLimit w') ∧ (C02Sys.LpPlain w → C02Sys.LpPlain w') ∧
    (C01Sys.FeeSmall w → C01Sys.FeeSmall w') ∧ (C06Sys.Fresh w → C06Sys.Fresh w') := by
  obtain ⟨b, rfl, -⟩ := mintWorld_shape h
  exact ⟨MintL.farmLimit b, MintL.lpPlain b, MintL.feeSmall b, MintL.fresh b⟩

/-- the side condition `C10Sys.EpochStable` (between consecutive states of a history; `C06Sys.Stable` is built from it)
    holds across a mint as long as the clock is in range -/
theorem mint_epochStable (w w' : World) (to : Addr) (cs : List Coin) (h : mintWorld w to cs = some w')
    (hnow : w.nowNs ≤ U64_MAX) :
    C10Sys.EpochStable w w' ∧ w'.fm.config.poolManager = w.fm.config.poolManager := by
  obtain ⟨b, rfl, -⟩ := mintWorld_shape h
  exact ⟨⟨rfl, rfl, hnow⟩, rfl⟩

/-- the invariants carried through ONE transaction by the runtime lifts (`WSys.SInv`, `ExactW.EInv`, `AuthSys.PInv`,
    `LedSys.LS`, `LedSys.LS2`): none mentions the bank (a mint never happens inside a transaction; stated for
    completeness) -/
theorem mint_txInvs (w w' : World) (to : Addr) (cs : List Coin) (h : mintWorld w to cs = some w') :
    (∀ env0, WSys.SInv env0 w → WSys.SInv env0 w') ∧
    (∀ env0 L, ExactW.EInv env0 L w → ExactW.EInv env0 L w') ∧
    (∀ s, AuthSys.PInv s w → AuthSys.PInv s w') ∧
    (∀ env0 P, LedSys.LS env0 P w → LedSys.LS env0 P w') ∧
    (∀ env0 P, LedSys.LS2 env0 P w → LedSys.LS2 env0 P w') := by
  obtain ⟨b, rfl, -⟩ := mintWorld_shape h
  exact ⟨fun _ => MintL.sInv b, fun _ _ => MintL.eInv b, fun _ => MintL.pInv b, fun _ _ => MintL.ls b,
    fun _ _ => MintL.ls2 b⟩

/-! ### counterexamples -/

open MantraDex.C01Exact.Cx (cw cw_allInv)

/-- the start world of the counterexamples (`C01Exact.Cx.cw`: no pools, accounts "alice" and "fm" hold "x", "y",
    "uom") satisfies `LpInv` too -/
theorem cw_lpInv (a b : Addr) (fs : List Farm) : C02Sys.LpInv (cw a b fs) :=
  C02Sys.lp_inv_init_partial _ rfl rfl (cw_allInv a b fs).supplyCovers (fun id => (cw_allInv a b fs).fresh id
    (fun p hp => by cases hp))

/-- minting one unit of `lpDenomOf PM id` when no pool has the identifier `id` breaks `fresh` -/
theorem breaks_fresh {w w' : World} {to : Addr} {id : String} (hnone : ∀ p ∈ w.pm.pools, p.id ≠ id)
    (h : mintWorld w to [⟨lpDenomOf PM id, 1⟩] = some w') :
    w'.bank.supply (lpDenomOf PM id) ≠ 0 ∧ ¬ C01All.AllInv w' ∧ ¬ C02Sys.LpInv w' := by
  obtain ⟨e1, -, -, -, -, -, -, hs⟩ := mintWorld_effect _ _ _ _ h
  have hne : w'.bank.supply (lpDenomOf PM id) ≠ 0 := by
    rw [hs, C01.coinsOf_singleton]
    simp [C01.amt]
  have hnone' : ∀ p ∈ w'.pm.pools, p.id ≠ id := by rw [e1]; exact hnone
  exact ⟨hne, fun hi => hne (hi.fresh id hnone'), fun hi => hne (hi.fresh id hnone')⟩

/-- a mint of an LP-token-like denom is NOT harmless: `AllInv.fresh` (the LP token of a pool that does not exist yet has supply 0)
    fails afterwards — state and prove a concrete instance -/
theorem mint_factory_denom_breaks_fresh :
    ∃ (w w' : World) (to : Addr) (cs : List Coin), isContract to = false ∧ C01All.AllInv w ∧ mintWorld w to cs = some w' ∧
      ¬ C01All.AllInv w' := by
  obtain ⟨w', h⟩ := mintWorld_ex (cw FC FC []) "alice" (cs := [⟨lpDenomOf PM "o.x", 1⟩]) (r := [⟨lpDenomOf PM "o.x", 1⟩])
    (by simp [normalizeCoins])
  exact ⟨cw FC FC [], w', "alice", _, by decide, cw_allInv _ _ _, h, (breaks_fresh (fun p hp => by cases hp) h).2.1⟩

/-- COUNTEREXAMPLE to the original `mint_allInv` / `mint_lpInv`: the denom "factory/pm/!.LP" is not a factory token
    (`isFactoryToken … = false`: '!' is not an allowed character), the receiver is an ordinary account, the start world
    satisfies `AllInv` and `LpInv`, the mint is accepted — and both invariants fail afterwards (`fresh`, `id = "!"`) -/
theorem mint_nonfactory_breaks_allInv :
    ∃ (w w' : World) (to : Addr) (cs : List Coin), isContract to = false ∧
      (∀ c ∈ cs, isFactoryToken c.denom = false) ∧ C01All.AllInv w ∧ C02Sys.LpInv w ∧
      mintWorld w to cs = some w' ∧ ¬ C01All.AllInv w' ∧ ¬ C02Sys.LpInv w' := by
  obtain ⟨w', h⟩ := mintWorld_ex (cw FC FC []) "alice" (cs := [⟨lpDenomOf PM "!", 1⟩]) (r := [⟨lpDenomOf PM "!", 1⟩])
    (by simp [normalizeCoins])
  refine ⟨cw FC FC [], w', "alice", _, by decide, ?_, cw_allInv _ _ _, cw_lpInv _ _ _, h,
    (breaks_fresh (fun p hp => by cases hp) h).2⟩
  intro c hc
  have : c = ⟨lpDenomOf PM "!", 1⟩ := by simpa using hc
  subst this
  exact C01Exact.Cx.plain _ (by decide +kernel)

end MantraDex.MintInv
