/-
  C18 — Epochs partition time: derived ids are monotone and consistent.

  All statements are about `Model/Epoch.lean` (`currentEpoch`, `queryEpoch`, `emInstantiate`,
  `emUpdateConfig`), over `Nat` with the u64 bounds explicit, for every genesis, duration, block
  time (nanoseconds) and epoch id.  No hypothesis restricts the configuration: a zero duration or an
  overflowing product is an *error* of the model exactly where the code errors or panics.
-/
import MantraDex.Model.Epoch
import MantraDex.Proofs.NumLemmas

namespace MantraDex.C18
open MantraDex

theorem nanos_pos : 0 < NANOS := by decide

private theorem elapsed_eq (g nowNs : Nat) :
    (nowNs - g * NANOS) / NANOS = nowNs / NANOS - g := by
  rw [Nat.mul_comm]; exact Nat.sub_mul_div nowNs NANOS g

/-- Characterisation of `queryEpoch`: it answers exactly when nothing overflows, and then with
    `start = genesis + id·duration` (as nanoseconds); never a wrapped value. -/
theorem query_epoch_ok_iff (cfg : EpochConfig) (id i s : Nat) :
    queryEpoch cfg id = .ok (i, s) ↔
      id * cfg.duration ≤ U64_MAX ∧ cfg.genesis + id * cfg.duration ≤ U64_MAX ∧
      (cfg.genesis + id * cfg.duration) * NANOS ≤ U64_MAX ∧
      i = id ∧ s = (cfg.genesis + id * cfg.duration) * NANOS := by
  unfold queryEpoch
  simp only [bind_ok, ckMul_ok, ckAdd_ok, fit_ok, pure_ok, Prod.mk.injEq]
  constructor
  · rintro ⟨m, ⟨h1, rfl⟩, t, ⟨h2, rfl⟩, ns, ⟨h3, rfl⟩, rfl, rfl⟩
    exact ⟨h1, h2, h3, rfl, rfl⟩
  · rintro ⟨h1, h2, h3, rfl, rfl⟩
    exact ⟨_, ⟨h1, rfl⟩, _, ⟨h2, rfl⟩, _, ⟨h3, rfl⟩, rfl, rfl⟩

/-- `epoch_start_eq`: the start time reported for any id is genesis + id × duration. -/
theorem epoch_start_eq (cfg : EpochConfig) (id i s : Nat) (h : queryEpoch cfg id = .ok (i, s)) :
    i = id ∧ s = (cfg.genesis + id * cfg.duration) * NANOS ∧ s ≤ U64_MAX := by
  obtain ⟨_, _, h3, rfl, rfl⟩ := (query_epoch_ok_iff ..).1 h
  exact ⟨rfl, rfl, h3⟩

/-- `current_epoch_defined_iff` + `current_epoch_eq_floor`: the current epoch is defined exactly
    from genesis onward (and while the reported start time is representable); its id is
    ⌊(now − genesis)/duration⌋ and its start is genesis + id·duration. -/
theorem current_epoch_ok_iff (cfg : EpochConfig) (nowNs id s : Nat) :
    currentEpoch cfg nowNs = .ok (id, s) ↔
      cfg.genesis ≤ nowNs / NANOS ∧ cfg.duration ≠ 0 ∧
      id = (nowNs / NANOS - cfg.genesis) / cfg.duration ∧
      (cfg.genesis + id * cfg.duration) * NANOS ≤ U64_MAX ∧
      s = (cfg.genesis + id * cfg.duration) * NANOS := by
  unfold currentEpoch
  split
  next hge =>
    simp only [bind_ok, divFloorFrac_ok, Nat.mul_one, elapsed_eq]
    constructor
    · rintro ⟨e, ⟨hd, _, rfl⟩, hq⟩
      obtain ⟨_, _, h3, rfl, rfl⟩ := (query_epoch_ok_iff ..).1 hq
      exact ⟨hge, hd, rfl, h3, rfl⟩
    · rintro ⟨_, hd, rfl, h3, rfl⟩
      have hN : 1 ≤ NANOS := nanos_pos
      have hb : cfg.genesis + (nowNs / NANOS - cfg.genesis) / cfg.duration * cfg.duration
                  ≤ U64_MAX :=
        Nat.le_trans (Nat.le_mul_of_pos_right _ nanos_pos) h3
      have hid : (nowNs / NANOS - cfg.genesis) / cfg.duration ≤ U64_MAX := by
        have hdpos : 0 < cfg.duration := Nat.pos_of_ne_zero hd
        calc (nowNs / NANOS - cfg.genesis) / cfg.duration
            ≤ (nowNs / NANOS - cfg.genesis) / cfg.duration * cfg.duration :=
              Nat.le_mul_of_pos_right _ hdpos
          _ ≤ U64_MAX := by omega
      refine ⟨_, ⟨hd, hid, rfl⟩, ?_⟩
      exact (query_epoch_ok_iff ..).2 ⟨by omega, hb, h3, rfl, rfl⟩
  next hlt =>
    simp only [reduceCtorEq, false_iff]
    intro ⟨h, _⟩; exact hlt h

/-- queries before genesis fail -/
theorem before_genesis_fails (cfg : EpochConfig) (nowNs : Nat) (h : nowNs / NANOS < cfg.genesis) :
    currentEpoch cfg nowNs = .error .invalidInput := by
  unfold currentEpoch
  have : ¬ (nowNs / NANOS ≥ cfg.genesis) := by omega
  simp [this]

/-- the id never decreases as time advances -/
theorem epoch_id_monotone (cfg : EpochConfig) (t t' id id' s s' : Nat) (hle : t ≤ t')
    (h : currentEpoch cfg t = .ok (id, s)) (h' : currentEpoch cfg t' = .ok (id', s')) :
    id ≤ id' := by
  obtain ⟨_, _, rfl, _, _⟩ := (current_epoch_ok_iff ..).1 h
  obtain ⟨_, _, rfl, _, _⟩ := (current_epoch_ok_iff ..).1 h'
  apply Nat.div_le_div_right
  have : t / NANOS ≤ t' / NANOS := Nat.div_le_div_right hle
  omega

/-- the id increases by exactly one every `duration` seconds -/
theorem epoch_id_steps_by_one (cfg : EpochConfig) (t t' id id' s s' : Nat)
    (hstep : t' / NANOS = t / NANOS + cfg.duration)
    (h : currentEpoch cfg t = .ok (id, s)) (h' : currentEpoch cfg t' = .ok (id', s')) :
    id' = id + 1 := by
  obtain ⟨hg, hd, rfl, _, _⟩ := (current_epoch_ok_iff ..).1 h
  obtain ⟨_, _, rfl, _, _⟩ := (current_epoch_ok_iff ..).1 h'
  rw [hstep]
  have : t / NANOS + cfg.duration - cfg.genesis = (t / NANOS - cfg.genesis) + cfg.duration := by
    omega
  rw [this, Nat.add_div_right _ (Nat.pos_of_ne_zero hd)]

/-- now always lies in [start(current), start(current+1)) — in nanoseconds -/
theorem now_in_epoch_interval (cfg : EpochConfig) (t id s : Nat)
    (h : currentEpoch cfg t = .ok (id, s)) :
    s ≤ t ∧ t < s + cfg.duration * NANOS := by
  obtain ⟨hg, hd, hid, _, rfl⟩ := (current_epoch_ok_iff ..).1 h
  have hdpos : 0 < cfg.duration := Nat.pos_of_ne_zero hd
  have h1 : id * cfg.duration ≤ t / NANOS - cfg.genesis := by
    rw [hid]; exact Nat.div_mul_le_self _ _
  have h2 : t / NANOS - cfg.genesis < (id + 1) * cfg.duration := by
    rw [hid, Nat.mul_comm]; exact Nat.lt_mul_div_succ _ hdpos
  have hlo : cfg.genesis + id * cfg.duration ≤ t / NANOS := by omega
  have hhi : t / NANOS < cfg.genesis + id * cfg.duration + cfg.duration := by
    rw [Nat.add_mul, Nat.one_mul] at h2; omega
  constructor
  · exact (Nat.le_div_iff_mul_le nanos_pos).1 hlo
  · have := (Nat.div_lt_iff_lt_mul nanos_pos).1 hhi
    rw [Nat.add_mul] at this
    exact this

/-- the reported start of the *next* epoch is one duration later (when representable) -/
theorem next_epoch_start (cfg : EpochConfig) (id i s i' s' : Nat)
    (h : queryEpoch cfg id = .ok (i, s)) (h' : queryEpoch cfg (id + 1) = .ok (i', s')) :
    s' = s + cfg.duration * NANOS := by
  obtain ⟨_, rfl, _⟩ := epoch_start_eq _ _ _ _ h
  obtain ⟨_, rfl, _⟩ := epoch_start_eq _ _ _ _ h'
  rw [Nat.add_mul id, Nat.one_mul, ← Nat.add_assoc, Nat.add_mul]

/-- durations below one day and genesis times in the past are never accepted (instantiate) -/
theorem instantiate_enforces (nowNs : Nat) (cfg c : EpochConfig)
    (h : emInstantiate nowNs cfg = .ok c) :
    c = cfg ∧ C.DAY_IN_SECONDS ≤ c.duration ∧ nowNs / NANOS ≤ c.genesis := by
  unfold emInstantiate at h
  split at h
  next hg =>
    simp only [validateEpochDuration, bind_ok] at h
    obtain ⟨_, hv, hp⟩ := h
    split at hv
    next hd => simp at hp; subst hp; exact ⟨rfl, hd, hg⟩
    next => simp at hv
  next => simp at h

/-- … and by `update_config`; an update that carries no epoch config changes nothing -/
theorem update_enforces (nowNs : Nat) (old c : EpochConfig) (new : Option EpochConfig)
    (h : emUpdateConfig nowNs old new = .ok c) :
    (new = none ∧ c = old) ∨
    (new = some c ∧ C.DAY_IN_SECONDS ≤ c.duration ∧ nowNs / NANOS ≤ c.genesis) := by
  unfold emUpdateConfig at h
  cases new with
  | none => simp at h; exact Or.inl ⟨rfl, h.symm⟩
  | some cfg =>
    simp only [validateEpochDuration, bind_ok] at h
    obtain ⟨_, hv, hp⟩ := h
    split at hv
    next hd =>
      split at hp
      next hg => simp at hp; subst hp; exact Or.inr ⟨rfl, hd, hg⟩
      next => simp at hp
    next => simp at hv

/-- the one-day minimum is the generated constant (ties the theorem to the source value) -/
theorem day_is_86400 : C.DAY_IN_SECONDS = 86400 := by decide

/-! Non-vacuity: a concrete configuration and block time meet the hypotheses. -/
example : currentEpoch ⟨86400, 1714057200⟩ (1714143600 * NANOS + 5) =
    .ok (1, 1714143600 * NANOS) := by decide
example : queryEpoch ⟨86400, 1714057200⟩ 3 = .ok (3, (1714057200 + 3 * 86400) * NANOS) := by decide
example : emInstantiate (1714057200 * NANOS) ⟨86400, 1714057200⟩ = .ok ⟨86400, 1714057200⟩ := by
  decide
example : emInstantiate (1714057200 * NANOS) ⟨86399, 1714057200⟩ = .error .invalidInput := by
  decide

end MantraDex.C18
