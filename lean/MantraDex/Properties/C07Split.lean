/-
  C06 / C07 at the level of whole claims.

  * an epoch's emission is never exceeded by the sum of the users' shares (C06, all users at once);
  * the ledger entitlement of a span is the sum of the entitlements of its parts (C07);
  * schedule independence for `Claim`: claiming up to `a` and then up to `b` pays, per denom, exactly
    what a single claim up to `b` pays (C07) — the contract's compaction of the claimed history and
    its claim cursor make the second claim start where the first stopped, with the same weights.
-/
import MantraDex.Model.System
import MantraDex.Spec.Ledger
import MantraDex.Proofs.NumLemmas
import MantraDex.Proofs.FarmLemmas
import MantraDex.Properties.C05
import MantraDex.Properties.C07
import MantraDex.Proofs.SplitLemmas

set_option linter.unusedSimpArgs false
set_option linter.unusedVariables false

namespace MantraDex.C07Split
open MantraDex

/-- C06: for one farm and one epoch, the shares of any set of users whose weights in effect are
    covered by the total weight in effect (C10) add up to at most the epoch's emission -/
theorem epoch_shares_sum_le_rate (f : Spec.LFarm) (th : List (Nat × Nat)) (users : List (List (Nat × Nat)))
    (e : Nat) (hcov : (users.map fun uh => Spec.weightAt uh e).sum ≤ Spec.weightAt th e) :
    (users.map fun uh => Spec.epochShare f uh th e).sum ≤ f.rate := by
  exact Split.epoch_shares_le f th users e hcov

/-- C06: over a span of epochs, all users together are owed at most rate × number of epochs of the span
    that lie in the farm's life -/
theorem span_rewards_sum_le (f : Spec.LFarm) (th : List (Nat × Nat)) (users : List (List (Nat × Nat)))
    (first until_ : Nat)
    (hcov : ∀ e, (users.map fun uh => Spec.weightAt uh e).sum ≤ Spec.weightAt th e) :
    (users.map fun uh => Spec.spanReward f uh th first until_).sum ≤ f.rate * (until_ + 1 - first) := by
  have : (users.map fun uh => Spec.spanReward f uh th first until_) =
      (users.map fun uh =>
        ((List.range (until_ + 1 - first)).map fun i => Spec.epochShare f uh th (first + i)).sum) :=
    List.map_congr_left (fun uh _ => Split.spanReward_eq_sum f uh th first until_)
  rw [this]
  exact Split.span_rewards_le f th users first hcov _

/-- C07: the entitlement of a span is the sum of the entitlements of its two parts -/
theorem spanReward_split (f : Spec.LFarm) (uh th : List (Nat × Nat)) (first mid until_ : Nat)
    (h1 : first ≤ mid + 1) (h2 : mid ≤ until_) :
    Spec.spanReward f uh th first until_ =
      Spec.spanReward f uh th first mid + Spec.spanReward f uh th (mid + 1) until_ := by
  exact Split.spanReward_split f uh th first mid until_ h1 h2

/-- coins of denom `d` a response pays out -/
def paid (r : Response) (d : Denom) : Nat := C05.outflow r.msgs d

/-- C07, schedule independence of `Claim` (one LP token): if a user claims up to epoch `a` and then up
    to epoch `b`, and the single claim up to `b` from the same starting state is accepted as well, the
    two schedules pay exactly the same amount of every denom. -/
theorem claim_split_total {s s1 s2 s' : FmState} {env : FmEnv} {sender : Addr} {a b : Nat}
    {r1 r2 r : Response} {lp : Denom}
    (hself : sender ≠ env.self)
    (hone : uniqueDenoms (s.positionsBy sender true) = [lp])
    (hsu : C07.Sorted (s.hist sender lp)) (hst : C07.Sorted (s.hist env.self lp))
    (hpos : ∀ x ∈ s.hist sender lp, 0 < x.1)
    (hcomp : ∀ l, s.lastClaimed sender = some l → ∀ x ∈ s.hist sender lp, l ≤ x.1)
    (hids : (s.farms.map (·.id)).Nodup)
    (h1 : fmClaim s env sender [] (some a) = .ok (s1, r1))
    (h2 : fmClaim s1 env sender [] (some b) = .ok (s2, r2))
    (h : fmClaim s env sender [] (some b) = .ok (s', r)) :
    ∀ d, paid r1 d + paid r2 d = paid r d := by
  obtain ⟨_, C1, C2, C, hsum⟩ := Split.split_core hself hone hsu hst hcomp hids h1 h2 h
  intro d
  unfold paid
  rw [C1.paid, C2.paid, C.paid]
  exact hsum (fun f => f.assetDenom == d) (fun _ _ => rfl)

/-- … and both schedules leave the same claim cursor and the same claimed amounts in every farm -/
theorem claim_split_state {s s1 s2 s' : FmState} {env : FmEnv} {sender : Addr} {a b : Nat}
    {r1 r2 r : Response} {lp : Denom}
    (hself : sender ≠ env.self)
    (hone : uniqueDenoms (s.positionsBy sender true) = [lp])
    (hsu : C07.Sorted (s.hist sender lp)) (hst : C07.Sorted (s.hist env.self lp))
    (hpos : ∀ x ∈ s.hist sender lp, 0 < x.1)
    (hcomp : ∀ l, s.lastClaimed sender = some l → ∀ x ∈ s.hist sender lp, l ≤ x.1)
    (hids : (s.farms.map (·.id)).Nodup)
    (h1 : fmClaim s env sender [] (some a) = .ok (s1, r1))
    (h2 : fmClaim s1 env sender [] (some b) = .ok (s2, r2))
    (h : fmClaim s env sender [] (some b) = .ok (s', r)) :
    s2.lastClaimed = s'.lastClaimed ∧
    s2.farms.map (fun f => (f.id, f.claimed)) = s'.farms.map (fun f => (f.id, f.claimed)) ∧
    ∀ e, b ≤ e → Spec.weightAt (s2.hist sender lp) e = Spec.weightAt (s'.hist sender lp) e := by
  obtain ⟨hab, C1, C2, C, hsum⟩ := Split.split_core hself hone hsu hst hcomp hids h1 h2 h
  refine ⟨?_, ?_, ?_⟩
  · rw [C2.last, C.last, C1.last]
    funext x
    by_cases hx : x = sender
    · simp only [hx, if_true]
    · simp only [hx, if_false]
  · rw [C2.farms, C.farms, C1.farms, List.map_map, List.map_map, List.map_map]
    apply List.map_congr_left
    intro q _
    simp only [Function.comp, Split.addC, Prod.mk.injEq, true_and]
    rw [Nat.add_assoc]
    congr 1
    exact hsum (fun f => f.id == q.id) (fun _ _ => rfl)
  · intro e he
    rw [C2.weights e he, C.weights e he, C1.weights e (Nat.le_trans hab he)]

end MantraDex.C07Split
