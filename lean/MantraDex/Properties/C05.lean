/-
  C05 — Farm manager always holds every locked LP token and every unclaimed reward.

  Handler-level conservation law.  `liability s d` = Σ recorded position amounts in d + Σ over live
  farms paying d of (funded − claimed).  For every message: what the handler removes from the
  liabilities is at least what it sends out, and what it adds is at most what it received:

      liability s' d + outflow msgs d ≤ liability s d + inflow funds d

  With the bank semantics (balance' = balance + inflow − outflow) this is exactly "balance −
  liability never decreases", hence balance ≥ liability in every reachable state (it starts at 0 ≥ 0).
  The sub-message refunds of `close_farms` are counted in `outflow` whether or not they succeed
  (a failed refund only leaves more in the contract).
-/
import MantraDex.Model.System
import MantraDex.Proofs.NumLemmas

set_option linter.unusedSimpArgs false

namespace MantraDex.C05
open MantraDex

def sumNat (xs : List Nat) : Nat := xs.foldl (· + ·) 0

/-- coins of denom `d` in a coin list -/
def coinsOf (cs : List Coin) (d : Denom) : Nat := sumNat ((cs.filter (·.denom == d)).map (·.amount))

/-- what the farm manager owes in denom `d` -/
def liability (s : FmState) (d : Denom) : Nat :=
  sumNat ((s.positions.filter (·.lpDenom == d)).map (·.amount)) +
  sumNat ((s.farms.filter (·.assetDenom == d)).map fun f => f.assetAmount - f.claimed)

/-- what a response sends out of the contract in denom `d` (only bank sends are ever emitted) -/
def outflow (msgs : List SubMsg) (d : Denom) : Nat :=
  sumNat (msgs.map fun sm => match sm.msg with
    | .bankSend _ cs => coinsOf cs d
    | .bankBurn cs => coinsOf cs d
    | _ => 0)

def Conserves (s s' : FmState) (funds : List Coin) (r : Response) : Prop :=
  ∀ d, liability s' d + outflow r.msgs d ≤ liability s d + coinsOf funds d

/-- farms never claim more than funded (part of the invariant) -/
def ClaimedOk (s : FmState) : Prop := ∀ f ∈ s.farms, f.claimed ≤ f.assetAmount

theorem create_position_conserves {s s' : FmState} {env : FmEnv} {sender : Addr} {funds : List Coin}
    {id : Option String} {u : Nat} {recv : Option Addr} {r : Response}
    (h : createPosition s env sender funds id u recv = .ok (s', r)) : Conserves s s' funds r := by
  sorry

theorem expand_position_conserves {s s' : FmState} {env : FmEnv} {sender : Addr} {funds : List Coin}
    {id : String} {r : Response} (hu : (s.positions.map (·.id)).Nodup)
    (h : expandPosition s env sender funds id = .ok (s', r)) : Conserves s s' funds r := by
  sorry

/-- closing (fully or partially) moves no tokens and keeps the total recorded amount -/
theorem close_position_conserves {s s' : FmState} {env : FmEnv} {sender : Addr} {funds : List Coin}
    {id : String} {lp : Option Coin} {r : Response} (hu : (s.positions.map (·.id)).Nodup)
    (hfresh : s.getPosition (C.AUTO_POSITION_ID_PREFIX ++ toString (s.posCounter + 1)) = none)
    (h : closePosition s env sender funds id lp = .ok (s', r)) : Conserves s s' funds r := by
  sorry

/-- a withdrawal (normal or emergency) sends out at most the recorded amount it deletes -/
theorem withdraw_position_conserves {s s' : FmState} {env : FmEnv} {sender : Addr} {funds : List Coin}
    {id : String} {em : Option Bool} {r : Response} (hu : (s.positions.map (·.id)).Nodup)
    (h : withdrawPosition s env sender funds id em = .ok (s', r)) : Conserves s s' funds r := by
  sorry

/-- a claim sends exactly what it adds to the farms' `claimed_amount` -/
theorem claim_conserves {s s' : FmState} {env : FmEnv} {sender : Addr} {funds : List Coin}
    {u : Option Nat} {r : Response} (hc : ClaimedOk s) (hu : (s.farms.map (·.id)).Nodup)
    (h : fmClaim s env sender funds u = .ok (s', r)) : Conserves s s' funds r ∧ ClaimedOk s' := by
  sorry

theorem create_farm_conserves {s s' : FmState} {env : FmEnv} {sender : Addr} {funds : List Coin}
    {p : FarmParams} {r : Response} (hc : ClaimedOk s) (hu : (s.farms.map (·.id)).Nodup)
    (hfunds : (funds.map (·.denom)).Nodup)
    (h : createFarm s env sender funds p = .ok (s', r)) : Conserves s s' funds r ∧ ClaimedOk s' := by
  sorry

theorem expand_farm_conserves {s s' : FmState} {env : FmEnv} {sender : Addr} {funds : List Coin}
    {p : FarmParams} {r : Response} (hc : ClaimedOk s) (hu : (s.farms.map (·.id)).Nodup)
    (h : expandFarm s env sender funds p = .ok (s', r)) : Conserves s s' funds r ∧ ClaimedOk s' := by
  sorry

theorem close_farm_conserves {s s' : FmState} {sender : Addr} {funds : List Coin} {id : String}
    {r : Response} (hc : ClaimedOk s) (hu : (s.farms.map (·.id)).Nodup)
    (h : closeFarm s sender funds id = .ok (s', r)) : Conserves s s' funds r ∧ ClaimedOk s' := by
  sorry

/-- configuration and ownership messages move nothing -/
theorem config_conserves {s s' : FmState} {env : FmEnv} {sender : Addr} {funds : List Coin}
    {m : FmMsg} {r : Response} (hm : (∃ u, m = .updateConfig u) ∨ (∃ a, m = .updateOwnership a))
    (h : fmExecute s env sender funds m = .ok (s', r)) :
    s'.positions = s.positions ∧ s'.farms = s.farms ∧ r.msgs = [] ∧ funds = [] := by
  sorry

end MantraDex.C05
