/-
  C05 — Farm manager always holds every locked LP token and every unclaimed reward.

  Handler-level conservation law.  `liability s d` = Σ recorded position amounts in d + Σ over live
  farms paying d of (funded − claimed).  For every message: what the handler removes from the
  liabilities is at least what it sends out, and what it adds is at most what it received:

      liability s' d + outflow msgs d ≤ liability s d + inflow funds d

  With the bank semantics (balance' = balance + inflow − outflow) this is exactly "balance −
  liability never decreases", hence balance ≥ liability in every reachable state (it starts at 0 ≥ 0).
  The sub-message refunds of `close_farms` are counted in `outflow` whether or not they succeed
  (a failed refund only leaves more in the contract).
-/
import MantraDex.Model.System
import MantraDex.Proofs.NumLemmas
import MantraDex.Proofs.FarmHandlerLemmas
import MantraDex.Properties.C09
import MantraDex.Properties.C11

set_option linter.unusedSimpArgs false

namespace MantraDex.C05
open MantraDex MantraDex.FH

def sumNat (xs : List Nat) : Nat := xs.foldl (· + ·) 0

/-- coins of denom `d` in a coin list -/
def coinsOf (cs : List Coin) (d : Denom) : Nat := sumNat ((cs.filter (·.denom == d)).map (·.amount))

/-- what the farm manager owes in denom `d` -/
def liability (s : FmState) (d : Denom) : Nat :=
  sumNat ((s.positions.filter (·.lpDenom == d)).map (·.amount)) +
  sumNat ((s.farms.filter (·.assetDenom == d)).map fun f => f.assetAmount - f.claimed)

/-- what a response sends out of the contract in denom `d` (only bank sends are ever emitted) -/
def outflow (msgs : List SubMsg) (d : Denom) : Nat :=
  sumNat (msgs.map fun sm => match sm.msg with
    | .bankSend _ cs => coinsOf cs d
    | .bankBurn cs => coinsOf cs d
    | _ => 0)

def Conserves (s s' : FmState) (funds : List Coin) (r : Response) : Prop :=
  ∀ d, liability s' d + outflow r.msgs d ≤ liability s d + coinsOf funds d

/-- farms never claim more than funded (part of the invariant) -/
def ClaimedOk (s : FmState) : Prop := ∀ f ∈ s.farms, f.claimed ≤ f.assetAmount

/-! ### sums -/

theorem sumNat_eq_sum (xs : List Nat) : sumNat xs = xs.sum := by
  unfold sumNat; exact List.sum_eq_foldl.symm

def posSum (ps : List Position) (d : Denom) : Nat := ((ps.filter (·.lpDenom == d)).map (·.amount)).sum
def farmSum (fs : List Farm) (d : Denom) : Nat :=
  ((fs.filter (·.assetDenom == d)).map fun f => f.assetAmount - f.claimed).sum
def msgOut (d : Denom) (m : Msg) : Nat :=
  match m with
  | .bankSend _ cs => coinsOf cs d
  | .bankBurn cs => coinsOf cs d
  | _ => 0

theorem liability_eq (s : FmState) (d : Denom) : liability s d = posSum s.positions d + farmSum s.farms d := by
  unfold liability posSum farmSum; rw [sumNat_eq_sum, sumNat_eq_sum]

theorem outflow_eq (msgs : List SubMsg) (d : Denom) : outflow msgs d = ((msgs.map (·.msg)).map (msgOut d)).sum := by
  unfold outflow; rw [sumNat_eq_sum, List.map_map]; rfl

theorem coinsOf_eq (cs : List Coin) (d : Denom) : coinsOf cs d = ((cs.filter (·.denom == d)).map (·.amount)).sum := by
  unfold coinsOf; rw [sumNat_eq_sum]

theorem coinsOf_nil (d : Denom) : coinsOf [] d = 0 := by rw [coinsOf_eq]; rfl
theorem coinsOf_cons (c : Coin) (cs : List Coin) (d : Denom) :
    coinsOf (c :: cs) d = (if c.denom == d then c.amount else 0) + coinsOf cs d := by
  rw [coinsOf_eq, coinsOf_eq, List.filter_cons]; split <;> simp
theorem coinsOf_append (a b : List Coin) (d : Denom) : coinsOf (a ++ b) d = coinsOf a d + coinsOf b d := by
  rw [coinsOf_eq, coinsOf_eq, coinsOf_eq, List.filter_append, List.map_append, List.sum_append]
theorem coinsOf_single (c : Coin) (d : Denom) : coinsOf [c] d = if c.denom == d then c.amount else 0 := by
  rw [coinsOf_cons, coinsOf_nil]; simp

theorem posSum_nil (d : Denom) : posSum [] d = 0 := rfl
theorem posSum_cons (p : Position) (ps : List Position) (d : Denom) :
    posSum (p :: ps) d = (if p.lpDenom == d then p.amount else 0) + posSum ps d := by
  unfold posSum; rw [List.filter_cons]; split <;> simp
theorem posSum_perm {a b : List Position} (h : a.Perm b) (d : Denom) : posSum a d = posSum b d := by
  unfold posSum; exact ((h.filter _).map _).sum_nat

theorem farmSum_nil (d : Denom) : farmSum [] d = 0 := rfl
theorem farmSum_cons (f : Farm) (fs : List Farm) (d : Denom) :
    farmSum (f :: fs) d = (if f.assetDenom == d then f.assetAmount - f.claimed else 0) + farmSum fs d := by
  unfold farmSum; rw [List.filter_cons]; split <;> simp
theorem farmSum_append (a b : List Farm) (d : Denom) : farmSum (a ++ b) d = farmSum a d + farmSum b d := by
  unfold farmSum; rw [List.filter_append, List.map_append, List.sum_append]
theorem farmSum_perm {a b : List Farm} (h : a.Perm b) (d : Denom) : farmSum a d = farmSum b d := by
  unfold farmSum; exact ((h.filter _).map _).sum_nat

theorem outflow_nil (d : Denom) : outflow [] d = 0 := by rw [outflow_eq]; rfl
theorem outflow_append (a b : List SubMsg) (d : Denom) : outflow (a ++ b) d = outflow a d + outflow b d := by
  simp only [outflow_eq, List.map_append, List.sum_append]
theorem outflow_ofMsgs (ms : List Msg) (d : Denom) :
    outflow (ms.map fun m => ({ msg := m } : SubMsg)) d = (ms.map (msgOut d)).sum := by
  rw [outflow_eq, List.map_map, List.map_map]; rfl

/-- a response without messages and an unchanged ledger -/
theorem conserves_of_eq {s s' : FmState} {funds : List Coin} {r : Response}
    (hm : r.msgs = []) (h : ∀ d, liability s' d ≤ liability s d + coinsOf funds d) : Conserves s s' funds r := by
  intro d; rw [hm, outflow_nil]; exact h d

theorem posSum_save_new {s : FmState} {p : Position} (h : s.getPosition p.id = none) (d : Denom) :
    posSum (s.savePosition p).positions d = (if p.lpDenom == d then p.amount else 0) + posSum s.positions d := by
  rw [posSum_perm (savePosition_perm_new h), posSum_cons]

theorem posSum_pull {ps : List Position} {p0 : Position} (hn : (ps.map (·.id)).Nodup) (hp0 : p0 ∈ ps) (d : Denom) :
    posSum ps d = (if p0.lpDenom == d then p0.amount else 0) + posSum (ps.filter (·.id != p0.id)) d := by
  rw [posSum_perm (perm_cons_filter_key Position.id ps p0 hn hp0), posSum_cons]

theorem posSum_save_replace {s : FmState} {p p0 : Position} (hn : (s.positions.map (·.id)).Nodup)
    (hp0 : p0 ∈ s.positions) (hid : p.id = p0.id) (d : Denom) :
    posSum (s.savePosition p).positions d + (if p0.lpDenom == d then p0.amount else 0) =
      (if p.lpDenom == d then p.amount else 0) + posSum s.positions d := by
  rw [posSum_perm (savePosition_perm_replace hn hp0 hid), posSum_cons, posSum_pull hn hp0 d]
  omega

theorem createPosition_core {s s1 s3 : FmState} {env : FmEnv} {rcv : Addr} {u : Nat} {lp : Coin} {funds : List Coin}
    {p : Position} {r : Response}
    (hp : s1.positions = s.positions) (hf : s1.farms = s.farms)
    (hnone : ¬ (s1.getPosition p.id).isSome = true) (hd : p.lpDenom = lp.denom) (ha : p.amount = lp.amount)
    (hfunds : oneCoin funds = .ok lp) (hr : r.msgs = [])
    (h : updateWeights (s1.savePosition p) env rcv lp.denom lp.amount u true = .ok s3) :
    Conserves s s3 funds r := by
  obtain ⟨h1, h2⟩ := updateWeights_frame h
  have hnone' : s1.getPosition p.id = none := by
    cases hg : s1.getPosition p.id with
    | none => rfl
    | some x => rw [hg] at hnone; simp at hnone
  apply conserves_of_eq hr
  intro d
  rw [liability_eq, liability_eq, h1, h2, savePosition_farms, hf, posSum_save_new hnone', hp,
    oneCoin_ok hfunds, coinsOf_single, hd, ha]
  omega

theorem create_position_conserves {s s' : FmState} {env : FmEnv} {sender : Addr} {funds : List Coin}
    {id : Option String} {u : Nat} {recv : Option Addr} {r : Response}
    (h : createPosition s env sender funds id u recv = .ok (s', r)) : Conserves s s' funds r := by
  unfold createPosition at h
  have hp : (match id with
      | some i => (C.EXPLICIT_POSITION_ID_PREFIX ++ i, s)
      | none => (C.AUTO_POSITION_ID_PREFIX ++ toString (s.posCounter + 1),
          ({ s with posCounter := s.posCounter + 1 } : FmState))).2.positions = s.positions := by
    cases id <;> rfl
  have hf : (match id with
      | some i => (C.EXPLICIT_POSITION_ID_PREFIX ++ i, s)
      | none => (C.AUTO_POSITION_ID_PREFIX ++ toString (s.posCounter + 1),
          ({ s with posCounter := s.posCounter + 1 } : FmState))).2.farms = s.farms := by
    cases id <;> rfl
  cases recv with
  | none =>
    simp only [error_bind, ite_err_ok, bind_ok, pure_ok, Prod.mk.injEq] at h
    obtain ⟨lp, hlp, _, _, rcv, rfl, _, _, hnone, _, s3, hw, rfl, rfl⟩ := h
    exact createPosition_core hp hf hnone rfl rfl hlp rfl hw
  | some rv =>
    simp only [error_bind, ite_err_ok, bind_ok, pure_ok, Prod.mk.injEq] at h
    obtain ⟨lp, hlp, _, _, _, _, rcv, rfl, _, _, hnone, _, s3, hw, rfl, rfl⟩ := h
    exact createPosition_core hp hf hnone rfl rfl hlp rfl hw

theorem expand_position_conserves {s s' : FmState} {env : FmEnv} {sender : Addr} {funds : List Coin}
    {id : String} {r : Response} (hu : (s.positions.map (·.id)).Nodup)
    (h : expandPosition s env sender funds id = .ok (s', r)) : Conserves s s' funds r := by
  unfold expandPosition at h
  cases hg : s.getPosition id with
  | none => simp [hg, bind, Except.bind] at h
  | some p =>
    simp only [hg, error_bind, ite_err_ok, bind_ok, pure_ok, ckAdd_ok, Prod.mk.injEq] at h
    obtain ⟨q, hq, lp, hlp, _, hden, _, _, a, ⟨_, rfl⟩, s2, hw, rfl, rfl⟩ := h
    cases hq
    obtain ⟨hmem, _⟩ := getPosition_some hg
    obtain ⟨h1, h2⟩ := updateWeights_frame hw
    have hden' : p.lpDenom = lp.denom := by simpa using hden
    apply conserves_of_eq rfl
    intro d
    have := posSum_save_replace (p := { p with amount := p.amount + lp.amount }) hu hmem rfl d
    rw [liability_eq, liability_eq, h1, h2, savePosition_farms, oneCoin_ok hlp, coinsOf_single, ← hden']
    simp only at this
    by_cases hd : (p.lpDenom == d) = true
    · simp only [hd, if_true] at this ⊢; omega
    · simp only [hd, if_false, Bool.false_eq_true] at this ⊢; omega

theorem closePosition_tail {s s1 s2 s4 : FmState} {env : FmEnv} {sender : Addr} {funds : List Coin}
    {p p' : Position} {amt : Nat} {lpd : Denom} {r : Response}
    (hfunds : funds = []) (hr : r.msgs = [])
    (hf : s1.farms = s.farms) (hn : (s1.positions.map (·.id)).Nodup) (hp : p ∈ s1.positions)
    (hid : p'.id = p.id)
    (hsum : ∀ d, posSum s1.positions d + (if p'.lpDenom == d then p'.amount else 0) =
      posSum s.positions d + (if p.lpDenom == d then p.amount else 0))
    (hw : updateWeights s1 env sender lpd amt p.unlocking false = .ok s2)
    (hrec : reconcileUserState (s2.savePosition p') env sender lpd = .ok s4) :
    Conserves s s4 funds r := by
  obtain ⟨h1, h2⟩ := updateWeights_frame hw
  obtain ⟨h3, h4⟩ := reconcileUserState_frame hrec
  apply conserves_of_eq hr
  intro d
  have hn2 : (s2.positions.map (·.id)).Nodup := by rw [h1]; exact hn
  have hp2 : p ∈ s2.positions := by rw [h1]; exact hp
  have := posSum_save_replace hn2 hp2 hid d
  have := hsum d
  rw [liability_eq, liability_eq, h3, h4, savePosition_farms, h2, hf, hfunds, coinsOf_nil]
  rw [h1] at *
  omega

/-- closing (fully or partially) moves no tokens and keeps the total recorded amount -/
theorem close_position_conserves {s s' : FmState} {env : FmEnv} {sender : Addr} {funds : List Coin}
    {id : String} {lp : Option Coin} {r : Response} (hu : (s.positions.map (·.id)).Nodup)
    (hfresh : s.getPosition (C.AUTO_POSITION_ID_PREFIX ++ toString (s.posCounter + 1)) = none)
    (h : closePosition s env sender funds id lp = .ok (s', r)) : Conserves s s' funds r := by
  unfold closePosition at h
  simp only [error_bind, ite_err_ok, bind_ok, pure_ok] at h
  obtain ⟨_, hnp, pending, _, _, h⟩ := h
  have hfunds := nonpayable_ok hnp
  cases hg : s.getPosition id with
  | none => simp [hg, bind, Except.bind] at h
  | some p =>
    simp only [hg, error_bind, ite_err_ok, bind_ok, pure_ok, fit_ok, Prod.mk.injEq] at h
    obtain ⟨q, hq, _, _, addNs, _, expNs, _, _, h⟩ := h
    cases hq
    obtain ⟨hmem, _⟩ := getPosition_some hg
    have full : ∀ e, (do
          let __x ← (pure (s, ({ p with open_ := false, expiringAt := some e } : Position), p.amount) :
            R (FmState × Position × Nat))
          let s2 ← updateWeights __x.fst env sender p.lpDenom __x.2.snd p.unlocking false
          let s4 ← reconcileUserState (s2.savePosition __x.2.fst) env sender p.lpDenom
          pure (s4, ({ attrs := [("action", "close_position"), ("close_in_full", toString !__x.2.fst.open_)] } : Response)))
          = .ok (s', r) → Conserves s s' funds r := by
      intro e h
      simp only [bind_ok, pure_ok, Prod.mk.injEq] at h
      obtain ⟨_, rfl, s2, hw, s4, hrec, rfl, rfl⟩ := h
      simp only at hw hrec
      exact closePosition_tail (s1 := s) (p := p)
        (p' := { p with open_ := false, expiringAt := some e }) hfunds rfl rfl hu hmem rfl
        (fun d => rfl) hw hrec
    cases lp with
    | none => exact full _ h
    | some c =>
      simp only [error_bind, ite_err_ok] at h
      obtain ⟨hden, h⟩ := h
      have hden' : c.denom = p.lpDenom := by simpa using hden
      split at h
      · exact full _ h
      · split at h
        next hlt =>
          simp only [error_bind, ite_err_ok, bind_ok, pure_ok, Prod.mk.injEq] at h
          obtain ⟨_, _, rfl, s2, hw, s4, hrec, rfl, rfl⟩ := h
          have hfresh' : ({ s with posCounter := s.posCounter + 1 } : FmState).getPosition
              (C.AUTO_POSITION_ID_PREFIX ++ toString (s.posCounter + 1)) = none := hfresh
          have hperm := savePosition_perm_new (s := { s with posCounter := s.posCounter + 1 })
            (p := { id := C.AUTO_POSITION_ID_PREFIX ++ toString (s.posCounter + 1), lpDenom := c.denom,
                    amount := c.amount, unlocking := p.unlocking, open_ := false,
                    expiringAt := some (expNs / NANOS), receiver := p.receiver }) hfresh'
          simp only at hw hrec
          refine closePosition_tail (p := p) (p' := { p with amount := p.amount - c.amount })
            hfunds rfl ?_ ?_ ?_ rfl ?_ hw hrec
          · exact savePosition_farms _ _
          · rw [(hperm.map _).nodup_iff]
            simp only [List.map_cons, List.nodup_cons]
            exact ⟨getPosition_none_notin hfresh, hu⟩
          · exact hperm.mem_iff.2 (List.mem_cons_of_mem _ hmem)
          · intro d
            rw [posSum_perm hperm, posSum_cons]
            simp only [hden']
            split <;> omega
        next => cases h

theorem msgOut_owner_sum (owners : List Addr) (lp d : Denom) (per : Nat) :
    ((owners.map fun o => Msg.bankSend o [⟨lp, per⟩]).map (msgOut d)).sum =
      owners.length * (if lp == d then per else 0) := by
  induction owners with
  | nil => simp
  | cons o os ih =>
    simp only [List.map_cons, List.sum_cons, List.length_cons, ih, msgOut, coinsOf_single]
    rw [Nat.add_mul, Nat.one_mul, Nat.add_comm]

theorem withdraw_key {s : FmState} {id : String} {p : Position}
    (x : FmState × Nat × List Msg)
    (hu : (s.positions.map (·.id)).Nodup) (hg : s.getPosition id = some p)
    (hp : x.1.positions = s.positions) (hf : x.1.farms = s.farms)
    (hout : ∀ d, (x.2.2.map (msgOut d)).sum + (if p.lpDenom == d then x.2.1 else 0) ≤
      (if p.lpDenom == d then p.amount else 0))
    (s3 : FmState) (h3 : s3.positions = (x.1.removePosition id).positions)
    (h4 : s3.farms = (x.1.removePosition id).farms) :
      Conserves s s3 [] (Response.ofMsgs
                      (x.2.snd ++
                        if x.2.fst ≠ 0 then [Msg.bankSend p.receiver [{ denom := p.lpDenom, amount := x.2.fst }]]
                        else [])
                      [("action", "withdraw_position")]) := by
  obtain ⟨hmem, hid⟩ := getPosition_some hg
  intro d
  have hpull := posSum_pull hu hmem d
  have ho := hout d
  rw [liability_eq, liability_eq, h3, h4]
  unfold FmState.removePosition Response.ofMsgs
  simp only
  rw [hp, hf, outflow_ofMsgs, List.map_append, List.sum_append, coinsOf_nil, ← hid]
  have hpay : ((if x.2.fst ≠ 0 then [Msg.bankSend p.receiver [{ denom := p.lpDenom, amount := x.2.fst }]]
      else []).map (msgOut d)).sum = (if p.lpDenom == d then x.2.1 else 0) := by
    split
    · simp [msgOut, coinsOf_single]
    · have : x.2.1 = 0 := by omega
      simp [this]
  rw [hpay]
  omega

/-- a withdrawal (normal or emergency) sends out at most the recorded amount it deletes -/
theorem withdraw_position_conserves {s s' : FmState} {env : FmEnv} {sender : Addr} {funds : List Coin}
    {id : String} {em : Option Bool} {r : Response} (hu : (s.positions.map (·.id)).Nodup)
    (h : withdrawPosition s env sender funds id em = .ok (s', r)) : Conserves s s' funds r := by
  unfold withdrawPosition at h
  simp only [error_bind, ite_err_ok, bind_ok, pure_ok] at h
  obtain ⟨_, hnp, h⟩ := h
  have hfunds := nonpayable_ok hnp
  subst hfunds
  cases hg : s.getPosition id with
  | none => simp [hg, bind, Except.bind] at h
  | some p =>
    simp only [hg, error_bind, ite_err_ok, bind_ok, pure_ok, fit_ok, Prod.mk.injEq] at h
    obtain ⟨q, hq, _, h⟩ := h
    cases hq
    split at h
    · simp only [bind_ok] at h
      obtain ⟨rate, _, cur, _, active, _, sp, hsp, h⟩ := h
      obtain ⟨_, _, hop, hcases⟩ := C09.penaltySplit_ok hsp
      obtain ⟨hacc, _, _⟩ := C09.split_accounted hsp
      have hout : ∀ d, (((if sp.nFarmOwners = 0 then []
                    else
                      List.map (fun o => Msg.bankSend o [{ denom := p.lpDenom, amount := sp.perFarmOwner }])
                        (uniqueOwners active)) ++
                    if sp.feeCollector > 0 then
                      [Msg.bankSend s.config.feeCollector [{ denom := p.lpDenom, amount := sp.feeCollector }]]
                    else []).map (msgOut d)).sum + (if p.lpDenom == d then p.amount - sp.total else 0) ≤
          (if p.lpDenom == d then p.amount else 0) := by
        intro d
        rw [List.map_append, List.sum_append]
        have h1 : ((if sp.nFarmOwners = 0 then []
                    else
                      List.map (fun o => Msg.bankSend o [{ denom := p.lpDenom, amount := sp.perFarmOwner }])
                        (uniqueOwners active)).map (msgOut d)).sum =
            (if p.lpDenom == d then sp.nFarmOwners * sp.perFarmOwner else 0) := by
          split
          next h0 => simp [h0]
          next h0 =>
            have hn : sp.nFarmOwners = (uniqueOwners active).length := by
              rcases hcases with ⟨_, _, hn, _⟩ | ⟨_, _, hn, _⟩ | ⟨_, _, _, hn, _⟩
              · exact absurd hn h0
              · exact hn
              · exact absurd hn h0
            rw [msgOut_owner_sum, hn]
            split <;> simp
        have h2 : ((if sp.feeCollector > 0 then
                      [Msg.bankSend s.config.feeCollector [{ denom := p.lpDenom, amount := sp.feeCollector }]]
                    else []).map (msgOut d)).sum = (if p.lpDenom == d then sp.feeCollector else 0) := by
          split
          · simp [msgOut, coinsOf_single]
          · have : sp.feeCollector = 0 := by omega
            simp [this]
        rw [h1, h2]
        generalize sp.nFarmOwners * sp.perFarmOwner = Q at *
        split <;> omega
      by_cases hopen : p.open_ = true
      · simp only [hopen, if_true, bind_ok, pure_ok, Prod.mk.injEq] at h
        obtain ⟨s1, hw, x, rfl, s3, hrec, rfl, rfl⟩ := h
        obtain ⟨hp1, hf1⟩ := updateWeights_frame hw
        obtain ⟨h3, h4⟩ := reconcileUserState_frame hrec
        exact withdraw_key (_, _, _) hu hg hp1 hf1 hout _ h3 h4
      · simp only [hopen, if_false, Bool.false_eq_true, bind_ok, pure_ok, Prod.mk.injEq] at h
        obtain ⟨s1, rfl, x, rfl, s3, rfl, rfl, rfl⟩ := h
        exact withdraw_key (_, _, _) hu hg rfl rfl hout _ rfl rfl
    · simp only [error_bind, ite_err_ok] at h
      obtain ⟨_, _, h⟩ := h
      have hout : ∀ d, ((([] : List Msg).map (msgOut d)).sum + (if p.lpDenom == d then p.amount else 0)) ≤
          (if p.lpDenom == d then p.amount else 0) := by intro d; simp
      by_cases hopen : p.open_ = true
      · simp only [hopen, if_true, bind_ok, pure_ok, Prod.mk.injEq] at h
        obtain ⟨x, rfl, s3, hrec, rfl, rfl⟩ := h
        obtain ⟨h3, h4⟩ := reconcileUserState_frame hrec
        exact withdraw_key (_, _, _) hu hg rfl rfl hout _ h3 h4
      · simp only [hopen, if_false, Bool.false_eq_true, bind_ok, pure_ok, Prod.mk.injEq] at h
        obtain ⟨x, rfl, s3, rfl, rfl, rfl⟩ := h
        exact withdraw_key (_, _, _) hu hg rfl rfl hout _ rfl rfl

/-! ### farms -/

theorem farmSum_pull {fs : List Farm} {f0 : Farm} (hn : (fs.map (·.id)).Nodup) (hf0 : f0 ∈ fs) (d : Denom) :
    farmSum fs d = (if f0.assetDenom == d then f0.assetAmount - f0.claimed else 0) +
      farmSum (fs.filter (·.id != f0.id)) d := by
  rw [farmSum_perm (perm_cons_filter_key Farm.id fs f0 hn hf0), farmSum_cons]

theorem farmSum_save_replace {s : FmState} {f f0 : Farm} (hn : (s.farms.map (·.id)).Nodup)
    (hf0 : f0 ∈ s.farms) (hid : f.id = f0.id) (d : Denom) :
    farmSum (s.saveFarm f).farms d + (if f0.assetDenom == d then f0.assetAmount - f0.claimed else 0) =
      (if f.assetDenom == d then f.assetAmount - f.claimed else 0) + farmSum s.farms d := by
  rw [farmSum_perm (saveFarm_perm_replace hn hf0 hid), farmSum_cons, farmSum_pull hn hf0 d]
  omega

theorem farmSum_save_new {s : FmState} {f : Farm} (h : s.farms.any (·.id == f.id) = false) (d : Denom) :
    farmSum (s.saveFarm f).farms d =
      (if f.assetDenom == d then f.assetAmount - f.claimed else 0) + farmSum s.farms d := by
  rw [farmSum_perm (saveFarm_perm_new h), farmSum_cons]

theorem mem_saveFarm_replace {s : FmState} {f f0 g : Farm} (hn : (s.farms.map (·.id)).Nodup)
    (hf0 : f0 ∈ s.farms) (hid : f.id = f0.id) (hg : g ∈ (s.saveFarm f).farms) : g = f ∨ g ∈ s.farms := by
  have := (saveFarm_perm_replace hn hf0 hid).mem_iff.1 hg
  rcases List.mem_cons.1 this with h | h
  · exact Or.inl h
  · exact Or.inr (List.mem_filter.1 h).1

theorem expand_farm_conserves {s s' : FmState} {env : FmEnv} {sender : Addr} {funds : List Coin}
    {p : FarmParams} {r : Response} (hc : ClaimedOk s) (hu : (s.farms.map (·.id)).Nodup)
    (h : expandFarm s env sender funds p = .ok (s', r)) : Conserves s s' funds r ∧ ClaimedOk s' := by
  unfold expandFarm at h
  cases hid : p.farmId with
  | none => simp [hid, bind, Except.bind] at h
  | some fid =>
    simp only [hid, error_bind, ite_err_ok, bind_ok, pure_ok, fit_ok, ckAdd_ok, Prod.mk.injEq] at h
    obtain ⟨fid', hfid', f, hf, _, cur, hcur, hlt, ex, _, _, _, reward, hone, hrw, hden, hrate, hmod, total,
      ⟨_, rfl⟩, extra, ⟨_, rfl⟩, newEnd, ⟨_, rfl⟩, rfl, rfl⟩ := h
    cases hfid'
    obtain ⟨hmem, _⟩ := getFarm_ok hf
    have hden' : f.assetDenom = p.asset.denom := by simpa using hden
    have hrw' : reward = p.asset := by simpa using hrw
    constructor
    · apply conserves_of_eq rfl
      intro d
      have := farmSum_save_replace (f := { f with
          assetAmount := f.assetAmount + reward.amount,
          endEpoch := f.endEpoch + p.asset.amount / f.emissionRate }) hu hmem rfl d
      simp only at this
      rw [liability_eq, liability_eq, saveFarm_positions, oneCoin_ok hone, coinsOf_single, hrw', ← hden']
      rw [hrw'] at this
      by_cases hd : (f.assetDenom == d) = true
      · simp only [hd, if_true] at this ⊢; omega
      · simp only [hd, if_false, Bool.false_eq_true] at this ⊢; omega
    · intro g hg
      rcases mem_saveFarm_replace (f0 := f) hu hmem (by rfl) hg with rfl | hg'
      · have := hc f hmem
        simp only; omega
      · exact hc g hg'

theorem refunds_sum (fs : List Farm) (d : Denom) :
    ((((fs.filter (fun f => f.assetAmount - f.claimed > 0)).map
        (fun f => Msg.bankSend f.owner [⟨f.assetDenom, f.assetAmount - f.claimed⟩]))).map (msgOut d)).sum =
      farmSum fs d := by
  induction fs with
  | nil => rfl
  | cons f fs ih =>
    rw [List.filter_cons, farmSum_cons]
    by_cases hr : f.assetAmount - f.claimed > 0
    · simp only [hr, decide_true, if_true, List.map_cons, List.sum_cons, ih, msgOut, coinsOf_single]
    · have h0 : f.assetAmount - f.claimed = 0 := by omega
      have hd : decide (f.assetAmount - f.claimed > 0) = false := by simp [hr]
      rw [if_neg (by rw [hd]; simp), ih, h0]
      split <;> simp

theorem closeFarms_conserve {s : FmState} {fs : List Farm} (hs : fs.Sublist s.farms)
    (hu : (s.farms.map (·.id)).Nodup) (d : Denom) :
    farmSum (closeFarms s fs).1.farms d + outflow (closeFarms s fs).2 d = farmSum s.farms d := by
  obtain ⟨hm, hf, _, _, _⟩ := closeFarms_spec s fs
  rw [outflow_eq, hm, refunds_sum, hf,
    farmSum_perm (sublist_perm_append_filter Farm.id hs hu) d, farmSum_append]
  omega

theorem closeFarms_mem {s : FmState} {fs : List Farm} {g : Farm} (hg : g ∈ (closeFarms s fs).1.farms) :
    g ∈ s.farms := by
  obtain ⟨_, hf, _, _, _⟩ := closeFarms_spec s fs
  rw [hf] at hg
  exact (List.mem_filter.1 hg).1

theorem close_farm_conserves {s s' : FmState} {sender : Addr} {funds : List Coin} {id : String}
    {r : Response} (hc : ClaimedOk s) (hu : (s.farms.map (·.id)).Nodup)
    (h : closeFarm s sender funds id = .ok (s', r)) : Conserves s s' funds r ∧ ClaimedOk s' := by
  unfold closeFarm at h
  simp only [error_bind, ite_err_ok, bind_ok, pure_ok, Prod.mk.injEq] at h
  obtain ⟨_, hnp, f, hf, _, rfl, rfl⟩ := h
  obtain ⟨hmem, _⟩ := getFarm_ok hf
  have hsub : [f].Sublist s.farms := List.singleton_sublist.2 hmem
  obtain ⟨_, _, hpos, _, _⟩ := closeFarms_spec s [f]
  constructor
  · intro d
    have := closeFarms_conserve hsub hu d
    rw [liability_eq, liability_eq, hpos, nonpayable_ok hnp, coinsOf_nil]
    simp only
    omega
  · intro g hg
    exact hc g (closeFarms_mem hg)

theorem fee_funds_bound {cfg : FmConfig} {sender : Addr} {funds : List Coin} {asset : Coin}
    {feeMsgs : List Msg}
    (hfm : (if cfg.createFarmFee.amount ≠ 0 then processFarmCreationFee cfg sender funds asset
            else pure []) = .ok feeMsgs)
    (hassert : assertFarmAsset funds cfg.createFarmFee asset = .ok ()) (d : Denom) :
    (if asset.denom == d then asset.amount else 0) + (feeMsgs.map (msgOut d)).sum ≤ coinsOf funds d := by
  obtain ⟨A1, A2, A3⟩ := C11.farm_asset_exact hassert
  by_cases hfee0 : cfg.createFarmFee.amount = 0
  · rw [if_neg (by simpa using hfee0)] at hfm
    simp only [pure_ok] at hfm
    subst hfm
    by_cases hden : cfg.createFarmFee.denom = asset.denom
    · rw [A3 hden, coinsOf_single, hfee0]; simp
    · rw [A1 ⟨hden, hfee0⟩, coinsOf_single]; simp
  · rw [if_pos hfee0] at hfm
    obtain ⟨paid, hfind, hle, rfl⟩ := C11.farm_fee_messages hfee0 hfm
    by_cases hden : cfg.createFarmFee.denom = asset.denom
    · have hb : (cfg.createFarmFee.denom == asset.denom) = true := by simp [hden]
      rw [A3 hden, coinsOf_single, if_pos (Or.inr hb)]
      simp only [List.nil_append, List.map_cons, List.map_nil, List.sum_cons,
        List.sum_nil, msgOut, coinsOf_single, hden]
      split <;> omega
    · obtain ⟨hlen, c, hc, hcd, hca⟩ := A2 ⟨hden, hfee0⟩
      have hb : (cfg.createFarmFee.denom == asset.denom) = false := by simp [hden]
      cases hf : funds.find? (fun x => x.denom == cfg.createFarmFee.denom) with
      | none => rw [hf] at hfind; simp at hfind
      | some c' =>
        rw [hf] at hfind
        simp only [Option.map_some, Option.some.injEq] at hfind
        have hc'm := List.mem_of_find?_eq_some hf
        have hc'd : c'.denom = cfg.createFarmFee.denom := by simpa using List.find?_some hf
        have hne : c ≠ c' := by
          intro he; apply hden; rw [← hc'd, ← he, hcd]
        have hmsg : ((((if paid = cfg.createFarmFee.amount ∨ (cfg.createFarmFee.denom == asset.denom) = true then []
              else [Msg.bankSend sender [⟨cfg.createFarmFee.denom, paid - cfg.createFarmFee.amount⟩]]) ++
             [Msg.bankSend cfg.feeCollector [cfg.createFarmFee]]).map (msgOut d)).sum) ≤
            (if cfg.createFarmFee.denom == d then paid else 0) := by
          rw [List.map_append, List.sum_append]
          simp only [hb, Bool.false_eq_true, or_false, List.map_cons, List.map_nil, List.sum_cons,
            List.sum_nil, msgOut, coinsOf_single]
          split
          · simp; split <;> omega
          · simp only [List.map_cons, List.map_nil, List.sum_cons, List.sum_nil, msgOut, coinsOf_single]
            split <;> omega
        have hfunds : coinsOf funds d = (if asset.denom == d then asset.amount else 0) +
            (if cfg.createFarmFee.denom == d then paid else 0) := by
          match funds, hlen, hc, hc'm with
          | [x, y], _, hc, hc'm =>
            simp only [List.mem_cons, List.not_mem_nil, or_false] at hc hc'm
            rw [coinsOf_cons, coinsOf_single]
            rcases hc with rfl | rfl <;> rcases hc'm with rfl | rfl
            · exact absurd rfl hne
            · rw [hcd, hca, hc'd, hfind]
            · rw [hcd, hca, hc'd, hfind, Nat.add_comm]
            · exact absurd rfl hne
        rw [hfunds]
        omega

theorem create_farm_conserves {s s' : FmState} {env : FmEnv} {sender : Addr} {funds : List Coin}
    {p : FarmParams} {r : Response} (hc : ClaimedOk s) (hu : (s.farms.map (·.id)).Nodup)
    (hfunds : (funds.map (·.denom)).Nodup)
    (h : createFarm s env sender funds p = .ok (s', r)) : Conserves s s' funds r ∧ ClaimedOk s' := by
  have _ := hfunds
  obtain ⟨cur, flags, feeMsgs, start, end_, rate, hcur, hflags, _, _, hfm, hassert, _, _, hany,
    rfl, rfl⟩ := createFarm_inv h
  have hsub : (cfExpired s p flags).Sublist s.farms := by
    unfold cfExpired cfFarms FmState.farmsByLp
    exact ((zip_filter_sublist _ _ _).trans (List.take_sublist _ _)).trans List.filter_sublist
  obtain ⟨_, _, hpos, _, _⟩ := closeFarms_spec s (cfExpired s p flags)
  constructor
  · intro d
    have h1 := closeFarms_conserve hsub hu d
    have h2 := fee_funds_bound hfm hassert d
    rw [liability_eq, liability_eq, saveFarm_positions, cfIdState_positions, hpos,
      farmSum_save_new hany, cfIdState_farms]
    simp only
    rw [outflow_append, outflow_ofMsgs]
    simp only [Nat.sub_zero]
    omega
  · intro g hg
    have := (saveFarm_perm_new hany).mem_iff.1 hg
    rcases List.mem_cons.1 this with rfl | hg'
    · exact Nat.zero_le _
    · rw [cfIdState_farms] at hg'
      exact hc g (closeFarms_mem hg')

theorem fmUpdateConfig_frame {s s' : FmState} {env : FmEnv} {sender : Addr} {u : FmConfigUpdate}
    {r : Response} (h : fmUpdateConfig s env sender u = .ok (s', r)) :
    s'.positions = s.positions ∧ s'.farms = s.farms ∧ r.msgs = [] := by
  unfold fmUpdateConfig at h
  simp only [bind_ok, pure_ok] at h
  obtain ⟨_, _, fc, _, em, _, pm, _, h⟩ := h
  iterate 10 (all_goals (try (split at h <;> try simp only [pure_bind, error_bind, reduceCtorEq] at h)))
  all_goals simp only [pure_ok, Prod.mk.injEq] at h
  all_goals obtain ⟨rfl, rfl⟩ := h
  all_goals exact ⟨rfl, rfl, rfl⟩

/-- configuration and ownership messages move nothing -/
theorem config_conserves {s s' : FmState} {env : FmEnv} {sender : Addr} {funds : List Coin}
    {m : FmMsg} {r : Response} (hm : (∃ u, m = .updateConfig u) ∨ (∃ a, m = .updateOwnership a))
    (h : fmExecute s env sender funds m = .ok (s', r)) :
    s'.positions = s.positions ∧ s'.farms = s.farms ∧ r.msgs = [] ∧ funds = [] := by
  rcases hm with ⟨u, rfl⟩ | ⟨a, rfl⟩
  · unfold fmExecute at h
    simp only [bind_ok] at h
    obtain ⟨_, hnp, h⟩ := h
    obtain ⟨h1, h2, h3⟩ := fmUpdateConfig_frame h
    exact ⟨h1, h2, h3, nonpayable_ok hnp⟩
  · unfold fmExecute at h
    simp only [bind_ok, pure_ok, Prod.mk.injEq] at h
    obtain ⟨_, hnp, o, _, rfl, rfl⟩ := h
    exact ⟨rfl, rfl, rfl, nonpayable_ok hnp⟩

/-! ### claim -/

theorem insertCoin_coinsOf (c : Coin) (d : Denom) : ∀ (acc acc' : List Coin), insertCoin c acc = .ok acc' →
    coinsOf acc' d = (if c.denom == d then c.amount else 0) + coinsOf acc d := by
  intro acc
  induction acc with
  | nil =>
    intro acc' h
    unfold insertCoin at h
    simp only [pure_ok] at h; subst h
    rw [coinsOf_single, coinsOf_nil]; rfl
  | cons x xs ih =>
    intro acc' h
    unfold insertCoin at h
    split at h
    next heq =>
      simp only [bind_ok, ckAdd_ok, pure_ok] at h
      obtain ⟨_, ⟨_, rfl⟩, rfl⟩ := h
      have hd : c.denom = x.denom := by simpa using heq
      rw [coinsOf_cons, coinsOf_cons, hd]
      simp only
      split <;> omega
    next =>
      split at h
      · simp only [pure_ok] at h; subst h
        rw [coinsOf_cons]
      · simp only [bind_ok, pure_ok] at h
        obtain ⟨r, hr, rfl⟩ := h
        rw [coinsOf_cons, ih r hr, coinsOf_cons]
        omega

theorem aggregate_fold_coinsOf (d : Denom) : ∀ (cs init r : List Coin),
    cs.foldlM (fun acc c => insertCoin c acc) init = .ok r → coinsOf r d = coinsOf init d + coinsOf cs d := by
  intro cs
  induction cs with
  | nil => intro init r h; simp only [List.foldlM_nil, pure_ok] at h; subst h; rw [coinsOf_nil]; rfl
  | cons c cs ih =>
    intro init r h
    rw [List.foldlM_cons] at h
    simp only [bind_ok] at h
    obtain ⟨a, ha, h⟩ := h
    rw [ih a r h, insertCoin_coinsOf c d init a ha, coinsOf_cons]
    omega

theorem aggregateCoins_coinsOf {cs r : List Coin} (h : aggregateCoins cs = .ok r) (d : Denom) :
    coinsOf r d = coinsOf cs d := by
  unfold aggregateCoins at h
  rw [aggregate_fold_coinsOf d cs [] r h, coinsOf_nil]; omega

theorem ckAdd_fold_sum : ∀ (terms : List (Nat × Nat)) (a0 sum : Nat),
    terms.foldlM (fun a t => ckAdd U128_MAX a t.2) a0 = .ok sum → sum = a0 + (terms.map (·.2)).sum := by
  intro terms
  induction terms with
  | nil => intro a0 sum h; simp only [List.foldlM_nil, pure_ok] at h; subst h; simp
  | cons t ts ih =>
    intro a0 sum h
    rw [List.foldlM_cons] at h
    simp only [bind_ok, ckAdd_ok] at h
    obtain ⟨a, ⟨_, rfl⟩, h⟩ := h
    rw [ih _ _ h]; simp; omega

theorem coinsOf_terms (dn d : Denom) (terms : List (Nat × Nat)) :
    coinsOf ((terms.filter (·.2 > 0)).map fun t => (⟨dn, t.2⟩ : Coin)) d =
      if dn == d then (terms.map (·.2)).sum else 0 := by
  induction terms with
  | nil => rw [List.filter_nil, List.map_nil, coinsOf_nil]; simp
  | cons t ts ih =>
    rw [List.filter_cons]
    by_cases ht : t.2 > 0
    · rw [if_pos (by simpa using ht), List.map_cons, coinsOf_cons, ih]
      simp only [List.map_cons, List.sum_cons]
      split <;> rfl
    · have h0 : t.2 = 0 := by omega
      rw [if_neg (by simpa using ht), ih]
      simp only [List.map_cons, List.sum_cons, h0, Nat.zero_add]

/-- (identifier, reward denom) of every farm -/
def KD (fs : List Farm) : List (String × Denom) := fs.map fun f => (f.id, f.assetDenom)

def modSum (kd : List (String × Denom)) (mods : List (String × Nat)) (d : Denom) : Nat :=
  ((mods.filter fun m => kd.contains (m.1, d)).map (·.2)).sum

theorem modSum_nil (kd : List (String × Denom)) (d : Denom) : modSum kd [] d = 0 := rfl
theorem modSum_cons (kd : List (String × Denom)) (m : String × Nat) (ms : List (String × Nat)) (d : Denom) :
    modSum kd (m :: ms) d = (if kd.contains (m.1, d) then m.2 else 0) + modSum kd ms d := by
  unfold modSum; rw [List.filter_cons]; split <;> simp
theorem modSum_append (kd : List (String × Denom)) (a b : List (String × Nat)) (d : Denom) :
    modSum kd (a ++ b) d = modSum kd a d + modSum kd b d := by
  unfold modSum; rw [List.filter_append, List.map_append, List.sum_append]

theorem KD_ids (fs : List Farm) : (KD fs).map (·.1) = fs.map (·.id) := by
  unfold KD; rw [List.map_map]; rfl

theorem KD_contains {fs : List Farm} (hn : (fs.map (·.id)).Nodup) {f : Farm} (hf : f ∈ fs) (d : Denom) :
    (KD fs).contains (f.id, d) = (f.assetDenom == d) := by
  rw [Bool.eq_iff_iff]
  simp only [List.contains_iff_mem, beq_iff_eq]
  constructor
  · intro hm
    unfold KD at hm
    obtain ⟨g, hg, hgd⟩ := List.mem_map.1 hm
    simp only [Prod.mk.injEq] at hgd
    have := nodup_key_inj Farm.id fs hn g hg f hf hgd.1
    rw [← this]; exact hgd.2
  · intro hd
    unfold KD
    exact List.mem_map.2 ⟨f, hf, by rw [hd]⟩

abbrev CrAcc := List Coin × List (String × Nat) × List (String × Nat × Nat)

theorem crTail_spec {fs : List Farm} (hn : (fs.map (·.id)).Nodup) {f : Farm} (hf : f ∈ fs)
    {h1 h2 : List (Nat × Nat)} {sf u : Nat} {acc acc' : CrAcc}
    (h : (do
      let uw ← computeAddressWeights h1 sf u
      let cw ← computeContractWeights h2 sf u
      let terms ← farmRewardTerms f uw cw sf u
      let coins := (terms.filter (fun (t : Nat × Nat) => t.2 > 0)).map fun (t : Nat × Nat) => (⟨f.assetDenom, t.2⟩ : Coin)
      let sum ← terms.foldlM (fun a (t : Nat × Nat) => ckAdd U128_MAX a t.2) 0
      let modified := if terms.isEmpty then acc.2.1 else acc.2.1 ++ [(f.id, sum)]
      (pure (acc.1 ++ coins, modified, acc.2.2 ++ terms.map fun (t : Nat × Nat) => (f.id, t.1, t.2)) : R CrAcc)) = .ok acc')
    (d : Denom) :
    coinsOf acc'.1 d + modSum (KD fs) acc.2.1 d = coinsOf acc.1 d + modSum (KD fs) acc'.2.1 d := by
  simp only [bind_ok, pure_ok] at h
  obtain ⟨uw, _, cw, _, terms, _, sum, hsum, rfl⟩ := h
  have hs := ckAdd_fold_sum terms 0 sum hsum
  simp only
  rw [coinsOf_append, coinsOf_terms]
  cases terms with
  | nil => simp
  | cons t ts =>
    simp only [List.isEmpty_cons, Bool.false_eq_true, if_false]
    rw [modSum_append, modSum_cons, modSum_nil, KD_contains hn hf d, hs]
    simp only [Nat.zero_add, Nat.add_zero]
    split <;> omega

theorem crStep_spec {s : FmState} {env : FmEnv} {lp : Denom} {recv : Addr} {u : Nat} {last : Option Nat}
    (hn : (s.farms.map (·.id)).Nodup) {f : Farm} (hf : f ∈ s.farms) {acc acc' : CrAcc}
    (h : crStep s env lp recv u last acc f = .ok acc') (d : Denom) :
    coinsOf acc'.1 d + modSum (KD s.farms) acc.2.1 d = coinsOf acc.1 d + modSum (KD s.farms) acc'.2.1 d := by
  unfold crStep at h
  split at h
  · simp only [pure_ok] at h; subst h; rfl
  · cases last with
    | some l =>
      simp only [pure_bind] at h
      exact crTail_spec hn hf h d
    | none =>
      simp only at h
      cases he : histEarliest (s.hist recv f.lpDenom) with
      | none => rw [he] at h; simp only [error_bind] at h; cases h
      | some e =>
        rw [he] at h
        simp only [pure_bind] at h
        exact crTail_spec hn hf h d

theorem crFold_spec {s : FmState} {env : FmEnv} {lp : Denom} {recv : Addr} {u : Nat} {last : Option Nat}
    (hn : (s.farms.map (·.id)).Nodup) (d : Denom) : ∀ (fs : List Farm), (∀ f ∈ fs, f ∈ s.farms) →
    ∀ (acc acc' : CrAcc), fs.foldlM (crStep s env lp recv u last) acc = .ok acc' →
    coinsOf acc'.1 d + modSum (KD s.farms) acc.2.1 d = coinsOf acc.1 d + modSum (KD s.farms) acc'.2.1 d := by
  intro fs
  induction fs with
  | nil => intro _ acc acc' h; simp only [List.foldlM_nil, pure_ok] at h; subst h; rfl
  | cons f fs ih =>
    intro hsub acc acc' h
    rw [List.foldlM_cons] at h
    simp only [bind_ok] at h
    obtain ⟨a, ha, h⟩ := h
    have h1 := crStep_spec hn (hsub f (List.mem_cons_self)) ha d
    have h2 := ih (fun g hg => hsub g (List.mem_cons_of_mem _ hg)) a acc' h
    omega

theorem calculateRewards_spec {s : FmState} {env : FmEnv} {lp : Denom} {recv : Addr} {u : Nat}
    {rc : RewardsCalc} (hn : (s.farms.map (·.id)).Nodup)
    (h : calculateRewards s env lp recv u = .ok rc) (d : Denom) :
    coinsOf rc.rewards d = modSum (KD s.farms) rc.modified d := by
  have tail : ∀ (early : Bool) (last : Option Nat), (if early = true then (pure ⟨[], [], []⟩ : R RewardsCalc) else do
      let r ← (s.farmsByLp lp s.config.maxConcurrentFarms).foldlM (crStep s env lp recv u last) ([], [], [])
      let agg ← aggregateCoins r.1
      pure ⟨agg, r.2.1, r.2.2⟩) = .ok rc → coinsOf rc.rewards d = modSum (KD s.farms) rc.modified d := by
    intro early last h
    split at h
    · simp only [pure_ok] at h; subst h; rw [coinsOf_nil]; rfl
    · simp only [bind_ok, pure_ok] at h
      obtain ⟨r, hr, agg, hagg, rfl⟩ := h
      have := crFold_spec hn d _ (fun f hf => by
        unfold FmState.farmsByLp at hf
        exact (List.mem_filter.1 (List.mem_of_mem_take hf)).1) _ _ hr
      simp only
      rw [aggregateCoins_coinsOf hagg d]
      rw [coinsOf_nil, modSum_nil] at this
      omega
  rw [calculateRewards_eq] at h
  simp only at h
  cases hl : s.lastClaimed recv with
  | none =>
    rw [hl] at h
    simp only [pure_bind] at h
    exact tail _ _ h
  | some l =>
    rw [hl] at h
    simp only at h
    split at h
    · simp only [error_bind] at h; cases h
    · simp only [pure_bind] at h
      exact tail _ _ h

theorem nodup_of_KD {fs : List Farm} {kd : List (String × Denom)} (hkd : KD fs = kd)
    (hnk : (kd.map (·.1)).Nodup) : (fs.map (·.id)).Nodup := by
  rw [← KD_ids, hkd]; exact hnk

theorem claimModStep_spec {kd : List (String × Denom)} (hnk : (kd.map (·.1)).Nodup) {s1 s2 : FmState}
    {m : String × Nat} (hkd : KD s1.farms = kd) (hc : ClaimedOk s1) (h : claimModStep s1 m = .ok s2) :
    KD s2.farms = kd ∧ ClaimedOk s2 ∧ s2.positions = s1.positions ∧
    ∀ d, farmSum s2.farms d + (if kd.contains (m.1, d) then m.2 else 0) = farmSum s1.farms d := by
  have hn := nodup_of_KD hkd hnk
  unfold claimModStep at h
  simp only [error_bind, ite_err_ok, bind_ok, pure_ok, ckAdd_ok] at h
  obtain ⟨f, hf, c, ⟨_, rfl⟩, hle, rfl⟩ := h
  obtain ⟨hmem, hid⟩ := getFarm_ok hf
  refine ⟨?_, ?_, saveFarm_positions _ _, ?_⟩
  · rw [← hkd]
    unfold KD
    refine saveFarm_replace_map (fun f => (f.id, f.assetDenom)) (f0 := f) hmem (by rfl) ?_
    intro q hq hqid
    have := nodup_key_inj Farm.id s1.farms hn q hq f hmem hqid
    rw [this]
  · intro g hg
    rcases mem_saveFarm_replace (f0 := f) hn hmem (by rfl) hg with rfl | hg'
    · simp only; omega
    · exact hc g hg'
  · intro d
    have := farmSum_save_replace (f := { f with claimed := f.claimed + m.2 }) hn hmem rfl d
    simp only at this
    rw [← hid, ← hkd, KD_contains hn hmem d]
    by_cases hd : (f.assetDenom == d) = true
    · simp only [hd, if_true] at this ⊢; omega
    · simp only [hd, if_false, Bool.false_eq_true] at this ⊢; omega

theorem claimModFold_spec {kd : List (String × Denom)} (hnk : (kd.map (·.1)).Nodup) :
    ∀ (mods : List (String × Nat)) (s1 s2 : FmState), KD s1.farms = kd → ClaimedOk s1 →
    mods.foldlM claimModStep s1 = .ok s2 →
    KD s2.farms = kd ∧ ClaimedOk s2 ∧ s2.positions = s1.positions ∧
    ∀ d, farmSum s2.farms d + modSum kd mods d = farmSum s1.farms d := by
  intro mods
  induction mods with
  | nil =>
    intro s1 s2 hkd hc h
    simp only [List.foldlM_nil, pure_ok] at h; subst h
    exact ⟨hkd, hc, rfl, fun d => by rw [modSum_nil]; rfl⟩
  | cons m ms ih =>
    intro s1 s2 hkd hc h
    rw [List.foldlM_cons] at h
    simp only [bind_ok] at h
    obtain ⟨a, ha, h⟩ := h
    obtain ⟨a1, a2, a3, a4⟩ := claimModStep_spec hnk hkd hc ha
    obtain ⟨b1, b2, b3, b4⟩ := ih a s2 a1 a2 h
    refine ⟨b1, b2, by rw [b3, a3], fun d => ?_⟩
    have := a4 d; have := b4 d
    rw [modSum_cons]; omega

theorem claimStep_spec {kd : List (String × Denom)} (hnk : (kd.map (·.1)).Nodup) {env : FmEnv}
    {sender : Addr} {u : Nat} {st st' : FmState × List Coin} {lp : Denom}
    (hkd : KD st.1.farms = kd) (hc : ClaimedOk st.1) (h : claimStep env sender u st lp = .ok st') :
    KD st'.1.farms = kd ∧ ClaimedOk st'.1 ∧ st'.1.positions = st.1.positions ∧
    ∀ d, farmSum st'.1.farms d + coinsOf st'.2 d = farmSum st.1.farms d + coinsOf st.2 d := by
  unfold claimStep at h
  simp only [bind_ok, pure_ok] at h
  obtain ⟨rc, hrc, s1, hfold, s2, hsync, rfl⟩ := h
  obtain ⟨b1, b2, b3, b4⟩ := claimModFold_spec hnk _ _ _ hkd hc hfold
  obtain ⟨hp, hf⟩ := syncHistory_frame hsync
  have hspec := calculateRewards_spec (nodup_of_KD hkd hnk) hrc
  refine ⟨by simp only; rw [hf]; exact b1, ?_, by simp only; rw [hp, b3], fun d => ?_⟩
  · intro g hg; simp only at hg; rw [hf] at hg; exact b2 g hg
  · simp only
    rw [hf, coinsOf_append, hspec d, hkd]
    have := b4 d
    omega

theorem claimFold_spec {kd : List (String × Denom)} (hnk : (kd.map (·.1)).Nodup) {env : FmEnv}
    {sender : Addr} {u : Nat} : ∀ (lps : List Denom) (st st' : FmState × List Coin),
    KD st.1.farms = kd → ClaimedOk st.1 → lps.foldlM (claimStep env sender u) st = .ok st' →
    KD st'.1.farms = kd ∧ ClaimedOk st'.1 ∧ st'.1.positions = st.1.positions ∧
    ∀ d, farmSum st'.1.farms d + coinsOf st'.2 d = farmSum st.1.farms d + coinsOf st.2 d := by
  intro lps
  induction lps with
  | nil =>
    intro st st' hkd hc h
    simp only [List.foldlM_nil, pure_ok] at h; subst h
    exact ⟨hkd, hc, rfl, fun d => rfl⟩
  | cons lp lps ih =>
    intro st st' hkd hc h
    rw [List.foldlM_cons] at h
    simp only [bind_ok] at h
    obtain ⟨a, ha, h⟩ := h
    obtain ⟨a1, a2, a3, a4⟩ := claimStep_spec hnk hkd hc ha
    obtain ⟨b1, b2, b3, b4⟩ := ih a st' a1 a2 h
    refine ⟨b1, b2, by rw [b3, a3], fun d => ?_⟩
    have := a4 d; have := b4 d
    omega

/-- a claim sends exactly what it adds to the farms' `claimed_amount` -/
theorem claim_conserves {s s' : FmState} {env : FmEnv} {sender : Addr} {funds : List Coin}
    {u : Option Nat} {r : Response} (hc : ClaimedOk s) (hu : (s.farms.map (·.id)).Nodup)
    (h : fmClaim s env sender funds u = .ok (s', r)) : Conserves s s' funds r ∧ ClaimedOk s' := by
  rw [fmClaim_eq] at h
  simp only [error_bind, ite_err_ok, bind_ok, pure_ok] at h
  obtain ⟨_, hnp, _, cur, _, untilE, _, ⟨s1, total⟩, hfold, h⟩ := h
  have hnk : ((KD s.farms).map (·.1)).Nodup := by rw [KD_ids]; exact hu
  obtain ⟨b1, b2, b3, b4⟩ := claimFold_spec hnk _ _ _ rfl hc hfold
  simp only at b1 b2 b3 b4 h
  refine ⟨?_, ?_⟩
  rotate_left
  · split at h
    · simp only [bind_ok, pure_ok, Prod.mk.injEq] at h
      obtain ⟨msgs, _, rfl, _⟩ := h
      exact fun g hg => b2 g hg
    · simp only [bind_ok, pure_ok, Prod.mk.injEq] at h
      obtain ⟨agg, _, msgs, _, rfl, _⟩ := h
      exact fun g hg => b2 g hg
  intro d0
  have fin : ∀ msgs : List Msg, (msgs.map (msgOut d0)).sum = coinsOf total d0 →
      liability { s1 with lastClaimed := fun a => if a = sender then some untilE else s1.lastClaimed a } d0 +
        outflow (Response.ofMsgs msgs [("action", "claim")]).msgs d0 ≤ liability s d0 + coinsOf funds d0 := by
    intro msgs hout
    have hb := b4 d0
    rw [coinsOf_nil] at hb
    rw [liability_eq, liability_eq, nonpayable_ok hnp, coinsOf_nil]
    simp only
    rw [b3]
    unfold Response.ofMsgs
    simp only
    rw [outflow_ofMsgs, hout]
    omega
  split at h
  next hemp =>
    simp only [bind_ok, pure_ok, Prod.mk.injEq] at h
    obtain ⟨msgs, rfl, rfl, rfl⟩ := h
    apply fin
    have : total = [] := by simpa using hemp
    rw [this, coinsOf_nil]; rfl
  next =>
    simp only [bind_ok, pure_ok, Prod.mk.injEq] at h
    obtain ⟨agg, hagg, msgs, rfl, rfl, rfl⟩ := h
    apply fin
    simp only [List.map_cons, List.map_nil, List.sum_cons, List.sum_nil, msgOut, Nat.add_zero]
    exact aggregateCoins_coinsOf hagg d0

end MantraDex.C05
