/-
  C01, second sentence: "Any excess over the reported reserves comes only from tokens sent to the contract
  outside pool operations or from the single indivisible unit left by an odd-amount single-asset deposit".

  `C01Sys` / `C01All` prove  reserves ≤ balance  in every reachable state.  Here the EXACT accounting of one
  transaction: for a token that is not a token-factory denom, the pool manager's excess
        excess w d = balance(PM, d) − Σ_pools reserve(d)
  changes, across an accepted transaction of ANY kind by an account, by exactly
    * the coins of a plain bank transfer to the pool manager (a donation),
    * one unit of the deposited denom when the transaction is a single-asset deposit of an odd amount,
    * and nothing else —
  provided nobody has pointed a payment at the pool manager itself (each of these is a "token sent to the contract
  outside pool operations" in the sense of the property).

  RESULT (both theorems proved, hypotheses SHARPENED — the theorems are stronger than first stated).
  The statement as first written asked, in `NoSelfReceiver` / `NoSelfPay`, for eight things; five are needed, three
  are not and have been DROPPED:

    needed (each with a kernel-evaluated execution in `namespace Cx` at the end of the file, all the other
    hypotheses holding):
      1. `NoSelfPay.pmCollector`   pool manager's fee collector ≠ PM      (`Cx.pmCollector_needed`: creation fee)
      2. `NoSelfReceiver`, `Swap`                receiver ≠ some PM        (`Cx.swapReceiver_needed`)
      3. `NoSelfReceiver`, `ExecuteSwapOperations` receiver ≠ some PM      (`Cx.routeReceiver_needed`)
      4. `NoSelfPay.fmCollector`   farm manager's fee collector ≠ PM      (`Cx.fmCollector_needed`: farm creation fee)
      5. `NoSelfPay.farmOwners`    no stored farm is owned by PM           (`Cx.farmOwners_needed`: refund on close;
                                   true in every state a history of external transactions reaches from a farm-free
                                   deployment, but not implied by `AllInv`)
    dropped:
      6. `NoSelfReceiver`, `ProvideLiquidity` receiver ≠ some PM — the receiver of a deposit only ever receives LP
         tokens, which are token-factory denoms (the handler refuses a pool whose LP denom is not one), so a
         non-factory denom is not affected; with `unlocking` the receiver must be the sender anyway.
      7. `NoSelfReceiver`, farm manager `CreatePosition` receiver ≠ some PM — creating a position pays nobody.
      8. `NoSelfPay.positions` (no position names PM as receiver) — `Claim` pays the SENDER, `WithdrawPosition`
         demands receiver = sender, and senders of transactions are accounts (`External`), so a position held for
         the pool manager can never be paid out by a transaction.

  The original definitions, for the record:

      def NoSelfReceiver : Tx → Prop
        | .exec _ _ (.pm (.provideLiquidity _ _ recv ..)) _ => recv ≠ some PM
        | .exec _ _ (.pm (.swap _ _ _ recv _)) _ => recv ≠ some PM
        | .exec _ _ (.pm (.execSwapOps _ _ recv _)) _ => recv ≠ some PM
        | .exec _ _ (.fm (.createPosition _ _ recv)) _ => recv ≠ some PM
        | _ => True
      structure NoSelfPay (w : World) : Prop where
        pmCollector : w.pm.config.feeCollector ≠ PM
        fmCollector : w.fm.config.feeCollector ≠ PM
        farmOwners : ∀ f ∈ w.fm.farms, f.owner ≠ PM
        positions : ∀ p ∈ w.fm.positions, p.receiver ≠ PM

  Nothing else had to be assumed (no link between the two managers' configurations, no farm-manager invariant):
  pool creation pays the token-factory fee (burned) and the creation fee (to the fee collector) out of the creator's
  funds, and the handler law is an equality; the lock call of a locked deposit carries only LP tokens.

  Proof (`Proofs/ExcessTxHandlers.lean`, `Proofs/ExcessTxRun.lean`): per handler, for a non-factory denom,
      reserves' d + out d = reserves d + funds d     and     in d = 0
  (`ExcessTx.handler_exact`; `out` / `in` = what the response's messages take from / bring to the pool manager's
  account), the runtime moves the balance by exactly `funds + in − out` (`LpSys.pm_call`); the single-asset tree
  (`ExcessTx.single_exact`): the self-swap's proceeds are sent to the pool manager itself and are exactly what the
  second leg deposits, the two halves are deposited, `amount − 2·⌊amount/2⌋` stays; a call of another contract pays
  only its fee collector, farm owners and the caller (`LpSys.fmExecute_to`); a plain transfer is the donation.
-/
import MantraDex.Model.System
import MantraDex.Properties.C01All
import MantraDex.Proofs.ExcessTxRun
import MantraDex.Proofs.NonVacBank
import MantraDex.Proofs.NonVacFrame
import MantraDex.Proofs.NonVacTwin

set_option linter.unusedSimpArgs false
set_option linter.unusedVariables false

namespace MantraDex.C01Exact
open MantraDex

/-- the pool manager's balance of `d` beyond the reserves its pools report -/
def excess (w : World) (d : Denom) : Nat := w.bank.bal PM d - C01.reserves w.pm d

/-- coins a transaction donates to the pool manager by a plain bank transfer -/
def donated : Tx → Denom → Nat
  | .send _ to coins, d => if to = PM then C01.coinsOf coins d else 0
  | _, _ => 0

/-- the indivisible unit an odd single-asset deposit leaves behind (pool manager, one coin attached) -/
def oddUnit : Tx → Denom → Nat
  | .exec _ c (.pm (.provideLiquidity ..)) [coin], d =>
      if c = PM ∧ coin.denom = d then coin.amount % 2 else 0
  | _, _ => 0

/-- the transaction does not name the pool manager as the receiver of swap proceeds -/
def NoSelfReceiver : Tx → Prop
  | .exec _ _ (.pm (.swap _ _ _ recv _)) _ => recv ≠ some PM
  | .exec _ _ (.pm (.execSwapOps _ _ recv _)) _ => recv ≠ some PM
  | _ => True

/-- nobody has pointed a payment stream at the pool manager -/
structure NoSelfPay (w : World) : Prop where
  pmCollector : w.pm.config.feeCollector ≠ PM
  fmCollector : w.fm.config.feeCollector ≠ PM
  farmOwners : ∀ f ∈ w.fm.farms, f.owner ≠ PM

/-! ### helpers -/

open MantraDex.ExcessTx (TxExact RecvNotPm)

theorem excess_of_exact {w w0 w' : World} {d : Denom} {g : Nat} (hb : w0.bank.bal = w.bank.bal) (hp : w0.pm = w.pm)
    (hcust : C01.reserves w.pm d ≤ w.bank.bal PM d) (t : TxExact w0 w' d g) : excess w' d = excess w d + g := by
  unfold TxExact at t
  rw [hb, hp] at t
  unfold excess
  omega

theorem recvNotPm_of {sender c : Addr} {m : PmMsg} {funds : List Coin}
    (h : NoSelfReceiver (.exec sender c (.pm m) funds)) : RecvNotPm m := by
  cases m <;> first | exact h | trivial

theorem oddUnit_notSingle {sender c : Addr} {m : PmMsg} {funds : List Coin} (h : SysPm.NotSingle m funds)
    (d : Denom) : oddUnit (.exec sender c (.pm m) funds) d = 0 := by
  cases m with
  | provideLiquidity ls ss rc pid u l =>
    match funds, h with
    | [], _ => rfl
    | [_], h => exact absurd h (by simp [SysPm.NotSingle])
    | _ :: _ :: _, _ => rfl
  | _ => rfl

theorem oddUnit_single (sender : Addr) (ls ss : Option Nat) (rc : Option Addr) (pid : String) (u : Option Nat)
    (l : Option String) (coin : Coin) (d : Denom) :
    oddUnit (.exec sender PM (.pm (.provideLiquidity ls ss rc pid u l)) [coin]) d =
      if coin.denom = d then coin.amount % 2 else 0 := by
  simp only [oddUnit, true_and]

/-- **exact excess accounting of one accepted transaction** -/
theorem excess_tx_exact (w w' : World) (tx : Tx) (k : Option Nat) (hext : C01Sys.External tx)
    (hfee : C01Sys.FeeSmall w) (hinv : C01All.AllInv w) (hself : NoSelfPay w) (hrecv : NoSelfReceiver tx)
    (hr : runTx w tx k = .ok w') (d : Denom) (hd : isFactoryToken d = false) :
    excess w' d = excess w d + donated tx d + oddUnit tx d := by
  have hc : LpSys.Covers w.bank := (C02Sys.covers_iff _).1 hinv.supplyCovers
  have hcust : C01.reserves w.pm d ≤ w.bank.bal PM d := Nat.le_trans (Nat.le_add_right _ _) (hinv.custody d)
  have hpre : AllSys.Pre { w with bank := { w.bank with calls := 0, failAt := k } } :=
    ⟨hc, hinv.wf, hinv.tfNodup, hinv.tfSmall, hfee⟩
  cases tx with
  | exec sender c msg funds =>
    obtain ⟨hsc, hfunds⟩ := hext
    have hs := C02Sys.not_contract_ne_pm hsc
    simp only [runTx] at hr
    have hother : (∀ pm, msg ≠ .pm pm) → excess w' d = excess w d + donated (.exec sender c msg funds) d +
        oddUnit (.exec sender c msg funds) d := by
      intro hm
      have t := ExcessTx.other_exact (n := 63) hs hm hpre.cov hself.fmCollector hself.farmOwners hr d
      have e1 : donated (.exec sender c msg funds) d = 0 := rfl
      have e2 : oddUnit (.exec sender c msg funds) d = 0 := by
        cases msg with
        | pm m => exact absurd rfl (hm m)
        | _ => rfl
      rw [e1, e2]
      exact excess_of_exact rfl rfl hcust t
    cases msg with
    | pm m =>
      have e1 : donated (.exec sender c (.pm m) funds) d = 0 := rfl
      rw [e1]
      rcases ExcessTx.pm_exact hd hs hfunds hpre hself.pmCollector (recvNotPm_of hrecv) hr with
        ⟨hns, t⟩ | ⟨ls, ss, rc, pid, u, l, coin, rfl, rfl, rfl, t⟩
      · rw [oddUnit_notSingle hns]
        exact excess_of_exact rfl rfl hcust t
      · rw [oddUnit_single]
        have := excess_of_exact rfl rfl hcust t
        omega
    | fm m => exact hother (by intro pm e; cases e)
    | em m => exact hother (by intro pm e; cases e)
    | fc m => exact hother (by intro pm e; cases e)
  | send frm to coins =>
    have hs := C02Sys.not_contract_ne_pm hext.1
    simp only [runTx] at hr
    have t := ExcessTx.transfer_exact hs hpre.cov hr d
    have e1 : donated (.send frm to coins) d = if to = PM then C01.coinsOf coins d else 0 := rfl
    have e2 : oddUnit (.send frm to coins) d = 0 := rfl
    rw [e1, e2]
    exact excess_of_exact rfl rfl hcust t
  | advance ns =>
    simp only [runTx, Except.ok.injEq] at hr
    subst hr
    rfl

/-- what the `n`-th transaction of a history adds to the excess: its donation and odd unit if it is accepted -/
def gainAt (w0 : World) (txs : List (Tx × Option Nat)) (d : Denom) (n : Nat) : Nat :=
  match txs[n]? with
  | some t =>
    (match runTx ((txs.take n).foldl (fun w t => step w t.1 t.2) w0) t.1 t.2 with
     | .ok _ => donated t.1 d + oddUnit t.1 d
     | .error _ => 0)
  | none => 0

theorem gainAt_succ (w0 : World) (t : Tx × Option Nat) (rest : List (Tx × Option Nat)) (d : Denom) (n : Nat) :
    gainAt w0 (t :: rest) d (n + 1) = gainAt (step w0 t.1 t.2) rest d n := by
  unfold gainAt
  rw [List.getElem?_cons_succ, List.take_succ_cons, List.foldl_cons]

/-- … a rejected transaction changes nothing (`step`), so along every history the excess is the initial
    excess plus the donations and odd units of the ACCEPTED transactions -/
theorem excess_history_exact (w0 : World) (h0 : C01All.AllInv w0) (txs : List (Tx × Option Nat))
    (hext : ∀ t ∈ txs, C01Sys.External t.1)
    (hfee : ∀ n, C01Sys.FeeSmall ((txs.take n).foldl (fun w t => step w t.1 t.2) w0))
    (hself : ∀ n, NoSelfPay ((txs.take n).foldl (fun w t => step w t.1 t.2) w0))
    (hrecv : ∀ t ∈ txs, NoSelfReceiver t.1) (d : Denom) (hd : isFactoryToken d = false) :
    excess (txs.foldl (fun w t => step w t.1 t.2) w0) d =
      excess w0 d + C01.sumNat ((List.range txs.length).map fun n =>
        match txs[n]? with
        | some t =>
          (match runTx ((txs.take n).foldl (fun w t => step w t.1 t.2) w0) t.1 t.2 with
           | .ok _ => donated t.1 d + oddUnit t.1 d
           | .error _ => 0)
        | none => 0) := by
  show _ = excess w0 d + C01.sumNat ((List.range txs.length).map (gainAt w0 txs d))
  induction txs generalizing w0 with
  | nil => rfl
  | cons t rest ih =>
    have hstep : excess (step w0 t.1 t.2) d = excess w0 d + gainAt w0 (t :: rest) d 0 := by
      have e0 : gainAt w0 (t :: rest) d 0 =
          (match runTx w0 t.1 t.2 with
           | .ok _ => donated t.1 d + oddUnit t.1 d
           | .error _ => 0) := rfl
      rw [e0]
      unfold step
      cases hr : runTx w0 t.1 t.2 with
      | error e => rfl
      | ok w' =>
        have := excess_tx_exact w0 w' t.1 t.2 (hext t (List.mem_cons_self ..)) (hfee 0) h0 (hself 0)
          (hrecv t (List.mem_cons_self ..)) hr d hd
        simp only
        omega
    have hprefix : ∀ n, (List.take n rest).foldl (fun w t => step w t.1 t.2) (step w0 t.1 t.2) =
        (List.take (n + 1) (t :: rest)).foldl (fun w t => step w t.1 t.2) w0 := by
      intro n
      rw [List.take_succ_cons, List.foldl_cons]
    have ih' := ih (step w0 t.1 t.2)
      (C01All.all_inv_step w0 t.1 t.2 (hext t (List.mem_cons_self ..)) (hfee 0) h0)
      (fun t' ht' => hext t' (List.mem_cons_of_mem _ ht'))
      (fun n => by rw [hprefix]; exact hfee (n + 1))
      (fun n => by rw [hprefix]; exact hself (n + 1))
      (fun t' ht' => hrecv t' (List.mem_cons_of_mem _ ht'))
    rw [List.foldl_cons, ih', hstep, List.length_cons, List.range_succ_eq_map, List.map_cons, C01.sumNat_cons,
      List.map_map]
    have hfun : (gainAt w0 (t :: rest) d ∘ Nat.succ) = gainAt (step w0 t.1 t.2) rest d := by
      funext n
      exact gainAt_succ w0 t rest d n
    rw [hfun]
    omega

/-! ### every remaining hypothesis is needed (kernel-evaluated executions)

  One tiny deployment `Cx.cw pmCollector fmCollector farms` (an account `alice` and the farm manager hold 1 000 000 of
  `x`, `y`, `uom` each; creation fee 10 `uom`, token-factory fee 5 `uom`, farm creation fee 10 `uom`), which satisfies
  `AllInv` and `FeeSmall` whatever the parameters.  In each example all hypotheses of `excess_tx_exact` hold except the
  one named, the transaction is accepted, and the excess moves by something else than `donated + oddUnit`.
  Evaluation is by the kernel (`decide +kernel`) on the twin `NonVac.runTxK = runTx` (`String.splitOn` does not
  reduce in the kernel, see `Proofs/NonVacTwin.lean`). -/

namespace Cx

def US : List String := ["alice", "fm"]
def BS : List String := ["x", "y", "uom"]
def own : Ownership := { owner := some "o" }

def cw (pmfc fmfc : Addr) (farms : List Farm) : World :=
  { bank := { bal := fun a d => if US.contains a && BS.contains d then 1000000 else 0,
              supply := fun d => if BS.contains d then 2 * 1000000 else 0 },
    pm := { config := ⟨pmfc, FM, ⟨"uom", 10⟩⟩, owner := own },
    fm := { config := ⟨fmfc, EM, PM, ⟨"uom", 10⟩, 2, 14, 86400, 31556926, 2629746, 0⟩, farms := farms, owner := own },
    em := { cfg := ⟨86400, 1714057200⟩, owner := own }, fc := own, nowNs := 1714057200 * NANOS,
    tfFees := [⟨"uom", 5⟩], validAddr := fun _ => true }

theorem cw_allInv (a b : Addr) (fs : List Farm) : C01All.AllInv (cw a b fs) := by
  refine C01All.all_inv_init _ rfl rfl ?_ ?_ (fun d as hnd => NonVac.genesis_supply_covers US BS 1000000 d as hnd) ?_
  · show ["uom"].Nodup
    simp
  · intro f hf
    have : f = ⟨"uom", 5⟩ := by simpa [cw] using hf
    subst this
    decide
  · intro id
    show (if BS.contains (lpDenomOf PM id) then 2 * 1000000 else 0) = 0
    rw [NonVac.lpDenom_not_short BS (by decide) PM id]
    rfl

theorem cw_feeSmall (a b : Addr) (fs : List Farm) : C01Sys.FeeSmall (cw a b fs) := by
  show 10 ≤ U128_MAX / 2
  decide

theorem plain (d : Denom) (h : NonVac.isFactoryTokenK d = false) : isFactoryToken d = false := by
  rw [← NonVac.isFactoryTokenK_eq]; exact h

/-- from an evaluation on the twin to a statement about `runTx` -/
theorem of_eval {w : World} {tx : Tx} {d : Denom} {n : Nat}
    (h : ((NonVac.runTxK w tx).toOption.map fun w' => excess w' d) = some n) :
    ∃ w', runTx w tx none = .ok w' ∧ excess w' d = n := by
  rw [NonVac.runTxK_eq] at h
  cases hr : runTx w tx none with
  | error e => rw [hr] at h; cases h
  | ok w' =>
    rw [hr] at h
    simp only [Except.toOption, Option.map_some, Option.some.injEq] at h
    exact ⟨w', rfl, h⟩

def createTx : Tx := .exec "alice" PM (.pm (.createPool ["x","y"] [6,6] ⟨0,0,0,[]⟩ .cp (some "q"))) [⟨"uom",15⟩]
def provideTx : Tx :=
  .exec "alice" PM (.pm (.provideLiquidity none none none "o.q" none none)) [⟨"x",100000⟩,⟨"y",100000⟩]
def swapTx : Tx := .exec "alice" PM (.pm (.swap "y" none (some 500000000000000000) (some PM) "o.q")) [⟨"x",10⟩]
def routeTx : Tx :=
  .exec "alice" PM (.pm (.execSwapOps [⟨"x","y","o.q"⟩] none (some PM) (some 500000000000000000))) [⟨"x",10⟩]
def singleTx : Tx := .exec "alice" PM (.pm (.provideLiquidity none (some 500000000000000000) none "o.q" none none)) [⟨"x",101⟩]
def farmTx : Tx :=
  .exec "alice" FM (.fm (.createFarm ⟨lpDenomOf PM "o.q", none, none, ⟨"x", 14000⟩, some "f"⟩)) [⟨"uom", 10⟩, ⟨"x", 14000⟩]
def pmFarm : Farm := { id := "f", owner := PM, lpDenom := lpDenomOf PM "o.q", assetDenom := "uom", assetAmount := 100,
                       claimed := 0, emissionRate := 10, startEpoch := 1, endEpoch := 11 }
def closeTx : Tx := .exec "o" FM (.fm (.closeFarm "f")) []

/-- (1) `pmCollector`: with the pool manager as its own fee collector, the creation fee of a pool (10 `uom`, paid by
    the creator) stays on the pool manager's account: the excess of `uom` grows by 10 -/
theorem pmCollector_needed :
    C01Sys.External createTx ∧ C01Sys.FeeSmall (cw PM FC []) ∧ C01All.AllInv (cw PM FC []) ∧
    (cw PM FC []).fm.config.feeCollector ≠ PM ∧ (∀ f ∈ (cw PM FC []).fm.farms, f.owner ≠ PM) ∧
    NoSelfReceiver createTx ∧ isFactoryToken "uom" = false ∧
    ∃ w', runTx (cw PM FC []) createTx none = .ok w' ∧
      excess w' "uom" ≠ excess (cw PM FC []) "uom" + donated createTx "uom" + oddUnit createTx "uom" := by
  refine ⟨⟨by decide, by decide⟩, cw_feeSmall _ _ _, cw_allInv _ _ _, by decide, (by intro f hf; cases hf), trivial,
    plain _ (by decide +kernel), ?_⟩
  obtain ⟨w', hr, he⟩ := of_eval (w := cw PM FC []) (tx := createTx) (d := "uom") (n := 10) (by decide +kernel)
  refine ⟨w', hr, ?_⟩
  rw [he]
  decide +kernel

/-- (4) `fmCollector`: with the pool manager as the farm manager's fee collector, the farm creation fee (10 `uom`)
    lands on the pool manager's account -/
theorem fmCollector_needed :
    C01Sys.External farmTx ∧ C01Sys.FeeSmall (cw FC PM []) ∧ C01All.AllInv (cw FC PM []) ∧
    (cw FC PM []).pm.config.feeCollector ≠ PM ∧ (∀ f ∈ (cw FC PM []).fm.farms, f.owner ≠ PM) ∧
    NoSelfReceiver farmTx ∧ isFactoryToken "uom" = false ∧
    ∃ w', runTx (cw FC PM []) farmTx none = .ok w' ∧
      excess w' "uom" ≠ excess (cw FC PM []) "uom" + donated farmTx "uom" + oddUnit farmTx "uom" := by
  refine ⟨⟨by decide, by decide⟩, cw_feeSmall _ _ _, cw_allInv _ _ _, by decide, (by intro f hf; cases hf), trivial,
    plain _ (by decide +kernel), ?_⟩
  obtain ⟨w', hr, he⟩ := of_eval (w := cw FC PM []) (tx := farmTx) (d := "uom") (n := 10) (by decide +kernel)
  refine ⟨w', hr, ?_⟩
  rw [he]
  decide +kernel

/-- (5) `farmOwners`: a farm that belongs to the pool manager is closed by the farm manager's owner; the unclaimed
    100 `uom` are refunded to the farm's owner, the pool manager.  (No history of external transactions creates such a
    farm — a farm's owner is the sender of `CreateFarm`, and the pool manager never sends one — but `AllInv` says nothing
    about the farm manager's state, so the theorem needs the hypothesis.) -/
theorem farmOwners_needed :
    C01Sys.External closeTx ∧ C01Sys.FeeSmall (cw FC FC [pmFarm]) ∧ C01All.AllInv (cw FC FC [pmFarm]) ∧
    (cw FC FC [pmFarm]).pm.config.feeCollector ≠ PM ∧ (cw FC FC [pmFarm]).fm.config.feeCollector ≠ PM ∧
    NoSelfReceiver closeTx ∧ isFactoryToken "uom" = false ∧
    ∃ w', runTx (cw FC FC [pmFarm]) closeTx none = .ok w' ∧
      excess w' "uom" ≠ excess (cw FC FC [pmFarm]) "uom" + donated closeTx "uom" + oddUnit closeTx "uom" := by
  refine ⟨⟨by decide, by decide⟩, cw_feeSmall _ _ _, cw_allInv _ _ _, by decide, by decide, trivial,
    plain _ (by decide +kernel), ?_⟩
  obtain ⟨w', hr, he⟩ := of_eval (w := cw FC FC [pmFarm]) (tx := closeTx) (d := "uom") (n := 100) (by decide +kernel)
  refine ⟨w', hr, ?_⟩
  rw [he]
  decide +kernel

/-! the receiver of a swap / a route: from the state reached by creating and funding a pool -/

def hist2 : List (Tx × Option Nat) := [(createTx, none), (provideTx, none)]
def w2 : World := hist2.foldl (fun w t => step w t.1 t.2) (cw FC FC [])
def w2K : World := hist2.foldl (fun w t => NonVac.stepK w t.1 t.2) (cw FC FC [])

theorem w2_eq : w2 = w2K := by
  unfold w2 w2K
  rw [NonVac.stepK_eq]

theorem hist2_external : ∀ t ∈ hist2, C01Sys.External t.1 := by
  intro t ht
  simp only [hist2, List.mem_cons, List.not_mem_nil, or_false] at ht
  rcases ht with rfl | rfl <;> exact ⟨by decide, by decide⟩

theorem hist2_quiet : ∀ t ∈ hist2, NonVac.Quiet t.1 := by
  intro t ht
  simp only [hist2, List.mem_cons, List.not_mem_nil, or_false] at ht
  rcases ht with rfl | rfl <;> exact trivial

theorem hist2_prefix (n : Nat) :
    ((hist2.take n).foldl (fun w t => step w t.1 t.2) (cw FC FC [])).fm.config = (cw FC FC []).fm.config ∧
    ((hist2.take n).foldl (fun w t => step w t.1 t.2) (cw FC FC [])).pm.config = (cw FC FC []).pm.config := by
  have h := NonVac.quiet_prefix (cw FC FC []) hist2 hist2_external hist2_quiet List.nodup_nil n
  exact ⟨h.2.1, h.2.2.1⟩

theorem w2_feeSmall : C01Sys.FeeSmall w2 := by
  unfold C01Sys.FeeSmall
  rw [show w2.pm.config = (cw FC FC []).pm.config from (hist2_prefix 2).2]
  exact cw_feeSmall _ _ _

theorem w2_allInv : C01All.AllInv w2 := by
  refine C01All.all_inv_reachable (cw FC FC []) (cw_allInv _ _ _) hist2 hist2_external ?_
  intro n
  unfold C01Sys.FeeSmall
  rw [(hist2_prefix n).2]
  exact cw_feeSmall _ _ _

theorem w2_noSelfPay : NoSelfPay w2 := by
  refine ⟨?_, ?_, ?_⟩
  · rw [show w2.pm.config = (cw FC FC []).pm.config from (hist2_prefix 2).2]; decide
  · rw [show w2.fm.config = (cw FC FC []).fm.config from (hist2_prefix 2).1]; decide
  · have : w2.fm.farms = [] := by rw [w2_eq]; decide +kernel
    rw [this]
    intro f hf; cases hf

/-- (2) the receiver of a swap: `alice` swaps 10 `x` and names the pool manager as receiver of the 9 `y`; they
    leave the reserves and stay on the pool manager's account -/
theorem swapReceiver_needed :
    C01Sys.External swapTx ∧ C01Sys.FeeSmall w2 ∧ C01All.AllInv w2 ∧ NoSelfPay w2 ∧ isFactoryToken "y" = false ∧
    ∃ w', runTx w2 swapTx none = .ok w' ∧
      excess w' "y" ≠ excess w2 "y" + donated swapTx "y" + oddUnit swapTx "y" := by
  refine ⟨⟨by decide, by decide⟩, w2_feeSmall, w2_allInv, w2_noSelfPay, plain _ (by decide +kernel), ?_⟩
  obtain ⟨w', hr, he⟩ := of_eval (w := w2) (tx := swapTx) (d := "y") (n := 9) (by rw [w2_eq]; decide +kernel)
  refine ⟨w', hr, ?_⟩
  rw [he, w2_eq]
  decide +kernel

/-- (3) the receiver of a route: the same through `ExecuteSwapOperations` -/
theorem routeReceiver_needed :
    C01Sys.External routeTx ∧ C01Sys.FeeSmall w2 ∧ C01All.AllInv w2 ∧ NoSelfPay w2 ∧ isFactoryToken "y" = false ∧
    ∃ w', runTx w2 routeTx none = .ok w' ∧
      excess w' "y" ≠ excess w2 "y" + donated routeTx "y" + oddUnit routeTx "y" := by
  refine ⟨⟨by decide, by decide⟩, w2_feeSmall, w2_allInv, w2_noSelfPay, plain _ (by decide +kernel), ?_⟩
  obtain ⟨w', hr, he⟩ := of_eval (w := w2) (tx := routeTx) (d := "y") (n := 9) (by rw [w2_eq]; decide +kernel)
  refine ⟨w', hr, ?_⟩
  rw [he, w2_eq]
  decide +kernel

/-- the odd unit is real: a single-asset deposit of 101 `x` into the funded pool is accepted and leaves exactly one
    `x` on the pool manager's account beyond the reserves (an instance of `excess_tx_exact`, evaluated) -/
theorem oddUnit_instance :
    ∃ w', runTx w2 singleTx none = .ok w' ∧ excess w2 "x" = 0 ∧ excess w' "x" = 1 ∧ oddUnit singleTx "x" = 1 := by
  obtain ⟨w', hr, he⟩ := of_eval (w := w2) (tx := singleTx) (d := "x") (n := 1) (by rw [w2_eq]; decide +kernel)
  exact ⟨w', hr, by rw [w2_eq]; decide +kernel, he, by decide⟩

end Cx

end MantraDex.C01Exact
