/-
  C15 (+ the authority clauses of C08, C11 and C14), lifted through the runtime: whatever a transaction
  contains — nested calls, replies, rollbacks, injected faults — the privileged state of each of the four
  contracts (configuration, ownership, per-pool switches) changes only when the transaction IS a
  privileged message sent directly to that contract, without funds, by its current owner (or, for
  `accept`, the pending owner); a position changes or disappears only in transactions signed by its owner
  and every new position belongs to the signer (the pool manager is a delegate only for the signer's own
  deposit); a farm grows only in its owner's `ExpandFarm`, and disappears only in a `CloseFarm` by its
  owner or the contract owner, or when somebody creates a farm after it expired.

  The two position theorems need the signer's address to be a valid address (`hv`, `_partial` versions, with
  the original statements and the refuting execution in the `positions` section below).  `hext` is not used by
  the four `*_privileged_frame` theorems nor by the farm theorem (nested calls are never privileged / farm
  messages whoever the signer is); it is kept so that all statements share one signature.
  Helper lemmas: `Proofs/AuthSysLift.lean` (generic lift through `execMsg`/`execSubs`), `AuthSysShapes.lean`
  (what the contracts can emit), `AuthSysPriv.lean`, `AuthSysFarms.lean`, `AuthSysPos.lean`.
-/
import MantraDex.Model.System
import MantraDex.Proofs.NumLemmas
import MantraDex.Properties.C15
import MantraDex.Properties.C08
import MantraDex.Properties.C05Sys
import MantraDex.Properties.C01Sys
import MantraDex.Proofs.AuthSysPriv
import MantraDex.Proofs.AuthSysFarms
import MantraDex.Proofs.AuthSysPos

set_option linter.unusedSimpArgs false
set_option linter.unusedVariables false

namespace MantraDex.C15Sys
open MantraDex

/-- the account that signed a transaction -/
def signer : Tx → Option Addr
  | .exec s _ _ _ => some s
  | .send f _ _ => some f
  | .advance _ => none

/-- who may send an ownership action, given the ownership state -/
def mayOwn (o : Ownership) (sender : Addr) : OwnAction → Prop
  | .transfer _ _ => o.owner = some sender
  | .renounce => o.owner = some sender
  | .accept => o.pending = some sender

theorem mayOwn_of_update {o o' : Ownership} {v : Addr → Bool} {now : Nat} {sender : Addr} {a : OwnAction}
    (h : o.update v now sender a = .ok o') : mayOwn o sender a := by
  have := AuthSys.update_mayOwn h
  cases a <;> exact this

/-- the pool manager's privileged state is untouched -/
def PmPrivSame (w w' : World) : Prop :=
  w'.pm.config = w.pm.config ∧ w'.pm.owner = w.pm.owner ∧
  ∀ p ∈ w.pm.pools, ∃ p' ∈ w'.pm.pools, p'.id = p.id ∧ p'.status = p.status

theorem pm_privileged_frame (w : World) (tx : Tx) (k : Option Nat) (hext : C01Sys.External tx)
    (hids : (w.pm.pools.map (·.id)).Nodup) :
    PmPrivSame w (step w tx k) ∨
    ∃ sender m, tx = .exec sender PM (.pm m) [] ∧
      ((∃ fc fm cf t, m = .updateConfig fc fm cf t ∧ w.pm.owner.owner = some sender) ∨
       (∃ a, m = .updateOwnership a ∧ mayOwn w.pm.owner sender a)) := by
  rcases AuthSys.pm_frame w tx k hids with h | ⟨sender, m, env, r, rfl, hp, hx⟩
  · exact Or.inl h
  · refine Or.inr ⟨sender, m, rfl, ?_⟩
    cases m with
    | updateConfig fc fm cf t =>
      refine Or.inl ⟨fc, fm, cf, t, rfl, ?_⟩
      apply Classical.byContradiction
      intro hno
      exact C15.pm_update_config_requires_owner hno r hx
    | updateOwnership a =>
      refine Or.inr ⟨a, rfl, ?_⟩
      simp only [pmExecute, bind_ok] at hx
      obtain ⟨_, _, o, ho, _⟩ := hx
      exact mayOwn_of_update ho
    | _ => exact hp.elim

theorem fm_privileged_frame (w : World) (tx : Tx) (k : Option Nat) (hext : C01Sys.External tx) :
    ((step w tx k).fm.config = w.fm.config ∧ (step w tx k).fm.owner = w.fm.owner) ∨
    ∃ sender m, tx = .exec sender FM (.fm m) [] ∧
      ((∃ u, m = .updateConfig u ∧ w.fm.owner.owner = some sender) ∨
       (∃ a, m = .updateOwnership a ∧ mayOwn w.fm.owner sender a)) := by
  rcases AuthSys.fm_frame w tx k with h | ⟨sender, m, env, r, rfl, hp, hx⟩
  · exact Or.inl h
  · refine Or.inr ⟨sender, m, rfl, ?_⟩
    cases m with
    | updateConfig u =>
      refine Or.inl ⟨u, rfl, ?_⟩
      apply Classical.byContradiction
      intro hno
      exact C15.fm_update_config_requires_owner hno r hx
    | updateOwnership a =>
      refine Or.inr ⟨a, rfl, ?_⟩
      simp only [fmExecute, bind_ok] at hx
      obtain ⟨_, _, o, ho, _⟩ := hx
      exact mayOwn_of_update ho
    | _ => exact hp.elim

theorem em_privileged_frame (w : World) (tx : Tx) (k : Option Nat) (hext : C01Sys.External tx) :
    (step w tx k).em = w.em ∨
    ∃ sender m, tx = .exec sender EM (.em m) [] ∧
      ((∃ c, m = .updateConfig c ∧ w.em.owner.owner = some sender) ∨
       (∃ a, m = .updateOwnership a ∧ mayOwn w.em.owner sender a)) := by
  rcases AuthSys.em_frame w tx k with h | ⟨sender, m, s', rfl, hx⟩
  · exact Or.inl h
  · refine Or.inr ⟨sender, m, rfl, ?_⟩
    cases m with
    | updateConfig c =>
      exact Or.inl ⟨c, rfl, (C15.em_privileged_requires_owner_and_no_funds hx).2⟩
    | updateOwnership a =>
      refine Or.inr ⟨a, rfl, ?_⟩
      simp only [emExecute, bind_ok] at hx
      obtain ⟨_, _, o, ho, _⟩ := hx
      exact mayOwn_of_update ho

theorem fc_privileged_frame (w : World) (tx : Tx) (k : Option Nat) (hext : C01Sys.External tx) :
    (step w tx k).fc = w.fc ∨
    ∃ sender a, tx = .exec sender FC (.fc (.updateOwnership a)) [] ∧ mayOwn w.fc sender a := by
  rcases AuthSys.fc_frame w tx k with h | ⟨sender, a, o, rfl, hx⟩
  · exact Or.inl h
  · exact Or.inr ⟨sender, a, rfl, mayOwn_of_update hx⟩

/-! ### positions

  STATEMENT CHANGE.  The two position theorems as originally stated are FALSE: they need the signer's address
  to pass `addr_validate` (`w.validAddr`).  Original statements:

      theorem positions_change_only_by_owner_tx (w : World) (tx : Tx) (k : Option Nat)
          (hext : C01Sys.External tx) (hinv : C05Sys.FmInv w) (hb : w.pm.buffer = none)
          (hpm : w.fm.config.poolManager = PM)
          (p : Position) (hp : p ∈ w.fm.positions) (hs : signer tx ≠ some p.receiver) :
          p ∈ (step w tx k).fm.positions

      theorem new_positions_belong_to_signer (w : World) (tx : Tx) (k : Option Nat)
          (hext : C01Sys.External tx) (hinv : C05Sys.FmInv w) (hb : w.pm.buffer = none)
          (hpm : w.fm.config.poolManager = PM)
          (p' : Position) (hp' : p' ∈ (step w tx k).fm.positions)
          (hnew : ∀ p ∈ w.fm.positions, p.id ≠ p'.id) :
          signer tx = some p'.receiver

  The refuting execution (same phenomenon as counterexample 2 of `C14Eq`): `alice`, whose address does NOT pass
  `validAddr`, sends a single-asset `ProvideLiquidity` with `unlocking = some _` and no receiver.  First leg:
  `recv = addrOrDefault env none alice = alice = sender`, accepted, the buffer records `receiver = alice`.
  After the self-swap the reply emits the second leg `ProvideLiquidity … (some alice) …` as a SELF-call of the
  pool manager; there `recv = addrOrDefault env (some alice) PM = PM` because `alice` is not a valid address
  and the default is the sender of the self-call (`second_leg_receiver_defaults_to_pm` below); the check
  `recv == sender || sender == env.self` passes, and the lock message is `CreatePosition _ _ (some PM)` —
  or, with `lock_position_identifier = some "u-v"` naming a position owned by the address `PM`,
  `ExpandPosition "u-v"`.  The farm manager accepts both (sender = configured pool manager, `PM` is a valid
  address).  So a transaction signed by `alice` creates a position for `PM`, resp. changes a position of `PM`.
  Concrete worlds (`CE.world`, satisfying `External`, `FmInv`, `buffer = none`, `poolManager = PM`) and the
  evaluation are given below; the kernel cannot reduce the `String` operations of `validateLpDenom`, so the
  runs are checked with `#eval` (as in `C14Eq`):

      #eval (runTx (CE.world (fun a => a != "alice")) CE.txNew).map CE.shw
        -- Except.ok [("p-1", 499, "pm"), ("u-v", 10, "pm")]       new position "p-1" belongs to "pm", signer "alice"
      #eval (runTx (CE.world (fun a => a != "alice")) CE.txExp).map CE.shw
        -- Except.ok [("u-v", 509, "pm")]                          "pm"'s position "u-v" changed (10 → 509)
      #eval (runTx (CE.world (fun _ => true)) CE.txNew).map CE.shw
        -- Except.ok [("p-1", 499, "alice"), ("u-v", 10, "pm")]    with a valid signer: as intended
      #eval (runTx (CE.world (fun _ => true)) CE.txExp).map CE.shw
        -- Except.error (MantraDex.Err.unauthorized)

  Repair: the added hypothesis `hv : ∀ s, signer tx = some s → w.validAddr s = true` (the signer's address is a
  valid address — always the case on chain, where the signer's address is produced by the SDK; in the
  harness `validAddr` accepts every known account).  Nothing else had to be added; in particular nothing about
  `w.pm.config.farmManager` (a mis-configured address makes the lock message fail and the transaction revert).
-/

namespace CE
def lp : Denom := "factory/pm/p.LP"
def pool : PoolInfo := {
  id := "p", denoms := ["x","y"], lpDenom := lp, decimals := [6,6]
  assets := [⟨"x", 1000000⟩, ⟨"y", 1000000⟩], ptype := .cp, fees := ⟨0,0,0,[]⟩, status := {} }
/-- a position of the pool manager's own address -/
def pmPos : Position := { id := "u-v", lpDenom := lp, amount := 10, unlocking := 86400, open_ := true,
                          expiringAt := none, receiver := PM }
def fm0 : FmState := {
  config := ⟨FC, EM, PM, ⟨"x",0⟩, 1, 1, 86400, 31556926, 2629746, 0⟩, positions := [pmPos],
  owner := { owner := some "o" } }
def world (valid : Addr → Bool) : World := {
  bank := {
    bal := fun a d => if a = "alice" ∧ d = "x" then 5000 else if a = PM ∧ (d = "x" ∨ d = "y") then 1000000
      else if a = FM ∧ d = lp then 10 else 0
    supply := fun d => if d = "x" then 1005000 else if d = "y" then 1000000 else if d = lp then 1000000 else 0 }
  pm := { config := ⟨FC, FM, ⟨"x", 0⟩⟩, pools := [pool], owner := { owner := some "o" } }
  fm := fm0
  em := { cfg := ⟨86400, 0⟩, owner := { owner := some "o" } }
  fc := { owner := some "o" }, nowNs := 0, tfFees := [], validAddr := valid }
/-- `alice` deposits `1001 x` single-sided and locks the LP in a new position -/
def txNew : Tx := .exec "alice" PM (.pm (.provideLiquidity none none none "p" (some 86400) none)) [⟨"x", 1001⟩]
/-- … or into the position "u-v" -/
def txExp : Tx :=
  .exec "alice" PM (.pm (.provideLiquidity none none none "p" (some 86400) (some "u-v"))) [⟨"x", 1001⟩]
def shw (w : World) : List (String × Nat × Addr) := w.fm.positions.map fun p => (p.id, p.amount, p.receiver)
end CE

/-- the heart of the counterexample: on the second leg (a self-call, sender = the pool manager) a buffered
    receiver that is not a valid address is replaced by the pool manager itself -/
theorem second_leg_receiver_defaults_to_pm (env : PmEnv) (alice : Addr) (h : env.validAddr alice = false) :
    addrOrDefault env (some alice) PM = PM := by
  simp [addrOrDefault, h]

/-- the counterexample worlds satisfy the invariant … -/
theorem CE.fmInv (v : Addr → Bool) : C05Sys.FmInv (CE.world v) := by
  refine ⟨fun d => ?_, ?_, ?_, ?_, fun n _ => ?_⟩
  · show C05.liability CE.fm0 d ≤ (CE.world v).bank.bal FM d
    by_cases hd : d = CE.lp
    · subst hd
      show C05.liability CE.fm0 CE.lp ≤ 10
      decide
    · have h1 : (CE.lp == d) = false := by simpa using fun e => hd e.symm
      simp [C05.liability, CE.fm0, CE.pmPos, h1, C05.sumNat]
  · show (List.map (fun x => x.id) CE.fm0.positions).Nodup
    decide
  · show (List.map (fun x => x.id) CE.fm0.farms).Nodup
    decide
  · intro f hf; cases hf
  · show CE.fm0.getPosition _ = none
    have : (C.AUTO_POSITION_ID_PREFIX ++ toString n) ≠ C.EXPLICIT_POSITION_ID_PREFIX ++ "v" :=
      Sys.auto_ne_explicit n "v"
    simp only [FmState.getPosition, CE.fm0, CE.pmPos, List.find?_cons, List.find?_nil]
    have h2 : ("u-v" == C.AUTO_POSITION_ID_PREFIX ++ toString n) = false := by
      simpa using fun e => this e.symm
    rw [h2]

/-- … and the other hypotheses of the two original statements -/
theorem CE.hyps (v : Addr → Bool) :
    C01Sys.External CE.txExp ∧ C01Sys.External CE.txNew ∧ (CE.world v).pm.buffer = none ∧
    (CE.world v).fm.config.poolManager = PM ∧ CE.pmPos ∈ (CE.world v).fm.positions ∧
    signer CE.txExp ≠ some CE.pmPos.receiver := by
  refine ⟨⟨by decide, by decide⟩, ⟨by decide, by decide⟩, rfl, rfl, by simp [CE.world, CE.fm0], by decide⟩

/-- a position is exactly as it was after any transaction not signed by its owner.
    `_partial`: hypothesis `hv` (the signer's address is valid) added, see the note above. -/
theorem positions_change_only_by_owner_tx_partial (w : World) (tx : Tx) (k : Option Nat)
    (hext : C01Sys.External tx)
    (hinv : C05Sys.FmInv w) (hb : w.pm.buffer = none)
    (hpm : w.fm.config.poolManager = PM)
    (hv : ∀ s, signer tx = some s → w.validAddr s = true)
    (p : Position) (hp : p ∈ w.fm.positions) (hs : signer tx ≠ some p.receiver) :
    p ∈ (step w tx k).fm.positions := by
  cases tx with
  | exec sender c msg funds =>
    obtain ⟨-, hrel⟩ := AuthSys.pos_step w sender c msg funds k hext.1 (hv sender rfl) hinv.toWF hb hpm
    have hg := AuthSys.getPosition_of_mem hinv.posNodup hp
    rcases hrel p.id with e | ⟨b, -⟩
    · rw [← e] at hg
      exact (FH.getPosition_some hg).1
    · have : p.receiver = sender := b p hg
      exact absurd (by rw [this]; rfl) hs
  | send frm to coins => rw [AuthSys.step_fm_send]; exact hp
  | advance ns => exact hp

/-- every position that a transaction creates belongs to the account that signed it.
    `_partial`: hypothesis `hv` (the signer's address is valid) added, see the note above. -/
theorem new_positions_belong_to_signer_partial (w : World) (tx : Tx) (k : Option Nat)
    (hext : C01Sys.External tx)
    (hinv : C05Sys.FmInv w) (hb : w.pm.buffer = none)
    (hpm : w.fm.config.poolManager = PM)
    (hv : ∀ s, signer tx = some s → w.validAddr s = true)
    (p' : Position) (hp' : p' ∈ (step w tx k).fm.positions)
    (hnew : ∀ p ∈ w.fm.positions, p.id ≠ p'.id) :
    signer tx = some p'.receiver := by
  cases tx with
  | exec sender c msg funds =>
    obtain ⟨hwf', hrel⟩ := AuthSys.pos_step w sender c msg funds k hext.1 (hv sender rfl) hinv.toWF hb hpm
    have hg := AuthSys.getPosition_of_mem hwf'.pos.nodup hp'
    rcases hrel p'.id with e | ⟨-, a⟩
    · rw [e] at hg
      exact absurd rfl (hnew p' (FH.getPosition_some hg).1)
    · have : p'.receiver = sender := a p' hg
      rw [this]; rfl
  | send frm to coins =>
    rw [AuthSys.step_fm_send] at hp'
    exact absurd rfl (hnew p' hp')
  | advance ns => exact absurd rfl (hnew p' hp')

/-- same farm up to the amount already claimed -/
def FarmSameBudget (f f' : Farm) : Prop :=
  f'.id = f.id ∧ f'.owner = f.owner ∧ f'.lpDenom = f.lpDenom ∧ f'.assetDenom = f.assetDenom ∧
  f'.emissionRate = f.emissionRate ∧ f'.startEpoch = f.startEpoch ∧
  f'.assetAmount = f.assetAmount ∧ f'.endEpoch = f.endEpoch ∧ f.claimed ≤ f'.claimed

/-- a farm keeps its owner, parameters and budget (only `claimed` grows) unless the transaction is its
    owner's `ExpandFarm`, a `CloseFarm` by its owner or the contract owner, or a `CreateFarm` (by anyone)
    issued after the farm expired -/
theorem farms_change_only_by_authorised_tx (w : World) (tx : Tx) (k : Option Nat) (hext : C01Sys.External tx)
    (hinv : C05Sys.FmInv w) (f : Farm) (hf : f ∈ w.fm.farms) :
    (∃ f' ∈ (step w tx k).fm.farms, FarmSameBudget f f') ∨
    (∃ p funds, tx = .exec f.owner FM (.fm (.expandFarm p)) funds ∧ p.farmId = some f.id) ∨
    (∃ sender, tx = .exec sender FM (.fm (.closeFarm f.id)) [] ∧
      (sender = f.owner ∨ w.fm.owner.owner = some sender)) ∨
    (∃ sender p funds, tx = .exec sender FM (.fm (.createFarm p)) funds ∧ p.lpDenom = f.lpDenom ∧
      isFarmExpiredOrFalse w.fm w.fmEnv f = .ok true) := by
  exact AuthSys.farm_frame w tx k hinv.toWF f hf

end MantraDex.C15Sys
