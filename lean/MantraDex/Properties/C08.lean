/-
  C08 — Locked LP can only return to its owner, only after unlocking, and in full.
  (The owner / pool-manager authorisation checks themselves are in C15.)
-/
import MantraDex.Model.System
import MantraDex.Proofs.NumLemmas

set_option linter.unusedSimpArgs false

namespace MantraDex.C08
open MantraDex

/-- the identifier the next generated position will get -/
def nextAutoId (s : FmState) : String := C.AUTO_POSITION_ID_PREFIX ++ toString (s.posCounter + 1)

/-- identifier given to a new position: `u-<given>` or the next generated one -/
def newPosId (s : FmState) (id : Option String) : String :=
  match id with
  | some i => C.EXPLICIT_POSITION_ID_PREFIX ++ i
  | none => nextAutoId s

/-- a withdrawal without the emergency flag is accepted only for a closed position whose unlock
    instant (close time + unlocking duration) has been reached — boundary second included -/
theorem normal_withdraw_requires_unlock {s s' : FmState} {env : FmEnv} {sender : Addr}
    {funds : List Coin} {id : String} {em : Option Bool} {r : Response} {p : Position}
    (hp : s.getPosition id = some p) (hem : em ≠ some true)
    (h : withdrawPosition s env sender funds id em = .ok (s', r)) :
    p.receiver = sender ∧ ∃ t, p.expiringAt = some t ∧ t ≤ env.nowS := by
  sorry

/-- … and then pays the owner exactly the recorded amount and deletes the position; nothing else -/
theorem normal_withdraw_pays_exact {s s' : FmState} {env : FmEnv} {sender : Addr}
    {funds : List Coin} {id : String} {em : Option Bool} {r : Response} {p : Position}
    (hp : s.getPosition id = some p) (hem : em ≠ some true) (hclosed : p.open_ = false)
    (h : withdrawPosition s env sender funds id em = .ok (s', r)) :
    r.msgs.map (·.msg) = (if p.amount ≠ 0 then [Msg.bankSend p.receiver [⟨p.lpDenom, p.amount⟩]] else []) ∧
    s'.positions = s.positions.filter (·.id != id) ∧ s'.farms = s.farms ∧ s'.hist = s.hist := by
  sorry

/-- an emergency request on an already unlocked position is an ordinary full withdrawal -/
theorem emergency_after_unlock_is_normal {s : FmState} {env : FmEnv} {sender : Addr}
    {funds : List Coin} {id : String} {p : Position} {t : Nat}
    (hp : s.getPosition id = some p) (ht : p.expiringAt = some t) (hexp : t ≤ env.nowS) :
    withdrawPosition s env sender funds id (some true) = withdrawPosition s env sender funds id none := by
  sorry

/-- closing fixes the unlock instant at (now + unlocking duration), in seconds -/
theorem close_sets_expiry {s s' : FmState} {env : FmEnv} {sender : Addr} {funds : List Coin}
    {id : String} {r : Response} {p : Position}
    (hp : s.getPosition id = some p)
    (h : closePosition s env sender funds id none = .ok (s', r)) :
    ∃ p', s'.getPosition id = some p' ∧ p'.open_ = false ∧ p'.amount = p.amount ∧
      p'.receiver = p.receiver ∧ p'.lpDenom = p.lpDenom ∧
      p'.expiringAt = some ((env.nowNs + p.unlocking * NANOS) / NANOS) := by
  sorry

/-- a partial close splits the position without creating or losing LP: the open remainder keeps the
    identifier, the closed part gets the next generated identifier, same owner, same denom -/
theorem partial_close_splits {s s' : FmState} {env : FmEnv} {sender : Addr} {funds : List Coin}
    {id : String} {c : Coin} {r : Response} {p : Position}
    (hp : s.getPosition id = some p) (hlt : c.amount < p.amount)
    (hfresh : nextAutoId s ≠ id)
    (h : closePosition s env sender funds id (some c) = .ok (s', r)) :
    ∃ rem part, s'.getPosition id = some rem ∧
      s'.getPosition (nextAutoId s) = some part ∧
      rem.open_ = true ∧ part.open_ = false ∧ rem.amount + part.amount = p.amount ∧ part.amount = c.amount ∧
      rem.receiver = p.receiver ∧ part.receiver = p.receiver ∧ rem.lpDenom = p.lpDenom ∧
      part.lpDenom = p.lpDenom ∧ part.expiringAt.isSome := by
  sorry

/-- expanding adds exactly the attached amount to the recorded amount -/
theorem expand_adds_exact {s s' : FmState} {env : FmEnv} {sender : Addr} {funds : List Coin}
    {id : String} {r : Response} {p : Position} (hp : s.getPosition id = some p)
    (h : expandPosition s env sender funds id = .ok (s', r)) :
    ∃ c p', funds = [c] ∧ c.denom = p.lpDenom ∧ s'.getPosition id = some p' ∧
      p'.amount = p.amount + c.amount ∧ p'.receiver = p.receiver ∧ p'.open_ = true := by
  sorry

/-- frame: a message from anybody who is neither the owner nor the pool manager leaves the
    position exactly as it was (given that the next generated identifier is free, which the
    identifier scheme guarantees in reachable states) -/
theorem others_cannot_touch_position {s s' : FmState} {env : FmEnv} {sender : Addr}
    {funds : List Coin} {m : FmMsg} {r : Response} {id : String} {p : Position}
    (hp : s.getPosition id = some p) (hno : p.receiver ≠ sender) (hpm : sender ≠ s.config.poolManager)
    (hfresh : nextAutoId s ≠ id)
    (h : fmExecute s env sender funds m = .ok (s', r)) : s'.getPosition id = some p := by
  sorry

/-- identifiers of new positions: `u-<given>` or `p-<counter+1>`, and never an existing one -/
theorem create_position_identifier {s s' : FmState} {env : FmEnv} {sender : Addr} {funds : List Coin}
    {id : Option String} {u : Nat} {recv : Option Addr} {r : Response}
    (h : createPosition s env sender funds id u recv = .ok (s', r)) :
    s.getPosition (newPosId s id) = none ∧ ∃ p, s'.getPosition (newPosId s id) = some p ∧ p.open_ = true ∧
        p.receiver = (recv.getD sender) ∧ (∀ c, funds = [c] → p.amount = c.amount ∧ p.lpDenom = c.denom) := by
  sorry

end MantraDex.C08
