/-
  C08 — Locked LP can only return to its owner, only after unlocking, and in full.
  (The owner / pool-manager authorisation checks themselves are in C15.)
-/
import MantraDex.Model.System
import MantraDex.Proofs.NumLemmas
import MantraDex.Proofs.FmLemmas

set_option linter.unusedSimpArgs false

namespace MantraDex.C08
open MantraDex

/-- the identifier the next generated position will get -/
def nextAutoId (s : FmState) : String := C.AUTO_POSITION_ID_PREFIX ++ toString (s.posCounter + 1)

/-- identifier given to a new position: `u-<given>` or the next generated one -/
def newPosId (s : FmState) (id : Option String) : String :=
  match id with
  | some i => C.EXPLICIT_POSITION_ID_PREFIX ++ i
  | none => nextAutoId s

/-! ### helper lemmas -/

theorem em_not_true {em : Option Bool} (hem : em ≠ some true) : (em == some true) = false := by
  cases em with
  | none => rfl
  | some b => cases b <;> simp_all

theorem getPosition_id {s : FmState} {id : String} {p : Position} (h : s.getPosition id = some p) :
    p.id = id := by
  unfold FmState.getPosition at h
  simpa using List.find?_some h

theorem getPosition_after_save {s2 s' : FmState} {q : Position}
    (h : SameStore (s2.savePosition q) s') : s'.getPosition q.id = some q := by
  rw [h.getPosition]; exact getPosition_save_same s2 q

theorem getPosition_after_save_save {s0 s2 s' : FmState} {np q : Position}
    (h12 : SameStore (s0.savePosition np) s2) (h34 : SameStore (s2.savePosition q) s')
    (hne : np.id ≠ q.id) : s'.getPosition np.id = some np := by
  rw [h34.getPosition, getPosition_save_other s2 q hne, h12.getPosition]
  exact getPosition_save_same s0 np

theorem oneCoin_ok {funds : List Coin} {c : Coin} (h : oneCoin funds = .ok c) : funds = [c] := by
  unfold oneCoin at h
  split at h
  · split at h
    · simp at h
    · simp only [Except.ok.injEq] at h; subst h; rfl
  · simp at h

theorem createPosition_ok {s s' : FmState} {env : FmEnv} {sender : Addr} {funds : List Coin}
    {id : Option String} {u : Nat} {recv : Option Addr} {r : Response}
    (h : createPosition s env sender funds id u recv = .ok (s', r)) :
    ∃ (lp : Coin) (p : Position) (s1 : FmState), oneCoin funds = .ok lp ∧ p.id = newPosId s id ∧
      s.getPosition p.id = none ∧ p.open_ = true ∧ p.receiver = recv.getD sender ∧
      p.amount = lp.amount ∧ p.lpDenom = lp.denom ∧ s1.positions = s.positions ∧
      SameStore (s1.savePosition p) s' := by
  unfold createPosition at h
  cases recv <;> cases id <;>
    simp only [bind_ok, error_bind, pure_bind', ite_error_ok, pure_ok, Prod.mk.injEq] at h
  all_goals
    first
    | obtain ⟨lp, hlp, _, _, _, _, hnone, _, s3, h3, rfl, rfl⟩ := h
    | obtain ⟨lp, hlp, _, _, _, _, _, _, hnone, _, s3, h3, rfl, rfl⟩ := h
    refine ⟨lp, _, _, hlp, ?_, ?_, ?_, ?_, ?_, ?_, ?_, updateWeights_sameStore h3⟩
    · rfl
    · exact Option.not_isSome_iff_eq_none.mp hnone
    all_goals rfl

theorem expandPosition_frame {s s' : FmState} {env : FmEnv} {sender : Addr} {funds : List Coin}
    {id2 : String} {r : Response} (h : expandPosition s env sender funds id2 = .ok (s', r)) :
    ∃ p2, s.getPosition id2 = some p2 ∧ (p2.receiver = sender ∨ sender = s.config.poolManager) ∧
      ∀ id, id ≠ id2 → s'.getPosition id = s.getPosition id := by
  unfold expandPosition at h
  cases hg : s.getPosition id2 with
  | none => rw [hg] at h; simp [error_bind] at h
  | some p2 =>
    have hid := getPosition_id hg
    rw [hg] at h
    simp only [bind_ok, error_bind, pure_bind', ite_error_ok, ckAdd_ok, pure_ok, Prod.mk.injEq] at h
    obtain ⟨c, hc, _, hden, hopen, hauth, a, ⟨_, rfl⟩, s2, h2, rfl, rfl⟩ := h
    refine ⟨p2, rfl, ?_, ?_⟩
    · simpa [Classical.or_iff_not_imp_left] using hauth
    intro id hne
    rw [(updateWeights_sameStore h2).getPosition, getPosition_save_other _ _ (by simpa [hid] using hne)]

theorem withdraw_tail {s1 s' : FmState} {env : FmEnv} {sender : Addr} {lp : Denom} {id2 id : String}
    {b : Bool} {R r : Response} (hne : id ≠ id2)
    (h : (if b = true then (reconcileUserState (s1.removePosition id2) env sender lp >>= fun s3 => pure (s3, R))
          else pure (s1.removePosition id2, R)) = .ok (s', r)) :
    s'.getPosition id = s1.getPosition id := by
  cases b
  · simp only [Bool.false_eq_true, if_false, pure_ok, Prod.mk.injEq] at h
    obtain ⟨rfl, _⟩ := h
    exact getPosition_remove_other _ hne
  · simp only [if_true, bind_ok, pure_ok, Prod.mk.injEq] at h
    obtain ⟨s3, h3, rfl, _⟩ := h
    rw [(reconcileUserState_sameStore h3).getPosition]
    exact getPosition_remove_other _ hne

theorem withdrawPosition_frame {s s' : FmState} {env : FmEnv} {sender : Addr} {funds : List Coin}
    {id2 : String} {em : Option Bool} {r : Response}
    (h : withdrawPosition s env sender funds id2 em = .ok (s', r)) :
    ∃ p2, s.getPosition id2 = some p2 ∧ p2.receiver = sender ∧
      ∀ id, id ≠ id2 → s'.getPosition id = s.getPosition id := by
  unfold withdrawPosition at h
  cases hg : s.getPosition id2 with
  | none => rw [hg] at h; simp [error_bind, bind_ok] at h
  | some p2 =>
    rw [hg] at h
    simp only [bind_ok, error_bind, pure_bind', ite_error_ok] at h
    obtain ⟨_, _, hauth, h⟩ := h
    refine ⟨p2, rfl, by simpa using hauth, ?_⟩
    intro id hne
    split at h
    · simp only [bind_ok] at h
      obtain ⟨rate, _, cur, _, active, _, sp, _, h⟩ := h
      split at h
      · simp only [bind_ok, pure_ok, Prod.mk.injEq] at h
        obtain ⟨s1, h1, s3, h3, rfl, _⟩ := h
        rw [(reconcileUserState_sameStore h3).getPosition, getPosition_remove_other _ hne,
          (updateWeights_sameStore h1).getPosition]
      · simp only [pure_ok, Prod.mk.injEq] at h
        obtain ⟨rfl, _⟩ := h
        exact getPosition_remove_other _ hne
    · simp only [ite_error_ok] at h
      exact withdraw_tail hne h.2.2


theorem closePosition_frame {s s' : FmState} {env : FmEnv} {sender : Addr} {funds : List Coin}
    {id2 : String} {lp : Option Coin} {r : Response}
    (h : closePosition s env sender funds id2 lp = .ok (s', r)) :
    ∃ p2, s.getPosition id2 = some p2 ∧ p2.receiver = sender ∧
      ∀ id, id ≠ id2 → id ≠ nextAutoId s → s'.getPosition id = s.getPosition id := by
  unfold closePosition at h
  cases hg : s.getPosition id2 with
  | none =>
    rw [hg] at h
    simp only [bind_ok, error_bind] at h
    obtain ⟨_, _, _, _, h⟩ := h
    split at h <;> simp at h
  | some p2 =>
    have hid := getPosition_id hg
    rw [hg] at h
    simp only [bind_ok, error_bind, pure_bind', ite_error_ok, fit_ok] at h
    obtain ⟨_, _, _, _, _, hauth, _, a, ⟨_, rfl⟩, b, ⟨_, rfl⟩, _, h⟩ := h
    refine ⟨p2, rfl, by simpa using hauth, ?_⟩
    intro id hne hna
    have full : ∀ {q : Position} {R : Response},
        (updateWeights s env sender p2.lpDenom p2.amount p2.unlocking false >>= fun s2 =>
          reconcileUserState (s2.savePosition q) env sender p2.lpDenom >>= fun s4 =>
          pure (s4, R)) = Except.ok (s', r) → q.id = p2.id → s'.getPosition id = s.getPosition id := by
      intro q R h hq
      simp only [bind_ok, pure_ok, Prod.mk.injEq] at h
      obtain ⟨s2, h2, s4, h4, rfl, _⟩ := h
      rw [(reconcileUserState_sameStore h4).getPosition,
        getPosition_save_other _ _ (by rw [hq, hid]; exact hne),
        (updateWeights_sameStore h2).getPosition]
    cases lp with
    | none => exact full h rfl
    | some c =>
      simp only [ite_error_ok] at h
      obtain ⟨_, h⟩ := h
      split at h
      · exact full h rfl
      · simp only [ite_ok_error, ite_error_ok, bind_ok, pure_ok, Prod.mk.injEq] at h
        obtain ⟨_, _, s2, h2, s4, h4, rfl, _⟩ := h
        rw [(reconcileUserState_sameStore h4).getPosition,
          getPosition_save_other _ _ (by rw [hid]; exact hne),
          (updateWeights_sameStore h2).getPosition,
          getPosition_save_other _ _ hna]
        rfl

/-! ### the properties -/

/-- a withdrawal without the emergency flag is accepted only for a closed position whose unlock
    instant (close time + unlocking duration) has been reached — boundary second included -/
theorem normal_withdraw_requires_unlock {s s' : FmState} {env : FmEnv} {sender : Addr}
    {funds : List Coin} {id : String} {em : Option Bool} {r : Response} {p : Position}
    (hp : s.getPosition id = some p) (hem : em ≠ some true)
    (h : withdrawPosition s env sender funds id em = .ok (s', r)) :
    p.receiver = sender ∧ ∃ t, p.expiringAt = some t ∧ t ≤ env.nowS := by
  have hem' := em_not_true hem
  unfold withdrawPosition at h
  rw [hp] at h
  simp only [bind_ok, hem', Bool.false_and, Bool.false_eq_true, if_false, error_bind, pure_bind',
    ite_error_ok] at h
  obtain ⟨_, _, h1, h2, h3, _⟩ := h
  refine ⟨by simpa using h1, ?_⟩
  cases he : p.expiringAt with
  | none => simp [he] at h2
  | some t =>
    refine ⟨t, rfl, ?_⟩
    simpa [PosView.isExpired, he] using h3

/-- … and then pays the owner exactly the recorded amount and deletes the position; nothing else -/
theorem normal_withdraw_pays_exact {s s' : FmState} {env : FmEnv} {sender : Addr}
    {funds : List Coin} {id : String} {em : Option Bool} {r : Response} {p : Position}
    (hp : s.getPosition id = some p) (hem : em ≠ some true) (hclosed : p.open_ = false)
    (h : withdrawPosition s env sender funds id em = .ok (s', r)) :
    r.msgs.map (·.msg) = (if p.amount ≠ 0 then [Msg.bankSend p.receiver [⟨p.lpDenom, p.amount⟩]] else []) ∧
    s'.positions = s.positions.filter (·.id != id) ∧ s'.farms = s.farms ∧ s'.hist = s.hist := by
  have hem' := em_not_true hem
  unfold withdrawPosition at h
  rw [hp] at h
  simp only [bind_ok, hem', Bool.false_and, Bool.false_eq_true, if_false, error_bind, pure_bind',
    ite_error_ok, hclosed, pure_ok, Prod.mk.injEq, List.nil_append] at h
  obtain ⟨_, _, h1, h2, h3, rfl, rfl⟩ := h
  refine ⟨?_, rfl, rfl, rfl⟩
  simp only [Response.ofMsgs, List.map_map]
  split <;> simp

/-- an emergency request on an already unlocked position is an ordinary full withdrawal -/
theorem emergency_after_unlock_is_normal {s : FmState} {env : FmEnv} {sender : Addr}
    {funds : List Coin} {id : String} {p : Position} {t : Nat}
    (hp : s.getPosition id = some p) (ht : p.expiringAt = some t) (hexp : t ≤ env.nowS) :
    withdrawPosition s env sender funds id (some true) = withdrawPosition s env sender funds id none := by
  have hx : (PosView.isExpired ⟨p.amount, p.unlocking, p.expiringAt⟩ env.nowS) = true := by
    simp [PosView.isExpired, ht, hexp]
  unfold withdrawPosition
  rw [hp]
  simp only [pure_bind', hx, Bool.not_true, Bool.and_false, Bool.false_eq_true, if_false]

/-- closing fixes the unlock instant at (now + unlocking duration), in seconds -/
theorem close_sets_expiry {s s' : FmState} {env : FmEnv} {sender : Addr} {funds : List Coin}
    {id : String} {r : Response} {p : Position}
    (hp : s.getPosition id = some p)
    (h : closePosition s env sender funds id none = .ok (s', r)) :
    ∃ p', s'.getPosition id = some p' ∧ p'.open_ = false ∧ p'.amount = p.amount ∧
      p'.receiver = p.receiver ∧ p'.lpDenom = p.lpDenom ∧
      p'.expiringAt = some ((env.nowNs + p.unlocking * NANOS) / NANOS) := by
  have hid := getPosition_id hp
  unfold closePosition at h
  rw [hp] at h
  simp only [bind_ok, error_bind, pure_bind', ite_error_ok, fit_ok, pure_ok, Prod.mk.injEq] at h
  obtain ⟨_, _, _, _, _, _, _, a, ⟨_, rfl⟩, b, ⟨_, rfl⟩, _, s2, _, s4, h4, rfl, rfl⟩ := h
  have hg := getPosition_after_save (reconcileUserState_sameStore h4)
  simp only [hid] at hg
  exact ⟨_, hg, rfl, rfl, rfl, rfl, rfl⟩

/-- a partial close splits the position without creating or losing LP: the open remainder keeps the
    identifier, the closed part gets the next generated identifier, same owner, same denom -/
theorem partial_close_splits {s s' : FmState} {env : FmEnv} {sender : Addr} {funds : List Coin}
    {id : String} {c : Coin} {r : Response} {p : Position}
    (hp : s.getPosition id = some p) (hlt : c.amount < p.amount)
    (hfresh : nextAutoId s ≠ id)
    (h : closePosition s env sender funds id (some c) = .ok (s', r)) :
    ∃ rem part, s'.getPosition id = some rem ∧
      s'.getPosition (nextAutoId s) = some part ∧
      rem.open_ = true ∧ part.open_ = false ∧ rem.amount + part.amount = p.amount ∧ part.amount = c.amount ∧
      rem.receiver = p.receiver ∧ part.receiver = p.receiver ∧ rem.lpDenom = p.lpDenom ∧
      part.lpDenom = p.lpDenom ∧ part.expiringAt.isSome := by
  have hid := getPosition_id hp
  have hne : ¬ (c.amount = p.amount) := by omega
  unfold closePosition at h
  rw [hp] at h
  simp only [bind_ok, error_bind, pure_bind', ite_error_ok, fit_ok, pure_ok, Prod.mk.injEq, hne, hlt,
    if_true, if_false] at h
  obtain ⟨_, _, _, _, _, _, hopen, a, ⟨_, rfl⟩, b, ⟨_, rfl⟩, _, hden, _, s2, h2, s4, h4, rfl, rfl⟩ := h
  have hopen' : p.open_ = true := by simpa using hopen
  have hden' : c.denom = p.lpDenom := by simpa using hden
  have hg1 := getPosition_after_save (reconcileUserState_sameStore h4)
  have hg2 := getPosition_after_save_save (updateWeights_sameStore h2) (reconcileUserState_sameStore h4)
      (by rw [hid]; exact hfresh)
  simp only [hid] at hg1
  refine ⟨_, _, hg1, hg2, hopen', rfl, ?_, rfl, rfl, rfl, rfl, hden', rfl⟩
  show p.amount - c.amount + c.amount = p.amount
  omega

/-- expanding adds exactly the attached amount to the recorded amount -/
theorem expand_adds_exact {s s' : FmState} {env : FmEnv} {sender : Addr} {funds : List Coin}
    {id : String} {r : Response} {p : Position} (hp : s.getPosition id = some p)
    (h : expandPosition s env sender funds id = .ok (s', r)) :
    ∃ c p', funds = [c] ∧ c.denom = p.lpDenom ∧ s'.getPosition id = some p' ∧
      p'.amount = p.amount + c.amount ∧ p'.receiver = p.receiver ∧ p'.open_ = true := by
  have hid := getPosition_id hp
  unfold expandPosition at h
  rw [hp] at h
  simp only [bind_ok, error_bind, pure_bind', ite_error_ok, ckAdd_ok, pure_ok, Prod.mk.injEq] at h
  obtain ⟨c, hc, _, hden, hopen, _, a, ⟨_, rfl⟩, s2, h2, rfl, rfl⟩ := h
  have hg := getPosition_after_save (updateWeights_sameStore h2)
  simp only [hid] at hg
  refine ⟨c, _, oneCoin_ok hc, ?_, hg, rfl, rfl, ?_⟩
  · have : p.lpDenom = c.denom := by simpa using hden
    exact this.symm
  · simpa using hopen

/-- frame: a message from anybody who is neither the owner nor the pool manager leaves the
    position exactly as it was (given that the next generated identifier is free, which the
    identifier scheme guarantees in reachable states) -/
theorem others_cannot_touch_position {s s' : FmState} {env : FmEnv} {sender : Addr}
    {funds : List Coin} {m : FmMsg} {r : Response} {id : String} {p : Position}
    (hp : s.getPosition id = some p) (hno : p.receiver ≠ sender) (hpm : sender ≠ s.config.poolManager)
    (hfresh : nextAutoId s ≠ id)
    (h : fmExecute s env sender funds m = .ok (s', r)) : s'.getPosition id = some p := by
  rw [← hp]
  cases m with
  | createFarm fp => exact getPosition_congr (createFarm_positions h) id
  | expandFarm fp => exact getPosition_congr (expandFarm_positions _ _ h) id
  | closeFarm fid => exact getPosition_congr (closeFarm_positions _ _ h) id
  | claim u => exact getPosition_congr (fmClaim_positions h) id
  | createPosition i u rcv =>
    obtain ⟨lp, q, s1, _, _, hnone, _, _, _, _, hs1, hss⟩ := createPosition_ok h
    have hne : id ≠ q.id := by
      intro e; rw [← e, hp] at hnone; simp at hnone
    rw [hss.getPosition, getPosition_save_other _ _ hne]
    exact getPosition_congr hs1 id
  | expandPosition id2 =>
    obtain ⟨p2, hg, hauth, hfr⟩ := expandPosition_frame h
    by_cases e : id = id2
    · subst e
      rw [hp] at hg
      obtain rfl := Option.some.inj hg
      rcases hauth with h1 | h1
      · exact absurd h1 hno
      · exact absurd h1 hpm
    · exact hfr id e
  | closePosition id2 lp =>
    obtain ⟨p2, hg, hauth, hfr⟩ := closePosition_frame h
    by_cases e : id = id2
    · subst e
      rw [hp] at hg
      obtain rfl := Option.some.inj hg
      exact absurd hauth hno
    · exact hfr id e (Ne.symm hfresh)
  | withdrawPosition id2 em =>
    obtain ⟨p2, hg, hauth, hfr⟩ := withdrawPosition_frame h
    by_cases e : id = id2
    · subst e
      rw [hp] at hg
      obtain rfl := Option.some.inj hg
      exact absurd hauth hno
    · exact hfr id e
  | updateConfig u =>
    simp only [fmExecute, bind_ok] at h
    obtain ⟨_, _, h⟩ := h
    exact getPosition_congr (fmUpdateConfig_positions _ _ h) id
  | updateOwnership a =>
    simp only [fmExecute, bind_ok, pure_ok, Prod.mk.injEq] at h
    obtain ⟨_, _, o, _, rfl, _⟩ := h
    rfl

/-- identifiers of new positions: `u-<given>` or `p-<counter+1>`, and never an existing one -/
theorem create_position_identifier {s s' : FmState} {env : FmEnv} {sender : Addr} {funds : List Coin}
    {id : Option String} {u : Nat} {recv : Option Addr} {r : Response}
    (h : createPosition s env sender funds id u recv = .ok (s', r)) :
    s.getPosition (newPosId s id) = none ∧ ∃ p, s'.getPosition (newPosId s id) = some p ∧ p.open_ = true ∧
        p.receiver = (recv.getD sender) ∧ (∀ c, funds = [c] → p.amount = c.amount ∧ p.lpDenom = c.denom) := by
  obtain ⟨lp, p, s1, hlp, hid, hnone, hopen, hrecv, hamt, hden, _, hss⟩ := createPosition_ok h
  rw [← hid]
  refine ⟨hnone, p, getPosition_after_save hss, hopen, hrecv, ?_⟩
  intro c hc
  have := oneCoin_ok hlp
  rw [hc] at this
  simp only [List.cons.injEq, and_true] at this
  subst this
  exact ⟨hamt, hden⟩

end MantraDex.C08
