/-
  C10 (part 2) — the total weight covers the sum of the users' weights, over the farm-manager
  state machine (after the F-07 fix), and a user without open positions has no weight.
-/
import MantraDex.Model.System
import MantraDex.Proofs.NumLemmas

set_option linter.unusedSimpArgs false

namespace MantraDex.C10H
open MantraDex

/-- latest recorded weights of a list of users sum to at most the contract's latest weight -/
def Covered (s : FmState) (self : Addr) (lp : Denom) (us : List Addr) : Prop :=
  ((us.map fun u => latestWeight (s.hist u lp)).foldl (· + ·) 0) ≤ latestWeight (s.hist self lp)

/-- snapshots ascending -/
def Sorted (h : List (Nat × Nat)) : Prop := h.Pairwise (fun a b => a.1 < b.1)

theorem histSet_ne_nil (h : List (Nat × Nat)) (e w : Nat) : histSet h e w ≠ [] := by
  cases h with
  | nil => simp [histSet]
  | cons x xs =>
    obtain ⟨e', w'⟩ := x
    simp only [histSet]
    split
    · simp
    · split <;> simp

theorem latestWeight_cons_of_ne_nil (x : Nat × Nat) {l : List (Nat × Nat)} (hl : l ≠ []) :
    latestWeight (x :: l) = latestWeight l := by
  cases l with
  | nil => exact absurd rfl hl
  | cons y ys => simp [latestWeight, histLatest, List.getLast?_cons_cons]

/-- writing at an epoch not before the last snapshot makes the written value the latest -/
theorem latest_after_set {h : List (Nat × Nat)} (hs : Sorted h) {e w : Nat}
    (hlast : ∀ x ∈ h, x.1 ≤ e) : latestWeight (histSet h e w) = w := by
  induction h with
  | nil => simp [histSet, latestWeight, histLatest]
  | cons x xs ih =>
    obtain ⟨e', w'⟩ := x
    have hx : e' ≤ e := hlast (e', w') (by simp)
    unfold Sorted at hs
    rw [List.pairwise_cons] at hs
    simp only [histSet]
    split
    · omega
    · split
      next heq =>
        subst heq
        cases xs with
        | nil => simp [latestWeight, histLatest]
        | cons y ys =>
          have h1 := hs.1 y (by simp)
          have h2 := hlast y (by simp)
          simp at h1; omega
      next hne =>
        rw [latestWeight_cons_of_ne_nil _ (histSet_ne_nil _ _ _)]
        exact ih hs.2 (fun x hx => hlast x (List.mem_cons_of_mem _ hx))

/-- `update_weights` moves the user's and the contract's latest weight by the same amount (fill: +w;
    close: −min(w, user weight)), writes both at epoch+1, and touches nobody else -/
theorem update_weights_same_delta {s s' : FmState} {env : FmEnv} {recv : Addr} {lp : Denom}
    {amount unlocking : Nat} {fill : Bool}
    (hne : recv ≠ env.self) (hsu : Sorted (s.hist recv lp)) (hsc : Sorted (s.hist env.self lp))
    (hcur : ∀ cur, fmCurrentEpoch s env = .ok cur →
      (∀ x ∈ s.hist recv lp, x.1 ≤ cur + 1) ∧ (∀ x ∈ s.hist env.self lp, x.1 ≤ cur + 1))
    (h : updateWeights s env recv lp amount unlocking fill = .ok s') :
    ∃ w, calculateWeight amount unlocking = .ok w ∧
      (fill = true →
        latestWeight (s'.hist recv lp) = latestWeight (s.hist recv lp) + w ∧
        latestWeight (s'.hist env.self lp) = latestWeight (s.hist env.self lp) + w) ∧
      (fill = false →
        latestWeight (s'.hist recv lp) = latestWeight (s.hist recv lp) - min w (latestWeight (s.hist recv lp)) ∧
        latestWeight (s'.hist env.self lp) =
          latestWeight (s.hist env.self lp) - min w (latestWeight (s.hist recv lp))) ∧
      (∀ a d, (a, d) ≠ (recv, lp) → (a, d) ≠ (env.self, lp) → s'.hist a d = s.hist a d) := by
  unfold updateWeights at h
  have hsetr : ∀ X Y, (((s.setHist env.self lp X).setHist recv lp Y).hist recv lp) = Y := by
    intro X Y; simp [FmState.setHist]
  have hmid : ∀ X, (s.setHist env.self lp X).hist recv lp = s.hist recv lp := by
    intro X; simp [FmState.setHist, hne]
  have hsf : ∀ X Y, (((s.setHist env.self lp X).setHist recv lp Y).hist env.self lp) = X := by
    intro X Y; simp [FmState.setHist, Ne.symm hne]
  have hoth : ∀ X Y a d, (a, d) ≠ (recv, lp) → (a, d) ≠ (env.self, lp) →
      (((s.setHist env.self lp X).setHist recv lp Y).hist a d) = s.hist a d := by
    intro X Y a d h1 h2
    simp only [ne_eq, Prod.mk.injEq] at h1 h2
    simp [FmState.setHist, h1, h2]
  cases fill
  · simp only [bind_ok, fit_ok, pure_ok, Bool.false_eq_true, if_false] at h
    obtain ⟨cur, hc, w, hw, e, ⟨_, rfl⟩, cw', rfl, uw', rfl, rfl⟩ := h
    obtain ⟨hu1, hc1⟩ := hcur cur hc
    refine ⟨w, hw, by simp, ?_, hoth _ _⟩
    intro _
    rw [hsetr, hmid, hsf, latest_after_set hsu hu1, latest_after_set hsc hc1]
    exact ⟨rfl, rfl⟩
  · simp only [bind_ok, fit_ok, pure_ok, if_true, ckAdd_ok] at h
    obtain ⟨cur, hc, w, hw, e, ⟨_, rfl⟩, cw', ⟨_, rfl⟩, uw', ⟨_, rfl⟩, rfl⟩ := h
    obtain ⟨hu1, hc1⟩ := hcur cur hc
    refine ⟨w, hw, ?_, by simp, hoth _ _⟩
    intro _
    rw [hsetr, hmid, hsf, latest_after_set hsu hu1, latest_after_set hsc hc1]
    exact ⟨rfl, rfl⟩

/-! ### sums of latest weights -/

theorem foldl_add_start (l : List Nat) (a : Nat) : l.foldl (· + ·) a = a + l.foldl (· + ·) 0 := by
  induction l generalizing a with
  | nil => simp
  | cons x xs ih => simp only [List.foldl_cons]; rw [ih (a + x), ih (0 + x)]; omega

theorem sumW_cons (f : Addr → Nat) (u : Addr) (us : List Addr) :
    ((u :: us).map f).foldl (· + ·) 0 = f u + (us.map f).foldl (· + ·) 0 := by
  simp only [List.map_cons, List.foldl_cons]; rw [foldl_add_start]; omega

theorem sumW_congr {f g : Addr → Nat} {us : List Addr} (h : ∀ a ∈ us, f a = g a) :
    (us.map f).foldl (· + ·) 0 = (us.map g).foldl (· + ·) 0 := by
  induction us with
  | nil => rfl
  | cons u us ih =>
    rw [sumW_cons, sumW_cons, h u (by simp), ih (fun a ha => h a (List.mem_cons_of_mem _ ha))]

theorem sumW_update {f g : Addr → Nat} {us : List Addr} {r : Addr} (hnd : us.Nodup) (hr : r ∈ us)
    (h : ∀ a ∈ us, a ≠ r → f a = g a) :
    (us.map f).foldl (· + ·) 0 + g r = (us.map g).foldl (· + ·) 0 + f r := by
  induction us with
  | nil => simp at hr
  | cons u us ih =>
    rw [sumW_cons, sumW_cons]
    rw [List.nodup_cons] at hnd
    by_cases hu : u = r
    · subst hu
      have : (us.map f).foldl (· + ·) 0 = (us.map g).foldl (· + ·) 0 :=
        sumW_congr (fun a ha => h a (List.mem_cons_of_mem _ ha) (fun e => hnd.1 (e ▸ ha)))
      omega
    · have hr' : r ∈ us := by
        rcases List.mem_cons.1 hr with e | e
        · exact absurd e.symm hu
        · exact e
      have := ih hnd.2 hr' (fun a ha => h a (List.mem_cons_of_mem _ ha))
      have := h u (by simp) hu
      omega

theorem sumW_ge_of_mem (f : Addr → Nat) {us : List Addr} {r : Addr} (hr : r ∈ us) :
    f r ≤ (us.map f).foldl (· + ·) 0 := by
  induction us with
  | nil => simp at hr
  | cons u us ih =>
    rw [sumW_cons]
    rcases List.mem_cons.1 hr with e | e
    · subst e; omega
    · have := ih e; omega

/-- hence the total keeps covering any set of distinct users — PARTIAL: the statement without `hin`
    is false (see `update_weights_covered_counterexample` below): on a close (`fill = false`) of a
    user who is *not* in `us`, the total drops by that user's share while the sum over `us` stays,
    so `Covered … us` alone does not survive.  Minimal extra hypothesis: on a close the receiver is
    one of the users counted (`fill = false → recv ∈ us`); nothing extra is needed for a fill. -/
theorem update_weights_covered_partial {s s' : FmState} {env : FmEnv} {recv : Addr} {lp : Denom}
    {amount unlocking : Nat} {fill : Bool} {us : List Addr}
    (hnd : us.Nodup) (hself : env.self ∉ us) (hne : recv ≠ env.self)
    (hsorted : ∀ a, Sorted (s.hist a lp))
    (hcur : ∀ cur, fmCurrentEpoch s env = .ok cur → ∀ a, ∀ x ∈ s.hist a lp, x.1 ≤ cur + 1)
    (hc : Covered s env.self lp us)
    (hin : fill = false → recv ∈ us)
    (h : updateWeights s env recv lp amount unlocking fill = .ok s') :
    Covered s' env.self lp us := by
  obtain ⟨w, _, hfill, hclose, hoth⟩ := update_weights_same_delta hne (hsorted recv) (hsorted env.self)
    (fun cur hcu => ⟨hcur cur hcu recv, hcur cur hcu env.self⟩) h
  unfold Covered at hc ⊢
  have hsame : ∀ a ∈ us, a ≠ recv →
      latestWeight (s'.hist a lp) = latestWeight (s.hist a lp) := by
    intro a ha har
    rw [hoth a lp (by simp [har]) (by simp; intro e; exact hself (e ▸ ha))]
  by_cases hr : recv ∈ us
  · have hupd := sumW_update (f := fun u => latestWeight (s'.hist u lp))
      (g := fun u => latestWeight (s.hist u lp)) hnd hr hsame
    have hge := sumW_ge_of_mem (fun u => latestWeight (s.hist u lp)) hr
    simp only at hupd hge
    cases fill
    · obtain ⟨h1, h2⟩ := hclose rfl
      rw [h2]; rw [h1] at hupd; omega
    · obtain ⟨h1, h2⟩ := hfill rfl
      rw [h2]; rw [h1] at hupd; omega
  · have hf : fill = true := by
      cases fill
      · exact absurd (hin rfl) hr
      · rfl
    obtain ⟨_, h2⟩ := hfill hf
    have : (us.map fun u => latestWeight (s'.hist u lp)).foldl (· + ·) 0
        = (us.map fun u => latestWeight (s.hist u lp)).foldl (· + ·) 0 :=
      sumW_congr (fun a ha => hsame a ha (fun e => hr (e ▸ ha)))
    rw [this, h2]; omega

/-! #### counterexample to the unrestricted statement
  alice 5, bob 3, recorded total 5 (covers `us = [alice]`); bob closes weight 3:
  total becomes 2 < 5 = alice. -/

def cexCfg : FmConfig := {
  feeCollector := "fc", epochManager := "em", poolManager := "pm",
  createFarmFee := ⟨"uom", 0⟩, maxConcurrentFarms := 1, maxFarmEpochBuffer := 1, minUnlocking := 86400,
  maxUnlocking := 31556926, farmExpirationTime := 0, emergencyUnlockPenalty := 0 }
def cexS : FmState := {
  config := cexCfg, owner := { owner := none },
  hist := fun a d => if d = "lp" then (if a = "alice" then [(0, 5)] else if a = "bob" then [(0, 3)]
     else if a = "fm" then [(0, 5)] else []) else [] }
def cexEnv : FmEnv := {
  self := "fm", nowNs := 0, validAddr := fun _ => true,
  emConfig := fun _ => some { duration := 86400, genesis := 0 } }


theorem cex_run :
    (updateWeights cexS cexEnv "bob" "lp" 3 86400 false).toOption.map
      (fun s' => (latestWeight (s'.hist "alice" "lp"), latestWeight (s'.hist "fm" "lp"))) = some (5, 2) := by
  decide

/-- the original `update_weights_covered` (without `recv ∈ us`) does not hold -/
theorem update_weights_covered_counterexample :
    ¬ (∀ {s s' : FmState} {env : FmEnv} {recv : Addr} {lp : Denom}
        {amount unlocking : Nat} {fill : Bool} {us : List Addr},
        us.Nodup → env.self ∉ us → recv ≠ env.self →
        (∀ a, Sorted (s.hist a lp)) →
        (∀ cur, fmCurrentEpoch s env = .ok cur → ∀ a, ∀ x ∈ s.hist a lp, x.1 ≤ cur + 1) →
        Covered s env.self lp us →
        updateWeights s env recv lp amount unlocking fill = .ok s' →
        Covered s' env.self lp us) := by
  intro H
  have hrun := cex_run
  cases hh : updateWeights cexS cexEnv "bob" "lp" 3 86400 false with
  | error e => rw [hh] at hrun; simp [Except.toOption] at hrun
  | ok s' =>
    rw [hh] at hrun
    simp only [Except.toOption, Option.map_some, Option.some.injEq, Prod.mk.injEq] at hrun
    have hcases : ∀ a, cexS.hist a "lp" = [(0, 5)] ∨ cexS.hist a "lp" = [(0, 3)] ∨ cexS.hist a "lp" = [] := by
      intro a
      simp only [cexS, if_true]
      split
      · exact Or.inl rfl
      · split
        · exact Or.inr (Or.inl rfl)
        · split
          · exact Or.inl rfl
          · exact Or.inr (Or.inr rfl)
    have hcov : Covered (s := s') (self := cexEnv.self) (lp := "lp") (us := ["alice"]) :=
      H (s := cexS) (env := cexEnv) (recv := "bob") (amount := 3) (unlocking := 86400) (fill := false)
        (by decide) (by decide) (by decide)
        (by intro a; rcases hcases a with h | h | h <;> rw [h] <;> simp [Sorted])
        (by intro cur _ a x hx; rcases hcases a with h | h | h <;> rw [h] at hx <;> simp at hx <;> subst hx <;> simp)
        (by unfold Covered; decide) hh
    unfold Covered at hcov
    simp only [List.map_cons, List.map_nil, List.foldl_cons, List.foldl_nil, Nat.zero_add] at hcov
    have : cexEnv.self = "fm" := rfl
    rw [this, hrun.1, hrun.2] at hcov
    omega

/-- when a user's last open position in an LP token goes away, their weight history for it is
    cleared, and with no open position at all the claim cursor too -/
theorem syncHistory_false_ok {s s' : FmState} {a : Addr} {lp : Denom} {e : Nat}
    (h : syncHistory s a lp e false = .ok s') : s' = s.setHist a lp [] := by
  unfold syncHistory at h
  simp only [Bool.not_false, if_true] at h
  split at h
  · simp [bind, Except.bind] at h
  · simpa using h

theorem reconcile_clears {s s' : FmState} {env : FmEnv} {recv : Addr} {lp : Denom}
    (h : reconcileUserState s env recv lp = .ok s') :
    ((s.positionsBy recv true).filter (·.lpDenom == lp) = [] → s'.hist recv lp = []) ∧
    (s.positionsBy recv true = [] → s'.lastClaimed recv = none) ∧
    (∀ a d, (a, d) ≠ (recv, lp) → s'.hist a d = s.hist a d) := by
  unfold reconcileUserState at h
  simp only at h
  generalize hs1 : (if (s.positionsBy recv true).isEmpty = true then
      ({ s with lastClaimed := fun a => if a = recv then none else s.lastClaimed a } : FmState) else s) = s1 at h
  have hh : s1.hist = s.hist := by subst hs1; split <;> rfl
  have hl : s.positionsBy recv true = [] → s1.lastClaimed recv = none := by
    intro he; subst hs1; simp [he]
  split at h
  next hc =>
    simp only [bind_ok] at h
    obtain ⟨cur, _, h⟩ := h
    have := syncHistory_false_ok h
    subst this
    refine ⟨fun _ => by simp [FmState.setHist], fun he => by simpa [FmState.setHist] using hl he, ?_⟩
    intro a d had
    simp only [ne_eq, Prod.mk.injEq] at had
    simp [FmState.setHist, had, hh]
  next hc =>
    simp only [pure_ok] at h
    subst h
    refine ⟨?_, hl, fun a d _ => by rw [hh]⟩
    intro hf
    simp only [hf, List.isEmpty_nil, Bool.true_and, Bool.not_eq_true', Bool.not_eq_false', List.isEmpty_iff] at hc
    simpa using hc

end MantraDex.C10H
