/-
  C10 (part 2) — the total weight covers the sum of the users' weights, over the farm-manager
  state machine (after the F-07 fix), and a user without open positions has no weight.
-/
import MantraDex.Model.System
import MantraDex.Proofs.NumLemmas

set_option linter.unusedSimpArgs false

namespace MantraDex.C10H
open MantraDex

/-- latest recorded weights of a list of users sum to at most the contract's latest weight -/
def Covered (s : FmState) (self : Addr) (lp : Denom) (us : List Addr) : Prop :=
  ((us.map fun u => latestWeight (s.hist u lp)).foldl (· + ·) 0) ≤ latestWeight (s.hist self lp)

/-- snapshots ascending -/
def Sorted (h : List (Nat × Nat)) : Prop := h.Pairwise (fun a b => a.1 < b.1)

/-- writing at an epoch not before the last snapshot makes the written value the latest -/
theorem latest_after_set {h : List (Nat × Nat)} (hs : Sorted h) {e w : Nat}
    (hlast : ∀ x ∈ h, x.1 ≤ e) : latestWeight (histSet h e w) = w := by
  sorry

/-- `update_weights` moves the user's and the contract's latest weight by the same amount (fill: +w;
    close: −min(w, user weight)), writes both at epoch+1, and touches nobody else -/
theorem update_weights_same_delta {s s' : FmState} {env : FmEnv} {recv : Addr} {lp : Denom}
    {amount unlocking : Nat} {fill : Bool}
    (hne : recv ≠ env.self) (hsu : Sorted (s.hist recv lp)) (hsc : Sorted (s.hist env.self lp))
    (hcur : ∀ cur, fmCurrentEpoch s env = .ok cur →
      (∀ x ∈ s.hist recv lp, x.1 ≤ cur + 1) ∧ (∀ x ∈ s.hist env.self lp, x.1 ≤ cur + 1))
    (h : updateWeights s env recv lp amount unlocking fill = .ok s') :
    ∃ w, calculateWeight amount unlocking = .ok w ∧
      (fill = true →
        latestWeight (s'.hist recv lp) = latestWeight (s.hist recv lp) + w ∧
        latestWeight (s'.hist env.self lp) = latestWeight (s.hist env.self lp) + w) ∧
      (fill = false →
        latestWeight (s'.hist recv lp) = latestWeight (s.hist recv lp) - min w (latestWeight (s.hist recv lp)) ∧
        latestWeight (s'.hist env.self lp) =
          latestWeight (s.hist env.self lp) - min w (latestWeight (s.hist recv lp))) ∧
      (∀ a d, (a, d) ≠ (recv, lp) → (a, d) ≠ (env.self, lp) → s'.hist a d = s.hist a d) := by
  sorry

/-- hence the total keeps covering any set of distinct users -/
theorem update_weights_covered {s s' : FmState} {env : FmEnv} {recv : Addr} {lp : Denom}
    {amount unlocking : Nat} {fill : Bool} {us : List Addr}
    (hnd : us.Nodup) (hself : env.self ∉ us) (hne : recv ≠ env.self)
    (hsorted : ∀ a, Sorted (s.hist a lp))
    (hcur : ∀ cur, fmCurrentEpoch s env = .ok cur → ∀ a, ∀ x ∈ s.hist a lp, x.1 ≤ cur + 1)
    (hc : Covered s env.self lp us)
    (h : updateWeights s env recv lp amount unlocking fill = .ok s') :
    Covered s' env.self lp us := by
  sorry

/-- when a user's last open position in an LP token goes away, their weight history for it is
    cleared, and with no open position at all the claim cursor too -/
theorem reconcile_clears {s s' : FmState} {env : FmEnv} {recv : Addr} {lp : Denom}
    (h : reconcileUserState s env recv lp = .ok s') :
    ((s.positionsBy recv true).filter (·.lpDenom == lp) = [] → s'.hist recv lp = []) ∧
    (s.positionsBy recv true = [] → s'.lastClaimed recv = none) ∧
    (∀ a d, (a, d) ≠ (recv, lp) → s'.hist a d = s.hist a d) := by
  sorry

end MantraDex.C10H
