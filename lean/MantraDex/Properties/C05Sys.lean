/-
  C05, lifted through the runtime: the farm manager's bank balance covers what it owes after every
  transaction of every history, whatever the other contracts and users do — including nested calls
  (pool manager locking LP for a depositor), reply-on-error refunds of closing farms, injected bank
  faults at any position and rolled-back sub-messages.

  `C05.lean` proves the handler law  liability' + outflow ≤ liability + inflow  for every farm-manager
  message.  Here the law is composed with the message-execution semantics of `Model/System.lean`
  (`execMsg` / `execSubs`, depth-first sub-messages, reply modes, rollback scopes) into an invariant of
  `step`, by induction on the fuel of the mutual recursion.
-/
import MantraDex.Model.System
import MantraDex.Proofs.NumLemmas
import MantraDex.Properties.C05
import MantraDex.Proofs.SysLemmas
import MantraDex.Proofs.FmSysLemmas

set_option linter.unusedSimpArgs false
set_option linter.unusedVariables false

namespace MantraDex.C05Sys
open MantraDex MantraDex.FmSys

/-- transactions are signed by accounts, never by a contract address, and carry at most one coin per denom
    (the SDK rejects anything else) -/
def External : Tx → Prop
  | .exec sender _ _ funds => isContract sender = false ∧ (funds.map (·.denom)).Nodup
  | .send frm _ coins => isContract frm = false ∧ (coins.map (·.denom)).Nodup
  | .advance _ => True

/-- the farm manager holds at least what it owes (positions' LP + unclaimed farm rewards), per denom -/
def FmCustody (w : World) : Prop := ∀ d, C05.liability w.fm d ≤ w.bank.bal FM d

/-- the invariant carried along: custody plus the well-formedness the handler laws need -/
structure FmInv (w : World) : Prop where
  custody : FmCustody w
  posNodup : (w.fm.positions.map (·.id)).Nodup
  farmNodup : (w.fm.farms.map (·.id)).Nodup
  claimedOk : C05.ClaimedOk w.fm
  /-- generated position identifiers beyond the counter are unused -/
  autoFresh : ∀ n, w.fm.posCounter < n →
    w.fm.getPosition (C.AUTO_POSITION_ID_PREFIX ++ toString n) = none

theorem FmInv.toWF {w : World} (h : FmInv w) : FmWF w.fm :=
  ⟨⟨h.posNodup, h.autoFresh⟩, h.farmNodup, h.claimedOk⟩

theorem FmInv.ofWF {w : World} (h : FmWF w.fm) (hc : Cov w (fun _ => 0)) : FmInv w :=
  ⟨fun d => by have := hc d; simp only [Nat.add_zero] at this; exact this,
    h.pos.nodup, h.farmNodup, h.claimedOk, h.pos.fresh⟩

theorem not_contract_ne_FM {a : Addr} (h : isContract a = false) : a ≠ FM := by
  intro e; subst e; revert h; decide

/-- a successful top-level message of an external sender preserves the invariant -/
theorem fm_inv_exec {w w' : World} {sender : Addr} {m : Msg} {k : Option Nat} (hs : sender ≠ FM)
    (h : FmInv w)
    (hx : execMsg FUEL { w with bank := { w.bank with calls := 0, failAt := k } } sender m = .ok w') :
    FmInv w' := by
  obtain ⟨hwf, hcov⟩ := (exec_inv FUEL).1 _ sender m w' (fun _ => 0) hx h.toWF (fun e => absurd e hs)
    (fun d => by
      have := h.custody d
      simp only [cost, if_neg hs, Nat.add_zero]
      exact this)
  exact FmInv.ofWF hwf hcov

/-- one transaction (committed or rejected, with or without an injected fault) preserves the invariant -/
theorem fm_inv_step (w : World) (tx : Tx) (k : Option Nat) (hext : External tx) (h : FmInv w) :
    FmInv (step w tx k) := by
  unfold step
  cases hr : runTx w tx k with
  | error e => exact h
  | ok w' =>
    simp only
    cases tx with
    | exec sender c msg funds =>
      exact fm_inv_exec (m := .wasmExec c msg funds) (k := k) (not_contract_ne_FM hext.1) h hr
    | send frm to coins =>
      exact fm_inv_exec (m := .bankSend to coins) (k := k) (not_contract_ne_FM hext.1) h hr
    | advance ns =>
      simp only [runTx, Except.ok.injEq] at hr
      subst hr
      exact ⟨h.custody, h.posNodup, h.farmNodup, h.claimedOk, h.autoFresh⟩

/-- every reachable state: the whole invariant holds after any history of external transactions -/
theorem fm_inv_reachable (w0 : World) (h0 : FmInv w0) (txs : List (Tx × Option Nat))
    (hext : ∀ t ∈ txs, External t.1) :
    FmInv (txs.foldl (fun w t => step w t.1 t.2) w0) := by
  induction txs generalizing w0 with
  | nil => exact h0
  | cons t ts ih =>
    rw [List.foldl_cons]
    exact ih _ (fm_inv_step w0 t.1 t.2 (hext t List.mem_cons_self) h0)
      (fun t' ht' => hext t' (List.mem_cons_of_mem _ ht'))

/-- every reachable state: custody holds after any history of external transactions with any faults -/
theorem fm_custody_reachable (w0 : World) (h0 : FmInv w0) (txs : List (Tx × Option Nat))
    (hext : ∀ t ∈ txs, External t.1) :
    FmCustody (txs.foldl (fun w t => step w t.1 t.2) w0) :=
  (fm_inv_reachable w0 h0 txs hext).custody

/-- the invariant holds in a freshly instantiated deployment (no positions, no farms) -/
theorem fm_inv_init (w : World) (hp : w.fm.positions = []) (hf : w.fm.farms = []) : FmInv w := by
  refine ⟨fun d => ?_, by rw [hp]; exact List.nodup_nil, by rw [hf]; exact List.nodup_nil, ?_, fun n _ => ?_⟩
  · unfold C05.liability
    rw [hp, hf]
    exact Nat.zero_le _
  · intro f hm; rw [hf] at hm; cases hm
  · unfold FmState.getPosition; rw [hp]; rfl

end MantraDex.C05Sys
