/-
  C13, deposit clause at the level of whole transactions: "a constant-product deposit with a slippage
  tolerance is accepted only if the deposit ratio is within that tolerance of the pool ratio … within the
  valid range a larger tolerance never rejects what a smaller one accepts, and a deposit in exact pool
  proportion is accepted under any valid tolerance".

  `C13.lean` proves these for the function `assertSlippageTolerance`.  Here they are stated for an accepted /
  rejected `ProvideLiquidity` TRANSACTION (two coins attached, funded constant-product pool, no lock), with the
  ratios taken from the pool as it was BEFORE the transaction — which is what distinguishes the code from a
  variant that checks against the reserves after the deposit was added.
-/
import MantraDex.Model.System
import MantraDex.Properties.C13
import MantraDex.Properties.C16Tx
import MantraDex.Proofs.TolTx
import MantraDex.Proofs.TolTxCx

set_option linter.unusedSimpArgs false
set_option linter.unusedVariables false

namespace MantraDex.C13Tx
open MantraDex

/-- the tolerance predicate of the code for a two-asset constant-product pool with reserves `(p0, p1)` and a
    deposit `(d0, d1)` (both listed in the order of the denoms `n0 < n1`), 18-digit floors as in the code -/
def withinTolerance (tol d0 d1 p0 p1 : Nat) : Prop :=
  d0 * ONE18 / d1 * (ONE18 - tol) / ONE18 ≤ p0 * ONE18 / p1 ∧
  d1 * ONE18 / d0 * (ONE18 - tol) / ONE18 ≤ p1 * ONE18 / p0

/-- **accepted ⇒ within tolerance of the PRE-deposit pool ratio**
    (`hfunded` is not used: the code runs the check whenever both reserves are non-zero; no `u128` bounds are
    needed for this direction — overflow of an intermediate ratio makes the handler fail, not pass) -/
theorem provide_tx_within_tolerance (w w' : World) (u : Addr) (tol : Nat) (ss : Option Nat) (rc : Option Addr)
    (pid : String) (pool : PoolInfo) (n0 n1 : Denom) (d0 d1 p0 p1 : Nat) (k : Option Nat)
    (hp : w.pm.getPool pid = .ok pool) (hcp : pool.ptype = .cp)
    (hassets : pool.assets = [⟨n0, p0⟩, ⟨n1, p1⟩]) (hlt : n0 < n1)
    (hfunded : w.bank.supply pool.lpDenom ≠ 0) (hp0 : p0 ≠ 0) (hp1 : p1 ≠ 0)
    (h : runTx w (.exec u PM (.pm (.provideLiquidity (some tol) ss rc pid none none)) [⟨n0, d0⟩, ⟨n1, d1⟩]) k = .ok w') :
    tol ≤ ONE18 ∧ withinTolerance tol d0 d1 p0 p1 := by
  obtain ⟨r, hr⟩ := TolTx.provide_tx_ast hp hlt h
  rw [hassets, hcp] at hr
  exact TolTx.ast_cp_within hlt hp0 hp1 hr

/-- the same with lock options (the check does not depend on them) -/
theorem provide_tx_within_tolerance_locked (w w' : World) (u : Addr) (tol : Nat) (ss : Option Nat) (rc : Option Addr)
    (pid : String) (pool : PoolInfo) (n0 n1 : Denom) (d0 d1 p0 p1 : Nat) (unl : Option Nat) (lock : Option String)
    (k : Option Nat)
    (hp : w.pm.getPool pid = .ok pool) (hcp : pool.ptype = .cp)
    (hassets : pool.assets = [⟨n0, p0⟩, ⟨n1, p1⟩]) (hlt : n0 < n1) (hp0 : p0 ≠ 0) (hp1 : p1 ≠ 0)
    (h : runTx w (.exec u PM (.pm (.provideLiquidity (some tol) ss rc pid unl lock)) [⟨n0, d0⟩, ⟨n1, d1⟩]) k = .ok w') :
    tol ≤ ONE18 ∧ withinTolerance tol d0 d1 p0 p1 := by
  obtain ⟨r, hr⟩ := TolTx.provide_tx_ast hp hlt h
  rw [hassets, hcp] at hr
  exact TolTx.ast_cp_within hlt hp0 hp1 hr

/-- monotone in the tolerance for EVERY accepted `ProvideLiquidity` transaction: any funds (including a single
    coin, or several coins of one denom — the single-asset deposit with its self-swap, reply and second leg),
    any pool type, any lock options, any injected bank fault -/
theorem provide_tx_tolerance_monotone_any (w w' : World) (u : Addr) (t1 t2 : Nat) (ss : Option Nat) (rc : Option Addr)
    (pid : String) (funds : List Coin) (unl : Option Nat) (lock : Option String) (k : Option Nat)
    (hle : t1 ≤ t2) (ht : t2 ≤ ONE18)
    (h : runTx w (.exec u PM (.pm (.provideLiquidity (some t1) ss rc pid unl lock)) funds) k = .ok w') :
    runTx w (.exec u PM (.pm (.provideLiquidity (some t2) ss rc pid unl lock)) funds) k = .ok w' := by
  rw [TolTx.runTx_exec] at h ⊢
  exact TolTx.exec_provide_mono hle ht 64 _ _ _ _ _ _ _ _ _ h

/-- **monotone in the tolerance, for the whole transaction**: accepted under `t1`, then accepted under any larger
    valid `t2`, with the very same resulting world.
    (`h2`, `hp`, `hcp` are not used — see `provide_tx_tolerance_monotone_any`.  Note that `2 ≤ funds.length` does
    NOT force the multi-asset branch: two coins of the same denom are aggregated into one and take the
    single-asset path; the proof covers that path too.) -/
theorem provide_tx_tolerance_monotone (w w' : World) (u : Addr) (t1 t2 : Nat) (ss : Option Nat) (rc : Option Addr)
    (pid : String) (funds : List Coin) (unl : Option Nat) (lock : Option String) (k : Option Nat)
    (hle : t1 ≤ t2) (ht : t2 ≤ ONE18) (h2 : 2 ≤ funds.length)
    (pool : PoolInfo) (hp : w.pm.getPool pid = .ok pool) (hcp : pool.ptype = .cp)
    (h : runTx w (.exec u PM (.pm (.provideLiquidity (some t1) ss rc pid unl lock)) funds) k = .ok w') :
    runTx w (.exec u PM (.pm (.provideLiquidity (some t2) ss rc pid unl lock)) funds) k = .ok w' :=
  provide_tx_tolerance_monotone_any w w' u t1 t2 ss rc pid funds unl lock k hle ht h

/-
  ORIGINAL STATEMENT (false as written):

    theorem provide_tx_tolerance_above_one_refused (w : World) (u : Addr) (tol : Nat) (ss : Option Nat) (rc : Option Addr)
        (pid : String) (funds : List Coin) (unl : Option Nat) (lock : Option String) (k : Option Nat)
        (pool : PoolInfo) (hp : w.pm.getPool pid = .ok pool) (hcp : pool.ptype = .cp)
        (hfunded : w.bank.supply pool.lpDenom ≠ 0) (h2 : 2 ≤ funds.length)
        (htol : ONE18 < tol) :
        ∃ e, runTx w (.exec u PM (.pm (.provideLiquidity (some tol) ss rc pid unl lock)) funds) k = .error e

  Counterexample (`Proofs/TolTxCx.lean`): the statement quantifies over ALL worlds, including one whose
  "constant-product" pool has THREE assets `x, y, z` with reserves 0 / 100 / 100 and an LP supply of 1000.  A deposit
  of 10 `y` + 10 `z` with a tolerance of 200 % is accepted: `assert_slippage_tolerance` returns early because a
  reserve is zero (the `> 100 %` refusal sits behind that early return), and the share computation divides only
  by the reserves of the deposited denoms.  (`TolTx.Cx.check_skipped`, `shares_ok`, `tail_ok` are kernel-checked;
  the whole transaction is recorded with its `#eval` result, the handler's `isFactoryToken` string split does not
  reduce in the kernel.)

  What was missing: the pool has two assets.  Every reachable constant-product pool has
  (`C02Sys.LpInv.shape` + `aligned`, `C03Sys.cp2_of_inv`).  With two assets the theorem holds for ALL funds:
    * both reserves non-zero: the multi-asset branch reaches the check, which refuses; the single-asset branch
      swaps first, x·y does not decrease so both reserves stay non-zero, and its second leg is refused;
    * a zero reserve in a funded pool: the single-asset branch refuses at once; in the multi-asset branch the
      aggregated funds have pairwise distinct denoms, so they are exactly the two pool assets, and the share
      computation divides by the zero reserve.
-/

/-- PARTIAL: added `hlen : pool.assets.length = 2` (see the comment above); `h2` is not needed -/
theorem provide_tx_tolerance_above_one_refused_partial (w : World) (u : Addr) (tol : Nat) (ss : Option Nat)
    (rc : Option Addr) (pid : String) (funds : List Coin) (unl : Option Nat) (lock : Option String) (k : Option Nat)
    (pool : PoolInfo) (hp : w.pm.getPool pid = .ok pool) (hcp : pool.ptype = .cp)
    (hfunded : w.bank.supply pool.lpDenom ≠ 0) (hlen : pool.assets.length = 2)
    (htol : ONE18 < tol) :
    ∃ e, runTx w (.exec u PM (.pm (.provideLiquidity (some tol) ss rc pid unl lock)) funds) k = .error e := by
  cases hr : runTx w (.exec u PM (.pm (.provideLiquidity (some tol) ss rc pid unl lock)) funds) k with
  | error e => exact ⟨e, rfl⟩
  | ok w' => exact (TolTx.provide_tx_not_ok hp hcp hfunded hlen htol hr).elim

/-- … hence the world is left exactly as it was -/
theorem provide_tx_tolerance_above_one_unchanged (w : World) (u : Addr) (tol : Nat) (ss : Option Nat)
    (rc : Option Addr) (pid : String) (funds : List Coin) (unl : Option Nat) (lock : Option String) (k : Option Nat)
    (pool : PoolInfo) (hp : w.pm.getPool pid = .ok pool) (hcp : pool.ptype = .cp)
    (hfunded : w.bank.supply pool.lpDenom ≠ 0) (hlen : pool.assets.length = 2)
    (htol : ONE18 < tol) :
    step w (.exec u PM (.pm (.provideLiquidity (some tol) ss rc pid unl lock)) funds) k = w := by
  obtain ⟨e, he⟩ := provide_tx_tolerance_above_one_refused_partial w u tol ss rc pid funds unl lock k pool hp hcp
    hfunded hlen htol
  unfold step
  rw [he]

/-- with non-zero reserves instead of an existing LP supply (the form in which `provide_tx_within_tolerance`
    describes the pool) -/
theorem provide_tx_tolerance_above_one_refused_nonzero (w : World) (u : Addr) (tol : Nat) (ss : Option Nat)
    (rc : Option Addr) (pid : String) (funds : List Coin) (unl : Option Nat) (lock : Option String) (k : Option Nat)
    (pool : PoolInfo) (n0 n1 : Denom) (p0 p1 : Nat) (hp : w.pm.getPool pid = .ok pool) (hcp : pool.ptype = .cp)
    (hassets : pool.assets = [⟨n0, p0⟩, ⟨n1, p1⟩]) (hp0 : p0 ≠ 0) (hp1 : p1 ≠ 0)
    (htol : ONE18 < tol) :
    ∃ e, runTx w (.exec u PM (.pm (.provideLiquidity (some tol) ss rc pid unl lock)) funds) k = .error e := by
  cases hr : runTx w (.exec u PM (.pm (.provideLiquidity (some tol) ss rc pid unl lock)) funds) k with
  | error e => exact ⟨e, rfl⟩
  | ok w' =>
    rw [TolTx.runTx_exec] at hr
    exact (TolTx.exec_provide_refused htol 64 { w with bank := { w.bank with calls := 0, failAt := k } } u funds ss rc
      pid unl lock w' pool n0 n1 p0 p1 hp hcp hassets hp0 hp1 hr).elim

end MantraDex.C13Tx
