/-
  C10, lifted through the runtime: in every state reachable by account-signed transactions (nested
  calls from the pool manager, replies, rollbacks, injected faults), for every LP token and EVERY
  epoch, the total weight the farm manager uses as the denominator of reward shares (the weight in
  effect of its own history entry) is at least the sum of the weights in effect of any set of distinct
  users; and a user without open positions in an LP token has no weight history in it.

  The epoch configuration must stay the same along the history (the owner of the epoch manager can
  re-base epochs; after that, epoch ids restart and the histories of both kinds are no longer
  comparable — recorded in DESIGN.md as an owner-level caveat), and block time must stay in the u64
  nanosecond range, as on a real chain.

  Proof structure (helper files `Proofs/WSys*.lean`, namespace `MantraDex.WSys`):
  * `WSysHist`  pure facts on `histSet` / `weightAt` / `latestWeight`, the covering inequality under a
                fill / close written at `cur + 1` (`cov_update`) and under lowering a user (`cov_lower`);
  * `WSysFm`, `WSysFmH`, `WSysFmX`, `WSysFmY`  the farm-manager invariant `FInv` and its preservation by
                every handler (`fmExecute_inv`);
  * `WSysPm`    the admissibility condition `MsgOk` on messages, and the pool manager's side of it;
  * `WSysRun`   the generic lift of an invariant through `execMsg` / `execSubs` (`lift_run`) and its
                instance for C10 (`sinv_exec`);
  * `WSysStep`  one transaction (`wcore_step`), including top-level configuration messages and time.
-/
import MantraDex.Model.System
import MantraDex.Spec.Ledger
import MantraDex.Proofs.NumLemmas
import MantraDex.Properties.C10H
import MantraDex.Properties.C05Sys
import MantraDex.Proofs.WSysStep

set_option linter.unusedSimpArgs false
set_option linter.unusedVariables false

namespace MantraDex.C10Sys
open MantraDex

def sumOver (us : List Addr) (f : Addr → Nat) : Nat := (us.map f).foldl (· + ·) 0

/-- for every epoch, the total's weight in effect covers the users' weights in effect -/
def Covers (w : World) : Prop :=
  ∀ (lp : Denom) (us : List Addr), us.Nodup → FM ∉ us → ∀ e,
    sumOver us (fun u => Spec.weightAt (w.fm.hist u lp) e) ≤ Spec.weightAt (w.fm.hist FM lp) e

/-- a user without open positions in an LP token has no weight in it -/
def NoPositionNoWeight (w : World) : Prop :=
  ∀ (u : Addr) (lp : Denom), u ≠ FM →
    (∀ p ∈ w.fm.positions, p.receiver = u → p.lpDenom = lp → p.open_ = false) → w.fm.hist u lp = []

/-- what must not change between two states for epoch ids to stay comparable -/
def EpochStable (w w' : World) : Prop :=
  w'.em.cfg = w.em.cfg ∧ w'.fm.config.epochManager = w.fm.config.epochManager ∧ w'.nowNs ≤ U64_MAX

/-- the invariant carried along (the proving agent may add fields; `covers` and `noWeight` stay).

    Changes w.r.t. the statement stub:
    * `bufferOk` is restricted to buffers that will lock (`b.unlocking.isSome`): a single-asset deposit
      WITHOUT lock may name any valid address as receiver of the minted LP, including the farm manager's,
      so the unrestricted form is not an invariant;
    * `autoFresh` added (generated position identifiers beyond the counter are unused, as in
      `C05Sys.FmInv`): without it a partial close could overwrite somebody's open position. -/
structure WInv (w : World) : Prop where
  covers : Covers w
  noWeight : NoPositionNoWeight w
  /-- snapshots ascending in every history -/
  sorted : ∀ a lp, C10H.Sorted (w.fm.hist a lp)
  /-- a snapshot exists only if the current epoch is defined, and lies at most one epoch ahead -/
  bounded : ∀ a lp, ∀ x ∈ w.fm.hist a lp, ∃ cur, fmCurrentEpoch w.fm w.fmEnv = .ok cur ∧ x.1 ≤ cur + 1
  /-- nobody's positions are recorded under the farm manager's own address -/
  noSelf : ∀ p ∈ w.fm.positions, p.receiver ≠ FM
  /-- at most MAX_POSITIONS_LIMIT open positions per receiver, so `positionsBy` sees them all -/
  openLimit : ∀ u, (w.fm.positions.filter fun p => p.receiver == u && p.open_ == true).length ≤ C.MAX_POSITIONS_LIMIT
  /-- a pending single-asset deposit that will lock never names the farm manager as the receiver -/
  bufferOk : ∀ b, w.pm.buffer = some b → b.unlocking.isSome = true → b.receiver ≠ FM
  posNodup : (w.fm.positions.map (·.id)).Nodup
  /-- generated position identifiers beyond the counter are unused -/
  autoFresh : ∀ n, w.fm.posCounter < n →
    w.fm.getPosition (C.AUTO_POSITION_ID_PREFIX ++ toString n) = none

theorem WInv.toCore {w : World} (h : WInv w) : WSys.WCore w :=
  ⟨⟨⟨fun lp us hnd hs e => h.covers lp us hnd hs e, h.sorted, h.bounded⟩, h.noWeight,
      ⟨h.noSelf, h.openLimit, h.posNodup⟩⟩,
    ⟨h.posNodup, h.autoFresh⟩, h.bufferOk⟩

theorem WInv.ofCore {w : World} (h : WSys.WCore w) : WInv w :=
  ⟨fun lp us hnd hs e => h.finv.hist.covers lp us hnd hs e, h.finv.noWeight, h.finv.hist.sorted,
    h.finv.hist.bounded, h.finv.pos.noSelf, h.finv.pos.openLimit, h.buf, h.finv.pos.posNodup, h.wf.fresh⟩

/-- one transaction (committed or rejected, any injected fault) preserves the invariant.

    Hypotheses dropped w.r.t. the stub (not needed): `hnow : w.nowNs ≤ U64_MAX`,
    `hfm : w.pm.config.farmManager = FM` and the whole `hcfg` about the post-state pointers (a message
    for the farm manager only executes at `FM` whatever the pool manager's pointer says; the farm
    manager's pool-manager pointer matters in the pre-state only, it cannot change in a transaction that
    also creates positions). -/
theorem winv_step (w : World) (tx : Tx) (k : Option Nat) (hext : C05Sys.External tx)
    (hstable : EpochStable w (step w tx k))
    (hpm : w.fm.config.poolManager = PM)
    (h : WInv w) : WInv (step w tx k) :=
  WInv.ofCore (WSys.wcore_step w tx k hext hstable.1 hstable.2.1 hstable.2.2 hpm h.toCore)

/-- the invariant holds in a freshly instantiated deployment -/
theorem winv_init (w : World) (hp : w.fm.positions = []) (hh : w.fm.hist = fun _ _ => [])
    (hb : w.pm.buffer = none) : WInv w := by
  refine ⟨?_, ?_, ?_, ?_, ?_, ?_, ?_, ?_, ?_⟩
  · intro lp us _ _ e
    rw [hh]
    show sumOver us (fun _ => Spec.weightAt [] e) ≤ Spec.weightAt [] e
    have : ∀ l : List Addr, sumOver l (fun _ => Spec.weightAt [] e) = 0 := by
      intro l
      induction l with
      | nil => rfl
      | cons a l ih =>
        have := C10H.sumW_cons (fun _ => Spec.weightAt [] e) a l
        unfold sumOver at ih ⊢
        rw [this, ih]; rfl
    rw [this]; exact Nat.zero_le _
  · intro u lp _ _; rw [hh]
  · intro a lp; rw [hh]; exact List.Pairwise.nil
  · intro a lp x hx; rw [hh] at hx; cases hx
  · intro p hp'; rw [hp] at hp'; cases hp'
  · intro u; rw [hp]; exact Nat.zero_le _
  · intro b hb'; rw [hb] at hb'; cases hb'
  · rw [hp]; exact List.nodup_nil
  · intro n _; unfold FmState.getPosition; rw [hp]; rfl

/-- every reachable state: for every LP token and every epoch the total weight covers the sum of the
    users' weights in effect, and users without open positions have no weight.

    Hypotheses dropped w.r.t. the stub (not needed): `hnow0`, `hfm0`, `hpm0` (the latter is `hstable 0`)
    and the conjunct `….pm.config.farmManager = FM` of `hstable`. -/
theorem weights_covered_reachable (w0 : World) (h0 : WInv w0) (txs : List (Tx × Option Nat))
    (hext : ∀ t ∈ txs, C05Sys.External t.1)
    (hstable : ∀ n, EpochStable w0 ((txs.take n).foldl (fun w t => step w t.1 t.2) w0) ∧
      ((txs.take n).foldl (fun w t => step w t.1 t.2) w0).fm.config.poolManager = PM) :
    Covers (txs.foldl (fun w t => step w t.1 t.2) w0) ∧
    NoPositionNoWeight (txs.foldl (fun w t => step w t.1 t.2) w0) := by
  have key : ∀ n, WInv ((txs.take n).foldl (fun w t => step w t.1 t.2) w0) := by
    intro n
    induction n with
    | zero => exact h0
    | succ n ih =>
      rw [List.take_add_one, List.foldl_append]
      cases ht : txs[n]? with
      | none => exact ih
      | some t =>
        have hmem : t ∈ txs := List.mem_of_getElem? ht
        obtain ⟨⟨a1, a2, _⟩, a4⟩ := hstable n
        obtain ⟨⟨b1, b2, b3⟩, _⟩ := hstable (n + 1)
        rw [List.take_add_one, List.foldl_append, ht] at b1 b2 b3
        simp only [Option.toList, List.foldl_cons, List.foldl_nil] at b1 b2 b3 ⊢
        exact winv_step _ t.1 t.2 (hext t hmem) ⟨b1.trans a1.symm, b2.trans a2.symm, b3⟩ a4 ih
  have := key txs.length
  rw [List.take_length] at this
  exact ⟨this.covers, this.noWeight⟩

end MantraDex.C10Sys
