/-
  C10, the equality clause: "… (and EQUAL to it while no position has been partially closed or topped up in
  pieces)".

  `C10Sys` proves total ≥ Σ users for every reachable state.  Here: along histories in which every position is
  opened once with its whole amount and closed (or emergency-withdrawn) as a whole — no `Expand`, no partial
  `Close`, no locked deposit of the pool manager into an EXISTING position — the recorded weights are exact:
  the latest total weight of an LP token is the sum of `calculate_weight(amount, unlocking_duration)` over the
  open positions in that token, every user's latest weight is the same sum over the user's own open
  positions, and therefore the total EQUALS the sum of the users' weights.

  (With top-ups in pieces the weight curve's super-additivity makes the close remove more than the pieces
  added; the clamp `min(weight, user_weight)` then leaves a drift in the total — which is why the property
  only claims ≥ in general.)
-/
import MantraDex.Model.System
import MantraDex.Properties.C10Sys
import MantraDex.Proofs.ExactWRun
import MantraDex.Proofs.ExactWSum
import MantraDex.Proofs.ExactWCx

set_option linter.unusedSimpArgs false
set_option linter.unusedVariables false

namespace MantraDex.C10Eq
open MantraDex

/-- the weight the code records for a position when it is opened with its whole amount -/
def posWeight (p : Position) : Nat :=
  match calculateWeight p.amount p.unlocking with
  | .ok w => w
  | .error _ => 0

def sumPos (ps : List Position) : Nat := (ps.map posWeight).foldl (· + ·) 0

/-- open positions in an LP token (of one receiver / of everybody) -/
def openIn (w : World) (lp : Denom) : List Position :=
  w.fm.positions.filter fun p => p.open_ && p.lpDenom == lp
def openOf (w : World) (u : Addr) (lp : Denom) : List Position :=
  w.fm.positions.filter fun p => p.open_ && p.lpDenom == lp && p.receiver == u

/-- the recorded latest weights are exactly the open positions' weights.

    Field added by the proving agent: `noExp` (an open position has no expiry time).  It holds in every state
    the handlers produce (`create_position` stores `expiring_at = None`, only a close sets it, and a close
    of the whole position also clears `open`), but an ARBITRARY starting state could contain an open position
    with an expiry in the past; the ordinary (non-emergency) `withdraw_position` would then remove it without
    touching the weights (it updates weights only in the emergency branch), and exactness would be lost.  -/
structure Exact (w : World) : Prop where
  total : ∀ lp, latestWeight (w.fm.hist FM lp) = sumPos (openIn w lp)
  user : ∀ u lp, u ≠ FM → latestWeight (w.fm.hist u lp) = sumPos (openOf w u lp)
  noExp : ∀ p ∈ w.fm.positions, p.open_ = true → p.expiringAt = none

/-- transactions that keep positions whole: no top-up, closes name the whole amount (or none),
    locked deposits through the pool manager never name an existing position (the proving agent may
    refine this predicate — e.g. quantify over the state — as long as it still admits creating positions
    directly and through the pool manager, full closes, emergency and normal withdrawals, claims, farms,
    swaps, deposits, withdrawals, configuration and time).

    NOT refined.  Notes of the proving agent:
    * `close_position` with `lp = some ⟨denom, whole amount⟩` takes the full-close branch of the model
      (`c.amount = p.amount`), so the clause as written is right;
    * the condition on `lockId` is evaluated on the state BEFORE the transaction; for a single-asset locked
      deposit (buffer + self-call + reply + nested deposit) the proof carries "`lockId` names no position"
      through the nested run as part of the invariant (`ExactW.EInv.lock`), so no condition on nested states
      is needed; only the conjunct `getPosition i = none` is used (the pool manager looks the RAW identifier
      up; the conjunct about the prefixed identifier merely makes the transaction succeed). -/
def Whole (w : World) : Tx → Prop
  | .exec _ _ (.fm (.expandPosition _)) _ => False
  | .exec _ _ (.fm (.closePosition id lp)) _ =>
      lp = none ∨ ∃ p, w.fm.getPosition id = some p ∧ lp = some ⟨p.lpDenom, p.amount⟩
  | .exec _ _ (.pm (.provideLiquidity _ _ _ _ unlocking lockId)) _ =>
      unlocking = none ∨ lockId = none ∨
        ∃ i, lockId = some i ∧ w.fm.getPosition (C.EXPLICIT_POSITION_ID_PREFIX ++ i) = none ∧ w.fm.getPosition i = none
  | _ => True

/-! ### bridge to the farm-manager level predicates of `Proofs/ExactW*.lean` -/

theorem exact_iff (w : World) : Exact w ↔ ExactW.ExactF w.fm FM :=
  ⟨fun h => ⟨h.total, h.user, h.noExp⟩, fun h => ⟨h.total, h.user, h.noExp⟩⟩

theorem whole_tx {w : World} {tx : Tx} (h : Whole w tx) : ExactW.WholeTx w.fm tx := by
  cases tx with
  | exec s c msg f =>
    cases msg with
    | fm m => cases m <;> first | exact h | trivial
    | pm m =>
      cases m with
      | provideLiquidity a b rc d u l =>
        rcases h with h | h | ⟨i, h1, _, h3⟩
        · exact Or.inl h
        · exact Or.inr (Or.inl h)
        · exact Or.inr (Or.inr ⟨i, h1, h3⟩)
      | _ => trivial
    | em m => trivial
    | fc m => trivial
  | send a b c => trivial
  | advance n => trivial

/-- one whole-position transaction preserves exactness (together with the invariant of `C10Sys`).

    (`hstable` is not used by the proof: exactness only compares LATEST weights, which do not depend on the
    epoch numbering; it is kept so that the statement matches `C10Sys.winv_step`, whose invariant `hinv`
    does need it to be re-established after the step.) -/
theorem exact_step (w : World) (tx : Tx) (k : Option Nat) (hext : C05Sys.External tx)
    (hstable : C10Sys.EpochStable w (step w tx k))
    (hpm : w.fm.config.poolManager = PM)
    (hinv : C10Sys.WInv w) (hwhole : Whole w tx)
    (h : Exact w) : Exact (step w tx k) :=
  (exact_iff _).2 (ExactW.exact_step_core w tx k hext hpm hinv.toCore ((exact_iff w).1 h) (whole_tx hwhole))

/-- a fresh deployment is exact -/
theorem exact_init (w : World) (hp : w.fm.positions = []) (hh : w.fm.hist = fun _ _ => []) : Exact w := by
  refine ⟨?_, ?_, ?_⟩
  · intro lp
    unfold openIn
    rw [hh, hp]
    rfl
  · intro u lp _
    unfold openOf
    rw [hh, hp]
    rfl
  · intro p hp'
    rw [hp] at hp'
    cases hp'

/-- **equality clause of C10**: in an exact state the total equals the sum of the users' latest weights over
    any duplicate-free list of users that contains every receiver of an open position in the LP token

    (`hinv` is not used.) -/
theorem total_eq_sum_of_users (w : World) (h : Exact w) (hinv : C10Sys.WInv w) (lp : Denom) (us : List Addr)
    (hnd : us.Nodup) (hfm : FM ∉ us)
    (hall : ∀ p ∈ openIn w lp, p.receiver ∈ us) :
    latestWeight (w.fm.hist FM lp) = C10Sys.sumOver us (fun u => latestWeight (w.fm.hist u lp)) :=
  ExactW.total_eq_users ((exact_iff w).1 h) lp hnd hfm hall

/-- every state reachable by whole-position histories from a fresh deployment is exact -/
theorem exact_reachable (w0 : World) (h0 : C10Sys.WInv w0) (he0 : Exact w0) (txs : List (Tx × Option Nat))
    (hext : ∀ t ∈ txs, C05Sys.External t.1)
    (hstable : ∀ n, C10Sys.EpochStable w0 ((txs.take n).foldl (fun w t => step w t.1 t.2) w0) ∧
      ((txs.take n).foldl (fun w t => step w t.1 t.2) w0).fm.config.poolManager = PM)
    (hwhole : ∀ n (t : Tx × Option Nat), txs[n]? = some t →
      Whole ((txs.take n).foldl (fun w t => step w t.1 t.2) w0) t.1) :
    Exact (txs.foldl (fun w t => step w t.1 t.2) w0) := by
  have key : ∀ n, C10Sys.WInv ((txs.take n).foldl (fun w t => step w t.1 t.2) w0) ∧
      Exact ((txs.take n).foldl (fun w t => step w t.1 t.2) w0) := by
    intro n
    induction n with
    | zero => exact ⟨h0, he0⟩
    | succ n ih =>
      have hw := hwhole n
      rw [List.take_add_one, List.foldl_append]
      cases ht : txs[n]? with
      | none => exact ih
      | some t =>
        have hmem : t ∈ txs := List.mem_of_getElem? ht
        obtain ⟨⟨a1, a2, _⟩, a4⟩ := hstable n
        obtain ⟨⟨b1, b2, b3⟩, _⟩ := hstable (n + 1)
        rw [List.take_add_one, List.foldl_append, ht] at b1 b2 b3
        simp only [Option.toList, List.foldl_cons, List.foldl_nil] at b1 b2 b3 ⊢
        have hst : C10Sys.EpochStable ((txs.take n).foldl (fun w t => step w t.1 t.2) w0)
            (step ((txs.take n).foldl (fun w t => step w t.1 t.2) w0) t.1 t.2) :=
          ⟨b1.trans a1.symm, b2.trans a2.symm, b3⟩
        exact ⟨C10Sys.winv_step _ t.1 t.2 (hext t hmem) hst a4 ih.1,
          exact_step _ t.1 t.2 (hext t hmem) hst a4 ih.1 (hw t ht) ih.2⟩
  have := key txs.length
  rw [List.take_length] at this
  exact this.2

/-! ### non-vacuity and necessity — concrete evaluated histories (`Proofs/ExactWCx.lean`)

  A fresh deployment `Cx.w0` in which `alice` holds 5 LP; unlocking duration 100 days, for which
  `calculate_weight(1) = 2` and `calculate_weight(5) = 11` (multiplier 2.2…, so the curve is strictly
  super-additive on these amounts). -/

open ExactW.Cx in
/-- the view of `Cx.view` determines both sides of `Exact.total` for the LP token of the examples -/
theorem total_of_view {w : World} {t u : Nat} {ps : List (Nat × Bool)} {ws : List (Option Nat)}
    (hv : view w = (t, u, ps, ws)) :
    latestWeight (w.fm.hist FM lp) = t ∧
    sumPos (openIn w lp) = ((ws.map fun o => o.getD 0).foldl (· + ·) 0) := by
  unfold view at hv
  simp only [Prod.mk.injEq] at hv
  obtain ⟨h1, _, _, h4⟩ := hv
  refine ⟨h1, ?_⟩
  rw [← h4]
  unfold sumPos openIn
  rw [List.map_map]
  congr 1
  apply List.map_congr_left
  intro p _
  unfold posWeight
  simp only [Function.comp]
  cases calculateWeight p.amount p.unlocking <;> rfl

open ExactW.Cx in
/-- NON-VACUITY: the hypotheses of `exact_step` are satisfiable and its conclusion is not trivially `0 = 0`:
    from the fresh deployment, opening 5 LP at once is an external, whole-position transaction in an
    invariant, exact state; the resulting state is exact, with a recorded total of 11 -/
theorem whole_history_exact :
    C10Sys.WInv w0 ∧ Exact w0 ∧ C05Sys.External (create 5) ∧ Whole w0 (create 5) ∧
    Exact (step w0 (create 5) none) ∧ latestWeight ((step w0 (create 5) none).fm.hist FM lp) = 11 := by
  have hi : C10Sys.WInv w0 := C10Sys.winv_init w0 rfl rfl rfl
  have he : Exact w0 := exact_init w0 rfl rfl
  have hx : C05Sys.External (create 5) := ⟨by decide, by decide⟩
  have hs := run_whole_stable
  refine ⟨hi, he, hx, trivial, exact_step w0 (create 5) none hx ⟨hs.1, hs.2.1, hs.2.2⟩ rfl hi trivial he, ?_⟩
  exact (total_of_view (w := step w0 (create 5) none) run_whole).1

open ExactW.Cx in
/-- NECESSITY (top-ups): opening 1 LP and expanding by 1 LP four times records 5 · 2 = 10, while the position
    of 5 LP is worth `calculate_weight(5) = 11`: the state is not exact.  (Each `expand1` violates `Whole`.) -/
theorem pieces_not_exact :
    ¬ Exact (run [create 1, expand1, expand1, expand1, expand1]) ∧ ∀ w, ¬ Whole w expand1 := by
  refine ⟨fun h => ?_, fun w h => h⟩
  obtain ⟨h1, h2⟩ := total_of_view run_pieces
  have := h.total lp
  rw [h1, h2] at this
  revert this
  decide

open ExactW.Cx in
/-- NECESSITY (partial closes): opening 5 LP (weight 11), closing 1 LP four times (4 · 2 leave) and then the
    remaining 1 LP in full (`min(2, 3) = 2` leaves): no open position is left, the user's history is cleared,
    and the total stays at 1 > 0: the state is not exact.  (`closePart` violates `Whole` in these states:
    it names 1 LP of a larger position.) -/
theorem partial_not_exact :
    ¬ Exact (run [create 5, closePart, closePart, closePart, closePart, closeAll]) ∧
    openIn (run [create 5, closePart, closePart, closePart, closePart, closeAll]) lp = [] ∧
    latestWeight ((run [create 5, closePart, closePart, closePart, closePart, closeAll]).fm.hist FM lp) = 1 := by
  obtain ⟨h1, h2⟩ := total_of_view run_partial
  refine ⟨fun h => ?_, ?_, h1⟩
  · have := h.total lp
    rw [h1, h2] at this
    revert this
    decide
  · have hv := run_partial
    unfold view at hv
    simp only [Prod.mk.injEq] at hv
    have h4 := hv.2.2.2
    unfold openIn
    exact List.map_eq_nil_iff.1 h4

end MantraDex.C10Eq
