/-
  C02 + C03, lifted through the runtime for constant-product pools: across EVERY transaction of any
  kind by any account (swaps, routes through the same pool several times, deposits of every shape incl.
  single-asset and locked ones, withdrawals, anything else), with nested calls, replies, rollbacks and
  injected faults, the value of one LP token of every constant-product pool, x·y / supply², never
  decreases; and while the supply is unchanged (no deposit/withdrawal) x·y itself never decreases.
  Hence no sequence of transactions whatsoever extracts value from liquidity providers.
-/
import MantraDex.Model.System
import MantraDex.Proofs.NumLemmas
import MantraDex.Properties.C02Sys
import MantraDex.Proofs.LpSysValue

set_option linter.unusedSimpArgs false
set_option linter.unusedVariables false

namespace MantraDex.C03Sys
open MantraDex

/-- product of the two reserves of a (two-asset) pool -/
def kOf (p : PoolInfo) : Nat := (p.assets.map (·.amount)).foldl (· * ·) 1

/-- value per LP token did not decrease from (p, S) to (p', S'):  k/S² ≤ k'/S'², cross-multiplied -/
def ValueLe (p : PoolInfo) (S : Nat) (p' : PoolInfo) (S' : Nat) : Prop := kOf p * S' ^ 2 ≤ kOf p' * S ^ 2

/-- additional invariant: an LP token that does not exist yet belongs to an empty pool -/
def Unfunded (w : World) : Prop :=
  ∀ p ∈ w.pm.pools, p.ptype = .cp → w.bank.supply p.lpDenom = 0 → ∀ a ∈ p.assets, a.amount = 0

/-! ### helpers -/

open MantraDex.LpSys (Covers PlainD Cp2 TxFwd PoolFwd)
open MantraDex.C02Sys (LpInv LpPlain)

theorem kOf_cp2 {p : PoolInfo} {n0 n1 : Denom} {x y : Nat} (h : Cp2 p n0 n1 x y) : kOf p = x * y := by
  unfold kOf
  rw [h.2.1]
  simp

theorem zero_of_cp2 {p : PoolInfo} {n0 n1 : Denom} {x y : Nat} (h : Cp2 p n0 n1 x y)
    (hz : ∀ a ∈ p.assets, a.amount = 0) : x = 0 ∧ y = 0 := by
  rw [h.2.1] at hz
  exact ⟨hz ⟨n0, x⟩ (by simp), hz ⟨n1, y⟩ (by simp)⟩

theorem cp2_of_inv {w : World} (h : LpInv w) {p : PoolInfo} (hp : p ∈ w.pm.pools) (hcp : p.ptype = .cp) :
    ∃ n0 n1 x y, Cp2 p n0 n1 x y :=
  LpSys.cp2_of_shape hcp (h.aligned p hp) ((h.shape p hp).1 hcp) (h.shape p hp).2

/-- the per-pool conclusion of the step theorem, from the runtime lemma -/
theorem value_of_fwd {S S' x y x' y' : Nat} {p p' : PoolInfo} {n0 n1 : Denom} (hc : Cp2 p n0 n1 x y)
    (hc' : Cp2 p' n0 n1 x' y') (pf : PoolFwd S S' x y x' y') (hU : S = 0 → x = 0 ∧ y = 0) :
    ValueLe p S p' S' ∧ (S' = S → kOf p ≤ kOf p') ∧ (S' = 0 → ∀ a ∈ p'.assets, a.amount = 0) := by
  obtain ⟨v, k, z⟩ := pf hU
  unfold ValueLe
  rw [kOf_cp2 hc, kOf_cp2 hc', Nat.pow_two, Nat.pow_two]
  refine ⟨v, k, fun h0 => ?_⟩
  obtain ⟨rfl, rfl⟩ := z h0
  intro a ha
  rw [hc'.2.1] at ha
  simp only [List.mem_cons, List.mem_singleton, List.not_mem_nil, or_false] at ha
  rcases ha with rfl | rfl <;> rfl

/-- a message-executing transaction, run from the world `w0` (the pre-state with the fault counter reset) -/
theorem fwd0 {w0 w' : World} {tx : Tx} (hext : C01Sys.External tx) (hc0 : Covers w0.bank)
    (hok : C16Sys.LpOk w0.pm) (hpl : ∀ p ∈ w0.pm.pools, PlainD p.lpDenom w0)
    (hr : match tx with
      | .exec sender c msg funds => execMsg FUEL w0 sender (.wasmExec c msg funds) = .ok w'
      | .send frm to coins => execMsg FUEL w0 frm (.bankSend to coins) = .ok w'
      | .advance _ => False) : TxFwd w0 w' := by
  cases tx with
  | exec sender c msg funds =>
    obtain ⟨hsc, hfunds⟩ := hext
    have hs := C02Sys.not_contract_ne_pm hsc
    simp only at hr
    cases msg with
    | pm m => exact LpSys.tx_pm_fwd hs hfunds hc0 hok hpl hr
    | fm m =>
      obtain ⟨f, -⟩ := LpSys.foreign_call (n := 63) (msg := .fm m) hs (by intro pm e; cases e) hc0 hr
      exact TxFwd.of_same f.pm f.sup
    | em m =>
      obtain ⟨f, -⟩ := LpSys.foreign_call (n := 63) (msg := .em m) hs (by intro pm e; cases e) hc0 hr
      exact TxFwd.of_same f.pm f.sup
    | fc m =>
      obtain ⟨f, -⟩ := LpSys.foreign_call (n := 63) (msg := .fc m) hs (by intro pm e; cases e) hc0 hr
      exact TxFwd.of_same f.pm f.sup
  | send frm to coins =>
    have hs := C02Sys.not_contract_ne_pm hext.1
    simp only at hr
    have f := LpSys.foreign_transfer hs hc0 hr
    exact TxFwd.of_same f.pm f.sup
  | advance ns => exact hr.elim

theorem fwd_of_run {w w' : World} {tx : Tx} {k : Option Nat} (hext : C01Sys.External tx) (h : LpInv w)
    (hpl : ∀ p ∈ w.pm.pools, PlainD p.lpDenom w) (hr : runTx w tx k = .ok w') : TxFwd w w' := by
  have hc : Covers w.bank := (C02Sys.covers_iff _).1 h.supplyCovers
  have hok : C16Sys.LpOk w.pm := ⟨h.ids, h.lpDerived⟩
  have key : ∀ w0 : World, w0 = { w with bank := { w.bank with calls := 0, failAt := k } } →
      TxFwd w0 w' → TxFwd w w' := by
    intro w0 e t
    subst e
    exact ⟨t.fwd, t.back⟩
  cases tx with
  | exec sender c msg funds =>
    simp only [runTx] at hr
    exact key _ rfl (fwd0 hext hc hok hpl hr)
  | send frm to coins =>
    simp only [runTx] at hr
    exact key _ rfl (fwd0 hext hc hok hpl hr)
  | advance ns =>
    simp only [runTx] at hr
    cases hr
    exact TxFwd.of_same rfl (fun _ => rfl)

/- STATEMENT CHANGE (strengthening only): the hypotheses `hc : C01Sys.PmInv w`, `hfee : C01Sys.FeeSmall w` of
   `cp_value_per_lp_step` and `hc0 : C01Sys.PmInv w0`, `hfee : ∀ n, C01Sys.FeeSmall (…)` of
   `cp_value_per_lp_reachable`, present in the statements as first written, are not needed and have been dropped;
   nothing else changed.  As first written:

     theorem cp_value_per_lp_step (w : World) (tx : Tx) (k : Option Nat) (hext : C01Sys.External tx)
         (hplain : C02Sys.LpPlain (step w tx k)) (h : C02Sys.LpInv w) (hc : C01Sys.PmInv w) (hu : Unfunded w)
         (hfee : C01Sys.FeeSmall w) : … (same conclusion)
     theorem cp_value_per_lp_reachable (w0 : World) (h0 : C02Sys.LpInv w0) (hc0 : C01Sys.PmInv w0) (hu0 : Unfunded w0)
         (txs : List (Tx × Option Nat)) (hext : ∀ t ∈ txs, C01Sys.External t.1)
         (hplain : ∀ n, C02Sys.LpPlain ((txs.take n).foldl (fun w t => step w t.1 t.2) w0))
         (hfee : ∀ n, C01Sys.FeeSmall ((txs.take n).foldl (fun w t => step w t.1 t.2) w0)) : … (same conclusion)

   The invariant `C02Sys.LpInv` carries the extra field `shape` (a constant-product pool has two, distinct, asset
   denoms), which is preserved by every transaction (`C02Sys.lp_inv_step`). -/

/-- every constant-product pool: value per LP token never decreases through a transaction -/
theorem cp_value_per_lp_step (w : World) (tx : Tx) (k : Option Nat) (hext : C01Sys.External tx)
    (hplain : C02Sys.LpPlain (step w tx k)) (h : C02Sys.LpInv w) (hu : Unfunded w) :
    (∀ p ∈ w.pm.pools, p.ptype = .cp → ∃ p' ∈ (step w tx k).pm.pools, p'.id = p.id ∧
      ValueLe p (w.bank.supply p.lpDenom) p' ((step w tx k).bank.supply p.lpDenom) ∧
      ((step w tx k).bank.supply p.lpDenom = w.bank.supply p.lpDenom → kOf p ≤ kOf p')) ∧
    Unfunded (step w tx k) := by
  have hkept := (C16Sys.pools_static_step w tx k h.ids).1
  have hinv' := C02Sys.lp_inv_step w tx k hext hplain h
  have hU : ∀ p ∈ w.pm.pools, ∀ n0 n1 x y, Cp2 p n0 n1 x y → w.bank.supply p.lpDenom = 0 → x = 0 ∧ y = 0 :=
    fun p hp n0 n1 x y hc h0 => zero_of_cp2 hc (hu p hp hc.1 h0)
  cases hr : runTx w tx k with
  | error e =>
    have hst : step w tx k = w := by unfold step; rw [hr]
    rw [hst]
    refine ⟨fun p hp hcp => ⟨p, hp, rfl, ?_, fun _ => Nat.le_refl _⟩, hu⟩
    unfold ValueLe
    exact Nat.le_refl _
  | ok w' =>
    have hst : step w tx k = w' := by unfold step; rw [hr]
    rw [hst] at hplain hkept hinv' ⊢
    have cm := C02Sys.committed hext h hr
    have hpl : ∀ p ∈ w.pm.pools, PlainD p.lpDenom w := by
      intro p hp
      obtain ⟨p', hp', hs⟩ := hkept p hp
      rw [hs.2.2.2.2.2]
      exact C02Sys.plain_back hplain hkept h.aligned cm.tf hp'
    have t := fwd_of_run hext h hpl hr
    constructor
    · intro p hp hcp
      obtain ⟨n0, n1, x, y, hc⟩ := cp2_of_inv h hp hcp
      obtain ⟨p', hp', x', y', e, hc', pf⟩ := t.fwd p hp n0 n1 x y hc
      obtain ⟨v, kk, -⟩ := value_of_fwd hc hc' pf (hU p hp n0 n1 x y hc)
      exact ⟨p', hp', e.1.symm, v, kk⟩
    · intro p' hp' hcp' h0
      rcases t.back p' hp' with ⟨p, hp, hid⟩ | hz
      · have hcp : p.ptype = .cp := by
          obtain ⟨p'', hp'', hs⟩ := hkept p hp
          have : p'' = p' := C16.eq_of_nodup_ids hinv'.ids p'' hp'' p' hp' (hs.1.symm.trans hid)
          subst this
          rw [hs.2.2.2.1]; exact hcp'
        obtain ⟨n0, n1, x, y, hc⟩ := cp2_of_inv h hp hcp
        obtain ⟨p'', hp'', x', y', e, hc', pf⟩ := t.fwd p hp n0 n1 x y hc
        have : p'' = p' := C16.eq_of_nodup_ids hinv'.ids p'' hp'' p' hp' (e.1.symm.trans hid)
        subst this
        obtain ⟨-, -, z⟩ := value_of_fwd hc hc' pf (hU p hp n0 n1 x y hc)
        apply z
        rw [e.2.2.2.2.2]
        exact h0
      · exact hz

theorem valueLe_trans {p p1 p2 : PoolInfo} {S S1 S2 : Nat} (h1 : ValueLe p S p1 S1) (h2 : ValueLe p1 S1 p2 S2)
    (h0 : S1 = 0 → kOf p = 0) : ValueLe p S p2 S2 := by
  unfold ValueLe at *
  by_cases hS1 : S1 = 0
  · rw [h0 hS1]; simp
  · have hpos : 0 < S1 ^ 2 := Nat.pow_pos (Nat.pos_of_ne_zero hS1)
    apply Nat.le_of_mul_le_mul_right _ hpos
    calc kOf p * S2 ^ 2 * S1 ^ 2 = kOf p * S1 ^ 2 * S2 ^ 2 := by ac_rfl
      _ ≤ kOf p1 * S ^ 2 * S2 ^ 2 := Nat.mul_le_mul_right _ h1
      _ = kOf p1 * S2 ^ 2 * S ^ 2 := by ac_rfl
      _ ≤ kOf p2 * S1 ^ 2 * S ^ 2 := Nat.mul_le_mul_right _ h2
      _ = kOf p2 * S ^ 2 * S1 ^ 2 := by ac_rfl

/-- … and hence through every history -/
theorem cp_value_per_lp_reachable (w0 : World) (h0 : C02Sys.LpInv w0) (hu0 : Unfunded w0)
    (txs : List (Tx × Option Nat)) (hext : ∀ t ∈ txs, C01Sys.External t.1)
    (hplain : ∀ n, C02Sys.LpPlain ((txs.take n).foldl (fun w t => step w t.1 t.2) w0)) :
    ∀ p ∈ w0.pm.pools, p.ptype = .cp → ∃ p' ∈ (txs.foldl (fun w t => step w t.1 t.2) w0).pm.pools, p'.id = p.id ∧
      ValueLe p (w0.bank.supply p.lpDenom) p' ((txs.foldl (fun w t => step w t.1 t.2) w0).bank.supply p.lpDenom) := by
  intro p hp hcp
  -- generalised: from any intermediate world `w` reached with the facts below
  suffices H : ∀ (txs : List (Tx × Option Nat)) (w : World) (q : PoolInfo), C02Sys.LpInv w → Unfunded w →
      q ∈ w.pm.pools → q.id = p.id → q.ptype = .cp →
      ValueLe p (w0.bank.supply p.lpDenom) q (w.bank.supply p.lpDenom) →
      (w0.bank.supply p.lpDenom ≠ 0 → w.bank.supply p.lpDenom ≠ 0) →
      (∀ t ∈ txs, C01Sys.External t.1) →
      (∀ n, C02Sys.LpPlain ((txs.take n).foldl (fun w t => step w t.1 t.2) w)) →
      ∃ p' ∈ (txs.foldl (fun w t => step w t.1 t.2) w).pm.pools, p'.id = p.id ∧
        ValueLe p (w0.bank.supply p.lpDenom) p' ((txs.foldl (fun w t => step w t.1 t.2) w).bank.supply p.lpDenom) by
    exact H txs w0 p h0 hu0 hp rfl hcp (by unfold ValueLe; exact Nat.le_refl _) (fun h => h) hext hplain
  intro txs
  induction txs with
  | nil =>
    intro w q _ _ hq hid _ hv _ _ _
    exact ⟨q, hq, hid, hv⟩
  | cons t rest ih =>
    intro w q hinv hu hq hid hqcp hv hfund hext' hplain'
    rw [List.foldl_cons]
    have hpl1 : C02Sys.LpPlain (step w t.1 t.2) := by
      have := hplain' 1
      rw [List.take_succ_cons, List.take_zero, List.foldl_cons, List.foldl_nil] at this
      exact this
    have hext1 := hext' t (List.mem_cons_self ..)
    obtain ⟨hstep, hu'⟩ := cp_value_per_lp_step w t.1 t.2 hext1 hpl1 hinv hu
    obtain ⟨q', hq', hid', hv', -⟩ := hstep q hq hqcp
    have hinv' := C02Sys.lp_inv_step w t.1 t.2 hext1 hpl1 hinv
    -- the LP denom of the tracked pool is the one of `p`
    have hlp : q.lpDenom = p.lpDenom := by rw [hinv.lpDerived q hq, h0.lpDerived p hp, hid]
    rw [hlp] at hv'
    have hqcp' : q'.ptype = .cp := by
      obtain ⟨q'', hq'', hs⟩ := (C16Sys.pools_static_step w t.1 t.2 hinv.ids).1 q hq
      have : q'' = q' := C16.eq_of_nodup_ids hinv'.ids q'' hq'' q' hq' (hs.1.symm.trans hid'.symm)
      subst this
      rw [← hs.2.2.2.1]; exact hqcp
    have hfund' : w0.bank.supply p.lpDenom ≠ 0 → (step w t.1 t.2).bank.supply p.lpDenom ≠ 0 := by
      intro hne
      have := C02Sys.lp_funded_step w t.1 t.2 hext1 hpl1 hinv q hq (by rw [hlp]; exact hfund hne)
      rw [hlp] at this
      exact this
    refine ih (step w t.1 t.2) q' hinv' hu' hq' (hid'.trans hid) hqcp' ?_ hfund'
      (fun t' ht' => hext' t' (List.mem_cons_of_mem _ ht')) ?_
    · apply valueLe_trans hv hv'
      intro hz
      have hz0 : w0.bank.supply p.lpDenom = 0 := by
        by_cases hh : w0.bank.supply p.lpDenom = 0
        · exact hh
        · exact absurd hz (hfund hh)
      obtain ⟨n0, n1, x, y, hc⟩ := cp2_of_inv h0 hp hcp
      obtain ⟨rfl, rfl⟩ := zero_of_cp2 hc (hu0 p hp hcp hz0)
      rw [kOf_cp2 hc]
    · intro n
      have := hplain' (n + 1)
      rw [List.take_succ_cons, List.foldl_cons] at this
      exact this

end MantraDex.C03Sys
