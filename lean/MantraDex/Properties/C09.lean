/-
  C09 — Emergency exit penalty is bounded, decays to zero and is fully accounted for.

  Statements about `Model/FarmMath.lean`: `calculateEmergencyPenalty` (the rate) and `penaltySplit`
  (the arithmetic of the emergency branch of `withdraw_position`), for every amount, duration, base
  penalty, time and number of active-farm owners.  Who the "active farm owners" are (started, not
  expired, distinct) and that exactly these transfers are emitted is the state-machine part
  (`Properties/C09Hist.lean`).
-/
import MantraDex.Model.FarmMath
import MantraDex.Proofs.NumLemmas
import MantraDex.Properties.C10

set_option linter.unusedSimpArgs false

namespace MantraDex.C09
open MantraDex

/-- the cap is 90 % (from the generated constant) -/
theorem cap_is_90pct : C.MAX_PENALTY_CAP * 10 = 9 * ONE18 := by decide

/-- the penalty rate never exceeds the cap -/
theorem penalty_le_cap {p : PosView} {base now r : Nat}
    (h : calculateEmergencyPenalty p base now = .ok r) : r ≤ C.MAX_PENALTY_CAP := by
  unfold calculateEmergencyPenalty at h
  split at h
  next => simp at h
  next =>
    simp only [bind_ok, map_ok, pure_ok] at h
    obtain ⟨_, _, _, _, _, _, _, _, _, _, rfl⟩ := h
    exact Nat.min_le_right _ _

/-- remaining lock time used by the rate: full duration while open, time left once closed -/
abbrev remaining := remainingDuration

/-- `penalty_formula`: rate = min(cap, base ⊗ rem ⊗ mult) with
    rem = ⌊remaining·10^18/duration⌋, mult = ⌊weight·10^18/amount⌋, ⊗ = 18-digit floor product -/
theorem penalty_formula {p : PosView} {base now r : Nat}
    (h : calculateEmergencyPenalty p base now = .ok r) :
    ∃ w, calculateWeight p.amount p.unlockingDuration = .ok w ∧ p.unlockingDuration ≠ 0 ∧
      p.amount ≠ 0 ∧
      r = min (base * (remaining p now * ONE18 / p.unlockingDuration) / ONE18
                * (w * ONE18 / p.amount) / ONE18) C.MAX_PENALTY_CAP := by
  unfold calculateEmergencyPenalty at h
  split at h
  next => simp at h
  next hd =>
    simp only [bind_ok, map_ok, pure_ok, orPanic_ok, decFromRatio_ok, decDiv_ok, decMul_ok] at h
    obtain ⟨rem, ⟨_, _, rfl⟩, w, hw, mult, ⟨ha, _, rfl⟩, e1, ⟨_, rfl⟩, e2, ⟨_, rfl⟩, rfl⟩ := h
    exact ⟨w, hw, hd, ha, rfl⟩

/-- the rate of a closed position never increases as time passes -/
theorem penalty_antitone_in_time {a d e base now now' r r' : Nat} (hle : now ≤ now')
    (h : calculateEmergencyPenalty ⟨a, d, some e⟩ base now = .ok r)
    (h' : calculateEmergencyPenalty ⟨a, d, some e⟩ base now' = .ok r') : r' ≤ r := by
  obtain ⟨w, hw, _, _, rfl⟩ := penalty_formula h
  obtain ⟨w', hw', _, _, rfl⟩ := penalty_formula h'
  simp only at hw hw'
  rw [hw] at hw'
  cases hw'
  simp only [remaining, remainingDuration]
  have hrem : (e - now') * ONE18 / d ≤ (e - now) * ONE18 / d :=
    Nat.div_le_div_right (Nat.mul_le_mul_right _ (by omega))
  have h1 : base * ((e - now') * ONE18 / d) / ONE18 ≤ base * ((e - now) * ONE18 / d) / ONE18 :=
    Nat.div_le_div_right (Nat.mul_le_mul_left _ hrem)
  have h2 := Nat.div_le_div_right (c := ONE18) (Nat.mul_le_mul_right (w * ONE18 / a) h1)
  exact min_mono_left h2

/-- … and is zero once the position has unlocked (the code then takes the non-emergency branch
    anyway: `Position::is_expired`) -/
theorem penalty_zero_when_unlocked {a d e base now r : Nat} (hexp : e ≤ now)
    (h : calculateEmergencyPenalty ⟨a, d, some e⟩ base now = .ok r) : r = 0 := by
  obtain ⟨w, _, _, _, rfl⟩ := penalty_formula h
  have : e - now = 0 := by omega
  simp [remaining, remainingDuration, this]

/-- an open position is charged as if the whole unlocking duration remained -/
theorem penalty_open_full_duration {a d base now r : Nat}
    (h : calculateEmergencyPenalty ⟨a, d, none⟩ base now = .ok r) :
    ∃ w, calculateWeight a d = .ok w ∧
      r = min (base * ONE18 / ONE18 * (w * ONE18 / a) / ONE18) C.MAX_PENALTY_CAP := by
  obtain ⟨w, hw, hd, _, rfl⟩ := penalty_formula h
  refine ⟨w, hw, ?_⟩
  simp only [remaining, remainingDuration]
  rw [Nat.mul_comm d ONE18, Nat.mul_div_cancel _ (Nat.pos_of_ne_zero hd)]

/-- characterisation of the split arithmetic -/
theorem penaltySplit_ok {amount penalty n : Nat} {s : PenaltySplit}
    (h : penaltySplit amount penalty n = .ok s) :
    s.total = amount * penalty / ONE18 ∧ s.total < amount ∧ s.ownerPayout = amount - s.total ∧
    ((n = 0 ∧ s.perFarmOwner = 0 ∧ s.nFarmOwners = 0 ∧ s.feeCollector = s.total) ∨
     (n ≠ 0 ∧ s.total * C.PENALTY_FEE_SHARE / ONE18 / n ≠ 0 ∧ s.nFarmOwners = n ∧
        s.perFarmOwner = s.total * C.PENALTY_FEE_SHARE / ONE18 / n ∧
        s.feeCollector = s.total - s.total * C.PENALTY_FEE_SHARE / ONE18) ∨
     (n ≠ 0 ∧ s.total * C.PENALTY_FEE_SHARE / ONE18 / n = 0 ∧ s.perFarmOwner = 0 ∧
        s.nFarmOwners = 0 ∧ s.feeCollector = s.total)) := by
  unfold penaltySplit at h
  simp only [bind_ok, fit_ok, decMul_ok] at h
  obtain ⟨a18, ⟨_, rfl⟩, tp, ⟨_, rfl⟩, h⟩ := h
  have htot : decFloor (amount * ONE18 * penalty / ONE18) = amount * penalty / ONE18 := by
    unfold decFloor; rw [mul_mul_div_cancel _ _ _ ONE18_pos]
  rw [htot] at h
  split at h
  next => simp at h
  next hlt =>
    simp only [bind_ok, fit_ok, decMul_ok] at h
    obtain ⟨t18, ⟨_, rfl⟩, oc, ⟨_, rfl⟩, h⟩ := h
    have hoc : decFloor (amount * penalty / ONE18 * ONE18 * C.PENALTY_FEE_SHARE / ONE18)
        = amount * penalty / ONE18 * C.PENALTY_FEE_SHARE / ONE18 := by
      unfold decFloor; rw [mul_mul_div_cancel _ _ _ ONE18_pos]
    rw [hoc] at h
    have hlt' : amount * penalty / ONE18 < amount := Nat.lt_of_not_le hlt
    split at h
    next hn =>
      simp only [pure_ok] at h; subst h
      refine ⟨rfl, hlt', rfl, Or.inl ⟨?_, rfl, rfl, rfl⟩⟩
      simpa using hn
    next hn =>
      have hn' : n ≠ 0 := by simpa using hn
      simp only [bind_ok, orPanic_ok, decFromRatio_ok] at h
      obtain ⟨perDec, ⟨_, _, rfl⟩, h⟩ := h
      have hper : decFloor (amount * penalty / ONE18 * C.PENALTY_FEE_SHARE / ONE18 * ONE18 / n)
          = amount * penalty / ONE18 * C.PENALTY_FEE_SHARE / ONE18 / n := by
        unfold decFloor
        rw [Nat.div_div_eq_div_mul, Nat.mul_comm n ONE18, ← Nat.div_div_eq_div_mul,
          Nat.mul_div_cancel _ ONE18_pos]
      rw [hper] at h
      split at h
      next hp =>
        simp only [pure_ok] at h; subst h
        exact ⟨rfl, hlt', rfl, Or.inr (Or.inl ⟨hn', Nat.pos_iff_ne_zero.1 hp, rfl, rfl, rfl⟩)⟩
      next hp =>
        simp only [pure_ok] at h; subst h
        have : amount * penalty / ONE18 * C.PENALTY_FEE_SHARE / ONE18 / n = 0 := by omega
        exact ⟨rfl, hlt', rfl, Or.inr (Or.inr ⟨hn', this, rfl, rfl, rfl⟩)⟩

/-- the fee is ⌊amount × rate⌋, and with a capped rate at most 90 % of the position -/
theorem penalty_le_90pct {amount penalty n : Nat} {s : PenaltySplit}
    (hcap : penalty ≤ C.MAX_PENALTY_CAP) (h : penaltySplit amount penalty n = .ok s) :
    s.total * 10 ≤ amount * 9 := by
  obtain ⟨ht, _, _, _⟩ := penaltySplit_ok h
  rw [ht]
  have h1 : amount * penalty / ONE18 ≤ amount * C.MAX_PENALTY_CAP / ONE18 :=
    Nat.div_le_div_right (Nat.mul_le_mul_left _ hcap)
  have h2 : amount * C.MAX_PENALTY_CAP / ONE18 * 10 ≤ amount * 9 := by
    have : amount * C.MAX_PENALTY_CAP * 10 = amount * 9 * ONE18 := by
      rw [Nat.mul_assoc, cap_is_90pct, ← Nat.mul_assoc]
    calc amount * C.MAX_PENALTY_CAP / ONE18 * 10
        ≤ amount * C.MAX_PENALTY_CAP * 10 / ONE18 := div_mul_le_mul_div _ _ _
      _ = amount * 9 := by rw [this, Nat.mul_div_cancel _ ONE18_pos]
  exact Nat.le_trans (Nat.mul_le_mul_right _ h1) h2

/-- `split_accounted`: owner payout + fee collector + n × per-owner share never exceeds the
    recorded amount; nothing is paid beyond the penalty; the unpaid dust is smaller than n -/
theorem split_accounted {amount penalty n : Nat} {s : PenaltySplit}
    (h : penaltySplit amount penalty n = .ok s) :
    s.ownerPayout + s.feeCollector + s.nFarmOwners * s.perFarmOwner ≤ amount ∧
    s.feeCollector + s.nFarmOwners * s.perFarmOwner ≤ s.total ∧
    s.total - (s.feeCollector + s.nFarmOwners * s.perFarmOwner) < max n 1 := by
  obtain ⟨_, hlt, hop, hcases⟩ := penaltySplit_ok h
  generalize hT : s.total = T at *
  generalize hC : T * C.PENALTY_FEE_SHARE / ONE18 = Cm at *
  have hCle : Cm ≤ T := by
    rw [← hC]; exact mul_div_le_of_le (by decide)
  rcases hcases with ⟨rfl, hp, hn, hf⟩ | ⟨hn0, _, hn, hp, hf⟩ | ⟨hn0, _, hp, hn, hf⟩
  · rw [hp, hn, hf, hop]; simp; omega
  · rw [hp, hn, hf, hop]
    have h1 : n * (Cm / n) ≤ Cm := Nat.mul_div_le _ _
    have h2 : Cm < n * (Cm / n) + n := by
      have := Nat.lt_mul_div_succ Cm (Nat.pos_of_ne_zero hn0)
      rw [Nat.mul_add, Nat.mul_one] at this; exact this
    have : max n 1 = n := Nat.max_eq_left (Nat.pos_of_ne_zero hn0)
    rw [this]
    generalize n * (Cm / n) = Q at *
    omega
  · rw [hp, hn, hf, hop]; simp; omega

/-- all of the penalty goes to the fee collector when there is no active farm … -/
theorem split_all_to_collector_when_no_active_farm {amount penalty : Nat} {s : PenaltySplit}
    (h : penaltySplit amount penalty 0 = .ok s) :
    s.feeCollector = s.total ∧ s.nFarmOwners = 0 := by
  obtain ⟨_, _, _, hcases⟩ := penaltySplit_ok h
  rcases hcases with ⟨_, _, hn, hf⟩ | ⟨h0, _⟩ | ⟨h0, _⟩
  · exact ⟨hf, hn⟩
  · exact absurd rfl h0
  · exact absurd rfl h0

/-- … and when the per-owner share rounds to zero -/
theorem split_all_to_collector_when_share_rounds_to_zero {amount penalty n : Nat}
    {s : PenaltySplit} (h : penaltySplit amount penalty n = .ok s) (hz : s.perFarmOwner = 0) :
    s.feeCollector = s.total ∧ s.nFarmOwners = 0 := by
  obtain ⟨_, _, _, hcases⟩ := penaltySplit_ok h
  rcases hcases with ⟨_, _, hn, hf⟩ | ⟨_, hne, _, hp, _⟩ | ⟨_, _, _, hn, hf⟩
  · exact ⟨hf, hn⟩
  · rw [hp] at hz; exact absurd hz hne
  · exact ⟨hf, hn⟩

/-- the owners' half is the generated 50 % share -/
theorem owner_share_is_half : C.PENALTY_FEE_SHARE * 2 = ONE18 := by decide

/-! Non-vacuity: concrete accepted computations. -/
example : calculateEmergencyPenalty ⟨1000, 86400, none⟩ 100000000000000000 0 =
    .ok 100000000000000000 := by decide
example : calculateEmergencyPenalty ⟨1000, 31556926, none⟩ 100000000000000000 0 =
    .ok 900000000000000000 := by decide            -- 10 % × 1 × 15.999 capped at 90 %
example : penaltySplit 1000 100000000000000000 3 = .ok ⟨100, 900, 16, 3, 50⟩ := by decide
example : penaltySplit 1000 100000000000000000 0 = .ok ⟨100, 900, 0, 0, 100⟩ := by decide

end MantraDex.C09
