/-
  C16, lifted through the runtime: after creation a pool is never removed and its identifier, assets,
  decimals, type, fees and LP denom never change — across whole transactions of any kind, by any sender,
  with nested calls, replies, rollbacks and injected faults, and hence across every history.
-/
import MantraDex.Model.System
import MantraDex.Proofs.NumLemmas
import MantraDex.Properties.C16
import MantraDex.Proofs.SysLemmasPools

set_option linter.unusedSimpArgs false
set_option linter.unusedVariables false

namespace MantraDex.C16Sys
open MantraDex

/-- every pool of `w` is still there in `w'` with the same static fields -/
def PoolsKept (w w' : World) : Prop := ∀ p ∈ w.pm.pools, ∃ p' ∈ w'.pm.pools, C16.StaticEq p p'

/-! ### helpers: the relation carried through the runtime -/

/-- from unique identifiers: every pool is kept with its static fields, identifiers stay unique -/
def KeptRel (s s' : PmState) : Prop :=
  (s.pools.map (·.id)).Nodup →
    (∀ p ∈ s.pools, ∃ p' ∈ s'.pools, C16.StaticEq p p') ∧ (s'.pools.map (·.id)).Nodup

theorem keptRel : SysPools.PmRel KeptRel where
  refl := fun s h => ⟨fun p hp => ⟨p, hp, C16.StaticEq.refl p⟩, h⟩
  trans := by
    intro a b c h1 h2 hu
    obtain ⟨k1, u1⟩ := h1 hu
    obtain ⟨k2, u2⟩ := h2 u1
    refine ⟨fun p hp => ?_, u2⟩
    obtain ⟨p1, hp1, e1⟩ := k1 p hp
    obtain ⟨p2, hp2, e2⟩ := k2 p1 hp1
    exact ⟨p2, hp2, e1.trans e2⟩
  exec := by
    intro s s' env sender funds m r _ h hu
    exact ⟨C16.static_fields_immutable_of_nodup hu h, C16.ids_unique_preserved hu h⟩
  reply := by
    intro s s' env id r h hu
    rw [C16.reply_keeps_pools h]
    exact ⟨fun p hp => ⟨p, hp, C16.StaticEq.refl p⟩, hu⟩

/-- one transaction of any kind keeps every pool with its static fields, and keeps identifiers unique -/
theorem pools_static_step (w : World) (tx : Tx) (k : Option Nat)
    (hids : (w.pm.pools.map (·.id)).Nodup) :
    PoolsKept w (step w tx k) ∧ ((step w tx k).pm.pools.map (·.id)).Nodup :=
  SysPools.step_rel keptRel w tx k hids

/-- ... hence every history does -/
theorem pools_static_reachable (w0 : World) (hids : (w0.pm.pools.map (·.id)).Nodup)
    (txs : List (Tx × Option Nat)) :
    PoolsKept w0 (txs.foldl (fun w t => step w t.1 t.2) w0) ∧
    (((txs.foldl (fun w t => step w t.1 t.2) w0)).pm.pools.map (·.id)).Nodup :=
  SysPools.hist_rel keptRel txs w0 hids

/-! ### helpers: LP denoms -/

/-- the LP denom is an injective function of the pool identifier -/
theorem lpDenomOf_inj {self a b : String} (h : lpDenomOf self a = lpDenomOf self b) : a = b := by
  unfold lpDenomOf at h
  have h2 := congrArg String.toList h
  simp only [String.toList_append, toString] at h2
  have h3 := List.append_cancel_right (List.append_cancel_right h2)
  exact String.toList_inj.1 (List.append_cancel_left h3)

/-- unique identifiers, and every LP denom is the one derived from the identifier -/
def LpOk (s : PmState) : Prop :=
  (s.pools.map (·.id)).Nodup ∧ ∀ p ∈ s.pools, p.lpDenom = lpDenomOf PM p.id

theorem lp_nodup : ∀ ps : List PoolInfo, (ps.map (·.id)).Nodup →
    (∀ p ∈ ps, p.lpDenom = lpDenomOf PM p.id) → (ps.map (·.lpDenom)).Nodup
  | [], _, _ => List.nodup_nil
  | x :: xs, hu, hlp => by
    rw [List.map_cons, List.nodup_cons] at hu ⊢
    refine ⟨?_, lp_nodup xs hu.2 (fun p hp => hlp p (List.mem_cons_of_mem _ hp))⟩
    intro hm
    obtain ⟨q, hq, hqe⟩ := List.mem_map.1 hm
    have hqe' : q.lpDenom = x.lpDenom := hqe
    rw [hlp q (List.mem_cons_of_mem _ hq), hlp x (List.mem_cons_self ..)] at hqe'
    exact hu.1 (List.mem_map.2 ⟨q, hq, lpDenomOf_inj hqe'⟩)

theorem pmStep_lp {s s' : PmState} (hs : PmStep s s') (h : LpOk s) : LpOk s' := by
  obtain ⟨hu, hlp⟩ := h
  have hu' : (s'.pools.map (·.id)).Nodup := by rw [hs.ids]; exact hu
  refine ⟨hu', ?_⟩
  intro p' hp'
  have hmem : p'.id ∈ s'.pools.map (·.id) := List.mem_map.2 ⟨p', hp', rfl⟩
  rw [hs.ids] at hmem
  obtain ⟨p, hp, hpid⟩ := List.mem_map.1 hmem
  obtain ⟨p'', hp'', e⟩ := (C16.step_static hs (C16.sameIdSameStatic_of_nodup hu)).1 p hp
  have hid : p''.id = p'.id := e.1.symm.trans hpid
  have := C16.eq_of_nodup_ids hu' p'' hp'' p' hp' hid
  subst this
  rw [← e.2.2.2.2.2, hlp p hp, e.1]

def LpRel (s s' : PmState) : Prop := LpOk s → LpOk s'

theorem lpRel : SysPools.PmRel LpRel where
  refl := fun s h => h
  trans := fun h1 h2 h => h2 (h1 h)
  exec := by
    intro s s' env sender funds m r henv h hok
    rcases pmExecute_cases h with hs | ⟨d, dc, f, pt, id, rfl, hc⟩ | ⟨s1, cfg, _, hs, rfl⟩ | ⟨o, _, rfl⟩
    · exact pmStep_lp hs hok
    · obtain ⟨p, hfresh, hpools, _, _, hp⟩ := createPool_pools hc
      refine ⟨by rw [hpools]; exact insertPoolSorted_nodup hfresh hok.1, ?_⟩
      intro q hq
      rw [hpools] at hq
      rcases mem_insertPoolSorted.1 hq with rfl | hq
      · rw [hp, henv]
      · exact hok.2 q hq
    · have : LpOk s1 := pmStep_lp hs hok
      exact this
    · exact hok
  reply := by
    intro s s' env id r h hok
    unfold LpOk
    rw [C16.reply_keeps_pools h]
    exact hok

/-- LP denoms are unique across pools in every reachable state (they are derived injectively from the
    unique identifiers at creation and never change) -/
theorem lp_denoms_unique_step (w : World) (tx : Tx) (k : Option Nat)
    (hids : (w.pm.pools.map (·.id)).Nodup)
    (hlp : ∀ p ∈ w.pm.pools, p.lpDenom = lpDenomOf PM p.id) :
    (∀ p ∈ (step w tx k).pm.pools, p.lpDenom = lpDenomOf PM p.id) ∧
    ((step w tx k).pm.pools.map (·.lpDenom)).Nodup := by
  obtain ⟨hu, hl⟩ := SysPools.step_rel lpRel w tx k ⟨hids, hlp⟩
  exact ⟨hl, lp_nodup _ hu hl⟩

end MantraDex.C16Sys
