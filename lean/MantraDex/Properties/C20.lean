/-
  C20 — Rejected or partially failing operations leave no trace.

  Two layers.  (1) The runtime (`Model/System.lean`, the modelled CosmWasm semantics, trusted):
  a failing transaction returns the input world; a failing sub-message aborts its parent unless it
  was sent with reply-on-error/always.  (2) The contracts (proved here about the handler models): the
  only sub-message any handler ever emits with a reply mode other than `never` is (a) the inner swap
  of a single-asset deposit (`success`, id 1) and (b) the refund of a farm being closed (`error`,
  CLOSE_FARMS_ERR_REPLY_CODE, a plain bank send); the farm manager's reply handler changes nothing,
  the pool manager's only continues the deposit.  Hence any internal failure other than a
  close-farm refund aborts the whole transaction, and a failed refund is tolerated.
-/
import MantraDex.Model.System
import MantraDex.Proofs.NumLemmas
import MantraDex.Proofs.Post

set_option linter.unusedSimpArgs false
set_option linter.tactic.unusedName false

namespace MantraDex.C20
open MantraDex

/-- a transaction either commits or leaves the world exactly as it was -/
theorem step_error_restores (w : World) (tx : Tx) (k : Option Nat) (e : Err)
    (h : runTx w tx k = .error e) : step w tx k = w := by
  unfold step; rw [h]

/-- a failing sub-message sent with `never` or `success` aborts the enclosing execution -/
theorem failing_submsg_aborts (fuel : Nat) (w : World) (c : Addr) (sm : SubMsg) (rest : List SubMsg)
    (e : Err) (hmode : sm.replyOn = .never ∨ sm.replyOn = .success)
    (h : execMsg fuel w c sm.msg = .error e) :
    execSubs (fuel + 1) w c (sm :: rest) = .error e := by
  rw [execSubs, h]
  rcases hmode with hm | hm <;> simp [hm, ReplyOn.onError]

/-- the allowed shapes of a pool-manager sub-message -/
def PmSubOk (sm : SubMsg) : Prop :=
  sm.replyOn = .never ∨
  (sm.replyOn = .success ∧ sm.id = C.SINGLE_SIDE_REPLY_ID ∧
    ∃ ask ms pid funds, sm.msg = .wasmExec PM (.pm (.swap ask none ms none pid)) funds)

/-! ### helper: "every emitted sub-message satisfies `P`" as a post-condition -/

/-- all sub-messages of a successful handler result satisfy `P` -/
abbrev Good {σ : Type} (P : SubMsg → Prop) (x : R (σ × Response)) : Prop :=
  Post (fun y => ∀ sm ∈ y.2.msgs, P sm) x

theorem ofMsgs_never (ms : List Msg) (attrs : List (String × String)) :
    ∀ sm ∈ (Response.ofMsgs ms attrs).msgs, sm.replyOn = .never := by
  intro sm h
  simp only [Response.ofMsgs, List.mem_map] at h
  obtain ⟨m, _, rfl⟩ := h
  rfl

theorem pmok_ofMsgs (ms : List Msg) (attrs : List (String × String)) :
    ∀ sm ∈ (Response.ofMsgs ms attrs).msgs, PmSubOk sm :=
  fun sm h => Or.inl (ofMsgs_never ms attrs sm h)

macro_rules | `(tactic| pclose) => `(tactic| (intro sm h; simp at h; done))
macro_rules | `(tactic| pclose) => `(tactic| apply pmok_ofMsgs)

theorem good_createPool {s env funds denoms decimals fees pt id} :
    Good PmSubOk (createPool s env funds denoms decimals fees pt id) := by
  unfold createPool
  repeat' pstep

theorem good_swap {s env sender funds ask b ms recv pid} :
    Good PmSubOk (swapHandler s env sender funds ask b ms recv pid) := by
  unfold swapHandler
  repeat' pstep

theorem good_withdraw {s env sender funds pid} :
    Good PmSubOk (withdrawLiquidity s env sender funds pid) := by
  unfold withdrawLiquidity
  repeat' pstep

theorem good_execSwapOps {s env sender funds ops mr r ms} :
    Good PmSubOk (execSwapOps s env sender funds ops mr r ms) := by
  unfold execSwapOps
  repeat' pstep

theorem good_pmUpdateConfig {s env sender fc fm cf t} :
    Good PmSubOk (pmUpdateConfig s env sender fc fm cf t) := by
  unfold pmUpdateConfig
  repeat' pstep

theorem good_provide {s env sender funds ls ss r pid u l} (henv : env.self = PM) :
    Good PmSubOk (provideLiquidity s env sender funds ls ss r pid u l) := by
  unfold provideLiquidity
  repeat' pstep
  -- what is left is the single-asset branch with its reply-on-success inner swap
  apply post_pure
  intro sm h
  simp only [List.mem_singleton] at h
  subst h
  exact Or.inr ⟨rfl, rfl, _, _, _, _, by rw [henv]⟩

theorem good_pmExecute {s env sender funds m} (henv : env.self = PM) :
    Good PmSubOk (pmExecute s env sender funds m) := by
  cases m <;> simp only [pmExecute]
  · exact good_createPool
  · exact good_provide henv
  · exact good_swap
  · exact good_withdraw
  · exact good_execSwapOps
  · apply post_bind; intro _ _; exact good_pmUpdateConfig
  · repeat' pstep

/-- every sub-message emitted by any pool-manager `execute` is `never`, or the single-asset
    deposit's inner swap -/
theorem pm_execute_reply_modes {s s' : PmState} {env : PmEnv} {sender : Addr} {funds : List Coin}
    {m : PmMsg} {r : Response} (henv : env.self = PM)
    (h : pmExecute s env sender funds m = .ok (s', r)) : ∀ sm ∈ r.msgs, PmSubOk sm :=
  (good_pmExecute henv).out (s', r) h

/-- the pool manager's reply handler accepts only the single-side id, needs the buffer, clears it,
    and continues with one `never` message (the self-call that deposits both halves) -/
theorem pm_reply_shape {s s' : PmState} {env : PmEnv} {id : Nat} {r : Response}
    (h : pmReply s env id = .ok (s', r)) :
    id = C.SINGLE_SIDE_REPLY_ID ∧ s.buffer.isSome ∧ s'.buffer = none ∧ s'.pools = s.pools ∧
    ∃ m, r.msgs = [{ msg := m, replyOn := .never, id := 0 }] := by
  unfold pmReply at h
  split at h
  next hid =>
    split at h
    next => cases h
    next b hb =>
      split at h
      · cases h
      · split at h
        · cases h
        · cases h
          exact ⟨hid, by simp [hb], rfl, rfl, _, rfl⟩
  next => cases h

/-- the allowed shapes of a farm-manager sub-message -/
def FmSubOk (sm : SubMsg) : Prop :=
  sm.replyOn = .never ∨
  (sm.replyOn = .error ∧ sm.id = C.CLOSE_FARMS_ERR_REPLY_CODE ∧ ∃ to cs, sm.msg = .bankSend to cs)

theorem closeFarms_aux (fs : List Farm) : ∀ (st : FmState × List SubMsg),
    (∀ sm ∈ st.2, FmSubOk sm) →
    ∀ sm ∈ (fs.foldl (fun (st : FmState × List SubMsg) f =>
      let s' := { st.1 with farms := st.1.farms.filter (·.id != f.id) }
      let rem := f.assetAmount - f.claimed
      if rem > 0 then
        (s', st.2 ++ [{ msg := .bankSend f.owner [⟨f.assetDenom, rem⟩], replyOn := .error,
                        id := C.CLOSE_FARMS_ERR_REPLY_CODE }])
      else (s', st.2)) st).2, FmSubOk sm := by
  induction fs with
  | nil => intro st h; exact h
  | cons f fs ih =>
    intro st h
    rw [List.foldl_cons]
    apply ih
    dsimp only
    split
    · intro sm hm
      simp only [List.mem_append, List.mem_singleton] at hm
      rcases hm with hm | rfl
      · exact h sm hm
      · exact Or.inr ⟨rfl, rfl, _, _, rfl⟩
    · exact h

/-- `close_farms` emits only reply-on-error bank refunds -/
theorem closeFarms_reply_modes (s : FmState) (fs : List Farm) :
    ∀ sm ∈ (closeFarms s fs).2, FmSubOk sm := by
  unfold closeFarms
  apply closeFarms_aux
  intro sm h; cases h

theorem fmok_ofMsgs (ms : List Msg) (attrs : List (String × String)) :
    ∀ sm ∈ (Response.ofMsgs ms attrs).msgs, FmSubOk sm :=
  fun sm h => Or.inl (ofMsgs_never ms attrs sm h)

macro_rules | `(tactic| pclose) => `(tactic| apply fmok_ofMsgs)

theorem good_createFarm {s env sender funds p} : Good FmSubOk (createFarm s env sender funds p) := by
  unfold createFarm
  repeat' pstep
  all_goals
    apply post_pure
    intro sm h
    simp only [List.mem_append, List.mem_map] at h
    rcases h with ⟨m, _, rfl⟩ | h
    · exact Or.inl rfl
    · exact closeFarms_reply_modes _ _ sm h

theorem good_closeFarm {s sender funds id} : Good FmSubOk (closeFarm s sender funds id) := by
  unfold closeFarm
  repeat' pstep
  apply post_pure
  exact closeFarms_reply_modes _ _

theorem good_fmExecute {s env sender funds m} :
    Good FmSubOk (fmExecute s env sender funds m) := by
  cases m <;> simp only [fmExecute]
  · exact good_createFarm
  · unfold expandFarm; repeat' pstep
  · exact good_closeFarm
  · unfold fmClaim; repeat' pstep
  · unfold createPosition; repeat' pstep
  · unfold expandPosition; repeat' pstep
  · unfold closePosition; repeat' pstep
  · unfold withdrawPosition; repeat' pstep
  · unfold fmUpdateConfig; repeat' pstep
  · repeat' pstep

/-- every sub-message emitted by any farm-manager `execute` is `never`, or a close-farm refund -/
theorem fm_execute_reply_modes {s s' : FmState} {env : FmEnv} {sender : Addr} {funds : List Coin}
    {m : FmMsg} {r : Response}
    (h : fmExecute s env sender funds m = .ok (s', r)) : ∀ sm ∈ r.msgs, FmSubOk sm :=
  good_fmExecute.out (s', r) h

/-- the farm manager's reply handler only logs: no state change, no further messages -/
theorem fm_reply_no_effect {s s' : FmState} {id : Nat} {r : Response} (h : fmReply s id = .ok (s', r)) :
    id = C.CLOSE_FARMS_ERR_REPLY_CODE ∧ r.msgs = [] := by
  unfold fmReply at h
  split at h
  next hid => cases h; exact ⟨hid, rfl⟩
  next => cases h

/-- a failed close-farm refund is tolerated: execution continues with the remaining sub-messages
    from the state *without* the refund (only the fault counter moves) -/
theorem failed_refund_tolerated (fuel : Nat) (w : World) (to : Addr) (cs : List Coin)
    (rest : List SubMsg) (e : Err)
    (h : execMsg (fuel + 1) w FM (.bankSend to cs) = .error e) :
    execSubs (fuel + 2) w FM
        ({ msg := .bankSend to cs, replyOn := .error, id := C.CLOSE_FARMS_ERR_REPLY_CODE } :: rest) =
      execSubs (fuel + 1) { w with bank := { w.bank with calls := w.bank.calls + 1 } } FM rest := by
  have hc : ∀ w' : World, callReply w' FM C.CLOSE_FARMS_ERR_REPLY_CODE = .ok (w', {}) := by
    intro w'; rfl
  rw [execSubs]
  simp only [h, ReplyOn.onError, if_true, Msg.callsWhenFailed, hc]
  show (execSubs (fuel + 1) _ FM [] >>= fun w3 => execSubs (fuel + 1) w3 FM rest) = _
  rw [execSubs]
  rfl

end MantraDex.C20
