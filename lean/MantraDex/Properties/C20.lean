/-
  C20 — Rejected or partially failing operations leave no trace.

  Two layers.  (1) The runtime (`Model/System.lean`, the modelled CosmWasm semantics, trusted):
  a failing transaction returns the input world; a failing sub-message aborts its parent unless it
  was sent with reply-on-error/always.  (2) The contracts (proved here about the handler models): the
  only sub-message any handler ever emits with a reply mode other than `never` is (a) the inner swap
  of a single-asset deposit (`success`, id 1) and (b) the refund of a farm being closed (`error`,
  CLOSE_FARMS_ERR_REPLY_CODE, a plain bank send); the farm manager's reply handler changes nothing,
  the pool manager's only continues the deposit.  Hence any internal failure other than a
  close-farm refund aborts the whole transaction, and a failed refund is tolerated.
-/
import MantraDex.Model.System
import MantraDex.Proofs.NumLemmas

set_option linter.unusedSimpArgs false

namespace MantraDex.C20
open MantraDex

/-- a transaction either commits or leaves the world exactly as it was -/
theorem step_error_restores (w : World) (tx : Tx) (k : Option Nat) (e : Err)
    (h : runTx w tx k = .error e) : step w tx k = w := by
  sorry

/-- a failing sub-message sent with `never` or `success` aborts the enclosing execution -/
theorem failing_submsg_aborts (fuel : Nat) (w : World) (c : Addr) (sm : SubMsg) (rest : List SubMsg)
    (e : Err) (hmode : sm.replyOn = .never ∨ sm.replyOn = .success)
    (h : execMsg fuel w c sm.msg = .error e) :
    execSubs (fuel + 1) w c (sm :: rest) = .error e := by
  sorry

/-- the allowed shapes of a pool-manager sub-message -/
def PmSubOk (sm : SubMsg) : Prop :=
  sm.replyOn = .never ∨
  (sm.replyOn = .success ∧ sm.id = C.SINGLE_SIDE_REPLY_ID ∧
    ∃ ask ms pid funds, sm.msg = .wasmExec PM (.pm (.swap ask none ms none pid)) funds)

/-- every sub-message emitted by any pool-manager `execute` is `never`, or the single-asset
    deposit's inner swap -/
theorem pm_execute_reply_modes {s s' : PmState} {env : PmEnv} {sender : Addr} {funds : List Coin}
    {m : PmMsg} {r : Response} (henv : env.self = PM)
    (h : pmExecute s env sender funds m = .ok (s', r)) : ∀ sm ∈ r.msgs, PmSubOk sm := by
  sorry

/-- the pool manager's reply handler accepts only the single-side id, needs the buffer, clears it,
    and continues with one `never` message (the self-call that deposits both halves) -/
theorem pm_reply_shape {s s' : PmState} {env : PmEnv} {id : Nat} {r : Response}
    (h : pmReply s env id = .ok (s', r)) :
    id = C.SINGLE_SIDE_REPLY_ID ∧ s.buffer.isSome ∧ s'.buffer = none ∧ s'.pools = s.pools ∧
    ∃ m, r.msgs = [{ msg := m, replyOn := .never, id := 0 }] := by
  sorry

/-- the allowed shapes of a farm-manager sub-message -/
def FmSubOk (sm : SubMsg) : Prop :=
  sm.replyOn = .never ∨
  (sm.replyOn = .error ∧ sm.id = C.CLOSE_FARMS_ERR_REPLY_CODE ∧ ∃ to cs, sm.msg = .bankSend to cs)

/-- `close_farms` emits only reply-on-error bank refunds -/
theorem closeFarms_reply_modes (s : FmState) (fs : List Farm) :
    ∀ sm ∈ (closeFarms s fs).2, FmSubOk sm := by
  sorry

/-- every sub-message emitted by any farm-manager `execute` is `never`, or a close-farm refund -/
theorem fm_execute_reply_modes {s s' : FmState} {env : FmEnv} {sender : Addr} {funds : List Coin}
    {m : FmMsg} {r : Response}
    (h : fmExecute s env sender funds m = .ok (s', r)) : ∀ sm ∈ r.msgs, FmSubOk sm := by
  sorry

/-- the farm manager's reply handler only logs: no state change, no further messages -/
theorem fm_reply_no_effect {s s' : FmState} {id : Nat} {r : Response} (h : fmReply s id = .ok (s', r)) :
    id = C.CLOSE_FARMS_ERR_REPLY_CODE ∧ r.msgs = [] := by
  sorry

/-- a failed close-farm refund is tolerated: execution continues with the remaining sub-messages
    from the state *without* the refund (only the fault counter moves) -/
theorem failed_refund_tolerated (fuel : Nat) (w : World) (to : Addr) (cs : List Coin)
    (rest : List SubMsg) (e : Err)
    (h : execMsg (fuel + 1) w FM (.bankSend to cs) = .error e) :
    execSubs (fuel + 2) w FM
        ({ msg := .bankSend to cs, replyOn := .error, id := C.CLOSE_FARMS_ERR_REPLY_CODE } :: rest) =
      execSubs (fuel + 1) { w with bank := { w.bank with calls := w.bank.calls + 1 } } FM rest := by
  sorry

end MantraDex.C20
