/-
  C08 through the runtime: once a closed position's unlock instant has been reached, its owner's plain
  withdrawal is accepted in every reachable state and pays exactly the recorded LP amount — the farm
  manager always has the tokens (custody invariant `C05Sys.FmInv`), the position is deleted and nothing
  else moves.
-/
import MantraDex.Model.System
import MantraDex.Proofs.NumLemmas
import MantraDex.Proofs.BankLemmas
import MantraDex.Properties.C05Sys
import MantraDex.Proofs.WithdrawTxLemmas

set_option linter.unusedSimpArgs false
set_option linter.unusedVariables false

namespace MantraDex.C08Sys
open MantraDex

/-- a closed position whose unlock instant has been reached can always be withdrawn by its owner, for
    exactly its recorded amount -/
theorem withdraw_after_unlock (w : World) (p : Position) (hinv : C05Sys.FmInv w)
    (hp : w.fm.getPosition p.id = some p) (hclosed : p.open_ = false)
    (hexp : (⟨p.amount, p.unlocking, p.expiringAt⟩ : PosView).isExpired w.fmEnv.nowS = true)
    (hu : isContract p.receiver = false) :
    ∃ w', runTx w (.exec p.receiver FM (.fm (.withdrawPosition p.id none)) []) = .ok w' ∧
      w'.fm.getPosition p.id = none ∧
      w'.bank.bal p.receiver p.lpDenom = w.bank.bal p.receiver p.lpDenom + p.amount ∧
      w'.bank.bal FM p.lpDenom + p.amount = w.bank.bal FM p.lpDenom ∧
      (∀ a d, ¬(d = p.lpDenom ∧ (a = p.receiver ∨ a = FM)) → w'.bank.bal a d = w.bank.bal a d) ∧
      w'.pm = w.pm ∧ C05Sys.FmInv w' := by
  have hmem : p ∈ w.fm.positions := List.mem_of_find?_eq_some hp
  have hbal : p.amount ≤ w.bank.bal FM p.lpDenom := by
    have h1 := hinv.custody p.lpDenom
    rw [C05.liability_eq, C05.posSum_pull hinv.posNodup hmem p.lpDenom] at h1
    simp only [beq_self_eq_true, if_true] at h1
    omega
  have hne : p.receiver ≠ FM := C05Sys.not_contract_ne_FM hu
  obtain ⟨b', mv, hrun⟩ := withdraw_run hp hclosed hexp hbal
  refine ⟨_, hrun, getPosition_remove_same _ _, ?_, ?_, ?_, rfl, ?_⟩
  · have := mv.bal p.receiver p.lpDenom
    simp only [coinsOf_single, if_true, if_neg hne] at this
    simp only
    omega
  · have := mv.bal FM p.lpDenom
    simp only [coinsOf_single, if_true, if_neg (Ne.symm hne)] at this
    simp only
    omega
  · intro a d hn
    have := mv.bal a d
    simp only [coinsOf_single] at this
    simp only
    by_cases hd : p.lpDenom = d
    · subst hd
      have h1 : a ≠ p.receiver := fun e => hn ⟨rfl, Or.inl e⟩
      have h2 : a ≠ FM := fun e => hn ⟨rfl, Or.inr e⟩
      simp only [if_neg h1, if_neg h2] at this
      omega
    · simp only [if_neg hd] at this
      split at this <;> split at this <;> omega
  · have := C05Sys.fm_inv_step w (.exec p.receiver FM (.fm (.withdrawPosition p.id none)) []) none
      ⟨hu, List.nodup_nil⟩ hinv
    unfold step at this
    rw [hrun] at this
    exact this

/-- … and before that instant (or while the position is open) a plain withdrawal is refused, whoever asks -/
theorem withdraw_before_unlock_refused (w : World) (p : Position) (sender : Addr) (k : Option Nat)
    (hp : w.fm.getPosition p.id = some p)
    (hnot : (⟨p.amount, p.unlocking, p.expiringAt⟩ : PosView).isExpired w.fmEnv.nowS = false)
    (e : Option Bool) (he : e = none ∨ e = some false) :
    step w (.exec sender FM (.fm (.withdrawPosition p.id e)) []) k = w := by
  obtain ⟨err, herr⟩ := withdraw_plain_refused (s := w.fm) (env := w.fmEnv) sender [] hp hnot he
  have hrun : runTx w (.exec sender FM (.fm (.withdrawPosition p.id e)) []) k = .error err := by
    unfold runTx
    simp only
    have h64 : FUEL = 63 + 1 := rfl
    rw [h64, execMsg_fm_eq]
    simp only [fmExecute]
    have herr' : withdrawPosition w.fm
        ({ w with bank := { w.bank with calls := 0, failAt := k } } : World).fmEnv sender [] p.id e = _ := herr
    rw [herr']
    rfl
  unfold step
  rw [hrun]

end MantraDex.C08Sys
