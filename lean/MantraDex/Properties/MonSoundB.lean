/-
  Soundness of further implementation-side monitors with respect to the model (see MonSound.lean for the idea): the swap
  monitors of C03 / C04 and the withdrawal monitor of C08 / C09, fed with the quantities of an accepted MODEL transaction,
  raise no alarm — for all inputs.
-/
import MantraDex.Model.System
import MantraDex.Model.HistMon
import MantraDex.Properties.C03
import MantraDex.Properties.C04
import MantraDex.Properties.C04Sys
import MantraDex.Properties.C09Sys
import MantraDex.Proofs.MonSoundBLemmas

set_option linter.unusedSimpArgs false
set_option linter.unusedVariables false

namespace MantraDex.MonSoundB
open MantraDex

/-- `mon_swap_reserves` (C03 / C04) for a direct swap on a two-asset pool: offer reserve before / ask reserve before, the offer,
    both reserves after, and the return / protocol fee / burn fee the swap reports -/
theorem monSwapReserves_sound (w w' : World) (u : Addr) (offer : Coin) (ask : Denom) (b ms : Option Nat)
    (recv : Option Addr) (pid : String) (pool pool' : PoolInfo) (x y x' y' : Nat) (s1 : PmState) (r : SwapResult)
    (hu : isContract u = false)
    (hp : w.pm.getPool pid = .ok pool) (hp' : w'.pm.getPool pid = .ok pool')
    (hne : offer.denom ≠ ask)
    (hassets : pool.assets = [⟨offer.denom, x⟩, ⟨ask, y⟩] ∨ pool.assets = [⟨ask, y⟩, ⟨offer.denom, x⟩])
    (hassets' : pool'.assets = [⟨offer.denom, x'⟩, ⟨ask, y'⟩] ∨ pool'.assets = [⟨ask, y'⟩, ⟨offer.denom, x'⟩])
    (hps : performSwap w.pm offer ask pid b ms = .ok (s1, r))
    (h : runTx w (.exec u PM (.pm (.swap ask b ms recv pid)) [offer]) = .ok w') :
    monSwapReserves (pool.ptype == .cp) x y offer.amount x' y' r.ret.amount r.protocolFee.amount r.burnFee.amount = none := by
  obtain ⟨s1', r', hps', hpm, _⟩ := C04Sys.swap_tx_effect w w' u offer ask b ms recv pid hu h
  rw [hps] at hps'; cases hps'
  have hgp := MonSoundBL.performSwap_getPool hps
  rw [← hpm, hp'] at hgp
  cases hgp
  have hne' : ask ≠ offer.denom := fun e => hne e.symm
  have hk : pool.ptype = .cp → x * y ≤ x' * y' := by
    intro hcp
    rcases hassets with ha | ha
    · obtain ⟨x2, y2, e, hk⟩ := C03.performSwap_k_mono hp hcp ha hne hps
      rcases hassets' with ha' | ha' <;> rw [ha'] at e <;>
        simp only [List.cons.injEq, Coin.mk.injEq, and_true, true_and] at e
      · obtain ⟨rfl, rfl⟩ := e; exact hk
      · exact absurd e.1.1 hne'
    · obtain ⟨y2, x2, e, hk⟩ := C03.performSwap_k_mono hp hcp ha hne' hps
      rcases hassets' with ha' | ha' <;> rw [ha'] at e <;>
        simp only [List.cons.injEq, Coin.mk.injEq, and_true, true_and] at e
      · exact absurd e.1.1 hne
      · obtain ⟨rfl, rfl⟩ := e
        rw [Nat.mul_comm x y, Nat.mul_comm x' y']; exact hk
  have hres : x' = x + offer.amount ∧ y' + r.ret.amount + r.protocolFee.amount + r.burnFee.amount = y := by
    rcases hassets with ha | ha
    · obtain ⟨hle, e⟩ := MonSoundBL.swap_reserves_fst hp hne ha hps
      rcases hassets' with ha' | ha' <;> rw [ha'] at e <;>
        simp only [List.cons.injEq, Coin.mk.injEq, and_true, true_and] at e
      · obtain ⟨rfl, rfl⟩ := e; omega
      · exact absurd e.1.1 hne'
    · obtain ⟨hle, e⟩ := MonSoundBL.swap_reserves_snd hp hne ha hps
      rcases hassets' with ha' | ha' <;> rw [ha'] at e <;>
        simp only [List.cons.injEq, Coin.mk.injEq, and_true, true_and] at e
      · exact absurd e.1.1 hne
      · obtain ⟨rfl, rfl⟩ := e; omega
  unfold monSwapReserves
  apply MonSoundBL.firstFail_none
  simp only [List.all_cons, List.all_nil, Bool.and_true, Bool.and_eq_true, beq_iff_eq, Bool.or_eq_true,
    Bool.not_eq_true', decide_eq_true_eq]
  refine ⟨hres.1, hres.2, ?_⟩
  by_cases hcp : pool.ptype = .cp
  · exact Or.inr (hk hcp)
  · exact Or.inl (by simpa using hcp)

/-- Dropped (unnecessary) hypothesis of the original statement:
    `hdenoms : r.ret.denom = ask ∧ r.protocolFee.denom = ask ∧ r.burnFee.denom = ask` (it follows from `hps` by
    `C04.performSwap_ok`).

    `mon_swap_bank` (C04): bank deltas of a direct swap when sender, receiver, fee collector and pool manager are four
    different accounts: what the sender paid, what the receiver got (ask denom / offer denom), what the fee collector got, what
    the pool manager gained in the offer denom and lost in the ask denom, and the sum of everybody else's changes (zero) -/
theorem monSwapBank_sound (w w' : World) (u rcv : Addr) (offer : Coin) (ask : Denom) (b ms : Option Nat)
    (pid : String) (s1 : PmState) (r : SwapResult) (other : Addr)
    (hu : isContract u = false)
    (hne : offer.denom ≠ ask)
    (hrecv : addrOrDefault w.pmEnv (some rcv) u = rcv)
    (hdistinct : u ≠ rcv ∧ u ≠ w.pm.config.feeCollector ∧ rcv ≠ w.pm.config.feeCollector ∧ rcv ≠ PM ∧
      w.pm.config.feeCollector ≠ PM ∧ u ≠ PM)
    (hother : other ≠ u ∧ other ≠ rcv ∧ other ≠ w.pm.config.feeCollector ∧ other ≠ PM)
    (hps : performSwap w.pm offer ask pid b ms = .ok (s1, r))
    (h : runTx w (.exec u PM (.pm (.swap ask b ms (some rcv) pid)) [offer]) = .ok w') :
    monSwapBank offer.amount r.ret.amount r.protocolFee.amount r.burnFee.amount
      ((w.bank.bal u offer.denom : Int) - w'.bank.bal u offer.denom)
      ((w'.bank.bal rcv ask : Int) - w.bank.bal rcv ask)
      ((w'.bank.bal rcv offer.denom : Int) - w.bank.bal rcv offer.denom)
      ((w'.bank.bal w.pm.config.feeCollector ask : Int) - w.bank.bal w.pm.config.feeCollector ask)
      ((w'.bank.bal PM offer.denom : Int) - w.bank.bal PM offer.denom)
      ((w.bank.bal PM ask : Int) - w'.bank.bal PM ask)
      (((w'.bank.bal other ask : Int) - w.bank.bal other ask) + ((w'.bank.bal other offer.denom : Int) - w.bank.bal other offer.denom))
      = none := by
  obtain ⟨s1', r', hps', _, _, _, hbal⟩ := C04Sys.swap_tx_effect w w' u offer ask b ms (some rcv) pid hu h
  rw [hps] at hps'; cases hps'
  rw [hrecv] at hbal
  obtain ⟨_, _, _, _, _, _, _, _, _, _, _, _, _, _, _, _, hr1, hr2, hr3, _⟩ := C04.performSwap_ok hps
  have hd1 : r.ret.denom = ask := by rw [hr1]
  have hd2 : r.protocolFee.denom = ask := by rw [hr2]
  have hd3 : r.burnFee.denom = ask := by rw [hr3]
  obtain ⟨h1, h2, h3, h4, h5, h6⟩ := hdistinct
  obtain ⟨o1, o2, o3, o4⟩ := hother
  have hne' : ¬ ask = offer.denom := fun e => hne e.symm
  have e1 := hbal u offer.denom
  have e2 := hbal rcv ask
  have e3 := hbal rcv offer.denom
  have e4 := hbal w.pm.config.feeCollector ask
  have e5 := hbal PM offer.denom
  have e6 := hbal PM ask
  have e7 := hbal other ask
  have e8 := hbal other offer.denom
  simp only [C04Sys.at_, C04Sys.amt, hd1, hd2, hd3, hne, hne', if_true, if_false, h1, h2, h3, h4, h5, h6,
    Ne.symm h1, Ne.symm h2, Ne.symm h3, Ne.symm h4, Ne.symm h5, Ne.symm h6, o1, o2, o3, o4]
    at e1 e2 e3 e4 e5 e6 e7 e8
  unfold monSwapBank
  apply MonSoundBL.firstFail_none
  simp only [List.all_cons, List.all_nil, Bool.and_true, Bool.and_eq_true, beq_iff_eq]
  refine ⟨?_, ?_, ?_, ?_, ?_, ?_, ?_⟩ <;> omega

/-- `mon_withdrawpos` (C08 / C09) for an accepted EMERGENCY withdrawal of a not yet unlocked position when the owner, the fee
    collector and the farm owners are different accounts: what the owner got, what the fee collector got, what the active farm
    owners got together, what left the farm manager -/
theorem monWithdrawPos_emergency_sound (w w' : World) (u : Addr) (p : Position)
    (hp : w.fm.getPosition p.id = some p)
    (hnot : (⟨p.amount, p.unlocking, p.expiringAt⟩ : PosView).isExpired w.fmEnv.nowS = false)
    (active : List Farm) (hact : C09Sys.activeFarms w.fm w.fmEnv p.lpDenom = .ok active)
    (hroles : u ≠ w.fm.config.feeCollector ∧ u ≠ FM ∧ w.fm.config.feeCollector ≠ FM ∧
      u ∉ uniqueOwners active ∧ w.fm.config.feeCollector ∉ uniqueOwners active ∧ FM ∉ uniqueOwners active)
    (hnd : (uniqueOwners active).Nodup)
    (h : runTx w (.exec u FM (.fm (.withdrawPosition p.id (some true))) []) = .ok w') :
    monWithdrawPos p.amount
      ((w'.bank.bal u p.lpDenom : Int) - w.bank.bal u p.lpDenom)
      ((w'.bank.bal w.fm.config.feeCollector p.lpDenom : Int) - w.bank.bal w.fm.config.feeCollector p.lpDenom)
      (((uniqueOwners active).map fun a => (w'.bank.bal a p.lpDenom : Int) - w.bank.bal a p.lpDenom).foldl (· + ·) 0)
      ((w.bank.bal FM p.lpDenom : Int) - w'.bank.bal FM p.lpDenom)
      true (w'.fm.getPosition p.id).isNone = none := by
  obtain ⟨_, rate, active', sp, hrate, hact', hsp, hgone, _, _, hle, hbal⟩ :=
    C09Sys.emergency_withdraw_tx_effect w w' u p hp hnot h
  rw [hact] at hact'; cases hact'
  obtain ⟨r1, r2, r3, r4, r5, r6⟩ := hroles
  have hcap := C09.penalty_le_90pct (C09.penalty_le_cap hrate) hsp
  obtain ⟨_, hlt, _, hcases⟩ := C09.penaltySplit_ok hsp
  -- what the active farm owners get together
  have hsum : ((uniqueOwners active).map fun a => (w'.bank.bal a p.lpDenom : Int) - w.bank.bal a p.lpDenom).foldl
      (· + ·) 0 = ((sp.nFarmOwners * sp.perFarmOwner : Nat) : Int) := by
    rw [MonSoundBL.foldl_const _ _ (if sp.nFarmOwners ≠ 0 then (sp.perFarmOwner : Int) else 0)]
    · rcases hcases with ⟨_, _, hn, _⟩ | ⟨_, _, hn, _, _⟩ | ⟨_, _, _, hn, _⟩
      · simp [hn]
      · rw [hn]
        split
        · rw [Int.natCast_mul]; omega
        · next hz => simp only [ne_eq, Decidable.not_not] at hz; simp [hz]
      · simp [hn]
    · intro a ha
      have a1 : a ≠ u := fun e => r4 (e ▸ ha)
      have a2 : a ≠ w.fm.config.feeCollector := fun e => r5 (e ▸ ha)
      have a3 : a ≠ FM := fun e => r6 (e ▸ ha)
      have e := hbal a p.lpDenom
      simp only [C09Sys.at_, a1, a2, a3, ha, and_false, true_and, if_false] at e
      rw [e]
      split <;> omega
  have e1 := hbal u p.lpDenom
  have e2 := hbal w.fm.config.feeCollector p.lpDenom
  have e3 := hbal FM p.lpDenom
  simp only [C09Sys.at_, r1, r2, r3, r4, r5, r6, Ne.symm r1, Ne.symm r2, Ne.symm r3, and_false, false_and, true_and,
    if_false, if_true] at e1 e2 e3
  rw [hsum]
  unfold monWithdrawPos
  apply MonSoundBL.firstFail_none
  generalize sp.nFarmOwners * sp.perFarmOwner = Q at *
  simp only [List.all_cons, List.all_nil, Bool.and_true, Bool.and_eq_true, beq_iff_eq, Bool.or_eq_true,
    Bool.not_eq_true', decide_eq_true_eq, hgone, Option.isNone_none, Bool.true_or, Bool.not_true, Bool.false_or,
    true_and]
  refine ⟨?_, ?_, ⟨⟨?_, ?_⟩, ?_⟩, ?_⟩ <;> omega

end MantraDex.MonSoundB
