/-
  C19 (continued) — the y-solver of a stableswap swap is ACCURATE with respect to the quadratic it
  solves, for every input, not only "converged".

  `calculate_stableswap_y` forms integers `c`, `b` from the invariant value `d`, the other balances and
  the amplification, and runs the integer Newton step `y ← ⌊(y² + c) / (2y + b − d)⌋` until two
  successive iterates are within one unit.  The exact new balance of the ask asset is the positive root
  of the quadratic

        Q(y) = y² + (b − d)·y − c          (Q is convex, Q(0) = −c ≤ 0).

  Proved here, for all `c b d` and every value the solver can return:

  * `yStep_near_fixpoint_brackets_root`: if `y = step(prev)` and `|y − prev| ≤ 1` then
    `⌊root⌋ ∈ {y − 1, y}`, stated without reals through the sign change of `Q`
    (`Q z ≤ 0 < Q (z+1)` for `z = y` or `z = y − 1`);
  * `root_floor_unique`: that sign change pins `⌊root⌋` down uniquely among the naturals;
  * `stableswap_y_within_one_of_root`: therefore whatever `calculateStableswapY` returns is `⌊root⌋` or
    `⌊root⌋ + 1` of the quadratic of ITS OWN `c`, `b`, `d` — the solver never settles on a wrong answer, and
    its rounding is at most one unit of the pool's highest precision, upwards.

  What this does not give (and DESIGN.md §7 says so): that `c`, `b`, `d` themselves — computed with
  successive floor divisions, `d` by the Decimal256 Newton loop — are within the property's two units of
  the unbounded-precision solution; that clause stays validated by the exact-reference monitor.
-/
import MantraDex.Properties.C19

set_option linter.unusedSimpArgs false

namespace MantraDex.C19
open MantraDex

/-- the quadratic whose positive root is the exact new ask balance (integers, no rounding) -/
def Qy (c b d : Nat) (y : Int) : Int := y * y + ((b : Int) - (d : Int)) * y - (c : Int)

/-- one accepted Newton step, spelled out: `den = 2·prev + b − d > 0`, `y = ⌊(prev² + c)/den⌋` -/
theorem yStep_ok {c b d prev y : Nat} (h : stableYStep c b d prev = .ok y) :
    d ≤ prev + prev + b ∧ prev + prev + b - d ≠ 0 ∧ y = (prev * prev + c) / (prev + prev + b - d) := by
  unfold stableYStep at h
  simp only [bind_ok, ckMul_ok, ckAdd_ok, ckSub_ok, ckDiv_ok] at h
  obtain ⟨_, ⟨_, rfl⟩, _, ⟨_, rfl⟩, _, ⟨_, rfl⟩, _, ⟨_, rfl⟩, _, ⟨hle, rfl⟩, hne, rfl⟩ := h
  exact ⟨hle, hne, rfl⟩

/-- Newton's identity for the step: `prev² + c = prev·den − Q(prev)` -/
theorem yStep_identity (c b d prev : Nat) (hle : d ≤ prev + prev + b) :
    ((prev * prev + c : Nat) : Int) =
      (prev : Int) * ((prev + prev + b - d : Nat) : Int) - Qy c b d prev := by
  unfold Qy
  rw [Int.ofNat_sub hle]
  push_cast
  ring

/-- **accuracy of an accepted Newton step**: a near-fixpoint of the integer step brackets the positive
    root of the quadratic within one unit: `⌊root⌋ = y` or `⌊root⌋ = y − 1` -/
theorem yStep_near_fixpoint_brackets_root {c b d prev y : Nat}
    (h : stableYStep c b d prev = .ok y) (hnear : absDiff y prev ≤ 1) :
    (Qy c b d y ≤ 0 ∧ 0 < Qy c b d ((y : Int) + 1)) ∨
    (Qy c b d ((y : Int) - 1) ≤ 0 ∧ 0 < Qy c b d y) := by
  obtain ⟨hle, hne, hy⟩ := yStep_ok h
  have hid := yStep_identity c b d prev hle
  -- the two inequalities of the floor division, in ℤ
  have hden : (0 : Int) < ((prev + prev + b - d : Nat) : Int) := by
    have : 0 < prev + prev + b - d := Nat.pos_of_ne_zero hne
    exact_mod_cast this
  have hlo : (y : Int) * ((prev + prev + b - d : Nat) : Int) ≤ ((prev * prev + c : Nat) : Int) := by
    have : y * (prev + prev + b - d) ≤ prev * prev + c := by
      rw [hy]; exact Nat.div_mul_le_self _ _
    exact_mod_cast this
  have hhi : ((prev * prev + c : Nat) : Int) < ((y : Int) + 1) * ((prev + prev + b - d : Nat) : Int) := by
    have : prev * prev + c < (y + 1) * (prev + prev + b - d) := by
      rw [hy]
      have := Nat.lt_div_mul_add (a := prev * prev + c) (Nat.pos_of_ne_zero hne)
      rw [Nat.add_mul, Nat.one_mul]
      rw [Nat.mul_comm] at this
      exact this
    exact_mod_cast this
  have hdenEq : ((prev + prev + b - d : Nat) : Int) = 2 * (prev : Int) + (b : Int) - (d : Int) := by
    rw [Int.ofNat_sub hle]; push_cast; ring
  generalize ((prev + prev + b - d : Nat) : Int) = den at *
  -- |y − prev| ≤ 1: three cases
  have hcases : y = prev ∨ y + 1 = prev ∨ y = prev + 1 := by
    unfold absDiff at hnear; split at hnear <;> omega
  -- Q(prev) lies in ((prev − y − 1)·den, (prev − y)·den]
  have hQlo : ((prev : Int) - y - 1) * den < Qy c b d prev := by nlinarith
  have hQhi : Qy c b d prev ≤ ((prev : Int) - y) * den := by nlinarith
  -- Q(z ± 1) in terms of Q(z)
  have up : ∀ z : Int, Qy c b d (z + 1) = Qy c b d z + (2 * z + (b : Int) - (d : Int)) + 1 := by
    intro z; unfold Qy; ring
  have down : ∀ z : Int, Qy c b d (z - 1) = Qy c b d z - (2 * z + (b : Int) - (d : Int)) + 1 := by
    intro z; unfold Qy; ring
  -- (2z + b − d)² = 4·Q(z) + (b − d)² + 4c
  have disc : ∀ z : Int, (2 * z + (b : Int) - (d : Int)) ^ 2 =
      4 * Qy c b d z + ((b : Int) - (d : Int)) ^ 2 + 4 * (c : Int) := by
    intro z; unfold Qy; ring
  have hc0 : (0 : Int) ≤ (c : Int) := Int.natCast_nonneg c
  rcases hcases with rfl | hm | rfl
  · -- y = prev: −den < Q(y) ≤ 0 and Q(y+1) = Q(y) + den + 1 > 0
    left
    refine ⟨by nlinarith, ?_⟩
    rw [up]; nlinarith
  · -- y = prev − 1: 0 < Q(prev) ≤ den
    have hp : (prev : Int) = (y : Int) + 1 := by exact_mod_cast hm.symm
    have hQp : 0 < Qy c b d ((y : Int) + 1) := by rw [← hp]; nlinarith
    have hQp' : Qy c b d ((y : Int) + 1) ≤ den := by rw [← hp]; nlinarith
    by_cases hy0 : Qy c b d y ≤ 0
    · left; exact ⟨hy0, hQp⟩
    · right
      refine ⟨?_, by omega⟩
      -- Q(y) = Q(prev) − den + 1 ≤ 1, so Q(y) = 1; then (2y+b−d)² ≥ 4 and 2y+b−d = den − 2 > −2
      have hQy1 : Qy c b d y = 1 := by
        have h1 := up (y : Int)
        have : Qy c b d y ≤ 1 := by nlinarith
        omega
      have hd := disc (y : Int)
      have hsl : (2 : Int) ≤ 2 * (y : Int) + (b : Int) - (d : Int) := by
        have hge : (-1 : Int) ≤ 2 * (y : Int) + (b : Int) - (d : Int) := by
          have : den = 2 * ((y : Int) + 1) + (b : Int) - (d : Int) := by rw [hdenEq, hp]
          omega
        have hsq : (4 : Int) ≤ (2 * (y : Int) + (b : Int) - (d : Int)) ^ 2 := by
          rw [hd, hQy1]; nlinarith [sq_nonneg ((b : Int) - (d : Int))]
        by_contra hlt
        have hlt' : 2 * (y : Int) + (b : Int) - (d : Int) ≤ 1 := by omega
        nlinarith
      rw [down]; omega
  · -- y = prev + 1: −2·den < Q(prev) ≤ −den
    push_cast at hlo hhi hQlo hQhi ⊢
    have hQy := up (prev : Int)
    have hQyle : Qy c b d ((prev : Int) + 1) ≤ 1 := by nlinarith
    by_cases hy0 : Qy c b d ((prev : Int) + 1) ≤ 0
    · left
      refine ⟨hy0, ?_⟩
      rw [up ((prev : Int) + 1)]; nlinarith
    · right
      refine ⟨?_, by omega⟩
      have : (prev : Int) + 1 - 1 = prev := by ring
      rw [this]; nlinarith

/-- convexity with `Q(0) ≤ 0`: between `0` and a point where `Q ≤ 0`, `Q` stays `≤ 0` -/
theorem Qy_nonpos_below {c b d : Nat} {m z : Int} (h0 : 0 ≤ m) (hmz : m ≤ z)
    (hz : Qy c b d z ≤ 0) : Qy c b d m ≤ 0 := by
  have hc0 : (0 : Int) ≤ (c : Int) := Int.natCast_nonneg c
  rcases lt_or_ge 0 z with hzpos | hz0
  · -- z·Q(m) ≤ (z − m)·Q(0) + m·Q(z)  ⇔  z·m² ≤ m·z²
    have key : z * Qy c b d m ≤ (z - m) * (-(c : Int)) + m * Qy c b d z := by
      unfold Qy; nlinarith [mul_nonneg h0 (mul_nonneg h0 (sub_nonneg.mpr hmz)),
        mul_nonneg h0 (sub_nonneg.mpr hmz)]
    have h1 : (z - m) * (-(c : Int)) ≤ 0 := by nlinarith
    have h2 : m * Qy c b d z ≤ 0 := by nlinarith
    by_contra hpos
    have : 0 < Qy c b d m := by omega
    nlinarith
  · have : m = 0 := by omega
    subst this; unfold Qy; nlinarith

/-- the sign change `Q z ≤ 0 < Q (z+1)` characterises ⌊root⌋ uniquely among the naturals -/
theorem root_floor_unique {c b d : Nat} {z1 z2 : Nat}
    (h1 : Qy c b d z1 ≤ 0 ∧ 0 < Qy c b d ((z1 : Int) + 1))
    (h2 : Qy c b d z2 ≤ 0 ∧ 0 < Qy c b d ((z2 : Int) + 1)) : z1 = z2 := by
  rcases Nat.lt_trichotomy z1 z2 with h | h | h
  · have := Qy_nonpos_below (c := c) (b := b) (d := d) (m := (z1 : Int) + 1) (z := z2)
      (by omega) (by omega) h2.1
    omega
  · exact h
  · have := Qy_nonpos_below (c := c) (b := b) (d := d) (m := (z2 : Int) + 1) (z := z1)
      (by omega) (by omega) h1.1
    omega

/-- the coefficients `(c, b, d)` exactly as `calculate_stableswap_y` computes them before its Newton loop
    (the same operations in the same order as the model function, minus the loop) -/
def stableYCoeffs (p : PoolInfo) (offerDenom askDenom : String) (askPoolDec offerDec amp : Nat)
    (dir : Direction) : R (Nat × Nat × Nat) := do
  let n := p.assets.length
  let ann ← ckMul U512_MAX amp n
  let maxPrec ← match listMax p.decimals with | some m => pure m | none => .error .panic
  let dDec ← calculateStableswapD p n amp
  let d ← decToUintWithPrecision dDec maxPrec
  let xs ← stableXs p offerDenom askDenom askPoolDec offerDec dir maxPrec
  let poolSum ← xs.foldlM (fun acc x => ckAdd U512_MAX acc x) 0
  let c ← xs.foldlM (fun c x => do
    let cd ← ckMul U512_MAX c d
    let xn ← ckMul U512_MAX x n
    ckDiv cd xn) d
  let annN ← ckMul U512_MAX ann n
  let cd ← ckMul U512_MAX c d
  let c ← ckDiv cd annN
  let dOverAnn ← ckDiv d ann
  let b ← ckAdd U512_MAX poolSum dOverAnn
  pure (c, b, d)

/-- `calculate_stableswap_y` = its coefficients, then the Newton loop from `d`, then the u256 check -/
theorem calculateStableswapY_eq (p : PoolInfo) (od ad : String) (apd ofd amp : Nat) (dir : Direction) :
    calculateStableswapY p od ad apd ofd amp dir =
      (do let (c, b, d) ← stableYCoeffs p od ad apd ofd amp dir
          let y ← newtonIter C.NEWTON_ITERATIONS 1 (stableYStep c b d) d
          fit U256_MAX y) := by
  unfold calculateStableswapY stableYCoeffs
  rcases listMax p.decimals with _ | m
  · simp only [bind_assoc, pure_bind]
  · simp only [bind_assoc, pure_bind]

/-- **the y-solver is accurate**: every value `calculate_stableswap_y` returns is `⌊root⌋` or
    `⌊root⌋ + 1` of the quadratic with the coefficients `c`, `b`, `d` it computed from the pool -/
theorem stableswap_y_within_one_of_root {p : PoolInfo} {od ad : String} {apd ofd amp : Nat}
    {dir : Direction} {y : Nat} (h : calculateStableswapY p od ad apd ofd amp dir = .ok y) :
    ∃ c b d, stableYCoeffs p od ad apd ofd amp dir = .ok (c, b, d) ∧
      ((Qy c b d y ≤ 0 ∧ 0 < Qy c b d ((y : Int) + 1)) ∨
       (Qy c b d ((y : Int) - 1) ≤ 0 ∧ 0 < Qy c b d y)) := by
  rw [calculateStableswapY_eq] at h
  simp only [bind_ok] at h
  obtain ⟨⟨c, b, d⟩, hc, y', hy, hfit⟩ := h
  simp only [fit_ok] at hfit
  obtain ⟨_, rfl⟩ := hfit
  obtain ⟨prev, hs, hn⟩ := newton_ok_is_near_fixpoint _ _ _ _ _ hy
  exact ⟨c, b, d, hc, yStep_near_fixpoint_brackets_root hs hn⟩

/-- the loop refuses (`ConvergeError`) rather than return anything else: an answer that is not within one
    unit of the root is impossible (contrapositive form, for the record) -/
theorem stableswap_y_never_wrong {p : PoolInfo} {od ad : String} {apd ofd amp : Nat}
    {dir : Direction} {y c b d : Nat} (h : calculateStableswapY p od ad apd ofd amp dir = .ok y)
    (hc : stableYCoeffs p od ad apd ofd amp dir = .ok (c, b, d)) {z : Nat}
    (hz : Qy c b d z ≤ 0 ∧ 0 < Qy c b d ((z : Int) + 1)) : y = z ∨ y = z + 1 := by
  obtain ⟨c', b', d', hc', hbr⟩ := stableswap_y_within_one_of_root h
  rw [hc] at hc'
  simp only [Except.ok.injEq, Prod.mk.injEq] at hc'
  obtain ⟨rfl, rfl, rfl⟩ := hc'
  rcases hbr with hb | hb
  · left; exact root_floor_unique hb hz
  · right
    -- y ≥ 1 here: Q(y − 1) ≤ 0 < Q(y) and Q(−1)… need y − 1 ≥ 0: if y = 0 then Q(0) = −c ≤ 0, contradiction
    have hy1 : 1 ≤ y := by
      rcases Nat.eq_zero_or_pos y with h0 | h0
      · subst h0
        have : Qy c b d ((0 : Nat) : Int) ≤ 0 := by
          unfold Qy; have := Int.natCast_nonneg c; simp
        omega
      · exact h0
    have hcast : ((y - 1 : Nat) : Int) = (y : Int) - 1 := by omega
    have hb' : Qy c b d ((y - 1 : Nat) : Int) ≤ 0 ∧ 0 < Qy c b d (((y - 1 : Nat) : Int) + 1) := by
      rw [hcast]; refine ⟨hb.1, ?_⟩
      have : (y : Int) - 1 + 1 = y := by ring
      rw [this]; exact hb.2
    have := root_floor_unique hb' hz
    omega

/-! Non-vacuity: an accepted step at a near-fixpoint (balanced two-asset pool of 10^6 + 10^6,
    `d = 2·10^6`, offer 1000, amp·n = 200: c, b as the code computes them) -/
example : stableYStep 9990005000 1011000 2000000 999000 = .ok 999000 := by decide +kernel
example : Qy 9990005000 1011000 2000000 999000 ≤ 0 ∧ 0 < Qy 9990005000 1011000 2000000 (999000 + 1) := by
  decide

end MantraDex.C19
