/-
  C07, last clause: "the Rewards query always equals what an immediate Claim pays" — for ANY number of
  LP tokens (C07.query_eq_claim_single_lp covers users whose open positions are all in one LP token).

  `fmClaim` walks the user's LP tokens one after the other and, between two of them, writes the farms'
  `claimed` amounts and compacts the user's weight history of the LP token just handled; `queryRewards`
  walks the same LP tokens on the unchanged state.  The two agree because what is written for one LP
  token is never read for another.
-/
import MantraDex.Model.FarmManager
import MantraDex.Properties.C07
import MantraDex.Proofs.QueryClaim

set_option linter.unusedSimpArgs false
set_option linter.unusedVariables false

namespace MantraDex.C07Q
open MantraDex

/-!
### The two statements as first written are false: farm identifiers must be unique

`FmState.saveFarm` overwrites EVERY stored farm whose identifier equals the saved farm's.  If two farms of
two different LP tokens carry the same identifier (impossible in a reachable state, see
`C05Sys.FmInv.farmNodup` / `C11Sys.farm_ids_nodup_step`), the claim loop, when it writes the `claimed` amount
of the first LP token's farm, also replaces the second LP token's farm by a copy of the first one — so the
second LP token has no farm left when its turn comes and the claim pays less than the query promised.

Concretely (`cxS` below): user `u` has one open position in LP token `a` and one in `b`; farms
`{id "x", lp "a"}` and `{id "x", lp "b"}`, each emitting 10 `r` per epoch, the user holding the whole weight.
`queryRewards … (some 2)` answers `[40 r]` (2 epochs × 10 × 2 farms) while the accepted `fmClaim` sends `[20 r]`.

Original statements (kept for the record, refuted by `query_eq_claim_counterexample` and
`query_nonempty_claim_pays_or_refuses_counterexample`):

    theorem query_eq_claim {s s' : FmState} {env : FmEnv} {sender : Addr} {u : Option Nat} {r : Response}
        (hv : env.validAddr sender = true)
        (h : fmClaim s env sender [] u = .ok (s', r)) :
        ∃ coins, queryRewards s env sender u = .ok coins ∧
          r.msgs.map (·.msg) = (if coins.isEmpty then [] else [Msg.bankSend sender coins])

    theorem query_nonempty_claim_pays_or_refuses {s : FmState} {env : FmEnv} {sender : Addr} {u : Option Nat}
        {coins : List Coin}
        (hq : queryRewards s env sender u = .ok coins) :
        (∃ s' r, fmClaim s env sender [] u = .ok (s', r) ∧
          r.msgs.map (·.msg) = (if coins.isEmpty then [] else [Msg.bankSend sender coins])) ∨
        (∃ e, fmClaim s env sender [] u = .error e)

The repaired versions `…_partial` add the hypothesis `(s.farms.map (·.id)).Nodup` (the invariant
`C05Sys.FmInv.farmNodup` of every reachable state) and nothing else; in particular `sender = env.self` is
allowed.
-/

def cxCfg : FmConfig := ⟨"fc", "em", "pm", ⟨"uom", 0⟩, 10, 14, 86400, 31536000, 100, 0⟩

/-- two farms with the SAME identifier `x`, one per LP token -/
def cxS : FmState :=
  { config := cxCfg
    positions := [⟨"p1", "a", 10, 86400, true, none, "u"⟩, ⟨"p2", "b", 10, 86400, true, none, "u"⟩]
    farms := [⟨"x", "o", "a", "r", 1000, 0, 10, 1, 5⟩, ⟨"x", "o", "b", "r", 1000, 0, 10, 1, 5⟩]
    hist := fun _ _ => [(1, 10)]
    owner := ⟨none, none, none⟩ }

/-- day-long epochs from genesis 0, now = start of epoch 3 -/
def cxEnv : FmEnv := ⟨"c", 3 * 86400 * NANOS, fun _ => true, fun _ => some ⟨86400, 0⟩⟩

def sentCoins : Msg → List Coin
  | .bankSend _ cs => cs
  | _ => []

theorem cx_lps : uniqueDenoms (cxS.positionsBy "u" true) = ["a", "b"] := by
  have h1 : cxS.positionsBy "u" true = cxS.positions := by decide
  rw [h1]
  unfold uniqueDenoms
  have h2 : (cxS.positions.map (·.lpDenom)).foldl
      (fun acc d => if acc.contains d then acc else (acc ++ [d])) [] = ["a", "b"] := by decide
  rw [h2]
  simp [List.mergeSort]

/-- the query promises 40 -/
theorem cx_query : queryRewards cxS cxEnv "u" (some 2) = .ok [⟨"r", 40⟩] := by
  unfold queryRewards
  simp only [cx_lps]
  decide

/-- the claim is accepted and sends 20 -/
theorem cx_claim : (fmClaim cxS cxEnv "u" [] (some 2)).map
    (fun p => p.2.msgs.map (fun m => sentCoins m.msg)) = .ok [[⟨"r", 20⟩]] := by
  unfold fmClaim
  simp only [cx_lps]
  decide

/-- the farm identifiers of the counterexample are indeed not unique -/
theorem cx_not_nodup : ¬ (cxS.farms.map (·.id)).Nodup := by decide

theorem cx_claim_ok : ∃ s' r, fmClaim cxS cxEnv "u" [] (some 2) = .ok (s', r) ∧
    r.msgs.map (fun m => sentCoins m.msg) = [[⟨"r", 20⟩]] := by
  have h := cx_claim
  cases hc : fmClaim cxS cxEnv "u" [] (some 2) with
  | error e => rw [hc] at h; cases h
  | ok p =>
    rw [hc] at h
    simp only [Except.map, Except.ok.injEq] at h
    exact ⟨p.1, p.2, rfl, h⟩

/-- `query_eq_claim` without unique farm identifiers is false -/
theorem query_eq_claim_counterexample :
    cxEnv.validAddr "u" = true ∧
    ∃ s' r, fmClaim cxS cxEnv "u" [] (some 2) = .ok (s', r) ∧
      ¬ ∃ coins, queryRewards cxS cxEnv "u" (some 2) = .ok coins ∧
        r.msgs.map (·.msg) = (if coins.isEmpty then [] else [Msg.bankSend "u" coins]) := by
  refine ⟨rfl, ?_⟩
  obtain ⟨s', r, hc, hr⟩ := cx_claim_ok
  refine ⟨s', r, hc, ?_⟩
  rintro ⟨coins, hq, hm⟩
  rw [cx_query] at hq
  cases hq
  have : r.msgs.map (fun m => sentCoins m.msg) = (r.msgs.map (·.msg)).map sentCoins := by
    rw [List.map_map]; rfl
  rw [this, hm] at hr
  revert hr
  decide

/-- `query_nonempty_claim_pays_or_refuses` without unique farm identifiers is false: the query answers
    `[40 r]`, the claim is neither refused nor pays that -/
theorem query_nonempty_claim_pays_or_refuses_counterexample :
    queryRewards cxS cxEnv "u" (some 2) = .ok [⟨"r", 40⟩] ∧
    ¬ ((∃ s' r, fmClaim cxS cxEnv "u" [] (some 2) = .ok (s', r) ∧
        r.msgs.map (·.msg) =
          (if ([⟨"r", 40⟩] : List Coin).isEmpty then [] else [Msg.bankSend "u" [⟨"r", 40⟩]])) ∨
      (∃ e, fmClaim cxS cxEnv "u" [] (some 2) = .error e)) := by
  refine ⟨cx_query, ?_⟩
  obtain ⟨s0, r0, hc, hr⟩ := cx_claim_ok
  rintro (⟨s', r, hc', hm⟩ | ⟨e, he⟩)
  · rw [hc] at hc'
    simp only [Except.ok.injEq, Prod.mk.injEq] at hc'
    obtain ⟨_, rfl⟩ := hc'
    have : r0.msgs.map (fun m => sentCoins m.msg) = (r0.msgs.map (·.msg)).map sentCoins := by
      rw [List.map_map]; rfl
    rw [this, hm] at hr
    revert hr
    decide
  · rw [hc] at he; cases he

/-! ### the repaired statements -/

/-- the Rewards query and an accepted Claim on the same state: the query answers, and the claim sends
    exactly the query's coins to the claimer (nothing when there is nothing).

    Added with respect to the original statement: `hn`, farm identifiers are unique (the reachable-state
    invariant `C05Sys.FmInv.farmNodup`).  It is needed because `saveFarm` replaces every farm carrying the
    saved identifier: see `query_eq_claim_counterexample`. -/
theorem query_eq_claim_partial {s s' : FmState} {env : FmEnv} {sender : Addr} {u : Option Nat}
    {r : Response}
    (hn : (s.farms.map (·.id)).Nodup)
    (hv : env.validAddr sender = true)
    (h : fmClaim s env sender [] u = .ok (s', r)) :
    ∃ coins, queryRewards s env sender u = .ok coins ∧
      r.msgs.map (·.msg) = (if coins.isEmpty then [] else [Msg.bankSend sender coins]) :=
  QueryClaim.query_eq_claim hn hv h

/-- … and conversely the query never promises what a claim would not pay: if the query answers, a claim
    on the same state is either accepted (and pays exactly that, by `query_eq_claim_partial`) or refused
    as a whole.

    Added with respect to the original statement: `hn`, farm identifiers are unique (see
    `query_nonempty_claim_pays_or_refuses_counterexample`). -/
theorem query_nonempty_claim_pays_or_refuses_partial {s : FmState} {env : FmEnv} {sender : Addr}
    {u : Option Nat} {coins : List Coin}
    (hn : (s.farms.map (·.id)).Nodup)
    (hq : queryRewards s env sender u = .ok coins) :
    (∃ s' r, fmClaim s env sender [] u = .ok (s', r) ∧
      r.msgs.map (·.msg) = (if coins.isEmpty then [] else [Msg.bankSend sender coins])) ∨
    (∃ e, fmClaim s env sender [] u = .error e) := by
  cases hc : fmClaim s env sender [] u with
  | error e => exact Or.inr ⟨e, rfl⟩
  | ok p =>
    obtain ⟨s', r⟩ := p
    obtain ⟨coins', hq', hm⟩ := QueryClaim.query_eq_claim hn (QueryClaim.query_ok_valid hq) hc
    rw [hq] at hq'
    cases hq'
    exact Or.inl ⟨s', r, rfl, hm⟩

end MantraDex.C07Q
